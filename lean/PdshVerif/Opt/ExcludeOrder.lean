/-
  C02: consequences of the composition theorem `cliWords_correct` (Opt/ExcludeCompose.lean)
   * ORDER INDEPENDENCE OF THE MODEL: any permutation of the words that keeps the target words in their
     relative order leads `wcoll_arg_process … wcoll_apply_regex` to the same hosts;
   * the pipeline ENDS (no `diverge`, no exhausted fuel) whatever the number of exclusion words and filters;
   * the `-w` / `-x` OPTION level: `list_split` and the `-` that `wcoll_append_excluded` puts in front of every
     piece give back the words;
   * edge cases of the filters: a pattern that matches every host / no host, the keep filter and the drop filter are complements.
-/
import PdshVerif.Opt.ExcludeCompose
import PdshVerif.Opt.WcollSplit

namespace PdshVerif.Opt.Exclude
open PdshVerif.Hostlist

/-! ### the three projections of a word list under permutation -/
def CW.isTgt : CW → Bool
  | .tgt _ => true
  | _ => false

theorem xcls_perm {a b : List CW} (h : a.Perm b) : (xcls a).Perm (xcls b) := by
  induction h with
  | nil => exact .nil
  | cons x _ ih => cases x <;> simp [xcls, ih]
  | swap x y l => cases x <;> cases y <;> simp [xcls, List.Perm.swap]
  | trans _ _ ih1 ih2 => exact ih1.trans ih2

theorem regs_perm {a b : List CW} (h : a.Perm b) : (regs a).Perm (regs b) := by
  induction h with
  | nil => exact .nil
  | cons x _ ih => cases x <;> simp [regs, ih]
  | swap x y l => cases x <;> cases y <;> simp [regs, List.Perm.swap]
  | trans _ _ ih1 ih2 => exact ih1.trans ih2

theorem tgts_eq_filterMap (ws : List CW) :
    tgts ws = ws.filterMap (fun | .tgt w => some w | _ => none) := by
  induction ws with
  | nil => rfl
  | cons x r ih => cases x <;> simp [tgts, ih]

/-- `specWords` only looks at the target words in order, the SET of excluded names and the SET of filters -/
theorem specWords_congr (env : Env) (a b : List CW) (ht : tgts a = tgts b) (hx : (xcls a).Perm (xcls b))
    (hr : (regs a).Perm (regs b)) : specWords env a = specWords env b := by
  unfold specWords
  rw [ht]
  have h1 : ∀ h, (Spec.expand₁ (xcls a)).contains h = (Spec.expand₁ (xcls b)).contains h := by
    intro h
    rw [Bool.eq_iff_iff]
    simp only [List.contains_iff_mem, Spec.expand₁, List.mem_flatMap]
    constructor
    · rintro ⟨w, hw, hh⟩; exact ⟨w, hx.mem_iff.mp hw, hh⟩
    · rintro ⟨w, hw, hh⟩; exact ⟨w, hx.mem_iff.mpr hw, hh⟩
  have h2 : ∀ h, keepAll env (regs a) h = keepAll env (regs b) h := by
    intro h
    rw [Bool.eq_iff_iff]
    simp only [keepAll, List.all_eq_true]
    constructor
    · intro hh p hp; exact hh p (hr.mem_iff.mpr hp)
    · intro hh p hp; exact hh p (hr.mem_iff.mp hp)
  have e1 : (fun h => !(Spec.expand₁ (xcls a)).contains h) = (fun h => !(Spec.expand₁ (xcls b)).contains h) :=
    funext fun h => by rw [h1 h]
  have e2 : keepAll env (regs a) = keepAll env (regs b) := funext h2
  rw [e1, e2]

/-- the hypotheses of the composition theorem only depend on WHICH target / exclusion / filter words there are -/
theorem Domain.congr {cfg : Cfg} {env : Env} {a b : List CW} (hd : Domain cfg env a) (ht : tgts b = tgts a)
    (hx : (xcls b).Perm (xcls a)) (hr : (regs b).Perm (regs a)) : Domain cfg env b where
  words := ⟨fun w hw => hd.words.tgt w (by rw [← ht]; exact hw), fun w hw => hd.words.xcl w (hx.mem_iff.mp hw),
    fun p hp => hd.words.re p (hr.mem_iff.mp hp)⟩
  some := by rw [ht]; exact hd.some
  one := fun w hw => hd.one w (by rw [← ht]; exact hw)
  dom2 := fun w hw => hd.dom2 w (by rw [← ht]; exact hw)
  entries := fun w hw => hd.entries w (hx.mem_iff.mp hw)
  entries2 := fun h2 w hw => hd.entries2 h2 w (hx.mem_iff.mp hw)
  oracle := fun p hp h hh => hd.oracle p (hr.mem_iff.mp hp) h (by rw [← ht]; exact hh)
  low := by rw [ht]; exact hd.low

/-- ORDER INDEPENDENCE OF THE MODEL.  Two command lines made of the same words — `b` a permutation of `a` in
    which the TARGET words keep their relative order; exclusion words and filters may stand anywhere, before,
    between or after the targets, in any order among themselves — lead the model of
    `wcoll_arg_process` / `wcoll_apply_excluded` / `wcoll_apply_regex` / `wcoll_expand` to the same result. -/
theorem cliWords_order_independent (cfg : Cfg) (hD1 : cfg.fixDeleteAll = true) (hD17 : cfg.fixIterSuffix = true)
    (hD19 : cfg.fixRemoveDepth = true) (env : Env) (a b : List CW) (hd : Domain cfg env a)
    (hp : a.Perm b) (ht : tgts a = tgts b) :
    cliWords cfg env (b.map CW.text) = cliWords cfg env (a.map CW.text) := by
  have hx := xcls_perm hp
  have hr := regs_perm hp
  rw [cliWords_correct cfg hD1 hD17 hD19 env a hd,
    cliWords_correct cfg hD1 hD17 hD19 env b (hd.congr ht.symm hx.symm hr.symm),
    specWords_congr env a b ht hx hr]

/-! ### the pipeline ends -/
/-- does the result say that pdsh never gets out of `opt_args` (or that the model ran out of fuel)? -/
def Res.ends : Res → Bool
  | .diverge => false
  | .ub _ => false
  | .tablemiss _ _ => false
  | _ => true

/-- TERMINATION: whatever the number of exclusion words, their sizes and the number of filters — with the
    fuel the driver really passes (`popAll`: hosts + 1, `filterLoop`: (hosts + 2)², `pushLoop`: 13,
    `wcollExpand` / `create`: their own) — the model of `opt_args` reaches its end with a list of hosts -/
theorem cliWords_ends (cfg : Cfg) (hD1 : cfg.fixDeleteAll = true) (hD17 : cfg.fixIterSuffix = true)
    (hD19 : cfg.fixRemoveDepth = true) (env : Env) (ws : List CW) (hd : Domain cfg env ws) :
    (cliWords cfg env (ws.map CW.text)).ends = true := by
  rw [cliWords_correct cfg hD1 hD17 hD19 env ws hd]; rfl

/-! ### the option level -/
/-- the comma list of an option argument -/
def optText (ws : List Str) : Str := Wcoll.joinComma ws

/-- a group of words written as ONE `-w` argument: `list_split` gives the words back
    (`pieceOK`: non-empty, brackets balanced, no comma outside brackets) -/
theorem evWords_w (ws : List Str) (hok : ∀ p ∈ ws, Wcoll.pieceOK p = true) (hd : optText ws ≠ ['-']) :
    evWords (.w (optText ws)) = ws := by
  unfold optText at hd ⊢
  simp only [evWords]
  rw [if_neg hd]
  exact Wcoll.listSplit_join ws hok

/-- a group of exclusion pieces written as ONE `-x` argument: every piece reaches `wcoll_arg_process`
    with a `-` in front (`wcoll_append_excluded`) -/
theorem evWords_x (ps : List Str) (hok : ∀ p ∈ ps, Wcoll.pieceOK p = true)
    (hok' : ∀ p ∈ ps, Wcoll.pieceOK ('-' :: p) = true) :
    evWords (.x (optText ps)) = ps.map ('-' :: ·) := by
  unfold optText
  simp only [evWords]
  rw [Wcoll.listSplit_join ps hok]
  induction ps with
  | nil => rfl
  | cons p r ih =>
    simp only [List.flatMap_cons, List.map_cons]
    rw [ih (fun q hq => hok q (by simp [hq])) (fun q hq => hok' q (by simp [hq]))]
    have := Wcoll.listSplit_join ['-' :: p] (by simpa using hok' p (by simp))
    simp only [Wcoll.joinComma] at this
    rw [this]; rfl

/-- `-x LIST` and the same pieces written as dash words of a `-w` argument reach `wcoll_arg_process` as the very
    same words — whatever the pieces are (host words, caret-file words, filters) -/
theorem evWords_x_eq_w (ps : List Str) (hok : ∀ p ∈ ps, Wcoll.pieceOK p = true)
    (hok' : ∀ p ∈ ps, Wcoll.pieceOK ('-' :: p) = true) (hd : optText (ps.map ('-' :: ·)) ≠ ['-']) :
    evWords (.x (optText ps)) = evWords (.w (optText (ps.map ('-' :: ·)))) := by
  rw [evWords_x ps hok hok', evWords_w _ (fun p hp => by
    obtain ⟨q, hq, rfl⟩ := List.mem_map.mp hp
    exact hok' q hq) hd]

/-- EVERY SOURCE OF EXCLUSIONS, one mechanism: replacing a `-x LIST` option by `-w` with the dashed pieces leaves
    the result of `opt_args` unchanged — for every variant of the code, any other options before and after -/
theorem cliFinal_x_eq_dash_w (cfg : Cfg) (env : Env) (pre post : List Ev) (ps : List Str)
    (hok : ∀ p ∈ ps, Wcoll.pieceOK p = true) (hok' : ∀ p ∈ ps, Wcoll.pieceOK ('-' :: p) = true)
    (hd : optText (ps.map ('-' :: ·)) ≠ ['-']) :
    cliFinal cfg env (pre ++ [.x (optText ps)] ++ post) =
      cliFinal cfg env (pre ++ [.w (optText (ps.map ('-' :: ·)))] ++ post) := by
  rw [cliFinal_eq_cliWords, cliFinal_eq_cliWords]
  simp only [List.flatMap_append, List.flatMap_cons, List.flatMap_nil, List.append_nil]
  rw [evWords_x_eq_w ps hok hok' hd]

/-- one option of the command line, by meaning: `-w` with any words, `-x` with exclusion words and
    filters (every piece of a `-x` argument is taken as excluded) -/
inductive OptG where
  | w (ws : List CW)
  | x (ws : List CW)

/-- what is typed for a word inside a `-x` argument: the word without the dash -/
def CW.xpiece : CW → Str
  | .xcl w => Spec.renderWord w
  | .re _ p => '/' :: (p ++ ['/'])
  | .tgt w => Spec.renderWord w

def OptG.words : OptG → List CW
  | .w ws => ws
  | .x ws => ws

/-- the option as `getopt` hands it to `opt_args` -/
def OptG.ev : OptG → Ev
  | .w ws => .w (optText (ws.map CW.text))
  | .x ws => .x (optText (ws.map CW.xpiece))

/-- a word that may stand in a `-x` argument -/
def CW.inX : CW → Bool
  | .xcl _ => true
  | .re true _ => true
  | _ => false

/-- the pieces survive `list_split` (decidable) -/
def OptG.ok : OptG → Bool
  | .w ws => ws.all (fun w => Wcoll.pieceOK w.text) && decide (optText (ws.map CW.text) ≠ ['-'])
  | .x ws => ws.all fun w => w.inX && Wcoll.pieceOK w.xpiece && Wcoll.pieceOK ('-' :: w.xpiece)

theorem CW.text_of_inX (w : CW) (h : w.inX = true) : w.text = '-' :: w.xpiece := by
  cases w with
  | tgt _ => simp [CW.inX] at h
  | xcl _ => rfl
  | re ex p => cases ex <;> simp [CW.inX] at h; rfl

/-- the words `wcoll_arg_process` sees for one option are the words of the group -/
theorem evWords_group (g : OptG) (h : g.ok = true) : evWords g.ev = g.words.map CW.text := by
  cases g with
  | w ws =>
    simp only [OptG.ok, Bool.and_eq_true, List.all_eq_true, decide_eq_true_eq] at h
    exact evWords_w _ (fun p hp => by obtain ⟨w, hw, rfl⟩ := List.mem_map.mp hp; exact h.1 w hw) h.2
  | x ws =>
    simp only [OptG.ok, List.all_eq_true, Bool.and_eq_true] at h
    simp only [OptG.ev, OptG.words]
    rw [evWords_x _ (fun p hp => by obtain ⟨w, hw, rfl⟩ := List.mem_map.mp hp; exact (h w hw).1.2)
      (fun p hp => by obtain ⟨w, hw, rfl⟩ := List.mem_map.mp hp; exact (h w hw).2), List.map_map]
    apply List.map_congr_left
    intro w hw
    exact (CW.text_of_inX w (h w hw).1.1).symm

theorem evWords_groups : ∀ (gs : List OptG), (∀ g ∈ gs, g.ok = true) →
    (gs.map OptG.ev).flatMap evWords = (gs.flatMap OptG.words).map CW.text
  | [], _ => rfl
  | g :: gs, h => by
    simp only [List.map_cons, List.flatMap_cons, List.map_append]
    rw [evWords_group g (h g (by simp)), evWords_groups gs (fun x hx => h x (by simp [hx]))]

/-- EXCLUSION CORRECT, FROM THE OPTIONS: the command line as a list of `-w LIST` / `-x LIST` options (in
    any order, any grouping of the words into options) leads `opt_args` to the specification's hosts -/
theorem cliFinal_options (cfg : Cfg) (hD1 : cfg.fixDeleteAll = true) (hD17 : cfg.fixIterSuffix = true)
    (hD19 : cfg.fixRemoveDepth = true) (env : Env) (gs : List OptG) (hok : ∀ g ∈ gs, g.ok = true)
    (hd : Domain cfg env (gs.flatMap OptG.words)) :
    cliFinal cfg env (gs.map OptG.ev) = .ok (specWords env (gs.flatMap OptG.words)) := by
  rw [cliFinal_eq_cliWords, evWords_groups gs hok]
  exact cliWords_correct cfg hD1 hD17 hD19 env _ hd

/-- ... and the grouping does not matter: two command lines whose options hold the same words, the target
    words in the same relative order, contact the same hosts -/
theorem cliFinal_grouping_independent (cfg : Cfg) (hD1 : cfg.fixDeleteAll = true) (hD17 : cfg.fixIterSuffix = true)
    (hD19 : cfg.fixRemoveDepth = true) (env : Env) (g1 g2 : List OptG) (h1 : ∀ g ∈ g1, g.ok = true)
    (h2 : ∀ g ∈ g2, g.ok = true) (hd : Domain cfg env (g1.flatMap OptG.words))
    (hp : (g1.flatMap OptG.words).Perm (g2.flatMap OptG.words))
    (ht : tgts (g1.flatMap OptG.words) = tgts (g2.flatMap OptG.words)) :
    cliFinal cfg env (g2.map OptG.ev) = cliFinal cfg env (g1.map OptG.ev) := by
  rw [cliFinal_eq_cliWords, cliFinal_eq_cliWords, evWords_groups g1 h1, evWords_groups g2 h2]
  exact cliWords_order_independent cfg hD1 hD17 hD19 env _ _ hd hp ht

/-! ### filters: everything, nothing, complement -/
theorem keepOf_keep {m : Str → Option Bool} {h : Str} {b : Bool} (hm : m h = some b) : keepOf m false h = b := by
  simp [keepOf, hm]

theorem keepOf_drop {m : Str → Option Bool} {h : Str} {b : Bool} (hm : m h = some b) : keepOf m true h = !b := by
  simp [keepOf, hm]

/-- the keep filter (slash re slash) and the drop filter (the same behind a dash) split the list: every occurrence of every host is in exactly one of the two results -/
theorem filter_keep_drop_count (m : Str → Option Bool) (x : Str) : ∀ (l : List Str), (∀ h ∈ l, (m h).isSome = true) →
    (l.filter (keepOf m false)).count x + (l.filter (keepOf m true)).count x = l.count x
  | [], _ => rfl
  | h :: t, hm => by
    have ih := filter_keep_drop_count m x t (fun y hy => hm y (by simp [hy]))
    obtain ⟨b, hb⟩ := Option.isSome_iff_exists.mp (hm h (by simp))
    cases b <;> simp only [List.filter_cons, keepOf_keep hb, keepOf_drop hb, Bool.not_true, Bool.not_false,
      Bool.false_eq_true, ↓reduceIte, List.count_cons] <;> omega

theorem filter_all_true {l : List Str} {p : Str → Bool} (h : ∀ x ∈ l, p x = true) : l.filter p = l :=
  List.filter_eq_self.mpr h

theorem filter_all_false {l : List Str} {p : Str → Bool} (h : ∀ x ∈ l, p x = false) : l.filter p = [] :=
  List.filter_eq_nil_iff.mpr (fun x hx => by simp [h x hx])

end PdshVerif.Opt.Exclude
