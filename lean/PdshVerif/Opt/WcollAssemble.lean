import PdshVerif.Opt.WcollPaths

/-! opt.c's processing of the `-w` / `-x` options and the WCOLL fallback refines the
specification's `assemble` -/
namespace PdshVerif.Opt.Wcoll
open PdshVerif.Opt

variable (mode : LineMode) (fs : FS)

/-- the argument a source is written as (after the `-w` option was split at commas, or a `-x`
piece got its `-`) -/
def argOf : WcollSpec.Source → Str
  | .word w => w
  | .file p => '^' :: p
  | .stdin => ['^', '-']
  | .xfile p => '-' :: '^' :: p

/-- a plain `-w` word of C10's domain: it does not start with `-` (exclusion, C02), `^`, `/`
(regex, C02) or a blank, and holds neither `:` nor `@` (rcmd type, user: C09) -/
structure WordOK (w : Str) : Prop where
  head : ∀ c r, w = c :: r → c ≠ '-' ∧ c ≠ '^' ∧ c ≠ '/' ∧ isspaceC c = false
  noColon : ':' ∉ w
  noAt : '@' ∉ w

/-- a `^file` of C10's domain: a plain path whose directory holds no colon, over a well-formed file
system (lines that fit the reader's buffer; no condition for the repaired reader) -/
structure FileOK (p : Str) : Prop where
  notDash : p ≠ ['-']
  plain : PlainPath p
  noColon : ':' ∉ WcollSpec.dirOf p
  fsok : FsOK mode.cap (WcollSpec.dirOf p) fs

def SrcOK : WcollSpec.Source → Prop
  | .word w => WordOK w
  | .file p => FileOK mode fs p
  | .stdin => FsOK mode.cap ['.'] fs
  | .xfile p => FileOK mode fs p

/-- option state and specification state agree -/
structure ARel (st : St) (r : WcollSpec.Result × Str) : Prop where
  fatal : st.fatal = r.1.error
  nwarn : st.nwarn = r.1.skipped
  stdinOK : ContentOK mode.cap ['.'] r.2
  ok : st.fatal = false → st.exprs = r.1.exprs ∧ st.excl = r.1.excluded ∧ st.stdin = r.2

theorem contentOK_nil (cap : Option Nat) (hcap : ∀ n, cap = some n → 0 < n) (d : Str) :
    ContentOK cap d [] :=
  ⟨[], [], rfl, by simp, ⟨by simp, by simp, by simp⟩, fun n hn => by simpa using hcap n hn⟩

theorem hostPart_plain {w : Str} (h1 : ':' ∉ w) (h2 : '@' ∉ w) : hostPart w = some w := by
  unfold hostPart
  simp only [List.idxOf_eq_length h1, List.idxOf_eq_length h2, Nat.lt_irrefl, false_and, and_false,
    if_false]

/-- what `wcoll_arg_process` does with the argument of a source is what the specification does
with the source -/
theorem argProcess_addSource (hcap : ∀ n, mode.cap = some n → 0 < n) (s : WcollSpec.Source)
    (hok : SrcOK mode fs s) (st : St) (r : WcollSpec.Result × Str) (hR : ARel mode st r) :
    ARel mode (argProcess mode fs st (argOf s)) (WcollSpec.addSource fs r s) ∧
    ((argProcess mode fs st (argOf s)).fatal = false →
      (argProcess mode fs st (argOf s)).created = (st.created || s.isTarget)) := by
  by_cases hf : st.fatal = true
  · have he : r.1.error = true := by rw [← hR.fatal]; exact hf
    rw [argProcess_fatal mode fs st hf]
    simp only [WcollSpec.addSource, he, if_true]
    exact ⟨hR, fun h => by rw [hf] at h; simp at h⟩
  · have hf' : st.fatal = false := by simpa using hf
    have he : r.1.error = false := by rw [← hR.fatal]; exact hf'
    obtain ⟨hex, hxl, hsi⟩ := hR.ok hf'
    -- a `^file` argument, excluded or not
    have fileCase : ∀ (p : Str) (ex : Bool), FileOK mode fs p →
        let st' := absorb st ex (readWcoll mode fs st.stdin p)
        let a := WcollSpec.fileHosts fs p
        st'.fatal = a.error ∧ st'.nwarn = r.1.skipped + a.skipped ∧ st'.stdin = st.stdin ∧
        (a.error = false →
          st'.exprs = (if ex then st.exprs else st.exprs ++ a.exprs) ∧
          st'.excl = (if ex then st.excl ++ a.exprs else st.excl) ∧
          st'.created = (if ex then st.created else true)) := by
      intro p ex hp
      obtain ⟨e1, e2, e3⟩ := file_source_spec_partial' mode fs st.stdin p hp.notDash
        (search_path_of_plain p hp.plain hp.noColon) hp.fsok
      have hstd : (readWcoll mode fs st.stdin p).2 = st.stdin := by
        unfold readWcoll
        rw [if_neg hp.notDash]
        split
        · rfl
        · split <;> rfl
      simp only [absorb, hf', hstd]
      cases hfa : (readWcoll mode fs st.stdin p).1.fatal with
      | true =>
        rw [hfa] at e3
        simp only [if_true]
        exact ⟨e3, by rw [hR.nwarn, e2], trivial, fun h => by rw [← e3] at h; simp at h⟩
      | false =>
        rw [hfa] at e3
        simp only [Bool.false_eq_true, if_false]
        cases ex with
        | true => exact ⟨by simpa [hf'] using e3, by simp [hR.nwarn, e2], by simp, fun _ => by simp [e1]⟩
        | false => exact ⟨by simpa [hf'] using e3, by simp [hR.nwarn, e2], by simp, fun _ => by simp [e1]⟩
    cases s with
    | word w =>
      simp only [SrcOK] at hok
      have hhead : w.head? ≠ some '-' := by
        cases w with
        | nil => simp
        | cons c t => simp only [List.head?_cons, ne_eq, Option.some.injEq]; exact (hok.head c t rfl).1
      have hdw : w.dropWhile isspaceC = w := by
        cases w with
        | nil => rfl
        | cons c t => simp [List.dropWhile_cons, (hok.head c t rfl).2.2.2]
      have hb : (w.head? == some '-') = false := by simpa using hhead
      simp only [argOf, argProcess, hf', Bool.false_eq_true, if_false, hb, hdw, WcollSpec.addSource, he,
        WcollSpec.Source.isTarget, Bool.or_true]
      cases w with
      | nil =>
        simp only [hostPart_plain hok.noColon hok.noAt]
        exact ⟨⟨by simp, hR.nwarn, hR.stdinOK, fun _ => ⟨by simp [hex], hxl, hsi⟩⟩, fun _ => trivial⟩
      | cons c t =>
        obtain ⟨_, h2, h3, _⟩ := hok.head c t rfl
        split
        · rename_i heq; simp only [List.cons.injEq] at heq; exact absurd heq.1 h2
        · rename_i heq; simp only [List.cons.injEq] at heq; exact absurd heq.1 h3
        · simp only [hostPart_plain hok.noColon hok.noAt]
          exact ⟨⟨by simp, hR.nwarn, hR.stdinOK, fun _ => ⟨by simp [hex], hxl, hsi⟩⟩, fun _ => trivial⟩
    | file p =>
      simp only [SrcOK] at hok
      obtain ⟨g1, g2, g3, g4⟩ := fileCase p false hok
      have harg : argProcess mode fs st ('^' :: p) = absorb st false (readWcoll mode fs st.stdin p) := by
        simp [argProcess, hf', isspaceC]
      simp only [argOf, harg, WcollSpec.addSource, he, Bool.false_eq_true, if_false,
        WcollSpec.Source.isTarget, Bool.or_true]
      refine ⟨⟨g1, by rw [g2], hR.stdinOK, fun hnf => ?_⟩, fun hnf => ?_⟩
      · have := g4 (by rw [← g1]; exact hnf)
        simp only [Bool.false_eq_true, if_false] at this
        exact ⟨by rw [this.1, hex], by rw [this.2.1, hxl], by rw [g3, hsi]⟩
      · have := g4 (by rw [← g1]; exact hnf)
        simp only [Bool.false_eq_true, if_false] at this
        exact this.2.2
    | xfile p =>
      simp only [SrcOK] at hok
      obtain ⟨g1, g2, g3, g4⟩ := fileCase p true hok
      have harg : argProcess mode fs st ('-' :: '^' :: p) = absorb st true (readWcoll mode fs st.stdin p) := by
        simp [argProcess, hf', isspaceC]
      simp only [argOf, harg, WcollSpec.addSource, he, Bool.false_eq_true, if_false,
        WcollSpec.Source.isTarget, Bool.or_false]
      refine ⟨⟨g1, by rw [g2], hR.stdinOK, fun hnf => ?_⟩, fun hnf => ?_⟩
      · have := g4 (by rw [← g1]; exact hnf)
        simp only [if_true] at this
        exact ⟨by rw [this.1, hex], by rw [this.2.1, hxl], by rw [g3, hsi]⟩
      · have := g4 (by rw [← g1]; exact hnf)
        simp only [if_true] at this
        exact this.2.2
    | stdin =>
      simp only [SrcOK] at hok
      have harg : argProcess mode fs st ['^', '-'] = absorb st false (readWcoll mode fs st.stdin ['-']) := by
        simp [argProcess, hf', isspaceC]
      have hrw : readWcoll mode fs st.stdin ['-'] = (readStream mode fs [['.']] st.stdin, []) := by
        unfold readWcoll
        rw [if_pos rfl]
        have : listSplit [':'] ['.'] = [['.']] := by decide
        rw [this]
      have hc : ContentOK mode.cap ['.'] st.stdin := by rw [hsi]; exact hR.stdinOK
      obtain ⟨e1, e2, e3⟩ := file_hosts_spec_partial' mode fs ['.'] hok st.stdin hc
      simp only [argOf, harg, hrw, WcollSpec.addSource, he, Bool.false_eq_true, if_false,
        WcollSpec.Source.isTarget, Bool.or_true, absorb, hf']
      rw [← hsi]
      cases hfa : (readStream mode fs [['.']] st.stdin).fatal with
      | true =>
        rw [hfa] at e3
        simp only [if_true]
        exact ⟨⟨e3, by simp [hR.nwarn, e2], contentOK_nil _ hcap _, fun h => by simp at h⟩,
          fun h => by simp at h⟩
      | false =>
        rw [hfa] at e3
        simp only [Bool.false_eq_true, if_false]
        exact ⟨⟨by simpa [hf'] using e3, by simp [hR.nwarn, e2], contentOK_nil _ hcap _,
          fun _ => ⟨by simp [hex, e1], by simp [hxl], rfl⟩⟩, fun _ => trivial⟩

/-- the arguments an option stands for -/
def optArgs : Opt → List Str
  | .w a => argsOf a
  | .x a => (listSplit [','] a).map ('-' :: ·)

theorem fold_opts (opts : List Opt) (st : St) :
    opts.foldl (optProcess mode fs) st = (opts.flatMap optArgs).foldl (argProcess mode fs) st := by
  induction opts generalizing st with
  | nil => rfl
  | cons o os ih =>
    simp only [List.foldl_cons, List.flatMap_cons, List.foldl_append]
    rw [ih]
    congr 1
    cases o with
    | w a =>
      simp only [optProcess, optArgs]
      unfold optargProcess argsOf
      split <;> simp
    | x a => simp only [optProcess, optArgs, xargProcess, List.foldl_map]

theorem fold_sources (hcap : ∀ n, mode.cap = some n → 0 < n) :
    ∀ (srcs : List WcollSpec.Source), (∀ s ∈ srcs, SrcOK mode fs s) →
    ∀ (st : St) (r : WcollSpec.Result × Str), ARel mode st r →
      ARel mode (srcs.foldl (fun st s => argProcess mode fs st (argOf s)) st)
        (srcs.foldl (WcollSpec.addSource fs) r) ∧
      ((srcs.foldl (fun st s => argProcess mode fs st (argOf s)) st).fatal = false →
        (srcs.foldl (fun st s => argProcess mode fs st (argOf s)) st).created =
          (st.created || srcs.any WcollSpec.Source.isTarget))
  | [], _, st, r, h => ⟨h, fun _ => by simp⟩
  | s :: ss, hok, st, r, h => by
    simp only [List.foldl_cons]
    obtain ⟨h1, c1⟩ := argProcess_addSource mode fs hcap s (hok s (by simp)) st r h
    obtain ⟨h2, c2⟩ := fold_sources hcap ss (fun x hx => hok x (by simp [hx])) _ _ h1
    refine ⟨h2, fun hnf => ?_⟩
    have hmid : (argProcess mode fs st (argOf s)).fatal = false := by
      cases hm : (argProcess mode fs st (argOf s)).fatal with
      | false => rfl
      | true =>
        have : ∀ (l : List WcollSpec.Source) (x : St), x.fatal = true →
            l.foldl (fun st s => argProcess mode fs st (argOf s)) x = x := by
          intro l
          induction l with
          | nil => intro x _; rfl
          | cons a as ih => intro x hx; simp only [List.foldl_cons, argProcess_fatal mode fs x hx]; exact ih x hx
        rw [this ss _ hm, hm] at hnf
        simp at hnf
    rw [c2 hnf, c1 hmid]
    simp [Bool.or_assoc]

/-- ASSEMBLY REFINEMENT.  If the `-w` / `-x` options of a command line stand for the sources `srcs`
(each in C10's domain) then opt.c's processing, including the WCOLL fallback, yields what the
specification's `assemble` yields: same error status, same number of skip warnings, and — when
there is no error — the same target expressions in the same order and the same exclusion
expressions. -/
theorem assembleOpts_refines (hcap : ∀ n, mode.cap = some n → 0 < n) (stdin : Str)
    (hstd : ContentOK mode.cap ['.'] stdin) (opts : List Opt) (srcs : List WcollSpec.Source)
    (hargs : opts.flatMap optArgs = srcs.map argOf) (hok : ∀ s ∈ srcs, SrcOK mode fs s)
    (env : Option Str)
    (henv : ∀ f, env = some f → SrcOK mode fs (if f = ['-'] then .stdin else .file f)) :
    (assembleOpts mode fs stdin opts env).fatal = (WcollSpec.assemble fs stdin srcs env).error ∧
    (assembleOpts mode fs stdin opts env).nwarn = (WcollSpec.assemble fs stdin srcs env).skipped ∧
    ((assembleOpts mode fs stdin opts env).fatal = false →
      (assembleOpts mode fs stdin opts env).exprs = (WcollSpec.assemble fs stdin srcs env).exprs ∧
      (assembleOpts mode fs stdin opts env).excl = (WcollSpec.assemble fs stdin srcs env).excluded) := by
  have h0 : ARel mode ({ stdin := stdin } : St) (({} : WcollSpec.Result), stdin) :=
    ⟨rfl, rfl, hstd, fun _ => ⟨rfl, rfl, rfl⟩⟩
  obtain ⟨hR, hc⟩ := fold_sources mode fs hcap srcs hok _ _ h0
  have hfold : opts.foldl (optProcess mode fs) { stdin := stdin } =
      srcs.foldl (fun st s => argProcess mode fs st (argOf s)) { stdin := stdin } := by
    rw [fold_opts, hargs, List.foldl_map]
  unfold assembleOpts WcollSpec.assemble
  simp only [hfold]
  generalize hst : srcs.foldl (fun st s => argProcess mode fs st (argOf s)) ({ stdin := stdin } : St) = stF at hR hc
  generalize hrf : srcs.foldl (WcollSpec.addSource fs) (({} : WcollSpec.Result), stdin) = rF at hR
  have done : ∀ (st : St) (r : WcollSpec.Result × Str), ARel mode st r →
      st.fatal = r.1.error ∧ st.nwarn = r.1.skipped ∧
      (st.fatal = false → st.exprs = r.1.exprs ∧ st.excl = r.1.excluded) :=
    fun st r h => ⟨h.fatal, h.nwarn, fun hnf => ⟨(h.ok hnf).1, (h.ok hnf).2.1⟩⟩
  cases hfat : stF.fatal with
  | true =>
    have herr : rF.1.error = true := by rw [← hR.fatal]; exact hfat
    simp only [Bool.true_or, if_true]
    cases hany : srcs.any WcollSpec.Source.isTarget with
    | true => simp only [if_true]; exact done stF rF hR
    | false =>
      simp only [Bool.false_eq_true, if_false]
      cases env with
      | none => exact done stF rF hR
      | some f =>
        simp only
        have : WcollSpec.addSource fs rF (if f = ['-'] then .stdin else .file f) = rF := by
          simp [WcollSpec.addSource, herr]
        rw [this]
        exact done stF rF hR
  | false =>
    have hcr := hc hfat
    simp only [Bool.false_or] at hcr
    simp only [Bool.false_or]
    cases hany : srcs.any WcollSpec.Source.isTarget with
    | true =>
      rw [hany] at hcr
      simp only [hcr, if_true]
      exact done stF rF hR
    | false =>
      rw [hany] at hcr
      simp only [hcr, Bool.false_eq_true, if_false]
      cases env with
      | none => exact done stF rF hR
      | some f =>
        simp only
        have harg : absorb stF false (readWcoll mode fs stF.stdin f) =
            argProcess mode fs stF (argOf (if f = ['-'] then WcollSpec.Source.stdin else .file f)) := by
          by_cases hfd : f = ['-']
          · subst hfd
            simp [argOf, argProcess, hfat, isspaceC]
          · simp [hfd, argOf, argProcess, hfat, isspaceC]
        rw [harg]
        exact done _ _ (argProcess_addSource mode fs hcap _ (henv f rfl) stF rF hR).1

end PdshVerif.Opt.Wcoll
