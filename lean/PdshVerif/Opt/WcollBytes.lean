import PdshVerif.Opt.Wcoll

/-! BYTE LEVEL: the repaired `wcoll_ctx_read_stream` collects `fgets` pieces of ANY buffer size until a piece
holds a newline; what `wcoll_ctx_read_line` is then called with are exactly the whole lines of the stream —
for every content (any line lengths, final newline or not, empty lines, empty stream). -/
namespace PdshVerif.Opt.Wcoll

/-- the generalised statement: `acc` = the piece `fgets` is filling (reversed, newline-free), `line` = what
`xstrcat` has collected so far; together they are the line read so far -/
theorem glueGo_chunksGo (cap : Option Nat) : ∀ (s : Str) (used u : Nat) (acc line : Str), '\n' ∉ acc →
    glueGo (chunksGo cap s used acc) line = chunksGo none s u (acc ++ line.reverse)
  | [], used, u, acc, line, _ => by
    simp only [chunksGo]
    by_cases ha : acc = []
    · subst ha
      simp only [List.isEmpty_nil, if_true, glueGo, List.nil_append, List.isEmpty_reverse, List.reverse_reverse]
    · have h1 : acc.isEmpty = false := by cases acc <;> simp_all
      have h2 : (acc ++ line.reverse).isEmpty = false := by cases acc <;> simp_all
      have h3 : (line ++ acc.reverse).isEmpty = false := by cases acc <;> simp_all
      have hn : '\n' ∉ acc.reverse := by simpa using ‹'\n' ∉ acc›
      simp [h1, h2, h3, glueGo, hn]
  | c :: r, used, u, acc, line, hacc => by
    by_cases hc : c = '\n'
    · subst hc
      have hin : '\n' ∈ ('\n' :: acc).reverse := by simp
      simp only [chunksGo, if_true, glueGo, hin]
      rw [glueGo_chunksGo cap r 0 0 [] [] (by simp)]
      simp
    · have hnot : '\n' ∉ (c :: acc).reverse := by
        simp only [List.reverse_cons, List.mem_append, List.mem_reverse, List.mem_singleton, not_or]
        exact ⟨hacc, fun e => hc e.symm⟩
      have hnone : (none : Option Nat) ≠ some (u + 1) := by simp
      by_cases hfull : cap = some (used + 1)
      · simp only [chunksGo, if_neg hc, hfull, if_true, glueGo, hnot, if_false, if_neg hnone]
        rw [← hfull, glueGo_chunksGo cap r 0 (u + 1) [] (line ++ (c :: acc).reverse) (by simp)]
        simp
      · simp only [chunksGo, if_neg hc, if_neg hfull, if_neg hnone]
        rw [glueGo_chunksGo cap r (used + 1) (u + 1) (c :: acc) line (by
          simp only [List.mem_cons, not_or]; exact ⟨fun e => hc e.symm, hacc⟩)]
        simp

/-- GLUED PIECES ARE WHOLE LINES: whatever the size of the buffer `fgets` fills -/
theorem glued_eq_whole (size : Nat) (s : Str) : chunks (.glued size) s = chunks .whole s := by
  simp only [chunks, LineMode.glues, LineMode.pieceCap, LineMode.cap, if_true, Bool.false_eq_true, if_false]
  simpa using glueGo_chunksGo (some (size - 1)) s 0 0 [] [] (by simp)

/-- every mode's lines are those of `chunksGo` with the mode's line cap -/
theorem chunks_eq (mode : LineMode) (s : Str) : chunks mode s = chunksGo mode.cap s 0 [] := by
  cases mode with
  | fgets n => simp [chunks, LineMode.glues]
  | whole => simp [chunks, LineMode.glues]
  | glued n =>
    rw [glued_eq_whole]
    simp [chunks, LineMode.glues, LineMode.cap]

/-! ### ... hence the whole reader and the whole assembly: byte level = line level -/

theorem chunks_glued_fun (size : Nat) : chunks (.glued size) = chunks .whole := by
  funext s; exact glued_eq_whole size s

theorem readFile_glued (size : Nat) (fs : FS) (dirs : List Str) :
    ∀ k, readFile (.glued size) fs dirs k = readFile .whole fs dirs k
  | 0 => by funext f c; simp only [readFile]
  | k + 1 => by
    funext f c
    simp only [readFile, chunks_glued_fun, readFile_glued size fs dirs k]

theorem readStream_glued (size : Nat) (fs : FS) (dirs : List Str) (content : Str) :
    readStream (.glued size) fs dirs content = readStream .whole fs dirs content := by
  simp only [readStream, chunks_glued_fun, readFile_glued]

theorem readWcoll_glued (size : Nat) (fs : FS) : readWcoll (.glued size) fs = readWcoll .whole fs := by
  funext stdin file
  simp only [readWcoll, readStream_glued]

theorem argProcess_glued (size : Nat) (fs : FS) : argProcess (.glued size) fs = argProcess .whole fs := by
  funext st arg
  simp only [argProcess, readWcoll_glued]

theorem optProcess_glued (size : Nat) (fs : FS) : optProcess (.glued size) fs = optProcess .whole fs := by
  funext st o
  cases o <;> simp only [optProcess, optargProcess, xargProcess, argProcess_glued]

/-- the option processing of the byte-level reader IS that of the line-level reader -/
theorem assembleOpts_glued (size : Nat) (fs : FS) (stdin : Str) (opts : List Opt) (env : Option Str) :
    assembleOpts (.glued size) fs stdin opts env = assembleOpts .whole fs stdin opts env := by
  simp only [assembleOpts, optProcess_glued, readWcoll_glued]

end PdshVerif.Opt.Wcoll
