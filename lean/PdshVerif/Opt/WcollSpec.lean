import PdshVerif.Opt.Wcoll

/-
C10 specification: how the property text assembles the target list, written without the code's
mechanisms (no line buffer, no strtok, no include cache keyed by whatever string was built).

  * a file is a sequence of WHOLE lines;
  * a line is nothing (blank / comment), an expression (`expr [# comment]`, blanks around it
    ignored) or exactly `#include` blanks+ F (one token);
  * an include line is replaced IN PLACE by F's hosts; a bare F is looked up in the directory of the
    file named on the command line, a name starting with `/`, `./`, `../` is used as given;
  * a file reached a second time through includes is skipped (and counted: one warning each);
    the file named on the command line is not "reached through an include" (reading decision of
    DESIGN.md section 6: a cycle back to it reads it once more, then it is skipped);
  * an unreadable or missing file is an error;
  * sources are concatenated in command-line order; WCOLL is used only when there is no other source.

Only the data types `File`/`FS` and `lookup`/`canRead` are shared with the model.
The output is the list of expressions in order; expansion of an expression is a parameter.
-/
namespace PdshVerif.Opt.WcollSpec
open PdshVerif.Opt.Wcoll (Str File FS lookup canRead)

/-- whole lines (newline removed); a final line without newline counts -/
def linesGo : Str → Str → List Str
  | [], acc => if acc.isEmpty then [] else [acc.reverse]
  | c :: r, acc => if c = '\n' then acc.reverse :: linesGo r [] else linesGo r (c :: acc)

def lines (s : Str) : List Str := linesGo s []

def isBlank (c : Char) : Bool := c == ' ' || c == '\t'

def strip (s : Str) : Str := ((s.dropWhile isBlank).reverse.dropWhile isBlank).reverse

def wordsGo : Str → Str → List Str
  | [], acc => if acc.isEmpty then [] else [acc.reverse]
  | c :: r, acc =>
    if isBlank c then (if acc.isEmpty then wordsGo r [] else acc.reverse :: wordsGo r [])
    else wordsGo r (c :: acc)

def words (s : Str) : List Str := wordsGo s []

inductive Kind where
  | nothing
  | expr (e : Str)
  | include (f : Str)
  deriving Repr, DecidableEq

def startsBlank : Str → Bool
  | c :: _ => isBlank c
  | [] => false

def classify (line : Str) : Kind :=
  if line.take 8 = "#include".toList ∧ startsBlank (line.drop 8) = true then
    match words (line.drop 8) with
    | [f] => .include f
    | _ => .nothing
  else if (strip (line.takeWhile (· != '#'))).isEmpty then .nothing
  else .expr (strip (line.takeWhile (· != '#')))

structure Acc where
  exprs : List Str := []
  /-- names (as resolved) already read through an include -/
  visited : List Str := []
  /-- second reaches that were skipped: one warning each -/
  skipped : Nat := 0
  error : Bool := false
  starved : Bool := false
  deriving Repr

def explicitName : Str → Bool
  | '/' :: _ => true
  | '.' :: '/' :: _ => true
  | '.' :: '.' :: '/' :: _ => true
  | _ => false

def resolveName (topdir f : Str) : Str := if explicitName f then f else topdir ++ '/' :: f

def handle (incl : Str → Acc → Acc) (a : Acc) (line : Str) : Acc :=
  if a.error then a
  else match classify line with
    | .nothing => a
    | .expr e => { a with exprs := a.exprs ++ [e] }
    | .include f => incl f a

/-- the hosts of an included file, in place -/
def includeHosts (fs : FS) (topdir : Str) : Nat → Str → Acc → Acc
  | 0, _, a => { a with starved := true, error := true }
  | fuel + 1, f, a =>
    if resolveName topdir f ∈ a.visited then { a with skipped := a.skipped + 1 }
    else match lookup fs (resolveName topdir f) with
      | none => { a with error := true }
      | some file =>
        if file.readable then
          (lines file.content).foldl (handle (includeHosts fs topdir fuel))
            { a with visited := a.visited ++ [resolveName topdir f] }
        else { a with error := true }

/-- the directory of the file named on the command line (plain paths: no trailing or doubled slash) -/
def dirOf (p : Str) : Str :=
  if '/' ∉ p then ['.']
  else match ((p.reverse.dropWhile (· != '/')).drop 1).reverse with
    | [] => ['/']
    | d => d

def streamHosts (fs : FS) (topdir : Str) (content : Str) : Acc :=
  (lines content).foldl (handle (includeHosts fs topdir (fs.length + 1))) {}

/-- `^F` -/
def fileHosts (fs : FS) (top : Str) : Acc :=
  match lookup fs top with
  | none => { error := true }
  | some file => if file.readable then streamHosts fs (dirOf top) file.content else { error := true }

inductive Source where
  /-- one `-w` word -/
  | word (w : Str)
  /-- `^F` -/
  | file (path : Str)
  /-- `-` -/
  | stdin
  /-- an EXCLUSION file (`-x ^F`, `-^F`): read like every `^F`; its hosts are excluded, not targeted -/
  | xfile (path : Str)
  deriving Repr

def Source.isTarget : Source → Bool
  | .xfile _ => false
  | _ => true

structure Result where
  exprs : List Str := []
  /-- expressions of the exclusion files, in order -/
  excluded : List Str := []
  skipped : Nat := 0
  error : Bool := false
  deriving Repr

def addSource (fs : FS) (st : Result × Str) (s : Source) : Result × Str :=
  if st.1.error then st
  else
    let merge (a : Acc) : Result :=
      { st.1 with exprs := st.1.exprs ++ a.exprs, skipped := st.1.skipped + a.skipped, error := a.error }
    match s with
    | .word w => ({ st.1 with exprs := st.1.exprs ++ [w] }, st.2)
    | .file p => (merge (fileHosts fs p), st.2)
    | .stdin => (merge (streamHosts fs ['.'] st.2), [])
    | .xfile p =>
      let a := fileHosts fs p
      ({ st.1 with excluded := st.1.excluded ++ a.exprs, skipped := st.1.skipped + a.skipped,
                   error := a.error }, st.2)

/-- the target list (as expressions) of a command line: the sources in order; WCOLL is consulted
only when no source of targets (word, file, stdin) is given -/
def assemble (fs : FS) (stdin : Str) (srcs : List Source) (wcollEnv : Option Str) : Result :=
  let st := srcs.foldl (addSource fs) ({}, stdin)
  if srcs.any Source.isTarget then st.1
  else match wcollEnv with
    | none => st.1
    | some f => (addSource fs st (if f = ['-'] then .stdin else .file f)).1

end PdshVerif.Opt.WcollSpec
