import PdshVerif.Opt.WcollLemmas

/-! opt.c side: sources are appended in order, errors are sticky; fgets chunking -/
namespace PdshVerif.Opt.Wcoll

variable (mode : LineMode) (fs : FS)

theorem argProcess_fatal (st : St) (h : st.fatal = true) (arg : Str) : argProcess mode fs st arg = st := by
  simp [argProcess, h]

theorem fold_args_fatal : ∀ (args : List Str) (st : St), st.fatal = true →
    args.foldl (argProcess mode fs) st = st
  | [], _, _ => rfl
  | a :: as, st, h => by
    simp only [List.foldl_cons, argProcess_fatal mode fs st h a]
    exact fold_args_fatal as st h

/-- the arguments one `-w` option stands for -/
def argsOf (optarg : Str) : List Str := if optarg = ['-'] then [['^', '-']] else listSplit [','] optarg

theorem fold_optargs (wargs : List Str) (st : St) :
    wargs.foldl (optargProcess mode fs) st = (wargs.flatMap argsOf).foldl (argProcess mode fs) st := by
  induction wargs generalizing st with
  | nil => rfl
  | cons w ws ih =>
    simp only [List.foldl_cons, List.flatMap_cons, List.foldl_append]
    rw [ih]
    congr 1
    unfold optargProcess argsOf
    split <;> simp

/-- what an argument contributes does not depend on what came before it (except for how much of
stdin is left), and it is appended at the end -/
theorem argProcess_append (st : St) (arg : Str) (h : st.fatal = false) :
    (argProcess mode fs st arg).exprs = st.exprs ++ (argProcess mode fs { stdin := st.stdin } arg).exprs ∧
    (argProcess mode fs st arg).stdin = (argProcess mode fs { stdin := st.stdin } arg).stdin ∧
    (argProcess mode fs st arg).fatal = (argProcess mode fs { stdin := st.stdin } arg).fatal := by
  unfold argProcess
  simp only [h, Bool.false_eq_true, if_false]
  split
  · unfold absorb
    simp only
    split
    · simp
    · split <;> (simp; try exact h)
  · simp
  · split
    · simp
    · split <;> simp

/-- the contributions of the arguments, each computed on its own, with the stdin its predecessors left -/
def contribs : Str → List Str → List (List Str)
  | _, [] => []
  | stdin, a :: as =>
    (argProcess mode fs { stdin := stdin } a).exprs ::
      contribs (argProcess mode fs { stdin := stdin } a).stdin as

theorem fold_args_exprs : ∀ (args : List Str) (st : St),
    (args.foldl (argProcess mode fs) st).fatal = false →
    (args.foldl (argProcess mode fs) st).exprs = st.exprs ++ (contribs mode fs st.stdin args).flatten
  | [], st, _ => by simp [contribs]
  | a :: as, st, h => by
    simp only [List.foldl_cons] at h ⊢
    have hst : st.fatal = false := by
      cases hf : st.fatal with
      | false => rfl
      | true =>
        rw [argProcess_fatal mode fs st hf a, fold_args_fatal mode fs as st hf] at h
        rw [hf] at h; exact absurd h (by simp)
    have h1 : (argProcess mode fs st a).fatal = false := by
      cases hf : (argProcess mode fs st a).fatal with
      | false => rfl
      | true =>
        rw [fold_args_fatal mode fs as _ hf] at h
        rw [hf] at h; exact absurd h (by simp)
    obtain ⟨e1, e2, _⟩ := argProcess_append mode fs st a hst
    rw [fold_args_exprs as _ h, e1, e2]
    simp [contribs]

/-! ### unreadable sources -/

theorem readWcoll_unreadable (stdin file : Str) (h1 : file ≠ ['-']) (h2 : canRead fs file = false) :
    (readWcoll mode fs stdin file).1.fatal = true := by
  unfold readWcoll
  rw [if_neg h1]
  unfold canRead at h2
  split
  · rfl
  · rename_i f hf
    rw [hf] at h2
    simp only at h2
    simp [h2]

theorem argProcess_unreadable (st : St) (file : Str) (h1 : file ≠ ['-']) (h2 : canRead fs file = false) :
    (argProcess mode fs st ('^' :: file)).fatal = true := by
  unfold argProcess
  split
  · assumption
  · have hd : ('^' :: file).head? ≠ some '-' := by simp
    have hp : (('^' :: file).dropWhile isspaceC) = '^' :: file := by
      simp [isspaceC]
    simp only [List.head?_cons, Option.some.injEq, beq_iff_eq, show ('^' = '-') = False by decide,
      if_false, hp]
    simp [absorb, readWcoll_unreadable mode fs _ file h1 h2]

theorem fold_args_unreadable (pre post : List Str) (st : St) (file : Str) (h1 : file ≠ ['-'])
    (h2 : canRead fs file = false) :
    ((pre ++ ('^' :: file) :: post).foldl (argProcess mode fs) st).fatal = true := by
  simp only [List.foldl_append, List.foldl_cons]
  rw [fold_args_fatal mode fs post _ (argProcess_unreadable mode fs _ file h1 h2)]
  exact argProcess_unreadable mode fs _ file h1 h2

theorem readFile_unresolved (dirs : List Str) (k : Nat) (f : Str) (c : Ctx)
    (h : resolve fs dirs f = none) : (readFile mode fs dirs (k + 1) f c).fatal = true := by
  simp [readFile, h]

theorem readFile_unreadable (dirs : List Str) (k : Nat) (f fq : Str) (c : Ctx)
    (h : resolve fs dirs f = some fq) (hc : fq ∉ c.cache) (hr : canRead fs fq = false) :
    (readFile mode fs dirs (k + 1) f c).fatal = true := by
  unfold canRead at hr
  simp only [readFile, h, hc, if_false]
  split
  · rfl
  · rename_i file hf
    rw [hf] at hr
    simp only at hr
    simp [hr]

/-! ### `fgets` -/

/-- a line that fits is handed over whole -/
theorem chunksGo_fits (cap : Option Nat) : ∀ (l acc : Str) (rest : Str), '\n' ∉ l →
    (∀ n, cap = some n → acc.length + l.length + 1 ≤ n) →
    chunksGo cap (l ++ '\n' :: rest) acc.length acc = (acc.reverse ++ l ++ ['\n']) :: chunksGo cap rest 0 []
  | [], acc, rest, _, _ => by simp [chunksGo]
  | c :: l, acc, rest, h, hcap => by
    have hc : c ≠ '\n' := fun e => h (by simp [e])
    have hfull : cap ≠ some (acc.length + 1) := by
      intro e
      have := hcap _ e
      simp only [List.length_cons] at this
      omega
    simp only [List.cons_append, chunksGo, if_neg hc, if_neg hfull]
    have := chunksGo_fits cap l (c :: acc) rest (fun hx => h (by simp [hx]))
      (fun n hn => by have := hcap n hn; simp only [List.length_cons] at this ⊢; omega)
    simp only [List.length_cons] at this
    rw [this]
    simp

/-- the last line may lack its newline -/
theorem chunksGo_last (cap : Option Nat) : ∀ (l acc : Str), '\n' ∉ l →
    (∀ n, cap = some n → acc.length + l.length < n) →
    chunksGo cap l acc.length acc = if (acc.reverse ++ l).isEmpty then [] else [acc.reverse ++ l]
  | [], acc, _, _ => by simp [chunksGo]
  | c :: l, acc, h, hcap => by
    have hc : c ≠ '\n' := fun e => h (by simp [e])
    have hfull : cap ≠ some (acc.length + 1) := by
      intro e
      have := hcap _ e
      simp only [List.length_cons] at this
      omega
    simp only [chunksGo, if_neg hc, if_neg hfull]
    have := chunksGo_last cap l (c :: acc) (fun hx => h (by simp [hx]))
      (fun n hn => by have := hcap n hn; simp only [List.length_cons] at this ⊢; omega)
    simp only [List.length_cons] at this
    rw [this]
    simp

/-- the text of newline-terminated lines followed by an unterminated rest -/
def joinLines (ls : List Str) (last : Str) : Str := ls.flatMap (· ++ ['\n']) ++ last

theorem chunks_lines (cap : Option Nat) : ∀ (ls : List Str) (last : Str),
    (∀ l ∈ ls, '\n' ∉ l ∧ ∀ n, cap = some n → l.length + 1 ≤ n) →
    '\n' ∉ last → (∀ n, cap = some n → last.length < n) →
    chunksGo cap (joinLines ls last) 0 [] =
      ls.map (· ++ ['\n']) ++ (if last.isEmpty then [] else [last])
  | [], last, _, hl, hc => by
    have := chunksGo_last cap last [] hl (by simpa using hc)
    simpa [joinLines] using this
  | l :: ls, last, h, hl, hc => by
    have h1 := h l (by simp)
    have := chunksGo_fits cap l [] (joinLines ls last) h1.1 (by simpa using h1.2)
    simp only [List.length_nil, List.reverse_nil, List.nil_append] at this
    simp only [joinLines, List.flatMap_cons, List.append_assoc, List.cons_append, List.nil_append,
      List.map_cons] at this ⊢
    rw [this]
    have ih := chunks_lines cap ls last (fun x hx => h x (by simp [hx])) hl hc
    simp only [joinLines] at ih
    rw [ih]

/-- `fgets` hands over the first `size-1` bytes alone, whatever follows: a longer line is split -/
theorem chunksGo_full (n : Nat) : ∀ (a acc : Str) (b : Str), '\n' ∉ a → a ≠ [] →
    acc.length + a.length = n →
    chunksGo (some n) (a ++ b) acc.length acc = (acc.reverse ++ a) :: chunksGo (some n) b 0 []
  | [], _, _, _, h, _ => absurd rfl h
  | [c], acc, b, h, _, hn => by
    have hc : c ≠ '\n' := fun e => h (by simp [e])
    simp only [List.length_cons, List.length_nil] at hn
    simp only [List.cons_append, List.nil_append, chunksGo, if_neg hc, hn, if_true]
    simp
  | c :: d :: a, acc, b, h, _, hn => by
    have hc : c ≠ '\n' := fun e => h (by simp [e])
    simp only [List.length_cons] at hn
    have hfull : (some n : Option Nat) ≠ some (acc.length + 1) := by
      intro e; simp only [Option.some.injEq] at e; omega
    have := chunksGo_full n (d :: a) (c :: acc) b (fun hx => h (by simp [hx])) (by simp)
      (by simp only [List.length_cons]; omega)
    simp only [List.length_cons, List.cons_append] at this
    rw [List.cons_append, chunksGo, if_neg hc, if_neg hfull, List.cons_append, this]
    simp

end PdshVerif.Opt.Wcoll
