import PdshVerif.Opt.Wcoll

/-! invariants of the include reader: fuel suffices, every path opened once, errors are sticky -/
namespace PdshVerif.Opt.Wcoll

/-- how many files of the file system are not yet in the include cache -/
def pending (fs : FS) (cache : List Str) : Nat := (fs.filter fun f => f.path ∉ cache).length

theorem pending_cons (g : File) (fs : FS) (c : List Str) :
    pending (g :: fs) c = (if g.path ∈ c then 0 else 1) + pending fs c := by
  simp only [pending, List.filter_cons]
  by_cases h : g.path ∈ c
  · simp [h]
  · simp [h]; omega

theorem pending_mono : ∀ (fs : FS) {c c' : List Str}, (∀ x ∈ c, x ∈ c') → pending fs c' ≤ pending fs c
  | [], _, _, _ => by simp [pending]
  | g :: fs, c, c', h => by
    have ih := pending_mono fs h
    rw [pending_cons, pending_cons]
    by_cases h1 : g.path ∈ c
    · have h2 : g.path ∈ c' := h _ h1
      simp only [h1, h2, if_true]; omega
    · by_cases h2 : g.path ∈ c'
      · simp only [h1, h2, if_true, if_false]; omega
      · simp only [h1, h2, if_false]; omega

theorem lookup_some_mem {fs : FS} {p : Str} {f : File} (h : lookup fs p = some f) : f ∈ fs ∧ f.path = p := by
  unfold lookup at h
  exact ⟨List.mem_of_find?_eq_some h, by simpa using List.find?_some h⟩

theorem pending_lt_of_mem {c : List Str} {p : Str} (hp : p ∉ c) :
    ∀ (fs : FS), (∃ f ∈ fs, f.path = p) → pending fs (c ++ [p]) < pending fs c
  | [], h => by simp at h
  | g :: fs, h => by
    have hmono := pending_mono fs (c := c) (c' := c ++ [p]) (fun x hx => by simp [hx])
    rw [pending_cons, pending_cons]
    by_cases hg : g.path = p
    · have h1 : g.path ∉ c := by rw [hg]; exact hp
      have h2 : g.path ∈ c ++ [p] := by rw [hg]; simp
      simp only [h1, h2, if_true, if_false]; omega
    · have h' : ∃ f ∈ fs, f.path = p := by
        obtain ⟨f, hf, hfp⟩ := h
        simp only [List.mem_cons] at hf
        rcases hf with rfl | hf
        · exact absurd hfp hg
        · exact ⟨f, hf, hfp⟩
      have ih := pending_lt_of_mem hp fs h'
      by_cases h1 : g.path ∈ c
      · have h2 : g.path ∈ c ++ [p] := by simp [h1]
        simp only [h1, h2, if_true]; omega
      · have h2 : g.path ∉ c ++ [p] := by simp [h1, hg]
        simp only [h1, h2, if_false]; omega

theorem pending_lt (fs : FS) {c : List Str} {p : Str} {f : File} (hl : lookup fs p = some f) (hp : p ∉ c) :
    pending fs (c ++ [p]) < pending fs c :=
  pending_lt_of_mem hp fs ⟨f, (lookup_some_mem hl).1, (lookup_some_mem hl).2⟩

/-- the invariant carried through the reader -/
structure Good (fs : FS) (k : Nat) (c : Ctx) : Prop where
  fed : c.starved = false
  room : pending fs c.cache < k
  once : c.opened.Nodup
  seen : ∀ x ∈ c.opened, x ∈ c.cache

/-- what a reading step guarantees about its result -/
structure Step (c c' : Ctx) : Prop where
  fed : c'.starved = false
  grows : ∀ x ∈ c.cache, x ∈ c'.cache
  once : c'.opened.Nodup
  seen : ∀ x ∈ c'.opened, x ∈ c'.cache

theorem Good.step {fs k c c'} (g : Good fs k c) (s : Step c c') : Good fs k c' :=
  ⟨s.fed, Nat.lt_of_le_of_lt (pending_mono fs s.grows) g.room, s.once, s.seen⟩

theorem Step.refl {fs k c} (g : Good fs k c) : Step c c := ⟨g.fed, fun _ h => h, g.once, g.seen⟩

theorem Step.trans {a b c : Ctx} (h1 : Step a b) (h2 : Step b c) : Step a c :=
  ⟨h2.fed, fun x hx => h2.grows x (h1.grows x hx), h2.once, h2.seen⟩

theorem readLine_step {fs : FS} {k : Nat} (inc : Str → Ctx → Ctx)
    (hinc : ∀ name c, Good fs k c → Step c (inc name c)) (ch : Str) (c : Ctx) (g : Good fs k c) :
    Step c (readLine inc ch c) := by
  unfold readLine
  split
  · exact Step.refl g
  · split
    · split
      · exact hinc _ c g
      · exact ⟨g.fed, fun _ h => h, g.once, g.seen⟩
      · exact Step.refl g
    · unfold pushLine
      split
      · exact Step.refl g
      · exact ⟨g.fed, fun _ h => h, g.once, g.seen⟩

theorem foldl_step {fs : FS} {k : Nat} (inc : Str → Ctx → Ctx)
    (hinc : ∀ name c, Good fs k c → Step c (inc name c)) :
    ∀ (chs : List Str) (c : Ctx), Good fs k c →
      Step c (chs.foldl (fun c ch => readLine inc ch c) c)
  | [], c, g => Step.refl g
  | ch :: chs, c, g => by
    simp only [List.foldl_cons]
    have s1 := readLine_step inc hinc ch c g
    exact s1.trans (foldl_step inc hinc chs _ (g.step s1))

/-- the heart of `include_terminates` and `included_once` -/
theorem readFile_step (mode : LineMode) (fs : FS) (dirs : List Str) :
    ∀ (k : Nat) (f : Str) (c : Ctx), Good fs k c → Step c (readFile mode fs dirs k f c)
  | 0, _, c, g => absurd g.room (Nat.not_lt_zero _)
  | k + 1, f, c, g => by
    unfold readFile
    split
    · exact ⟨g.fed, fun _ h => h, g.once, g.seen⟩
    · rename_i fq _
      split
      · exact ⟨g.fed, fun _ h => h, g.once, g.seen⟩
      · rename_i hnc
        split
        · exact ⟨g.fed, fun x hx => by simp [hx], g.once, fun x hx => by simp [g.seen x hx]⟩
        · rename_i file hfile
          split
          · have hlt := pending_lt fs hfile hnc
            have g1 : Good fs k { c with cache := c.cache ++ [fq], opened := c.opened ++ [fq] } := by
              refine ⟨g.fed, ?_, ?_, ?_⟩
              · have := g.room
                simp only at hlt ⊢
                omega
              · simp only
                refine List.nodup_append.mpr ⟨g.once, by simp, ?_⟩
                intro a ha b hb
                simp only [List.mem_singleton] at hb
                rw [hb]
                intro e
                exact hnc (e ▸ g.seen a ha)
              · intro x hx
                simp only [List.mem_append, List.mem_singleton] at hx ⊢
                rcases hx with hx | hx
                · exact Or.inl (g.seen x hx)
                · exact Or.inr hx
            have s := foldl_step (readFile mode fs dirs k) (readFile_step mode fs dirs k)
              (chunks mode file.content) _ g1
            exact ⟨s.fed, fun x hx => s.grows x (by simp [hx]), s.once, s.seen⟩
          · exact ⟨g.fed, fun x hx => by simp [hx], g.once, fun x hx => by simp [g.seen x hx]⟩

theorem good_init (fs : FS) : Good fs (fuelFor fs) {} := by
  refine ⟨rfl, ?_, by simp, by simp⟩
  simp only [pending, fuelFor]
  have := List.length_filter_le (fun f : File => decide (f.path ∉ ([] : List Str))) fs
  omega

theorem readStream_step (mode : LineMode) (fs : FS) (dirs : List Str) (content : Str) :
    Step {} (readStream mode fs dirs content) :=
  foldl_step _ (readFile_step mode fs dirs (fuelFor fs)) _ _ (good_init fs)

/-! ### errors are sticky -/

theorem readLine_fatal (inc : Str → Ctx → Ctx) (ch : Str) (c : Ctx) (h : c.fatal = true) :
    readLine inc ch c = c := by
  simp [readLine, h]

theorem foldl_fatal (inc : Str → Ctx → Ctx) : ∀ (chs : List Str) (c : Ctx), c.fatal = true →
    chs.foldl (fun c ch => readLine inc ch c) c = c
  | [], _, _ => rfl
  | ch :: chs, c, h => by
    simp only [List.foldl_cons, readLine_fatal inc ch c h]
    exact foldl_fatal inc chs c h

end PdshVerif.Opt.Wcoll
