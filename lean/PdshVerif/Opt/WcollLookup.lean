import PdshVerif.Opt.WcollPaths

/-! WHERE INCLUDED FILES ARE LOOKED UP: at every include depth a name that is not absolute and does not start
with `./` or `../` resolves in the search path the reader was created with — the directory of the file NAMED ON
THE COMMAND LINE — never in the directory of the including file (`wcoll_ctx.path_list` is set once, by
`read_wcoll`, and `wcoll_ctx_read_file` recurses with the same context). -/
namespace PdshVerif.Opt.Wcoll

theorem readLine_opened (Q : Str → Prop) (inc : Str → Ctx → Ctx)
    (hinc : ∀ name c, (∀ x ∈ c.opened, Q x) → ∀ x ∈ (inc name c).opened, Q x) (ch : Str) (c : Ctx)
    (h : ∀ x ∈ c.opened, Q x) : ∀ x ∈ (readLine inc ch c).opened, Q x := by
  unfold readLine
  split
  · exact h
  · split
    · split
      · exact hinc _ c h
      · exact h
      · exact h
    · unfold pushLine
      split
      · exact h
      · exact h

theorem foldl_opened (Q : Str → Prop) (inc : Str → Ctx → Ctx)
    (hinc : ∀ name c, (∀ x ∈ c.opened, Q x) → ∀ x ∈ (inc name c).opened, Q x) :
    ∀ (chs : List Str) (c : Ctx), (∀ x ∈ c.opened, Q x) →
      ∀ x ∈ (chs.foldl (fun c ch => readLine inc ch c) c).opened, Q x
  | [], _, h => h
  | ch :: chs, c, h => by
    simp only [List.foldl_cons]
    exact foldl_opened Q inc hinc chs _ (readLine_opened Q inc hinc ch c h)

/-- whatever holds of every name the resolver returns holds of every file opened through an include, at every
depth -/
theorem readFile_opened (mode : LineMode) (fs : FS) (dirs : List Str) (Q : Str → Prop)
    (hQ : ∀ f fq, resolve fs dirs f = some fq → Q fq) :
    ∀ (k : Nat) (f : Str) (c : Ctx), (∀ x ∈ c.opened, Q x) → ∀ x ∈ (readFile mode fs dirs k f c).opened, Q x
  | 0, _, c, h => by simpa [readFile] using h
  | k + 1, f, c, h => by
    unfold readFile
    split
    · exact h
    · rename_i fq hfq
      split
      · exact h
      · split
        · exact h
        · split
          · refine foldl_opened Q _ (readFile_opened mode fs dirs Q hQ k) _ _ ?_
            intro x hx
            simp only [List.mem_append, List.mem_singleton] at hx
            rcases hx with hx | hx
            · exact h x hx
            · rw [hx]; exact hQ f fq hfq
          · exact h

theorem readStream_opened (mode : LineMode) (fs : FS) (dirs : List Str) (Q : Str → Prop)
    (hQ : ∀ f fq, resolve fs dirs f = some fq → Q fq) (content : Str) :
    ∀ x ∈ (readStream mode fs dirs content).opened, Q x :=
  foldl_opened Q _ (readFile_opened mode fs dirs Q hQ _) _ _ (by simp)

/-- `strncpy (buf, file, len - 1)` keeps what the test looked at -/
theorem isExplicit_take (f : Str) : isExplicit (f.take (PATHBUF - 1)) = isExplicit f := by
  match f with
  | [] => rfl
  | [_] => rfl
  | [_, _] => rfl
  | a :: b :: c :: r =>
    show isExplicit (a :: b :: c :: List.take 4092 r) = isExplicit (a :: b :: c :: r)
    by_cases h1 : a = '/'
    · subst h1; rfl
    · by_cases h2 : a = '.'
      · subst h2
        by_cases h3 : b = '/'
        · subst h3; rfl
        · by_cases h4 : b = '.'
          · subst h4
            by_cases h5 : c = '/'
            · subst h5; rfl
            · simp [isExplicit, h5]
          · simp [isExplicit, h3, h4]
      · simp [isExplicit, h1, h2]

/-- a path the resolver returns for the one-directory search path `[d]`: the name as written when it is
absolute or starts with `./` or `../`, and `d/NAME` (a readable file) otherwise -/
def InDirOrExplicit (fs : FS) (d : Str) (x : Str) : Prop :=
  (∃ f, isExplicit f = false ∧ x = d ++ '/' :: f ∧ canRead fs x = true) ∨ isExplicit x = true

theorem resolve_inDir (fs : FS) (d f fq : Str) (h : resolve fs [d] f = some fq) : InDirOrExplicit fs d fq := by
  unfold resolve at h
  by_cases he : isExplicit f = true
  · simp only [he, if_true, Option.some.injEq] at h
    right
    rw [← h, isExplicit_take]; exact he
  · have he' : isExplicit f = false := by simpa using he
    simp only [he', Bool.false_eq_true, if_false, pathLookup] at h
    split at h
    · simp at h
    · split at h
      · rename_i hc
        simp only [Option.some.injEq] at h
        subst h
        exact Or.inl ⟨f, he', rfl, hc⟩
      · simp at h

end PdshVerif.Opt.Wcoll
