/-
  The settings table of opt.c as GENERATED from its source text (Gen/Optable.lean, harness/consts/optable.c) and
  what the model says about each of its rows.  Vocabulary for the table theorems of Props/C18.lean.
-/
import PdshVerif.Opt.Lemmas
import PdshVerif.Gen.Optable

namespace PdshVerif.Opt
open PdshVerif

/-- command line > environment > built-in default -/
def pick {α : Type} (cmd env : Option α) (dflt : α) : α := (cmd <|> env).getD dflt

/-- the conversions the code applies: string_to_int for -f and the variables, atoi (or, repaired,
    string_to_int) for -t / -u; 0 stands for "refused", which cannot occur in an accepted run -/
def convS (fx : Fixes) (a : Str) : Int := (stringToInt fx a).getD 0
def convT (fx : Fixes) (a : Str) : Int := (timeoutArg fx a).getD 0

/-- the option letter that sets an opt_t field, looked up in the generated switch tables -/
def letterOf (field : String) : Char :=
  (((Gen.OT_OPTS ++ Gen.OT_EARLY).find? (fun r => r.2.1 = field)).map fun r => r.1.toList.headD ' ').getD ' '

/-- the conversion named in a generated row, as the model implements it -/
def convByName (fx : Fixes) (name : String) (s : Str) : Option Int :=
  if name = "string_to_int" then stringToInt fx s
  else if name = "atoi" then some (CInt.atoi s)
  else none

/-- what must hold of an accepted configuration `c` for one row (variable, field, conversion) of the generated
    ENVIRONMENT table.  `False` for a field the model does not know: a new variable in opt_env breaks the theorem.
    DSHPATH (field dshpath) has no option and is part of the remote command (property C09): outside C18's model. -/
def EnvRowHolds (fx : Fixes) (d : Defaults) (p : Pers) (env : Env) (argv : List Str) (c : Cfg)
    (r : String × String × String) : Prop :=
  if r.2.1 = "fanout" then
    c.fanout = pick ((lastArg (letterOf "fanout") (getopt (fullString d p) argv).1).map (convS fx))
      ((getenv env r.1).map (convByName fx r.2.2 · |>.getD 0)) DFLT_FANOUT
  else if r.2.1 = "connect_timeout" then
    c.connectTimeout = pick ((lastArg (letterOf "connect_timeout") (getopt (fullString d p) argv).1).map (convT fx))
      ((getenv env r.1).map (convByName fx r.2.2 · |>.getD 0)) CONNECT_TIMEOUT
  else if r.2.1 = "command_timeout" then
    c.commandTimeout = pick ((lastArg (letterOf "command_timeout") (getopt (fullString d p) argv).1).map (convT fx))
      ((getenv env r.1).map (convByName fx r.2.2 · |>.getD 0)) 0
  else if r.2.1 = "rcmd_name" then
    c.rcmdName = (lastArg (letterOf "rcmd_name") (getopt (fullString d p) argv).1 <|> getenv env r.1 <|> defaultRcmd d)
  else if r.2.1 = "misc_modules" then
    c.miscModules = (lastArg (letterOf "misc_modules") (getopt (earlyString fx d p) argv).1 <|> getenv env r.1)
  else if r.2.1 = "remote_program_path" then
    c.remotePath = pick (lastArg (letterOf "remote_program_path") (getopt (fullString d p) argv).1)
      (if p.isPcp then getenv env r.1 else none) d.progPath
  else if r.2.1 = "dshpath" then True
  else False

/-- the same for one row (letter, field, conversion) of the generated OPTION table: valued settings that have no
    environment variable (the remote user); fields of the environment table are covered there; rows that touch no
    field, set a flag, or belong to another build (`-s`, AIX only: not in the option strings) carry no valued
    setting of this property -/
def OptRowHolds (d : Defaults) (p : Pers) (argv : List Str) (c : Cfg) (r : String × String × String) : Prop :=
  if r.2.1 = "ruser" then
    c.ruser = pick (lastArg (r.1.toList.headD ' ') (getopt (fullString d p) argv).1) none d.luser
  else if Gen.OT_ENVS.any (fun e => e.2.1 = r.2.1) then True
  else if r.2.2 = "flag" ∨ r.2.2 = "none" then True
  else False

end PdshVerif.Opt
