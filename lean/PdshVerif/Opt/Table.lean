/-
  The settings table of opt.c as GENERATED from its BEHAVIOUR (Gen/Optable.lean; harness/consts/optable.c compiles the
  opt.c of the tree under test into itself, interposes getopt / getenv and experiments with opt_env, opt_args_early and
  opt_args in forked children: which opt_t member changes for which letter / variable, and how the text is converted)
  and what the model says about each of its rows.  Vocabulary for the table theorems of Props/C18.lean.
  Rows are (key, opt_t member, behaviour class); behaviour classes:
    string_to_int  int member, exact or refused ("7x" refused)      atoi   int member, a numeric prefix is enough
    strdup         char* member, the text itself                    bounded_text  the same, an over-long text is refused
    flag           bool member                                      other  anything else (target list, DSHPATH)
    none           returns, no member changed                       exit0 / exit1  ends the program right there
-/
import PdshVerif.Opt.Lemmas
import PdshVerif.Gen.Optable

namespace PdshVerif.Opt
open PdshVerif

/-- command line > environment > built-in default -/
def pick {α : Type} (cmd env : Option α) (dflt : α) : α := (cmd <|> env).getD dflt

/-- the conversions the code applies: string_to_int for -f and the variables, atoi (or, repaired,
    string_to_int) for -t / -u; 0 stands for "refused", which cannot occur in an accepted run -/
def convS (fx : Fixes) (a : Str) : Int := (stringToInt fx a).getD 0
def convT (fx : Fixes) (a : Str) : Int := (timeoutArg fx a).getD 0

/-- the option letter that sets an opt_t field, looked up in the generated switch tables -/
def letterOf (field : String) : Char :=
  (((Gen.OT_OPTS ++ Gen.OT_EARLY).find? (fun r => r.2.1 = field)).map fun r => r.1.toList.headD ' ').getD ' '

/-- the conversion named in a generated row, as the model implements it -/
def convByName (fx : Fixes) (name : String) (s : Str) : Option Int :=
  if name = "string_to_int" then stringToInt fx s
  else if name = "atoi" then some (CInt.atoi s)
  else none

/-- what must hold of an accepted configuration `c` for one row (variable, field, conversion) of the generated
    ENVIRONMENT table.  `False` for a field the model does not know: a new variable in opt_env breaks the theorem.
    DSHPATH (field dshpath) has no option and is part of the remote command (property C09): outside C18's model. -/
def EnvRowHolds (fx : Fixes) (d : Defaults) (p : Pers) (env : Env) (argv : List Str) (c : Cfg)
    (r : String × String × String) : Prop :=
  if r.2.1 = "fanout" then
    c.fanout = pick ((lastArg (letterOf "fanout") (getopt (fullString d p) argv).1).map (convS fx))
      ((getenv env r.1).map (convByName fx r.2.2 · |>.getD 0)) DFLT_FANOUT
  else if r.2.1 = "connect_timeout" then
    c.connectTimeout = pick ((lastArg (letterOf "connect_timeout") (getopt (fullString d p) argv).1).map (convT fx))
      ((getenv env r.1).map (convByName fx r.2.2 · |>.getD 0)) CONNECT_TIMEOUT
  else if r.2.1 = "command_timeout" then
    c.commandTimeout = pick ((lastArg (letterOf "command_timeout") (getopt (fullString d p) argv).1).map (convT fx))
      ((getenv env r.1).map (convByName fx r.2.2 · |>.getD 0)) 0
  else if r.2.1 = "rcmd_name" then
    c.rcmdName = (lastArg (letterOf "rcmd_name") (getopt (fullString d p) argv).1 <|> getenv env r.1 <|> defaultRcmd d)
  else if r.2.1 = "misc_modules" then
    c.miscModules = (lastArg (letterOf "misc_modules") (getopt (earlyString fx d p) argv).1 <|> getenv env r.1)
  else if r.2.1 = "remote_program_path" then
    c.remotePath = pick (lastArg (letterOf "remote_program_path") (getopt (fullString d p) argv).1)
      (if p.isPcp then getenv env r.1 else none) d.progPath
  else if r.2.1 = "dshpath" then True
  else False

/-- the same for one row (letter, field, conversion) of the generated OPTION table: valued settings that have no
    environment variable (the remote user); fields of the environment table are covered there; rows that touch no
    field, set a flag or end the program carry no valued setting of this property; the target list (`-w`, class
    `other`) is covered by `wcoll_refused` -/
def OptRowHolds (d : Defaults) (p : Pers) (argv : List Str) (c : Cfg) (r : String × String × String) : Prop :=
  if r.2.1 = "ruser" then
    c.ruser = pick (lastArg (r.1.toList.headD ' ') (getopt (fullString d p) argv).1) none d.luser
  else if Gen.OT_ENVS.any (fun e => e.2.1 = r.2.1) then True
  else if r.2.2 = "flag" ∨ r.2.2 = "none" ∨ r.2.2 = "exit0" ∨ r.2.2 = "exit1" then True
  else if r.2.1 = "wcoll" then True
  else False

/-! ### the `switch (c)` of opt_args, row by row -/

/-- the flag of the model's record an opt_t member corresponds to (`none`: a member outside this property's record:
    labels, sigint_terminates, recursive, preserve, debug, test_range_expansion) -/
def flagOfField (field : String) : Option Flag :=
  if field = "ret_remote_rc" then some .S
  else if field = "kill_on_fail" then some .k
  else if field = "info_only" then some .q
  else if field = "target_is_directory" then some .y
  else if field = "pcp_server" then some .z
  else if field = "pcp_client" then some .Z
  else none

/-- the `case` of the model's switch that a generated row (letter, member, behaviour class) stands for; `none` = a
    row the model has no `case` for (a new option, a new member, a changed conversion) -/
def caseOfRow (r : String × String × String) : Option (List Case) :=
  if r.2.2 = "exit0" then some [.exit0]
  else if r.2.2 = "exit1" then some [.usage, .dbg]            -- `-d` before its repair: no `case 'd'`
  else if r.2.2 = "none" then some [.keep, .dbg]              -- `-d` repaired
  else if r.2.2 = "flag" then
    match flagOfField r.2.1 with
    | some f => some [.flag f]
    | none => some [.keep]
  else if r.2.2 = "string_to_int" then
    if r.2.1 = "fanout" then some [.fanout]
    else if r.2.1 = "connect_timeout" then some [.ctmo]
    else if r.2.1 = "command_timeout" then some [.utmo]
    else none
  else if r.2.2 = "strdup" then
    if r.2.1 = "rcmd_name" then some [.rcmd]
    else if r.2.1 = "remote_program_path" then some [.path]
    else none
  else if r.2.2 = "bounded_text" then (if r.2.1 = "ruser" then some [.ruser] else none)
  else if r.2.2 = "other" then (if r.2.1 = "wcoll" then some [.wcoll] else none)
  else none

/-- a letter with several rows (`-Q` sets two members): the model's case must be allowed by one row that names a
    member of the model's record, or by all of them -/
def SwitchRowAgrees (r : String × String × String) : Bool :=
  match caseOfRow r with
  | some cs => cs.contains (caseOf (r.1.toList.headD ' ')) ||
      -- a second member of the same letter that lies outside the model's record
      (r.2.2 = "flag" && (flagOfField r.2.1).isNone &&
        Gen.OT_OPTS.any fun r' => r'.1 = r.1 && r'.2.2 = "flag" && (flagOfField r'.2.1).isSome)
  | none => false

end PdshVerif.Opt
