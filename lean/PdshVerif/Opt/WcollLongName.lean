import PdshVerif.Opt.Wcoll
import PdshVerif.Opt.WcollLookup

/-!
Include names and the reader's path buffer (`char fq_path [4096]` in `wcoll_ctx_read_file`, `PATHBUF`).

`wcoll_ctx_resolve_path` AS FOUND copies an explicit name (`/…`, `./…`, `../…`) with `strncpy (buf, file, len - 1)`:
a name of `PATHBUF` bytes or more is CUT to its first `PATHBUF - 1` bytes and the file of that name is read
(F10-LONGNAME, open; `Opt/Wcoll.lean` `resolve` mirrors it: `f.take (PATHBUF - 1)`).  `resolveR` is the function with
findings/C10-LONGNAME.patch (`strlen (file) >= len` → ENAMETOOLONG).  Bare names go through `snprintf` + a length
test in `wcoll_ctx_path_lookup` and were always refused when `DIR/NAME` does not fit.

checks/c10.py pins both sides of the boundary on the real pdsh in every run (`longname:*`: explicit names of 300 …
PATHBUF-1 bytes read, PATHBUF, PATHBUF+1, 5000 bytes with a file sitting at the cut name; bare names with DIR/NAME of
PATHBUF-2, PATHBUF-1 bytes read and PATHBUF, PATHBUF+1 bytes refused) and probes which of the two forms the tree has.
-/
namespace PdshVerif.Opt.Wcoll

/-- `wcoll_ctx_resolve_path` with findings/C10-LONGNAME.patch -/
def resolveR (fs : FS) (dirs : List Str) (f : Str) : Option Str :=
  if isExplicit f then (if PATHBUF ≤ f.length then none else some f) else pathLookup fs dirs f

theorem pathLookup_fits (fs : FS) : ∀ (dirs : List Str) (name fq : Str),
    pathLookup fs dirs name = some fq → fq.length < PATHBUF ∧ canRead fs fq = true
  | [], _, _, h => by simp [pathLookup] at h
  | d :: ds, name, fq, h => by
    unfold pathLookup at h
    split at h
    · cases h
    · split at h
      · rename_i hlen hr
        cases h
        exact ⟨by omega, hr⟩
      · exact pathLookup_fits fs ds name fq h

/-- whatever the name, what either form hands to `access`/`fopen` fits the buffer -/
theorem resolve_fits (fs : FS) (dirs : List Str) (f fq : Str) (h : resolve fs dirs f = some fq) :
    fq.length < PATHBUF := by
  unfold resolve at h
  split at h
  · cases h
    simp only [List.length_take, PATHBUF]
    omega
  · exact (pathLookup_fits fs dirs f fq h).1

theorem resolveR_fits (fs : FS) (dirs : List Str) (f fq : Str) (h : resolveR fs dirs f = some fq) :
    fq.length < PATHBUF := by
  unfold resolveR at h
  split at h
  · split at h
    · cases h
    · cases h; omega
  · exact (pathLookup_fits fs dirs f fq h).1

/-- THE TWO FORMS AGREE on every name that fits the buffer (every name of a file that can exist: PATH_MAX) -/
theorem resolve_eq_resolveR (fs : FS) (dirs : List Str) (f : Str) (h : f.length < PATHBUF) :
    resolve fs dirs f = resolveR fs dirs f := by
  unfold resolve resolveR
  split
  · rw [if_neg (by omega), List.take_of_length_le (by omega)]
  · rfl

/-- … and on every bare name, of any length -/
theorem resolve_eq_resolveR_bare (fs : FS) (dirs : List Str) (f : Str) (h : isExplicit f = false) :
    resolve fs dirs f = resolveR fs dirs f := by
  simp [resolve, resolveR, h]

/-- REPAIRED: an explicit name is used AS WRITTEN or refused — never another name -/
theorem resolveR_as_written (fs : FS) (dirs : List Str) (f fq : Str) (he : isExplicit f = true)
    (h : resolveR fs dirs f = some fq) : fq = f := by
  unfold resolveR at h
  rw [if_pos he] at h
  split at h
  · cases h
  · cases h; rfl

/-- REPAIRED: an explicit name that does not fit is an error -/
theorem resolveR_refuses_long (fs : FS) (dirs : List Str) (f : Str) (he : isExplicit f = true)
    (h : PATHBUF ≤ f.length) : resolveR fs dirs f = none := by
  simp [resolveR, he, h]

/-- F10-LONGNAME, AS FOUND: every explicit name of `PATHBUF` bytes or more resolves to ANOTHER name — its first
`PATHBUF - 1` bytes — for every file system and search path -/
theorem resolve_cuts_long (fs : FS) (dirs : List Str) (f : Str) (he : isExplicit f = true)
    (h : PATHBUF ≤ f.length) :
    resolve fs dirs f = some (f.take (PATHBUF - 1)) ∧ f.take (PATHBUF - 1) ≠ f := by
  refine ⟨by simp [resolve, he], fun e => ?_⟩
  have := congrArg List.length e
  simp only [List.length_take, PATHBUF] at this h
  omega

end PdshVerif.Opt.Wcoll
