/-
  Specification of "who is contacted how" (property C09), independent of the registry:

  a word is written  [type:][user@]hosts ; the *annotated* words are those with a type or a user.
  A target `h` takes type and user from the FIRST annotated word (command-line order) whose hosts
  contain `h`; what that word does not give -- and everything for a host no annotated word names --
  comes from the defaults: type = -R, else PDSH_RCMD_TYPE, else the first loaded module of the
  documented rank list; user = -l, else the local user.  Rank = zero-based position in the final list.

  The grammar is stated on its own (first ':' / first '@'), not by calling the model's splitter.
-/
import PdshVerif.Opt.Rcmd

namespace PdshVerif.Opt.Rcmd.Spec
open PdshVerif.Opt.Rcmd

/-- text before the first `c` and text after it, if `c` occurs -/
def cut (c : Char) : Str → Option (Str × Str)
  | [] => none
  | d :: rest =>
    if d = c then some ([], rest)
    else match cut c rest with
      | some (a, b) => some (d :: a, b)
      | none => none

structure Parsed where
  rtype : Option Str
  user  : Option Str
  hosts : Str
  deriving Repr, DecidableEq, Inhabited

/-- `[type:][user@]hosts`; `none` = malformed (a ':' after the first '@').  A ':' directly followed
    by another ':' does not introduce a type (kept as part of what follows). -/
def parse (w : Str) : Option Parsed :=
  match cut ':' w with
  | some (t, rest) =>
    if t.contains '@' then
      -- the first ':' comes after the first '@'
      none
    else if rest.head? = some ':' then
      -- "::" : no type; the user is everything before the '@'
      match cut '@' w with
      | some (u, hs) => some ⟨none, some u, hs⟩
      | none => some ⟨none, none, w⟩
    else
      match cut '@' rest with
      | some (u, hs) => some ⟨some t, some u, hs⟩
      | none => some ⟨some t, none, rest⟩
  | none =>
    match cut '@' w with
    | some (u, hs) => some ⟨none, some u, hs⟩
    | none => some ⟨none, none, w⟩

def annotated (w : Word) : Bool :=
  match parse w.text with
  | some p => p.rtype.isSome || p.user.isSome
  | none => false

/-- the first annotated word naming `h` -/
def firstNaming (words : List Word) (h : Str) : Option Parsed :=
  match words.find? (fun w => annotated w && w.full.contains h) with
  | some w => parse w.text
  | none => none

def defaultType (cfg : Cfg) : Option Str :=
  (cfg.optR.orElse fun _ => cfg.envType).orElse fun _ => cfg.rankList.find? (cfg.loaded.contains ·)

def defaultUser (cfg : Cfg) : Str := cfg.optL.getD cfg.luser

/-- (transport, user) demanded for target `h` -/
def hostInfo (cfg : Cfg) (words : List Word) (h : Str) : Option Str × Str :=
  match firstNaming words h with
  | some p => ((p.rtype.orElse fun _ => defaultType cfg), p.user.getD (defaultUser cfg))
  | none => (defaultType cfg, defaultUser cfg)

/-- the connections demanded for a final target list -/
def expectedLines (cfg : Cfg) (words : List Word) (targets : List Str) : List Line :=
  targets.zipIdx.map fun (h, i) =>
    let (t, u) := hostInfo cfg words h
    ⟨t, h, u, i⟩

end PdshVerif.Opt.Rcmd.Spec
