/-
  Lemmas for the last part of opt_args and for main's decision (property C18): the remote command assembled from
  the remaining argv words, which option characters getopt can return at all (per personality), and what that
  means for the flags and the remote-path setting.
-/
import PdshVerif.Opt.Lemmas

namespace PdshVerif.Opt
open PdshVerif

/-! ### the command: words joined by blanks -/

/-- cut at every blank (the inverse of `joinWords` on blank-free words) -/
def splitBlankAux (cur : Str) : Str → List Str
  | [] => [cur.reverse]
  | c :: s => if c = ' ' then cur.reverse :: splitBlankAux [] s else splitBlankAux (c :: cur) s

def splitBlank (s : Str) : List Str := splitBlankAux [] s

theorem splitBlankAux_word (w : Str) (hw : ' ' ∉ w) (cur rest : Str) :
    splitBlankAux cur (w ++ rest) = splitBlankAux (w.reverse ++ cur) rest := by
  induction w generalizing cur with
  | nil => rfl
  | cons c w ih =>
    have hc : c ≠ ' ' := fun h => hw (by simp [h])
    have hw' : ' ' ∉ w := fun h => hw (by simp [h])
    simp only [List.cons_append, splitBlankAux, hc, if_false]
    rw [ih hw']
    simp

/-- a command assembled from blank-free words can be cut back into exactly these words -/
theorem splitBlank_joinWords (ws : List Str) (hne : ws ≠ []) (hnb : ∀ w ∈ ws, ' ' ∉ w) :
    splitBlank (joinWords ws) = ws := by
  unfold splitBlank
  induction ws with
  | nil => exact absurd rfl hne
  | cons w rest ih =>
    cases rest with
    | nil =>
      have := splitBlankAux_word w (hnb w (by simp)) [] []
      simp only [List.append_nil] at this
      simp [joinWords, this, splitBlankAux]
    | cons w' rest' =>
      have h1 := splitBlankAux_word w (hnb w (by simp)) [] (' ' :: joinWords (w' :: rest'))
      simp only [joinWords]
      rw [h1]
      simp only [List.append_nil, splitBlankAux, if_true, List.reverse_reverse]
      rw [ih (by simp) (fun x hx => hnb x (by simp [hx]))]

theorem joinWords_length_pos {ws : List Str} (h : ∃ w ∈ ws, w ≠ []) : joinWords ws ≠ [] := by
  induction ws with
  | nil => obtain ⟨w, hw, _⟩ := h; simp at hw
  | cons a rest ih =>
    cases rest with
    | nil =>
      obtain ⟨w, hw, hne⟩ := h
      simp at hw; subst hw
      simpa [joinWords] using hne
    | cons b r => simp [joinWords]

theorem assembleCmd_none {ops : List Str} : assembleCmd ops = none ↔ ops = [] := by
  unfold assembleCmd
  by_cases h : ops = [] <;> simp [h]

theorem assembleCmd_some {ops : List Str} {cmd : Str} (h : assembleCmd ops = some cmd) :
    ops ≠ [] ∧ cmd = joinWords ops := by
  unfold assembleCmd at h
  by_cases h0 : ops = []
  · simp [h0] at h
  · simp only [h0, if_false, Option.some.injEq] at h
    exact ⟨h0, h.symm⟩

/-! ### which option characters getopt can answer -/

theorem cluster_known (os : Str) (w : Str) (next : Option Str) (ch : Char) (arg : Option Str)
    (h : Tok.opt ch arg ∈ (cluster os w next).1) : ∃ b, optKind os ch = some b := by
  induction w with
  | nil => simp [cluster] at h
  | cons c rest ih =>
    unfold cluster at h
    cases hk : optKind os c with
    | none =>
      simp only [hk, List.mem_cons] at h
      rcases h with h | h
      · cases h
      · exact ih h
    | some b =>
      cases b with
      | false =>
        simp only [hk, List.mem_cons] at h
        rcases h with h | h
        · cases h; exact ⟨false, hk⟩
        · exact ih h
      | true =>
        simp only [hk] at h
        split at h
        · simp only [List.mem_singleton] at h; cases h; exact ⟨true, hk⟩
        · split at h
          · simp only [List.mem_singleton] at h; cases h; exact ⟨true, hk⟩
          · simp at h

theorem getoptGo_known (os : Str) (ch : Char) (arg : Option Str) :
    ∀ (ws : List Str) (skip : Bool), Tok.opt ch arg ∈ (getoptGo os skip ws).1 → ∃ b, optKind os ch = some b := by
  intro ws
  induction ws with
  | nil => intro skip h; simp [getoptGo] at h
  | cons a rest ih =>
    intro skip h
    cases skip with
    | true => simp only [getoptGo] at h; exact ih false h
    | false =>
      simp only [getoptGo] at h
      split at h
      · simp at h
      · split at h
        · simp only [List.mem_append] at h
          rcases h with h | h
          · exact cluster_known os _ _ ch arg h
          · exact ih _ h
        · simp at h

/-- getopt answers only characters of its option string: an option of the other personality is never seen as an
    option (it comes back as '?', `Tok.bad`) -/
theorem getopt_known (os : Str) (argv : List Str) (ch : Char) (arg : Option Str)
    (h : Tok.opt ch arg ∈ (getopt os argv).1) : ∃ b, optKind os ch = some b :=
  getoptGo_known os ch arg argv false h

theorem lastArg_none_of_unknown (os : Str) (argv : List Str) (ch : Char) (h : optKind os ch = none) :
    lastArg ch (getopt os argv).1 = none := by
  cases hl : lastArg ch (getopt os argv).1 with
  | none => rfl
  | some a =>
    obtain ⟨arg, hm, _⟩ := lastArg_mem hl
    obtain ⟨b, hb⟩ := getopt_known os argv ch arg hm
    rw [h] at hb
    cases hb

/-! ### flags -/

def flagTok (fx : Fixes) (d : Defaults) (f : Flag) (t : Tok) : Option Bool :=
  if action fx d t = .flag f then some true else none

theorem action_flag_char {fx : Fixes} {d : Defaults} {t : Tok} {f : Flag} (h : action fx d t = .flag f) :
    ∃ ch arg, t = .opt ch arg ∧ (caseOf ch = .flag f ∨ (caseOf ch = .wcoll ∧ f = .w)) := by
  cases t with
  | bad => simp [action] at h
  | opt ch arg =>
    refine ⟨ch, arg, rfl, ?_⟩
    unfold action at h
    simp only at h
    split at h
    all_goals first
      | (simp at h; done)
      | (rename_i hc; simp only [Act.flag.injEq] at h; subst h; exact Or.inl hc)
      | skip
    all_goals first
      | (split at h <;> simp at h; done)
      | (cases hx : stringToInt fx (arg.getD []) <;> simp [hx, Option.elim] at h; done)
      | (cases hx : timeoutArg fx (arg.getD []) <;> simp [hx, Option.elim] at h; done)
      | skip
    · rename_i hc
      right
      cases hx : wcollArg fx d (arg.getD []) with
      | none => simp [hx, Option.elim] at h
      | some b =>
        simp only [hx, Option.elim] at h
        split at h
        · simp only [Act.flag.injEq] at h; exact ⟨hc, h.symm⟩
        · simp at h

/-- the member of the record a flag stands for -/
def flagField : Flag → Cfg → Bool
  | .S => (·.retRemoteRc) | .k => (·.killOnFail) | .q => (·.infoOnly) | .w => (·.hasWcoll)
  | .y => (·.targetIsDir) | .z => (·.pcpServer) | .Z => (·.pcpClient)

theorem step_flag (fx : Fixes) (d : Defaults) (p : Pers) (f : Flag) (c c1 : Cfg) (t : Tok)
    (h : applyTok fx d p c t = .ok c1) : flagField f c1 = (flagTok fx d f t).getD (flagField f c) := by
  unfold applyTok at h
  unfold flagTok
  generalize action fx d t = a at h
  cases a with
  | flag g =>
    simp only [perform, Except.ok.injEq] at h
    subst h
    cases g <;> cases f <;> simp [setFlag, flagField]
  | exit n => simp [perform] at h
  | _ =>
    simp only [perform, Except.ok.injEq] at h
    subst h
    cases f <;> simp [flagField]

theorem lastSome_some_mem {α : Type} {g : Tok → Option α} {toks : List Tok} {a : α}
    (h : lastSome g toks = some a) : ∃ t ∈ toks, g t = some a := by
  induction toks with
  | nil => simp [lastSome] at h
  | cons t ts ih =>
    simp only [lastSome] at h
    cases hl : lastSome g ts with
    | some b =>
      simp only [hl, Option.some.injEq] at h
      subst h
      obtain ⟨t', hm, hg⟩ := ih hl
      exact ⟨t', List.mem_cons_of_mem _ hm, hg⟩
    | none =>
      simp only [hl] at h
      exact ⟨t, by simp, h⟩

/-- the flags of an accepted configuration: set exactly when some option of the command line sets them -/
theorem effective_flag {fx : Fixes} {d : Defaults} {p : Pers} {env : Env} {argv : List Str} {c : Cfg}
    (h : effective fx d p env argv = .ok c) (f : Flag) :
    flagField f c = true ↔ ∃ t ∈ (getopt (fullString d p) argv).1, action fx d t = .flag f := by
  obtain ⟨c1, c3, he, ha, hp, _⟩ := effective_ok_inv h
  obtain ⟨_, _, _, _, _, _, hc1⟩ := optEnv_ok he
  obtain ⟨hc, _⟩ := postArgs_ok hp
  have k := applyToks_field fx d p (flagField f) (flagTok fx d f) (fun c t c1 => step_flag fx d p f c c1 t) _ _ _ ha
  have e2 := optArgsEarly_other c1 (getopt (earlyString fx d p) argv).1
  have h0 : flagField f (optArgsEarly c1 (getopt (earlyString fx d p) argv).1) = false := by
    rw [e2, hc1]
    cases f <;> simp [flagField, optDefault]
  have hcc : flagField f c = flagField f c3 := by
    rw [hc]; cases f <;> simp [flagField]
  rw [hcc, k, h0]
  constructor
  · intro hh
    cases hl : lastSome (flagTok fx d f) (getopt (fullString d p) argv).1 with
    | none => simp [hl] at hh
    | some b =>
      obtain ⟨t, hm, hg⟩ := lastSome_some_mem hl
      refine ⟨t, hm, ?_⟩
      unfold flagTok at hg
      by_cases ha' : action fx d t = .flag f
      · exact ha'
      · simp [ha'] at hg
  · intro ⟨t, hm, hact⟩
    have : ∀ toks : List Tok, t ∈ toks → lastSome (flagTok fx d f) toks = some true := by
      intro toks
      induction toks with
      | nil => intro h; simp at h
      | cons x xs ih =>
        intro hin
        simp only [lastSome]
        cases hl : lastSome (flagTok fx d f) xs with
        | some b =>
          obtain ⟨t', _, hg⟩ := lastSome_some_mem hl
          unfold flagTok at hg
          by_cases ha' : action fx d t' = .flag f
          · simp [ha'] at hg; simp [← hg]
          · simp [ha'] at hg
        | none =>
          rcases List.mem_cons.mp hin with rfl | hin'
          · simp [flagTok, hact]
          · rw [ih hin'] at hl; cases hl
    rw [this _ hm]
    rfl

/-- a flag whose letter is not in the option string of the personality (nor registered by a module) stays off:
    the command line cannot even mention it without being refused -/
theorem flag_off_of_unknown {fx : Fixes} {d : Defaults} {p : Pers} {env : Env} {argv : List Str} {c : Cfg}
    (h : effective fx d p env argv = .ok c) (f : Flag) (hf : f ≠ .w)
    (hun : ∀ ch, caseOf ch = .flag f → optKind (fullString d p) ch = none) : flagField f c = false := by
  cases hv : flagField f c with
  | false => rfl
  | true =>
    obtain ⟨t, hm, hact⟩ := (effective_flag h f).mp hv
    obtain ⟨ch, arg, rfl, hcase⟩ := action_flag_char hact
    rcases hcase with hcase | ⟨_, hw⟩
    · obtain ⟨b, hb⟩ := getopt_known _ _ ch arg hm
      rw [hun ch hcase] at hb
      cases hb
    · exact absurd hw hf

theorem caseOf_flag_S {ch : Char} (h : caseOf ch = .flag .S) : ch = 'S' := by
  unfold caseOf at h; split at h <;> first | rfl | (simp at h)
theorem caseOf_flag_k {ch : Char} (h : caseOf ch = .flag .k) : ch = 'k' := by
  unfold caseOf at h; split at h <;> first | rfl | (simp at h)

/-- -S / -k are in force exactly when the command line has the option (there is no variable for them) -/
theorem flag_S_iff {fx : Fixes} {d : Defaults} {p : Pers} {env : Env} {argv : List Str} {c : Cfg}
    (h : effective fx d p env argv = .ok c) :
    (c.retRemoteRc = true ↔ ∃ arg, Tok.opt 'S' arg ∈ (getopt (fullString d p) argv).1) ∧
    (c.killOnFail = true ↔ ∃ arg, Tok.opt 'k' arg ∈ (getopt (fullString d p) argv).1) := by
  have hS := effective_flag h .S
  have hk := effective_flag h .k
  simp only [flagField] at hS hk
  constructor
  · rw [hS]
    constructor
    · intro ⟨t, hm, ha⟩
      obtain ⟨ch, arg, rfl, hc⟩ := action_flag_char ha
      rcases hc with hc | ⟨_, hw⟩
      · rw [caseOf_flag_S hc] at hm; exact ⟨arg, hm⟩
      · cases hw
    · intro ⟨arg, hm⟩
      exact ⟨_, hm, by simp [action, caseOf]⟩
  · rw [hk]
    constructor
    · intro ⟨t, hm, ha⟩
      obtain ⟨ch, arg, rfl, hc⟩ := action_flag_char ha
      rcases hc with hc | ⟨_, hw⟩
      · rw [caseOf_flag_k hc] at hm; exact ⟨arg, hm⟩
      · cases hw
    · intro ⟨arg, hm⟩
      exact ⟨_, hm, by simp [action, caseOf]⟩

/-- pdcp / rpdcp: neither letter is in the option string, so both flags are off in every accepted copy run -/
theorem pcp_flags_off {fx : Fixes} {d : Defaults} {p : Pers} {env : Env} {argv : List Str} {c : Cfg}
    (hmS : optKind (fullString d p) 'S' = none) (hmk : optKind (fullString d p) 'k' = none)
    (h : effective fx d p env argv = .ok c) : c.retRemoteRc = false ∧ c.killOnFail = false := by
  obtain ⟨hS, hk⟩ := flag_S_iff h
  constructor
  · cases hv : c.retRemoteRc with
    | false => rfl
    | true =>
      obtain ⟨arg, hm⟩ := hS.mp hv
      obtain ⟨b, hb⟩ := getopt_known _ _ _ _ hm
      rw [hmS] at hb; cases hb
  · cases hv : c.killOnFail with
    | false => rfl
    | true =>
      obtain ⟨arg, hm⟩ := hk.mp hv
      obtain ⟨b, hb⟩ := getopt_known _ _ _ _ hm
      rw [hmk] at hb; cases hb

/-! ### the codes a refusal can have -/

theorem action_exit_code {fx : Fixes} {d : Defaults} {t : Tok} {n : Nat} (h : action fx d t = .exit n) : n = 0 ∨ n = 1 := by
  cases t with
  | bad => simp [action] at h; omega
  | opt ch arg =>
    unfold action at h
    simp only at h
    split at h
    all_goals first
      | (simp at h; omega)
      | (split at h <;> simp at h <;> omega)
      | (cases hx : stringToInt fx (arg.getD []) <;> simp [hx, Option.elim] at h <;> omega)
      | (cases hx : timeoutArg fx (arg.getD []) <;> simp [hx, Option.elim] at h <;> omega)
      | skip
    · cases hx : wcollArg fx d (arg.getD []) with
      | none => simp [hx, Option.elim] at h; omega
      | some b => cases b <;> simp [hx, Option.elim] at h

theorem applyToks_error {fx : Fixes} {d : Defaults} {p : Pers} {toks : List Tok} {c : Cfg} {n : Nat}
    (h : applyToks fx d p c toks = .error n) : ∃ t ∈ toks, action fx d t = .exit n := by
  induction toks generalizing c with
  | nil => simp [applyToks] at h
  | cons t ts ih =>
    unfold applyToks at h
    cases h1 : applyTok fx d p c t with
    | error m =>
      simp only [h1, Except.error.injEq] at h
      subst h
      refine ⟨t, by simp, ?_⟩
      unfold applyTok at h1
      generalize action fx d t = a at h1
      cases a <;> simp [perform] at h1
      subst h1; rfl
    | ok c1 =>
      simp only [h1] at h
      obtain ⟨t', hm, ha⟩ := ih h
      exact ⟨t', List.mem_cons_of_mem _ hm, ha⟩

/-- main ends before dsh() with status 1 — or with status 0, and then only because an option that asks for
    information and nothing else (-L, -V, -T) is on the command line -/
theorem effective_exit_code {fx : Fixes} {d : Defaults} {p : Pers} {env : Env} {argv : List Str} {n : Nat}
    (h : effective fx d p env argv = .exit n) :
    n = 1 ∨ (n = 0 ∧ ∃ t ∈ (getopt (fullString d p) argv).1, action fx d t = .exit 0) := by
  unfold effective at h
  cases h1 : optEnv fx p env (optDefault d) with
  | error m =>
    simp only [h1, Result.exit.injEq] at h
    subst h
    left
    unfold optEnv at h1
    have en : ∀ name cur m, envNum fx env name cur = .error m → m = 1 := by
      intro name cur m hm
      unfold envNum at hm
      cases hg : getenv env name with
      | none => simp [hg] at hm
      | some t =>
        simp only [hg] at hm
        cases hs : stringToInt fx t with
        | none => simp [hs] at hm; exact hm.symm
        | some w => simp [hs] at hm
    cases e1 : envNum fx env "FANOUT" (optDefault d).fanout with
    | error k => simp [e1, bind, Except.bind] at h1; rw [← h1]; exact en _ _ _ e1
    | ok f =>
      cases e2 : envNum fx env "PDSH_CONNECT_TIMEOUT" (optDefault d).connectTimeout with
      | error k => simp [e1, e2, bind, Except.bind] at h1; rw [← h1]; exact en _ _ _ e2
      | ok ct =>
        cases e3 : envNum fx env "PDSH_COMMAND_TIMEOUT" (optDefault d).commandTimeout with
        | error k => simp [e1, e2, e3, bind, Except.bind] at h1; rw [← h1]; exact en _ _ _ e3
        | ok ut => simp [e1, e2, e3, bind, Except.bind, pure, Except.pure] at h1
  | ok c1 =>
    simp only [h1] at h
    cases h2 : applyToks fx d p (optArgsEarly c1 (getopt (earlyString fx d p) argv).1) (getopt (fullString d p) argv).1 with
    | error m =>
      simp only [h2, Result.exit.injEq] at h
      subst h
      obtain ⟨t, hm, ha⟩ := applyToks_error h2
      rcases action_exit_code ha with h0 | h1'
      · right; subst h0; exact ⟨rfl, t, hm, ha⟩
      · left; exact h1'
    | ok c3 =>
      simp only [h2] at h
      cases h3 : postArgs d c3 with
      | error m =>
        simp only [h3, Result.exit.injEq] at h
        subst h
        left
        unfold postArgs at h3
        cases hn : (c3.rcmdName <|> defaultRcmd d) with
        | none => simp [hn] at h3
        | some nm =>
          simp only [hn] at h3
          split at h3
          · simp at h3
          · simp at h3; exact h3.symm
      | ok c4 =>
        simp only [h3] at h
        split at h
        · simp at h
        · simp at h; left; exact h.symm

end PdshVerif.Opt
