/-
  C02  A SYNTACTIC sufficient condition for `Domain` / `EntryOk` (Opt/ExcludeCompose.lean, Opt/ExcludeLemmas.lean).

  `Domain` holds hypotheses that speak about the MODEL (`EntryOk`: the exclusion text parses, the temporary list
  `hostlist_delete` builds is in order, …; `low`: the assembled list has small numbers).  Until now they were decided
  per command line by running the model.  `SynOk` is a decidable predicate on the WORDS of the command line alone —
  shapes, lengths and digit counts, computed without the list model:

    * at least one target word;
    * every target and exclusion word is a well-formed expression in C01's sense (`Spec.Word.WF`, `wordDom`) with
      at most ONE pair of brackets, written so that `wcoll_arg_process` takes it as a host word (first character);
    * every name a word stands for has at most 15 characters (⇒ every number is below 10^15, which `hostrange_pop` /
      `hostlist_next` print whole);
    * every name an EXCLUSION word stands for ends in at most 7 digits (⇒ the tail is ≤ 2^25 = MAX_HOST_SUFFIX, so
      `hostname_create` splits it off and `hostlist_find` sees it inside a range: no F16-BIGSUFFIX).

  `domain_of_syntax`: `SynOk` (and a regex table that answers — the environment, not the command line) ⇒ `Domain`.
-/
import PdshVerif.Opt.ExcludeCompose

namespace PdshVerif.Opt.Exclude
open PdshVerif.Hostlist

/-! ### short names ⇒ small numbers -/
/-- a good record all of whose names have at most 15 characters holds numbers below 10^15 -/
theorem hi_lt_of_short (r : HRange) (hg : r.Good) (hs : ∀ h ∈ r.hosts, h.length ≤ 15) : r.hi < 10 ^ 15 := by
  cases hsg : r.single with
  | true => rw [(hg.1 hsg).2]; decide
  | false =>
    have hle := (hg.2 hsg).1
    have hmem : r.pre ++ fmtPad r.width r.hi ∈ r.hosts := by
      unfold HRange.hosts
      rw [hsg]
      simp only [Bool.false_eq_true, ↓reduceIte, List.mem_map]
      exact ⟨r.hi, by rw [List.mem_range']; exact ⟨r.hi - r.lo, by omega, by omega⟩, rfl⟩
    have hl := hs _ hmem
    rw [List.length_append] at hl
    have h1 : dval (fmtPad r.width r.hi) < 10 ^ (fmtPad r.width r.hi).length := dval_lt (fmtPad_allDigits _ _)
    rw [dval_fmtPad] at h1
    exact Nat.lt_of_lt_of_le h1 (Nat.pow_le_pow_right (by decide) (by omega))

theorem shiftFits_of_lt {r : HRange} (h : r.hi < 10 ^ 15) : r.ShiftFits := by
  intro _
  have := ndig_le_of_lt_pow (by decide : 0 < 15) h
  omega

/-- a list whose names all have at most 15 characters: every record holds numbers below 10^15 -/
theorem el_hiBelow_of_short (e : EL) (hg : e.Good) (hs : ∀ h ∈ e.hosts, h.length ≤ 15) : e.HiBelow (10 ^ 15) := by
  intro r hr
  exact hi_lt_of_short r (hg.1 r hr) fun h hh => hs h (List.mem_flatMap.mpr ⟨r, hr, hh⟩)

/-- a name that ends in at most 7 digits has a small numeric tail -/
theorem smallName_of_digits (x : Str) (h : (x.reverse.takeWhile isDigit).length ≤ 7) : SmallName x := by
  obtain ⟨h1, h2, h3⟩ := hostPrefix_split x
  unfold SmallName
  have hlt := dval_lt h2
  have hlen : (x.drop (hostPrefixLen x)).length ≤ 7 := by
    rw [h3]; unfold hostPrefixLen; omega
  have : 10 ^ (x.drop (hostPrefixLen x)).length ≤ 10 ^ 7 := Nat.pow_le_pow_right (by decide) hlen
  have hm : 10 ^ 7 ≤ PdshVerif.Gen.MAX_HOST_SUFFIX := by decide
  omega

/-! ### one exclusion entry -/
/-- what is asked of a name an exclusion word stands for -/
def nameOk (x : Str) : Bool := decide (x.length ≤ 15) && decide ((x.reverse.takeWhile isDigit).length ≤ 7)

theorem syn_new_good : EL.new.Good := ⟨by simp [EL.new, EL.ranges], by simp [EL.new, EL.hosts, EL.ranges]⟩

/-- ENTRY OK, syntactically: the text of a well-formed word whose names are short and end in at most 7 digits is an
    exclusion entry the theorems speak about — it parses, its temporary list is in order, it denotes `expand₁` -/
theorem entryOk_of_syntax (cfg : Cfg) (w : Spec.Word) (hw : w.WF = true) (hd : wordDom cfg w)
    (hn : ∀ n ∈ w.expand₁, nameOk n = true) : EntryOk cfg (Spec.renderWord w) w.expand₁ := by
  obtain ⟨t, hc, htg, hth⟩ := create_word cfg w hw hd
  obtain ⟨hg, hh, _, _⟩ := pushListE_spec EL.new t syn_new_good htg
  have h0 : EL.new.hosts = [] := by simp [EL.new, EL.hosts, EL.ranges]
  rw [h0, List.nil_append, hth] at hh
  have hshort : ∀ h ∈ (pushListE EL.new t).hosts, h.length ≤ 15 := by
    intro h hm
    rw [hh] at hm
    have := hn h hm
    simp only [nameOk, Bool.and_eq_true, decide_eq_true_eq] at this
    exact this.1
  refine ⟨t, hc, hg, ?_, ?_, hh.symm, ?_⟩
  · intro r hr
    exact shiftFits_of_lt (el_hiBelow_of_short _ hg hshort r hr)
  · rw [hh, ← hth]
    have := htg.2
    omega
  · intro x hx
    have := hn x hx
    simp only [nameOk, Bool.and_eq_true, decide_eq_true_eq] at this
    exact smallName_of_digits x this.2

/-! ### the predicate on the words -/
def oneBracketB : Spec.Word → Bool
  | .plain _ => true
  | .br _ _ _ none => true
  | .br _ _ _ (some _) => false

theorem oneBracketB_sound {w : Spec.Word} (h : oneBracketB w = true) : OneBracket w := by
  cases w with
  | plain n => trivial
  | br pre g1 mid g2 =>
    cases g2 with
    | none => trivial
    | some p => simp [oneBracketB] at h

/-- the first character makes `wcoll_arg_process` take the word as host names -/
def hostText' (t : Str) : Bool :=
  match t with
  | c :: _ => c != '-' && c != '^' && c != '/' && !Wcoll.isspaceC c
  | [] => false

theorem hostText'_sound {t : Str} (h : hostText' t = true) : HostText t := by
  cases t with
  | nil => simp [hostText'] at h
  | cons c cs =>
    simp only [hostText', Bool.and_eq_true, bne_iff_ne, ne_eq, Bool.not_eq_true'] at h
    exact ⟨c, cs, rfl, h.1.1.1, h.1.1.2, h.1.2, h.2⟩

/-- … the part behind the dash as an exclusion -/
def xText' (t : Str) : Bool :=
  match t with
  | c :: _ => c != '^' && c != '/' && !Wcoll.isspaceC c
  | [] => false

theorem xText'_sound {t : Str} (h : xText' t = true) : XText t := by
  cases t with
  | nil => simp [xText'] at h
  | cons c cs =>
    simp only [xText', Bool.and_eq_true, bne_iff_ne, ne_eq, Bool.not_eq_true'] at h
    exact ⟨c, cs, rfl, h.1.1, h.1.2, h.2⟩

/-- a TARGET word: well-formed (C01), one bracket pair at most, taken as a host word, no `rcmd_type:` / `user@` part
    (C09's), every name at most 15 characters -/
def tgtSyn (cfg : Cfg) (w : Spec.Word) : Bool :=
  w.WF && decide (wordDom cfg w) && oneBracketB w && hostText' (Spec.renderWord w) &&
  decide (Wcoll.hostPart (Spec.renderWord w) = some (Spec.renderWord w)) &&
  w.expand₁.all fun n => decide (n.length ≤ 15)

/-- an EXCLUSION word: well-formed, one bracket pair at most, not a file / filter word, every name at most 15
    characters ending in at most 7 digits -/
def xclSyn (cfg : Cfg) (w : Spec.Word) : Bool :=
  w.WF && decide (wordDom cfg w) && oneBracketB w && xText' (Spec.renderWord w) && w.expand₁.all nameOk

/-- THE SYNTACTIC CLASS of command lines (words by meaning; their text is `ws.map CW.text`) -/
def SynOk (cfg : Cfg) (ws : List CW) : Bool :=
  !(tgts ws).isEmpty && (tgts ws).all (tgtSyn cfg) && (xcls ws).all (xclSyn cfg)

theorem plain_of_oneBracket (w : Spec.Word) (hw : w.WF = true) (h1 : OneBracket w) (n : Str) (hn : n ∈ w.expand₁) :
    (Spec.Word.plain n).WF = true := by
  have hr := reword_oneBracket w h1
  exact reword_wf w hw _ (by rw [hr]; exact List.mem_map.mpr ⟨n, hn, rfl⟩)

theorem wordDom_plain_short (cfg : Cfg) (n : Str) (h : n.length ≤ 15) : wordDom cfg (.plain n) := by
  unfold wordDom
  right
  have : CURTOK = 1024 := rfl
  omega

/-- SYNTAX ⇒ DOMAIN: for a command line in the syntactic class (and a regex table that answers for its patterns and
    targets, patterns `regcomp` accepts) every hypothesis of `exclusion_correct` holds -/
theorem domain_of_syntax (cfg : Cfg) (env : Env) (ws : List CW) (hs : SynOk cfg ws = true)
    (hre : ∀ p ∈ regs ws, env.badre p.2 = false)
    (ho : ∀ p ∈ regs ws, ∀ h ∈ Spec.expand₁ (tgts ws), (env.rematch p.2 h).isSome = true) : Domain cfg env ws := by
  simp only [SynOk, Bool.and_eq_true, Bool.not_eq_true', List.all_eq_true] at hs
  obtain ⟨⟨hne, ht⟩, hx⟩ := hs
  have htf : ∀ w ∈ tgts ws, w.WF = true ∧ wordDom cfg w ∧ OneBracket w ∧ HostText (Spec.renderWord w) ∧
      Wcoll.hostPart (Spec.renderWord w) = some (Spec.renderWord w) ∧ ∀ n ∈ w.expand₁, n.length ≤ 15 := by
    intro w hw
    have := ht w hw
    simp only [tgtSyn, Bool.and_eq_true, decide_eq_true_eq, List.all_eq_true] at this
    obtain ⟨⟨⟨⟨⟨a, b⟩, c⟩, d⟩, e⟩, f⟩ := this
    exact ⟨a, b, oneBracketB_sound c, hostText'_sound d, e, f⟩
  have hxf : ∀ w ∈ xcls ws, w.WF = true ∧ wordDom cfg w ∧ OneBracket w ∧ XText (Spec.renderWord w) ∧
      ∀ n ∈ w.expand₁, nameOk n = true := by
    intro w hw
    have := hx w hw
    simp only [xclSyn, Bool.and_eq_true, decide_eq_true_eq, List.all_eq_true] at this
    obtain ⟨⟨⟨⟨a, b⟩, c⟩, d⟩, e⟩ := this
    exact ⟨a, b, oneBracketB_sound c, xText'_sound d, e⟩
  refine ⟨⟨fun w hw => ⟨(htf w hw).1, (htf w hw).2.1, (htf w hw).2.2.2.1, (htf w hw).2.2.2.2.1⟩,
      fun w hw => (hxf w hw).2.2.2.1, hre⟩, ?_, fun w hw => (htf w hw).2.2.1, ?_, ?_, ?_, ho, ?_⟩
  · intro h0
    rw [h0] at hne
    simp at hne
  · intro w hw w' hw'
    rw [reword_oneBracket w (htf w hw).2.2.1] at hw'
    obtain ⟨n, hn, rfl⟩ := List.mem_map.mp hw'
    exact wordDom_plain_short cfg n ((htf w hw).2.2.2.2.2 n hn)
  · intro w hw
    exact entryOk_of_syntax cfg w (hxf w hw).1 (hxf w hw).2.1 (hxf w hw).2.2.2.2
  · intro _ w hw n hn
    have hok := (hxf w hw).2.2.2.2 n hn
    have hlen : n.length ≤ 15 := by
      simp only [nameOk, Bool.and_eq_true, decide_eq_true_eq] at hok
      exact hok.1
    have := entryOk_of_syntax cfg (.plain n) (plain_of_oneBracket w (hxf w hw).1 (hxf w hw).2.2.1 n hn)
      (wordDom_plain_short cfg n hlen) (by
        intro m hm
        simp only [Spec.Word.expand₁, List.mem_singleton] at hm
        rw [hm]; exact hok)
    simpa [Spec.renderWord, Spec.Word.expand₁] using this
  · obtain ⟨g0, h0, _, _⟩ := assembleE_spec cfg (tgts ws) EL.new syn_new_good
      (fun w hw => ⟨(htf w hw).1, (htf w hw).2.1⟩)
    apply el_hiBelow_of_short _ g0
    intro h hh
    rw [h0] at hh
    have h00 : EL.new.hosts = [] := by simp [EL.new, EL.hosts, EL.ranges]
    rw [h00, List.nil_append] at hh
    obtain ⟨w, hw, hx⟩ := List.mem_flatMap.mp hh
    exact (htf w hw).2.2.2.2.2 h hx

end PdshVerif.Opt.Exclude
