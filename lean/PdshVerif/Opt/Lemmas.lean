/-
  Helper lemmas for property C18 (the property theorems are in Props/C18.lean).
-/
import PdshVerif.Opt.Settings
import PdshVerif.Base.CIntLemmas

namespace PdshVerif.Opt
open PdshVerif

/-! ### numeric conversions against the type-free reading `CInt.denotes` -/

/-- repaired string_to_int (D5): what it returns is what the text denotes, and it fits an int -/
theorem stringToInt_denotes (fx : Fixes) (hd5 : fx.d5 = true) (s : Str) (v : Int)
    (h : stringToInt fx s = some v) :
    CInt.denotes s = some v ∧ CInt.INT_MIN ≤ v ∧ v ≤ CInt.INT_MAX := by
  unfold stringToInt at h
  simp only [hd5, if_true] at h
  unfold CInt.strtol at h
  unfold CInt.denotes
  by_cases hd : (CInt.scan s).digits = []
  · simp [hd] at h
  · simp only [hd, if_false] at h ⊢
    by_cases hn : (CInt.scan s).neg = true
    · simp only [hn, if_true] at h ⊢
      by_cases ho : CInt.digitsVal (CInt.scan s).digits > CInt.I63
      · simp [ho] at h
      · simp only [ho, if_false, Bool.false_or, Bool.or_eq_true, decide_eq_true_eq, ite_eq_right_iff] at h
        split at h
        · simp at h
        · rename_i hc
          simp only [not_or, Bool.not_eq_true, bne_eq_false_iff_eq, decide_eq_false_iff_not,
            Int.not_lt, ne_eq, Decidable.not_not] at hc
          simp only [Option.some.injEq] at h
          subst h
          obtain ⟨⟨hr, h1⟩, h2⟩ := hc
          have hr' : (CInt.scan s).rest = [] := by simpa using hr
          simp [hr']
          omega
    · simp only [hn, Bool.false_eq_true, if_false] at h ⊢
      by_cases ho : CInt.digitsVal (CInt.scan s).digits ≥ CInt.I63
      · simp [ho] at h
      · simp only [ho, if_false, Bool.false_or, Bool.or_eq_true, decide_eq_true_eq] at h
        split at h
        · simp at h
        · rename_i hc
          simp only [not_or, Bool.not_eq_true, bne_eq_false_iff_eq, decide_eq_false_iff_not,
            Int.not_lt, ne_eq, Decidable.not_not] at hc
          simp only [Option.some.injEq] at h
          subst h
          obtain ⟨⟨hr, h1⟩, h2⟩ := hc
          have hr' : (CInt.scan s).rest = [] := by simpa using hr
          simp [hr']
          omega

theorem canonical_scan (s : Str) (h : CInt.canonical s = true) :
    CInt.scan s = { neg := false, digits := s, rest := [] } := by
  unfold CInt.canonical at h
  simp only [Bool.and_eq_true, bne_iff_ne, ne_eq, List.all_eq_true] at h
  obtain ⟨⟨hne, hall⟩, _⟩ := h
  have := CInt.scan_numeral s [] (by simpa using hne) (fun c hc => by simpa [CInt.isDigit] using hall c hc)
    (by simp)
  simpa using this

/-- a canonical numeral within int range is converted to its value by string_to_int, repaired or not -/
theorem stringToInt_canonical (fx : Fixes) (s : Str) (hc : CInt.canonical s = true)
    (hr : (CInt.digitsVal s : Int) ≤ CInt.INT_MAX) :
    stringToInt fx s = some (CInt.digitsVal s : Int) := by
  have hs := canonical_scan s hc
  have hne : s ≠ [] := by
    unfold CInt.canonical at hc
    simp only [Bool.and_eq_true] at hc
    simpa using hc.1.1
  unfold CInt.INT_MAX at hr
  unfold stringToInt
  by_cases hd5 : fx.d5 = true
  · simp only [hd5, if_true]
    unfold CInt.strtol
    simp only [hs, hne, if_false, Bool.false_eq_true]
    have : ¬ (CInt.digitsVal s ≥ CInt.I63) := by unfold CInt.I63; omega
    simp only [this, if_false]
    have h1 : ¬ ((CInt.digitsVal s : Int) < CInt.INT_MIN) := by unfold CInt.INT_MIN; omega
    have h2 : ¬ ((CInt.digitsVal s : Int) > CInt.INT_MAX) := by unfold CInt.INT_MAX; omega
    simp [h1, h2]
  · simp only [hd5, Bool.false_eq_true, if_false]
    unfold CInt.strtoul
    simp only [hs, hne, if_false, Bool.false_eq_true]
    have : ¬ (CInt.digitsVal s ≥ CInt.U64) := by unfold CInt.U64; omega
    simp only [this, if_false]
    simp
    exact CInt.toInt32_small _ (by unfold CInt.I31; omega)

/-! ### the last occurrence of an option -/

/-- argument of the last token for option `ch` -/
def lastArg (ch : Char) : List Tok → Option Str
  | [] => none
  | t :: ts =>
    match lastArg ch ts with
    | some a => some a
    | none =>
      match t with
      | .opt c arg => if c = ch then some (arg.getD []) else none
      | .bad => none

def isOpt (ch : Char) : Tok → Bool
  | .opt c _ => c = ch
  | .bad => false

/-- `lastArg ch` only depends on the sub-sequence of `ch` tokens: adding, removing or reordering
    other options does not change it -/
theorem lastArg_filter (ch : Char) (toks : List Tok) :
    lastArg ch toks = lastArg ch (toks.filter (isOpt ch)) := by
  induction toks with
  | nil => rfl
  | cons t ts ih =>
    cases t with
    | bad =>
      simp only [List.filter, isOpt, lastArg, ih]
      cases lastArg ch (List.filter (isOpt ch) ts) <;> simp
    | opt c arg =>
      by_cases hc : c = ch
      · simp [List.filter, isOpt, hc, lastArg, ih]
      · simp only [List.filter, isOpt, hc, decide_false, lastArg, ih]
        cases lastArg ch (List.filter (isOpt ch) ts) <;> simp

/-! ### one token -/

theorem perform_ok_cases {c c' : Cfg} {a : Act} (h : perform c a = .ok c') :
    (a = .keep ∧ c' = c) ∨ (∃ v, a = .fanout v ∧ c' = { c with fanout := v }) ∨
    (∃ v, a = .ctmo v ∧ c' = { c with connectTimeout := v }) ∨
    (∃ v, a = .utmo v ∧ c' = { c with commandTimeout := v }) ∨
    (∃ s, a = .ruser s ∧ c' = { c with ruser := s }) ∨
    (∃ s, a = .rcmd s ∧ c' = { c with rcmdName := some s }) ∨
    (∃ s, a = .path s ∧ c' = { c with remotePath := s }) ∨
    (∃ f, a = .flag f ∧ c' = setFlag c f) := by
  cases a <;> simp_all [perform]
  all_goals (first | exact h.symm | skip)

/-! ### which token produces which action -/

theorem caseOf_fanout {ch : Char} (h : caseOf ch = .fanout) : ch = 'f' := by
  unfold caseOf at h; split at h <;> first | rfl | (simp at h)
theorem caseOf_ctmo {ch : Char} (h : caseOf ch = .ctmo) : ch = 't' := by
  unfold caseOf at h; split at h <;> first | rfl | (simp at h)
theorem caseOf_utmo {ch : Char} (h : caseOf ch = .utmo) : ch = 'u' := by
  unfold caseOf at h; split at h <;> first | rfl | (simp at h)
theorem caseOf_ruser {ch : Char} (h : caseOf ch = .ruser) : ch = 'l' := by
  unfold caseOf at h; split at h <;> first | rfl | (simp at h)
theorem caseOf_rcmd {ch : Char} (h : caseOf ch = .rcmd) : ch = 'R' := by
  unfold caseOf at h; split at h <;> first | rfl | (simp at h)
theorem caseOf_path {ch : Char} (h : caseOf ch = .path) : ch = 'e' := by
  unfold caseOf at h; split at h <;> first | rfl | (simp at h)

/-- inversion of `action`: split on the selected case, keep the one whose constructor matches -/
macro "action_inv" h:ident "," fx:term "," arg:term "," lem:term : tactic => `(tactic| (
  all_goals first
    | (have hch := $lem (by assumption); rw [hch]; done)
    | (simp at $h:ident; done)
    | (cases hx : stringToInt $fx (Option.getD $arg []) <;> simp [hx, Option.elim] at $h:ident <;> done)
    | (cases hx : timeoutArg $fx (Option.getD $arg []) <;> simp [hx, Option.elim] at $h:ident <;> done)
    | (split at $h:ident <;> simp at $h:ident <;> done)
    | (cases hx : wcollArg $fx ‹Defaults› (Option.getD $arg []) with
       | none => simp [hx, Option.elim] at $h:ident
       | some b => cases b <;> simp [hx, Option.elim] at $h:ident)))

theorem action_fanout_inv {fx : Fixes} {d : Defaults} {t : Tok} {v : Int} (h : action fx d t = .fanout v) :
    ∃ arg, t = .opt 'f' arg := by
  cases t with
  | bad => simp [action] at h
  | opt ch arg =>
    refine ⟨arg, ?_⟩
    unfold action at h
    simp only at h
    split at h
    action_inv h, fx, arg, caseOf_fanout

theorem action_ctmo_inv {fx : Fixes} {d : Defaults} {t : Tok} {v : Int} (h : action fx d t = .ctmo v) :
    ∃ arg, t = .opt 't' arg := by
  cases t with
  | bad => simp [action] at h
  | opt ch arg =>
    refine ⟨arg, ?_⟩
    unfold action at h
    simp only at h
    split at h
    action_inv h, fx, arg, caseOf_ctmo

theorem action_utmo_inv {fx : Fixes} {d : Defaults} {t : Tok} {v : Int} (h : action fx d t = .utmo v) :
    ∃ arg, t = .opt 'u' arg := by
  cases t with
  | bad => simp [action] at h
  | opt ch arg =>
    refine ⟨arg, ?_⟩
    unfold action at h
    simp only at h
    split at h
    action_inv h, fx, arg, caseOf_utmo

theorem action_ruser_inv {fx : Fixes} {d : Defaults} {t : Tok} {s : Str} (h : action fx d t = .ruser s) :
    ∃ arg, t = .opt 'l' arg := by
  cases t with
  | bad => simp [action] at h
  | opt ch arg =>
    refine ⟨arg, ?_⟩
    unfold action at h
    simp only at h
    split at h
    action_inv h, fx, arg, caseOf_ruser

theorem action_rcmd_inv {fx : Fixes} {d : Defaults} {t : Tok} {s : Str} (h : action fx d t = .rcmd s) :
    ∃ arg, t = .opt 'R' arg := by
  cases t with
  | bad => simp [action] at h
  | opt ch arg =>
    refine ⟨arg, ?_⟩
    unfold action at h
    simp only at h
    split at h
    action_inv h, fx, arg, caseOf_rcmd

theorem action_path_inv {fx : Fixes} {d : Defaults} {t : Tok} {s : Str} (h : action fx d t = .path s) :
    ∃ arg, t = .opt 'e' arg := by
  cases t with
  | bad => simp [action] at h
  | opt ch arg =>
    refine ⟨arg, ?_⟩
    unfold action at h
    simp only at h
    split at h
    action_inv h, fx, arg, caseOf_path

theorem action_f (fx : Fixes) (d : Defaults) (arg : Option Str) :
    action fx d (.opt 'f' arg) = (stringToInt fx (arg.getD [])).elim (.exit 1) .fanout := by
  simp [action, caseOf]

theorem action_t (fx : Fixes) (d : Defaults) (arg : Option Str) :
    action fx d (.opt 't' arg) = (timeoutArg fx (arg.getD [])).elim (.exit 1) .ctmo := by
  simp [action, caseOf]

theorem action_u (fx : Fixes) (d : Defaults) (arg : Option Str) :
    action fx d (.opt 'u' arg) = (timeoutArg fx (arg.getD [])).elim (.exit 1) .utmo := by
  simp [action, caseOf]

theorem action_l (fx : Fixes) (d : Defaults) (arg : Option Str) :
    action fx d (.opt 'l' arg) =
      if (arg.getD []).length > d.loginMax then .exit 1 else .ruser (arg.getD []) := by
  simp [action, caseOf]

theorem action_R (fx : Fixes) (d : Defaults) (arg : Option Str) :
    action fx d (.opt 'R' arg) = .rcmd (arg.getD []) := by
  simp [action, caseOf]

theorem action_e (fx : Fixes) (d : Defaults) (arg : Option Str) :
    action fx d (.opt 'e' arg) = .path (arg.getD []) := by
  simp [action, caseOf]

/-! ### folding over the command line -/

/-- value produced by the last token on which `g` is defined -/
def lastSome {α : Type} (g : Tok → Option α) : List Tok → Option α
  | [] => none
  | t :: ts =>
    match lastSome g ts with
    | some a => some a
    | none => g t

/-- `some (f argument)` on tokens for option `ch` -/
def argOf {α : Type} (ch : Char) (f : Str → α) : Tok → Option α
  | .opt c arg => if c = ch then some (f (arg.getD [])) else none
  | .bad => none

theorem lastSome_argOf {α : Type} (ch : Char) (f : Str → α) (toks : List Tok) :
    lastSome (argOf ch f) toks = (lastArg ch toks).map f := by
  induction toks with
  | nil => rfl
  | cons t ts ih =>
    simp only [lastSome, lastArg, ih]
    cases lastArg ch ts with
    | some a => rfl
    | none =>
      cases t with
      | bad => rfl
      | opt c arg => by_cases hc : c = ch <;> simp [argOf, hc]

theorem lastSome_none {α : Type} (toks : List Tok) : lastSome (fun _ => (none : Option α)) toks = none := by
  induction toks with
  | nil => rfl
  | cons t ts ih => simp only [lastSome, ih]

/-- a field that every single step either sets from its token or leaves alone ends up as the value of the
    last token that sets it -/
theorem applyToks_field {α : Type} (fx : Fixes) (d : Defaults) (p : Pers) (π : Cfg → α) (g : Tok → Option α)
    (H : ∀ c t c1, applyTok fx d p c t = .ok c1 → π c1 = (g t).getD (π c)) :
    ∀ toks c c', applyToks fx d p c toks = .ok c' → π c' = (lastSome g toks).getD (π c) := by
  intro toks
  induction toks with
  | nil =>
    intro c c' h
    simp only [applyToks, Except.ok.injEq] at h
    simp [lastSome, h]
  | cons t ts ih =>
    intro c c' h
    unfold applyToks at h
    cases h1 : applyTok fx d p c t with
    | error n => simp [h1] at h
    | ok c1 =>
      simp only [h1] at h
      rw [ih c1 c' h, H c t c1 h1]
      simp only [lastSome]
      cases lastSome g ts <;> simp

theorem step_fanout (fx : Fixes) (d : Defaults) (p : Pers) (c c1 : Cfg) (t : Tok)
    (h : applyTok fx d p c t = .ok c1) :
    c1.fanout = (argOf 'f' (fun a => (stringToInt fx a).getD 0) t).getD c.fanout := by
  unfold applyTok at h
  have hnot : ∀ arg, t = .opt 'f' arg → ∃ v, action fx d t = .fanout v ∧ stringToInt fx (arg.getD []) = some v := by
    intro arg ht
    subst ht
    rw [action_f] at h ⊢
    cases hx : stringToInt fx (arg.getD []) with
    | none => simp [hx, Option.elim, perform] at h
    | some v => exact ⟨v, by simp [Option.elim], rfl⟩
  rcases perform_ok_cases h with ⟨ha, hc⟩ | ⟨v, ha, hc⟩ | ⟨v, ha, hc⟩ | ⟨v, ha, hc⟩ | ⟨s, ha, hc⟩ | ⟨s, ha, hc⟩ |
    ⟨s, ha, hc⟩ | ⟨f, ha, hc⟩
  all_goals first
    | (obtain ⟨arg, ht⟩ := action_fanout_inv ha
       obtain ⟨v', hv, hx⟩ := hnot arg ht
       rw [ha] at hv
       cases hv
       subst ht hc
       simp [argOf, hx]
       done)
    | (have hne : argOf 'f' (fun a => (stringToInt fx a).getD 0) t = none := by
         cases t with
         | bad => rfl
         | opt ch arg =>
           by_cases hch : ch = 'f'
           · subst hch
             obtain ⟨v', hv, _⟩ := hnot arg rfl
             rw [ha] at hv
             cases hv
           · simp [argOf, hch]
       subst hc
       first | (simp [hne]; done) | (cases f <;> simp [hne, setFlag]))

theorem step_ctmo (fx : Fixes) (d : Defaults) (p : Pers) (c c1 : Cfg) (t : Tok)
    (h : applyTok fx d p c t = .ok c1) :
    c1.connectTimeout = (argOf 't' (fun a => (timeoutArg fx a).getD 0) t).getD c.connectTimeout := by
  unfold applyTok at h
  have hnot : ∀ arg, t = .opt 't' arg → ∃ v, action fx d t = .ctmo v ∧ timeoutArg fx (arg.getD []) = some v := by
    intro arg ht
    subst ht
    rw [action_t] at h ⊢
    cases hx : timeoutArg fx (arg.getD []) with
    | none => simp [hx, Option.elim, perform] at h
    | some v => exact ⟨v, by simp [Option.elim], rfl⟩
  rcases perform_ok_cases h with ⟨ha, hc⟩ | ⟨v, ha, hc⟩ | ⟨v, ha, hc⟩ | ⟨v, ha, hc⟩ | ⟨s, ha, hc⟩ | ⟨s, ha, hc⟩ |
    ⟨s, ha, hc⟩ | ⟨f, ha, hc⟩
  all_goals first
    | (obtain ⟨arg, ht⟩ := action_ctmo_inv ha
       obtain ⟨v', hv, hx⟩ := hnot arg ht
       rw [ha] at hv
       cases hv
       subst ht hc
       simp [argOf, hx]
       done)
    | (have hne : argOf 't' (fun a => (timeoutArg fx a).getD 0) t = none := by
         cases t with
         | bad => rfl
         | opt ch arg =>
           by_cases hch : ch = 't'
           · subst hch
             obtain ⟨v', hv, _⟩ := hnot arg rfl
             rw [ha] at hv
             cases hv
           · simp [argOf, hch]
       subst hc
       first | (simp [hne]; done) | (cases f <;> simp [hne, setFlag]))

theorem step_utmo (fx : Fixes) (d : Defaults) (p : Pers) (c c1 : Cfg) (t : Tok)
    (h : applyTok fx d p c t = .ok c1) :
    c1.commandTimeout = (argOf 'u' (fun a => (timeoutArg fx a).getD 0) t).getD c.commandTimeout := by
  unfold applyTok at h
  have hnot : ∀ arg, t = .opt 'u' arg → ∃ v, action fx d t = .utmo v ∧ timeoutArg fx (arg.getD []) = some v := by
    intro arg ht
    subst ht
    rw [action_u] at h ⊢
    cases hx : timeoutArg fx (arg.getD []) with
    | none => simp [hx, Option.elim, perform] at h
    | some v => exact ⟨v, by simp [Option.elim], rfl⟩
  rcases perform_ok_cases h with ⟨ha, hc⟩ | ⟨v, ha, hc⟩ | ⟨v, ha, hc⟩ | ⟨v, ha, hc⟩ | ⟨s, ha, hc⟩ | ⟨s, ha, hc⟩ |
    ⟨s, ha, hc⟩ | ⟨f, ha, hc⟩
  all_goals first
    | (obtain ⟨arg, ht⟩ := action_utmo_inv ha
       obtain ⟨v', hv, hx⟩ := hnot arg ht
       rw [ha] at hv
       cases hv
       subst ht hc
       simp [argOf, hx]
       done)
    | (have hne : argOf 'u' (fun a => (timeoutArg fx a).getD 0) t = none := by
         cases t with
         | bad => rfl
         | opt ch arg =>
           by_cases hch : ch = 'u'
           · subst hch
             obtain ⟨v', hv, _⟩ := hnot arg rfl
             rw [ha] at hv
             cases hv
           · simp [argOf, hch]
       subst hc
       first | (simp [hne]; done) | (cases f <;> simp [hne, setFlag]))

theorem step_ruser (fx : Fixes) (d : Defaults) (p : Pers) (c c1 : Cfg) (t : Tok)
    (h : applyTok fx d p c t = .ok c1) :
    c1.ruser = (argOf 'l' (fun a => a) t).getD c.ruser := by
  unfold applyTok at h
  have hnot : ∀ arg, t = .opt 'l' arg → action fx d t = .ruser (arg.getD []) := by
    intro arg ht
    subst ht
    rw [action_l] at h ⊢
    split
    · rename_i hl; simp [hl, perform] at h
    · rfl
  rcases perform_ok_cases h with ⟨ha, hc⟩ | ⟨v, ha, hc⟩ | ⟨v, ha, hc⟩ | ⟨v, ha, hc⟩ | ⟨s, ha, hc⟩ | ⟨s, ha, hc⟩ |
    ⟨s, ha, hc⟩ | ⟨f, ha, hc⟩
  all_goals first
    | (obtain ⟨arg, ht⟩ := action_ruser_inv ha
       have hv := hnot arg ht
       rw [ha] at hv
       cases hv
       subst ht hc
       simp [argOf]
       done)
    | (have hne : argOf 'l' (fun a => a) t = none := by
         cases t with
         | bad => rfl
         | opt ch arg =>
           by_cases hch : ch = 'l'
           · subst hch
             have hv := hnot arg rfl
             rw [ha] at hv
             cases hv
           · simp [argOf, hch]
       subst hc
       first | (simp [hne]; done) | (cases f <;> simp [hne, setFlag]))

theorem step_path (fx : Fixes) (d : Defaults) (p : Pers) (c c1 : Cfg) (t : Tok)
    (h : applyTok fx d p c t = .ok c1) :
    c1.remotePath = (argOf 'e' (fun a => a) t).getD c.remotePath := by
  unfold applyTok at h
  have hnot : ∀ arg, t = .opt 'e' arg → action fx d t = .path (arg.getD []) := by
    intro arg ht
    subst ht
    rw [action_e]
  rcases perform_ok_cases h with ⟨ha, hc⟩ | ⟨v, ha, hc⟩ | ⟨v, ha, hc⟩ | ⟨v, ha, hc⟩ | ⟨s, ha, hc⟩ | ⟨s, ha, hc⟩ |
    ⟨s, ha, hc⟩ | ⟨f, ha, hc⟩
  all_goals first
    | (obtain ⟨arg, ht⟩ := action_path_inv ha
       have hv := hnot arg ht
       rw [ha] at hv
       cases hv
       subst ht hc
       simp [argOf]
       done)
    | (have hne : argOf 'e' (fun a => a) t = none := by
         cases t with
         | bad => rfl
         | opt ch arg =>
           by_cases hch : ch = 'e'
           · subst hch
             have hv := hnot arg rfl
             rw [ha] at hv
             cases hv
           · simp [argOf, hch]
       subst hc
       first | (simp [hne]; done) | (cases f <;> simp [hne, setFlag]))

theorem step_rcmd (fx : Fixes) (d : Defaults) (p : Pers) (c c1 : Cfg) (t : Tok)
    (h : applyTok fx d p c t = .ok c1) :
    c1.rcmdName = (argOf 'R' (fun a => some a) t).getD c.rcmdName := by
  unfold applyTok at h
  have hnot : ∀ arg, t = .opt 'R' arg → action fx d t = .rcmd (arg.getD []) := by
    intro arg ht
    subst ht
    rw [action_R]
  rcases perform_ok_cases h with ⟨ha, hc⟩ | ⟨v, ha, hc⟩ | ⟨v, ha, hc⟩ | ⟨v, ha, hc⟩ | ⟨s, ha, hc⟩ | ⟨s, ha, hc⟩ |
    ⟨s, ha, hc⟩ | ⟨f, ha, hc⟩
  all_goals first
    | (obtain ⟨arg, ht⟩ := action_rcmd_inv ha
       have hv := hnot arg ht
       rw [ha] at hv
       cases hv
       subst ht hc
       simp [argOf]
       done)
    | (have hne : argOf 'R' (fun a => some a) t = none := by
         cases t with
         | bad => rfl
         | opt ch arg =>
           by_cases hch : ch = 'R'
           · subst hch
             have hv := hnot arg rfl
             rw [ha] at hv
             cases hv
           · simp [argOf, hch]
       subst hc
       first | (simp [hne]; done) | (cases f <;> simp [hne, setFlag]))

/-- opt_args never touches the module selection -/
theorem step_misc (fx : Fixes) (d : Defaults) (p : Pers) (c c1 : Cfg) (t : Tok)
    (h : applyTok fx d p c t = .ok c1) :
    c1.miscModules = ((fun _ => (none : Option (Option Str))) t).getD c.miscModules := by
  unfold applyTok at h
  rcases perform_ok_cases h with ⟨_, hc⟩ | ⟨v, _, hc⟩ | ⟨v, _, hc⟩ | ⟨v, _, hc⟩ | ⟨s, _, hc⟩ | ⟨s, _, hc⟩ |
    ⟨s, _, hc⟩ | ⟨f, _, hc⟩
  all_goals (subst hc; first | rfl | (cases f <;> rfl))

/-! ### the other stages of main -/

theorem earlyTok_misc (c : Cfg) (t : Tok) :
    (earlyTok c t).miscModules = (argOf 'M' (fun a => some a) t).getD c.miscModules := by
  cases t with
  | bad => rfl
  | opt ch arg => by_cases hc : ch = 'M' <;> simp [earlyTok, argOf, hc]

theorem optArgsEarly_misc (c : Cfg) (toks : List Tok) :
    (optArgsEarly c toks).miscModules = ((lastArg 'M' toks).map some).getD c.miscModules := by
  unfold optArgsEarly
  induction toks generalizing c with
  | nil => rfl
  | cons t ts ih =>
    simp only [List.foldl_cons, ih, earlyTok_misc, lastArg]
    cases lastArg 'M' ts with
    | some a => rfl
    | none =>
      cases t with
      | bad => rfl
      | opt ch arg => by_cases hc : ch = 'M' <;> simp [argOf, hc]

/-- opt_args_early changes nothing but the module selection -/
theorem optArgsEarly_other (c : Cfg) (toks : List Tok) :
    optArgsEarly c toks = { c with miscModules := (optArgsEarly c toks).miscModules } := by
  unfold optArgsEarly
  induction toks generalizing c with
  | nil => rfl
  | cons t ts ih =>
    simp only [List.foldl_cons]
    rw [ih]
    cases t with
    | bad => rfl
    | opt ch arg => by_cases hc : ch = 'M' <;> simp [earlyTok, hc]

def convEnv (fx : Fixes) (t : Str) : Int := (stringToInt fx t).getD 0

theorem envNum_ok {fx : Fixes} {env : Env} {name : String} {cur v : Int}
    (h : envNum fx env name cur = .ok v) :
    v = (getenv env name).elim cur (convEnv fx) ∧ ∀ t, getenv env name = some t → stringToInt fx t = some v := by
  unfold envNum at h
  cases hg : getenv env name with
  | none => simp [hg] at h; simp [h]
  | some t =>
    simp only [hg] at h
    cases hs : stringToInt fx t with
    | none => simp [hs] at h
    | some w =>
      simp only [hs, Except.ok.injEq] at h
      subst h
      simp [convEnv, hs]

theorem optEnv_ok {fx : Fixes} {p : Pers} {env : Env} {c c1 : Cfg} (h : optEnv fx p env c = .ok c1) :
    ∃ f ct ut, envNum fx env "FANOUT" c.fanout = .ok f ∧ envNum fx env "PDSH_CONNECT_TIMEOUT" c.connectTimeout = .ok ct ∧
      envNum fx env "PDSH_COMMAND_TIMEOUT" c.commandTimeout = .ok ut ∧
      c1 = { c with fanout := f, connectTimeout := ct, commandTimeout := ut,
                    rcmdName := (getenv env "PDSH_RCMD_TYPE") <|> c.rcmdName,
                    miscModules := (getenv env "PDSH_MISC_MODULES") <|> c.miscModules,
                    remotePath := if p.isPcp then (getenv env "PDSH_REMOTE_PDCP_PATH").getD c.remotePath
                                  else c.remotePath } := by
  unfold optEnv at h
  cases h1 : envNum fx env "FANOUT" c.fanout with
  | error n => simp [h1, bind, Except.bind] at h
  | ok f =>
    cases h2 : envNum fx env "PDSH_CONNECT_TIMEOUT" c.connectTimeout with
    | error n => simp [h1, h2, bind, Except.bind] at h
    | ok ct =>
      cases h3 : envNum fx env "PDSH_COMMAND_TIMEOUT" c.commandTimeout with
      | error n => simp [h1, h2, h3, bind, Except.bind] at h
      | ok ut =>
        simp only [h1, h2, h3, bind, Except.bind, pure, Except.pure, Except.ok.injEq] at h
        exact ⟨f, ct, ut, rfl, rfl, rfl, h.symm⟩

theorem postArgs_ok {d : Defaults} {c c' : Cfg} (h : postArgs d c = .ok c') :
    c' = { c with rcmdName := c.rcmdName <|> defaultRcmd d } ∧ ∀ n, c'.rcmdName = some n → n ∈ d.rcmdModules := by
  unfold postArgs at h
  cases hn : (c.rcmdName <|> defaultRcmd d) with
  | none =>
    simp only [hn, Except.ok.injEq] at h
    subst h
    have h1 : c.rcmdName = none := by
      cases hr : c.rcmdName <;> simp [hr] at hn ⊢
    refine ⟨?_, fun n hh => by simp [h1] at hh⟩
    cases c
    simp_all
  | some n =>
    simp only [hn] at h
    split at h
    · rename_i hm
      simp only [Except.ok.injEq] at h
      subst h
      exact ⟨rfl, fun m hh => by simp at hh; subst hh; exact hm⟩
    · simp at h

theorem effective_ok_inv {fx : Fixes} {d : Defaults} {p : Pers} {env : Env} {argv : List Str} {c : Cfg}
    (h : effective fx d p env argv = .ok c) :
    ∃ c1 c3, optEnv fx p env (optDefault d) = .ok c1 ∧
      applyToks fx d p (optArgsEarly c1 (getopt (earlyString fx d p) argv).1) (getopt (fullString d p) argv).1 = .ok c3 ∧
      postArgs d c3 = .ok c ∧ optVerify fx d p c (getopt (fullString d p) argv).2.length = true := by
  unfold effective at h
  cases h1 : optEnv fx p env (optDefault d) with
  | error n => simp [h1] at h
  | ok c1 =>
    simp only [h1] at h
    cases h2 : applyToks fx d p (optArgsEarly c1 (getopt (earlyString fx d p) argv).1) (getopt (fullString d p) argv).1 with
    | error n => simp [h2] at h
    | ok c3 =>
      simp only [h2] at h
      cases h3 : postArgs d c3 with
      | error n => simp [h3] at h
      | ok c4 =>
        simp only [h3] at h
        split at h
        · rename_i hv
          simp only [Result.ok.injEq] at h
          subst h
          exact ⟨c1, c3, rfl, h2, h3, hv⟩
        · simp at h

/-- in a successful run no token made the switch exit -/
theorem applyToks_no_exit {fx : Fixes} {d : Defaults} {p : Pers} {c c' : Cfg} {toks : List Tok}
    (h : applyToks fx d p c toks = .ok c') : ∀ t ∈ toks, ∀ n, action fx d t ≠ .exit n := by
  induction toks generalizing c with
  | nil => intro t ht; simp at ht
  | cons t ts ih =>
    unfold applyToks at h
    cases h1 : applyTok fx d p c t with
    | error n => simp [h1] at h
    | ok c1 =>
      simp only [h1] at h
      intro t' ht' n hn
      rcases List.mem_cons.mp ht' with rfl | hin
      · unfold applyTok at h1
        rw [hn] at h1
        simp [perform] at h1
      · exact ih h t' hin n hn

theorem lastArg_mem {ch : Char} {toks : List Tok} {a : Str} (h : lastArg ch toks = some a) :
    ∃ arg, Tok.opt ch arg ∈ toks ∧ arg.getD [] = a := by
  induction toks with
  | nil => simp [lastArg] at h
  | cons t ts ih =>
    simp only [lastArg] at h
    cases hl : lastArg ch ts with
    | some b =>
      simp only [hl, Option.some.injEq] at h
      subst h
      obtain ⟨arg, hm, ha⟩ := ih hl
      exact ⟨arg, List.mem_cons_of_mem _ hm, ha⟩
    | none =>
      simp only [hl] at h
      cases t with
      | bad => simp at h
      | opt c arg =>
        by_cases hc : c = ch
        · simp only [hc, if_true, Option.some.injEq] at h
          exact ⟨arg, by simp [hc], h⟩
        · simp [hc] at h

/-! ### structured command lines -/

/-- a structured option: its letter and, for an option that takes one, its argument -/
structure OptW where
  ch  : Char
  arg : Option Str

def OptW.words (o : OptW) : List Str :=
  match o.arg with
  | none => [['-', o.ch]]
  | some a => [['-', o.ch], a]

def OptW.tok (o : OptW) : Tok := .opt o.ch o.arg

/-- the option exists in the option string `os`, takes an argument exactly when one is given, and is not '-' -/
def OptW.wf (os : Str) (o : OptW) : Prop := optKind os o.ch = some o.arg.isSome ∧ o.ch ≠ '-'

/-- the command line that writes every option as a word of its own (argument in the next word), then `--` -/
def render (opts : List OptW) (operands : List Str) : List Str :=
  opts.flatMap OptW.words ++ ['-', '-'] :: operands

theorem getoptGo_skip (os : Str) (a : Str) (l : List Str) : getoptGo os true (a :: l) = getoptGo os false l := by
  rw [getoptGo]


/-- `Spelled os opts operands ws`: `ws` is one of the ways getopt(3) lets the option sequence `opts` followed by the
    operands be WRITTEN: each option a word of its own, its argument in the next word (`sep`) or attached (`att`),
    a flag glued in front of the next option word (`glue`: clusters like `-Nbf3`), the options ended by `--`, by the
    first word that is not option-like, or by the end of the command line -/
inductive Spelled (os : Str) : List OptW → List Str → List Str → Prop where
  | dashdash (ops : List Str) : Spelled os [] ops (['-', '-'] :: ops)
  | empty : Spelled os [] [] []
  | stop (a : Str) (rest : List Str) (h : ∀ c cs, a ≠ '-' :: c :: cs) : Spelled os [] (a :: rest) (a :: rest)
  | flag {ch : Char} {opts : List OptW} {ops ws : List Str} (hk : optKind os ch = some false) (hne : ch ≠ '-')
      (h : Spelled os opts ops ws) : Spelled os (⟨ch, none⟩ :: opts) ops (['-', ch] :: ws)
  | sep {ch : Char} {a : Str} {opts : List OptW} {ops ws : List Str} (hk : optKind os ch = some true) (hne : ch ≠ '-')
      (h : Spelled os opts ops ws) : Spelled os (⟨ch, some a⟩ :: opts) ops (['-', ch] :: a :: ws)
  | att {ch : Char} {a : Str} {opts : List OptW} {ops ws : List Str} (hk : optKind os ch = some true) (hne : ch ≠ '-')
      (ha : a ≠ []) (h : Spelled os opts ops ws) : Spelled os (⟨ch, some a⟩ :: opts) ops (('-' :: ch :: a) :: ws)
  | glue {f : Char} {w : Str} {opts : List OptW} {ops ws : List Str} (hk : optKind os f = some false) (hne : f ≠ '-')
      (hw : w ≠ []) (hw' : w ≠ ['-']) (h : Spelled os opts ops (('-' :: w) :: ws)) :
      Spelled os (⟨f, none⟩ :: opts) ops (('-' :: f :: w) :: ws)


end PdshVerif.Opt
