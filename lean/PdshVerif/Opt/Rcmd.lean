/-
  Model of the per-host transport/user registry (property C09):
    src/pdsh/opt.c   get_host_rcmd_type, wcoll_arg_process (plain, non-excluded words), opt_args tail
    src/pdsh/rcmd.c  rcmd_register_defaults, hostlist_register_rcmd, rcmd_get_default_module,
                     rcmd_register_default_rcmd, rcmd_create, rcmd_connect
    src/pdsh/dsh.c   _thd_init (nodeid = index in the final list)

  External (parameters, not modelled here): hostlist.c.  Every word carries the names
  `hostlist_create` yields for its host part (`first`: what the registry is keyed by) and the
  names it contributes to the final target list after opt.c's re-expansion (`full`).  For words
  with at most one bracket pair the two coincide; for two-bracket words they differ (F09-2BR).
-/
namespace PdshVerif.Opt.Rcmd

abbrev Str := List Char

/-- index of the first occurrence (strchr) -/
def idxOf (c : Char) : Str → Option Nat
  | [] => none
  | d :: rest => if d = c then some 0 else (idxOf c rest).map (· + 1)

inductive Split where
  | bad                                                        -- errx: not of form [type:][user@]hosts
  | ok (rtype : Option Str) (user : Option Str) (hosts : Str)
  deriving Repr, DecidableEq, Inhabited

/-- get_host_rcmd_type -/
def splitWord (w : Str) : Split :=
  let p := idxOf ':' w
  let q := idxOf '@' w
  let bad := match p, q with
    | some p, some q => decide (p > q)
    | _, _ => false
  if bad then .bad
  else
    -- a ':' not followed by another ':' ends the rcmd type
    let (rtype, off) := match p with
      | some p => if (w.drop (p + 1)).head? ≠ some ':' then (some (w.take p), p + 1) else (none, 0)
      | none => (none, 0)
    match q with
    | some q => .ok rtype (some ((w.take q).drop off)) (w.drop (q + 1))
    | none => .ok rtype none (w.drop off)

structure Word where
  text  : Str
  first : List Str
  full  : List Str
  deriving Repr, DecidableEq, Inhabited

structure Entry where
  host  : Str
  user  : Option Str
  rtype : Option Str
  deriving Repr, DecidableEq, Inhabited

def lookup (reg : List Entry) (h : Str) : Option Entry := reg.find? (·.host = h)

/-- hostlist_register_rcmd: hosts are popped from the end; an existing entry is never replaced -/
def register (reg : List Entry) (hosts : List Str) (user rtype : Option Str) : List Entry :=
  hosts.reverse.foldl (fun r h => if (lookup r h).isSome then r else r ++ [⟨h, user, rtype⟩]) reg

structure Cfg where
  loaded   : List Str          -- names of the rcmd modules in the module list
  rankList : List Str          -- RCMD_RANK_LIST
  envType  : Option Str        -- PDSH_RCMD_TYPE
  optR     : Option Str        -- last -R
  optL     : Option Str        -- last -l
  luser    : Str               -- local user
  deriving Repr, Inhabited

/-- one word of a -w argument (non-excluded, not '^file', not '/regex/'); `none` = fatal exit -/
def processWord (cfg : Cfg) (reg : List Entry) (w : Word) : Option (List Entry) :=
  match splitWord w.text with
  | .bad => none
  | .ok rtype user _ =>
    if rtype.isNone && user.isNone then some reg
    else
      match rtype with
      | some t => if cfg.loaded.contains t then some (register reg w.first user rtype) else none
      | none => some (register reg w.first user none)

def processWords (cfg : Cfg) : List Word → List Entry → Option (List Entry)
  | [], reg => some reg
  | w :: ws, reg =>
    match processWord cfg reg w with
    | none => none
    | some reg' => processWords cfg ws reg'

/-- opt->rcmd_name after the option loop: -R, else PDSH_RCMD_TYPE, else the first module of
    the rank list that is loaded -/
def defaultName (cfg : Cfg) : Option Str :=
  match cfg.optR with
  | some r => some r
  | none =>
    match cfg.envType with
    | some r => some r
    | none => cfg.rankList.find? (cfg.loaded.contains ·)

structure Line where
  rtype : Option Str     -- `none`: "No rcmd module for host", the thread is cancelled
  host  : Str
  user  : Str
  rank  : Nat
  deriving Repr, DecidableEq, Inhabited

inductive Outcome where
  | fatal
  | lines (l : List Line)
  deriving Repr, DecidableEq, Inhabited

/-- rcmd_create + rcmd_connect for the target at position `rank` -/
def connect (cfg : Cfg) (reg : List Entry) (dflt : Option Str) (host : Str) (rank : Nat) : Line :=
  let n := lookup reg host
  let rtype := match n.bind (·.rtype) with
    | some t => some t
    | none => dflt
  let user := match n.bind (·.user) with
    | some u => u
    | none => cfg.optL.getD cfg.luser
  ⟨rtype, host, user, rank⟩

def connectAll (cfg : Cfg) (reg : List Entry) (dflt : Option Str) : List Str → Nat → List Line
  | [], _ => []
  | h :: rest, i => connect cfg reg dflt h i :: connectAll cfg reg dflt rest (i + 1)

/-- some word names a transport: rcmd_module_register has then put a module into rcmd_module_list
    (whether or not a host entry was created), so rcmd_init finds something to initialise -/
def anyTyped (words : List Word) : Bool :=
  words.any fun w => match splitWord w.text with
    | .ok (some _) _ _ => true
    | _ => false

/-- the whole run: words in command-line order, then the default, then one connection per target -/
def run (cfg : Cfg) (words : List Word) (targets : List Str) : Outcome :=
  match processWords cfg words [] with
  | none => .fatal
  | some reg =>
    let dflt := defaultName cfg
    match dflt with
    | some d =>
      if cfg.loaded.contains d then .lines (connectAll cfg reg dflt targets 0) else .fatal
    | none =>
      -- no default: rcmd_init fails when no module was registered at all
      if anyTyped words then .lines (connectAll cfg reg none targets 0) else .fatal

/-- proposed repair of F09-2BR (findings/C09.patch): hostlist_register_rcmd expands every name once
    more before registering it -- shift every first-level name and push it into a fresh list, which
    is what opt.c's wcoll_expand does to the target list.  The names registered are then, by
    construction, the names the word contributes to the final list. -/
def reExpand (w : Word) : Word := { w with first := w.full }

/-- the run of the repaired code -/
def runRe (cfg : Cfg) (words : List Word) (targets : List Str) : Outcome :=
  run cfg (words.map reExpand) targets

/-- opt.c builds the command by joining the remote argv with single blanks -/
def joinCmd : List Str → Str
  | [] => []
  | [a] => a
  | a :: rest => a ++ ' ' :: joinCmd rest

end PdshVerif.Opt.Rcmd
