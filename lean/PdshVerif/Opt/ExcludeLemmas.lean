/-
  Lemmas for C02 (Opt/Exclude.lean, Opt/ExcludeSpec.lean).
-/
import PdshVerif.Opt.Exclude
import PdshVerif.Opt.ExcludeSpec
import PdshVerif.Hostlist.LemmasDeleteName

namespace PdshVerif.Opt.Exclude
open PdshVerif.Hostlist

/-! ### the buffer loop of `list_push_hostlist` -/
/-- the repaired loop (b20e58e) never runs out of the driver's fuel: a block of 2^k bytes with k + fuel ≥ 64 -/
theorem growLoop_some (len : Nat) : ∀ (f k : Nat), k ≤ 63 → 64 ≤ k + f → ∃ r, growLoop len f (2 ^ k) = some r
  | 0, k, hk, hf => by omega
  | f + 1, k, hk, hf => by
    unfold growLoop
    by_cases h1 : 2 ^ k > SIZE_MAX / 2
    · exact ⟨_, by rw [if_pos h1]⟩
    · rw [if_neg h1]
      by_cases h2 : len ≥ 2 ^ k * 2 - 1
      · rw [if_pos h2, ← Nat.pow_succ]
        have hk' : k ≠ 63 := by
          intro h; subst h; exact h1 (by decide)
        exact growLoop_some len f (k + 1) (by omega) (by omega)
      · exact ⟨_, by rw [if_neg h2]⟩

/-- … and what it answers: a block the text fits, or — only for a text of 2^63 - 1 bytes or more — the `errx` exit -/
theorem growLoop_result (len : Nat) : ∀ (f n r : Nat), growLoop len f n = some r →
    len < r - 1 ∨ (len ≥ r - 1 ∧ r > SIZE_MAX / 2 ∧ n ≤ r)
  | 0, _, _, h => by simp [growLoop] at h
  | f + 1, n, r, h => by
    unfold growLoop at h
    by_cases h1 : n > SIZE_MAX / 2
    · rw [if_pos h1] at h
      cases h
      by_cases hl : len < n - 1
      · exact .inl hl
      · exact .inr ⟨by omega, h1, Nat.le_refl _⟩
    · rw [if_neg h1] at h
      by_cases h2 : len ≥ n * 2 - 1
      · rw [if_pos h2] at h
        rcases growLoop_result len f (n * 2) r h with h3 | ⟨h3, h4, h5⟩
        · exact .inl h3
        · exact .inr ⟨h3, h4, by omega⟩
      · rw [if_neg h2] at h
        cases h
        exact .inl (by omega)

/-- the repaired variant makes ONE test of its own and hands over to `growLoop` -/
theorem pushLoop_fixed_eq (len : Nat) :
    pushLoop true len PUSH_FUEL 4096 = if len ≥ 4096 - 1 then growLoop len GROW_FUEL (2 ^ 12) else some 4096 := by
  show pushLoop true len (12 + 1) 4096 = _
  unfold pushLoop
  by_cases ht : len ≥ 4096 - 1
  · rw [if_pos ht, if_pos ht, if_pos rfl]
  · rw [if_neg ht, if_neg ht]

theorem pushLoop_fixed_terminates (len : Nat) : ∃ n, pushLoop true len PUSH_FUEL 4096 = some n := by
  rw [pushLoop_fixed_eq]
  by_cases ht : len ≥ 4096 - 1
  · rw [if_pos ht]
    exact growLoop_some len GROW_FUEL 12 (by decide) (by decide)
  · exact ⟨4096, by rw [if_neg ht]⟩

/-- `list_push_hostlist`, D2 repaired (b20e58e): whatever the list, the loop ends within the driver's fuel, and the
    entry is the WHOLE ranged text — or, for a text of 2^63 - 1 bytes or more only, `errx` -/
theorem pushHostlist_fixed (cfg : Cfg) (hfix : cfg.fixPushLoop = true) (hl : EL) :
    pushHostlist cfg hl = .ok (rangedText hl.ranges) ∨
    (pushHostlist cfg hl = .error (.fatal "exclusion list too long") ∧ (rangedText hl.ranges).length ≥ 2 ^ 63 - 1) := by
  unfold pushHostlist
  simp only [hfix, pushLoop_fixed_eq]
  by_cases ht : (rangedText hl.ranges).length ≥ 4096 - 1
  · rw [if_pos ht]
    obtain ⟨r, hr⟩ := growLoop_some (rangedText hl.ranges).length GROW_FUEL 12 (by decide) (by decide)
    simp only [hr]
    rcases growLoop_result _ _ _ _ hr with h | ⟨h1, h2, _⟩
    · exact .inl (by rw [if_neg (by omega)])
    · refine .inr ⟨by rw [if_pos h1], ?_⟩
      have : SIZE_MAX / 2 = 2 ^ 63 - 1 := by decide
      omega
  · rw [if_neg ht]
    exact .inl (by simp only; rw [if_neg ht])

theorem pushHostlist_whole (cfg : Cfg) (hfix : cfg.fixPushLoop = true) (hl : EL)
    (h : (rangedText hl.ranges).length < 2 ^ 63 - 1) : pushHostlist cfg hl = .ok (rangedText hl.ranges) := by
  rcases pushHostlist_fixed cfg hfix hl with h1 | ⟨_, h2⟩
  · exact h1
  · omega

theorem pushHostlist_eq_R (cfg : Cfg) (hfix : cfg.fixPushLoop = true) (hl : EL) : pushHostlist cfg hl = pushHostlistR hl := by
  unfold pushHostlistR pushHostlist
  rw [hfix]
  rfl

/-! the loop with the ceiling (674182b .. 95b0fc1), F02-XFILE-4MIB -/
/-- a text shorter than 2^22 - 1 bytes: the loop with the ceiling ends on an attempt that FITS -/
theorem pushLoopCeil_fits (len : Nat) (hlen : len < 2 ^ 22 - 1) : ∀ (f n : Nat), 0x7fffff ≤ n * 2 ^ f →
    ∃ k, pushLoopCeil len (f + 1) n = some k ∧ len < k - 1
  | 0, n, h => by
    unfold pushLoopCeil
    by_cases ht : len ≥ n - 1
    · exfalso; simp at h; omega
    · exact ⟨n, by simp [ht], by omega⟩
  | f + 1, n, h => by
    unfold pushLoopCeil
    by_cases ht : len ≥ n - 1
    · have hl : n * 2 < 0x7fffff := by omega
      simp only [ht, hl, ↓reduceIte]
      exact pushLoopCeil_fits len hlen f (n * 2)
        (by rw [Nat.pow_succ] at h; rw [Nat.mul_assoc, Nat.mul_comm 2]; exact h)
    · exact ⟨n, by simp [ht], by omega⟩

/-- a text of 2^22 - 1 bytes or more: every attempt fails, the ceiling ends the loop with the block at 2^22 -/
theorem pushLoopCeil_cut (len : Nat) (hlen : len ≥ 2 ^ 22 - 1) : ∀ (j e n : Nat), n * 2 ^ j = 2 ^ 22 →
    pushLoopCeil len (j + 1 + e) n = some (2 ^ 22)
  | 0, e, n, h => by
    have hn : n = 2 ^ 22 := by simpa using h
    subst hn
    rw [show 0 + 1 + e = e + 1 by omega]
    unfold pushLoopCeil
    have ht : len ≥ 2 ^ 22 - 1 := hlen
    simp [ht]
  | j + 1, e, n, h => by
    have h2 : n * 2 * 2 ^ j = 2 ^ 22 := by rw [Nat.pow_succ] at h; rw [Nat.mul_assoc, Nat.mul_comm 2]; exact h
    have hpos : 0 < 2 ^ j := Nat.pow_pos (by decide)
    have hle : n * 2 ≤ 2 ^ 22 := by rw [← h2]; exact Nat.le_mul_of_pos_right _ hpos
    rw [show j + 1 + 1 + e = (j + 1 + e) + 1 by omega]
    unfold pushLoopCeil
    have ht : len ≥ n - 1 := by omega
    have hl : n * 2 < 0x7fffff := by omega
    simp only [ht, hl, ↓reduceIte]
    exact pushLoopCeil_cut len hlen j e (n * 2) h2

/-- `list_push_hostlist` WITH the ceiling: the entry is the whole ranged text of the exclusion file iff that text
    is shorter than 2^22 - 1 bytes; from there on the ceiling `0x7fffff` cuts it (F02-XFILE-4MIB) -/
theorem pushHostlistCeil_whole (hl : EL)
    (h : (rangedText hl.ranges).length < 2 ^ 22 - 1) : pushHostlistCeil hl = .ok (rangedText hl.ranges) := by
  obtain ⟨k, hk, hfit⟩ := pushLoopCeil_fits _ h 12 4096 (by decide)
  unfold pushHostlistCeil
  simp only [PUSH_FUEL, hk]
  rw [if_neg (by omega)]

theorem pushHostlistCeil_cut (hl : EL)
    (h : (rangedText hl.ranges).length ≥ 2 ^ 22 - 1) :
    pushHostlistCeil hl = .error (.ub "exclusion text cut at 4 MiB") := by
  have hk := pushLoopCeil_cut _ h 10 2 4096 (by decide)
  unfold pushHostlistCeil
  simp only [PUSH_FUEL, hk]
  rw [if_pos (by omega)]

theorem pushLoop_unchanged_diverges (len : Nat) (h : len ≥ 4095) : ∀ fuel, pushLoop false len fuel 4096 = none
  | 0 => rfl
  | f + 1 => by
    unfold pushLoop
    have ht : len ≥ 4096 - 1 := by omega
    simp only [ht, ↓reduceIte, Bool.false_eq_true, Nat.mul_one, ne_eq]
    exact pushLoop_unchanged_diverges len h f

/-! ### `hostlist_delete` / `wcoll_apply_excluded` with D1 repaired -/
/-- an exclusion entry the theorems speak about: it parses, the temporary list `hostlist_delete`
    builds from it is in order (`ShiftFits`: numbers fit the buffer `hostrange_pop` prints into) and
    its names are small (whole trailing digit run ≤ 2^25, see F02-BIGSUFFIX); `names` = what it denotes -/
def EntryOk (cfg : Cfg) (s : Str) (names : List Str) : Prop :=
  ∃ t, create cfg s = .ok t ∧ (pushListE EL.new t).Good ∧ (∀ r ∈ (pushListE EL.new t).ranges, r.ShiftFits) ∧
    (pushListE EL.new t).hosts.length ≤ t.nhosts.toNat ∧
    names = (pushListE EL.new t).hosts ∧ ∀ x ∈ names, SmallName x

theorem foldl_deleteName_reverse (cfg : Cfg) (hfix : cfg.fixDeleteAll = true) (names : List Str) (e : EL) (hg : e.Good)
    (hsm : ∀ x ∈ names, SmallName x) :
    (names.reverse.foldl (fun acc x => (deleteNameE cfg acc x).2) e).Good ∧
    (names.reverse.foldl (fun acc x => (deleteNameE cfg acc x).2) e).hosts = e.hosts.filter (fun h => !names.contains h) := by
  obtain ⟨h1, h2⟩ := deleteNames_repaired cfg hfix names.reverse e hg (fun x hx => hsm x (List.mem_reverse.mp hx))
  refine ⟨h1, ?_⟩
  rw [h2]
  apply List.filter_congr
  intro h _
  congr 1
  rw [Bool.eq_iff_iff]
  simp

/-- ONE exclusion entry, D1 repaired: exactly the hosts it does not name stay, in order -/
theorem deleteX_repaired (cfg : Cfg) (hfix : cfg.fixDeleteAll = true) (e : EL) (hg : e.Good) (s : Str) (names : List Str)
    (hok : EntryOk cfg s names) :
    ∃ e', deleteX cfg e s = .ok e' ∧ e'.Good ∧ e'.hosts = e.hosts.filter (fun h => !names.contains h) := by
  obtain ⟨t, hc, htg, htf, hlen, hn, hsm⟩ := hok
  unfold deleteX
  rw [hc]
  simp only
  rw [popAll_spec cfg _ _ htg htf (by omega)]
  simp only
  subst hn
  obtain ⟨h1, h2⟩ := foldl_deleteName_reverse cfg hfix _ e hg hsm
  exact ⟨_, rfl, h1, h2⟩

/-- `wcoll_apply_excluded`, D1 repaired: the hosts named by NO entry stay, order and multiplicity kept -/
theorem applyExcluded_repaired (cfg : Cfg) (hfix : cfg.fixDeleteAll = true) : ∀ (es : List (Str × List Str)) (e : EL),
    e.Good → (∀ p ∈ es, EntryOk cfg p.1 p.2) →
    ∃ e', applyExcluded cfg (es.map (·.1)) e = .ok e' ∧ e'.Good ∧
      e'.hosts = e.hosts.filter (fun h => !(es.flatMap (·.2)).contains h)
  | [], e, hg, _ => ⟨e, rfl, hg, (List.filter_eq_self.mpr (by intro a _; rfl)).symm⟩
  | p :: ps, e, hg, hok => by
    obtain ⟨e1, hd, hg1, hh1⟩ := deleteX_repaired cfg hfix e hg p.1 p.2 (hok p (by simp))
    obtain ⟨e2, ha, hg2, hh2⟩ := applyExcluded_repaired cfg hfix ps e1 hg1 (fun q hq => hok q (by simp [hq]))
    refine ⟨e2, ?_, hg2, ?_⟩
    · simp only [List.map_cons, applyExcluded, hd, ha]
    · rw [hh2, hh1, List.filter_filter]
      apply List.filter_congr
      intro h _
      simp only [List.flatMap_cons, List.contains_append, Bool.not_or, Bool.and_comm]

/-- every variant: ONE `hostlist_delete_host` per listed name never touches a host with another name -/
theorem deleteNames_count_other (cfg : Cfg) (y : Str) : ∀ (names : List Str) (e : EL), e.Good → y ∉ names →
    (names.foldl (fun acc x => (deleteHostE cfg acc x).2) e).hosts.count y = e.hosts.count y
  | [], _, _, _ => rfl
  | x :: xs, e, hg, hy => by
    simp only [List.foldl_cons]
    have hne : y ≠ x := fun h => hy (by simp [h])
    rw [deleteNames_count_other cfg y xs _ (deleteHostE_spec cfg e x hg).1 (fun h => hy (by simp [h])),
      deleteHostE_count_other cfg e x y hg hne]

theorem deleteAllE_succ (cfg : Cfg) (f : Nat) (e : EL) (x : Str) :
    deleteAllE cfg (f + 1) e x =
      if (deleteHostE cfg e x).1 = 1 then
        ((deleteAllE cfg f (deleteHostE cfg e x).2 x).1 + 1, (deleteAllE cfg f (deleteHostE cfg e x).2 x).2)
      else (0, (deleteHostE cfg e x).2) := by
  conv => lhs; unfold deleteAllE
  generalize deleteHostE cfg e x = d
  obtain ⟨k, e'⟩ := d
  by_cases hk : k = 1
  · subst hk
    simp only [↓reduceIte]
  · simp only [hk, ↓reduceIte]

theorem deleteAllE_count_other (cfg : Cfg) (x y : Str) (hne : y ≠ x) : ∀ (f : Nat) (e : EL), e.Good →
    (deleteAllE cfg f e x).2.Good ∧ (deleteAllE cfg f e x).2.hosts.count y = e.hosts.count y
  | 0, e, hg => ⟨hg, rfl⟩
  | f + 1, e, hg => by
    have hg1 := (deleteHostE_spec cfg e x hg).1
    have hc1 := deleteHostE_count_other cfg e x y hg hne
    rw [deleteAllE_succ]
    split
    · obtain ⟨h1, h2⟩ := deleteAllE_count_other cfg x y hne f _ hg1
      exact ⟨h1, by rw [h2, hc1]⟩
    · exact ⟨hg1, hc1⟩

/-- every variant: what ONE listed name does never touches a host with another name -/
theorem deleteNameE_other (cfg : Cfg) (e : EL) (x y : Str) (hg : e.Good) (hne : y ≠ x) :
    (deleteNameE cfg e x).2.Good ∧ (deleteNameE cfg e x).2.hosts.count y = e.hosts.count y := by
  unfold deleteNameE
  split
  · exact deleteAllE_count_other cfg x y hne _ e hg
  · exact ⟨(deleteHostE_spec cfg e x hg).1, deleteHostE_count_other cfg e x y hg hne⟩

theorem foldl_deleteNameE_other (cfg : Cfg) (y : Str) : ∀ (names : List Str) (e : EL), e.Good → y ∉ names →
    (names.foldl (fun acc x => (deleteNameE cfg acc x).2) e).Good ∧
    (names.foldl (fun acc x => (deleteNameE cfg acc x).2) e).hosts.count y = e.hosts.count y
  | [], _, hg, _ => ⟨hg, rfl⟩
  | x :: xs, e, hg, hy => by
    simp only [List.foldl_cons]
    have hne : y ≠ x := fun h => hy (by simp [h])
    obtain ⟨h1, h2⟩ := deleteNameE_other cfg e x y hg hne
    obtain ⟨h3, h4⟩ := foldl_deleteNameE_other cfg y xs _ h1 (fun h => hy (by simp [h]))
    exact ⟨h3, by rw [h4, h2]⟩

/-! ### the specification does not depend on where exclusions and filters stand -/
namespace SpecLemmas
open PdshVerif.Opt.ExcludeSpec

def isTarget : Item → Bool
  | .tgt _ => true
  | .tfile _ => true
  | _ => false

/-- items that contribute nothing can be left out -/
theorem collect_filter (f : Item → Option (List Spec.Str)) (p : Item → Bool) (hp : ∀ it, p it = false → f it = some []) :
    ∀ items, collect f items = collect f (items.filter p)
  | [] => rfl
  | it :: its => by
    have ih := collect_filter f p hp its
    by_cases h : p it = true
    · simp only [List.filter_cons, h, ↓reduceIte, collect, ih]
    · have h' : p it = false := by simpa using h
      simp only [List.filter_cons, h', Bool.false_eq_true, ↓reduceIte, collect, hp it h', ih]
      cases collect f (its.filter p) <;> simp

theorem collect_perm (f : Item → Option (List Spec.Str)) {a b : List Item} (hp : a.Perm b) :
    (collect f a = none ∧ collect f b = none) ∨
    ∃ x y, collect f a = some x ∧ collect f b = some y ∧ x.Perm y := by
  induction hp with
  | nil => exact Or.inr ⟨[], [], rfl, rfl, List.Perm.refl _⟩
  | cons it _ ih =>
    simp only [collect]
    rcases ih with ⟨h1, h2⟩ | ⟨x, y, h1, h2, hxy⟩
    · left; rw [h1, h2]; cases f it <;> simp
    · rw [h1, h2]
      cases f it with
      | none => left; simp
      | some a => right; exact ⟨a ++ x, a ++ y, rfl, rfl, hxy.append_left a⟩
  | swap i1 i2 l =>
    simp only [collect]
    cases f i1 <;> cases f i2 <;> cases collect f l <;> simp
    rename_i a b c
    rw [← List.append_assoc, ← List.append_assoc]
    exact (List.perm_append_comm).append_right c
  | trans _ _ ih1 ih2 =>
    rcases ih1 with ⟨h1, h2⟩ | ⟨x, y, h1, h2, hxy⟩
    · rcases ih2 with ⟨h3, h4⟩ | ⟨x', y', h3, _, _⟩
      · exact Or.inl ⟨h1, h4⟩
      · rw [h2] at h3; simp at h3
    · rcases ih2 with ⟨h3, _⟩ | ⟨x', y', h3, h4, hxy'⟩
      · rw [h2] at h3; simp at h3
      · rw [h2] at h3
        simp only [Option.some.injEq] at h3
        subst h3
        exact Or.inr ⟨x, y', h1, h4, hxy.trans hxy'⟩

theorem passOne_target (env : ExcludeSpec.Env) (h : Spec.Str) (it : Item) (ht : isTarget it = true) :
    passOne env h it = some true := by
  cases it <;> simp_all [isTarget, passOne]

theorem passes_filter (env : ExcludeSpec.Env) (h : Spec.Str) : ∀ items,
    passes env h items = passes env h (items.filter (fun i => !isTarget i))
  | [] => rfl
  | it :: its => by
    have ih := passes_filter env h its
    by_cases ht : isTarget it = true
    · simp only [List.filter_cons, ht, Bool.not_true, Bool.false_eq_true, ↓reduceIte, passes, passOne_target env h it ht]
      rw [← ih]
      cases passes env h its <;> rfl
    · have ht' : isTarget it = false := by simpa using ht
      simp only [List.filter_cons, ht', Bool.not_false, ↓reduceIte, passes, ih]

theorem passes_perm (env : ExcludeSpec.Env) (h : Spec.Str) {a b : List Item} (hp : a.Perm b) :
    passes env h a = passes env h b := by
  induction hp with
  | nil => rfl
  | cons it _ ih => simp only [passes, ih]
  | swap i1 i2 l =>
    simp only [passes]
    cases passOne env h i1 <;> cases passOne env h i2 <;> cases passes env h l <;> simp [Bool.and_left_comm]
  | trans _ _ ih1 ih2 => rw [ih1, ih2]

theorem filterAll_congr (env : ExcludeSpec.Env) (a b : List Item) (hab : ∀ h, passes env h a = passes env h b) :
    ∀ hs, filterAll env a hs = filterAll env b hs
  | [] => rfl
  | h :: hs => by simp only [filterAll, hab h, filterAll_congr env a b hab hs]

/-- ORDER INDEPENDENCE of the specification: moving exclusions and filters anywhere (and among
    each other) while the target words keep their relative order changes nothing -/
theorem final_order_independent (env : ExcludeSpec.Env) (i1 i2 : List Item)
    (ht : i1.filter isTarget = i2.filter isTarget)
    (hp : (i1.filter fun i => !isTarget i).Perm (i2.filter fun i => !isTarget i)) :
    final env i1 = final env i2 := by
  have hA : ∀ items, assembled env items = assembled env (items.filter isTarget) := fun items =>
    collect_filter (tgtNames env) isTarget (by intro it h; cases it <;> simp_all [isTarget, tgtNames]) items
  have hX : ∀ items, excluded env items = excluded env (items.filter fun i => !isTarget i) := fun items =>
    collect_filter (xclNames env) (fun i => !isTarget i) (by intro it h; cases it <;> simp_all [isTarget, xclNames]) items
  unfold final
  rw [hA i1, hA i2, ht, hX i1, hX i2]
  have hpass : ∀ h, passes env h i1 = passes env h i2 := by
    intro h
    rw [passes_filter env h i1, passes_filter env h i2]
    exact passes_perm env h hp
  rcases collect_perm (xclNames env) hp with ⟨h1, h2⟩ | ⟨x, y, h1, h2, hxy⟩
  · simp only [excluded, h1, h2]
    cases assembled env (i2.filter isTarget) <;> rfl
  · simp only [excluded, h1, h2]
    cases assembled env (i2.filter isTarget) with
    | none => rfl
    | some a =>
      simp only
      have : (a.filter fun h => !x.contains h) = (a.filter fun h => !y.contains h) := by
        apply List.filter_congr
        intro h _
        congr 1
        rw [Bool.eq_iff_iff]
        simp only [List.contains_iff_mem]
        exact hxy.mem_iff
      rw [this, filterAll_congr env i1 i2 hpass]

end SpecLemmas

end PdshVerif.Opt.Exclude
