/-
  Lemmas for C02 (Opt/Exclude.lean, Opt/ExcludeSpec.lean).
-/
import PdshVerif.Opt.Exclude
import PdshVerif.Opt.ExcludeSpec
import PdshVerif.Hostlist.LemmasUniq

namespace PdshVerif.Opt.Exclude
open PdshVerif.Hostlist

/-! ### the buffer loop of `list_push_hostlist` -/
theorem pushLoop_fixed_terminates (len : Nat) : ∀ (f n : Nat), 0x7fffff ≤ n * 2 ^ f →
    ∃ k, pushLoop true len (f + 1) n = some k
  | 0, n, h => by
    unfold pushLoop
    by_cases ht : len ≥ n - 1
    · have : ¬ n * 2 < 0x7fffff := by simp at h; omega
      simp [ht, this]
    · simp [ht]
  | f + 1, n, h => by
    unfold pushLoop
    by_cases ht : len ≥ n - 1
    · by_cases hl : n * 2 < 0x7fffff
      · simp only [ht, hl, ↓reduceIte]
        exact pushLoop_fixed_terminates len f (n * 2) (by rw [Nat.pow_succ] at h; rw [Nat.mul_assoc, Nat.mul_comm 2]; exact h)
      · simp [ht, hl]
    · simp [ht]

theorem pushLoop_unchanged_diverges (len : Nat) (h : len ≥ 4095) : ∀ fuel, pushLoop false len fuel 4096 = none
  | 0 => rfl
  | f + 1 => by
    unfold pushLoop
    have ht : len ≥ 4096 - 1 := by omega
    simp only [ht, ↓reduceIte, Bool.false_eq_true, Nat.mul_one, ne_eq]
    exact pushLoop_unchanged_diverges len h f

end PdshVerif.Opt.Exclude
