import PdshVerif.Opt.WcollRefine

/-! `get_file_path`: for plain paths glibc's `dirname`, split at ':', is the one directory the
specification means -/
namespace PdshVerif.Opt.Wcoll
open PdshVerif.Opt

/-- a path as the specification reads it: it does not end in a slash, and its last slash is not
preceded by another one (no `dir//file`) -/
structure PlainPath (p : Str) : Prop where
  noTrail : p.getLast? ≠ some '/'
  noDouble : ∀ B name, p = B ++ '/' :: name → '/' ∉ name → B.getLast? ≠ some '/'

theorem dropWhile_all {q : Char → Bool} : ∀ (s : Str), (∀ c ∈ s, q c = true) → s.dropWhile q = []
  | [], _ => rfl
  | c :: s, h => by
    simp only [List.dropWhile_cons, h c (by simp), if_true]
    exact dropWhile_all s fun x hx => h x (by simp [hx])

/-- cut at the last slash -/
theorem split_last_slash {p : Str} (h : '/' ∈ p) : ∃ B name, p = B ++ '/' :: name ∧ '/' ∉ name := by
  have hsplit := List.takeWhile_append_dropWhile (p := (· != '/')) (l := p.reverse)
  cases hd : p.reverse.dropWhile (· != '/') with
  | nil =>
    exfalso
    rw [hd, List.append_nil] at hsplit
    have hm : '/' ∈ p.reverse.takeWhile (· != '/') := by rw [hsplit]; simpa using h
    have := mem_takeWhile_imp'' hm
    simp at this
  | cons c t =>
    have hc : c = '/' := by
      have := dropWhile_head_false'' hd
      simpa using this
    subst hc
    refine ⟨t.reverse, (p.reverse.takeWhile (· != '/')).reverse, ?_, ?_⟩
    · rw [hd] at hsplit
      have := congrArg List.reverse hsplit
      simpa using this.symm
    · intro hm
      have := mem_takeWhile_imp'' (List.mem_reverse.mp hm)
      simp at this
where
  mem_takeWhile_imp'' {q : Char → Bool} : ∀ {l : Str} {x : Char}, x ∈ l.takeWhile q → q x = true
    | [], _, h => by simp at h
    | a :: l, x, h => by
      simp only [List.takeWhile_cons] at h
      split at h
      · simp only [List.mem_cons] at h
        rcases h with rfl | h
        · assumption
        · exact mem_takeWhile_imp'' h
      · simp at h
  dropWhile_head_false'' {q : Char → Bool} : ∀ {l : Str} {c : Char} {r : Str},
      l.dropWhile q = c :: r → q c = false
    | [], _, _, h => by simp at h
    | a :: l, c, r, h => by
      simp only [List.dropWhile_cons] at h
      split at h
      · exact dropWhile_head_false'' h
      · rename_i hp
        simp only [List.cons.injEq] at h
        rw [← h.1]; simpa using hp

theorem rev_dropWhile_last_slash (B name : Str) (hn : '/' ∉ name) :
    (B ++ '/' :: name).reverse.dropWhile (· != '/') = '/' :: B.reverse := by
  have : (B ++ '/' :: name).reverse = name.reverse ++ ('/' :: B.reverse) := by simp
  rw [this, dropWhile_append_nil _ _ (dropWhile_all _ fun c hc => by
    have : c ≠ '/' := fun e => hn (e ▸ List.mem_reverse.mp hc)
    simpa using this)]
  simp

theorem stripSlashes_snoc_slash (B : Str) (h : B.getLast? ≠ some '/') : stripSlashes (B ++ ['/']) = B := by
  unfold stripSlashes
  have : (B ++ ['/']).reverse = '/' :: B.reverse := by simp
  rw [this]
  simp only [List.dropWhile_cons, beq_self_eq_true, if_true]
  cases hb : B.reverse with
  | nil =>
    have : B = [] := by simpa using hb
    simp [this]
  | cons c t =>
    have hc : c ≠ '/' := by
      intro e
      apply h
      have : B = (c :: t).reverse := by rw [← hb]; simp
      rw [this, e]; simp
    simp only [List.dropWhile_cons]
    have : (c == '/') = false := by simpa using hc
    rw [this]
    simp only [Bool.false_eq_true, if_false]
    rw [← hb]; simp

/-- glibc's `dirname` of a plain path is the specification's directory -/
theorem dirname_eq_dirOf (p : Str) (h : PlainPath p) : dirname p = WcollSpec.dirOf p := by
  unfold dirname WcollSpec.dirOf
  have hp1 : (if p.getLast? = some '/' ∧ stripSlashes p ≠ [] then stripSlashes p else p) = p := by
    rw [if_neg]; intro hh; exact h.noTrail hh.1
  simp only [hp1]
  by_cases hs : '/' ∈ p
  · obtain ⟨B, name, hpe, hname⟩ := split_last_slash hs
    have hB := h.noDouble B name hpe hname
    simp only [hs, not_true_eq_false, if_false]
    rw [hpe, rev_dropWhile_last_slash B name hname]
    simp only [List.reverse_cons, List.reverse_reverse, List.drop_succ_cons, List.drop_zero]
    rw [stripSlashes_snoc_slash B hB]
    cases B with
    | nil => simp
    | cons b bs => simp
  · simp [hs]

/-- `list_split (":", dir)` of a directory without colon is that directory -/
theorem splitGo_noSep (sep : Str) : ∀ (s : Str) (lvl : Int) (acc : Str), (∀ c ∈ s, c ∉ sep) →
    splitGo sep s lvl acc = if (acc.reverse ++ s).isEmpty then [] else [acc.reverse ++ s]
  | [], _, acc, _ => by simp [splitGo]
  | c :: s, lvl, acc, h => by
    have hc : c ∉ sep := h c (by simp)
    have : ¬ (lvl = 0 ∧ c ∈ sep) := fun hh => hc hh.2
    simp only [splitGo, this, if_false]
    rw [splitGo_noSep sep s _ (c :: acc) fun x hx => h x (by simp [hx])]
    simp

theorem listSplit_single (d : Str) (hne : d ≠ []) (h : ':' ∉ d) : listSplit [':'] d = [d] := by
  unfold listSplit
  rw [splitGo_noSep [':'] d 0 [] fun c hc => by
    intro hm
    simp only [List.mem_singleton] at hm
    exact h (hm ▸ hc)]
  simp [hne]

theorem dirOf_ne_nil (p : Str) : WcollSpec.dirOf p ≠ [] := by
  unfold WcollSpec.dirOf
  split
  · simp
  · split
    · simp
    · rename_i hne
      intro h0
      exact hne h0

/-- the search path the reader uses for a plain command-line path is the one directory of the
specification (no colon in it) -/
theorem search_path_of_plain (p : Str) (h : PlainPath p) (hc : ':' ∉ WcollSpec.dirOf p) :
    listSplit [':'] (dirname p) = [WcollSpec.dirOf p] := by
  rw [dirname_eq_dirOf p h]
  exact listSplit_single _ (dirOf_ne_nil p) hc

end PdshVerif.Opt.Wcoll
