import PdshVerif.Gen.Wcoll

/-
Executable model of src/pdsh/wcoll.c (entirely) and of the part of src/pdsh/opt.c that assembles
the target list from its sources (`-w` words, `^file`, `-` = stdin, WCOLL), with xstring.c
`xstrcln` and split.c `list_split`.

The model's OUTPUT is the ordered list of expressions handed to the hostlist parser
(`hostlist_push (hl, line)`), the number of warnings, and whether pdsh dies (`errx`).  What an
expression expands to is NOT modelled here (hostlist.c belongs to another property): it is an
abstract parameter of the theorems and the real parser in the check.

The file system is a finite map path ↦ (readable, content); `access(R_OK)` + `fopen` succeed
exactly on readable entries.  Strings are `List Char` holding bytes; no NUL bytes.
-/
namespace PdshVerif.Opt.Wcoll

abbrev Str := List Char

structure File where
  path : Str
  readable : Bool
  content : Str
  deriving Repr

abbrev FS := List File

def lookup (fs : FS) (p : Str) : Option File := fs.find? fun f => f.path = p

/-- `access (p, R_OK) >= 0` (and `fopen (p, "r")` succeeds) -/
def canRead (fs : FS) (p : Str) : Bool :=
  match lookup fs p with
  | some f => f.readable
  | none => false

/-! ## `fgets (buf, LINEBUFSIZE, fp)` in a loop -/

/-- how `wcoll_ctx_read_stream` cuts a stream into "lines" -/
inductive LineMode where
  /-- the code as it was: `fgets` with a buffer of `size` bytes returns at most `size-1` bytes, and every
  piece was parsed on its own -/
  | fgets (size : Nat)
  /-- whole lines of any length (the specification's reader) -/
  | whole
  /-- the repaired reader AS WRITTEN, byte level: `fgets` pieces of at most `size-1` bytes are appended to
  `line` (`xstrcat`) until a piece holds a newline; what is left at EOF is a last line -/
  | glued (size : Nat)
  deriving Repr, DecidableEq

/-- the longest line the reader hands over in one piece (`none`: no limit) -/
def LineMode.cap : LineMode → Option Nat
  | .fgets size => some (size - 1)
  | .whole => none
  | .glued _ => none

/-- what one `fgets` call returns at most -/
def LineMode.pieceCap : LineMode → Option Nat
  | .fgets size => some (size - 1)
  | .whole => none
  | .glued size => some (size - 1)

def LineMode.glues : LineMode → Bool
  | .glued _ => true
  | _ => false

/-- `used` bytes of the current chunk are in `acc` (reversed) -/
def chunksGo (cap : Option Nat) : Str → Nat → Str → List Str
  | [], _, acc => if acc.isEmpty then [] else [acc.reverse]
  | c :: r, used, acc =>
    if c = '\n' then (c :: acc).reverse :: chunksGo cap r 0 []
    else if cap = some (used + 1) then (c :: acc).reverse :: chunksGo cap r 0 []
    else chunksGo cap r (used + 1) (c :: acc)

/-- `xstrcat (&line, buf); if (strchr (buf, '\n') == NULL) continue; read_line (line); line = NULL` over the
successive `fgets` pieces, and `if (line != NULL) read_line (line)` at EOF; `line` = what has been collected -/
def glueGo : List Str → Str → List Str
  | [], line => if line.isEmpty then [] else [line]
  | p :: ps, line => if '\n' ∈ p then (line ++ p) :: glueGo ps [] else glueGo ps (line ++ p)

/-- the successive arguments of `wcoll_ctx_read_line` until EOF -/
def chunks (mode : LineMode) (s : Str) : List Str :=
  if mode.glues then glueGo (chunksGo mode.pieceCap s 0 []) [] else chunksGo mode.cap s 0 []

/-- the code as it was found -/
def shipped : LineMode := .fgets PdshVerif.Gen.WCOLL_LINEBUFSIZE

/-- the code as repaired (D12): pieces of the same buffer size, glued -/
def repairedReader : LineMode := .glued PdshVerif.Gen.WCOLL_LINEBUFSIZE

/-! ## `xstrcln (line, NULL)` : SPACES = "\n\t " -/

def isSp (c : Char) : Bool := c == '\n' || c == '\t' || c == ' '

def trim (s : Str) : Str := ((s.dropWhile isSp).reverse.dropWhile isSp).reverse

/-! ## `include_file` -/

/-- `strtok (p, sep)` repeatedly: the non-empty maximal runs of non-separators -/
def tokensGo (sep : Char → Bool) : Str → Str → List Str
  | [], acc => if acc.isEmpty then [] else [acc.reverse]
  | c :: r, acc =>
    if sep c then (if acc.isEmpty then tokensGo sep r [] else acc.reverse :: tokensGo sep r [])
    else tokensGo sep r (c :: acc)

def tokens (sep : Char → Bool) (s : Str) : List Str := tokensGo sep s []

/-- `"\n\r\t "` -/
def isTokSep (c : Char) : Bool := c == '\n' || c == '\r' || c == '\t' || c == ' '

inductive Inc where
  | notInclude
  /-- "warning: Ignoring invalid line" -/
  | invalid
  | file (name : Str)
  deriving Repr, DecidableEq

/-- `strncmp (p, "#include", 8)`, skip blanks, first token; any further token makes the line
invalid.  Note: no blank is required after `#include` (`#includeB` includes `B`). -/
def includeFile (line : Str) : Inc :=
  if line.take 8 = "#include".toList then
    match tokens isTokSep (line.drop 8) with
    | [t] => .file t
    | _ => .invalid
  else .notInclude

/-! ## the reading context -/

structure Ctx where
  /-- arguments of the successive `hostlist_push (ctx->hl, line)` calls -/
  exprs : List Str := []
  /-- `include_cache`: resolved path strings already read through an include -/
  cache : List Str := []
  /-- warnings printed ("included multiple times", "Ignoring invalid line") -/
  nwarn : Nat := 0
  /-- `errx`: pdsh prints a message and exits 1 -/
  fatal : Bool := false
  /-- model artefact: the recursion fuel ran out (theorem `include_terminates`: never) -/
  starved : Bool := false
  /-- ghost: resolved paths actually opened through an include, in order -/
  opened : List Str := []
  deriving Repr

def pushLine (line : Str) (c : Ctx) : Ctx :=
  if (trim line).isEmpty then c else { c with exprs := c.exprs ++ [trim line] }

/-- `wcoll_ctx_read_line`; `inc` = `wcoll_ctx_read_file` for an included name -/
def readLine (inc : Str → Ctx → Ctx) (chunk : Str) (c : Ctx) : Ctx :=
  if c.fatal then c
  else match chunk with
    | '#' :: _ =>
      match includeFile chunk with
      | .file name => inc name c
      | .invalid => { c with nwarn := c.nwarn + 1 }
      | .notInclude => c
    | _ => pushLine (chunk.takeWhile (· != '#')) c

/-- size of `fq_path` in `wcoll_ctx_read_file` -/
def PATHBUF : Nat := 4096

/-- absolute, or relative to `.` or `..` : used as given -/
def isExplicit : Str → Bool
  | '/' :: _ => true
  | '.' :: '/' :: _ => true
  | '.' :: '.' :: '/' :: _ => true
  | _ => false

/-- `wcoll_ctx_path_lookup` -/
def pathLookup (fs : FS) : List Str → Str → Option Str
  | [], _ => none
  | d :: ds, name =>
    if (d ++ '/' :: name).length ≥ PATHBUF then none
    else if canRead fs (d ++ '/' :: name) then some (d ++ '/' :: name)
    else pathLookup fs ds name

/-- `wcoll_ctx_resolve_path` -/
def resolve (fs : FS) (dirs : List Str) (f : Str) : Option Str :=
  if isExplicit f then some (f.take (PATHBUF - 1)) else pathLookup fs dirs f

/-- `wcoll_ctx_read_file` (with `wcoll_ctx_read_stream` inlined).  Fuel bounds the include depth. -/
def readFile (mode : LineMode) (fs : FS) (dirs : List Str) : Nat → Str → Ctx → Ctx
  | 0, _, c => { c with starved := true, fatal := true }
  | fuel + 1, f, c =>
    match resolve fs dirs f with
    | none => { c with fatal := true }
    | some fq =>
      if fq ∈ c.cache then { c with nwarn := c.nwarn + 1 }
      else match lookup fs fq with
        | none => { c with cache := c.cache ++ [fq], fatal := true }
        | some file =>
          if file.readable then
            (chunks mode file.content).foldl
              (fun c ch => readLine (readFile mode fs dirs fuel) ch c)
              { c with cache := c.cache ++ [fq], opened := c.opened ++ [fq] }
          else { c with cache := c.cache ++ [fq], fatal := true }

/-- include depth can never exceed the number of files: enough fuel -/
def fuelFor (fs : FS) : Nat := fs.length + 1

/-- `wcoll_ctx_read_stream` at top level -/
def readStream (mode : LineMode) (fs : FS) (dirs : List Str) (content : Str) : Ctx :=
  (chunks mode content).foldl (fun c ch => readLine (readFile mode fs dirs (fuelFor fs)) ch c) {}

/-! ## `list_split` (split.c) -/

/-- `_next_tok` repeatedly: separators inside brackets do not split (level is a plain counter that
may go negative) -/
def splitGo (sep : Str) : Str → Int → Str → List Str
  | [], _, acc => if acc.isEmpty then [] else [acc.reverse]
  | c :: r, lvl, acc =>
    if lvl = 0 ∧ c ∈ sep then
      (if acc.isEmpty then splitGo sep r 0 [] else acc.reverse :: splitGo sep r 0 [])
    else splitGo sep r (if c = '[' then lvl + 1 else if c = ']' then lvl - 1 else lvl) (c :: acc)

def listSplit (sep : Str) (s : Str) : List Str := splitGo sep s 0 []

/-! ## `get_file_path` : glibc `dirname` -/

def stripSlashes (s : Str) : Str := (s.reverse.dropWhile (· == '/')).reverse

def dirname (p : Str) : Str :=
  let p1 := if p.getLast? = some '/' ∧ stripSlashes p ≠ [] then stripSlashes p else p
  if '/' ∉ p1 then ['.']
  else
    let before := (p1.reverse.dropWhile (· != '/')).reverse
    if stripSlashes before = [] then (if before = ['/', '/'] then before else ['/'])
    else stripSlashes before

/-- `read_wcoll (file, NULL)`: the context after reading, and what is left of stdin.
The file named on the command line is opened as given and is NOT entered in the include cache. -/
def readWcoll (mode : LineMode) (fs : FS) (stdin : Str) (file : Str) : Ctx × Str :=
  if file = ['-'] then (readStream mode fs (listSplit [':'] ['.']) stdin, [])
  else match lookup fs file with
    | none => ({ fatal := true }, stdin)
    | some f =>
      if f.readable then (readStream mode fs (listSplit [':'] (dirname file)) f.content, stdin)
      else ({ fatal := true }, stdin)

/-! ## opt.c : `wcoll_arg_process`, `wcoll_args_process`, the `-w` case, the WCOLL fallback -/

structure St where
  /-- expressions pushed onto `opt->wcoll`, in order -/
  exprs : List Str := []
  /-- `opt->wcoll != NULL` -/
  created : Bool := false
  /-- `exclude_list` (host words; for `-^file` the file's expressions) -/
  excl : List Str := []
  /-- `regex_list` : (exclude?, pattern) -/
  regex : List (Bool × Str) := []
  nwarn : Nat := 0
  fatal : Bool := false
  starved : Bool := false
  stdin : Str := []
  /-- ghost: per file source, the paths opened through includes -/
  opened : List (List Str) := []
  deriving Repr

def isspaceC (c : Char) : Bool :=
  c == ' ' || c == '\t' || c == '\n' || c == '\r' || c == Char.ofNat 11 || c == Char.ofNat 12

/-- `get_host_rcmd_type`: the hosts part of `[rcmd_type:][user@]hosts`; `none` = errx -/
def hostPart (s : Str) : Option Str :=
  let ip := s.idxOf ':'
  let iq := s.idxOf '@'
  if ip < s.length ∧ iq < s.length ∧ iq < ip then none
  else if iq < s.length then some (s.drop (iq + 1))
  else if ip < s.length ∧ s[ip + 1]? ≠ some ':' then some (s.drop (ip + 1))
  else some s

/-- the common tail of a file source: merge a read context into the option state -/
def absorb (st : St) (excluded : Bool) (r : Ctx × Str) : St :=
  let st := { st with nwarn := st.nwarn + r.1.nwarn, stdin := r.2, starved := st.starved || r.1.starved,
                      opened := st.opened ++ [r.1.opened] }
  if r.1.fatal then { st with fatal := true }
  else if excluded then { st with excl := st.excl ++ r.1.exprs }
  else { st with exprs := st.exprs ++ r.1.exprs, created := true }

/-- `wcoll_arg_process`.  (Since /repo d1c94df the result of `hostlist_push (opt->wcoll, hosts)` is checked: a word
the parser refuses is `errx`.  Parsing is abstract in this model — `exprs` are the arguments of the pushes — so that
branch is not a case split here; checks/c10.py `unparsable-word:*` pins it on the real pdsh and probes which form
the tree has.) -/
def argProcess (mode : LineMode) (fs : FS) (st : St) (arg : Str) : St :=
  if st.fatal then st
  else
    let excluded : Bool := arg.head? == some '-'
    let p := (if excluded then arg.drop 1 else arg).dropWhile isspaceC
    match p with
    | '^' :: file => absorb st excluded (readWcoll mode fs st.stdin file)
    | '/' :: re => { st with regex := st.regex ++ [(excluded, if re.getLast? = some '/' then re.dropLast else re)] }
    | _ =>
      if excluded then { st with excl := st.excl ++ [p] }
      else match hostPart p with
        | none => { st with fatal := true }
        | some h => { st with exprs := st.exprs ++ [h], created := true }

/-- `case 'w'` of `opt_args` -/
def optargProcess (mode : LineMode) (fs : FS) (st : St) (optarg : Str) : St :=
  if optarg = ['-'] then argProcess mode fs st ['^', '-']
  else (listSplit [','] optarg).foldl (argProcess mode fs) st

/-- all `-w` options in command-line order, then WCOLL if `opt->wcoll` is still NULL -/
def assemble (mode : LineMode) (fs : FS) (stdin : Str) (wargs : List Str) (wcollEnv : Option Str) : St :=
  let st := wargs.foldl (optargProcess mode fs) { stdin := stdin }
  if st.fatal || st.created then st
  else match wcollEnv with
    | none => st
    | some f => absorb st false (readWcoll mode fs st.stdin f)

/-! ## `-x` : `wcoll_append_excluded` — the same reader, the hosts go to the exclusion list -/

/-- a `-w` or a `-x` option with its argument, in command-line order -/
inductive Opt where
  | w (optarg : Str)
  | x (optarg : Str)
  deriving Repr

/-- `case 'x'`: every comma-separated piece is processed as `-piece` -/
def xargProcess (mode : LineMode) (fs : FS) (st : St) (optarg : Str) : St :=
  (listSplit [','] optarg).foldl (fun st s => argProcess mode fs st ('-' :: s)) st

def optProcess (mode : LineMode) (fs : FS) (st : St) : Opt → St
  | .w a => optargProcess mode fs st a
  | .x a => xargProcess mode fs st a

/-- all `-w` / `-x` options in command-line order, then WCOLL if `opt->wcoll` is still NULL -/
def assembleOpts (mode : LineMode) (fs : FS) (stdin : Str) (opts : List Opt) (wcollEnv : Option Str) : St :=
  let st := opts.foldl (optProcess mode fs) { stdin := stdin }
  if st.fatal || st.created then st
  else match wcollEnv with
    | none => st
    | some f => absorb st false (readWcoll mode fs st.stdin f)

end PdshVerif.Opt.Wcoll
