/-
  Glue between the registry model of C09 (Opt/Rcmd.lean) and the models other properties own:
    C18  Opt/Settings.lean, Opt/Lemmas.lean : option processing (getopt, last occurrence, environment)
    C02  Opt/ExcludeCompose.lean            : the final target list (targets, -x, regex filters)
    C01  Hostlist/Spec.lean                 : what a hostlist word denotes
  Definitions only; the corollaries are in Props/C09.lean.
-/
import PdshVerif.Opt.Rcmd
import PdshVerif.Opt.RcmdSpec
import PdshVerif.Opt.Lemmas
import PdshVerif.Opt.ExcludeCompose

namespace PdshVerif.Opt.Rcmd

/-- the C09 configuration as C18's option processing delivers it: the LAST -R / -l of the command
    line (getopt over the full option string), PDSH_RCMD_TYPE, the loaded rcmd modules, the local user -/
def cfgOfSettings (d : Opt.Defaults) (p : Opt.Pers) (env : Opt.Env) (argv : List Str) : Cfg :=
  ⟨d.rcmdModules, Gen.RCMD_RANK.map String.toList, Opt.getenv env "PDSH_RCMD_TYPE",
   Opt.lastArg 'R' (Opt.getopt (Opt.fullString d p) argv).1,
   Opt.lastArg 'l' (Opt.getopt (Opt.fullString d p) argv).1, d.luser⟩

/-- a target word of the command line by meaning: optional `type:`, optional `user@`, a hostlist word -/
structure AWord where
  rtype : Option Str
  user  : Option Str
  w     : Hostlist.Spec.Word

/-- the annotation as written -/
def AWord.ann (a : AWord) : Str :=
  (match a.rtype with | some t => t ++ [':'] | none => []) ++
  (match a.user with | some u => u ++ ['@'] | none => [])

/-- the text wcoll_arg_process gets -/
def AWord.text (a : AWord) : Str := a.ann ++ Hostlist.Spec.renderWord a.w

/-- the word as the registry model sees it (code since c. F09-2BR repair: the registered names are
    the names the word denotes) -/
def AWord.toWord (a : AWord) : Word := ⟨a.text, a.w.expand₁, a.w.expand₁⟩

/-- a comma word of the command line: an (annotated) target word, or an exclusion / filter word of C02 -/
inductive Item where
  | tgt (a : AWord)
  | other (cw : Exclude.CW)

/-- what C02's model processes: the target words WITHOUT their annotation (wcoll_arg_process pushes
    the host part get_host_rcmd_type leaves), everything else as it stands -/
def Item.cw : Item → Exclude.CW
  | .tgt a => .tgt a.w
  | .other cw => cw

def awords : List Item → List AWord
  | [] => []
  | .tgt a :: r => a :: awords r
  | .other _ :: r => awords r

end PdshVerif.Opt.Rcmd
