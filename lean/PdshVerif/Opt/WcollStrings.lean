import PdshVerif.Opt.WcollSources
import PdshVerif.Opt.WcollSpec

/-! the reader refines the specification on well-formed files whose lines fit the buffer -/
namespace PdshVerif.Opt.Wcoll
open PdshVerif.Opt

/-! ### string facts -/

theorem isSp_eq_isBlank {c : Char} (h : c ≠ '\n') : isSp c = WcollSpec.isBlank c := by
  have : (c == '\n') = false := by simpa using h
  simp only [isSp, WcollSpec.isBlank, this, Bool.false_or, Bool.or_comm]

theorem isTokSep_eq_isBlank {c : Char} (h1 : c ≠ '\n') (h2 : c ≠ '\r') :
    isTokSep c = WcollSpec.isBlank c := by
  have e1 : (c == '\n') = false := by simpa using h1
  have e2 : (c == '\r') = false := by simpa using h2
  simp only [isTokSep, WcollSpec.isBlank, e1, e2, Bool.false_or, Bool.or_comm]

theorem takeWhile_all {p : Char → Bool} : ∀ (s : Str), (∀ c ∈ s, p c = true) → s.takeWhile p = s
  | [], _ => rfl
  | c :: s, h => by
    simp only [List.takeWhile_cons, h c (by simp), if_true]
    rw [takeWhile_all s fun x hx => h x (by simp [hx])]

theorem dropWhile_congr_mem {p q : Char → Bool} : ∀ (s : Str), (∀ c ∈ s, p c = q c) →
    s.dropWhile p = s.dropWhile q
  | [], _ => rfl
  | c :: s, h => by
    have hc := h c (by simp)
    simp only [List.dropWhile_cons, hc]
    split
    · exact dropWhile_congr_mem s fun x hx => h x (by simp [hx])
    · rfl

theorem dropWhile_append_nil {p : Char → Bool} : ∀ (s t : Str), s.dropWhile p = [] →
    (s ++ t).dropWhile p = t.dropWhile p
  | [], _, _ => rfl
  | c :: s, t, h => by
    simp only [List.dropWhile_cons] at h
    split at h
    · rename_i hc
      simp only [List.cons_append, List.dropWhile_cons, hc, if_true]
      exact dropWhile_append_nil s t h
    · simp at h

theorem dropWhile_append_ne {p : Char → Bool} : ∀ (s t : Str), s.dropWhile p ≠ [] →
    (s ++ t).dropWhile p = s.dropWhile p ++ t
  | [], _, h => absurd rfl h
  | c :: s, t, h => by
    simp only [List.dropWhile_cons] at h ⊢
    simp only [List.cons_append, List.dropWhile_cons]
    split
    · rename_i hc
      simp only [hc, if_true] at h
      exact dropWhile_append_ne s t h
    · rfl

theorem trim_snoc_nl (s : Str) : trim (s ++ ['\n']) = trim s := by
  unfold trim
  by_cases h : s.dropWhile isSp = []
  · rw [dropWhile_append_nil s _ h, h]
    simp [isSp]
  · rw [dropWhile_append_ne s _ h]
    simp [List.reverse_append, isSp]

theorem mem_dropWhile {p : Char → Bool} {s : Str} {c : Char} (h : c ∈ s.dropWhile p) : c ∈ s :=
  (List.dropWhile_sublist p).subset h

theorem trim_eq_strip {s : Str} (h : '\n' ∉ s) : trim s = WcollSpec.strip s := by
  have hsp : ∀ c, c ≠ '\n' → isSp c = WcollSpec.isBlank c := fun c hc => isSp_eq_isBlank hc
  unfold trim WcollSpec.strip
  have e1 : s.dropWhile isSp = s.dropWhile WcollSpec.isBlank :=
    dropWhile_congr_mem s fun c hc => hsp c (fun e => h (e ▸ hc))
  rw [e1]
  congr 1
  apply dropWhile_congr_mem
  intro c hc
  exact hsp c fun e => h (e ▸ mem_dropWhile (List.mem_reverse.mp hc))

theorem takeWhile_snoc_nl : ∀ (l : Str),
    (l ++ ['\n']).takeWhile (· != '#') =
      if '#' ∈ l then l.takeWhile (· != '#') else l ++ ['\n']
  | [] => by simp
  | c :: l => by
    by_cases hc : c = '#'
    · subst hc; simp
    · have ih := takeWhile_snoc_nl l
      simp only [List.cons_append, List.takeWhile_cons, bne_iff_ne, ne_eq, hc, not_false_eq_true,
        if_true, ih, List.mem_cons]
      have : ('#' = c) = False := by simp [Ne.symm hc]
      simp only [this, false_or]
      split <;> rfl

theorem not_mem_takeWhile {p : Char → Bool} {s : Str} {c : Char} (h : c ∉ s) : c ∉ s.takeWhile p :=
  fun hx => h ((List.takeWhile_sublist p).subset hx)

/-- what reaches the parser from an ordinary line is the same for the chunk (with or without its
newline) and for the specification's stripped line -/
theorem trim_chunk (l : Str) (h : '\n' ∉ l) :
    trim ((l ++ ['\n']).takeWhile (· != '#')) = WcollSpec.strip (l.takeWhile (· != '#')) ∧
    trim (l.takeWhile (· != '#')) = WcollSpec.strip (l.takeWhile (· != '#')) := by
  have h2 := trim_eq_strip (not_mem_takeWhile (p := (· != '#')) h)
  refine ⟨?_, h2⟩
  rw [takeWhile_snoc_nl]
  split
  · exact h2
  · rename_i hno
    have : l.takeWhile (· != '#') = l := by
      apply takeWhile_all
      intro c hc
      simp only [bne_iff_ne, ne_eq]
      intro e; exact hno (e ▸ hc)
    rw [trim_snoc_nl, this]
    exact trim_eq_strip h

theorem tokensGo_words : ∀ (s acc : Str), (∀ c ∈ s, c ≠ '\n' ∧ c ≠ '\r') →
    tokensGo isTokSep (s ++ ['\n']) acc = WcollSpec.wordsGo s acc ∧
    tokensGo isTokSep s acc = WcollSpec.wordsGo s acc
  | [], acc, _ => by
    simp only [List.nil_append, tokensGo, WcollSpec.wordsGo, isTokSep]
    simp only [beq_self_eq_true, Bool.true_or, if_true, and_true]
    split <;> rfl
  | c :: s, acc, h => by
    have hc := h c (by simp)
    have hsep : isTokSep c = WcollSpec.isBlank c := isTokSep_eq_isBlank hc.1 hc.2
    have hs : ∀ x ∈ s, x ≠ '\n' ∧ x ≠ '\r' := fun x hx => h x (by simp [hx])
    simp only [List.cons_append, tokensGo, WcollSpec.wordsGo, hsep]
    split
    · split
      · exact tokensGo_words s [] hs
      · exact ⟨by rw [(tokensGo_words s [] hs).1], by rw [(tokensGo_words s [] hs).2]⟩
    · exact tokensGo_words s (c :: acc) hs

/-! ### the specification's line splitter -/

theorem spec_linesGo_line : ∀ (l acc : Str) (rest : Str), '\n' ∉ l →
    WcollSpec.linesGo (l ++ '\n' :: rest) acc = (acc.reverse ++ l) :: WcollSpec.linesGo rest []
  | [], acc, rest, _ => by simp [WcollSpec.linesGo]
  | c :: l, acc, rest, h => by
    have hc : c ≠ '\n' := fun e => h (by simp [e])
    simp only [List.cons_append, WcollSpec.linesGo, if_neg hc]
    rw [spec_linesGo_line l (c :: acc) rest fun hx => h (by simp [hx])]
    simp

theorem spec_linesGo_last : ∀ (l acc : Str), '\n' ∉ l →
    WcollSpec.linesGo l acc = if (acc.reverse ++ l).isEmpty then [] else [acc.reverse ++ l]
  | [], acc, _ => by simp [WcollSpec.linesGo]
  | c :: l, acc, h => by
    have hc : c ≠ '\n' := fun e => h (by simp [e])
    simp only [WcollSpec.linesGo, if_neg hc]
    rw [spec_linesGo_last l (c :: acc) fun hx => h (by simp [hx])]
    simp

theorem spec_lines_join : ∀ (ls : List Str) (last : Str), (∀ l ∈ ls, '\n' ∉ l) → '\n' ∉ last →
    WcollSpec.lines (joinLines ls last) = ls ++ (if last.isEmpty then [] else [last])
  | [], last, _, hl => by
    have := spec_linesGo_last last [] hl
    simpa [WcollSpec.lines, joinLines] using this
  | l :: ls, last, h, hl => by
    have ih := spec_lines_join ls last (fun x hx => h x (by simp [hx])) hl
    simp only [WcollSpec.lines, joinLines] at ih ⊢
    simp only [List.flatMap_cons, List.append_assoc, List.cons_append, List.nil_append]
    rw [spec_linesGo_line l [] _ (h l (by simp))]
    simp [ih]

end PdshVerif.Opt.Wcoll
