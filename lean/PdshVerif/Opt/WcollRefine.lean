import PdshVerif.Opt.WcollStrings
import PdshVerif.Opt.WcollBytes

/-! the reader refines `Opt/WcollSpec.lean` on well-formed files whose lines fit the buffer -/
namespace PdshVerif.Opt.Wcoll
open PdshVerif.Opt

/-- a line the property text speaks about: ANY line that does not start with `#include` (host
expressions, comments, blanks, CR included); a line that starts with `#include` must be exactly
`#include` blanks+ F blanks* without CR, with a name that fits the path buffer -/
def inclOK (topdir : Str) (l : Str) : Bool :=
  match WcollSpec.words (l.drop 8) with
  | [f] => decide (f.length < PATHBUF - 1) && decide ((topdir ++ '/' :: f).length < PATHBUF)
  | _ => false

structure LineOK (topdir : Str) (l : Str) : Prop where
  nonl : '\n' ∉ l
  /-- only an include line must be free of CR (`strtok` splits at CR, the property's blanks do not) -/
  nocr : l.take 8 = "#include".toList → '\r' ∉ l
  incl : l.take 8 = "#include".toList → WcollSpec.startsBlank (l.drop 8) = true ∧ inclOK topdir l = true

theorem inclOK_some {topdir l : Str} (h : inclOK topdir l = true) :
    ∃ f, WcollSpec.words (l.drop 8) = [f] ∧ f.length < PATHBUF - 1 ∧ (topdir ++ '/' :: f).length < PATHBUF := by
  unfold inclOK at h
  split at h
  · rename_i f hf
    simp only [Bool.and_eq_true, decide_eq_true_eq] at h
    exact ⟨f, hf, h.1, h.2⟩
  · simp at h

/-- a file content all of whose lines are well formed and fit the reader's buffer -/
def ContentOK (cap : Option Nat) (topdir : Str) (content : Str) : Prop :=
  ∃ ls last, content = joinLines ls last ∧
    (∀ l ∈ ls, LineOK topdir l ∧ ∀ n, cap = some n → l.length + 1 ≤ n) ∧
    LineOK topdir last ∧ (∀ n, cap = some n → last.length < n)

def FsOK (cap : Option Nat) (topdir : Str) (fs : FS) : Prop :=
  ∀ f ∈ fs, f.readable = true → ContentOK cap topdir f.content

/-- reader state and specification state agree -/
structure Rel (fs : FS) (c : Ctx) (a : WcollSpec.Acc) : Prop where
  exprs : c.exprs = a.exprs
  nwarn : c.nwarn = a.skipped
  fatal : c.fatal = a.error
  starved : c.starved = a.starved
  cache : c.fatal = false → c.cache = a.visited ∧ ∀ x ∈ c.cache, canRead fs x = true

theorem take8_chunk {l : Str} (h : (l ++ ['\n']).take 8 = "#include".toList) :
    l.take 8 = "#include".toList := by
  by_cases hlen : 8 ≤ l.length
  · rwa [List.take_append_of_le_length hlen] at h
  · exfalso
    have : (l ++ ['\n']).take 8 = l ++ ['\n'] := List.take_of_length_le (by simp; omega)
    rw [this] at h
    have hm : '\n' ∈ l ++ ['\n'] := by simp
    rw [h] at hm
    exact absurd hm (by decide)

theorem length_of_take8 {l : Str} (h : l.take 8 = "#include".toList) : 8 ≤ l.length := by
  have := congrArg List.length h
  simp only [List.length_take] at this
  have h8 : "#include".toList.length = 8 := by decide
  omega

theorem readLine_handle (fs : FS) (topdir : Str) (inc : Str → Ctx → Ctx)
    (incl : Str → WcollSpec.Acc → WcollSpec.Acc)
    (hinc : ∀ f c a, Rel fs c a → c.fatal = false → f.length < PATHBUF - 1 →
      (topdir ++ '/' :: f).length < PATHBUF → Rel fs (inc f c) (incl f a))
    (l : Str) (hl : LineOK topdir l) (c : Ctx) (a : WcollSpec.Acc) (hR : Rel fs c a) :
    Rel fs (readLine inc (l ++ ['\n']) c) (WcollSpec.handle incl a l) ∧
    Rel fs (readLine inc l c) (WcollSpec.handle incl a l) := by
  unfold readLine WcollSpec.handle
  by_cases hf : c.fatal = true
  · have he : a.error = true := by rw [← hR.fatal]; exact hf
    simp only [hf, he, if_true]
    exact ⟨hR, hR⟩
  · have hf' : c.fatal = false := by simpa using hf
    have he : a.error = false := by rw [← hR.fatal]; exact hf'
    have hne : ¬ a.error = true := by simp [he]
    simp only [if_neg hf, if_neg hne]
    -- the ordinary-line case, used twice
    have ordinary : ∀ (x : Str), trim x = WcollSpec.strip (l.takeWhile (· != '#')) →
        l.take 8 ≠ "#include".toList →
        Rel fs (pushLine x c) (match WcollSpec.classify l with
          | .nothing => a
          | .expr e => { a with exprs := a.exprs ++ [e] }
          | .include f => incl f a) := by
      intro x hx hni
      unfold pushLine WcollSpec.classify
      simp only [hni, false_and, if_false, hx]
      split
      · exact hR
      · exact ⟨by simp [hR.exprs], hR.nwarn, hR.fatal, hR.starved, hR.cache⟩
    cases l with
    | nil =>
      have h1 := ordinary (([] ++ ['\n']).takeWhile (· != '#')) (trim_chunk [] hl.nonl).1 (by decide)
      have h2 := ordinary (([] : Str).takeWhile (· != '#')) (trim_chunk [] hl.nonl).2 (by decide)
      exact ⟨h1, h2⟩
    | cons ch r =>
      by_cases hch : ch = '#'
      · subst hch
        simp only [List.cons_append]
        by_cases h8 : ('#' :: r).take 8 = "#include".toList
        · obtain ⟨hsb, hok⟩ := hl.incl h8
          obtain ⟨f, hw, hlen1, hlen2⟩ := inclOK_some hok
          have hlen := length_of_take8 h8
          have hrest : ∀ x ∈ ('#' :: r).drop 8, x ≠ '\n' ∧ x ≠ '\r' := fun x hx =>
            ⟨fun e => hl.nonl (e ▸ (List.drop_sublist _ _).subset hx),
             fun e => hl.nocr h8 (e ▸ (List.drop_sublist _ _).subset hx)⟩
          have htok := tokensGo_words (('#' :: r).drop 8) [] hrest
          have hcls : WcollSpec.classify ('#' :: r) = .include f := by
            unfold WcollSpec.classify
            simp only [h8, hsb, and_self, if_true, hw]
          have hm1 : includeFile ('#' :: (r ++ ['\n'])) = .file f := by
            unfold includeFile
            have e1 : ('#' :: (r ++ ['\n'])).take 8 = "#include".toList := by
              rw [← List.cons_append, List.take_append_of_le_length hlen]; exact h8
            have e2 : ('#' :: (r ++ ['\n'])).drop 8 = ('#' :: r).drop 8 ++ ['\n'] := by
              rw [← List.cons_append, List.drop_append_of_le_length hlen]
            simp only [e1, if_true, e2, tokens, htok.1]
            simp only [WcollSpec.words] at hw
            rw [hw]
          have hm2 : includeFile ('#' :: r) = .file f := by
            unfold includeFile
            simp only [h8, if_true, tokens, htok.2]
            simp only [WcollSpec.words] at hw
            rw [hw]
          simp only [hm1, hm2, hcls]
          exact ⟨hinc f c a hR hf' hlen1 hlen2, hinc f c a hR hf' hlen1 hlen2⟩
        · have hcls : WcollSpec.classify ('#' :: r) = .nothing := by
            unfold WcollSpec.classify
            rw [if_neg (fun hh => h8 hh.1)]
            have e : ('#' :: r).takeWhile (· != '#') = [] := by simp
            rw [e]
            rfl
          have hm1 : includeFile ('#' :: (r ++ ['\n'])) = .notInclude := by
            unfold includeFile
            have : ('#' :: (r ++ ['\n'])).take 8 ≠ "#include".toList := by
              intro e; rw [← List.cons_append] at e; exact h8 (take8_chunk e)
            rw [if_neg this]
          have hm2 : includeFile ('#' :: r) = .notInclude := by
            unfold includeFile
            rw [if_neg h8]
          simp only [hm1, hm2, hcls]
          exact ⟨hR, hR⟩
      · have hni : (ch :: r).take 8 ≠ "#include".toList := by
          intro e
          have : (ch :: r).take 8 = ch :: r.take 7 := rfl
          rw [this] at e
          have : ch = '#' := by
            have := congrArg List.head? e
            simpa using this
          exact hch this
        have h1 := ordinary (((ch :: r) ++ ['\n']).takeWhile (· != '#')) (trim_chunk _ hl.nonl).1 hni
        have h2 := ordinary ((ch :: r).takeWhile (· != '#')) (trim_chunk _ hl.nonl).2 hni
        refine ⟨?_, ?_⟩
        · simp only [List.cons_append] at h1 ⊢
          split
          · rename_i heq; simp only [List.cons.injEq] at heq; exact absurd heq.1 hch
          · exact h1
        · split
          · rename_i heq; simp only [List.cons.injEq] at heq; exact absurd heq.1 hch
          · exact h2

/-- folding the reader over the chunks of well-formed lines = folding the specification over the lines -/
theorem fold_rel (fs : FS) (topdir : Str) (inc : Str → Ctx → Ctx)
    (incl : Str → WcollSpec.Acc → WcollSpec.Acc)
    (hinc : ∀ f c a, Rel fs c a → c.fatal = false → f.length < PATHBUF - 1 →
      (topdir ++ '/' :: f).length < PATHBUF → Rel fs (inc f c) (incl f a)) :
    ∀ (ls : List Str), (∀ l ∈ ls, LineOK topdir l) → ∀ (c : Ctx) (a : WcollSpec.Acc), Rel fs c a →
      Rel fs ((ls.map (· ++ ['\n'])).foldl (fun c ch => readLine inc ch c) c)
        (ls.foldl (WcollSpec.handle incl) a)
  | [], _, _, _, h => h
  | l :: ls, hl, c, a, h => by
    simp only [List.map_cons, List.foldl_cons]
    exact fold_rel fs topdir inc incl hinc ls (fun x hx => hl x (by simp [hx])) _ _
      (readLine_handle fs topdir inc incl hinc l (hl l (by simp)) c a h).1

theorem content_rel (fs : FS) (topdir : Str) (mode : LineMode) (inc : Str → Ctx → Ctx)
    (incl : Str → WcollSpec.Acc → WcollSpec.Acc)
    (hinc : ∀ f c a, Rel fs c a → c.fatal = false → f.length < PATHBUF - 1 →
      (topdir ++ '/' :: f).length < PATHBUF → Rel fs (inc f c) (incl f a))
    (content : Str) (hc : ContentOK mode.cap topdir content) (c : Ctx) (a : WcollSpec.Acc)
    (h : Rel fs c a) :
    Rel fs ((chunks mode content).foldl (fun c ch => readLine inc ch c) c)
      ((WcollSpec.lines content).foldl (WcollSpec.handle incl) a) := by
  obtain ⟨ls, last, rfl, hls, hlast, hlastlen⟩ := hc
  have hch := chunks_lines mode.cap ls last (fun l hl => ⟨(hls l hl).1.nonl, (hls l hl).2⟩)
    hlast.nonl hlastlen
  have hsp := spec_lines_join ls last (fun l hl => (hls l hl).1.nonl) hlast.nonl
  rw [chunks_eq]
  rw [hch, hsp, List.foldl_append, List.foldl_append]
  have h1 := fold_rel fs topdir inc incl hinc ls (fun l hl => (hls l hl).1) c a h
  split
  · exact h1
  · simp only [List.foldl_cons, List.foldl_nil]
    exact (readLine_handle fs topdir inc incl hinc last hlast _ _ h1).2

theorem isExplicit_eq (f : Str) : isExplicit f = WcollSpec.explicitName f := by
  unfold isExplicit WcollSpec.explicitName
  split <;> simp_all

/-- an include is handled alike by reader and specification -/
theorem readFile_rel (mode : LineMode) (fs : FS) (topdir : Str) (hfs : FsOK mode.cap topdir fs) :
    ∀ (k : Nat) (f : Str) (c : Ctx) (a : WcollSpec.Acc), Rel fs c a → c.fatal = false →
      f.length < PATHBUF - 1 → (topdir ++ '/' :: f).length < PATHBUF →
      Rel fs (readFile mode fs [topdir] k f c) (WcollSpec.includeHosts fs topdir k f a)
  | 0, f, c, a, h, _, _, _ => by
    simp only [readFile, WcollSpec.includeHosts]
    exact ⟨h.exprs, h.nwarn, rfl, rfl, by simp⟩
  | k + 1, f, c, a, h, hf, hlen1, hlen2 => by
    have hcache := h.cache hf
    have herr : a.error = false := by rw [← h.fatal]; exact hf
    unfold readFile WcollSpec.includeHosts
    -- the resolved name
    have hres : resolve fs [topdir] f =
        if isExplicit f then some f
        else if canRead fs (topdir ++ '/' :: f) then some (topdir ++ '/' :: f) else none := by
      unfold resolve
      split
      · rw [List.take_of_length_le (by omega)]
      · simp only [pathLookup]
        have : ¬ (topdir ++ '/' :: f).length ≥ PATHBUF := by omega
        simp only [this, if_false]
    have hname : WcollSpec.resolveName topdir f = if isExplicit f then f else topdir ++ '/' :: f := by
      unfold WcollSpec.resolveName
      rw [isExplicit_eq]
    rw [hres, hname]
    -- common continuation once the resolved name `fq` is known and usable
    have cont : ∀ fq : Str, (fq ∈ c.cache → canRead fs fq = true) →
        Rel fs
          (if fq ∈ c.cache then { c with nwarn := c.nwarn + 1 }
           else match lookup fs fq with
            | none => { c with cache := c.cache ++ [fq], fatal := true }
            | some file =>
              if file.readable then
                (chunks mode file.content).foldl
                  (fun c ch => readLine (readFile mode fs [topdir] k) ch c)
                  { c with cache := c.cache ++ [fq], opened := c.opened ++ [fq] }
              else { c with cache := c.cache ++ [fq], fatal := true })
          (if fq ∈ a.visited then { a with skipped := a.skipped + 1 }
           else match lookup fs fq with
            | none => { a with error := true }
            | some file =>
              if file.readable then
                (WcollSpec.lines file.content).foldl
                  (WcollSpec.handle (WcollSpec.includeHosts fs topdir k))
                  { a with visited := a.visited ++ [fq] }
              else { a with error := true }) := by
      intro fq _
      rw [← hcache.1]
      split
      · exact ⟨h.exprs, by simp [h.nwarn], h.fatal, h.starved, fun _ => ⟨rfl, hcache.2⟩⟩
      · split
        · exact ⟨h.exprs, h.nwarn, rfl, h.starved, by simp⟩
        · rename_i file hfile
          split
          · rename_i hrd
            have hmem := lookup_some_mem hfile
            apply content_rel fs topdir mode _ _ (readFile_rel mode fs topdir hfs k) _
              (hfs file hmem.1 hrd)
            refine ⟨h.exprs, h.nwarn, h.fatal, h.starved, fun _ => ⟨by simp [hcache.1], ?_⟩⟩
            intro x hx
            simp only [List.mem_append, List.mem_singleton] at hx
            rcases hx with hx | rfl
            · exact hcache.2 x hx
            · simp [canRead, hfile, hrd]
          · exact ⟨h.exprs, h.nwarn, rfl, h.starved, by simp⟩
    by_cases hex : isExplicit f = true
    · simp only [hex, if_true]
      exact cont f (fun hx => hcache.2 f hx)
    · simp only [hex, Bool.false_eq_true, if_false]
      by_cases hcr : canRead fs (topdir ++ '/' :: f) = true
      · simp only [hcr, if_true]
        exact cont _ (fun _ => hcr)
      · simp only [hcr, Bool.false_eq_true, if_false]
        have hnv : (topdir ++ '/' :: f) ∉ a.visited := by
          rw [← hcache.1]; intro hx; exact hcr (hcache.2 _ hx)
        simp only [hnv, if_false]
        unfold canRead at hcr
        split
        · exact ⟨h.exprs, h.nwarn, rfl, h.starved, by simp⟩
        · rename_i file hfile
          rw [hfile] at hcr
          simp only at hcr
          simp only [hcr, Bool.false_eq_true, if_false]
          exact ⟨h.exprs, h.nwarn, rfl, h.starved, by simp⟩

/-- `reader = specification` for a stream of well-formed lines over a well-formed file system -/
theorem readStream_rel (mode : LineMode) (fs : FS) (topdir : Str) (hfs : FsOK mode.cap topdir fs)
    (content : Str) (hc : ContentOK mode.cap topdir content) :
    Rel fs (readStream mode fs [topdir] content) (WcollSpec.streamHosts fs topdir content) := by
  unfold readStream WcollSpec.streamHosts fuelFor
  exact content_rel fs topdir mode _ _ (readFile_rel mode fs topdir hfs (fs.length + 1)) content hc {} {}
    ⟨rfl, rfl, rfl, rfl, by simp⟩

theorem file_hosts_spec_partial' (mode : LineMode) (fs : FS) (topdir : Str)
    (hfs : FsOK mode.cap topdir fs) (content : Str) (hc : ContentOK mode.cap topdir content) :
    (readStream mode fs [topdir] content).exprs = (WcollSpec.streamHosts fs topdir content).exprs ∧
    (readStream mode fs [topdir] content).nwarn = (WcollSpec.streamHosts fs topdir content).skipped ∧
    (readStream mode fs [topdir] content).fatal = (WcollSpec.streamHosts fs topdir content).error :=
  let r := readStream_rel mode fs topdir hfs content hc
  ⟨r.exprs, r.nwarn, r.fatal⟩

theorem file_source_spec_partial' (mode : LineMode) (fs : FS) (stdin file : Str) (h1 : file ≠ ['-'])
    (hdir : listSplit [':'] (dirname file) = [WcollSpec.dirOf file])
    (hfs : FsOK mode.cap (WcollSpec.dirOf file) fs) :
    (readWcoll mode fs stdin file).1.exprs = (WcollSpec.fileHosts fs file).exprs ∧
    (readWcoll mode fs stdin file).1.nwarn = (WcollSpec.fileHosts fs file).skipped ∧
    (readWcoll mode fs stdin file).1.fatal = (WcollSpec.fileHosts fs file).error := by
  unfold readWcoll WcollSpec.fileHosts
  rw [if_neg h1, hdir]
  cases hlk : lookup fs file with
  | none => exact ⟨rfl, rfl, rfl⟩
  | some f =>
    simp only
    by_cases hrd : f.readable = true
    · simp only [hrd, if_true]
      exact file_hosts_spec_partial' mode fs _ hfs f.content (hfs f (lookup_some_mem hlk).1 hrd)
    · simp [hrd]

end PdshVerif.Opt.Wcoll
