/-
  Specification of property C18 "settings obey command line > environment > default; bad values are
  refused", written from the property text only: it sees a *structured* configuration (for every
  setting the text given on the command line and/or in its environment variable) and what the program
  was observed to do (refused / accepted with these effective values / did not terminate), and lists
  the clauses of the text that the observation violates.

  Policy-free: where the text leaves a choice, every choice is admitted:
  * a value is *required* to be accepted only when it is a canonical decimal numeral within `int` range
    (and >= 1 for the fanout); blanks, '+', leading zeros, numbers beyond INT_MAX may be accepted *with the
    value they denote* or refused;
  * the text lists, for the command line, only "a negative timeout" as refusable timeout value: an
    unparsable `-t`/`-u` argument is left open;
  * the over-long user name limit is the implementation's own (LOGIN_NAME_MAX); names of exactly that
    length may go either way;
  * a refusal needs *a* reason (some chosen value that need not be accepted, the documented
    "-t with -R exec" restriction, or a structurally bad command line).
-/
import PdshVerif.Base.CInt

namespace PdshVerif.Opt.Spec
open PdshVerif

abbrev Str := List Char

inductive Src where
  | cmdline | env
  deriving DecidableEq, Repr

def Src.name : Src → String
  | .cmdline => "cmdline"
  | .env => "env"

/-- the texts given for one setting -/
structure Sources where
  cmdline : Option Str
  env     : Option Str
  deriving Repr

/-- command line > environment > (none = built-in default) -/
def Sources.chosen (s : Sources) : Option (Src × Str) :=
  match s.cmdline with
  | some t => some (.cmdline, t)
  | none => s.env.map fun t => (.env, t)

inductive Kind where
  | fanout | timeout
  deriving DecidableEq, Repr

/-- smallest value that can work: a fanout is a positive integer, a timeout is not negative -/
def Kind.min : Kind → Int
  | .fanout => 1
  | .timeout => 0

/-- class of a numeric text (only used to name what went wrong) -/
def classify (t : Str) : String :=
  match CInt.denotes t with
  | none => if t = [] then "empty" else "garbage"
  | some d =>
    if d < CInt.INT_MIN then "negbig" else if d < 0 then "neg" else if d = 0 then "zero"
    else if d ≤ CInt.INT_MAX then "pos" else "big"

/-- must be accepted: canonical numeral, representable, large enough -/
def numMustAccept (k : Kind) (t : Str) : Bool :=
  CInt.canonical t &&
  match CInt.denotes t with
  | some d => decide (k.min ≤ d) && decide (d ≤ CInt.INT_MAX)
  | none => false

/-- the run was accepted with effective value `v` for a setting whose chosen text is `t`:
    `none` = fine, `some what` = violated ("accepted": a value that cannot work got through,
    "wrong-value": a workable value was replaced by another) -/
def numAccepted (k : Kind) (src : Src) (t : Str) (v : Int) : Option String :=
  match CInt.denotes t with
  | some d =>
    if d < k.min then some "accepted"
    else if d = v then none else some "wrong-value"
  | none =>
    if k = .timeout && src = .cmdline then none     -- left open by the text
    else some "accepted"

structure Config where
  pcp       : Bool
  fanout    : Sources
  ctmo      : Sources
  utmo      : Sources
  ruser     : Option Str          -- -l (no environment variable)
  rcmd      : Sources
  misc      : Sources
  path      : Sources
  dfltFanout : Int
  dfltCtmo  : Int
  dfltUtmo  : Int
  dfltUser  : Str
  loginMax  : Nat
  avail     : List Str            -- transports that exist
  dfltRcmd  : Option Str
  dfltPath  : Str
  structOk  : Bool                -- target list given, operands fit, no unknown option / missing argument
  wTypes    : List Str := []      -- transports given for single targets (`rcmd_type:hosts` words of -w)
  wUsers    : List Str := []      -- remote users given for single targets (`user@hosts` words of -w)
  wMalformed : Bool := false      -- a -w word not of the form [rcmd_type:][user@]hosts
  deriving Repr

inductive Obs where
  | rejected (diag : Bool)
  | accepted (fanout ctmo utmo : Int) (ruser rcmd path : Str)
  | hang
  deriving Repr

def numClause (name : String) (k : Kind) (s : Sources) (dflt v : Int) : List String :=
  match s.chosen with
  | none => if v = dflt then [] else [s!"{name}:default:wrong-value"]
  | some (src, t) =>
    match numAccepted k src t v with
    | none => []
    | some what => [s!"{name}:{src.name}:{classify t}:{what}"]

def strClause (name : String) (s : Sources) (dflt : Str) (v : Str) : List String :=
  match s.chosen with
  | none => if v = dflt then [] else [s!"{name}:default:wrong-value"]
  | some (src, t) => if v = t then [] else [s!"{name}:{src.name}:wrong-value"]

/-- the transport that is in force -/
def Config.rcmdText (c : Config) : Option Str :=
  match c.rcmd.chosen with
  | some (_, t) => some t
  | none => c.dfltRcmd

/-- documented restriction of the exec transport: it has no connect phase, so a connect time-out other
    than the default is refused -/
def Config.execConflict (c : Config) : Bool :=
  c.rcmdText = some "exec".toList &&
  match c.ctmo.chosen with
  | some (_, t) => CInt.denotes t ≠ some c.dfltCtmo
  | none => false

/-- reasons that make a refusal admissible -/
def Config.refusable (c : Config) : Bool :=
  !c.structOk ||
  (match c.fanout.chosen with | some (_, t) => !numMustAccept .fanout t | none => false) ||
  (match c.ctmo.chosen with | some (_, t) => !numMustAccept .timeout t | none => false) ||
  (match c.utmo.chosen with | some (_, t) => !numMustAccept .timeout t | none => false) ||
  -- "a malformed numeric environment value is rejected": also when the command line overrides it
  (match c.fanout.env with | some t => !numMustAccept .fanout t | none => false) ||
  (match c.ctmo.env with | some t => !numMustAccept .timeout t | none => false) ||
  (match c.utmo.env with | some t => !numMustAccept .timeout t | none => false) ||
  (match c.ruser with | some u => decide (u.length + 1 > c.loginMax) | none => false) ||
  (match c.rcmd.chosen with | some (_, t) => !(c.avail.contains t) | none => false) ||
  c.wMalformed || c.wTypes.any (fun t => !(c.avail.contains t)) ||
  c.wUsers.any (fun u => decide (u.length + 1 > c.loginMax)) ||
  c.execConflict

/-- every clause of the property text that the observation violates -/
def judge (c : Config) : Obs → List String
  | .hang =>
    match c.fanout.chosen with
    | some (src, t) => [s!"fanout:{src.name}:{classify t}:hang"]
    | none => ["hang"]
  | .rejected diag =>
    (if c.refusable then [] else ["rejected-valid"]) ++ (if diag then [] else ["rejected-without-diagnostic"])
  | .accepted f ct ut ru rc pa =>
    (if c.structOk then [] else ["bad-command-line:accepted"]) ++
    numClause "fanout" .fanout c.fanout c.dfltFanout f ++
    numClause "connect_timeout" .timeout c.ctmo c.dfltCtmo ct ++
    numClause "command_timeout" .timeout c.utmo c.dfltUtmo ut ++
    (match c.ruser with
      | none => if ru = c.dfltUser then [] else ["ruser:default:wrong-value"]
      | some u =>
        (if u.length > c.loginMax then ["ruser:cmdline:overlong:accepted"] else []) ++
        (if ru = u then [] else ["ruser:cmdline:wrong-value"])) ++
    (match c.rcmd.chosen with
      | some (src, t) => if c.avail.contains t then [] else [s!"rcmd:{src.name}:unknown:accepted"]
      | none => []) ++
    (if c.wMalformed then ["hostspec:malformed:accepted"] else []) ++
    -- the same two rules for values given per target in the target list
    (if c.wTypes.any (fun t => !(c.avail.contains t)) then ["rcmd:wcoll:unknown:accepted"] else []) ++
    (if c.wUsers.any (fun u => decide (u.length > c.loginMax)) then ["ruser:wcoll:overlong:accepted"] else []) ++
    strClause "rcmd" c.rcmd (c.dfltRcmd.getD "none".toList) rc ++
    (if c.pcp then strClause "path" c.path c.dfltPath pa else [])

/-! ### the settings where they TAKE EFFECT (what a target is actually contacted with) -/

/-- the remote user in force for a target: the one the target names itself (`user@host`), else the setting —
    command line (-l), else the default — wherever the options stand on the command line -/
def userInForce (c : Config) (own : Option Str) : Str :=
  match own with
  | some u => u
  | none => c.ruser.getD c.dfltUser

/-- a target was contacted as `observed` -/
def judgeUser (c : Config) (own : Option Str) (observed : Str) : List String :=
  if observed = userInForce c own then []
  else
    match own, c.ruser with
    | some _, _ => ["ruser:target:not-used"]
    | none, some _ => ["ruser:cmdline:not-used"]
    | none, none => ["ruser:default:not-used"]

/-- the number of commands that were seen running at the same time must be what the fanout in force allows:
    the fanout itself when there are more targets than that (`targets = none`: the generator made sure), else the
    number of targets — whatever the resource limits of the process are (a fanout silently lowered because few file
    descriptors are available is not "the value given") -/
def judgeFanoutUsed (c : Config) (peak : Int) (targets : Option Int := none) : List String :=
  let inForce : Option Int := match c.fanout.chosen with
    | some (_, t) => CInt.denotes t
    | none => some c.dfltFanout
  let wanted (f : Int) : Int := match targets with | some n => min f n | none => f
  match inForce, c.fanout.chosen with
  | some f, some (src, _) => if peak = wanted f then [] else [s!"fanout:{src.name}:not-used"]
  | some f, none => if peak = wanted f then [] else ["fanout:default:not-used"]
  | none, _ => []

/-- a command that runs longer than `short` seconds and shorter than `long` seconds: was it cut short? -/
def judgeTimeoutUsed (c : Config) (short long : Int) (cut : Bool) : List String :=
  let inForce : Option Int := match c.utmo.chosen with
    | some (_, t) => CInt.denotes t
    | none => some c.dfltUtmo
  let name := match c.utmo.chosen with | some (src, _) => src.name | none => "default"
  match inForce with
  | some t =>
    -- 0 = no limit
    if t ≠ 0 && t ≤ short then (if cut then [] else [s!"command_timeout:{name}:not-applied"])
    else if t = 0 || t ≥ long then (if cut then [s!"command_timeout:{name}:other-limit-applied"] else [])
    else []
  | none => []

/-- the connect time-out in force and the name of its source -/
def ctmoInForce (c : Config) : Option Int × String :=
  match c.ctmo.chosen with
  | some (src, t) => (CInt.denotes t, src.name)
  | none => (some c.dfltCtmo, "default")

/-- a host whose answer to the connect handshake takes longer than `short` and less than `long` seconds: was it
    given up BEFORE it answered?  (0 = no limit) -/
def judgeConnectUsed (c : Config) (short long : Int) (cut : Bool) : List String :=
  match ctmoInForce c with
  | (some t, name) =>
    if t ≠ 0 && t ≤ short then (if cut then [] else [s!"connect_timeout:{name}:not-applied"])
    else if t = 0 || t ≥ long then (if cut then [s!"connect_timeout:{name}:other-limit-applied"] else [])
    else []
  | (none, _) => []

/-- a host that NEVER answers: it must be given up (unless the limit in force is 0), not before the limit and not
    later than the limit plus one watchdog period (plus `slack`); times in tenths of a second -/
def judgeConnectGiven (c : Config) (given : Bool) (waited wdog slack : Int) : List String :=
  match ctmoInForce c with
  | (some t, name) =>
    if t = 0 then []
    else if !given || waited > 10 * t + wdog + slack then [s!"connect_timeout:{name}:not-applied"]
    else if waited < 10 * t - 10 then [s!"connect_timeout:{name}:other-limit-applied"]
    else []
  | (none, _) => []

/-- the program that was actually run on the remote side of a copy -/
def judgePathUsed (c : Config) (observed : Str) : List String :=
  let inForce : Str := match c.path.chosen with
    | some (_, t) => t
    | none => c.dfltPath
  if observed = inForce then []
  else
    match c.path.chosen with
    | some (src, _) => [s!"path:{src.name}:not-used"]
    | none => ["path:default:not-used"]

/-- which of the two conflicting test modules must be active given the module-selection texts -/
def miscExpected (c : Config) : Str :=
  match c.misc.chosen with
  | none => ['A']
  | some (_, names) =>
    (((String.ofList names).splitOn ",").map String.toList |>.find? (fun n => n = ['A'] || n = ['B'])).getD ['A']

def judgeMisc (c : Config) (active : Str) : List String :=
  if active = miscExpected c then []
  else
    match c.misc.chosen with
    | some (src, _) => [s!"misc:{src.name}:wrong-module"]
    | none => ["misc:default:wrong-module"]

end PdshVerif.Opt.Spec
