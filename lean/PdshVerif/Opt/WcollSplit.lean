import PdshVerif.Opt.WcollAssemble

/-! `list_split (",", optarg)`: a comma-joined list of arguments is split back into exactly those
arguments (commas inside brackets do not split) — so the hypothesis "the options stand for the
sources" of `assemble_refines` holds for every command line written that way -/
namespace PdshVerif.Opt.Wcoll
open PdshVerif.Opt

/-- bracket level after a character -/
def lvlAfter (c : Char) (lvl : Int) : Int := if c = '[' then lvl + 1 else if c = ']' then lvl - 1 else lvl

/-- scan a piece from bracket level `lvl`: `none` if a comma is met at level 0, else the level at
its end -/
def scanPiece : Str → Int → Option Int
  | [], lvl => some lvl
  | c :: r, lvl => if lvl = 0 ∧ c = ',' then none else scanPiece r (lvlAfter c lvl)

/-- an argument that survives `list_split`: non-empty, no comma outside brackets, brackets back at
level 0 at its end -/
def pieceOK (p : Str) : Bool := !p.isEmpty && scanPiece p 0 == some 0

theorem splitGo_piece : ∀ (p : Str) (lvl lvl' : Int) (acc rest : Str), scanPiece p lvl = some lvl' →
    splitGo [','] (p ++ rest) lvl acc = splitGo [','] rest lvl' (p.reverse ++ acc)
  | [], lvl, lvl', acc, rest, h => by
    simp only [scanPiece, Option.some.injEq] at h
    subst h; rfl
  | c :: r, lvl, lvl', acc, rest, h => by
    simp only [scanPiece] at h
    split at h
    · simp at h
    · rename_i hno
      have hno' : ¬ (lvl = 0 ∧ c ∈ [',']) := by simpa using hno
      simp only [List.cons_append, splitGo, if_neg hno']
      have := splitGo_piece r (lvlAfter c lvl) lvl' (c :: acc) rest h
      simp only [lvlAfter] at this
      rw [this]
      simp

def joinComma : List Str → Str
  | [] => []
  | [a] => a
  | a :: b :: r => a ++ ',' :: joinComma (b :: r)

/-- `list_split` of a comma-joined list of good pieces gives the pieces back -/
theorem listSplit_join : ∀ (ps : List Str), (∀ p ∈ ps, pieceOK p = true) →
    listSplit [','] (joinComma ps) = ps
  | [], _ => rfl
  | [a], h => by
    have ha := h a (by simp)
    simp only [pieceOK, Bool.and_eq_true, Bool.not_eq_eq_eq_not, Bool.not_true,
      List.isEmpty_eq_false_iff, beq_iff_eq] at ha
    unfold listSplit
    simp only [joinComma]
    have := splitGo_piece a 0 0 [] [] ha.2
    simp only [List.append_nil] at this
    rw [this]
    simp [splitGo, ha.1]
  | a :: b :: r, h => by
    have ha := h a (by simp)
    simp only [pieceOK, Bool.and_eq_true, Bool.not_eq_eq_eq_not, Bool.not_true,
      List.isEmpty_eq_false_iff, beq_iff_eq] at ha
    have ih := listSplit_join (b :: r) fun p hp => h p (by simp [hp])
    unfold listSplit at ih ⊢
    simp only [joinComma]
    rw [splitGo_piece a 0 0 [] _ ha.2]
    simp only [List.append_nil, splitGo, List.mem_singleton, and_self, if_true, List.isEmpty_reverse]
    have : a.isEmpty = false := by simpa using ha.1
    simp only [this, Bool.false_eq_true, if_false, List.reverse_reverse, ih]

/-- a `-w` option whose argument is the comma-joined list of good arguments stands for exactly
those arguments -/
theorem optArgs_w_join (ps : List Str) (h : ∀ p ∈ ps, pieceOK p = true) (hd : joinComma ps ≠ ['-']) :
    optArgs (.w (joinComma ps)) = ps := by
  simp only [optArgs, argsOf, if_neg hd]
  exact listSplit_join ps h

/-- a `-x` option whose argument is the comma-joined list of `^F` pieces stands for `-^F` ... -/
theorem optArgs_x_join (ps : List Str) (h : ∀ p ∈ ps, pieceOK p = true) :
    optArgs (.x (joinComma ps)) = ps.map ('-' :: ·) := by
  simp only [optArgs, listSplit_join ps h]

end PdshVerif.Opt.Wcoll
