/-
  C02: the two formulations of the specification agree.  The ORACLE engine (`pdshmodel hl xspec`) evaluates
  `ExcludeSpec.final` on items that carry TEXTS; the composition theorem `cliWords_correct` speaks about
  `specWords` on words by meaning.  For a command line whose words the text-level reading (`ExcludeSpec.names`,
  C01's `Spec.classify`) reads as what they mean, the two are the same list.
-/
import PdshVerif.Opt.ExcludeOrder
import PdshVerif.Opt.ExcludeSpec

namespace PdshVerif.Opt.Exclude
open PdshVerif.Hostlist

/-- the item the check hands to the specification engine for a word -/
def CW.item : CW → ExcludeSpec.Item
  | .tgt w => .tgt (Spec.renderWord w)
  | .xcl w => .xcl (Spec.renderWord w)
  | .re false p => .keep p
  | .re true p => .drop p

/-- the specification's view of the world: the same files, the same regex table -/
def specEnv (env : Env) : ExcludeSpec.Env := { files := env.files, rematch := env.rematch }

/-- the text-level reading gives every target and exclusion word its meaning -/
def ReadsRight (ws : List CW) : Prop :=
  (∀ w ∈ tgts ws, ExcludeSpec.names (Spec.renderWord w) = some w.expand₁) ∧
  (∀ w ∈ xcls ws, ExcludeSpec.names (Spec.renderWord w) = some w.expand₁)

theorem assembled_words (env : Env) : ∀ (ws : List CW),
    (∀ w ∈ tgts ws, ExcludeSpec.names (Spec.renderWord w) = some w.expand₁) →
    ExcludeSpec.assembled (specEnv env) (ws.map CW.item) = some (Spec.expand₁ (tgts ws))
  | [], _ => rfl
  | c :: ws, h => by
    cases c with
    | tgt w =>
      have ih := assembled_words env ws (fun x hx => h x (by simp [tgts, hx]))
      unfold ExcludeSpec.assembled at ih ⊢
      simp only [List.map_cons, ExcludeSpec.collect, CW.item, ExcludeSpec.tgtNames, h w (by simp [tgts]), ih, tgts,
        Spec.expand₁, List.flatMap_cons]
    | xcl w =>
      have ih := assembled_words env ws (fun x hx => h x (by simpa [tgts] using hx))
      unfold ExcludeSpec.assembled at ih ⊢
      simp only [List.map_cons, ExcludeSpec.collect, CW.item, ExcludeSpec.tgtNames, ih, tgts, List.nil_append]
    | re ex p =>
      have ih := assembled_words env ws (fun x hx => h x (by simpa [tgts] using hx))
      unfold ExcludeSpec.assembled at ih ⊢
      cases ex <;>
        simp only [List.map_cons, ExcludeSpec.collect, CW.item, ExcludeSpec.tgtNames, ih, tgts, List.nil_append]

theorem excluded_words (env : Env) : ∀ (ws : List CW),
    (∀ w ∈ xcls ws, ExcludeSpec.names (Spec.renderWord w) = some w.expand₁) →
    ExcludeSpec.excluded (specEnv env) (ws.map CW.item) = some (Spec.expand₁ (xcls ws))
  | [], _ => rfl
  | c :: ws, h => by
    cases c with
    | xcl w =>
      have ih := excluded_words env ws (fun x hx => h x (by simp [xcls, hx]))
      unfold ExcludeSpec.excluded at ih ⊢
      simp only [List.map_cons, ExcludeSpec.collect, CW.item, ExcludeSpec.xclNames, h w (by simp [xcls]), ih, xcls,
        Spec.expand₁, List.flatMap_cons]
    | tgt w =>
      have ih := excluded_words env ws (fun x hx => h x (by simpa [xcls] using hx))
      unfold ExcludeSpec.excluded at ih ⊢
      simp only [List.map_cons, ExcludeSpec.collect, CW.item, ExcludeSpec.xclNames, ih, xcls, List.nil_append]
    | re ex p =>
      have ih := excluded_words env ws (fun x hx => h x (by simpa [xcls] using hx))
      unfold ExcludeSpec.excluded at ih ⊢
      cases ex <;>
        simp only [List.map_cons, ExcludeSpec.collect, CW.item, ExcludeSpec.xclNames, ih, xcls, List.nil_append]

/-- one host against all filters: the specification's conjunction is `keepAll` -/
theorem passes_words (env : Env) (h : Str) : ∀ (ws : List CW),
    (∀ p ∈ regs ws, (env.rematch p.2 h).isSome = true) →
    ExcludeSpec.passes (specEnv env) h (ws.map CW.item) = some (keepAll env (regs ws) h)
  | [], _ => rfl
  | c :: ws, ho => by
    cases c with
    | tgt w =>
      have ih := passes_words env h ws (fun p hp => ho p (by simpa [regs] using hp))
      simp only [List.map_cons, ExcludeSpec.passes, CW.item, ExcludeSpec.passOne, ih, regs, Bool.true_and]
    | xcl w =>
      have ih := passes_words env h ws (fun p hp => ho p (by simpa [regs] using hp))
      simp only [List.map_cons, ExcludeSpec.passes, CW.item, ExcludeSpec.passOne, ih, regs, Bool.true_and]
    | re ex p =>
      have ih := passes_words env h ws (fun q hq => ho q (by simp [regs, hq]))
      obtain ⟨b, hb0⟩ := Option.isSome_iff_exists.mp (ho (ex, p) (by simp [regs]))
      have hb : env.rematch p h = some b := hb0
      have hb' : (specEnv env).rematch p h = some b := hb
      cases ex
      · simp only [List.map_cons, ExcludeSpec.passes, CW.item, ExcludeSpec.passOne, hb', ih, regs, keepAll,
          List.all_cons, keepOf_keep hb]
      · simp only [List.map_cons, ExcludeSpec.passes, CW.item, ExcludeSpec.passOne, hb', Option.map_some, ih,
          regs, keepAll, List.all_cons, keepOf_drop hb]

theorem filterAll_words (env : Env) (ws : List CW) : ∀ (l : List Str),
    (∀ p ∈ regs ws, ∀ h ∈ l, (env.rematch p.2 h).isSome = true) →
    ExcludeSpec.filterAll (specEnv env) (ws.map CW.item) l = some (l.filter (keepAll env (regs ws)))
  | [], _ => rfl
  | h :: t, ho => by
    have ih := filterAll_words env ws t (fun p hp x hx => ho p hp x (by simp [hx]))
    have hp := passes_words env h ws (fun p hp => ho p hp h (by simp))
    simp only [ExcludeSpec.filterAll, hp, ih, List.filter_cons]
    cases keepAll env (regs ws) h <;> rfl

/-- THE ORACLE COMPUTES THE THEOREM'S RIGHT-HAND SIDE: on a command line whose words the text-level reading reads
    as what they mean (and with a regex table that answers for every target), the executable specification
    `ExcludeSpec.final` — what `pdshmodel hl xspec` prints and the real pdsh is compared with — is `specWords` -/
theorem final_eq_specWords (env : Env) (ws : List CW) (hr : ReadsRight ws)
    (ho : ∀ p ∈ regs ws, ∀ h ∈ Spec.expand₁ (tgts ws), (env.rematch p.2 h).isSome = true) :
    ExcludeSpec.final (specEnv env) (ws.map CW.item) = .hosts (specWords env ws) := by
  unfold ExcludeSpec.final
  rw [assembled_words env ws hr.1, excluded_words env ws hr.2]
  simp only
  rw [filterAll_words env ws _ (fun p hp h hh => ho p hp h (List.mem_filter.mp hh).1)]
  rfl

end PdshVerif.Opt.Exclude
