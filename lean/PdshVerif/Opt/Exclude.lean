/-
  C02  How pdsh gets from its -w / -x arguments to the list of hosts it contacts
  (opt.c `wcoll_args_process`, `wcoll_arg_process`, `wcoll_append_excluded`, `list_push_hostlist`,
  `wcoll_apply_excluded`, `wcoll_apply_regex`, `hostlist_filter_regex`, tail of `opt_args`,
  `wcoll_expand`; hostlist.c `hostlist_ranged_string` as a text, `hostlist_delete` … through the
  editable-list model of C16).

  Outside (other properties): HOW a `^file` is read (C10 — a file is the list of expressions
  `read_wcoll` pushes), what `rcmd_type:` / `user@` register (C09), POSIX regex matching (an oracle
  function `pattern → host → Bool`, produced from libc `regcomp/regexec` by harness/regex_oracle.c).

  Switches: D1 `cfg.fixDeleteAll` (`hostlist_delete` erases every occurrence of a name),
            D2 `cfg.fixPushLoop` (the buffer of `list_push_hostlist` grows until the text fits — /repo b20e58e —
            instead of `n*=2 < 0x7fffff`, which never grows it).
-/
import PdshVerif.Hostlist.Uniq
import PdshVerif.Hostlist.Cli
import PdshVerif.Opt.Wcoll

namespace PdshVerif.Opt.Exclude
open PdshVerif.Hostlist
open PdshVerif.Opt.Wcoll (listSplit hostPart isspaceC)

/-! ### `hostlist_ranged_string` (the text it would produce with room to spare) -/
/-- `hostrange_numstr` -/
def numstr (r : HRange) : Str :=
  if r.single then [] else fmtPad r.width r.lo ++ (if r.lo < r.hi then '-' :: fmtPad r.width r.hi else [])

/-- `hostrange_within_range` -/
def withinRange (h1 h2 : HRange) : Bool := prefixCmp h1 h2 = 0 && !(h1.single || h2.single)

/-- the records following `prev` that go into the same bracket, and the rest -/
def takeGroup (prev : HRange) : List HRange → List HRange × List HRange
  | [] => ([], [])
  | r :: rest =>
    if withinRange r prev then
      match takeGroup r rest with
      | (g, l) => (r :: g, l)
    else ([], r :: rest)

theorem takeGroup_length (prev : HRange) : ∀ l, (takeGroup prev l).2.length ≤ l.length
  | [] => by simp [takeGroup]
  | r :: rest => by
    unfold takeGroup
    split
    · have := takeGroup_length r rest
      generalize takeGroup r rest = p at this
      obtain ⟨g, l⟩ := p
      simp only [List.length_cons] at this ⊢
      omega
    · simp

/-- `_get_bracketed_list` for the group that starts with `h` -/
def groupText (h : HRange) (more : List HRange) (next : Option HRange) : Str :=
  let needed : Bool := h.count > 1 || (match more.head?, next with
    | some m, _ => withinRange h m
    | none, some n => withinRange h n
    | none, none => false)
  if needed then h.pre ++ '[' :: (joinComma ((h :: more).map numstr)) ++ [']']
  else h.pre ++ numstr h
where
  joinComma : List Str → Str
    | [] => []
    | [x] => x
    | x :: y :: r => x ++ ',' :: joinComma (y :: r)

/-- the groups of `hostlist_ranged_string`, in order -/
def rangedGroups : Nat → List HRange → List Str
  | 0, _ => []
  | _, [] => []
  | f + 1, h :: rest =>
    match takeGroup h rest with
    | (g, l) => groupText h g l.head? :: rangedGroups f l

/-- `hostlist_ranged_string(hl, ∞, buf)` -/
def rangedText (rs : List HRange) : Str :=
  groupText.joinComma (rangedGroups (rs.length + 1) rs)

/-! ### `list_push_hostlist` -/
/-- `(size_t) -1` (LP64) -/
def SIZE_MAX : Nat := ULONG_MAX

/-- the loop of /repo b20e58e (F02-XFILE-4MIB repaired) from a FAILED attempt with a block of `n` bytes on:
      `while (hostlist_ranged_string (hl, n-1, s) < 0) { if (n > SIZE_MAX/2) errx (..); n *= 2; Realloc (&s, n); }`
    NO ceiling: the block doubles until the text fits; the only other way out is `errx` when `n` cannot be doubled
    in a `size_t`.  The answer is the capacity of the block when the loop is left — by `errx` it is the block of
    the failed attempt (the text does NOT fit it), otherwise the first block the text fits.  `none` = fuel exhausted. -/
def growLoop (len : Nat) : Nat → Nat → Option Nat
  | 0, _ => none
  | f + 1, n =>
    if n > SIZE_MAX / 2 then some n
    else if len ≥ n * 2 - 1 then growLoop len f (n * 2) else some (n * 2)

/-- rounds the driver gives `growLoop`: 4096 = 2^12 doubles 51 times to 2^63, the 52nd round is the `errx` -/
def GROW_FUEL : Nat := 52

/-- the doubling loop: `len` = length of the ranged text; the call `hostlist_ranged_string(hl, n-1, s)`
    fails iff the text and its NUL do not fit n-1 bytes.  The answer is the CAPACITY of the block `s` when
    the loop is left.  `fix` (D2 repaired; probed on the real pdsh): the loop of b20e58e, `growLoop`.
    DEFECT D2 (`fix = false`): `n*=2 < 0x7fffff` is `n *= (2 < 0x7fffff)`, i.e. `n *= 1`, a non-zero value: the
    buffer never grows and the loop never ends.   `none` = fuel exhausted. -/
def pushLoop (fix : Bool) (len : Nat) : Nat → Nat → Option Nat
  | 0, _ => none
  | f + 1, n =>
    if len ≥ n - 1 then
      (if fix then growLoop len GROW_FUEL n
       else (if n * 1 ≠ 0 then pushLoop fix len f (n * 1) else some n))
    else some n

/-- rounds of the outer loop (only the unchanged D2 variant uses more than one) -/
def PUSH_FUEL : Nat := 13

/-- the loop as it was between 674182b (D2 repaired) and b20e58e: `(n *= 2) < 0x7fffff` as a CEILING, `Realloc` as
    the loop body — when the ceiling ends the loop the block still has the size of the last, failed, attempt (2^22)
    and holds its cut text (F02-XFILE-4MIB; kept for the witness theorem `exclusion_file_cut`, not executed) -/
def pushLoopCeil (len : Nat) : Nat → Nat → Option Nat
  | 0, _ => none
  | f + 1, n =>
    if len ≥ n - 1 then (if n * 2 < 0x7fffff then pushLoopCeil len f (n * 2) else some n)
    else some n

/-! ### results -/
inductive Res where
  /-- the hosts pdsh goes on with (empty: "no remote hosts specified") -/
  | ok (hosts : List Str)
  /-- `opt->wcoll` stayed NULL -/
  | nohosts
  /-- `errx` -/
  | fatal (what : String)
  /-- pdsh never gets out of `opt_args` -/
  | diverge
  | ub (what : String)
  /-- the regex oracle was not asked about this pair (check machinery) -/
  | tablemiss (pat host : Str)
  deriving Repr, DecidableEq

/-- what the model is told about the world -/
structure Env where
  /-- readable files named by `^file`: the expressions `read_wcoll` pushes, in order (C10) -/
  files : List (Str × List Str)
  /-- `regexec(pattern, host) == 0` -/
  rematch : Str → Str → Option Bool
  /-- `regcomp` refuses the pattern -/
  badre : Str → Bool

structure St where
  /-- `opt->wcoll` -/
  wcoll : Option EL := none
  /-- `exclude_list`: `list_push` puts a new entry in FRONT -/
  excl : List Str := []
  /-- `regex_list` (exclude?, pattern), newest in front -/
  regex : List (Bool × Str) := []

abbrev XM := Except Res

/-- `hostlist_push(hl, s)` inside pdsh: a diagnostic ends the process -/
def pushX (cfg : Cfg) (e : EL) (s : Str) : XM EL :=
  match pushE cfg e s with
  | .ok (_, f, e') => if f = Fatal.none then .ok e' else .error (.fatal "hostlist")
  | .error w => if w = "diverge" then .error .diverge else .error (.ub w)

/-- the hostlist `read_wcoll` returns -/
def readHl (cfg : Cfg) : List Str → EL → XM EL
  | [], e => .ok e
  | x :: xs, e =>
    match pushX cfg e x with
    | .ok e' => readHl cfg xs e'
    | .error r => .error r

/-- `list_push_hostlist`: the entry pushed onto `exclude_list` — the WHOLE ranged text of the file, or `errx`
    ("exclusion list too long": the loop was left with a block the text does not fit, which only `growLoop`'s
    `n > SIZE_MAX/2` exit does), or no return at all (unchanged D2). -/
def pushHostlist (cfg : Cfg) (hl : EL) : XM Str :=
  let text := rangedText hl.ranges
  match pushLoop cfg.fixPushLoop text.length PUSH_FUEL 4096 with
  | none => .error .diverge
  | some n => if text.length ≥ n - 1 then .error (.fatal "exclusion list too long") else .ok text

/-- `list_push_hostlist` with the ceiling (674182b .. 95b0fc1): from 2^22 - 1 bytes on the entry is the CUT text of
    the last attempt, the hosts behind the cut are not excluded; what the cut text denotes is not modelled (`ub`) -/
def pushHostlistCeil (hl : EL) : XM Str :=
  let text := rangedText hl.ranges
  match pushLoopCeil text.length PUSH_FUEL 4096 with
  | none => .error .diverge
  | some n => if text.length ≥ n - 1 then .error (.ub "exclusion text cut at 4 MiB") else .ok text

/-- `list_push_hostlist` of the repaired code (what `pushHostlist` is for every `cfg` with D2 repaired) -/
def pushHostlistR (hl : EL) : XM Str := pushHostlist Cfg.repaired hl

/-- `wcoll_arg_process` -/
def argProcess (cfg : Cfg) (env : Env) (st : St) (arg : Str) : XM St :=
  let excluded : Bool := arg.head? == some '-'
  let p := (if excluded then arg.drop 1 else arg).dropWhile isspaceC
  match p with
  | '^' :: file =>
    match env.files.lookup file with
    | none => .error (.fatal "wcoll file")
    | some exprs =>
      match readHl cfg exprs EL.new with
      | .error r => .error r
      | .ok hl =>
        if excluded then
          match pushHostlist cfg hl with
          | .ok s => .ok { st with excl := s :: st.excl }
          | .error r => .error r
        else .ok { st with wcoll := some (pushListE (st.wcoll.getD EL.new) hl.toHL) }
  | '/' :: re =>
    let re' := if re.getLast? = some '/' then re.dropLast else re
    if env.badre re' then .error (.fatal "regex") else .ok { st with regex := (excluded, re') :: st.regex }
  | _ =>
    if excluded then .ok { st with excl := p :: st.excl }
    else
      match hostPart p with
      | none => .error (.fatal "host spec")
      | some h =>
        match pushX cfg (st.wcoll.getD EL.new) h with
        | .ok e => .ok { st with wcoll := some e }
        | .error r => .error r

def argsProcess (cfg : Cfg) (env : Env) : List Str → St → XM St
  | [], st => .ok st
  | a :: as, st =>
    match argProcess cfg env st a with
    | .ok st' => argsProcess cfg env as st'
    | .error r => .error r

/-- a command-line event -/
inductive Ev where
  | w (optarg : Str)
  | x (optarg : Str)
  deriving Repr, DecidableEq

/-- the words `wcoll_arg_process` sees for one option, in order -/
def evWords : Ev → List Str
  | .w a => if a = ['-'] then [['^', '-']] else listSplit [','] a
  | .x a => (listSplit [','] a).flatMap fun s => listSplit [','] ('-' :: s)

/-! ### applying the exclusions and filters -/
/-- `hostlist_delete(hl, hosts)` inside pdsh (a diagnostic ends the process) -/
def deleteX (cfg : Cfg) (e : EL) (s : Str) : XM EL :=
  match create cfg s with
  | .null _ f => if f = Fatal.none then .ok e else .error (.fatal "hostlist")
  | .ub w => .error (.ub w)
  | .diverge => .error .diverge
  | .ok t =>
    match popAll cfg (t.nhosts.toNat + 1) (pushListE EL.new t) with
    | .error w => .error (.ub w)
    | .ok names =>
      .ok (names.foldl (fun acc x => (deleteNameE cfg acc x).2) e)

/-- `wcoll_apply_excluded` -/
def applyExcluded (cfg : Cfg) : List Str → EL → XM EL
  | [], e => .ok e
  | a :: as, e =>
    match deleteX cfg e a with
    | .ok e' => applyExcluded cfg as e'
    | .error r => .error r

/-- the loop of `hostlist_filter_regex` on iterator slot 0 -/
def filterLoop (cfg : Cfg) (m : Str → Option Bool) (exclude : Bool) (pat : Str) : Nat → EL → XM EL
  | 0, _ => .error (.ub "hostlist_filter_regex: out of fuel")
  | f + 1, e =>
    match itNext cfg e 0 with
    | .error w => .error (.ub w)
    | .ok (none, e1) => .ok e1
    | .ok (some host, e1) =>
      match m host with
      | none => .error (.tablemiss pat host)
      | some matched =>
        if (exclude && matched) || (!exclude && !matched) then
          match itRemove cfg e1 0 with
          | .error w => .error (.ub w)
          | .ok e2 => filterLoop cfg m exclude pat f e2
        else filterLoop cfg m exclude pat f e1

/-- `hostlist_filter_regex` -/
def filterRegex (cfg : Cfg) (m : Str → Option Bool) (exclude : Bool) (pat : Str) (e : EL) : XM EL :=
  let n := e.nhosts.toNat + 2
  match filterLoop cfg m exclude pat (n * n) (itNew e 0) with
  | .ok e1 => .ok (itFree e1 0)
  | .error r => .error r

/-- `wcoll_apply_regex` -/
def applyRegex (cfg : Cfg) (env : Env) : List (Bool × Str) → EL → XM EL
  | [], e => .ok e
  | (ex, pat) :: rs, e =>
    match filterRegex cfg (env.rematch pat) ex pat e with
    | .ok e' => applyRegex cfg env rs e'
    | .error r => .error r

/-- `wcoll_apply_excluded` with F02-2BR repaired: the argument is parsed, and every first-level name
    (popped) goes through `hostlist_delete`, which expands a second pair of brackets -/
def applyExcluded2 (cfg : Cfg) : List Str → EL → XM EL
  | [], e => .ok e
  | a :: as, e =>
    match create cfg a with
    | .null _ f => if f = Fatal.none then applyExcluded2 cfg as e else .error (.fatal "hostlist")
    | .ub w => .error (.ub w)
    | .diverge => .error .diverge
    | .ok t =>
      match popAll cfg (t.nhosts.toNat + 1) (pushListE EL.new t) with
      | .error w => .error (.ub w)
      | .ok names =>
        match applyExcluded cfg names e with
        | .ok e' => applyExcluded2 cfg as e'
        | .error r => .error r

/-- record objects for an array of ranges -/
def numbered : Nat → List HRange → List RObj
  | _, [] => []
  | i, r :: rs => ⟨i, r⟩ :: numbered (i + 1) rs

/-- the list object `wcoll_expand` leaves in `opt->wcoll` -/
def ofHL (h : HL) : EL := ⟨numbered 0 h.ranges.toList, h.nhosts, h.ranges.toList.length, []⟩

/-- the tail of `opt_args`, F02-2BR repaired: re-expansion first -/
def finish2 (cfg : Cfg) (env : Env) (e : EL) (excl : List Str) (regex : List (Bool × Str)) : Res :=
  match wcollExpand cfg e.toHL with
  | .null _ _ => .fatal "hostlist"
  | .ub w => .ub w
  | .diverge => .diverge
  | .ok h =>
    match applyExcluded2 cfg excl (ofHL h) with
    | .error r => r
    | .ok e1 =>
      match applyRegex cfg env regex e1 with
      | .error r => r
      | .ok e2 => .ok e2.hosts

/-- the tail of `opt_args`.
    FINDING F02-2BR: as found, exclusions and filters act on the FIRST-level names and the second
    pair of brackets is expanded afterwards (`-w foo[1-2]-[0-1] -x foo1-0` contacts foo1-0). -/
def finish (cfg : Cfg) (env : Env) (st : St) : Res :=
  match st.wcoll with
  | none => .nohosts
  | some e =>
    if cfg.fix2Br then finish2 cfg env e st.excl st.regex else
    match applyExcluded cfg st.excl e with
    | .error r => r
    | .ok e1 =>
      match applyRegex cfg env st.regex e1 with
      | .error r => r
      | .ok e2 =>
        match wcollExpand cfg e2.toHL with
        | .ok h => .ok h.hosts
        | .null _ _ => .fatal "hostlist"
        | .ub w => .ub w
        | .diverge => .diverge

/-- the hosts pdsh goes on with for these options, in command-line order -/
def cliFinal (cfg : Cfg) (env : Env) (evs : List Ev) : Res :=
  match argsProcess cfg env (evs.flatMap evWords) {} with
  | .error r => r
  | .ok st => finish cfg env st

/-- `opt_args` with the `WCOLL` environment variable (`wcollEnv`: the file it names): it is read —
    like `^file`, by `read_wcoll` — only when no option produced a working collective, and BEFORE the
    exclusions and filters are applied.  (Correspondence only today: `exclusion_correct` speaks about
    the target words of `-w`; the hosts of the file are C10's `file_hosts_spec`.) -/
def cliFinalW (cfg : Cfg) (env : Env) (wcollEnv : Option Str) (evs : List Ev) : Res :=
  match argsProcess cfg env (evs.flatMap evWords) {} with
  | .error r => r
  | .ok st =>
    match st.wcoll, wcollEnv with
    | none, some file =>
      match env.files.lookup file with
      | none => .fatal "wcoll file"
      | some exprs =>
        match readHl cfg exprs EL.new with
        | .error r => r
        | .ok hl => finish cfg env { st with wcoll := some hl }
    | _, _ => finish cfg env st

/-- without `WCOLL` this is `cliFinal` -/
theorem cliFinalW_none (cfg : Cfg) (env : Env) (evs : List Ev) : cliFinalW cfg env none evs = cliFinal cfg env evs := by
  unfold cliFinalW cliFinal
  cases argsProcess cfg env (evs.flatMap evWords) {} with
  | error r => rfl
  | ok st =>
    obtain ⟨w, x, r⟩ := st
    cases w <;> rfl

end PdshVerif.Opt.Exclude
