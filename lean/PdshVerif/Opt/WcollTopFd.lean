import PdshVerif.Opt.Wcoll

/-! GHOST: the streams `read_wcoll` opens itself (`fopen (file, "r")` for a `^file` / `-^file` argument and for
WCOLL).  THE CODE (since /repo 8d15944: `if (f == NULL) fclose (fp);` after `wcoll_ctx_read_stream`) closes every
one of them before it returns: that is `leak = false`, the form the driver runs unless the check's probe finds
the older reader.  `leak = true` is `read_wcoll` BEFORE that commit (F10-TOPFD: the stream was never closed, one
descriptor per file source stayed open until pdsh exits); it is kept so that a tree that loses the `fclose` again
is still described exactly (`top_streams_leak_witness`) and reported with the command line that exhausts the
descriptors.  The count is threaded NEXT to the option processing of `Opt/Wcoll.lean` and erasable: the first
component is `assembleOpts` itself. -/
namespace PdshVerif.Opt.Wcoll

/-- does `wcoll_arg_process (arg)` reach `read_wcoll (file, NULL)` with a file it can open? -/
def topOpens (fs : FS) (arg : Str) : Nat :=
  let excluded : Bool := arg.head? == some '-'
  match (if excluded then arg.drop 1 else arg).dropWhile isspaceC with
  | '^' :: file => if file ≠ ['-'] ∧ canRead fs file then 1 else 0
  | _ => 0

/-- streams left open by one argument -/
def leftOpen (leak : Bool) (fs : FS) (st : St) (arg : Str) : Nat :=
  if st.fatal || !leak then 0 else topOpens fs arg

def argProcessT (leak : Bool) (mode : LineMode) (fs : FS) (s : St × Nat) (arg : Str) : St × Nat :=
  (argProcess mode fs s.1 arg, s.2 + leftOpen leak fs s.1 arg)

def optArgsOf : Opt → List Str
  | .w a => if a = ['-'] then [['^', '-']] else listSplit [','] a
  | .x a => (listSplit [','] a).map ('-' :: ·)

def optProcessT (leak : Bool) (mode : LineMode) (fs : FS) (s : St × Nat) (o : Opt) : St × Nat :=
  (optArgsOf o).foldl (argProcessT leak mode fs) s

/-- `assembleOpts` with the ghost count of streams `read_wcoll` left open -/
def assembleOptsT (leak : Bool) (mode : LineMode) (fs : FS) (stdin : Str) (opts : List Opt)
    (wcollEnv : Option Str) : St × Nat :=
  let s := opts.foldl (optProcessT leak mode fs) ({ stdin := stdin }, 0)
  if s.1.fatal || s.1.created then s
  else match wcollEnv with
    | none => s
    | some f => (absorb s.1 false (readWcoll mode fs s.1.stdin f),
        s.2 + (if leak ∧ f ≠ ['-'] ∧ canRead fs f then 1 else 0))

theorem foldl_argProcessT_fst (leak : Bool) (mode : LineMode) (fs : FS) :
    ∀ (args : List Str) (s : St × Nat),
      (args.foldl (argProcessT leak mode fs) s).1 = args.foldl (argProcess mode fs) s.1
  | [], _ => rfl
  | a :: as, s => by
    simp only [List.foldl_cons]
    rw [foldl_argProcessT_fst leak mode fs as]
    rfl

theorem optProcessT_fst (leak : Bool) (mode : LineMode) (fs : FS) (s : St × Nat) (o : Opt) :
    (optProcessT leak mode fs s o).1 = optProcess mode fs s.1 o := by
  cases o with
  | w a =>
    simp only [optProcessT, optArgsOf, optProcess, optargProcess]
    split
    · simp [argProcessT]
    · exact foldl_argProcessT_fst leak mode fs _ s
  | x a =>
    simp only [optProcessT, optArgsOf, optProcess, xargProcess]
    rw [foldl_argProcessT_fst, List.foldl_map]

theorem foldl_optProcessT_fst (leak : Bool) (mode : LineMode) (fs : FS) :
    ∀ (opts : List Opt) (s : St × Nat),
      (opts.foldl (optProcessT leak mode fs) s).1 = opts.foldl (optProcess mode fs) s.1
  | [], _ => rfl
  | o :: os, s => by
    simp only [List.foldl_cons]
    rw [foldl_optProcessT_fst leak mode fs os, optProcessT_fst]

/-- the ghost is erasable: the option processing is `assembleOpts` -/
theorem assembleOptsT_fst (leak : Bool) (mode : LineMode) (fs : FS) (stdin : Str) (opts : List Opt)
    (env : Option Str) :
    (assembleOptsT leak mode fs stdin opts env).1 = assembleOpts mode fs stdin opts env := by
  simp only [assembleOptsT, assembleOpts]
  rw [← foldl_optProcessT_fst leak mode fs opts ({ stdin := stdin }, 0)]
  split
  · rfl
  · split <;> rfl

theorem foldl_argProcessT_closed (mode : LineMode) (fs : FS) :
    ∀ (args : List Str) (s : St × Nat), (args.foldl (argProcessT false mode fs) s).2 = s.2
  | [], _ => rfl
  | a :: as, s => by
    simp only [List.foldl_cons]
    rw [foldl_argProcessT_closed mode fs as]
    simp [argProcessT, leftOpen]

theorem foldl_optProcessT_closed (mode : LineMode) (fs : FS) :
    ∀ (opts : List Opt) (s : St × Nat), (opts.foldl (optProcessT false mode fs) s).2 = s.2
  | [], _ => rfl
  | o :: os, s => by
    simp only [List.foldl_cons]
    rw [foldl_optProcessT_closed mode fs os]
    exact foldl_argProcessT_closed mode fs _ s

end PdshVerif.Opt.Wcoll
