/-
  C02  The list OBJECT `opt_args` leaves in `opt->wcoll` (not only the names it denotes), so that what `dsh()` does with
  it composes: `dsh()` walks it with a fresh iterator (`hostlist_next` until NULL, C01 `iter_all`), the i-th name becomes
  `t[i].host` and `t[i].nodeid = i` — the rank of a host is its index in the final list.
-/
import PdshVerif.Opt.ExcludeCompose
import PdshVerif.Hostlist.LemmasIter

namespace PdshVerif.Opt.Exclude
open PdshVerif.Hostlist

/-- the tail of `opt_args` (as `finish`), answering the list object -/
def finishL (cfg : Cfg) (env : Env) (st : St) : Except Res HL :=
  match st.wcoll with
  | none => .error .nohosts
  | some e =>
    if cfg.fix2Br then
      match wcollExpand cfg e.toHL with
      | .null _ _ => .error (.fatal "hostlist")
      | .ub w => .error (.ub w)
      | .diverge => .error .diverge
      | .ok h =>
        match applyExcluded2 cfg st.excl (ofHL h) with
        | .error r => .error r
        | .ok e1 =>
          match applyRegex cfg env st.regex e1 with
          | .error r => .error r
          | .ok e2 => .ok e2.toHL
    else
    match applyExcluded cfg st.excl e with
    | .error r => .error r
    | .ok e1 =>
      match applyRegex cfg env st.regex e1 with
      | .error r => .error r
      | .ok e2 =>
        match wcollExpand cfg e2.toHL with
        | .ok h => .ok h
        | .null _ _ => .error (.fatal "hostlist")
        | .ub w => .error (.ub w)
        | .diverge => .error .diverge

/-- `finish` is the denotation of `finishL` -/
theorem finish_eq_finishL (cfg : Cfg) (env : Env) (st : St) :
    finish cfg env st = match finishL cfg env st with | .ok h => .ok h.hosts | .error r => r := by
  unfold finish finishL finish2
  cases st.wcoll with
  | none => rfl
  | some e =>
    simp only
    by_cases h2 : cfg.fix2Br = true
    · simp only [h2, ↓reduceIte]
      cases wcollExpand cfg e.toHL with
      | null _ _ => rfl
      | ub _ => rfl
      | diverge => rfl
      | ok h =>
        simp only
        cases applyExcluded2 cfg st.excl (ofHL h) with
        | error r => rfl
        | ok e1 =>
          simp only
          cases applyRegex cfg env st.regex e1 with
          | error r => rfl
          | ok e2 => simp only [EL.toHL_hosts]
    · simp only [h2, Bool.false_eq_true, ↓reduceIte]
      cases applyExcluded cfg st.excl e with
      | error r => rfl
      | ok e1 =>
        simp only
        cases applyRegex cfg env st.regex e1 with
        | error r => rfl
        | ok e2 =>
          simp only
          cases wcollExpand cfg e2.toHL with
          | null _ _ => rfl
          | ub _ => rfl
          | diverge => rfl
          | ok h => rfl

/-- the list object for the words `wcoll_arg_process` sees (as `cliWords`) -/
def cliWordsL (cfg : Cfg) (env : Env) (words : List Str) : Except Res HL :=
  match argsProcess cfg env words {} with
  | .error r => .error r
  | .ok st => finishL cfg env st

theorem cliWords_eq_cliWordsL (cfg : Cfg) (env : Env) (words : List Str) :
    cliWords cfg env words = match cliWordsL cfg env words with | .ok h => .ok h.hosts | .error r => r := by
  unfold cliWords cliWordsL
  cases argsProcess cfg env words {} with
  | error r => rfl
  | ok st => exact finish_eq_finishL cfg env st

/-- THE FINAL LIST (composition, as `cliWords_correct`): inside `Domain` the object left in `opt->wcoll` is a good
    list (every record well formed, the counter exact) that denotes the specification's hosts -/
theorem cliWordsL_correct (cfg : Cfg) (hD1 : cfg.fixDeleteAll = true) (hD17 : cfg.fixIterSuffix = true)
    (hD19 : cfg.fixRemoveDepth = true) (env : Env) (ws : List CW) (hd : Domain cfg env ws) :
    ∃ L, cliWordsL cfg env (ws.map CW.text) = .ok L ∧ L.Good ∧ L.hosts = specWords env ws := by
  unfold cliWordsL
  rw [argsProcess_words cfg env ws {} hd.words]
  simp only [hd.some, ↓reduceIte, List.append_nil, Option.getD_none]
  -- the assembled list
  have hnew : EL.new.Good := by
    refine ⟨by simp [EL.new, EL.ranges], by simp [EL.new, EL.hosts, EL.ranges]⟩
  obtain ⟨g0, h0, k0, i0⟩ := assembleE_spec cfg (tgts ws) EL.new hnew (fun w hw => ⟨(hd.words.tgt w hw).1, (hd.words.tgt w hw).2.1⟩)
  have hid0 : (assembleE cfg (tgts ws) EL.new).IdsOk := k0 ⟨by simp [EL.new], by simp [EL.new]⟩
  have hits0 : (assembleE cfg (tgts ws) EL.new).its = [] := by rw [i0]; rfl
  have hT : (assembleE cfg (tgts ws) EL.new).hosts = Spec.expand₁ (tgts ws) := by
    rw [h0]; simp [EL.new, EL.hosts, EL.ranges]
  have hplain : ∀ h ∈ Spec.expand₁ (tgts ws), (Spec.Word.plain h).WF = true ∧ wordDom cfg (Spec.Word.plain h) := by
    intro h hh
    unfold Spec.expand₁ at hh
    obtain ⟨w, hw, hx⟩ := List.mem_flatMap.mp hh
    have hr := reword_oneBracket w (hd.one w hw)
    have hmem : Spec.Word.plain h ∈ reword w := by rw [hr]; exact List.mem_map.mpr ⟨h, hx, rfl⟩
    exact ⟨reword_wf w (hd.words.tgt w hw).1 _ hmem, hd.dom2 w hw _ hmem⟩
  have hf1 : (Spec.expand₁ (tgts ws)).filter (fun h => !(((xcls ws).reverse).flatMap Spec.Word.expand₁).contains h) =
      (Spec.expand₁ (tgts ws)).filter (fun h => !(Spec.expand₁ (xcls ws)).contains h) := by
    apply List.filter_congr
    intro h _
    congr 1
    rw [Bool.eq_iff_iff]
    simp [Spec.expand₁, List.contains_iff_mem]
  rcases Bool.eq_false_or_eq_true cfg.fix2Br with h2 | h2
  · -- F02-2BR repaired: re-expansion first (every first-level name is a plain name: nothing changes),
    -- then the exclusions name by name, then the filters
    let e0 := assembleE cfg (tgts ws) EL.new
    have hg0' : e0.toHL.Good := (EL.good_iff e0).mp g0
    have hsf : ∀ r ∈ e0.toHL.ranges.toList, r.ShiftFits := by
      intro r hr _
      have hr' : r ∈ e0.ranges := by simpa [EL.toHL] using hr
      have := ndig_le_of_lt_pow (by decide : 0 < 15) (hd.low r hr')
      omega
    obtain ⟨h', hw1, hg', hw3⟩ := wcollExpand_words cfg e0.toHL hg0' hsf (e0.hosts.map Spec.Word.plain)
      (by rw [EL.toHL_hosts, map_render_plain])
      (fun w hw => by
        obtain ⟨h, hh, rfl⟩ := List.mem_map.mp hw
        exact (hplain h (by rw [← hT]; exact hh)).1)
      (fun w hw => by
        obtain ⟨h, hh, rfl⟩ := List.mem_map.mp hw
        exact (hplain h (by rw [← hT]; exact hh)).2)
    have hH : (ofHL h').hosts = Spec.expand₁ (tgts ws) := by
      rw [ofHL_hosts, hw3, expand₁_plain, hT]
    let es : List (Str × List Str) := ((xcls ws).reverse).map fun w => (Spec.renderWord w, w.expand₁)
    have hes : es.map (·.1) = ((xcls ws).map Spec.renderWord).reverse := by
      simp [es, List.map_reverse]
    have hesok : ∀ p ∈ es, Entry2Ok cfg p.1 p.2 := by
      intro p hp
      simp only [es, List.mem_map, List.mem_reverse] at hp
      obtain ⟨w, hw, rfl⟩ := hp
      exact ⟨hd.entries w hw, hd.entries2 h2 w hw⟩
    obtain ⟨e1, ha1, g1, hh1, k1⟩ := applyExcluded2_repaired cfg hD1 0 es (ofHL h') (ofHL_good h' hg') hesok
    have hX : es.flatMap (·.2) = ((xcls ws).reverse).flatMap Spec.Word.expand₁ := by
      simp only [es, List.flatMap_map]
    have hsub1 : ∀ h ∈ e1.hosts, h ∈ Spec.expand₁ (tgts ws) := by
      intro h hh; rw [hh1, hH] at hh; exact (List.mem_filter.mp hh).1
    obtain ⟨e2, ha2, hh2, _, g2, _, _⟩ := applyRegex_spec cfg hD19 (fun _ => True) (fun _ _ _ _ _ _ => trivial)
      (fun _ _ => Or.inl hD17) env (regs ws).reverse e1 (k1.ids (ofHL_ids h')) g1 (fun _ _ => trivial) (k1.its rfl)
      (fun p hp h hh => hd.oracle p (List.mem_reverse.mp hp) h (hsub1 h hh))
    refine ⟨e2.toHL, ?_, (EL.good_iff e2).mp g2, ?_⟩
    · unfold finishL
      simp only [h2, ↓reduceIte]
      rw [hw1]
      simp only
      rw [← hes, ha1]
      simp only
      rw [ha2]
    · rw [EL.toHL_hosts, hh2, hh1, hH, hX]
      unfold specWords
      rw [hf1]
      apply List.filter_congr
      intro h _
      simp [keepAll, List.all_reverse]
  · -- as found: exclusions and filters on the first-level names, re-expansion last
    -- exclusions (the stack is walked newest first)
    let es : List (Str × List Str) := ((xcls ws).reverse).map fun w => (Spec.renderWord w, w.expand₁)
    have hes : es.map (·.1) = ((xcls ws).map Spec.renderWord).reverse := by
      simp [es, List.map_reverse]
    have hesok : ∀ p ∈ es, EntryOk cfg p.1 p.2 := by
      intro p hp
      simp only [es, List.mem_map, List.mem_reverse] at hp
      obtain ⟨w, hw, rfl⟩ := hp
      exact hd.entries w hw
    obtain ⟨e1, ha1, g1, hh1⟩ := applyExcluded_repaired cfg hD1 es _ g0 hesok
    have k1 := applyExcluded_keeps cfg hD1 (10 ^ 15) es _ g0 hesok e1 ha1
    have hX : es.flatMap (·.2) = ((xcls ws).reverse).flatMap Spec.Word.expand₁ := by
      simp only [es, List.flatMap_map]
    -- filters
    let P : HRange → Prop := fun r => r.hi < 10 ^ 15
    have hmono : ∀ r r' : HRange, P r → r'.width = r.width → r'.hi ≤ r.hi → r'.single = r.single → P r' :=
      fun r r' h _ hh _ => Nat.lt_of_le_of_lt hh h
    have hPF : ∀ r, P r → r.PrintsFull cfg := fun _ _ => Or.inl hD17
    have hsub1 : ∀ h ∈ e1.hosts, h ∈ Spec.expand₁ (tgts ws) := by
      intro h hh; rw [hh1, hT] at hh; exact (List.mem_filter.mp hh).1
    obtain ⟨e2, ha2, hh2, hid2, g2, hP2, _⟩ := applyRegex_spec cfg hD19 P hmono hPF env (regs ws).reverse e1
      (k1.ids hid0) g1 (k1.hi hd.low) (k1.its hits0)
      (fun p hp h hh => hd.oracle p (List.mem_reverse.mp hp) h (hsub1 h hh))
    -- re-expansion: every surviving name is a plain name
    have hsub2 : ∀ h ∈ e2.hosts, h ∈ Spec.expand₁ (tgts ws) := by
      intro h hh; rw [hh2] at hh; exact hsub1 h (List.mem_filter.mp hh).1
    have hplain : ∀ h ∈ Spec.expand₁ (tgts ws), (Spec.Word.plain h).WF = true ∧ wordDom cfg (Spec.Word.plain h) := by
      intro h hh
      unfold Spec.expand₁ at hh
      obtain ⟨w, hw, hx⟩ := List.mem_flatMap.mp hh
      have hr := reword_oneBracket w (hd.one w hw)
      have hmem : Spec.Word.plain h ∈ reword w := by rw [hr]; exact List.mem_map.mpr ⟨h, hx, rfl⟩
      exact ⟨reword_wf w (hd.words.tgt w hw).1 _ hmem, hd.dom2 w hw _ hmem⟩
    have hg2' : e2.toHL.Good := (EL.good_iff e2).mp g2
    have hsf : ∀ r ∈ e2.toHL.ranges.toList, r.ShiftFits := by
      intro r hr _
      have hr' : r ∈ e2.ranges := by simpa [EL.toHL] using hr
      have := ndig_le_of_lt_pow (by decide : 0 < 15) (hP2 r hr')
      omega
    obtain ⟨h', hw1, hgF, hw3⟩ := wcollExpand_words cfg e2.toHL hg2' hsf (e2.hosts.map Spec.Word.plain)
      (by rw [EL.toHL_hosts, map_render_plain])
      (fun w hw => by
        obtain ⟨h, hh, rfl⟩ := List.mem_map.mp hw
        exact (hplain h (hsub2 h hh)).1)
      (fun w hw => by
        obtain ⟨h, hh, rfl⟩ := List.mem_map.mp hw
        exact (hplain h (hsub2 h hh)).2)
    -- put the stages together
    refine ⟨h', ?_, hgF, ?_⟩
    · unfold finishL
      simp only [h2, Bool.false_eq_true, ↓reduceIte]
      rw [← hes, ha1]
      simp only
      rw [ha2]
      simp only
      rw [hw1]
    rw [hw3, expand₁_plain, hh2, hh1, hT, hX]
    unfold specWords
    have hf1 : (Spec.expand₁ (tgts ws)).filter (fun h => !(((xcls ws).reverse).flatMap Spec.Word.expand₁).contains h) =
        (Spec.expand₁ (tgts ws)).filter (fun h => !(Spec.expand₁ (xcls ws)).contains h) := by
      apply List.filter_congr
      intro h _
      congr 1
      rw [Bool.eq_iff_iff]
      simp [Spec.expand₁, List.contains_iff_mem]
    rw [hf1]
    apply List.filter_congr
    intro h _
    simp [keepAll, List.all_reverse]

/-- the thread array `dsh()` builds: `t[i].host` = the i-th name `hostlist_next` hands out over `opt->wcoll`
    (`rshcount = hostlist_count`), `t[i].nodeid = i` (`_thd_init (&t[i], opt, pcp_infiles, i)`) -/
def dshThreads (cfg : Cfg) (L : HL) : List (Str × Nat) := (iterAll cfg L L.nhosts.toNat).zipIdx

end PdshVerif.Opt.Exclude
