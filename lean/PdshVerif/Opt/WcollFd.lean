/-
  C10: the descriptors the reader holds — ghost instrumentation of `readFile` (Opt/Wcoll.lean).

  `readFileG` is `readFile` with a ghost counter threaded through: `fopen` after the include-cycle guard
  (`Fd.open`), `fclose` after `wcoll_ctx_read_stream` returns (`Fd.close`); the guard's early return comes
  BEFORE the `fopen`, so it has nothing to close.  `readFileG_erase`: the ghost does not influence the
  reader (erasing it gives `readFile` back).
-/
import PdshVerif.Opt.Wcoll

namespace PdshVerif.Opt.Wcoll

/-- ghost: streams the reader holds open now, and the most it held at once -/
structure Fd where
  nopen : Nat := 0
  peak : Nat := 0
  deriving Repr, DecidableEq

/-- `fopen` -/
def Fd.open (d : Fd) : Fd := ⟨d.nopen + 1, max d.peak (d.nopen + 1)⟩
/-- `fclose` -/
def Fd.close (d : Fd) : Fd := ⟨d.nopen - 1, d.peak⟩

/-- `readLine` with the ghost -/
def readLineG (inc : Str → Ctx × Fd → Ctx × Fd) (chunk : Str) (s : Ctx × Fd) : Ctx × Fd :=
  if s.1.fatal then s
  else match chunk with
    | '#' :: _ =>
      match includeFile chunk with
      | .file name => inc name s
      | .invalid => ({ s.1 with nwarn := s.1.nwarn + 1 }, s.2)
      | .notInclude => s
    | _ => (pushLine (chunk.takeWhile (· != '#')) s.1, s.2)

/-- `readFile` with the ghost -/
def readFileG (mode : LineMode) (fs : FS) (dirs : List Str) : Nat → Str → Ctx × Fd → Ctx × Fd
  | 0, _, s => ({ s.1 with starved := true, fatal := true }, s.2)
  | fuel + 1, f, s =>
    match resolve fs dirs f with
    | none => ({ s.1 with fatal := true }, s.2)
    | some fq =>
      -- the guard comes before `fopen`: nothing is open yet, nothing to close
      if fq ∈ s.1.cache then ({ s.1 with nwarn := s.1.nwarn + 1 }, s.2)
      else match lookup fs fq with
        | none => ({ s.1 with cache := s.1.cache ++ [fq], fatal := true }, s.2)
        | some file =>
          if file.readable then
            let r := (chunks mode file.content).foldl
              (fun s ch => readLineG (readFileG mode fs dirs fuel) ch s)
              ({ s.1 with cache := s.1.cache ++ [fq], opened := s.1.opened ++ [fq] }, s.2.open)
            (r.1, r.2.close)
          else ({ s.1 with cache := s.1.cache ++ [fq], fatal := true }, s.2)

/-! ### the ghost can be erased -/
theorem readLineG_erase (incG : Str → Ctx × Fd → Ctx × Fd) (inc : Str → Ctx → Ctx)
    (h : ∀ name s, (incG name s).1 = inc name s.1) (ch : Str) (s : Ctx × Fd) :
    (readLineG incG ch s).1 = readLine inc ch s.1 := by
  unfold readLineG readLine
  repeat' split
  all_goals first | rfl | exact h _ _ | (simp_all; done) | (simp_all; exact h _ _)

theorem foldlG_erase (incG : Str → Ctx × Fd → Ctx × Fd) (inc : Str → Ctx → Ctx)
    (h : ∀ name s, (incG name s).1 = inc name s.1) : ∀ (chs : List Str) (s : Ctx × Fd),
    (chs.foldl (fun s ch => readLineG incG ch s) s).1 = chs.foldl (fun c ch => readLine inc ch c) s.1
  | [], _ => rfl
  | ch :: chs, s => by
    simp only [List.foldl_cons]
    rw [foldlG_erase incG inc h chs, readLineG_erase incG inc h]

theorem readFileG_erase (mode : LineMode) (fs : FS) (dirs : List Str) : ∀ (k : Nat) (f : Str) (s : Ctx × Fd),
    (readFileG mode fs dirs k f s).1 = readFile mode fs dirs k f s.1
  | 0, _, _ => rfl
  | k + 1, f, s => by
    have ih := foldlG_erase _ _ (readFileG_erase mode fs dirs k)
    unfold readFileG readFile
    repeat' split
    all_goals first | rfl | exact ih _ _ | (simp_all; done) | (simp_all; exact ih _ _)

/-! ### what the reader does with descriptors -/
/-- a step returns every descriptor it took, and never holds more than `k` on top of those held before -/
def FdOk (k : Nat) (s r : Ctx × Fd) : Prop :=
  r.2.nopen = s.2.nopen ∧ r.2.peak ≤ max s.2.peak (s.2.nopen + k)

theorem FdOk.refl (k : Nat) (s : Ctx × Fd) : FdOk k s s := ⟨rfl, Nat.le_max_left _ _⟩

theorem FdOk.same (k : Nat) (s : Ctx × Fd) (c : Ctx) : FdOk k s (c, s.2) := ⟨rfl, Nat.le_max_left _ _⟩

theorem FdOk.trans {k : Nat} {a b c : Ctx × Fd} (h1 : FdOk k a b) (h2 : FdOk k b c) : FdOk k a c := by
  obtain ⟨a1, a2⟩ := h1
  obtain ⟨b1, b2⟩ := h2
  refine ⟨by rw [b1, a1], ?_⟩
  rw [a1] at b2
  exact Nat.le_trans b2 (Nat.max_le.mpr ⟨a2, Nat.le_max_right _ _⟩)

theorem readLineG_fd (k : Nat) (incG : Str → Ctx × Fd → Ctx × Fd) (h : ∀ name s, FdOk k s (incG name s))
    (ch : Str) (s : Ctx × Fd) : FdOk k s (readLineG incG ch s) := by
  unfold readLineG
  split
  · exact FdOk.refl k s
  · split
    · split
      · exact h _ _
      · exact FdOk.same k s _
      · exact FdOk.refl k s
    · exact FdOk.same k s _

theorem foldlG_fd (k : Nat) (incG : Str → Ctx × Fd → Ctx × Fd) (h : ∀ name s, FdOk k s (incG name s)) :
    ∀ (chs : List Str) (s : Ctx × Fd), FdOk k s (chs.foldl (fun s ch => readLineG incG ch s) s)
  | [], s => FdOk.refl k s
  | ch :: chs, s => by
    simp only [List.foldl_cons]
    exact (readLineG_fd k incG h ch s).trans (foldlG_fd k incG h chs _)

/-- `fopen` ... `fclose` around a stretch that returns what it takes and goes `k` deep at most -/
theorem fd_bracket (k : Nat) (s : Ctx × Fd) (c' : Ctx) (r : Ctx × Fd) (h : FdOk k (c', s.2.open) r) :
    FdOk (k + 1) s (r.1, r.2.close) := by
  obtain ⟨h1, h2⟩ := h
  simp only [Fd.open] at h1 h2
  refine ⟨?_, ?_⟩
  · simp only [Fd.close, h1]; omega
  · simp only [Fd.close]
    refine Nat.le_trans h2 ?_
    simp only [Nat.max_le]
    refine ⟨⟨Nat.le_max_left _ _, ?_⟩, ?_⟩
    · exact Nat.le_trans (by omega) (Nat.le_max_right _ _)
    · exact Nat.le_trans (by omega) (Nat.le_max_right _ _)

theorem readFileG_fd (mode : LineMode) (fs : FS) (dirs : List Str) : ∀ (k : Nat) (f : Str) (s : Ctx × Fd),
    FdOk k s (readFileG mode fs dirs k f s)
  | 0, _, s => FdOk.same 0 s _
  | k + 1, f, s => by
    unfold readFileG
    split
    · exact FdOk.same _ s _
    · split
      · exact FdOk.same _ s _
      · split
        · exact FdOk.same _ s _
        · split
          · exact fd_bracket k s _ _ (foldlG_fd k _ (readFileG_fd mode fs dirs k) _ _)
          · exact FdOk.same _ s _

end PdshVerif.Opt.Wcoll
