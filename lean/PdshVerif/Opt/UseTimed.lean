/-
  Two more settings of property C18 at the point where they TAKE EFFECT (definitions; the theorems are in Props/C18.lean):

  * the connect and the command time-out: `dsh()` copies `opt->connect_timeout` / `opt->command_timeout` into the
    globals the watchdog and the workers test (`_thd_connect_timeout`, `_thd_command_timeout`): the configuration of
    the TIMED model of property C07 (Dsh/Timed.lean, imported, not re-implemented) built from the accepted record;
  * the remote pdcp path: `dsh()` starts the remote command of a copy with `opt->remote_program_path`
    (`xstrcat (&cmd, opt->remote_program_path)`): the command builders of property C11 (Pcp/Send.lean: `pdcpCmd`,
    `rpdcpCmd`, imported) applied to the accepted record.
-/
import PdshVerif.Opt.Settings
import PdshVerif.Dsh.Timed
import PdshVerif.Dsh.TimedProj
import PdshVerif.Pcp.Send

namespace PdshVerif.Opt
open PdshVerif

/-- what dsh() hands to the watchdog and the workers; the three switches are parameters of the timed model that have
    nothing to do with the settings (separate stderr, and two repairs of C07) -/
def timedCfg (c : Cfg) (sopt selfCheck stopWdog : Bool) : Dsh.Timed.Cfg :=
  { ct := c.connectTimeout.toNat, ut := c.commandTimeout.toNat, sopt := sopt, selfCheck := selfCheck, stopWdog := stopWdog }

/-- the configuration of the timed system never changes -/
theorem timed_reach_cfg {v : Dsh.FanG.Variant} {f : Nat} {tc : Dsh.Timed.Cfg} {scripts : List Dsh.Timed.Script}
    {s : Dsh.Timed.St} (h : Dsh.Timed.Reach v f tc scripts s) : s.cfg = tc := by
  obtain ⟨ls, he⟩ := h
  induction he with
  | nil => rfl
  | snoc _ hs ih => rw [(Dsh.Timed.step_params hs).1, ih]

/-- the bytes of a text of the option model -/
def bytes (s : Str) : Pcp.Str := s.map fun ch => ch.toNat.toUInt8

/-- the command every target of a `pdcp` run is asked to execute -/
def copyCommand (c : Cfg) (r p : Bool) (nentries : Nat) (dest : Pcp.Str) : Pcp.Str :=
  Pcp.pdcpCmd (bytes c.remotePath) r p nentries dest

/-- ... and of an `rpdcp` run (for target `host`) -/
def reverseCopyCommand (c : Cfg) (r p : Bool) (files : List Pcp.Str) (host : Pcp.Str) : Pcp.Str :=
  Pcp.rpdcpCmd (bytes c.remotePath) r p files host

/-- the option words dsh() appends to the remote program path (`String.toUTF8` evaluated by the kernel) -/
theorem strBytes_r : Pcp.strBytes " -r" = [32, 45, 114] := by decide +kernel
theorem strBytes_p : Pcp.strBytes " -p" = [32, 45, 112] := by decide +kernel
theorem strBytes_y : Pcp.strBytes " -y" = [32, 45, 121] := by decide +kernel
theorem strBytes_z : Pcp.strBytes " -z " = [32, 45, 122, 32] := by decide +kernel
theorem strBytes_Z : Pcp.strBytes " -Z " = [32, 45, 90, 32] := by decide +kernel

/-- the first word of a command line: what the remote shell takes for the program -/
def firstWord (cmd : Pcp.Str) : Pcp.Str := cmd.takeWhile (· ≠ Pcp.cSp)

theorem firstWord_append (prog rest : Pcp.Str) (hp : Pcp.cSp ∉ prog) (hr : rest.head? = some Pcp.cSp) :
    firstWord (prog ++ rest) = prog := by
  unfold firstWord
  rw [List.takeWhile_append_of_pos (by intro a ha; simp; intro e; exact hp (e ▸ ha))]
  cases rest with
  | nil => simp at hr
  | cons x xs =>
    simp only [List.head?_cons, Option.some.injEq] at hr
    subst hr
    simp

end PdshVerif.Opt
