/-
  The limit on the length of a remote user name (property C09, clause "remote user given for it"):
    src/pdsh/opt.c  login_name_max_len (sysconf(_SC_LOGIN_NAME_MAX), generated: Gen.MO_LOGIN_NAME_MAX),
                    copy_username (-l: errx when strlen > limit, BEFORE the strcpy into the buffer of
                    limit + 1 bytes), wcoll_arg_process (the same test on the user of a `user@hosts` word)
  A user name within the limit reaches the transport unchanged (Opt/Rcmd.lean); one beyond it ends the
  run before any connection.  opt.c tests EVERY -l as it comes (copy_username inside the option loop), not only
  the last one (`Cfg.optL`): `runCheckedAll` takes the earlier ones as well.
-/
import PdshVerif.Opt.Rcmd

namespace PdshVerif.Opt.Rcmd

/-- the user of a word as get_host_rcmd_type splits it off -/
def wordUser (w : Word) : Option Str :=
  match splitWord w.text with
  | .ok _ u _ => u
  | .bad => none

/-- some user name of the command line is longer than the limit -/
def userTooLong (maxUser : Nat) (cfg : Cfg) (words : List Word) : Bool :=
  (match cfg.optL with
   | some u => decide (u.length > maxUser)
   | none => false) ||
  words.any fun w => match wordUser w with
    | some u => decide (u.length > maxUser)
    | none => false

/-- the run with the limit enforced (`none`: no limit known) -/
def runChecked (maxUser : Option Nat) (re : Bool) (cfg : Cfg) (words : List Word) (targets : List Str) : Outcome :=
  match maxUser with
  | some m => if userTooLong m cfg words then .fatal
              else (if re then runRe cfg words targets else run cfg words targets)
  | none => if re then runRe cfg words targets else run cfg words targets

/-- a user name beyond the limit, from -l or from any `user@` word, refuses the whole run: nothing is
    contacted under a truncated or overflowing name -/
theorem long_user_refused (m : Nat) (re : Bool) (cfg : Cfg) (words : List Word) (targets : List Str)
    (h : (∃ u, cfg.optL = some u ∧ u.length > m) ∨ (∃ w ∈ words, ∃ u, wordUser w = some u ∧ u.length > m)) :
    runChecked (some m) re cfg words targets = .fatal := by
  have : userTooLong m cfg words = true := by
    unfold userTooLong
    rcases h with ⟨u, hu, hl⟩ | ⟨w, hw, u, hu, hl⟩
    · simp [hu, hl]
    · simp only [Bool.or_eq_true, List.any_eq_true]
      exact Or.inr ⟨w, hw, by simp [hu, hl]⟩
  simp [runChecked, this]

/-- within the limit the check changes nothing: the run is the run of Opt/Rcmd.lean, about which the
    theorems of Props/C09.lean speak -/
theorem runChecked_eq (m : Nat) (re : Bool) (cfg : Cfg) (words : List Word) (targets : List Str)
    (hl : ∀ u, cfg.optL = some u → u.length ≤ m)
    (hw : ∀ w ∈ words, ∀ u, wordUser w = some u → u.length ≤ m) :
    runChecked (some m) re cfg words targets = (if re then runRe cfg words targets else run cfg words targets) := by
  have : userTooLong m cfg words = false := by
    unfold userTooLong
    simp only [Bool.or_eq_false_iff, List.any_eq_false]
    constructor
    · cases ho : cfg.optL with
      | none => rfl
      | some u => have := hl u ho; simp; omega
    · intro w hwm
      cases hu : wordUser w with
      | none => simp
      | some u => have := hw w hwm u hu; simp; omega
  simp [runChecked, this]

/-- the run as opt.c decides it: every -l of the command line is tested when it is read (`earlierL`: the -l options
    before the last one, which is `cfg.optL`), then the words, then the run -/
def runCheckedAll (maxUser : Option Nat) (re : Bool) (cfg : Cfg) (earlierL : List Str) (words : List Word)
    (targets : List Str) : Outcome :=
  match maxUser with
  | some m => if earlierL.any (fun u => decide (u.length > m)) then .fatal
              else runChecked maxUser re cfg words targets
  | none => runChecked maxUser re cfg words targets

/-- a -l beyond the limit refuses the run WHEREVER it stands, also when a later -l replaces it -/
theorem long_l_anywhere_refused (m : Nat) (re : Bool) (cfg : Cfg) (earlierL : List Str) (words : List Word)
    (targets : List Str) (h : ∃ u ∈ earlierL, u.length > m) :
    runCheckedAll (some m) re cfg earlierL words targets = .fatal := by
  obtain ⟨u, hu, hl⟩ := h
  have : earlierL.any (fun u => decide (u.length > m)) = true :=
    List.any_eq_true.mpr ⟨u, hu, by simp [hl]⟩
  simp [runCheckedAll, this]

/-- when every earlier -l is within the limit they do not matter: only the last -l reaches the run -/
theorem runCheckedAll_eq (m : Nat) (re : Bool) (cfg : Cfg) (earlierL : List Str) (words : List Word)
    (targets : List Str) (h : ∀ u ∈ earlierL, u.length ≤ m) :
    runCheckedAll (some m) re cfg earlierL words targets = runChecked (some m) re cfg words targets := by
  have : earlierL.any (fun u => decide (u.length > m)) = false := by
    rw [List.any_eq_false]
    intro u hu
    have := h u hu
    simp; omega
  simp [runCheckedAll, this]

end PdshVerif.Opt.Rcmd
