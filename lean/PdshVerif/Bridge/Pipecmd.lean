/-
  src/common/pipecmd.c `pipecmd_format_arg` is TRANSLATED on every run (Gen/FnPipecmd.lean: the `while`
  loop over `*p`, the `switch (*p)` after a `%`, the early `break` for a lone `%` at the end; the calls of
  `xstrcat` / `xstrcatchar` / `snprintf` / `Strdup` are recorded as the event trace, in order, with their
  string and character arguments).  The BRIDGE to `Exec.fmtLoop` (Exec/Format.lean, C09) is NOT proved yet:
  it needs the loop lemma "for `arg = done ++ rest`, fuel > |rest|: the recorded events, rendered as
  appends, give `fmtLoop repaired e (rest ++ NUL :: tail) acc`".  Below: the definition that statement is
  about (`render`); no property check depends on this module (registry: "props": []).
-/
import PdshVerif.Gen.FnPipecmd
import PdshVerif.Exec.Format

namespace PdshVerif.Bridge.Pipecmd
open PdshVerif.C2Lean PdshVerif.Exec
open PdshVerif.Gen.Fn.Pipecmd

def envC (e : Env) : pipe_info_struct :=
  { (default : pipe_info_struct) with target := e.host, username := e.user, rank := (e.rank : Int) }

/-- the byte a recorded `char` argument stands for -/
def byteOf (c : Int) : Char := Char.ofNat (c % 256).toNat

/-- what the recorded calls do to `str` -/
def render (e : Env) : List Ev → Option (List Char) → Option (List Char)
  | [], acc => acc
  | ev :: r, acc =>
    if ev.name = "Strdup" then render e r (some [])
    else if ev.name = "xstrcat" then
      match ev.args with
      | [_, .str s] => render e r (catStr acc s)
      | _ => render e r (catStr acc (rankStr e.rank))      -- the buffer `snprintf ("%d", e->rank)` filled
    else if ev.name = "xstrcatchar" then
      match ev.args with
      | [_, .int c] => render e r (catChar acc (byteOf c))
      | _ => render e r acc
    else render e r acc

end PdshVerif.Bridge.Pipecmd
