/-
  BRIDGE: src/pdsh/dsh.c `_thd_connect_timeout` / `_thd_command_timeout` (translated on every run into
  Gen/FnDsh.lean) are the two time-out decisions the watchdog model `Dsh.Timed` is built on:
  `killed` (the per-slot decision of `_wdog`), `Host.selfTimeout` and `Host.wakeCore` (the worker's own
  test of the command time-out).

  The C functions read the globals `connect_timeout` / `command_timeout` and the clock `time(NULL)`; the
  translation makes them parameters.  The model keeps instants as `Nat` (seconds); the C code marks
  "not started" by `(time_t) -1`, which no instant of the model equals.
-/
import PdshVerif.Gen.FnDsh
import PdshVerif.Dsh.Timed

namespace PdshVerif.Bridge.Dsh
open PdshVerif.Dsh.Timed
open PdshVerif.Gen.Fn.Dsh

/-- the C record of a model host (the two fields the decisions read) -/
@[reducible] def toC (h : Host) : thd := { (default : thd) with start := (h.start : Int), connect := (h.conn : Int) }

/-! Proof style of this file (robust against helper extraction / inlining, `a < b` vs `b > a`, nested vs merged
    conditions, early returns vs `?:`): split on the ATOMIC arithmetic facts of the model side, then ONE `simp` that
    unfolds the translated definitions (the auxiliaries the translator followed calls into are `@[simp]`) and
    decides EVERY `if` of the code side by linear arithmetic (`if_pos` / `if_neg` discharged by `omega`). -/

/-- BRIDGE `_thd_connect_timeout`: 1 iff `connect_timeout > 0` and `start + connect_timeout < now`
    (no overflow for any `int` time-out and any instant below 2^62) -/
theorem thd_connect_timeout_bridge (ct now : Nat) (h : Host) (hct : ct ≤ 2147483647) (hs : h.start < 2 ^ 62) :
    _thd_connect_timeout (ct : Int) (now : Int) (toC h) =
      some (if 0 < ct ∧ h.start + ct < now then 1 else 0) := by
  have h62 : (2 : Nat) ^ 62 = 4611686018427387904 := by decide
  rw [h62] at hs
  by_cases h0 : 0 < ct <;> by_cases hlt : h.start + ct < now <;>
    simp (disch := omega) [_thd_connect_timeout, toC, h0, hlt, if_pos, if_neg, decide_eq_true_eq] <;>
    try simp (disch := omega) only [if_pos, if_neg]

/-- BRIDGE `_thd_command_timeout`: 1 iff `command_timeout > 0` and `connect + command_timeout < now` -/
theorem thd_command_timeout_bridge (ut now : Nat) (h : Host) (hut : ut ≤ 2147483647) (hs : h.conn < 2 ^ 62) :
    _thd_command_timeout (ut : Int) (now : Int) (toC h) =
      some (if 0 < ut ∧ h.conn + ut < now then 1 else 0) := by
  have h62 : (2 : Nat) ^ 62 = 4611686018427387904 := by decide
  rw [h62] at hs
  by_cases h0 : 0 < ut <;> by_cases hlt : h.conn + ut < now <;>
    simp (disch := omega) [_thd_command_timeout, toC, h0, hlt, if_pos, if_neg, decide_eq_true_eq] <;>
    try simp (disch := omega) only [if_pos, if_neg]

/-- the watchdog's per-slot decision of the model IS the code's: a slot is signalled iff it is in RCMD
    and `_thd_connect_timeout` says so, or in READING and `_thd_command_timeout` says so -/
theorem killed_bridge (c : Cfg) (now : Nat) (h : Host) (hct : c.ct ≤ 2147483647) (hut : c.ut ≤ 2147483647)
    (hs : h.start < 2 ^ 62) (hc : h.conn < 2 ^ 62) :
    killed c now h =
      ((h.ph == .connecting && (_thd_connect_timeout (c.ct : Int) (now : Int) (toC h) != some 0)) ||
       (h.ph == .reading && (_thd_command_timeout (c.ut : Int) (now : Int) (toC h) != some 0))) := by
  rw [thd_connect_timeout_bridge c.ct now h hct hs, thd_command_timeout_bridge c.ut now h hut hc]
  unfold killed
  have e1 : ((some (1 : Int)) != some 0) = true := by decide
  have e0 : ((some (0 : Int)) != some 0) = false := by decide
  by_cases h1 : 0 < c.ct <;> by_cases h2 : h.start + c.ct < now <;>
    by_cases h3 : 0 < c.ut <;> by_cases h4 : h.conn + c.ut < now <;> simp [h1, h2, h3, h4, e1, e0]

/-! ### the watchdog's per-slot `switch` (statement INSIDE `_wdog`, registry entry `wdog_slot`) -/

/-- `t[i].state` of a model phase (RCMD covers "not yet blocked" and "blocked in connect") -/
def stateOf : Phase → Nat
  | .new => 0 | .rcmd => 1 | .connecting => 1 | .reading => 2 | .finished => 3

/-- the slot with its state and thread id -/
@[reducible] def toCS (h : Host) (tid : Nat) : thd := { toC h with state := stateOf h.ph, thread := tid }

/-- what the code's watchdog decides for one slot -/
def signalled (c : Cfg) (now : Nat) (h : Host) : Bool :=
  (stateOf h.ph == 1 && decide (0 < c.ct) && decide (h.start + c.ct < now)) ||
  (h.ph == .reading && decide (0 < c.ut) && decide (h.conn + c.ut < now))

/-- BRIDGE the `switch (t[i].state)` of `_wdog`: exactly one `pthread_kill (t[i].thread, SIGALRM)` when the slot
    is in RCMD past the connect time-out or in READING past the command time-out, nothing otherwise -/
theorem wdog_slot_bridge (c : Cfg) (now tid : Nat) (h : Host) (hct : c.ct ≤ 2147483647) (hut : c.ut ≤ 2147483647)
    (hs : h.start < 2 ^ 62) (hc : h.conn < 2 ^ 62) :
    wdog_slot (c.ct : Int) (c.ut : Int) (now : Int) (toCS h tid) =
      some (if signalled c now h then [⟨"pthread_kill", [.int (tid : Int), .int 14]⟩] else []) := by
  have h62 : (2 : Nat) ^ 62 = 4611686018427387904 := by decide
  rw [h62] at hs hc
  unfold wdog_slot signalled
  cases hp : h.ph <;>
    by_cases a : 0 < c.ct <;> by_cases b : h.start + c.ct < now <;> by_cases d : 0 < c.ut <;>
    by_cases e : h.conn + c.ut < now <;>
    simp (disch := omega) [_thd_connect_timeout, _thd_command_timeout, toCS, toC, stateOf, hp, a, b, d, e, if_pos, if_neg,
      decide_eq_true_eq]

/-- the model's `killed` (a signal that takes effect) is the code's decision, except in the window where the
    slot is already RCMD but the worker is not yet blocked in connect (phase `.rcmd`: the signal is lost) -/
theorem killed_wdog_slot (c : Cfg) (now : Nat) (h : Host) :
    killed c now h = (h.ph != .rcmd && signalled c now h) := by
  have hb : ∀ a b : Phase, (a == b) = decide (a = b) := by intro a b; cases a <;> cases b <;> rfl
  unfold killed signalled
  cases hp : h.ph <;> simp [stateOf, hb, bne]

end PdshVerif.Bridge.Dsh
