/-
  BRIDGE: src/pdsh/dsh.c `_thd_connect_timeout` / `_thd_command_timeout` (translated on every run into
  Gen/FnDsh.lean) are the two time-out decisions the watchdog model `Dsh.Timed` is built on:
  `killed` (the per-slot decision of `_wdog`), `Host.selfTimeout` and `Host.wakeCore` (the worker's own
  test of the command time-out).

  The C functions read the globals `connect_timeout` / `command_timeout` and the clock `time(NULL)`; the
  translation makes them parameters.  The model keeps instants as `Nat` (seconds); the C code marks
  "not started" by `(time_t) -1`, which no instant of the model equals.
-/
import PdshVerif.Gen.FnDsh
import PdshVerif.Dsh.Timed

namespace PdshVerif.Bridge.Dsh
open PdshVerif.Dsh.Timed
open PdshVerif.Gen.Fn.Dsh

/-- the C record of a model host (the two fields the decisions read) -/
def toC (h : Host) : thd := { start := (h.start : Int), connect := (h.conn : Int) }

/-- BRIDGE `_thd_connect_timeout`: 1 iff `connect_timeout > 0` and `start + connect_timeout < now`
    (no overflow for any `int` time-out and any instant below 2^62) -/
theorem thd_connect_timeout_bridge (ct now : Nat) (h : Host) (hct : ct ≤ 2147483647) (hs : h.start < 2 ^ 62) :
    _thd_connect_timeout (ct : Int) (now : Int) (toC h) =
      some (if 0 < ct ∧ h.start + ct < now then 1 else 0) := by
  simp only [_thd_connect_timeout, toC]
  have h62 : (2 : Nat) ^ 62 = 4611686018427387904 := by decide
  rw [h62] at hs
  by_cases h0 : 0 < ct
  · have h0' : (ct : Int) > 0 := by omega
    have hne : (h.start : Int) ≠ -1 := by omega
    have hr : -9223372036854775808 ≤ (h.start : Int) + (ct : Int) ∧ (h.start : Int) + (ct : Int) ≤ 9223372036854775807 := by omega
    simp only [h0', hne, ne_eq, not_false_eq_true, and_self, if_true, hr, not_true_eq_false, if_false, h0, true_and]
    by_cases hlt : h.start + ct < now
    · have : (h.start : Int) + (ct : Int) < (now : Int) := by omega
      simp [hlt, this]
    · have : ¬ (h.start : Int) + (ct : Int) < (now : Int) := by omega
      simp [hlt, this]
  · have h0' : ¬ (ct : Int) > 0 := by omega
    simp [h0, h0']

/-- BRIDGE `_thd_command_timeout`: 1 iff `command_timeout > 0` and `connect + command_timeout < now` -/
theorem thd_command_timeout_bridge (ut now : Nat) (h : Host) (hut : ut ≤ 2147483647) (hs : h.conn < 2 ^ 62) :
    _thd_command_timeout (ut : Int) (now : Int) (toC h) =
      some (if 0 < ut ∧ h.conn + ut < now then 1 else 0) := by
  simp only [_thd_command_timeout, toC]
  have h62 : (2 : Nat) ^ 62 = 4611686018427387904 := by decide
  rw [h62] at hs
  by_cases h0 : 0 < ut
  · have h0' : (ut : Int) > 0 := by omega
    have hne : (h.conn : Int) ≠ -1 := by omega
    have hr : -9223372036854775808 ≤ (h.conn : Int) + (ut : Int) ∧ (h.conn : Int) + (ut : Int) ≤ 9223372036854775807 := by omega
    simp only [h0', hne, ne_eq, not_false_eq_true, and_self, if_true, hr, not_true_eq_false, if_false, h0, true_and]
    by_cases hlt : h.conn + ut < now
    · have : (h.conn : Int) + (ut : Int) < (now : Int) := by omega
      simp [hlt, this]
    · have : ¬ (h.conn : Int) + (ut : Int) < (now : Int) := by omega
      simp [hlt, this]
  · have h0' : ¬ (ut : Int) > 0 := by omega
    simp [h0, h0']

/-- the watchdog's per-slot decision of the model IS the code's: a slot is signalled iff it is in RCMD
    and `_thd_connect_timeout` says so, or in READING and `_thd_command_timeout` says so -/
theorem killed_bridge (c : Cfg) (now : Nat) (h : Host) (hct : c.ct ≤ 2147483647) (hut : c.ut ≤ 2147483647)
    (hs : h.start < 2 ^ 62) (hc : h.conn < 2 ^ 62) :
    killed c now h =
      ((h.ph == .connecting && (_thd_connect_timeout (c.ct : Int) (now : Int) (toC h) != some 0)) ||
       (h.ph == .reading && (_thd_command_timeout (c.ut : Int) (now : Int) (toC h) != some 0))) := by
  rw [thd_connect_timeout_bridge c.ct now h hct hs, thd_command_timeout_bridge c.ut now h hut hc]
  unfold killed
  have e1 : ((some (1 : Int)) != some 0) = true := by decide
  have e0 : ((some (0 : Int)) != some 0) = false := by decide
  by_cases h1 : 0 < c.ct <;> by_cases h2 : h.start + c.ct < now <;>
    by_cases h3 : 0 < c.ut <;> by_cases h4 : h.conn + c.ut < now <;> simp [h1, h2, h3, h4, e1, e0]

end PdshVerif.Bridge.Dsh
