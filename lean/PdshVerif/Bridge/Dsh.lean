/-
  BRIDGE: src/pdsh/dsh.c `_thd_connect_timeout` / `_thd_command_timeout` (translated on every run into
  Gen/FnDsh.lean) are the two time-out decisions the watchdog model `Dsh.Timed` is built on:
  `killed` (the per-slot decision of `_wdog`), `Host.selfTimeout` and `Host.wakeCore` (the worker's own
  test of the command time-out).

  The C functions read the globals `connect_timeout` / `command_timeout` and the clock `time(NULL)`; the
  translation makes them parameters.  The model keeps instants as `Nat` (seconds); the C code marks
  "not started" by `(time_t) -1`, which no instant of the model equals.
-/
import PdshVerif.Gen.FnDsh
import PdshVerif.Dsh.Timed
import PdshVerif.Dsh.Signals
import PdshVerif.Dsh.Exit

namespace PdshVerif.Bridge.Dsh
open PdshVerif.Dsh.Timed
open PdshVerif.Gen.Fn.Dsh

/-- the C record of a model host (the two fields the decisions read) -/
def toC (h : Host) : thd := { (default : thd) with start := (h.start : Int), connect := (h.conn : Int) }

/-- BRIDGE `_thd_connect_timeout`: 1 iff `connect_timeout > 0` and `start + connect_timeout < now`
    (no overflow for any `int` time-out and any instant below 2^62) -/
theorem thd_connect_timeout_bridge (ct now : Nat) (h : Host) (hct : ct ≤ 2147483647) (hs : h.start < 2 ^ 62) :
    _thd_connect_timeout (ct : Int) (now : Int) (toC h) =
      some (if 0 < ct ∧ h.start + ct < now then 1 else 0) := by
  simp only [_thd_connect_timeout, toC]
  have h62 : (2 : Nat) ^ 62 = 4611686018427387904 := by decide
  rw [h62] at hs
  by_cases h0 : 0 < ct
  · have h0' : (ct : Int) > 0 := by omega
    have hne : (h.start : Int) ≠ -1 := by omega
    have hr : -9223372036854775808 ≤ (h.start : Int) + (ct : Int) ∧ (h.start : Int) + (ct : Int) ≤ 9223372036854775807 := by omega
    simp only [h0', hne, ne_eq, not_false_eq_true, and_self, if_true, hr, not_true_eq_false, if_false, h0, true_and]
    by_cases hlt : h.start + ct < now
    · have : (h.start : Int) + (ct : Int) < (now : Int) := by omega
      simp [hlt, this]
    · have : ¬ (h.start : Int) + (ct : Int) < (now : Int) := by omega
      simp [hlt, this]
  · have h0' : ¬ (ct : Int) > 0 := by omega
    simp [h0, h0']

/-- BRIDGE `_thd_command_timeout`: 1 iff `command_timeout > 0` and `connect + command_timeout < now` -/
theorem thd_command_timeout_bridge (ut now : Nat) (h : Host) (hut : ut ≤ 2147483647) (hs : h.conn < 2 ^ 62) :
    _thd_command_timeout (ut : Int) (now : Int) (toC h) =
      some (if 0 < ut ∧ h.conn + ut < now then 1 else 0) := by
  simp only [_thd_command_timeout, toC]
  have h62 : (2 : Nat) ^ 62 = 4611686018427387904 := by decide
  rw [h62] at hs
  by_cases h0 : 0 < ut
  · have h0' : (ut : Int) > 0 := by omega
    have hne : (h.conn : Int) ≠ -1 := by omega
    have hr : -9223372036854775808 ≤ (h.conn : Int) + (ut : Int) ∧ (h.conn : Int) + (ut : Int) ≤ 9223372036854775807 := by omega
    simp only [h0', hne, ne_eq, not_false_eq_true, and_self, if_true, hr, not_true_eq_false, if_false, h0, true_and]
    by_cases hlt : h.conn + ut < now
    · have : (h.conn : Int) + (ut : Int) < (now : Int) := by omega
      simp [hlt, this]
    · have : ¬ (h.conn : Int) + (ut : Int) < (now : Int) := by omega
      simp [hlt, this]
  · have h0' : ¬ (ut : Int) > 0 := by omega
    simp [h0, h0']

/-- the watchdog's per-slot decision of the model IS the code's: a slot is signalled iff it is in RCMD
    and `_thd_connect_timeout` says so, or in READING and `_thd_command_timeout` says so -/
theorem killed_bridge (c : Cfg) (now : Nat) (h : Host) (hct : c.ct ≤ 2147483647) (hut : c.ut ≤ 2147483647)
    (hs : h.start < 2 ^ 62) (hc : h.conn < 2 ^ 62) :
    killed c now h =
      ((h.ph == .connecting && (_thd_connect_timeout (c.ct : Int) (now : Int) (toC h) != some 0)) ||
       (h.ph == .reading && (_thd_command_timeout (c.ut : Int) (now : Int) (toC h) != some 0))) := by
  rw [thd_connect_timeout_bridge c.ct now h hct hs, thd_command_timeout_bridge c.ut now h hut hc]
  unfold killed
  have e1 : ((some (1 : Int)) != some 0) = true := by decide
  have e0 : ((some (0 : Int)) != some 0) = false := by decide
  by_cases h1 : 0 < c.ct <;> by_cases h2 : h.start + c.ct < now <;>
    by_cases h3 : 0 < c.ut <;> by_cases h4 : h.conn + c.ut < now <;> simp [h1, h2, h3, h4, e1, e0]

/-! ### the watchdog's per-slot `switch` (statement INSIDE `_wdog`, registry entry `wdog_slot`) -/

/-- `t[i].state` of a model phase (RCMD covers "not yet blocked" and "blocked in connect") -/
def stateOf : Phase → Nat
  | .new => 0 | .rcmd => 1 | .connecting => 1 | .reading => 2 | .finished => 3

/-- the slot with its state and thread id -/
def toCS (h : Host) (tid : Nat) : thd := { toC h with state := stateOf h.ph, thread := tid }

/-- what the code's watchdog decides for one slot -/
def signalled (c : Cfg) (now : Nat) (h : Host) : Bool :=
  (stateOf h.ph == 1 && decide (0 < c.ct) && decide (h.start + c.ct < now)) ||
  (h.ph == .reading && decide (0 < c.ut) && decide (h.conn + c.ut < now))

/-- BRIDGE the `switch (t[i].state)` of `_wdog`: exactly one `pthread_kill (t[i].thread, SIGALRM)` when the slot
    is in RCMD past the connect time-out or in READING past the command time-out, nothing otherwise -/
theorem wdog_slot_bridge (c : Cfg) (now tid : Nat) (h : Host) (hct : c.ct ≤ 2147483647) (hut : c.ut ≤ 2147483647)
    (hs : h.start < 2 ^ 62) (hc : h.conn < 2 ^ 62) :
    wdog_slot (c.ct : Int) (c.ut : Int) (now : Int) (toCS h tid) =
      some (if signalled c now h then [⟨"pthread_kill", [.int (tid : Int), .int 14]⟩] else []) := by
  have e1 := thd_connect_timeout_bridge c.ct now h hct hs
  have e2 := thd_command_timeout_bridge c.ut now h hut hc
  have t1 : _thd_connect_timeout (c.ct : Int) (now : Int) (toCS h tid) = _thd_connect_timeout (c.ct : Int) (now : Int) (toC h) := by
    rfl
  have t2 : _thd_command_timeout (c.ut : Int) (now : Int) (toCS h tid) = _thd_command_timeout (c.ut : Int) (now : Int) (toC h) := by
    rfl
  unfold wdog_slot signalled
  rw [t1, t2, e1, e2]
  cases hp : h.ph <;> simp [toCS, stateOf, hp] <;>
    (by_cases a : 0 < c.ct <;> by_cases b : h.start + c.ct < now <;> by_cases d : 0 < c.ut <;>
      by_cases e : h.conn + c.ut < now <;> simp [a, b, d, e])

/-- the model's `killed` (a signal that takes effect) is the code's decision, except in the window where the
    slot is already RCMD but the worker is not yet blocked in connect (phase `.rcmd`: the signal is lost) -/
theorem killed_wdog_slot (c : Cfg) (now : Nat) (h : Host) :
    killed c now h = (h.ph != .rcmd && signalled c now h) := by
  have hb : ∀ a b : Phase, (a == b) = decide (a = b) := by intro a b; cases a <;> cases b <;> rfl
  unfold killed signalled
  cases hp : h.ph <;> simp [stateOf, hb, bne]

/-! ### signal handling (C08): `_fwd_signal`, `_cancel_pending_threads`, `_list_slowthreads` per slot,
    `_handle_sigint`, `_handle_sigtstp` -/
section signals
open PdshVerif.Dsh.Sig

/-- the enumerators of `state_t` -/
def tsCode : TS → Nat
  | .new => 0 | .rcmd => 1 | .reading => 2 | .done => 3 | .failed => 4 | .canceled => 5

def slotOf (t : TS) : thd := { (default : thd) with state := tsCode t }

/-- BRIDGE the test of `_fwd_signal`: a signal is forwarded to the READING slots only (`SAct.fwd`) -/
theorem fwd_signal_slot_bridge (t : TS) : fwd_signal_slot (slotOf t) = some (decide (t = .reading)) := by
  cases t <;> simp [fwd_signal_slot, slotOf, tsCode]

/-- BRIDGE the body of the loop of `_cancel_pending_threads` = `cancelT` / `isPending` -/
theorem cancel_pending_slot_bridge (t : TS) (n : Nat) (hn : n < 2147483647) :
    cancel_pending_slot (slotOf t) (n : Int) =
      some (slotOf (cancelT t), ((n + (if isPending t then 1 else 0) : Nat) : Int)) := by
  have r : -2147483648 ≤ (n : Int) + 1 ∧ (n : Int) + 1 ≤ 2147483647 := by omega
  cases t <;> simp [cancel_pending_slot, slotOf, tsCode, cancelT, isPending, r]

/-- BRIDGE the `switch` of `_list_slowthreads` without -d: something is printed exactly for the slots
    `isListed` names (RCMD "connecting", READING "command in progress") -/
theorem list_slowthreads_slot_bridge (t : TS) (ct ut now now2 : Nat) (start conn ttl : Int)
    (hct : ct ≤ 2147483647) (hut : ut ≤ 2147483647) (hn : now < 2 ^ 62) (hn2 : now2 < 2 ^ 62)
    (hs : -(2 ^ 62) < start ∧ start < 2 ^ 62) (hc : -(2 ^ 62) < conn ∧ conn < 2 ^ 62) :
    ∃ ttl' ev, list_slowthreads_slot (ut : Int) 0 (ct : Int) (now : Int) (now2 : Int)
        { slotOf t with start := start, connect := conn } ttl = some (ttl', ev) ∧
      (ev ≠ [] ↔ isListed t = true) := by
  have h62 : (2 : Int) ^ 62 = 4611686018427387904 := by decide
  have h62n : (2 : Nat) ^ 62 = 4611686018427387904 := by decide
  rw [h62] at hs hc; rw [h62n] at hn hn2
  have r1 : -9223372036854775808 ≤ conn + (ut : Int) ∧ conn + (ut : Int) ≤ 9223372036854775807 := by omega
  have r2 : -9223372036854775808 ≤ conn + (ut : Int) - (now : Int) ∧ conn + (ut : Int) - (now : Int) ≤ 9223372036854775807 := by omega
  have r3 : -9223372036854775808 ≤ start + (ct : Int) ∧ start + (ct : Int) ≤ 9223372036854775807 := by omega
  have r4 : -9223372036854775808 ≤ start + (ct : Int) - (now2 : Int) ∧ start + (ct : Int) - (now2 : Int) ≤ 9223372036854775807 := by omega
  cases t <;> simp [list_slowthreads_slot, slotOf, tsCode, isListed, r1, r2, r3, r4] <;>
    exact ⟨_, _, ⟨rfl, rfl⟩, by simp⟩

/-- the names of the recorded calls -/
def names (ev : List PdshVerif.C2Lean.Ev) : List String := ev.map (·.name)

/-- BRIDGE `_handle_sigint` = the `.sigwait .int` / `.time` decisions of `sStep`: batch mode forwards SIGINT and
    aborts; otherwise a first ^C (more than INTR seconds after the last one) lists the slow threads and records
    the instant, a second one within INTR seconds forwards SIGINT and aborts.  `t == NULL`: nothing. -/
theorem handle_sigint_bridge (batch : Bool) (now now2 last : Nat) (h1 : now < 2 ^ 62) (h2 : last < 2 ^ 62) :
    ∃ last' ev, _handle_sigint (if batch then 1 else 0) false (now : Int) (now2 : Int) (last : Int) = some (last', ev) ∧
      (last', names ev) =
        (if batch then ((last : Int), ["_fwd_signal", "errx"])
         else if now - last > INTR then ((now2 : Int), ["err", "err", "_list_slowthreads"])
         else ((last : Int), ["_fwd_signal", "errx"])) := by
  have h62n : (2 : Nat) ^ 62 = 4611686018427387904 := by decide
  rw [h62n] at h1 h2
  have r : -9223372036854775808 ≤ (now : Int) - (last : Int) ∧ (now : Int) - (last : Int) ≤ 9223372036854775807 := by omega
  cases batch
  · by_cases q : now - last > INTR
    · have q' : (now : Int) - (last : Int) > 1 := by simp only [INTR, PdshVerif.Gen.INTR_TIME] at q; omega
      simp [_handle_sigint, names, r, q, q']
      exact ⟨_, _, ⟨rfl, rfl⟩, rfl, rfl⟩
    · have q' : ¬ (now : Int) - (last : Int) > 1 := by simp only [INTR, PdshVerif.Gen.INTR_TIME] at q; omega
      simp [_handle_sigint, names, r, q, q']
      exact ⟨_, _, ⟨rfl, rfl⟩, rfl, rfl⟩
  · simp [_handle_sigint, names]
    exact ⟨_, _, ⟨rfl, rfl⟩, rfl, rfl⟩

theorem handle_sigint_null (si : Int) (now now2 last : Int) :
    _handle_sigint si true now now2 last = some (last, []) := by
  simp [_handle_sigint]

/-- BRIDGE `_handle_sigtstp`: ^Z more than INTR seconds after the last ^C stops the process (`raise (SIGSTOP)`),
    otherwise it cancels the pending threads -/
theorem handle_sigtstp_bridge (now last : Nat) (h1 : now < 2 ^ 62) (h2 : last < 2 ^ 62) :
    ∃ ev, _handle_sigtstp false (now : Int) (last : Int) = some ev ∧
      names ev = (if now - last > INTR then ["raise"] else ["_cancel_pending_threads"]) := by
  have h62n : (2 : Nat) ^ 62 = 4611686018427387904 := by decide
  rw [h62n] at h1 h2
  have r : -9223372036854775808 ≤ (now : Int) - (last : Int) ∧ (now : Int) - (last : Int) ≤ 9223372036854775807 := by omega
  by_cases q : now - last > INTR
  · have q' : (now : Int) - (last : Int) > 1 := by simp only [INTR, PdshVerif.Gen.INTR_TIME] at q; omega
    simp [_handle_sigtstp, names, r, q, q']
  · have q' : ¬ (now : Int) - (last : Int) > 1 := by simp only [INTR, PdshVerif.Gen.INTR_TIME] at q; omega
    simp [_handle_sigtstp, names, r, q, q']

end signals

/-! ### the -S aggregation loop at the end of `dsh()` (loop body, registry entry `exit_agg_step`) -/
section exitagg
open PdshVerif.Dsh.Exit

def exitCode : State → Nat
  | .done => 3 | .failed => 4 | .canceled => 5

def exitSlot (h : PdshVerif.Dsh.Exit.Host) : thd := { (default : thd) with state := exitCode h.state, rc := h.rc }

/-- one round of the loop as the model computes it (`aggLoop` after `seen`) -/
def aggStep (fx : Fixes) (rc : Int) (h : PdshVerif.Dsh.Exit.Host) : Int :=
  let h := seen fx h
  let rc1 := if h.state = .failed then (if fx.d8 then max rc RC_FAILED else RC_FAILED) else rc
  if h.rc > rc1 then h.rc else rc1

theorem aggLoop_foldl (fx : Fixes) : ∀ (hs : List PdshVerif.Dsh.Exit.Host) (rc : Int),
    aggLoop fx rc (hs.map (seen fx)) = hs.foldl (aggStep fx) rc
  | [], rc => rfl
  | h :: t, rc => by
    simp only [List.map_cons, aggLoop, List.foldl_cons]
    exact aggLoop_foldl fx t _

/-- BRIDGE the body of the loop = one round of `aggLoop` for the repaired tree (d8: RC_FAILED does not
    replace a larger code; canc: CANCELED counts as FAILED) -/
theorem exit_agg_step_bridge (fx : Fixes) (hd8 : fx.d8 = true) (hc : fx.canc = true) (rc : Int) (h : PdshVerif.Dsh.Exit.Host) :
    exit_agg_step (exitSlot h) rc = some (aggStep fx rc h) := by
  cases h with
  | mk st hrc =>
    cases st <;>
      simp only [exit_agg_step, exitSlot, exitCode, aggStep, seen, hd8, hc, RC_FAILED, PdshVerif.Gen.RC_FAILED] <;>
      (by_cases a : rc < 254 <;> by_cases b : hrc > rc <;> by_cases d : hrc > 254 <;> simp [a, b, d, Int.max_def] <;> omega)

/-- the whole loop: the code's body, folded over the targets, is the model's `aggregate` -/
theorem exit_aggregate_bridge (fx : Fixes) (hd8 : fx.d8 = true) (hc : fx.canc = true) (hs : List PdshVerif.Dsh.Exit.Host) :
    aggregate fx hs = hs.foldl (fun rc h => (exit_agg_step (exitSlot h) rc).getD rc) 0 := by
  unfold aggregate
  rw [aggLoop_foldl]
  congr 1
  funext rc h
  rw [exit_agg_step_bridge fx hd8 hc]
  rfl

end exitagg

end PdshVerif.Bridge.Dsh
