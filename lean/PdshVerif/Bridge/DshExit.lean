/-
  BRIDGE (C11): the body of the -S aggregation loop at the end of `dsh()` (fragment of src/pdsh/dsh.c, Gen/FnDsh.lean)
  against `Dsh/Exit.lean` (`aggLoop`, `aggregate`).
-/
import PdshVerif.Gen.FnDsh
import PdshVerif.Dsh.Exit

namespace PdshVerif.Bridge.DshExit
open PdshVerif.Gen.Fn.Dsh

/-! ### the -S aggregation loop at the end of `dsh()` (loop body, registry entry `exit_agg_step`) -/
section exitagg
open PdshVerif.Dsh.Exit

def exitCode : State → Nat
  | .done => 3 | .failed => 4 | .canceled => 5

def exitSlot (h : PdshVerif.Dsh.Exit.Host) : thd := { (default : thd) with state := exitCode h.state, rc := h.rc }

/-- one round of the loop as the model computes it (`aggLoop` after `seen`) -/
def aggStep (fx : Fixes) (rc : Int) (h : PdshVerif.Dsh.Exit.Host) : Int :=
  let h := seen fx h
  let rc1 := if h.state = .failed then (if fx.d8 then max rc RC_FAILED else RC_FAILED) else rc
  if h.rc > rc1 then h.rc else rc1

theorem aggLoop_foldl (fx : Fixes) : ∀ (hs : List PdshVerif.Dsh.Exit.Host) (rc : Int),
    aggLoop fx rc (hs.map (seen fx)) = hs.foldl (aggStep fx) rc
  | [], rc => rfl
  | h :: t, rc => by
    simp only [List.map_cons, aggLoop, List.foldl_cons]
    exact aggLoop_foldl fx t _

/-- BRIDGE the body of the loop = one round of `aggLoop` for the repaired tree (d8: RC_FAILED does not
    replace a larger code; canc: CANCELED counts as FAILED) -/
theorem exit_agg_step_bridge (fx : Fixes) (hd8 : fx.d8 = true) (hc : fx.canc = true) (rc : Int) (h : PdshVerif.Dsh.Exit.Host) :
    exit_agg_step (exitSlot h) rc = some (aggStep fx rc h) := by
  cases h with
  | mk st hrc =>
    cases st <;>
      simp only [exit_agg_step, exitSlot, exitCode, aggStep, seen, hd8, hc, RC_FAILED, PdshVerif.Gen.RC_FAILED] <;>
      (by_cases a : rc < 254 <;> by_cases b : hrc > rc <;> by_cases d : hrc > 254 <;> simp [a, b, d, Int.max_def] <;> omega)

/-- the whole loop: the code's body, folded over the targets, is the model's `aggregate` -/
theorem exit_aggregate_bridge (fx : Fixes) (hd8 : fx.d8 = true) (hc : fx.canc = true) (hs : List PdshVerif.Dsh.Exit.Host) :
    aggregate fx hs = hs.foldl (fun rc h => (exit_agg_step (exitSlot h) rc).getD rc) 0 := by
  unfold aggregate
  rw [aggLoop_foldl]
  congr 1
  funext rc h
  rw [exit_agg_step_bridge fx hd8 hc]
  rfl

end exitagg

end PdshVerif.Bridge.DshExit
