/-
  BRIDGE: `_handle_sigint`, `_handle_sigtstp` and the `switch` of `_list_slowthreads` (src/pdsh/dsh.c) against
  `Dsh/Signals.lean`.  These three targets are NOT wired into a check (registry "props": []): the sweep over
  harmless/ showed that ordinary refactorings of these handlers (C20-H1: helpers that sample the clock, C20-H2: a
  snapshot array, C20-H3: early returns) change the interface of the translated definitions or outrun the proofs
  below; they are proved for the tree under check and re-proved by the whole-library build and the self-test only.
-/
import PdshVerif.Bridge.DshSignals

namespace PdshVerif.Bridge.DshSignals2
open PdshVerif.Gen.Fn.Dsh

open PdshVerif.Bridge.DshSignals
section signals
open PdshVerif.Dsh.Sig

/-- BRIDGE the `switch` of `_list_slowthreads` without -d: something is printed exactly for the slots
    `isListed` names (RCMD "connecting", READING "command in progress") -/
theorem list_slowthreads_slot_bridge (t : TS) (ct ut now now2 : Nat) (start conn ttl : Int)
    (hct : ct ≤ 2147483647) (hut : ut ≤ 2147483647) (hn : now < 2 ^ 62) (hn2 : now2 < 2 ^ 62)
    (hs : -(2 ^ 62) < start ∧ start < 2 ^ 62) (hc : -(2 ^ 62) < conn ∧ conn < 2 ^ 62) :
    ∃ ttl' ev, list_slowthreads_slot (ut : Int) 0 (ct : Int) (now : Int) (now2 : Int)
        { slotOf t with start := start, connect := conn } ttl = some (ttl', ev) ∧
      (ev ≠ [] ↔ isListed t = true) := by
  have h62 : (2 : Int) ^ 62 = 4611686018427387904 := by decide
  have h62n : (2 : Nat) ^ 62 = 4611686018427387904 := by decide
  rw [h62] at hs hc; rw [h62n] at hn hn2
  have r1 : -9223372036854775808 ≤ conn + (ut : Int) ∧ conn + (ut : Int) ≤ 9223372036854775807 := by omega
  have r2 : -9223372036854775808 ≤ conn + (ut : Int) - (now : Int) ∧ conn + (ut : Int) - (now : Int) ≤ 9223372036854775807 := by omega
  have r3 : -9223372036854775808 ≤ start + (ct : Int) ∧ start + (ct : Int) ≤ 9223372036854775807 := by omega
  have r4 : -9223372036854775808 ≤ start + (ct : Int) - (now2 : Int) ∧ start + (ct : Int) - (now2 : Int) ≤ 9223372036854775807 := by omega
  cases t <;> simp [list_slowthreads_slot, slotOf, tsCode, isListed, r1, r2, r3, r4] <;>
    exact ⟨_, _, ⟨rfl, rfl⟩, by simp⟩

/-- the names of the recorded calls -/
def names (ev : List PdshVerif.C2Lean.Ev) : List String := ev.map (·.name)

/-- BRIDGE `_handle_sigint` = the `.sigwait .int` / `.time` decisions of `sStep`: batch mode forwards SIGINT and
    aborts; otherwise a first ^C (more than INTR seconds after the last one) lists the slow threads and records
    the instant, a second one within INTR seconds forwards SIGINT and aborts.  `t == NULL`: nothing. -/
theorem handle_sigint_bridge (batch : Bool) (now now2 last : Nat) (h1 : now < 2 ^ 62) (h2 : last < 2 ^ 62) :
    ∃ last' ev, _handle_sigint (if batch then 1 else 0) false (now : Int) (now2 : Int) (last : Int) = some (last', ev) ∧
      (last', names ev) =
        (if batch then ((last : Int), ["_fwd_signal", "errx"])
         else if now - last > INTR then ((now2 : Int), ["err", "err", "_list_slowthreads"])
         else ((last : Int), ["_fwd_signal", "errx"])) := by
  have h62n : (2 : Nat) ^ 62 = 4611686018427387904 := by decide
  rw [h62n] at h1 h2
  have r : -9223372036854775808 ≤ (now : Int) - (last : Int) ∧ (now : Int) - (last : Int) ≤ 9223372036854775807 := by omega
  cases batch
  · by_cases q : now - last > INTR
    · have q' : (now : Int) - (last : Int) > 1 := by simp only [INTR, PdshVerif.Gen.INTR_TIME] at q; omega
      simp [_handle_sigint, names, r, q, q']
      exact ⟨_, _, ⟨rfl, rfl⟩, rfl, rfl⟩
    · have q' : ¬ (now : Int) - (last : Int) > 1 := by simp only [INTR, PdshVerif.Gen.INTR_TIME] at q; omega
      simp [_handle_sigint, names, r, q, q']
      exact ⟨_, _, ⟨rfl, rfl⟩, rfl, rfl⟩
  · simp [_handle_sigint, names]
    exact ⟨_, _, ⟨rfl, rfl⟩, rfl, rfl⟩

theorem handle_sigint_null (si : Int) (now now2 last : Int) :
    _handle_sigint si true now now2 last = some (last, []) := by
  simp [_handle_sigint]

/-- BRIDGE `_handle_sigtstp`: ^Z more than INTR seconds after the last ^C stops the process (`raise (SIGSTOP)`),
    otherwise it cancels the pending threads -/
theorem handle_sigtstp_bridge (now last : Nat) (h1 : now < 2 ^ 62) (h2 : last < 2 ^ 62) :
    ∃ ev, _handle_sigtstp false (now : Int) (last : Int) = some ev ∧
      names ev = (if now - last > INTR then ["raise"] else ["_cancel_pending_threads"]) := by
  have h62n : (2 : Nat) ^ 62 = 4611686018427387904 := by decide
  rw [h62n] at h1 h2
  have r : -9223372036854775808 ≤ (now : Int) - (last : Int) ∧ (now : Int) - (last : Int) ≤ 9223372036854775807 := by omega
  by_cases q : now - last > INTR
  · have q' : (now : Int) - (last : Int) > 1 := by simp only [INTR, PdshVerif.Gen.INTR_TIME] at q; omega
    simp [_handle_sigtstp, names, r, q, q']
  · have q' : ¬ (now : Int) - (last : Int) > 1 := by simp only [INTR, PdshVerif.Gen.INTR_TIME] at q; omega
    simp [_handle_sigtstp, names, r, q, q']

end signals

end PdshVerif.Bridge.DshSignals2
