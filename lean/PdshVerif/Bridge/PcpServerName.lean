/-
  BRIDGE: the name test of `_sink` (src/pdsh/pcp_server.c) = `!Pcp.narrowNameOk`.  NOT wired into a check (registry
  "props": []): harmless/C12-H1 moves the test into a helper `_name_is_local`, after which no line of `_sink`
  matches the registry regex; proved for the tree under check, re-proved by the whole-library build and the self-test.
-/
import PdshVerif.Bridge.PcpServer

namespace PdshVerif.Bridge.PcpServer
open PdshVerif.Pcp PdshVerif.C2Lean
open PdshVerif.Gen.Fn.PcpServer

theorem any_slash : ∀ (n : List UInt8),
    ((cstr n).any fun ch => schar ch == toChar 47) = n.contains cSlash
  | [] => rfl
  | b :: r => by
    have ih := any_slash r
    have e : toChar 47 = ((47 : Nat) : Int) := by decide
    simp only [cstr, List.map_cons, List.any_cons, List.contains_cons] at ih ⊢
    rw [ih, e]
    congr 1
    have := schar_eq b 47 (by omega)
    by_cases q : b.toNat = 47
    · have q2 : b = 47 := UInt8.toNat_inj.mp q
      have h1 : schar (Char.ofNat b.toNat) = ((47 : Nat) : Int) := this.mpr q
      rw [h1, q2]; rfl
    · have q2 : ¬ b = 47 := fun hh => q (by rw [hh]; rfl)
      have q3 : schar (Char.ofNat b.toNat) ≠ ((47 : Nat) : Int) := fun hh => q (this.mp hh)
      have q4 : cSlash ≠ b := fun hh => q2 (by rw [← hh]; rfl)
      rw [beq_eq_false_iff_ne.mpr q3, beq_eq_false_iff_ne.mpr q4]

theorem mod_eq (b : UInt8) (k : Nat) (hk : k < 256) : (Char.ofNat b.toNat).toNat % 256 = k ↔ b = UInt8.ofNat k := by
  have h : b.toNat < 256 := b.toNat_lt
  rw [char_toNat, Nat.mod_eq_of_lt h]
  constructor
  · intro q; apply UInt8.toNat_inj.mp; rw [q]; simp [Nat.mod_eq_of_lt hk]
  · intro q; rw [q]; simp [Nat.mod_eq_of_lt hk]

theorem strcmp_dotdot (n : List UInt8) :
    (strcmpS (cstr n) [Char.ofNat 46, Char.ofNat 46] = 0) ↔ n = sDotDot := by
  have c46 : (Char.ofNat 46).toNat % 256 = 46 := by decide
  match n with
  | [] => simp [cstr, strcmpS, sDotDot]
  | [a] =>
    simp only [cstr, List.map_cons, List.map_nil, strcmpS, c46, sDotDot]
    split <;> simp <;> split <;> simp
  | [a, b] =>
    have ha := mod_eq a 46 (by omega)
    have hb := mod_eq b 46 (by omega)
    simp only [cstr, List.map_cons, List.map_nil, strcmpS, c46, sDotDot]
    by_cases qa : a = 46 <;> by_cases qb : b = 46
    · subst qa; subst qb; decide
    · have : ¬ (Char.ofNat b.toNat).toNat % 256 = 46 := fun hh => qb (hb.mp hh)
      subst qa
      simp [this, qb]
      split <;> simp
    · have : ¬ (Char.ofNat a.toNat).toNat % 256 = 46 := fun hh => qa (ha.mp hh)
      simp [this, qa]
      split <;> simp
    · have : ¬ (Char.ofNat a.toNat).toNat % 256 = 46 := fun hh => qa (ha.mp hh)
      simp [this, qa]
      split <;> simp
  | a :: b :: c :: r =>
    simp only [cstr, List.map_cons, strcmpS, c46, sDotDot]
    split
    · split
      · simp
      · split <;> simp
    · split <;> simp

/-- BRIDGE the name test of `_sink` = `!narrowNameOk`: a received name is refused iff it contains `/` or is `..` -/
theorem sink_name_bad_bridge (n : List UInt8) : sink_name_bad (cstr n) = some (!narrowNameOk n) := by
  have e : toChar 47 ≠ 0 := by decide
  simp only [sink_name_bad, strchrP, any_slash, e, or_false, narrowNameOk]
  congr 1
  have hd := strcmp_dotdot n
  have hdd := (strcmp_dotdot sDotDot).mpr rfl
  by_cases q1 : n.contains cSlash = true <;> by_cases q2 : n = sDotDot
  · subst q2; simp [hdd]
  · have : ¬ strcmpS (cstr n) [Char.ofNat 46, Char.ofNat 46] = 0 := fun hh => q2 (hd.mp hh)
    simp [q1, this, q2]
  · subst q2; simp [hdd]
  · have : ¬ strcmpS (cstr n) [Char.ofNat 46, Char.ofNat 46] = 0 := fun hh => q2 (hd.mp hh)
    simp [q1, this, q2]

end PdshVerif.Bridge.PcpServer
