/-
  BRIDGE: the functions of src/common/hostlist.c that tools/c2lean.py translates on every run
  (Gen/FnHostlist.lean) compute exactly what the hand-written hostlist model says, for ALL arguments
  in the C ranges.  A behavioural change of one of these C functions makes the regenerated definition
  differ and the theorem below fail to build.

  Reading guide: `Gen.Fn.Hostlist.f args = some v` means "f, run on these arguments, has no undefined
  behaviour, its loops terminate within the fuel, and it returns v".
-/
import PdshVerif.Gen.FnHostlist
import PdshVerif.Hostlist.Uniq
import PdshVerif.Hostlist.Print
import PdshVerif.Hostlist.PrintMore
import PdshVerif.Hostlist.LemmasUniq
import PdshVerif.Hostlist.LemmasDigits
import PdshVerif.Hostlist.Find
import PdshVerif.Hostlist.Parse

namespace PdshVerif.Bridge.Hostlist
open PdshVerif.Hostlist PdshVerif.C2Lean
open PdshVerif.Gen.Fn.Hostlist

/-! ### `_zero_padded` -/

theorem ndig_step (n : Nat) (h : n / 10 ≠ 0) : ndig n = ndig (n / 10) + 1 := by
  unfold ndig
  have h10 : ¬ n < 10 := by omega
  rw [Nat.toDigits_eq_if (n := n)]
  simp [h10]
  omega

theorem ndig_small (n : Nat) (h : n / 10 = 0) : ndig n = 1 := by
  unfold ndig
  have h10 : n < 10 := by omega
  rw [Nat.toDigits_eq_if (n := n)] <;> simp [h10]

/-- the digit-counting loop: it ends with `num = 0` and has added `ndig num - 1` to `n` -/
theorem zero_padded_loop (fuel : Nat) : ∀ (k num : Nat) (n : Int),
    ndig num ≤ k → -2147483648 ≤ n → n + ndig num ≤ 2147483648 →
    _zero_padded_loop1 fuel k num n = some (0, n + ndig num - 1) := by
  intro k
  induction k with
  | zero => intro num n hk; have := ndig_pos num; omega
  | succ k ih =>
    intro num n hk hlo hhi
    unfold _zero_padded_loop1
    by_cases h : num / 10 = 0
    · have := ndig_small num h
      simp [h, this]
    · have hs := ndig_step num h
      simp only [ne_eq, h, not_false_eq_true, if_true]
      have hr : (-2147483648 ≤ n + 1 ∧ n + 1 ≤ 2147483647) := by
        have := ndig_pos (num / 10); omega
      simp only [hr, not_true_eq_false, if_false, and_self]
      rw [ih (num / 10) (n + 1) (by omega) (by omega) (by omega)]
      simp only [Option.some.injEq, Prod.mk.injEq, true_and]
      omega

/-- BRIDGE `_zero_padded` = `zeroPadded`: for every `unsigned long num`, every non-negative `int width`
    and every fuel ≥ 20 -/
theorem zero_padded_bridge (fuel num w : Nat) (hf : 20 ≤ fuel) (hn : num < U64) (hw : w ≤ 2147483647) :
    _zero_padded fuel num (w : Int) = some ((zeroPadded num w : Nat) : Int) := by
  have h20 := Print.ndig_le_20 hn
  have hp := ndig_pos num
  unfold _zero_padded
  simp only
  rw [zero_padded_loop fuel fuel num 1 (by omega) (by omega) (by omega)]
  simp only [zeroPadded]
  have e : (1 : Int) + (ndig num : Int) - 1 = (ndig num : Int) := by omega
  simp only [e]
  have hr : -2147483648 ≤ (w : Int) - (ndig num : Int) ∧ (w : Int) - (ndig num : Int) ≤ 2147483647 := by omega
  -- three cases, each with the facts either spelling of the comparison (`>`, `<`, `>=`, `<=`) needs
  rcases Nat.lt_trichotomy w (ndig num) with hlt | heq | hgt
  · have a1 : ¬ (w : Int) > (ndig num : Int) := by omega
    have a2 : ¬ (w : Int) ≥ (ndig num : Int) := by omega
    have a3 : ¬ (ndig num : Int) < (w : Int) := by omega
    have a4 : ¬ (ndig num : Int) ≤ (w : Int) := by omega
    have a5 : ¬ w > ndig num := by omega
    simp [a1, a2, a3, a4, a5, hr]
  · have a1 : ¬ (w : Int) > (ndig num : Int) := by omega
    have a3 : ¬ (ndig num : Int) < (w : Int) := by omega
    have a5 : ¬ w > ndig num := by omega
    have a6 : (w : Int) - (ndig num : Int) = 0 := by omega
    simp [a1, a3, a5, a6, hr]
  · have a1 : (w : Int) > (ndig num : Int) := by omega
    have a2 : (w : Int) ≥ (ndig num : Int) := by omega
    have a3 : (ndig num : Int) < (w : Int) := by omega
    have a4 : (ndig num : Int) ≤ (w : Int) := by omega
    have a5 : w > ndig num := by omega
    have e2 : ((w - ndig num : Nat) : Int) = (w : Int) - (ndig num : Int) := by omega
    simp [a1, a2, a3, a4, a5, hr, e2]

/-- negative widths (never produced by the parser, but inside the C range): no padding -/
theorem zero_padded_neg (fuel num : Nat) (w : Int) (hf : 20 ≤ fuel) (hn : num < U64)
    (hw : -2147483648 ≤ w) (hneg : w ≤ 0) :
    _zero_padded fuel num w = some 0 := by
  have h20 := Print.ndig_le_20 hn
  have hp := ndig_pos num
  unfold _zero_padded
  simp only
  rw [zero_padded_loop fuel fuel num 1 (by omega) (by omega) (by omega)]
  have e : (1 : Int) + (ndig num : Int) - 1 = (ndig num : Int) := by omega
  simp only [e]
  have a1 : ¬ w > (ndig num : Int) := by omega
  have a2 : ¬ w ≥ (ndig num : Int) := by omega
  have a3 : ¬ (ndig num : Int) < w := by omega
  have a4 : ¬ (ndig num : Int) ≤ w := by omega
  simp [a1, a2, a3, a4]

/-! ### `_width_equiv` -/

/-- BRIDGE `_width_equiv` = `widthEquiv` (return value, `*wn` and `*wm` afterwards).  The C function
    first compares the two POINTERS; the translation assumes they differ (registry: noalias), as the
    model does. -/
theorem width_equiv_bridge (fuel n wn m wm : Nat) (hf : 20 ≤ fuel) (hn : n < U64) (hm : m < U64)
    (hwn : wn ≤ 2147483647) (hwm : wm ≤ 2147483647) :
    _width_equiv fuel n (wn : Int) m (wm : Int) =
      some (if (widthEquiv n wn m wm).1 then 1 else 0,
            ((widthEquiv n wn m wm).2.1 : Int), ((widthEquiv n wn m wm).2.2 : Int)) := by
  unfold _width_equiv
  rw [zero_padded_bridge fuel n wn hf hn hwn, zero_padded_bridge fuel n wm hf hn hwm,
      zero_padded_bridge fuel m wm hf hm hwm, zero_padded_bridge fuel m wn hf hm hwn]
  simp only [widthEquiv, ne_eq, Int.natCast_inj]
  by_cases h1 : zeroPadded n wn = zeroPadded n wm <;> by_cases h2 : zeroPadded m wm = zeroPadded m wn <;>
    simp [h1, h2]

/-! ### range records -/

/-- the C record a model record stands for (`singlehost` is a 1-bit field) -/
def toC (r : HRange) : hostrange_components :=
  { prefix_ := r.pre, lo := r.lo, hi := r.hi, width := (r.width : Int), singlehost := if r.single then 1 else 0 }

/-- the model record is inside the C ranges of its fields; names are byte strings -/
structure InC (r : HRange) : Prop where
  lo : r.lo < U64
  hi : r.hi < U64
  width : r.width ≤ 2147483647
  bytes : ∀ c ∈ r.pre, c.toNat < 256

/-- BRIDGE `hostrange_count` = `HRange.count` -/
theorem hostrange_count_bridge (r : HRange) (h : InC r) :
    hostrange_count (toC r) = some r.count := by
  have := h.lo; have := h.hi
  cases hs : r.single <;>
    simp [hostrange_count, toC, HRange.count, addU64, subU64, U64, hs]

/-- BRIDGE `hostrange_empty` = `HRange.empty` -/
theorem hostrange_empty_bridge (r : HRange) :
    hostrange_empty (toC r) = some (if r.empty then 1 else 0) := by
  by_cases h1 : r.hi < r.lo <;> by_cases h2 : r.hi = 18446744073709551615 <;>
    simp [hostrange_empty, toC, HRange.empty, ULONG_MAX, h1, h2]

theorem strcmpS_eq : ∀ (a b : Str), (∀ c ∈ a, c.toNat < 256) → (∀ c ∈ b, c.toNat < 256) →
    strcmpS a b = strcmpSign a b
  | [], [], _, _ => by simp [strcmpS, strcmpSign]
  | [], _ :: _, _, _ => by simp [strcmpS, strcmpSign]
  | _ :: _, [], _, _ => by simp [strcmpS, strcmpSign]
  | x :: xs, y :: ys, ha, hb => by
    have hx : x.toNat < 256 := ha x (by simp)
    have hy : y.toNat < 256 := hb y (by simp)
    have ih := strcmpS_eq xs ys (fun c hc => ha c (by simp [hc])) (fun c hc => hb c (by simp [hc]))
    simp only [strcmpS, strcmpSign, Nat.mod_eq_of_lt hx, Nat.mod_eq_of_lt hy, ih, Char.toNat_inj]

/-- BRIDGE `hostrange_prefix_cmp` = `prefixCmp` (`strcmp` by its sign; both pointers non-NULL) -/
theorem hostrange_prefix_cmp_bridge (a b : HRange) (ha : InC a) (hb : InC b) :
    hostrange_prefix_cmp (toC a) (toC b) = some (prefixCmp a b) := by
  simp only [hostrange_prefix_cmp, toC, prefixCmp, strcmpS_eq a.pre b.pre ha.bytes hb.bytes]
  cases a.single <;> cases b.single <;> simp <;> split <;> simp_all

theorem strcmpSign_self : ∀ (a : Str), strcmpSign a a = 0
  | [] => rfl
  | x :: xs => by simp [strcmpSign, strcmpSign_self xs]

theorem prefixCmp_eq_zero_iff (a b : HRange) : prefixCmp a b = 0 ↔ (a.pre = b.pre ∧ a.single = b.single) := by
  constructor
  · exact prefixCmp_zero
  · intro ⟨h1, h2⟩
    simp [prefixCmp, h1, h2, strcmpSign_self]

/-- BRIDGE `hostrange_within_range` = `withinRange` -/
theorem hostrange_within_range_bridge (a b : HRange) (ha : InC a) (hb : InC b) :
    hostrange_within_range (toC a) (toC b) = some (if Print.withinRange a b then 1 else 0) := by
  unfold hostrange_within_range
  rw [hostrange_prefix_cmp_bridge a b ha hb]
  simp only [Print.withinRange]
  have hiff := prefixCmp_eq_zero_iff a b
  obtain ⟨ap, alo, ahi, aw, as⟩ := a
  obtain ⟨bp, blo, bhi, bw, bs⟩ := b
  by_cases h : prefixCmp ⟨ap, alo, ahi, aw, as⟩ ⟨bp, blo, bhi, bw, bs⟩ = 0
  · have ⟨h1, h2⟩ := hiff.1 h
    cases as <;> cases bs <;> simp_all [toC]
  · have h' := mt hiff.2 h
    cases as <;> cases bs <;> simp_all [toC]

/-- the records after `hostrange_width_combine(h0, h1)` -/
def combined (h0 h1 : HRange) : HRange × HRange :=
  ({ h0 with width := (widthCombine h0 h1).2.1 }, { h1 with width := (widthCombine h0 h1).2.2 })

/-- BRIDGE `hostrange_width_combine` = `widthCombine` (return value and both records afterwards) -/
theorem hostrange_width_combine_bridge (fuel : Nat) (h0 h1 : HRange) (hf : 20 ≤ fuel) (i0 : InC h0) (i1 : InC h1) :
    hostrange_width_combine fuel (toC h0) (toC h1) =
      some (if (widthCombine h0 h1).1 then 1 else 0, toC (combined h0 h1).1, toC (combined h0 h1).2) := by
  unfold hostrange_width_combine
  simp only [toC]
  rw [width_equiv_bridge fuel h0.lo h0.width h1.lo h1.width hf i0.lo i1.lo i0.width i1.width]
  simp only [combined, widthCombine, toC]
  rfl

theorem widthEquiv_false {n wn m wm : Nat} (h : (widthEquiv n wn m wm).1 = false) :
    (widthEquiv n wn m wm).2 = (wn, wm) := by
  unfold widthEquiv at *
  simp only at *
  split at h
  · simp_all
  · split at h
    · split at h <;> simp_all
    · simp at h

theorem widthEquiv_le {n wn m wm : Nat} (hn : wn ≤ 2147483647) (hm : wm ≤ 2147483647) :
    (widthEquiv n wn m wm).2.1 ≤ 2147483647 ∧ (widthEquiv n wn m wm).2.2 ≤ 2147483647 := by
  unfold widthEquiv
  simp only
  split
  · simp [hn, hm]
  · split
    · split <;> simp [hn, hm]
    · simp [hm]

theorem combined_inC {h0 h1 : HRange} (i0 : InC h0) (i1 : InC h1) : InC (combined h0 h1).1 ∧ InC (combined h0 h1).2 := by
  have := widthEquiv_le (n := h0.lo) (m := h1.lo) i0.width i1.width
  exact ⟨⟨i0.lo, i0.hi, this.1, i0.bytes⟩, ⟨i1.lo, i1.hi, this.2, i1.bytes⟩⟩

/-- BRIDGE `hostrange_cmp` = `hostrangeCmp` for the variant of the low-bound comparison (finding D26) that
    the behavioural probe reports (`Gen.FIX_D26_CMPTRUNC`): the source text and the probe agree.
    The C comparator also rewrites the widths in place when the prefixes are equal; the model's sort
    does not apply that rewrite (Uniq.lean explains why it is unobservable), the bridge states it. -/
theorem hostrange_cmp_bridge (cfg : Cfg) (fuel : Nat) (a b : HRange) (hcfg : cfg.fixCmpTrunc = PdshVerif.Gen.FIX_D26_CMPTRUNC)
    (hf : 20 ≤ fuel) (ia : InC a) (ib : InC b) :
    hostrange_cmp fuel (toC a) (toC b) =
      some (hostrangeCmp cfg a b,
            if prefixCmp a b = 0 then toC (combined a b).1 else toC a,
            if prefixCmp a b = 0 then toC (combined a b).2 else toC b) := by
  unfold hostrange_cmp
  rw [hostrange_prefix_cmp_bridge a b ia ib]
  simp only [hostrangeCmp]
  by_cases h : prefixCmp a b = 0
  · simp only [h, if_true]
    rw [hostrange_width_combine_bridge fuel a b hf ia ib]
    have hle := widthEquiv_le (n := a.lo) (m := b.lo) ia.width ib.width
    cases hw : (widthCombine a b).1
    · have hf2 := widthEquiv_false (by simpa [widthCombine] using hw : (widthEquiv a.lo a.width b.lo b.width).1 = false)
      have ha := ia.width; have hb := ib.width
      simp [hw, combined, toC, widthCombine, hf2]
      omega
    · have hfix : cfg.fixCmpTrunc = true := by rw [hcfg]; decide
      have ha := ia.lo; have hb := ib.lo
      simp only [hw, combined, toC, loCmp, hfix, if_true]
      by_cases h1 : a.lo < b.lo
      · have h2 : ¬ a.lo > b.lo := by omega
        simp [h1, h2]
      · by_cases h3 : a.lo = b.lo
        · simp [h3]
        · have h2 : a.lo > b.lo := by omega
          simp [h1, h2, h3]
  · simp [h]

/- field projections of `toC` as PROPOSITIONAL rewrite rules (proved by cases, so that `simp` builds
   congruence proofs instead of asking the kernel to unfold through `toInt32`) -/
theorem toC_lo (r : HRange) : (toC r).lo = r.lo := by cases r; exact rfl
theorem toC_hi (r : HRange) : (toC r).hi = r.hi := by cases r; exact rfl
theorem toC_sethi (r : HRange) (h : Nat) : { toC r with hi := h } = toC { r with hi := h } := by cases r; exact rfl

theorem toInt32_eq (n : Nat) : ((n : Int) + 2147483648) % 4294967296 - 2147483648 = toInt32 n := by
  unfold toInt32
  simp only
  split <;> omega

/-- BRIDGE `hostrange_join` = `hostrangeJoin`: the return value (-1 = no join) and both records afterwards.
    (Proof note: the model's result is named `(d, a', b')` first, so that the kernel never has to
    reduce a projection of a term containing `toInt32` of an open term — that unfolds `Nat.mod`.) -/
theorem hostrange_join_bridge (fuel : Nat) (a b : HRange) (hf : 20 ≤ fuel) (ia : InC a) (ib : InC b) :
    hostrange_join fuel (toC a) (toC b) =
      some ((hostrangeJoin a b).1.getD (-1), toC (hostrangeJoin a b).2.1, toC (hostrangeJoin a b).2.2) := by
  have hpc := hostrange_prefix_cmp_bridge a b ia ib
  have hwcb := hostrange_width_combine_bridge fuel a b hf ia ib
  have hcnt := hostrange_count_bridge _ (combined_inC ia ib).2
  rcases hj : hostrangeJoin a b with ⟨d, a', b'⟩
  simp only []
  unfold hostrange_join
  rw [hpc]
  simp only []
  simp only [hostrangeJoin] at hj
  by_cases h : prefixCmp a b = 0
  · rw [if_pos h] at hj
    rw [if_pos h, hwcb]
    rcases hwc : widthCombine a b with ⟨ok, w1, w2⟩
    simp only [combined, hwc] at hcnt hj ⊢
    cases ok
    · have hf2 := widthEquiv_false (n := a.lo) (wn := a.width) (m := b.lo) (wm := b.width)
        (by have := congrArg Prod.fst hwc; simpa [widthCombine] using this)
      have e2 : (w1, w2) = (a.width, b.width) := by
        have := congrArg Prod.snd hwc; simp only [widthCombine] at this; rw [← this, hf2]
      simp only [Prod.mk.injEq] at e2 hj
      obtain ⟨rfl, rfl, rfl⟩ := hj
      simp [e2.1, e2.2]
    · have one : ((1 : Int) ≠ 0) = True := by simp
      simp only [if_true, one]
      simp only [] at hj
      rw [hcnt]
      simp only [toInt32_eq]
      by_cases c1 : (a.single && b.single) = true
      · have ⟨s1, s2⟩ : a.single = true ∧ b.single = true := by simpa using c1
        rw [if_pos c1] at hj
        simp only [Prod.mk.injEq] at hj
        obtain ⟨rfl, rfl, rfl⟩ := hj
        simp [toC, s1, s2]
      · have c1' : ¬ (((toC { a with width := w1 }).singlehost : Int) ≠ 0 ∧ ((toC { b with width := w2 }).singlehost : Int) ≠ 0) := by
          cases hsa : a.single <;> cases hsb : b.single <;> simp_all [toC]
        rw [if_neg c1] at hj
        rw [if_neg c1']
        by_cases c2 : a.hi = subU64 b.lo 1
        · have c2' : (toC { a with width := w1 }).hi = ((toC { b with width := w2 }).lo + 18446744073709551616 - 1) % 18446744073709551616 := c2
          rw [if_pos c2] at hj
          rw [if_pos c2']
          simp only [Prod.mk.injEq] at hj
          obtain ⟨rfl, rfl, rfl⟩ := hj
          rfl
        · have c2' : ¬ (toC { a with width := w1 }).hi = ((toC { b with width := w2 }).lo + 18446744073709551616 - 1) % 18446744073709551616 := c2
          rw [if_neg c2] at hj
          rw [if_neg c2']
          by_cases c3 : a.hi ≥ b.lo
          · have c3' : (toC { a with width := w1 }).hi ≥ (toC { b with width := w2 }).lo := c3
            rw [if_pos c3] at hj
            rw [if_pos c3']
            by_cases c4 : a.hi < b.hi
            · have c4' : (toC { a with width := w1 }).hi < (toC { b with width := w2 }).hi := c4
              rw [if_pos c4] at hj
              rw [if_pos c4']
              simp only [Prod.mk.injEq] at hj
              obtain ⟨rfl, rfl, rfl⟩ := hj
              rw [Option.getD_some]
              have e : (((toC { a with width := w1 }).hi + 18446744073709551616 - (toC { b with width := w2 }).lo)
                    % 18446744073709551616 + 1) % 18446744073709551616 = addU64 (subU64 a.hi b.lo) 1 := rfl
              rw [e]
              rfl
            · have c4' : ¬ (toC { a with width := w1 }).hi < (toC { b with width := w2 }).hi := c4
              rw [if_neg c4] at hj
              rw [if_neg c4']
              simp only [Prod.mk.injEq] at hj
              obtain ⟨rfl, rfl, rfl⟩ := hj
              rw [Option.getD_some]
              rfl
          · have c3' : ¬ (toC { a with width := w1 }).hi ≥ (toC { b with width := w2 }).lo := c3
            rw [if_neg c3] at hj
            rw [if_neg c3']
            simp only [Prod.mk.injEq] at hj
            obtain ⟨rfl, rfl, rfl⟩ := hj
            rfl
  · rw [if_neg h] at hj
    simp only [Prod.mk.injEq] at hj
    obtain ⟨rfl, rfl, rfl⟩ := hj
    simp [h]

/-! ### `host_prefix_end` -/

theorem isdigitP_schar (c : Char) (hc : c.toNat < 256) : isdigitP (schar c) ↔ isDigit c = true := by
  rw [isDigit_iff]
  unfold isdigitP schar
  have : c.toNat % 256 = c.toNat := Nat.mod_eq_of_lt hc
  rw [this]
  split <;> omega

/-- the backwards scan: started at index `i - 1` it stops at the last non-digit before position `i` -/
theorem host_prefix_end_loop (fuel : Nat) (s : Str) (hb : ∀ c ∈ s, c.toNat < 256) (hl : s.length < 2147483647) :
    ∀ (i k : Nat), i ≤ s.length → i < k →
      host_prefix_end_loop1 fuel s k ((i : Int) - 1) =
        some (((i - ((s.take i).reverse.takeWhile isDigit).length : Nat) : Int) - 1) := by
  intro i
  induction i with
  | zero =>
    intro k _ hk
    cases k with
    | zero => omega
    | succ k => simp [host_prefix_end_loop1]
  | succ i ih =>
    intro k hi hk
    cases k with
    | zero => omega
    | succ k =>
      have hlt : i < s.length := by omega
      have e0 : ((i + 1 : Nat) : Int) - 1 = (i : Int) := by omega
      rw [e0]
      unfold host_prefix_end_loop1
      have hc1 : (0 : Int) ≤ (i : Int) ∧ (i : Int) ≤ (s.length : Int) := by omega
      have hge : (i : Int) ≥ 0 := by omega
      have hat : strAt s (i : Int).toNat = schar s[i] := by
        simp [strAt, hlt]
      have htake : (s.take (i + 1)).reverse = s[i] :: (s.take i).reverse := by
        rw [List.take_succ_eq_append_getElem hlt]; simp
      have hcb : s[i].toNat < 256 := hb _ (List.getElem_mem hlt)
      simp only [hc1, hge, and_self, not_true_eq_false, and_false, if_false, true_and, hat, isdigitP_schar _ hcb, htake,
        List.takeWhile_cons]
      by_cases hd : isDigit s[i] = true
      · have hr : -2147483648 ≤ (i : Int) - 1 ∧ (i : Int) - 1 ≤ 2147483647 := by omega
        simp only [hd, if_true, hr, and_self, not_true_eq_false, if_false]
        rw [ih k (by omega) (by omega)]
        have := (List.takeWhile_sublist (p := isDigit) (l := (s.take i).reverse)).length_le
        simp only [List.length_cons, List.length_reverse, List.length_take] at this ⊢
        congr 1
        omega
      · simp only [hd, Bool.false_eq_true, if_false, List.length_nil]
        congr 1
        omega

/-- BRIDGE `host_prefix_end` = `hostPrefixLen - 1` (index of the last character of the prefix, -1 if none),
    for every byte string shorter than INT_MAX and fuel > its length -/
theorem host_prefix_end_bridge (fuel : Nat) (s : Str) (hb : ∀ c ∈ s, c.toNat < 256) (hl : s.length < 2147483647)
    (hf : s.length < fuel) :
    host_prefix_end fuel s = some ((hostPrefixLen s : Int) - 1) := by
  unfold host_prefix_end
  have e : ((((s.length + 18446744073709551616 - 1) % 18446744073709551616 : Nat) : Int) + 2147483648) % 4294967296
      - 2147483648 = (s.length : Int) - 1 := by omega
  simp only [e]
  rw [host_prefix_end_loop fuel s hb hl s.length fuel (Nat.le_refl _) hf]
  simp [hostPrefixLen]

/-! ### conditions INSIDE `_parse_single_range` and `hostrange_hn_within` (translated as expressions:
    registry entries `parse_range_order`, `parse_range_toobig`, `hn_within_final`, `hn_within_retry`) -/

def rangeC (lo hi : Nat) : _range := { (default : _range) with lo := lo, hi := hi }

/-- BRIDGE `range->lo > range->hi` = the order test of `rangeCheck` -/
theorem parse_range_order_bridge (lo hi : Nat) : parse_range_order (rangeC lo hi) = some (decide (lo > hi)) := by
  by_cases h : lo > hi <;> simp [parse_range_order, rangeC, h] <;> omega

/-- BRIDGE `range->hi == ULONG_MAX || range->hi - range->lo >= MAX_RANGE` = the size test of `rangeCheck`
    (`rangeTooBig lo hi || ulongMaxRejected cfg hi`) for every ordered pair of `unsigned long`s, for the
    configuration the behavioural probe of finding D15 reports (source text and probe must agree) -/
theorem parse_range_toobig_bridge (cfg : Cfg) (hcfg : cfg.fixUlongMax = PdshVerif.Gen.FIX_D15_ULONGMAX)
    (lo hi : Nat) (hle : lo ≤ hi) (hhi : hi < U64) :
    parse_range_toobig (rangeC lo hi) = some (rangeTooBig lo hi || ulongMaxRejected cfg hi) := by
  simp only [parse_range_toobig, rangeC, rangeTooBig, ulongMaxRejected, hcfg, PdshVerif.Gen.FIX_D15_ULONGMAX,
    subU64, addU64, U64, ULONG_MAX, PdshVerif.Gen.MAX_RANGE] at *
  by_cases h1 : hi = 18446744073709551615
  · simp [h1]
  · have e : (hi + 18446744073709551616 - lo) % 18446744073709551616 = hi - lo := by omega
    have e2 : (hi - lo + 1) % 18446744073709551616 = hi - lo + 1 := by omega
    simp only [e, e2, h1, false_or, Bool.true_and, decide_false, Bool.or_false]
    congr 1
    by_cases h2 : hi - lo ≥ 16384
    · have : hi - lo + 1 > 16384 := by omega
      simp [h2, this]
    · have : ¬ hi - lo + 1 > 16384 := by omega
      simp [h2, this]

/-- the C `struct hostname_components` of a model host name with a numeric suffix -/
def hnC (hn : Hostname) : hostname_components :=
  { (default : hostname_components) with prefix_ := hn.pre, num := hn.num }

/-- BRIDGE the last test of `hostrange_hn_within` = `hnMatch` (`len_hr`, `len_hn` are the two `strlen`s) -/
theorem hn_within_final_bridge (r : HRange) (hn : Hostname) (hr : InC r)
    (hb : ∀ c ∈ hn.pre, c.toNat < 256) :
    hn_within_final (r.pre.length : Int) (hn.pre.length : Int) (hnC hn) (toC r) = some (hnMatch r hn) := by
  have hs := strcmpS_eq hn.pre r.pre hb hr.bytes
  have hz : strcmpSign hn.pre r.pre = 0 ↔ hn.pre = r.pre :=
    ⟨strcmpSign_eq_zero _ _, fun h => by rw [h]; exact strcmpSign_self _⟩
  simp only [hn_within_final, hnC, toC, hnMatch]
  congr 1
  by_cases h1 : r.pre.length = hn.pre.length <;> by_cases h2 : hn.pre = r.pre <;>
    by_cases h3 : hn.num ≤ r.hi <;> by_cases h4 : hn.num ≥ r.lo <;>
    simp_all [strcmpSign_self]

end PdshVerif.Bridge.Hostlist
