/-
  BRIDGE: decisions INSIDE src/pdsh/pcp_server.c `_sink` (a 250-line I/O function; the translator takes the
  CONDITION of the `if` statement whose first line matches the regex of the registry entry, see
  tools/c2lean.md "fragments") against the receiver model `Pcp/Sink.lean` (C12):

    sink_name_bad        `strchr (cp, '/') != NULL || strcmp (cp, "..") == 0`   = `!narrowNameOk`
    sink_mode_digit_bad  `*cp < '0' || *cp > '7'`                               = not an octal digit
    sink_read_failed     `j <= 0` after `read()`                                = EOF or error ends the transfer

  Names are byte strings without NUL (`List UInt8` in the model, `List Char` with code points 1..255 in the
  translation).
-/
import PdshVerif.Gen.FnPcpServer
import PdshVerif.Pcp.Sink

namespace PdshVerif.Bridge.PcpServer
open PdshVerif.Pcp PdshVerif.C2Lean
open PdshVerif.Gen.Fn.PcpServer

/-- the C string of a model byte string -/
def cstr (n : List UInt8) : List Char := n.map fun b => Char.ofNat b.toNat

theorem char_toNat (b : UInt8) : (Char.ofNat b.toNat).toNat = b.toNat := by
  have h : b.toNat < 256 := b.toNat_lt
  have hv : b.toNat.isValidChar := by
    left; omega
  simp [Char.ofNat, hv, Char.ofNatAux, Char.toNat]

/-- a byte read through `char` equals the (small, positive) byte `k` iff it is that byte -/
theorem schar_eq (b : UInt8) (k : Nat) (hk : k < 128) : schar (Char.ofNat b.toNat) = (k : Int) ↔ b.toNat = k := by
  have h : b.toNat < 256 := b.toNat_lt
  unfold schar
  rw [char_toNat, Nat.mod_eq_of_lt h]
  split <;> omega

theorem any_slash : ∀ (n : List UInt8),
    ((cstr n).any fun ch => schar ch == toChar 47) = n.contains cSlash
  | [] => rfl
  | b :: r => by
    have ih := any_slash r
    have e : toChar 47 = ((47 : Nat) : Int) := by decide
    simp only [cstr, List.map_cons, List.any_cons, List.contains_cons] at ih ⊢
    rw [ih, e]
    congr 1
    have := schar_eq b 47 (by omega)
    by_cases q : b.toNat = 47
    · have q2 : b = 47 := UInt8.toNat_inj.mp q
      have h1 : schar (Char.ofNat b.toNat) = ((47 : Nat) : Int) := this.mpr q
      rw [h1, q2]; rfl
    · have q2 : ¬ b = 47 := fun hh => q (by rw [hh]; rfl)
      have q3 : schar (Char.ofNat b.toNat) ≠ ((47 : Nat) : Int) := fun hh => q (this.mp hh)
      have q4 : cSlash ≠ b := fun hh => q2 (by rw [← hh]; rfl)
      rw [beq_eq_false_iff_ne.mpr q3, beq_eq_false_iff_ne.mpr q4]

theorem mod_eq (b : UInt8) (k : Nat) (hk : k < 256) : (Char.ofNat b.toNat).toNat % 256 = k ↔ b = UInt8.ofNat k := by
  have h : b.toNat < 256 := b.toNat_lt
  rw [char_toNat, Nat.mod_eq_of_lt h]
  constructor
  · intro q; apply UInt8.toNat_inj.mp; rw [q]; simp [Nat.mod_eq_of_lt hk]
  · intro q; rw [q]; simp [Nat.mod_eq_of_lt hk]

theorem strcmp_dotdot (n : List UInt8) :
    (strcmpS (cstr n) [Char.ofNat 46, Char.ofNat 46] = 0) ↔ n = sDotDot := by
  have c46 : (Char.ofNat 46).toNat % 256 = 46 := by decide
  match n with
  | [] => simp [cstr, strcmpS, sDotDot]
  | [a] =>
    simp only [cstr, List.map_cons, List.map_nil, strcmpS, c46, sDotDot]
    split <;> simp <;> split <;> simp
  | [a, b] =>
    have ha := mod_eq a 46 (by omega)
    have hb := mod_eq b 46 (by omega)
    simp only [cstr, List.map_cons, List.map_nil, strcmpS, c46, sDotDot]
    by_cases qa : a = 46 <;> by_cases qb : b = 46
    · subst qa; subst qb; decide
    · have : ¬ (Char.ofNat b.toNat).toNat % 256 = 46 := fun hh => qb (hb.mp hh)
      subst qa
      simp [this, qb]
      split <;> simp
    · have : ¬ (Char.ofNat a.toNat).toNat % 256 = 46 := fun hh => qa (ha.mp hh)
      simp [this, qa]
      split <;> simp
    · have : ¬ (Char.ofNat a.toNat).toNat % 256 = 46 := fun hh => qa (ha.mp hh)
      simp [this, qa]
      split <;> simp
  | a :: b :: c :: r =>
    simp only [cstr, List.map_cons, strcmpS, c46, sDotDot]
    split
    · split
      · simp
      · split <;> simp
    · split <;> simp

/-- BRIDGE the name test of `_sink` = `!narrowNameOk`: a received name is refused iff it contains `/` or is `..` -/
theorem sink_name_bad_bridge (n : List UInt8) : sink_name_bad (cstr n) = some (!narrowNameOk n) := by
  have e : toChar 47 ≠ 0 := by decide
  simp only [sink_name_bad, strchrP, any_slash, e, or_false, narrowNameOk]
  congr 1
  have hd := strcmp_dotdot n
  have hdd := (strcmp_dotdot sDotDot).mpr rfl
  by_cases q1 : n.contains cSlash = true <;> by_cases q2 : n = sDotDot
  · subst q2; simp [hdd]
  · have : ¬ strcmpS (cstr n) [Char.ofNat 46, Char.ofNat 46] = 0 := fun hh => q2 (hd.mp hh)
    simp [q1, this, q2]
  · subst q2; simp [hdd]
  · have : ¬ strcmpS (cstr n) [Char.ofNat 46, Char.ofNat 46] = 0 := fun hh => q2 (hd.mp hh)
    simp [q1, this, q2]

/-- BRIDGE the mode-digit test: a byte is refused iff it is not one of '0'..'7' (the end of the buffer, NUL,
    included) -/
theorem sink_mode_digit_bad_bridge (s : List UInt8) :
    sink_mode_digit_bad (cstr s) =
      some (match s.head? with | some b => decide (b.toNat < 48 ∨ b.toNat > 55) | none => true) := by
  match s with
  | [] => simp [sink_mode_digit_bad, cstr, strAt]
  | b :: r =>
    have h : b.toNat < 256 := b.toNat_lt
    simp only [sink_mode_digit_bad, cstr, List.map_cons, strAt, List.head?_cons]
    have hr : (0 : Int) ≤ 0 ∧ (0 : Int) ≤ ((Char.ofNat b.toNat :: List.map (fun b => Char.ofNat b.toNat) r).length : Int) :=
      ⟨by omega, by omega⟩
    simp only [Int.toNat_zero, List.getElem?_cons_zero, hr, not_true_eq_false, and_false, if_false, schar, char_toNat,
      Nat.mod_eq_of_lt h]
    by_cases q : b.toNat < 128
    · simp only [q, if_true]
      by_cases a : b.toNat < 48 <;> by_cases c : b.toNat > 55 <;> simp [a, c] <;> omega
    · simp only [q, if_false]
      have a : ¬ b.toNat < 48 := by omega
      have c : b.toNat > 55 := by omega
      simp [a, c]; omega

/-- BRIDGE `j <= 0`: the transfer of a file ends at EOF (0) as well as on a read error (-1) -/
theorem sink_read_failed_bridge (j : Int) : sink_read_failed j = some (decide (j ≤ 0)) := by
  simp [sink_read_failed]

end PdshVerif.Bridge.PcpServer
