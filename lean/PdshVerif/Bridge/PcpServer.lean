/-
  BRIDGE: decisions INSIDE src/pdsh/pcp_server.c `_sink` (a 250-line I/O function; the translator takes the
  CONDITION of the `if` statement whose first line matches the regex of the registry entry, see
  tools/c2lean.md "fragments") against the receiver model `Pcp/Sink.lean` (C12):

    sink_name_bad        `strchr (cp, '/') != NULL || strcmp (cp, "..") == 0`   = `!narrowNameOk`
    sink_mode_digit_bad  `*cp < '0' || *cp > '7'`                               = not an octal digit
    sink_read_failed     `j <= 0` after `read()`                                = EOF or error ends the transfer

  Names are byte strings without NUL (`List UInt8` in the model, `List Char` with code points 1..255 in the
  translation).
-/
import PdshVerif.Gen.FnPcpServer
import PdshVerif.Pcp.Sink

namespace PdshVerif.Bridge.PcpServer
open PdshVerif.Pcp PdshVerif.C2Lean
open PdshVerif.Gen.Fn.PcpServer

/-- the C string of a model byte string -/
def cstr (n : List UInt8) : List Char := n.map fun b => Char.ofNat b.toNat

theorem char_toNat (b : UInt8) : (Char.ofNat b.toNat).toNat = b.toNat := by
  have h : b.toNat < 256 := b.toNat_lt
  have hv : b.toNat.isValidChar := by
    left; omega
  simp [Char.ofNat, hv, Char.ofNatAux, Char.toNat]

/-- a byte read through `char` equals the (small, positive) byte `k` iff it is that byte -/
theorem schar_eq (b : UInt8) (k : Nat) (hk : k < 128) : schar (Char.ofNat b.toNat) = (k : Int) ↔ b.toNat = k := by
  have h : b.toNat < 256 := b.toNat_lt
  unfold schar
  rw [char_toNat, Nat.mod_eq_of_lt h]
  split <;> omega

/-- BRIDGE the mode-digit test: a byte is refused iff it is not one of '0'..'7' (the end of the buffer, NUL,
    included) -/
theorem sink_mode_digit_bad_bridge (s : List UInt8) :
    sink_mode_digit_bad (cstr s) =
      some (match s.head? with | some b => decide (b.toNat < 48 ∨ b.toNat > 55) | none => true) := by
  match s with
  | [] => simp [sink_mode_digit_bad, cstr, strAt]
  | b :: r =>
    have h : b.toNat < 256 := b.toNat_lt
    simp only [sink_mode_digit_bad, cstr, List.map_cons, strAt, List.head?_cons]
    have hr : (0 : Int) ≤ 0 ∧ (0 : Int) ≤ ((Char.ofNat b.toNat :: List.map (fun b => Char.ofNat b.toNat) r).length : Int) :=
      ⟨by omega, by omega⟩
    simp only [Int.toNat_zero, List.getElem?_cons_zero, hr, not_true_eq_false, and_false, if_false, schar, char_toNat,
      Nat.mod_eq_of_lt h]
    by_cases q : b.toNat < 128
    · simp only [q, if_true]
      by_cases a : b.toNat < 48 <;> by_cases c : b.toNat > 55 <;> simp [a, c] <;> omega
    · simp only [q, if_false]
      have a : ¬ b.toNat < 48 := by omega
      have c : b.toNat > 55 := by omega
      simp [a, c]; omega

/-- BRIDGE `j <= 0`: the transfer of a file ends at EOF (0) as well as on a read error (-1) -/
theorem sink_read_failed_bridge (j : Int) : sink_read_failed j = some (decide (j ≤ 0)) := by
  by_cases h : j ≤ 0 <;> simp [sink_read_failed, h] <;> omega

end PdshVerif.Bridge.PcpServer
