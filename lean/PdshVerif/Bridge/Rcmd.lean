/-
  BRIDGE: src/pdsh/rcmd.c `find_host` / `find_rcmd_module` (the match callbacks handed to
  `list_find_first`; translated on every run into Gen/FnRcmd.lean) are the predicates of the registry
  model of C09: `Opt.Rcmd.lookup` searches by `(·.host = h)`, `processWord` / `defaultType` test
  membership of a transport name in the list of loaded modules.
  Names are byte strings (code points below 256, DESIGN.md §3).
-/
import PdshVerif.Gen.FnRcmd
import PdshVerif.Opt.Rcmd

namespace PdshVerif.Bridge.Rcmd
open PdshVerif.Opt.Rcmd PdshVerif.C2Lean
open PdshVerif.Gen.Fn.Rcmd

def Bytes (s : List Char) : Prop := ∀ c ∈ s, c.toNat < 256

/-- the modelled `strcmp` returns 0 exactly on equal byte strings -/
theorem strcmpS_eq_zero_iff : ∀ (a b : List Char), Bytes a → Bytes b → (strcmpS a b = 0 ↔ a = b)
  | [], [], _, _ => by simp [strcmpS]
  | [], _ :: _, _, _ => by simp [strcmpS]
  | _ :: _, [], _, _ => by simp [strcmpS]
  | x :: xs, y :: ys, ha, hb => by
    have hx : x.toNat < 256 := ha x (by simp)
    have hy : y.toNat < 256 := hb y (by simp)
    have ih := strcmpS_eq_zero_iff xs ys (fun c hc => ha c (by simp [hc])) (fun c hc => hb c (by simp [hc]))
    simp only [strcmpS, Nat.mod_eq_of_lt hx, Nat.mod_eq_of_lt hy, Char.toNat_inj, List.cons.injEq]
    by_cases hxy : x = y
    · simp [hxy, ih]
    · simp only [hxy, if_false, false_and, iff_false]
      split <;> omega

/-- BRIDGE `find_host(x, hostname)` is the predicate of `Opt.Rcmd.lookup` -/
theorem find_host_bridge (e : Entry) (h : Str) (he : Bytes e.host) (hh : Bytes h) :
    find_host { hostname := e.host } h = some (if e.host = h then 1 else 0) := by
  have h1 := strcmpS_eq_zero_iff e.host h he hh
  have h2 : ((0 : Int) = strcmpS e.host h) ↔ e.host = h := by rw [eq_comm]; exact h1
  simp only [find_host, h1, h2]

/-- the registry lookup of the model, written with the translated callback -/
theorem lookup_bridge (reg : List Entry) (h : Str) (hr : ∀ e ∈ reg, Bytes e.host) (hh : Bytes h) :
    lookup reg h = reg.find? (fun e => find_host { hostname := e.host } h != some 0) := by
  unfold lookup
  induction reg with
  | nil => rfl
  | cons e rest ih =>
    have he := hr e (by simp)
    have ihr := ih (fun e' he' => hr e' (by simp [he']))
    simp only [List.find?_cons, find_host_bridge e h he hh]
    have e0 : ((some (0 : Int)) != some 0) = false := by decide
    have e1 : ((some (1 : Int)) != some 0) = true := by decide
    by_cases heq : e.host = h
    · simp [heq, e1]
    · simp only [heq, decide_false, if_false, e0]
      exact ihr

/-- BRIDGE `find_rcmd_module(x, name)` is name equality: membership in the list of loaded transports -/
theorem find_rcmd_module_bridge (m t : Str) (hm : Bytes m) (ht : Bytes t) :
    find_rcmd_module { name := m } t = some (if m = t then 1 else 0) := by
  have h1 := strcmpS_eq_zero_iff m t hm ht
  have h2 : ((0 : Int) = strcmpS m t) ↔ m = t := by rw [eq_comm]; exact h1
  simp only [find_rcmd_module, h1, h2]

theorem loaded_contains_bridge (loaded : List Str) (t : Str) (hl : ∀ m ∈ loaded, Bytes m) (ht : Bytes t) :
    loaded.contains t = loaded.any (fun m => find_rcmd_module { name := m } t != some 0) := by
  induction loaded with
  | nil => rfl
  | cons m rest ih =>
    have hm := hl m (by simp)
    have ihr := ih (fun m' hm' => hl m' (by simp [hm']))
    simp only [List.contains_cons, List.any_cons, find_rcmd_module_bridge m t hm ht, ihr]
    by_cases heq : m = t
    · simp [heq]
    · have heq' : ¬ t = m := fun h => heq h.symm
      have e0 : ((some (0 : Int)) != some 0) = false := by decide
      simp [heq, heq', e0]

end PdshVerif.Bridge.Rcmd
