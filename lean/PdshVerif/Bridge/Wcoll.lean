/-
  BRIDGE: the decision INSIDE src/pdsh/wcoll.c `wcoll_ctx_read_stream` whether the piece `fgets` just
  returned ends the current line (translated as an expression: registry entry `piece_continues`, the
  condition of the `if` that mentions `buf` in the read loop) against the reader model `Opt/Wcoll.lean`
  (C10; C01 reads host lists through the same loop).

  The model's `chunksGo` closes a piece exactly behind a newline (or when the buffer is full); the code
  keeps collecting pieces while the last one holds no newline, which re-assembles whole lines whatever the
  buffer size (`LineMode.whole`).  A test on the LENGTH of the piece instead (the seeded changes C01-4 and
  C10-9) changes the regenerated definition and this theorem no longer builds.
-/
import PdshVerif.Gen.FnWcoll
import PdshVerif.Opt.Wcoll

namespace PdshVerif.Bridge.Wcoll
open PdshVerif.C2Lean
open PdshVerif.Gen.Fn.Wcoll

theorem schar_nl (c : Char) (hc : c.toNat < 256) : (schar c == toChar 10) = (c == '\n') := by
  have e : toChar 10 = 10 := by decide
  rw [e]
  unfold schar
  rw [Nat.mod_eq_of_lt hc]
  by_cases q : c = '\n'
  · subst q; decide
  · have q2 : c.toNat ≠ 10 := fun hh => q (Char.toNat_inj.mp (by rw [hh]; rfl))
    rw [beq_eq_false_iff_ne.mpr q]
    split <;> (apply beq_eq_false_iff_ne.mpr; omega)

theorem any_nl : ∀ (s : List Char), (∀ c ∈ s, c.toNat < 256) →
    (s.any fun ch => schar ch == toChar 10) = s.contains '\n'
  | [], _ => rfl
  | c :: r, h => by
    have ih := any_nl r (fun x hx => h x (by simp [hx]))
    simp only [List.any_cons, List.contains_cons, ih, schar_nl c (h c (by simp))]
    have e : (c == '\n') = ('\n' == c) := by
      by_cases q : c = '\n'
      · subst q; rfl
      · rw [beq_eq_false_iff_ne.mpr q, beq_eq_false_iff_ne.mpr (fun hh => q hh.symm)]
    rw [e]

/-- BRIDGE: the reader goes on collecting pieces iff the piece holds no newline -/
theorem piece_continues_bridge (buf : List Char) (hb : ∀ c ∈ buf, c.toNat < 256) :
    piece_continues buf = some (!buf.contains '\n') := by
  have e : toChar 10 ≠ 0 := by decide
  simp only [piece_continues, strchrP, any_nl buf hb, e, or_false]
  cases buf.contains '\n' <;> simp

end PdshVerif.Bridge.Wcoll
