/-
  BRIDGE (C08): the per-slot tests of `_fwd_signal` and `_cancel_pending_threads` (fragments of src/pdsh/dsh.c,
  Gen/FnDsh.lean) against the signal-handling model `Dsh/Signals.lean`.  Own module: a check builds only the bridge
  modules of the targets registered with ITS property (registry key "module").
-/
import PdshVerif.Gen.FnDsh
import PdshVerif.Dsh.Signals

namespace PdshVerif.Bridge.DshSignals
open PdshVerif.Gen.Fn.Dsh

/-! ### signal handling (C08): `_fwd_signal`, `_cancel_pending_threads`, `_list_slowthreads` per slot,
    `_handle_sigint`, `_handle_sigtstp` -/
section signals
open PdshVerif.Dsh.Sig

/-- the enumerators of `state_t` -/
def tsCode : TS → Nat
  | .new => 0 | .rcmd => 1 | .reading => 2 | .done => 3 | .failed => 4 | .canceled => 5

def slotOf (t : TS) : thd := { (default : thd) with state := tsCode t }

/-- BRIDGE the test of `_fwd_signal`: a signal is forwarded to the READING slots only (`SAct.fwd`) -/
theorem fwd_signal_slot_bridge (t : TS) : fwd_signal_slot (slotOf t) = some (decide (t = .reading)) := by
  cases t <;> simp [fwd_signal_slot, slotOf, tsCode]

/-- BRIDGE the body of the loop of `_cancel_pending_threads` = `cancelT` / `isPending` -/
theorem cancel_pending_slot_bridge (t : TS) (n : Nat) (hn : n < 2147483647) :
    cancel_pending_slot (slotOf t) (n : Int) =
      some (slotOf (cancelT t), ((n + (if isPending t then 1 else 0) : Nat) : Int)) := by
  have r : -2147483648 ≤ (n : Int) + 1 ∧ (n : Int) + 1 ≤ 2147483647 := by omega
  cases t <;> simp [cancel_pending_slot, slotOf, tsCode, cancelT, isPending, r]

end signals

end PdshVerif.Bridge.DshSignals
