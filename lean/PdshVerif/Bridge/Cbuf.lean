/-
  BRIDGE: src/pdsh/cbuf.c `cbuf_shrink`, `cbuf_dropper`, `cbuf_find_unread_line` (translated on every
  run into Gen/FnCbuf.lean) against the circular-buffer model `Cbuf/Model.lean` (C13, and through it the
  relay properties C05/C06).

  The C structure keeps its sizes and indices in `int`; the model keeps them in `Nat`.  `InC c` says the
  model buffer fits the C types (everything below 2^31 - 1, so that `size + 1` does not overflow) and
  that its data block has the `size + 1` cells the C code allocates.
-/
import PdshVerif.Gen.FnCbuf
import PdshVerif.Cbuf.Model

namespace PdshVerif.Bridge.Cbuf
open PdshVerif.Cbuf
open PdshVerif.Gen.Fn.Cbuf

/-- the C record of a model buffer (the fields the translated functions read) -/
def toC (c : Cbuf) : cbuf :=
  { minsize := (c.minsize : Int), size := (c.size : Int), used := (c.used : Int), i_in := (c.iIn : Int),
    i_out := (c.iOut : Int), data := c.data.toList.map (·.toNat) }

structure InC (c : Cbuf) : Prop where
  /-- `cb->i_out + len` and `i + 1` are computed in `int`: for buffers of 2^30 bytes or more the sum of an index
      and a length can exceed INT_MAX (undefined behaviour in the C code; pdsh's buffers are far smaller) -/
  size : c.size < 1073741823
  minsize : c.minsize < 2147483647
  used : c.used ≤ c.size
  iin : c.iIn ≤ c.size
  iout : c.iOut ≤ c.size
  data : c.size + 1 ≤ c.data.size

/-- BRIDGE `cbuf_shrink`: in this code base (NDEBUG build of the checked tree) it never changes the
    buffer and returns 0 — the premise under which the model's `dropper` ignores it -/
theorem cbuf_shrink_bridge (c : Cbuf) (h : InC c) : cbuf_shrink (toC c) = some 0 := by
  have := h.size; have := h.used
  have hr : -2147483648 ≤ (c.size : Int) - (c.used : Int) ∧ (c.size : Int) - (c.used : Int) ≤ 2147483647 := by omega
  by_cases h1 : (c.size : Int) = (c.minsize : Int)
  · simp [cbuf_shrink, toC, h1]
  · by_cases h2 : (c.size : Int) - (c.used : Int) ≤ 1000 <;> simp [cbuf_shrink, toC, h1, hr, h2]

theorem tmod_nat (a b : Nat) (hb : 0 < b) : Int.tmod (a : Int) (b : Int) = ((a % b : Nat) : Int) := by
  exact (Int.ofNat_tmod a b).symm

/-- BRIDGE `cbuf_dropper` = `dropper` (for `0 < len ≤ used`, the function's asserted precondition):
    return value `len`, and the buffer afterwards -/
theorem cbuf_dropper_bridge (c : Cbuf) (len : Nat) (h : InC c) (hl : len ≤ c.used) :
    cbuf_dropper (toC c) (len : Int) = some ((len : Int), toC (dropper c len)) := by
  have hs := h.size; have hu := h.used; have ho := h.iout; have hm := h.minsize
  have hd : InC (dropper c len) := by
    have : 0 < c.size + 1 := by omega
    have := Nat.mod_lt (c.iOut + len) this
    exact ⟨h.size, h.minsize, by simp only [dropper]; omega, h.iin, by simp only [dropper]; omega, h.data⟩
  have hshr := cbuf_shrink_bridge (dropper c len) hd
  have e1 : ((c.used : Int) - (len : Int)) = ((c.used - len : Nat) : Int) := by omega
  have e2 : ((c.iOut : Int) + (len : Int)) = ((c.iOut + len : Nat) : Int) := by omega
  have e3 : ((c.size : Int) + 1) = ((c.size + 1 : Nat) : Int) := by omega
  have r1 : -2147483648 ≤ ((c.used - len : Nat) : Int) ∧ ((c.used - len : Nat) : Int) ≤ 2147483647 := by omega
  have r2 : -2147483648 ≤ ((c.iOut + len : Nat) : Int) ∧ ((c.iOut + len : Nat) : Int) ≤ 2147483647 := by omega
  have r3 : -2147483648 ≤ ((c.size + 1 : Nat) : Int) ∧ ((c.size + 1 : Nat) : Int) ≤ 2147483647 := by omega
  have r4 : (((c.size + 1 : Nat) : Int) ≠ 0 ∧ ¬(((c.iOut + len : Nat) : Int) = -2147483648 ∧ ((c.size + 1 : Nat) : Int) = -1)) = True := by
    simp only [eq_iff_iff, iff_true]; omega
  have hT : toC (dropper c len) =
      { toC c with used := ((c.used - len : Nat) : Int), i_out := (((c.iOut + len) % (c.size + 1) : Nat) : Int) } := by
    simp [toC, dropper]
  simp only [cbuf_dropper]
  simp only [toC] at hT hshr ⊢
  have r5 : -2147483648 ≤ (c.size : Int) - ((c.used - len : Nat) : Int) ∧ (c.size : Int) - ((c.used - len : Nat) : Int) ≤ 2147483647 := by omega
  simp only [e1, e2, e3, r1, r2, r3, r4, r5, and_self, not_true_eq_false, if_false, tmod_nat _ _ (Nat.succ_pos c.size), ← hT, hshr,
    ite_self]

end PdshVerif.Bridge.Cbuf
