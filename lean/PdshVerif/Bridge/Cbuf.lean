/-
  BRIDGE: src/pdsh/cbuf.c `cbuf_shrink`, `cbuf_dropper`, `cbuf_find_unread_line` (translated on every
  run into Gen/FnCbuf.lean) against the circular-buffer model `Cbuf/Model.lean` (C13, and through it the
  relay properties C05/C06).

  The C structure keeps its sizes and indices in `int`; the model keeps them in `Nat`.  `InC c` says the
  model buffer fits the C types (everything below 2^31 - 1, so that `size + 1` does not overflow) and
  that its data block has the `size + 1` cells the C code allocates.
-/
import PdshVerif.Gen.FnCbuf
import PdshVerif.Cbuf.Model
import PdshVerif.Cbuf.Inv

namespace PdshVerif.Bridge.Cbuf
open PdshVerif.Cbuf
open PdshVerif.Gen.Fn.Cbuf

/-- the C record of a model buffer (the fields the translated functions read) -/
def toC (c : Cbuf) : cbuf :=
  { minsize := (c.minsize : Int), size := (c.size : Int), used := (c.used : Int), i_in := (c.iIn : Int),
    i_out := (c.iOut : Int), data := c.data.toList.map (·.toNat) }

structure InC (c : Cbuf) : Prop where
  /-- `cb->i_out + len` and `i + 1` are computed in `int`: for buffers of 2^30 bytes or more the sum of an index
      and a length can exceed INT_MAX (undefined behaviour in the C code; pdsh's buffers are far smaller) -/
  size : c.size < 1073741823
  minsize : c.minsize < 2147483647
  used : c.used ≤ c.size
  iin : c.iIn ≤ c.size
  iout : c.iOut ≤ c.size
  data : c.size + 1 ≤ c.data.size

/-- BRIDGE `cbuf_shrink`: in this code base (NDEBUG build of the checked tree) it never changes the
    buffer and returns 0 — the premise under which the model's `dropper` ignores it -/
theorem cbuf_shrink_bridge (c : Cbuf) (h : InC c) : cbuf_shrink (toC c) = some 0 := by
  have := h.size; have := h.used
  have hr : -2147483648 ≤ (c.size : Int) - (c.used : Int) ∧ (c.size : Int) - (c.used : Int) ≤ 2147483647 := by omega
  by_cases h1 : (c.size : Int) = (c.minsize : Int)
  · simp [cbuf_shrink, toC, h1]
  · by_cases h2 : (c.size : Int) - (c.used : Int) ≤ 1000 <;> simp [cbuf_shrink, toC, h1, hr, h2]

theorem tmod_nat (a b : Nat) (hb : 0 < b) : Int.tmod (a : Int) (b : Int) = ((a % b : Nat) : Int) := by
  exact (Int.ofNat_tmod a b).symm

/-- BRIDGE `cbuf_dropper` = `dropper` (for `0 < len ≤ used`, the function's asserted precondition):
    return value `len`, and the buffer afterwards -/
theorem cbuf_dropper_bridge (c : Cbuf) (len : Nat) (h : InC c) (hl : len ≤ c.used) :
    cbuf_dropper (toC c) (len : Int) = some ((len : Int), toC (dropper c len)) := by
  have hs := h.size; have hu := h.used; have ho := h.iout; have hm := h.minsize
  have hd : InC (dropper c len) := by
    have : 0 < c.size + 1 := by omega
    have := Nat.mod_lt (c.iOut + len) this
    exact ⟨h.size, h.minsize, by simp only [dropper]; omega, h.iin, by simp only [dropper]; omega, h.data⟩
  have hshr := cbuf_shrink_bridge (dropper c len) hd
  have e1 : ((c.used : Int) - (len : Int)) = ((c.used - len : Nat) : Int) := by omega
  have e2 : ((c.iOut : Int) + (len : Int)) = ((c.iOut + len : Nat) : Int) := by omega
  have e3 : ((c.size : Int) + 1) = ((c.size + 1 : Nat) : Int) := by omega
  have r1 : -2147483648 ≤ ((c.used - len : Nat) : Int) ∧ ((c.used - len : Nat) : Int) ≤ 2147483647 := by omega
  have r2 : -2147483648 ≤ ((c.iOut + len : Nat) : Int) ∧ ((c.iOut + len : Nat) : Int) ≤ 2147483647 := by omega
  have r3 : -2147483648 ≤ ((c.size + 1 : Nat) : Int) ∧ ((c.size + 1 : Nat) : Int) ≤ 2147483647 := by omega
  have r4 : (((c.size + 1 : Nat) : Int) ≠ 0 ∧ ¬(((c.iOut + len : Nat) : Int) = -2147483648 ∧ ((c.size + 1 : Nat) : Int) = -1)) = True := by
    simp only [eq_iff_iff, iff_true]; omega
  have hT : toC (dropper c len) =
      { toC c with used := ((c.used - len : Nat) : Int), i_out := (((c.iOut + len) % (c.size + 1) : Nat) : Int) } := by
    simp [toC, dropper]
  simp only [cbuf_dropper]
  simp only [toC] at hT hshr ⊢
  have r5 : -2147483648 ≤ (c.size : Int) - ((c.used - len : Nat) : Int) ∧ (c.size : Int) - ((c.used - len : Nat) : Int) ≤ 2147483647 := by omega
  simp only [e1, e2, e3, r1, r2, r3, r4, r5, and_self, not_true_eq_false, if_false, tmod_nat _ _ (Nat.succ_pos c.size), ← hT, hshr,
    ite_self]

set_option linter.unusedSimpArgs false

/-! ### `cbuf_find_unread_line` -/

theorem data_read (c : Cbuf) (i : Nat) (hi : i < c.data.size) :
    ((((c.data.toList.map (·.toNat)).getD i 0 : Nat) : Int) = 10) ↔ (c.data.getD i 0 = 10) := by
  have h1 : (c.data.toList.map (·.toNat)).getD i 0 = (c.data.getD i 0).toNat := by
    simp [List.getD_eq_getElem?_getD, Array.getD_eq_getD_getElem?, hi]
  rw [h1]
  constructor
  · intro h
    have : (c.data.getD i 0).toNat = 10 := by omega
    exact UInt8.toNat_inj.mp this
  · intro h; rw [h]; rfl

/-- a C `int` -/
def IsInt (x : Int) : Prop := -2147483648 ≤ x ∧ x ≤ 2147483647

/-- the scan loop: with `k` unread cells between `i` and `i_in`, any fuel above `k` on both sides -/
theorem find_loop (c : Cbuf) (h : InC c) (f0 : Nat) : ∀ (k gf mf i n m l : Nat) (chars lines : Int),
    k < gf → k < mf → i ≤ c.size → k ≤ c.size → c.iIn ≤ c.size →
    ((i + k < c.size + 1 → c.iIn = i + k) ∧ (c.size + 1 ≤ i + k → c.iIn + (c.size + 1) = i + k)) →
    n + k ≤ c.size → m ≤ n → l ≤ n → IsInt chars → IsInt lines →
    ∃ ch' i' n', cbuf_find_unread_line_loop1 f0 (toC c) gf chars (i : Int) (n : Int) (m : Int) (l : Int) lines =
      some (ch', i', n', ((findLoop c.data c.size c.iIn mf i n chars lines m l).1 : Int),
            ((findLoop c.data c.size c.iIn mf i n chars lines m l).2.1 : Int),
            (findLoop c.data c.size c.iIn mf i n chars lines m l).2.2) := by
  have hs := h.size; have hd := h.data
  intro k
  induction k with
  | zero =>
    intro gf mf i n m l chars lines hg hm hi _ hin hrel _ _ _ _ _
    have e : i = c.iIn := by omega
    cases gf with
    | zero => omega
    | succ gf =>
      cases mf with
      | zero => omega
      | succ mf =>
        subst e
        exact ⟨chars, (c.iIn : Int), (n : Int), by simp [cbuf_find_unread_line_loop1, findLoop, toC]⟩
  | succ k ih =>
    intro gf mf i n m l chars lines hg hm hi hk hin hrel hn hmn hln hc hl
    cases gf with
    | zero => omega
    | succ gf =>
      cases mf with
      | zero => omega
      | succ mf =>
        have hne : i ≠ c.iIn := by omega
        have hnei : ¬ ((i : Int) = (c.iIn : Int)) := by omega
        have hnei' : ¬ ((c.iIn : Int) = (i : Int)) := by omega
        unfold IsInt at hc hl
        have hidx : i < c.data.size := by omega
        have hrd := data_read c i hidx
        have hnext := @wrap_cases (i + 1) (c.size + 1) (by omega)
        have hmodlt := Nat.mod_lt (i + 1) (show 0 < c.size + 1 by omega)
        have e3 : ((i : Int) + 1) = ((i + 1 : Nat) : Int) := by omega
        have e4 : ((c.size : Int) + 1) = ((c.size + 1 : Nat) : Int) := by omega
        have etm := tmod_nat (i + 1) (c.size + 1) (Nat.succ_pos _)
        -- the recursive call, for every value the updated state can take
        have hrec := fun (n' m' l' : Nat) (chars' lines' : Int) (a : n' + k ≤ c.size) (b : m' ≤ n') (d : l' ≤ n')
            (e : IsInt chars') (f : IsInt lines') =>
          ih gf mf ((i + 1) % (c.size + 1)) n' m' l' chars' lines' (by omega) (by omega) (by omega) (by omega) hin
            (by omega) a b d e f
        simp only [cbuf_find_unread_line_loop1, findLoop]
        simp only [toC, ne_eq, hnei, hnei', not_false_eq_true, if_true, hne, if_false]
        have r1 : (-2147483648 ≤ (n : Int) + 1 ∧ (n : Int) + 1 ≤ 2147483647) := by omega
        have r3 : (0 ≤ (i : Int) ∧ (i : Int) < ((List.map (fun x => x.toNat) c.data.toList).length : Int)) := by
          simp only [List.length_map, Array.length_toList]; omega
        have r5 : (-2147483648 ≤ (l : Int) + 1 ∧ (l : Int) + 1 ≤ 2147483647) := by omega
        have r6 : (-2147483648 ≤ ((i + 1 : Nat) : Int) ∧ ((i + 1 : Nat) : Int) ≤ 2147483647) := by omega
        have r7 : (-2147483648 ≤ ((c.size + 1 : Nat) : Int) ∧ ((c.size + 1 : Nat) : Int) ≤ 2147483647) := by omega
        have r8 : (¬ ((c.size + 1 : Nat) : Int) = 0 ∧ ¬(((i + 1 : Nat) : Int) = -2147483648 ∧ ((c.size + 1 : Nat) : Int) = -1)) := by omega
        have r2 : (-2147483648 ≤ chars - 1 ∧ chars - 1 ≤ 2147483647) ∨ ¬ chars > 0 := by omega
        have r4 : (-2147483648 ≤ lines - 1 ∧ lines - 1 ≤ 2147483647) ∨ ¬ lines > 0 := by omega
        have key : ∀ (chars' lines' : Int) (m' l' : Nat), IsInt chars' → IsInt lines' → m' ≤ n + 1 → l' ≤ n + 1 →
            ∃ ch' i' n', (if chars' = 0 ∨ lines' = 0 then some (chars', (i : Int), ((n + 1 : Nat) : Int), (m' : Int), (l' : Int), lines')
                else cbuf_find_unread_line_loop1 f0 (toC c) gf chars' (((i + 1) % (c.size + 1) : Nat) : Int) ((n + 1 : Nat) : Int) (m' : Int) (l' : Int) lines') =
              some (ch', i', n',
                ((if chars' = 0 ∨ lines' = 0 then (m', l', lines') else
                    findLoop c.data c.size c.iIn mf ((i + 1) % (c.size + 1)) (n + 1) chars' lines' m' l').1 : Int),
                ((if chars' = 0 ∨ lines' = 0 then (m', l', lines') else
                    findLoop c.data c.size c.iIn mf ((i + 1) % (c.size + 1)) (n + 1) chars' lines' m' l').2.1 : Int),
                (if chars' = 0 ∨ lines' = 0 then (m', l', lines') else
                    findLoop c.data c.size c.iIn mf ((i + 1) % (c.size + 1)) (n + 1) chars' lines' m' l').2.2) := by
          intro chars' lines' m' l' a1 a2 a3 a4
          by_cases hst : chars' = 0 ∨ lines' = 0
          · simp only [hst, if_true]; exact ⟨_, _, _, rfl⟩
          · simp only [hst, if_false]
            exact hrec (n + 1) m' l' chars' lines' (by omega) a3 a4 a1 a2
        have K := key (if chars > 0 then chars - 1 else chars)
          (if c.data.getD i 0 = 10 ∧ lines > 0 then lines - 1 else lines)
          (if c.data.getD i 0 = 10 then n + 1 else m) (if c.data.getD i 0 = 10 then l + 1 else l)
          (by unfold IsInt; by_cases q : chars > 0 <;> simp only [q, if_true, if_false] <;> omega)
          (by unfold IsInt; by_cases q : (c.data.getD i 0 = 10 ∧ lines > 0) <;> simp only [q, if_true, if_false] <;> omega)
          (by by_cases q : c.data.getD i 0 = 10 <;> simp only [q, if_true, if_false] <;> omega)
          (by by_cases q : c.data.getD i 0 = 10 <;> simp only [q, if_true, if_false] <;> omega)
        simp only [toC] at K
        by_cases hnl : c.data.getD i 0 = 10 <;> by_cases hcp : chars > 0 <;> by_cases hlp : lines > 0 <;>
          simp only [Int.toNat_natCast, hrd, hnl, hcp, hlp, decide_true, decide_false, r1, r3, r5, e3, e4, r6, r7, r8, etm,
            not_true_eq_false, if_false, if_true, and_false, false_and, and_true, true_and, not_false_eq_true,
            Bool.false_eq_true, and_self] at K ⊢ <;>
          first
            | exact K
            | (have q1 : (-2147483648 ≤ chars - 1 ∧ chars - 1 ≤ 2147483647) := by omega
               have q2 : (-2147483648 ≤ lines - 1 ∧ lines - 1 ≤ 2147483647) := by omega
               simp only [q1, q2, not_true_eq_false, if_false]; exact K)
            | (have q1 : (-2147483648 ≤ chars - 1 ∧ chars - 1 ≤ 2147483647) := by omega
               simp only [q1, not_true_eq_false, if_false]; exact K)
            | (have q2 : (-2147483648 ≤ lines - 1 ∧ lines - 1 ≤ 2147483647) := by omega
               simp only [q2, not_true_eq_false, if_false]; exact K)

/-- BRIDGE `cbuf_find_unread_line` = `findUnreadLine` (return value and `*nlines` afterwards), for every valid
    buffer below 2^30 bytes, all `int` arguments and every fuel ≥ size + 2 -/
theorem cbuf_find_unread_line_bridge (c : Cbuf) (hi : Inv c) (h : InC c) (fuel : Nat) (chars lines : Int)
    (hc : IsInt chars) (hl : IsInt lines) (hf : c.size + 2 ≤ fuel) :
    cbuf_find_unread_line fuel (toC c) chars lines =
      some (((findUnreadLine c chars lines).1 : Int), ((findUnreadLine c chars lines).2 : Int)) := by
  have := hi.used; have := hi.iout; have := hi.iin; have hio := hi.inout
  unfold cbuf_find_unread_line findUnreadLine
  by_cases h0 : lines = 0 ∨ (lines ≤ -1 ∧ chars ≤ 0)
  · simp [h0]
  · by_cases hu : c.used = 0
    · simp [h0, hu, toC]
    · have hu' : ¬ ((c.used : Int) = 0) := by omega
      obtain ⟨a, b, d, hh⟩ := find_loop c h fuel c.used fuel (c.size + 2) c.iOut 0 0 0
        (if lines > 0 then -1 else chars) lines (by omega) (by omega) (by omega) (by omega) (by omega) (by omega)
        (by omega) (by omega) (by omega)
        (by unfold IsInt at *; by_cases q : lines > 0 <;> simp only [q, if_true, if_false] <;> omega) hl
      simp only [h0, if_false, hu, show (toC c).used = (c.used : Int) from rfl, hu',
        show (toC c).i_out = (c.iOut : Int) from rfl, decide_eq_true_eq]
      simp only [Int.natCast_zero] at hh
      rw [hh]
      simp only
      generalize findLoop c.data c.size c.iIn (c.size + 2) c.iOut 0 (if lines > 0 then -1 else chars) lines 0 0 = r
      by_cases q : r.2.2 > 0 <;> simp [q]
end PdshVerif.Bridge.Cbuf
