/-
  BRIDGE: src/pdsh/opt.c `string_to_int` (translated on every run into Gen/FnOpt.lean; `strtol` with its end
  pointer and `errno` are modelled by `PdshVerif.CInt.strtol`, the glibc model the option model already
  uses) against `Opt.stringToInt` of Opt/Settings.lean (C18, C19: -f, -t, -u and the numeric environment
  variables), for the repaired conversion (`fx.d5`: strtol + range test, finding D5).

  The C function tests `errno`, `p == val`, `*p != '\0'` and the `int` range; the model tests `erange`,
  `noconv`, `rest ≠ []` and the same range.  The bridge shows these are the same four tests for every byte
  string without NUL, every previous value of `errno` and every previous `*p2int`.
-/
import PdshVerif.Gen.FnOpt
import PdshVerif.Opt.Settings

namespace PdshVerif.Bridge.Opt
open PdshVerif.C2Lean PdshVerif.CInt
open PdshVerif.Gen.Fn.Opt

theorem signSplit_suffix (s : List Char) : ∃ a, s = a ++ (signSplit s).2 := by
  unfold signSplit
  split
  · exact ⟨['-'], rfl⟩
  · exact ⟨['+'], rfl⟩
  · exact ⟨[], rfl⟩

/-- the end pointer of `strtol` points into the string; it equals the start iff nothing was converted -/
theorem strtol_rest (s : List Char) :
    ∃ pre, s = pre ++ (strtol s).rest ∧ ((strtol s).noconv = true ↔ pre = []) := by
  unfold strtol
  by_cases hd : (scan s).digits = []
  · simp only [hd, if_true]
    exact ⟨[], rfl, by simp⟩
  · simp only [hd, if_false]
    have hrest : ∃ pre, s = pre ++ (scan s).rest ∧ pre ≠ [] := by
      unfold scan at hd ⊢
      by_cases h0 : (signSplit (s.dropWhile isSpace)).2.takeWhile isDigit = []
      · simp [h0] at hd
      · simp only [h0, if_false]
        obtain ⟨a, ha⟩ := signSplit_suffix (s.dropWhile isSpace)
        have hs : s = s.takeWhile isSpace ++ s.dropWhile isSpace := (List.takeWhile_append_dropWhile).symm
        have ht : (signSplit (s.dropWhile isSpace)).2 =
            (signSplit (s.dropWhile isSpace)).2.takeWhile isDigit ++ (signSplit (s.dropWhile isSpace)).2.dropWhile isDigit :=
          (List.takeWhile_append_dropWhile).symm
        refine ⟨s.takeWhile isSpace ++ a ++ (signSplit (s.dropWhile isSpace)).2.takeWhile isDigit, ?_, ?_⟩
        · rw [List.append_assoc, List.append_assoc, ← ht, ← ha, ← hs]
        · simp [h0]
    obtain ⟨pre, hp, hne⟩ := hrest
    refine ⟨pre, ?_, ?_⟩
    · split <;> split <;> exact hp
    · split <;> split <;> simp [hne]

theorem strAt_append (pre r : List Char) : strAt (pre ++ r) pre.length = (match r with | [] => 0 | c :: _ => schar c) := by
  unfold strAt
  cases r with
  | nil => simp
  | cons c t => simp

theorem schar_ne_zero (c : Char) (h : c.toNat % 256 ≠ 0) : schar c ≠ 0 := by
  unfold schar
  have := Nat.mod_lt c.toNat (show 0 < 256 by omega)
  split <;> omega

/-- BRIDGE `string_to_int` = `stringToInt` (repaired conversion): return value, `*p2int` afterwards; `errno`
    afterwards is 0 or ERANGE -/
theorem string_to_int_bridge (fx : PdshVerif.Opt.Fixes) (h5 : fx.d5 = true) (e0 : Int) (s : List Char)
    (hb : ∀ c ∈ s, c.toNat % 256 ≠ 0) (p2 : Int) :
    ∃ e', string_to_int e0 s p2 =
      some (match PdshVerif.Opt.stringToInt fx s with | none => ((-1 : Int), p2, e') | some v => ((0 : Int), v, e')) := by
  obtain ⟨pre, hp, hnc⟩ := strtol_rest s
  have hlen : (s.length : Int) - ((strtol s).rest.length : Int) = (pre.length : Int) := by
    have := congrArg List.length hp
    simp only [List.length_append] at this
    omega
  have hat : strAt s pre.length = (match (strtol s).rest with | [] => 0 | c :: _ => schar c) := by
    have := strAt_append pre (strtol s).rest
    rw [← hp] at this
    exact this
  have hle : pre.length ≤ s.length := by
    have := congrArg List.length hp
    simp only [List.length_append] at this
    omega
  simp only [string_to_int, PdshVerif.Opt.stringToInt, h5, if_true, hlen, Int.toNat_natCast, hat]
  generalize hr : strtol s = r at *
  have hp0 : ((pre.length : Int) = 0) ↔ r.noconv = true := by
    rw [hnc]; constructor
    · intro h; exact List.eq_nil_of_length_eq_zero (by omega)
    · intro h; rw [h]; rfl
  have hrange : (0 : Int) ≤ (pre.length : Int) ∧ (pre.length : Int) ≤ (s.length : Int) := by omega
  have hpe : (pre = []) = (r.noconv = true) := propext hnc.symm
  cases hre : r.rest with
  | nil =>
    rw [hre] at hp
    cases r.erange <;> cases hn : r.noconv <;>
      by_cases a : r.value < -2147483648 <;> by_cases b : r.value > 2147483647 <;>
      (first
        | (have hconv : (r.value + 2147483648) % 4294967296 - 2147483648 = r.value := by omega
           simp [hpe, hn, hp0, hrange, a, b, INT_MIN, INT_MAX, hconv])
        | simp [hpe, hn, hp0, hrange, a, b, INT_MIN, INT_MAX]) <;>
      (try exact ⟨_, rfl⟩)
  | cons c t =>
    have hc : schar c ≠ 0 := schar_ne_zero c (hb c (by rw [hp, hre]; simp))
    cases r.erange <;> cases hn : r.noconv <;> simp [hpe, hn, hp0, hrange, hc] <;> exact ⟨_, rfl⟩

end PdshVerif.Bridge.Opt
