/-
  BRIDGE: src/pdsh/mod.c `_dir_permission_error` (translated on every run into Gen/FnMod.lean) is the
  directory test `Mod.dirOk` of the module-loading model (C17): not a directory / foreign owner /
  world-writable without the sticky bit.  `getuid()` is a parameter of the translation.
  The mode masks of the model come from Gen/Modopt.lean (the C compiler's values of S_IFMT, S_IFDIR,
  S_IWOTH, S_ISVTX); the generated definition carries the numbers clang saw in the macro expansions;
  the bridge therefore also proves that the two agree.
-/
import PdshVerif.Gen.FnMod
import PdshVerif.Mod.Load

namespace PdshVerif.Bridge.Mod
open PdshVerif.Mod
open PdshVerif.Gen.Fn.Mod

/-- the C `struct stat` of a model stat record -/
@[reducible] def toC (st : FStat) : stat := { (default : stat) with st_mode := st.mode, st_uid := st.uid }

/-- BRIDGE `_dir_permission_error(st, alt_uid) == DIR_OK` ⇔ `dirOk uid alt_uid st`, for all modes and uids -/
theorem dir_permission_error_bridge (uid owner : Nat) (st : FStat) :
    (_dir_permission_error uid (toC st) owner = some 0) ↔ dirOk uid owner st = true := by
  simp only [_dir_permission_error, toC, dirOk, isDir, ownerOk, S_IWOTH, S_ISVTX,
    PdshVerif.Gen.MO_S_IFMT, PdshVerif.Gen.MO_S_IFDIR, PdshVerif.Gen.MO_S_IWOTH, PdshVerif.Gen.MO_S_ISVTX]
  by_cases hd : st.mode &&& 61440 = 16384 <;> by_cases h0 : st.uid = 0 <;> by_cases h1 : st.uid = uid <;>
    by_cases h2 : st.uid = owner <;> by_cases hw : st.mode &&& 2 = 0 <;> by_cases hs : st.mode &&& 512 = 0 <;>
    simp [hd, h0, h1, h2, hw, hs]

/-- the function never has undefined behaviour and returns one of the four codes of `perm_error_t` -/
theorem dir_permission_error_total (uid owner : Nat) (st : FStat) :
    ∃ r, _dir_permission_error uid (toC st) owner = some r ∧ r ≤ 3 := by
  by_cases hd : st.mode &&& 61440 = 16384 <;> by_cases h0 : st.uid = 0 <;> by_cases h1 : st.uid = uid <;>
    by_cases h2 : st.uid = owner <;> by_cases hw : st.mode &&& 2 = 0 <;> by_cases hs : st.mode &&& 512 = 0 <;>
    simp [_dir_permission_error, toC, hd, h0, h1, h2, hw, hs]

/-! ### the per-file tests of `_mod_load_dynamic_modules` (three `if` conditions INSIDE the readdir loop,
    translated as expressions: registry entries `mod_file_isreg`, `mod_file_owner`, `mod_file_mode`) -/

/-- BRIDGE `!S_ISREG(st.st_mode)` = `!isReg` -/
theorem mod_file_isreg_bridge (st : FStat) : mod_file_isreg (toC st) = some (!isReg st.mode) := by
  simp only [mod_file_isreg, toC, isReg, PdshVerif.Gen.MO_S_IFMT, PdshVerif.Gen.MO_S_IFREG]
  by_cases h : st.mode &&& 61440 = 32768 <;> simp [h]

/-- BRIDGE the owner test of a module file = `!ownerOk` (`getuid()` is a parameter) -/
theorem mod_file_owner_bridge (uid owner : Nat) (st : FStat) :
    mod_file_owner uid (toC st) owner = some (!ownerOk uid owner st) := by
  simp only [mod_file_owner, toC, ownerOk]
  by_cases h0 : st.uid = 0 <;> by_cases h1 : st.uid = uid <;> by_cases h2 : st.uid = owner <;> simp [h0, h1, h2]

/-- BRIDGE `st.st_mode & S_IWOTH` = the world-writable test of `fileOk` -/
theorem mod_file_mode_bridge (st : FStat) : mod_file_mode (toC st) = some (st.mode &&& S_IWOTH != 0) := by
  simp only [mod_file_mode, toC, S_IWOTH, PdshVerif.Gen.MO_S_IWOTH]
  by_cases h : st.mode &&& 2 = 0 <;> simp [h]

/-- the model's `fileOk` is exactly "none of the three `continue` tests of the code fires" -/
theorem file_ok_bridge (uid owner : Nat) (st : FStat) :
    fileOk uid owner st = true ↔
      (mod_file_isreg (toC st) = some false ∧ mod_file_owner uid (toC st) owner = some false ∧
       mod_file_mode (toC st) = some false) := by
  rw [mod_file_isreg_bridge, mod_file_owner_bridge, mod_file_mode_bridge]
  unfold fileOk
  cases isReg st.mode <;> cases ownerOk uid owner st <;> by_cases h : st.mode &&& S_IWOTH = 0 <;> simp [h]

end PdshVerif.Bridge.Mod
