/-
  BRIDGE: src/pdsh/mod.c `_dir_permission_error` (translated on every run into Gen/FnMod.lean) is the
  directory test `Mod.dirOk` of the module-loading model (C17): not a directory / foreign owner /
  world-writable without the sticky bit.  `getuid()` is a parameter of the translation.
  The mode masks of the model come from Gen/Modopt.lean (the C compiler's values of S_IFMT, S_IFDIR,
  S_IWOTH, S_ISVTX); the generated definition carries the numbers clang saw in the macro expansions;
  the bridge therefore also proves that the two agree.
-/
import PdshVerif.Gen.FnMod
import PdshVerif.Mod.Load

namespace PdshVerif.Bridge.Mod
open PdshVerif.Mod
open PdshVerif.Gen.Fn.Mod

/-- the C `struct stat` of a model stat record -/
def toC (st : FStat) : stat := { st_mode := st.mode, st_uid := st.uid }

/-- BRIDGE `_dir_permission_error(st, alt_uid) == DIR_OK` ⇔ `dirOk uid alt_uid st`, for all modes and uids -/
theorem dir_permission_error_bridge (uid owner : Nat) (st : FStat) :
    (_dir_permission_error uid (toC st) owner = some 0) ↔ dirOk uid owner st = true := by
  simp only [_dir_permission_error, toC, dirOk, isDir, ownerOk, S_IWOTH, S_ISVTX,
    PdshVerif.Gen.MO_S_IFMT, PdshVerif.Gen.MO_S_IFDIR, PdshVerif.Gen.MO_S_IWOTH, PdshVerif.Gen.MO_S_ISVTX]
  by_cases hd : st.mode &&& 61440 = 16384 <;> by_cases h0 : st.uid = 0 <;> by_cases h1 : st.uid = uid <;>
    by_cases h2 : st.uid = owner <;> by_cases hw : st.mode &&& 2 = 0 <;> by_cases hs : st.mode &&& 512 = 0 <;>
    simp [hd, h0, h1, h2, hw, hs]

/-- the function never has undefined behaviour and returns one of the four codes of `perm_error_t` -/
theorem dir_permission_error_total (uid owner : Nat) (st : FStat) :
    ∃ r, _dir_permission_error uid (toC st) owner = some r ∧ r ≤ 3 := by
  simp only [_dir_permission_error]
  split
  · exact ⟨1, rfl, by omega⟩
  · split
    · exact ⟨2, rfl, by omega⟩
    · split
      · exact ⟨3, rfl, by omega⟩
      · exact ⟨0, rfl, by omega⟩

end PdshVerif.Bridge.Mod
