/-
  Model of the ssh transport's argument vector (src/modules/sshcmd.c; the module is not built in
  the verified configuration, the check compiles it per run from /repo and gives it a fake `ssh`):

    sshcmd_args_init   list_split (" ", [PDSH_SSH_ARGS_APPEND ' '] PDSH_SSH_ARGS | "-2 -a -x %h")
    mod_ssh_postop     (+ the DSHPATH prefix as a last template argument, when set)
    fixup_ssh_args     "-l%u" before the first argument with %h (or at the end) when local and remote
                       user differ and no argument has %u; "%h" at the end when no argument has %h
    arg_has_parameter  strstr: only the FIRST occurrence of the pattern counts, and it does not count
                       when a '%' stands directly before it
    sshcmd             template ++ command words (pdcp / interactive mode: the one string `cmd`)
    pipecmd ("ssh", argv, host, ruser, rank): EVERY argument -- the command words included -- goes
                       through pipecmd_format_arg
-/
import PdshVerif.Exec.Format
import PdshVerif.Exec.EndToEnd

namespace PdshVerif.Exec.Ssh
open PdshVerif.Exec

abbrev Str := List Char

def isPrefixOf : Str → Str → Bool
  | [], _ => true
  | _ :: _, [] => false
  | a :: as, b :: bs => a == b && isPrefixOf as bs

/-- strstr: index of the first occurrence -/
def findSub (pat : Str) : Str → Option Nat
  | [] => if pat.isEmpty then some 0 else none
  | c :: rest => if isPrefixOf pat (c :: rest) then some 0 else (findSub pat rest).map (· + 1)

/-- arg_has_parameter -/
def argHas (arg pat : Str) : Bool :=
  match findSub pat arg with
  | none => false
  | some 0 => true
  | some (k + 1) => arg[k]? != some '%'

def pU : Str := "%u".toList
def pH : Str := "%h".toList
def lU : Str := "-l%u".toList

/-- list_find + list_insert: in front of the first element satisfying `p` (at the end if none) -/
def insertBeforeFirst (p : Str → Bool) (x : Str) : List Str → List Str
  | [] => [x]
  | a :: rest => if p a then x :: a :: rest else a :: insertBeforeFirst p x rest

/-- fixup_ssh_args -/
def fixup (args : List Str) (needUser : Bool) : List Str :=
  let gotUser := needUser && args.any (argHas · pU)
  let gotHost := args.any (argHas · pH)
  let a1 := if needUser && !gotUser then
      (if gotHost then insertBeforeFirst (argHas · pH) lU args else args ++ [lU])
    else args
  if gotHost then a1 else a1 ++ [pH]

/-- list_split (" ", s): blanks inside brackets do not split; empty tokens are dropped -/
def takeTok : Str → Int → Str × Str
  | [], _ => ([], [])
  | c :: rest, level =>
    if level = 0 ∧ c = ' ' then ([], c :: rest)
    else
      let level' := if c = '[' then level + 1 else if c = ']' then level - 1 else level
      ((c :: (takeTok rest level').1), (takeTok rest level').2)

def splitBlank (s : Str) : List Str :=
  go s (s.length + 1)
where
  go : Str → Nat → List Str
    | _, 0 => []
    | s, fuel + 1 =>
      match s.dropWhile (· == ' ') with
      | [] => []
      | c :: r => (takeTok (c :: r) 0).1 :: go (takeTok (c :: r) 0).2 fuel

def defaultArgs : Str := "-2 -a -x %h".toList

/-- sshcmd_args_init + mod_ssh_postop -/
def template (append args dshpath : Option Str) : List Str :=
  splitBlank ((match append with | some a => a ++ [' '] | none => []) ++ args.getD defaultArgs)
    ++ (match dshpath with | some p => [p] | none => [])

/-- proposed repair of F09-SSHPCT (findings/C09-sshpct.patch): ssh_argv_create doubles every '%' of
    a command word, so that pipecmd's formatting gives the word back unchanged -/
def escapePct : Str → Str
  | [] => []
  | c :: rest => if c = '%' then '%' :: '%' :: escapePct rest else c :: escapePct rest

/-- the vector handed to pipecmd (`esc`: with the repair) -/
def sshArgv (esc : Bool) (append args dshpath : Option Str) (luser ruser : Str) (pcp : Bool)
    (words : List Str) (cmd : Str) : List Str :=
  fixup (template append args dshpath) (luser != ruser) ++
    ((if pcp || words.isEmpty then [cmd] else words).map fun w => if esc then escapePct w else w)

/-- what execvp ("ssh", ...) is called with; `none` = undefined behaviour (unrepaired code only) -/
def sshCall (v : Variant) (esc : Bool) (e : Env) (append args dshpath : Option Str) (luser : Str) (pcp : Bool)
    (words : List Str) (cmd tail : Str) : Option (List Str) :=
  (cmdArgs v e "ssh".toList (sshArgv esc append args dshpath luser e.user pcp words cmd) tail).map execArgv

end PdshVerif.Exec.Ssh
