/-
  Characterisation of the runs of the xrcmd model (Exec/Xrcmd.lean): what a successful call has done, in
  order.  The property theorems derived from it are in Props/C09.lean.
-/
import PdshVerif.Exec.XrcmdLemmas
import PdshVerif.Exec.Spec

namespace PdshVerif.Exec.Xrcmd
open PdshVerif.Exec

/-- the three writes and the verdict: success means the peer answered a NUL byte and nothing was closed -/
theorem finish_ok (w : World) (p : Nat) (errCh : Bool) (l r c : List Char) (evs : List Ev)
    (h : (finish w p errCh l r c evs).ok = true) :
    (finish w p errCh l r c evs).evs =
      evs ++ [Ev.write (l ++ [nul]), Ev.write (r ++ [nul]), Ev.write (c ++ [nul])] ∧
    ∃ rest, w.reply = some (nul :: rest) := by
  unfold finish at h ⊢
  cases hr : w.reply with
  | none => simp [hr] at h
  | some bs =>
    cases bs with
    | nil => simp [hr] at h
    | cons b rest =>
      by_cases hb : b = nul
      · subst hb
        simp [hr]
      · simp [hr, hb] at h

/-- A SUCCESSFUL CALL WITH THE STDERR CHANNEL, call by call: the loop (no write in it) ends with a socket
    bound to `p` whose connect() succeeded; rresvport, started directly below `p`, binds `p2`; that socket
    is put into the listening state; only THEN its number is written; the peer's back-connection comes from
    a reserved port; then local user, remote user and command follow, each with its terminator. -/
theorem xrcmd_ok_stderr (w : World) (l r c : List Char) (h : (xrcmd w true l r c).ok = true) :
    ∃ p p2 src pre,
      connectLoop w w.conns (IPPORT_RESERVED - 1) 1 [] = (some p, pre) ∧
      (∀ e ∈ pre, e.isWrite = false) ∧
      w.resv (p - 1) = some p2 ∧ w.pollOk = true ∧ w.acc = some src ∧
      IPPORT_RESERVED / 2 ≤ src ∧ src < IPPORT_RESERVED ∧
      (xrcmd w true l r c).evs =
        pre ++ [Ev.bind p2, Ev.listen p2, Ev.write (Nat.toDigits 10 p2 ++ [nul]), Ev.accept src, Ev.close p2,
                Ev.write (l ++ [nul]), Ev.write (r ++ [nul]), Ev.write (c ++ [nul])] := by
  have hnw := connectLoop_no_write w w.conns (IPPORT_RESERVED - 1) 1
  cases hl : connectLoop w w.conns (IPPORT_RESERVED - 1) 1 [] with
  | mk o pre =>
    rw [hl] at hnw
    cases o with
    | none => simp [xrcmd, hl] at h
    | some p =>
      cases hr : w.resv (p - 1) with
      | none => simp [xrcmd, hl, hr] at h
      | some p2 =>
        by_cases hp : w.pollOk = true
        · cases ha : w.acc with
          | none => simp [xrcmd, hl, hr, hp, ha] at h
          | some src =>
            by_cases hs : src ≥ IPPORT_RESERVED ∨ src < IPPORT_RESERVED / 2
            · simp [xrcmd, hl, hr, hp, ha, hs] at h
            · have hx : xrcmd w true l r c =
                  finish w p true l r c (pre ++ [Ev.bind p2, Ev.listen p2,
                    Ev.write (Nat.toDigits 10 p2 ++ [nul])] ++ [Ev.accept src, Ev.close p2]) := by
                simp only [xrcmd, hl, hr, hp, ha, hs, Bool.not_true, Bool.false_eq_true, if_false]
              rw [hx] at h ⊢
              obtain ⟨he, _⟩ := finish_ok w p true l r c _ h
              refine ⟨p, p2, src, pre, rfl, hnw, hr, hp, rfl, by omega, by omega, ?_⟩
              rw [he]
              simp [List.append_assoc]
        · simp [xrcmd, hl, hr, hp] at h

/-- a successful call WITHOUT the stderr channel (fd2p == NULL): one NUL byte in place of the port -/
theorem xrcmd_ok_plain (w : World) (l r c : List Char) (h : (xrcmd w false l r c).ok = true) :
    ∃ p pre,
      connectLoop w w.conns (IPPORT_RESERVED - 1) 1 [] = (some p, pre) ∧
      (∀ e ∈ pre, e.isWrite = false) ∧
      (xrcmd w false l r c).evs =
        pre ++ [Ev.write [nul], Ev.write (l ++ [nul]), Ev.write (r ++ [nul]), Ev.write (c ++ [nul])] := by
  have hnw := connectLoop_no_write w w.conns (IPPORT_RESERVED - 1) 1
  cases hl : connectLoop w w.conns (IPPORT_RESERVED - 1) 1 [] with
  | mk o pre =>
    rw [hl] at hnw
    cases o with
    | none => simp [xrcmd, hl] at h
    | some p =>
      have hx : xrcmd w false l r c = finish w p false l r c (pre ++ [Ev.write [nul]]) := by
        simp only [xrcmd, hl, Bool.not_false, if_true]
      rw [hx] at h ⊢
      obtain ⟨he, _⟩ := finish_ok w p false l r c _ h
      refine ⟨p, pre, rfl, hnw, ?_⟩
      rw [he]
      simp [List.append_assoc]

/-- a call that never got a connection has written nothing at all -/
theorem xrcmd_unconnected (w : World) (errCh : Bool) (l r c : List Char)
    (h : (connectLoop w w.conns (IPPORT_RESERVED - 1) 1 []).1 = none) :
    (xrcmd w errCh l r c).ok = false ∧ writesOf (xrcmd w errCh l r c).evs = [] := by
  unfold xrcmd
  have hnw := connectLoop_no_write w w.conns (IPPORT_RESERVED - 1) 1
  cases hl : connectLoop w w.conns (IPPORT_RESERVED - 1) 1 [] with
  | mk o pre =>
    rw [hl] at hnw h
    simp only at h
    subst h
    exact ⟨rfl, writesOf_no_write pre hnw⟩

end PdshVerif.Exec.Xrcmd
