/-
  xrcmd.c: the rsh server refused the request (first reply byte non-NUL) and the text that follows is
  copied into `char tmpbuf[LINEBUFSIZE]` for the diagnostic (finding F09-RSHERR, repaired by e2d5199):

      char *p = tmpbuf;
      while (read(s, &c, 1) == 1) {
          if (p < tmpbuf + sizeof (tmpbuf) - 2)      -- repaired; before: unconditional store
              *p++ = c;
          if (c == '\n') break;
      }
      if (p == tmpbuf || p[-1] != '\n')               -- before: if (c != '\n')
          *p++ = '\n';
      *p++ = '\0';

  The buffer is explicit: a store at an index >= cap is `none` (stack buffer overrun).  `cap` = sizeof tmpbuf.
-/
import PdshVerif.Exec.EndToEnd

namespace PdshVerif.Exec.XrcmdErr
open PdshVerif.Exec

def nl : Char := '\n'

/-- `*p++ = x` with p = tmpbuf + buf.length -/
def store (cap : Nat) (buf : List Char) (x : Char) : Option (List Char) :=
  if buf.length < cap then some (buf ++ [x]) else none

/-- the while loop: bytes still to come from the socket (end of list = read returns 0), the buffer, the last byte
    read (`c`); result: buffer and `c` after the loop -/
def copy (repaired : Bool) (cap : Nat) : List Char → List Char → Char → Option (List Char × Char)
  | [], buf, c => some (buf, c)
  | x :: xs, buf, _ =>
    match (if repaired then (if buf.length < cap - 2 then store cap buf x else some buf) else store cap buf x) with
    | none => none
    | some buf' => if x = nl then some (buf', x) else copy repaired cap xs buf' x

/-- the two stores behind the loop -/
def finish (repaired : Bool) (cap : Nat) (buf : List Char) (c : Char) : Option (List Char) :=
  let need : Bool := if repaired then buf.getLast? != some nl else c != nl
  match (if need then store cap buf nl else some buf) with
  | none => none
  | some b => store cap b nul

/-- what tmpbuf holds when err() is called: `verdict` is the non-NUL first reply byte (still in `c` when nothing
    follows), `rest` the bytes behind it; `none`: a store beyond the end of tmpbuf -/
def errText (repaired : Bool) (cap : Nat) (verdict : Char) (rest : List Char) : Option (List Char) :=
  match copy repaired cap rest [] verdict with
  | none => none
  | some (buf, c) => finish repaired cap buf c

theorem getLast?_append_single (l : List Char) (x : Char) : (l ++ [x]).getLast? = some x := by
  simp

theorem getLast?_ne_of_not_mem (l : List Char) (h : nl ∉ l) : (l.getLast? != some nl) = true := by
  cases hl : l.getLast? with
  | none => simp
  | some y =>
    have : y ∈ l := List.mem_of_getLast? hl
    have hne : y ≠ nl := fun e => h (e ▸ this)
    simp [hne]

/-- loop + terminator of the repaired code, from any reachable state of the loop -/
theorem copy_finish_repaired (cap : Nat) (hcap : cap ≥ 2) (xs buf : List Char) (c : Char)
    (hlen : buf.length ≤ cap - 2) (hnl : nl ∉ buf) :
    (match copy true cap xs buf c with
     | none => none
     | some (b, c') => finish true cap b c') =
    some (buf ++ (xs.takeWhile (· != nl)).take (cap - 2 - buf.length) ++ [nl, nul]) := by
  induction xs generalizing buf c with
  | nil =>
    simp only [copy, finish, if_true, getLast?_ne_of_not_mem buf hnl, store, List.takeWhile_nil, List.take_nil,
      List.append_nil]
    rw [if_pos (by omega)]
    simp only [List.length_append, List.length_cons, List.length_nil]
    rw [if_pos (by omega)]
    simp
  | cons x xs ih =>
    simp only [copy, if_true]
    by_cases hroom : buf.length < cap - 2
    · rw [if_pos hroom]
      simp only [store]
      rw [if_pos (by omega)]
      simp only
      by_cases hx : x = nl
      · rw [if_pos hx]
        subst hx
        simp only [finish, if_true, getLast?_append_single]
        have : ((some nl : Option Char) != some nl) = false := by simp
        rw [this]
        simp only [Bool.false_eq_true, if_false, store, List.length_append, List.length_cons, List.length_nil]
        rw [if_pos (by omega)]
        simp [List.takeWhile_cons]
      · rw [if_neg hx]
        have hlen' : (buf ++ [x]).length ≤ cap - 2 := by simp; omega
        have hnl' : nl ∉ buf ++ [x] := by
          simp only [List.mem_append, List.mem_singleton, not_or]
          exact ⟨hnl, fun e => hx e.symm⟩
        rw [ih (buf ++ [x]) x hlen' hnl']
        have hxb : (x != nl) = true := by simpa using hx
        simp only [List.takeWhile_cons, hxb, if_true, List.length_append, List.length_cons, List.length_nil]
        have : cap - 2 - buf.length = (cap - 2 - (buf.length + 1)) + 1 := by omega
        rw [this, List.take_succ_cons]
        simp
    · rw [if_neg hroom]
      simp only
      have hfull : cap - 2 - buf.length = 0 := by omega
      by_cases hx : x = nl
      · rw [if_pos hx]
        simp only [finish, if_true, getLast?_ne_of_not_mem buf hnl, store]
        rw [if_pos (by omega)]
        simp only [List.length_append, List.length_cons, List.length_nil]
        rw [if_pos (by omega)]
        simp [hfull]
      · rw [if_neg hx]
        rw [ih buf x hlen hnl]
        simp [hfull]

/-- THE REPAIRED COPY IS MEMORY SAFE AND EXACT, for every reply: tmpbuf receives the first line of the server's text
    (without its newline), cut to sizeof tmpbuf - 2 bytes, then "\n\0" -- never a byte beyond the buffer -/
theorem errText_repaired (cap : Nat) (hcap : cap ≥ 2) (verdict : Char) (rest : List Char) :
    errText true cap verdict rest = some ((rest.takeWhile (· != nl)).take (cap - 2) ++ [nl, nul]) := by
  have := copy_finish_repaired cap hcap rest [] verdict (by simp) (by simp)
  simpa [errText] using this

theorem errText_repaired_fits (cap : Nat) (hcap : cap ≥ 2) (verdict : Char) (rest : List Char) :
    ∃ t, errText true cap verdict rest = some t ∧ t.length ≤ cap := by
  refine ⟨_, errText_repaired cap hcap verdict rest, ?_⟩
  simp only [List.length_append, List.length_take, List.length_cons, List.length_nil]
  omega

/-- F09-RSHERR, witness of the code before e2d5199 (buffer of 4 bytes for the witness; the same happens at every
    size, LINEBUFSIZE in the code): a text of cap - 1 bytes without a newline makes the terminator land behind the
    buffer, a longer one already overruns it inside the loop; the repaired code stores "ab\n\0" -/
theorem rsherr_witness_unchanged :
    errText false 4 'x' ['a', 'b', 'c'] = none ∧
    errText false 4 'x' ['a', 'b', 'c', 'd', 'e', 'f'] = none ∧
    errText false 4 'x' ['a', 'b'] = some ['a', 'b', nl, nul] ∧
    errText true 4 'x' ['a', 'b', 'c', 'd', 'e', 'f'] = some ['a', 'b', nl, nul] := by
  decide

end PdshVerif.Exec.XrcmdErr
