/-
  What the property demands of the rsh handshake, stated on the calls an observer of the sockets sees --
  independently of how xrcmd gets there (which ports it tries, how often it retries):

   * no byte is written before a connect() has succeeded;
   * a call that returns a socket has written exactly  port NUL luser NUL ruser NUL cmd NUL, where `port` is
     empty when no stderr channel was asked for and otherwise the decimal number of a socket of this call
     that is in the listening state at the moment the first byte is written.
-/
import PdshVerif.Exec.XrcmdThms

namespace PdshVerif.Exec.Xrcmd.Spec
open PdshVerif.Exec PdshVerif.Exec.Xrcmd

/-- the sockets in the listening state after the calls `evs` -/
def listening : List Ev → List Nat → List Nat
  | [], ls => ls
  | .listen p :: rest, ls => listening rest (p :: ls)
  | .close p :: rest, ls => listening rest (ls.filter (· ≠ p))
  | _ :: rest, ls => listening rest ls

/-- the calls before the first write -/
def beforeFirstWrite (evs : List Ev) : List Ev := evs.takeWhile (fun e => !e.isWrite)

def isConnectOk : Ev → Bool
  | .connect _ .ok => true
  | _ => false

def connected (evs : List Ev) : Bool := evs.any isConnectOk

def meets (errCh : Bool) (luser ruser cmd : List Char) (ok : Bool) (evs : List Ev) : Bool :=
  ((writesOf evs).isEmpty || connected (beforeFirstWrite evs)) &&
  (!ok ||
    (if errCh then
       (listening (beforeFirstWrite evs) []).any fun p2 =>
         (writesOf evs).flatten == rshRequest (some p2) luser ruser cmd
     else (writesOf evs).flatten == rshRequest none luser ruser cmd))

/-! ### the model meets the specification -/

theorem listening_append (a b : List Ev) (ls : List Nat) :
    listening (a ++ b) ls = listening b (listening a ls) := by
  induction a generalizing ls with
  | nil => rfl
  | cons e rest ih => cases e <;> simp [listening, ih]

theorem beforeFirstWrite_append (a b : List Ev) (h : ∀ e ∈ a, e.isWrite = false) :
    beforeFirstWrite (a ++ b) = a ++ beforeFirstWrite b := by
  induction a with
  | nil => rfl
  | cons e rest ih =>
    have he := h e (by simp)
    have := ih (fun x hx => h x (by simp [hx]))
    simp only [beforeFirstWrite, List.cons_append, List.takeWhile_cons, he, Bool.not_false, if_true] at this ⊢
    rw [this]

theorem connected_append_left (a b : List Ev) (h : connected a = true) : connected (a ++ b) = true := by
  simp only [connected, List.any_append, Bool.or_eq_true] at h ⊢
  exact Or.inl h

/-- whatever happens after the loop, the calls of the loop come first -/
theorem xrcmd_evs_prefix (w : World) (errCh : Bool) (l r c : List Char) (p : Nat) (pre : List Ev)
    (hl : connectLoop w w.conns (IPPORT_RESERVED - 1) 1 [] = (some p, pre)) :
    ∃ tail, (xrcmd w errCh l r c).evs = pre ++ tail := by
  unfold xrcmd
  simp only [hl]
  cases errCh with
  | false =>
    simp only [Bool.not_false, if_true, finish]
    cases w.reply with
    | none => exact ⟨_, by simp only [List.append_assoc]; rfl⟩
    | some bs =>
      cases bs with
      | nil => exact ⟨_, by simp only [List.append_assoc]; rfl⟩
      | cons b rest =>
        by_cases hb : b = nul
        · simp only [hb, if_true]; exact ⟨_, by simp only [List.append_assoc]; rfl⟩
        · simp only [hb, if_false]; exact ⟨_, by simp only [List.append_assoc]; rfl⟩
  | true =>
    simp only [Bool.not_true, Bool.false_eq_true, if_false]
    cases w.resv (p - 1) with
    | none => exact ⟨_, rfl⟩
    | some p2 =>
      simp only []
      by_cases hp : w.pollOk = true
      · simp only [hp, Bool.not_true, Bool.false_eq_true, if_false]
        cases w.acc with
        | none => exact ⟨_, by simp only [List.append_assoc]; rfl⟩
        | some src =>
          simp only []
          by_cases hs : src ≥ IPPORT_RESERVED ∨ src < IPPORT_RESERVED / 2
          · simp only [hs, if_true]; exact ⟨_, by simp only [List.append_assoc]; rfl⟩
          · simp only [hs, if_false, finish]
            cases w.reply with
            | none => exact ⟨_, by simp only [List.append_assoc]; rfl⟩
            | some bs =>
              cases bs with
              | nil => exact ⟨_, by simp only [List.append_assoc]; rfl⟩
              | cons b rest =>
                by_cases hb : b = nul
                · simp only [hb, if_true]; exact ⟨_, by simp only [List.append_assoc]; rfl⟩
                · simp only [hb, if_false]; exact ⟨_, by simp only [List.append_assoc]; rfl⟩
      · simp only [hp, Bool.not_false, if_true]
        exact ⟨_, by simp only [List.append_assoc]; rfl⟩

theorem connected_of_loop (w : World) (cs : List Conn) (lp timo p : Nat)
    (h : (connectLoop w cs lp timo []).1 = some p) : connected (connectLoop w cs lp timo []).2 = true := by
  obtain ⟨pre, _, _, he⟩ := connectLoop_some w cs lp timo p h
  rw [he]
  simp [connected, isConnectOk]

/-- the loop only binds, connects, closes and sleeps: no socket is listening after it -/
theorem connectLoop_listening (w : World) (cs : List Conn) (lp timo : Nat) :
    listening (connectLoop w cs lp timo []).2 [] = [] := by
  induction cs generalizing lp timo with
  | nil => simp [connectLoop, listening]
  | cons c rest ih =>
    simp only [connectLoop]
    cases w.resv lp with
    | none => simp [listening]
    | some q =>
      cases c with
      | ok => simp [listening]
      | addrInUse =>
        simp only []
        rw [connectLoop_acc, listening_append]
        simp [listening, ih]
      | refused =>
        simp only []
        by_cases ht : timo ≤ 16
        · by_cases hs : w.sleeps = true
          · simp only [ht, hs, if_true]
            rw [connectLoop_acc, listening_append]
            simp [listening, ih]
          · simp [ht, hs, listening]
        · simp [ht, listening]
      | other => simp [listening]

theorem writes_flatten_stderr (p2 : Nat) (l r c : List Char) :
    ([Nat.toDigits 10 p2 ++ [nul], l ++ [nul], r ++ [nul], c ++ [nul]] : List (List Char)).flatten =
      rshRequest (some p2) l r c := by
  simp [rshRequest, portField]

theorem writes_flatten_plain (l r c : List Char) :
    ([[nul], l ++ [nul], r ++ [nul], c ++ [nul]] : List (List Char)).flatten = rshRequest none l r c := by
  simp [rshRequest, portField]

/-- THE MODEL OF xrcmd MEETS THE SPECIFICATION, for every world: whatever ports are busy, however often
    connect() fails and with which error, whatever the peer does with the back-connection and whatever it
    answers -/
theorem xrcmd_meets (w : World) (errCh : Bool) (l r c : List Char) :
    meets errCh l r c (xrcmd w errCh l r c).ok (xrcmd w errCh l r c).evs = true := by
  cases hl : connectLoop w w.conns (IPPORT_RESERVED - 1) 1 [] with
  | mk o pre =>
    cases o with
    | none =>
      obtain ⟨hok, hw⟩ := xrcmd_unconnected w errCh l r c (by rw [hl])
      simp [meets, hok, hw]
    | some p =>
      have hnw : ∀ e ∈ pre, e.isWrite = false := by
        have := connectLoop_no_write w w.conns (IPPORT_RESERVED - 1) 1
        rwa [hl] at this
      have hconn : connected pre = true := by
        have := connected_of_loop w w.conns (IPPORT_RESERVED - 1) 1 p (by rw [hl])
        rwa [hl] at this
      have hlis : listening pre [] = [] := by
        have := connectLoop_listening w w.conns (IPPORT_RESERVED - 1) 1
        rwa [hl] at this
      obtain ⟨tail, htail⟩ := xrcmd_evs_prefix w errCh l r c p pre hl
      have h1 : connected (beforeFirstWrite (xrcmd w errCh l r c).evs) = true := by
        rw [htail, beforeFirstWrite_append pre tail hnw]
        exact connected_append_left _ _ hconn
      unfold meets
      rw [h1]
      simp only [Bool.or_true, Bool.true_and, Bool.or_eq_true, Bool.not_eq_true']
      by_cases hok : (xrcmd w errCh l r c).ok = true
      · right
        cases errCh with
        | true =>
          obtain ⟨p', p2, src, pre', hl', _, _, _, _, _, _, he⟩ := xrcmd_ok_stderr w l r c hok
          rw [hl] at hl'
          obtain ⟨hpp, hpre⟩ := Prod.mk.inj hl'
          subst hpre
          simp only [if_true]
          rw [he]
          have hb : beforeFirstWrite (pre ++ [Ev.bind p2, Ev.listen p2, Ev.write (Nat.toDigits 10 p2 ++ [nul]),
              Ev.accept src, Ev.close p2, Ev.write (l ++ [nul]), Ev.write (r ++ [nul]), Ev.write (c ++ [nul])]) =
              pre ++ [Ev.bind p2, Ev.listen p2] := by
            rw [beforeFirstWrite_append pre _ hnw]
            simp [beforeFirstWrite, Ev.isWrite]
          rw [hb, listening_append, hlis]
          simp only [listening, List.any_cons, List.any_nil, Bool.or_false]
          rw [writesOf_append, writesOf_no_write pre hnw]
          simp only [writesOf, List.filterMap_cons, List.filterMap_nil, List.nil_append]
          rw [writes_flatten_stderr]
          simp
        | false =>
          obtain ⟨p', pre', hl', _, he⟩ := xrcmd_ok_plain w l r c hok
          rw [hl] at hl'
          obtain ⟨hpp, hpre⟩ := Prod.mk.inj hl'
          subst hpre
          simp only [Bool.false_eq_true, if_false]
          rw [he, writesOf_append, writesOf_no_write pre hnw]
          simp only [writesOf, List.filterMap_cons, List.filterMap_nil, List.nil_append]
          rw [writes_flatten_plain]
          simp
      · left
        simpa using hok

/-! ### the back-off is bounded -/

/-- seconds spent in sleep() -/
def sleepSum (evs : List Ev) : Nat :=
  (evs.map fun e => match e with
    | .sleep n => n
    | _ => 0).sum

theorem sleepSum_append (a b : List Ev) : sleepSum (a ++ b) = sleepSum a + sleepSum b := by
  simp [sleepSum, List.map_append, List.sum_append]

/-- the loop doubles its pause from `timo` and gives up once the pause would exceed 16 s -/
theorem connectLoop_sleep_bound (w : World) (cs : List Conn) (lp timo : Nat) :
    sleepSum (connectLoop w cs lp timo []).2 ≤ 32 - timo := by
  induction cs generalizing lp timo with
  | nil => simp [connectLoop, sleepSum]
  | cons c rest ih =>
    simp only [connectLoop]
    cases w.resv lp with
    | none => simp [sleepSum]
    | some q =>
      cases c with
      | ok => simp [sleepSum]
      | addrInUse =>
        simp only []
        rw [connectLoop_acc, sleepSum_append]
        have := ih (q - 1) timo
        simp only [sleepSum, List.nil_append, List.map_append, List.map_cons, List.map_nil, List.sum_append,
          List.sum_cons, List.sum_nil] at this ⊢
        omega
      | refused =>
        simp only []
        by_cases ht : timo ≤ 16
        · by_cases hs : w.sleeps = true
          · simp only [ht, hs, if_true]
            rw [connectLoop_acc, sleepSum_append]
            have := ih q (timo * 2)
            simp only [sleepSum, List.nil_append, List.map_append, List.map_cons, List.map_nil, List.sum_append,
              List.sum_cons, List.sum_nil] at this ⊢
            omega
          · simp only [ht, hs, if_true, Bool.false_eq_true, if_false]
            simp only [sleepSum, List.nil_append, List.map_append, List.map_cons, List.map_nil, List.sum_append,
              List.sum_cons, List.sum_nil]
            omega
        · simp only [ht, if_false]
          simp [sleepSum]
      | other => simp [sleepSum]

/-- nothing outside the loop sleeps -/
theorem xrcmd_sleepSum (w : World) (errCh : Bool) (l r c : List Char) :
    sleepSum (xrcmd w errCh l r c).evs = sleepSum (connectLoop w w.conns (IPPORT_RESERVED - 1) 1 []).2 := by
  unfold xrcmd finish
  cases hl : connectLoop w w.conns (IPPORT_RESERVED - 1) 1 [] with
  | mk o pre =>
    cases o with
    | none => rfl
    | some p =>
      simp only []
      repeat' split
      all_goals simp [sleepSum, List.sum_append]

/-- xrcmd spends at most 1 + 2 + 4 + 8 + 16 = 31 seconds asleep, whatever the network does -/
theorem xrcmd_sleeps_at_most_31 (w : World) (errCh : Bool) (l r c : List Char) :
    sleepSum (xrcmd w errCh l r c).evs ≤ 31 := by
  rw [xrcmd_sleepSum]
  exact connectLoop_sleep_bound w w.conns (IPPORT_RESERVED - 1) 1

end PdshVerif.Exec.Xrcmd.Spec
