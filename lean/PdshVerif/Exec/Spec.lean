/-
  Specification of the exec argument substitution (property C09), written independently of
  the C loop: an argument is cut greedily, left to right, into tokens

      lit c | %h | %u | %n | %% | %x (unknown escape, x any other char) | a lone '%' at the end

  and every token is rendered on its own.  Nothing else is said: no pointers, no NULL, no
  memory.  Substituted text is never looked at again.
-/
import PdshVerif.Exec.Format

namespace PdshVerif.Exec.Spec
open PdshVerif.Exec

inductive Tok where
  | lit (c : Char)
  | host | user | rank | pct
  | unknown (c : Char)
  | trailingPct
  deriving Repr, DecidableEq, Inhabited

def escTok (d : Char) : Tok :=
  if d = 'h' then .host else if d = 'u' then .user else if d = 'n' then .rank
  else if d = '%' then .pct else .unknown d

def tokens : List Char → List Tok
  | [] => []
  | c :: rest =>
    if c = '%' then
      match rest with
      | [] => [.trailingPct]
      | d :: rest' => escTok d :: tokens rest'
    else .lit c :: tokens rest

def render (e : Env) : Tok → List Char
  | .lit c => [c]
  | .host => e.host
  | .user => e.user
  | .rank => Nat.toDigits 10 e.rank
  | .pct => ['%']
  | .unknown c => ['%', c]
  | .trailingPct => ['%']

/-- the text the property demands for one argument -/
def expected (e : Env) (a : List Char) : List Char := (tokens a).flatMap (render e)

/-- the argv the property demands for the helper: command name, then every argument rendered -/
def expectedArgv (e : Env) (cmd : List Char) (argv : List (List Char)) : List (List Char) :=
  cmd :: argv.map (expected e)

/-- the argument ends in a '%' that is not the second half of "%%" (class of D10) -/
def endsUnpaired (a : List Char) : Bool := (tokens a).contains .trailingPct

/-! rsh request: four NUL-terminated fields -/

/-- cut the first NUL-terminated field off a byte string -/
def splitNul : List Char → Option (List Char × List Char)
  | [] => none
  | c :: rest =>
    if c = nul then some ([], rest)
    else match splitNul rest with
      | some (f, r) => some (c :: f, r)
      | none => none

/-- parse a request into (port field, local user, remote user, command); exactly four fields -/
def parseRequest (bs : List Char) : Option (List Char × List Char × List Char × List Char) :=
  match splitNul bs with
  | none => none
  | some (p, r1) =>
    match splitNul r1 with
    | none => none
    | some (l, r2) =>
      match splitNul r2 with
      | none => none
      | some (r, r3) =>
        match splitNul r3 with
        | some (c, []) => some (p, l, r, c)
        | _ => none

end PdshVerif.Exec.Spec
