/-
  Model of the argument substitution of the `exec` transport
  (src/common/pipecmd.c: pipecmd_format_arg, cmd_args_create) -- property C09.

  C memory is explicit: the argument pointer `arg` is modelled by the list of bytes
  that can be read starting at `arg` (`mem`); the string ends at the first NUL, what
  follows the NUL is whatever the C program has there (the next argv string and then
  the environment block in a real process, nothing = a redzone/guard page in the harness).
  Reading beyond the modelled memory is `.ub`.

  `str` of the C code is `Option (List Char)`: `none` is the NULL pointer the
  function starts with and returns when the loop body never runs.
-/
namespace PdshVerif.Exec

/-- the three values pipecmd_format_arg substitutes: target, username, rank -/
structure Env where
  host : List Char
  user : List Char
  rank : Nat
  deriving Repr, DecidableEq, Inhabited

def nul : Char := Char.ofNat 0

/-- switchable repairs (DESIGN section 6 D10, D11); `unchanged` is the code as it is -/
structure Variant where
  fixTrailing : Bool   -- '%' before the terminator: emit '%' and stop (D10)
  fixEmpty    : Bool   -- start from "" instead of NULL (D11)
  deriving Repr, DecidableEq, Inhabited

def unchanged : Variant := ⟨false, false⟩
def repaired : Variant := ⟨true, true⟩

inductive Res where
  | ok (s : Option (List Char))
  | ub
  deriving Repr, DecidableEq, Inhabited

/-- xstrcat (&str, s): NULL becomes a fresh zeroed buffer first -/
def catStr (acc : Option (List Char)) (s : List Char) : Option (List Char) :=
  some (acc.getD [] ++ s)

/-- xstrcatchar (&str, c); appending NUL leaves the C string as it is (but non-NULL) -/
def catChar (acc : Option (List Char)) (c : Char) : Option (List Char) :=
  if c = nul then some (acc.getD []) else some (acc.getD [] ++ [c])

/-- snprintf (buf, 63, "%d", rank) for a non-negative rank (at most 10 digits: never truncated) -/
def rankStr (n : Nat) : List Char := Nat.toDigits 10 n

/-- the `while (*p != '\0')` loop of pipecmd_format_arg; `mem` = bytes readable from `p` -/
def fmtLoop (v : Variant) (e : Env) : List Char → Option (List Char) → Res
  | [], _ => .ub                                   -- *p read outside the object
  | c :: rest, acc =>
    if c = nul then .ok acc
    else if c = '%' then
      match rest with
      | [] => .ub                                  -- p++; switch (*p) outside the object
      | d :: rest' =>
        if d = 'h' then fmtLoop v e rest' (catStr acc e.host)
        else if d = 'u' then fmtLoop v e rest' (catStr acc e.user)
        else if d = 'n' then fmtLoop v e rest' (catStr acc (rankStr e.rank))
        else if d = '%' then fmtLoop v e rest' (catChar acc '%')
        else if d = nul ∧ v.fixTrailing = true then .ok (catChar acc '%')
        else
          -- default: '%' and *p are appended, then p++ : when *p was the terminator the
          -- loop goes on behind it (D10)
          fmtLoop v e rest' (catChar (catChar acc '%') d)
    else fmtLoop v e rest (catChar acc c)

def formatArg (v : Variant) (e : Env) (mem : List Char) : Res :=
  fmtLoop v e mem (if v.fixEmpty then some [] else none)

/-- bytes of the remaining argv strings as they lie in memory, then `tail` -/
def flatMem : List (List Char) → List Char → List Char
  | [], tail => tail
  | a :: rest, tail => a ++ nul :: flatMem rest tail

/-- cmd_args_create: args[i] = format (argv[i-1]); `none` element = NULL; result `none` =
    undefined behaviour somewhere.  The argv strings are contiguous in memory. -/
def fmtAll (v : Variant) (e : Env) : List (List Char) → List Char → Option (List (Option (List Char)))
  | [], _ => some []
  | a :: rest, tail =>
    match formatArg v e (flatMem (a :: rest) tail), fmtAll v e rest tail with
    | .ok s, some l => some (s :: l)
    | _, _ => none

/-- args[0] = basename of the command, then the formatted arguments -/
def cmdArgs (v : Variant) (e : Env) (cmd : List Char) (argv : List (List Char)) (tail : List Char) :
    Option (List (Option (List Char))) :=
  (fmtAll v e argv tail).map (some cmd :: ·)

/-- what execvp sees: the array up to the first NULL -/
def execArgv (args : List (Option (List Char))) : List (List Char) :=
  (args.takeWhile Option.isSome).filterMap id

/-! ### rsh wire request (src/modules/xrcmd.c: xrcmd), bytes written before the first read -/

/-- stderr port field: "" when no stderr channel is requested (fd2p == NULL), else decimal -/
def portField (port : Option Nat) : List Char :=
  match port with
  | none => []
  | some p => Nat.toDigits 10 p

def rshRequest (port : Option Nat) (luser ruser cmd : List Char) : List Char :=
  portField port ++ nul :: (luser ++ nul :: (ruser ++ nul :: (cmd ++ [nul])))

end PdshVerif.Exec
