/-
  The last step from the per-host connection (Opt/Rcmd.lean) to what the transport does with the
  command (property C09):

  exec   src/modules/execcmd.c  execcmd():  argv = pdsh_remote_argv() -- the command words as they stand
                                 on pdsh's command line (opt.c: remote_argv = argv + optind; NOT a
                                 re-split of opt->cmd); only when there are none (interactive mode,
                                 the command was read from stdin) it is { "sh", "-c", cmd }
         src/common/pipecmd.c   pipecmd (argv[0], argv + 1, host, ruser, rank): path = argv[0],
                                 args[0] = xbasename (path), args[i] = format (argv[i]);
                                 execvp (path, args)
         src/common/xstring.c   xbasename: behind the last '/'
  rsh    src/modules/xrcmd.c    xrcmd(): the write(2) calls before the first read
-/
import PdshVerif.Exec.Format

namespace PdshVerif.Exec

/-- xbasename: what follows the last '/' (the whole string when there is none) -/
def xbasename (p : List Char) : List Char := (p.reverse.takeWhile (· ≠ '/')).reverse

/-- execcmd(): the vector handed to pipecmd -/
def execWords (remote : List (List Char)) (cmd : List Char) : List (List Char) :=
  match remote with
  | [] => ["sh".toList, "-c".toList, cmd]
  | _ :: _ => remote

/-- what execvp is called with -/
structure ExecCall where
  path : List Char
  argv : List (List Char)
  deriving Repr, DecidableEq, Inhabited

/-- execcmd + pipecmd + cmd_args_create for one target; `tail` = the memory behind the last word;
    `none` = undefined behaviour (unrepaired code on a word ending in a lone '%') -/
def execCall (v : Variant) (e : Env) (remote : List (List Char)) (cmd tail : List Char) : Option ExecCall :=
  match execWords remote cmd with
  | [] => none
  | w0 :: rest => (cmdArgs v e (xbasename w0) rest tail).map fun a => ⟨w0, execArgv a⟩

/-- the write(2) calls of xrcmd before its first read, in order: the stderr port (`write (s, "", 1)`
    without a stderr channel, else the decimal port with its terminator), then local user, remote
    user and command, each with its terminator -/
def xrcmdWrites (port : Option Nat) (luser ruser cmd : List Char) : List (List Char) :=
  [ (match port with
     | none => [nul]
     | some p => Nat.toDigits 10 p ++ [nul]),
    luser ++ [nul], ruser ++ [nul], cmd ++ [nul] ]

end PdshVerif.Exec
