/-
  Helper lemmas: the C loop of pipecmd_format_arg (Exec/Format.lean) against the token
  specification (Exec/Spec.lean).
-/
import PdshVerif.Exec.Format
import PdshVerif.Exec.Spec

namespace PdshVerif.Exec
open PdshVerif.Exec.Spec

theorem tokens_cons (c : Char) (rest : List Char) :
    tokens (c :: rest) =
      if c = '%' then
        match rest with
        | [] => [Tok.trailingPct]
        | d :: rest' => escTok d :: tokens rest'
      else Tok.lit c :: tokens rest := by
  rw [tokens.eq_def]; rfl

theorem tokens_nil : tokens [] = [] := by rw [tokens.eq_def]

theorem fmtLoop_cons (v : Variant) (e : Env) (c : Char) (rest : List Char) (acc : Option (List Char)) :
    fmtLoop v e (c :: rest) acc =
      if c = nul then .ok acc
      else if c = '%' then
        match rest with
        | [] => .ub
        | d :: rest' =>
          if d = 'h' then fmtLoop v e rest' (catStr acc e.host)
          else if d = 'u' then fmtLoop v e rest' (catStr acc e.user)
          else if d = 'n' then fmtLoop v e rest' (catStr acc (rankStr e.rank))
          else if d = '%' then fmtLoop v e rest' (catChar acc '%')
          else if d = nul ∧ v.fixTrailing = true then .ok (catChar acc '%')
          else fmtLoop v e rest' (catChar (catChar acc '%') d)
      else fmtLoop v e rest (catChar acc c) := by
  rw [fmtLoop.eq_def]; rfl

theorem nul_ne_pct : nul ≠ '%' := by decide
theorem nul_ne_h : nul ≠ 'h' := by decide
theorem nul_ne_u : nul ≠ 'u' := by decide
theorem nul_ne_n : nul ≠ 'n' := by decide

@[simp] theorem catChar_some (s : List Char) (c : Char) (h : c ≠ nul) :
    catChar (some s) c = some (s ++ [c]) := by
  simp [catChar, h]

@[simp] theorem catStr_some (s t : List Char) : catStr (some s) t = some (s ++ t) := by
  simp [catStr]

theorem catChar_isSome (acc : Option (List Char)) (c : Char) : (catChar acc c).isSome = true := by
  unfold catChar; split <;> simp

theorem catChar_none (c : Char) (h : c ≠ nul) : catChar none c = some [c] := by
  simp [catChar, h]

theorem catStr_none (t : List Char) : catStr none t = some t := by
  simp [catStr]

theorem expected_nil (e : Env) : expected e [] = [] := by
  simp [expected, tokens_cons, tokens_nil]

theorem endsUnpaired_cons_lit (c : Char) (rest : List Char) (h : c ≠ '%') :
    endsUnpaired (c :: rest) = endsUnpaired rest := by
  simp [endsUnpaired, tokens_cons, h]

theorem endsUnpaired_esc (d : Char) (rest : List Char) :
    endsUnpaired ('%' :: d :: rest) = endsUnpaired rest := by
  have : escTok d ≠ Tok.trailingPct := by
    unfold escTok; repeat' split
    all_goals simp
  simp [endsUnpaired, tokens_cons]
  intro h; exact absurd h.symm this

theorem expected_cons_lit (e : Env) (c : Char) (rest : List Char) (h : c ≠ '%') :
    expected e (c :: rest) = c :: expected e rest := by
  simp [expected, tokens_cons, h, render]

theorem expected_esc (e : Env) (d : Char) (rest : List Char) :
    expected e ('%' :: d :: rest) = render e (escTok d) ++ expected e rest := by
  simp [expected, tokens_cons, tokens_nil]

/-- main loop lemma: started with a non-NULL accumulator on a NUL-free argument followed by its
    terminator (and anything behind it), the C loop appends exactly the specified text;
    the hypothesis on a lone trailing '%' is not needed when D10 is repaired -/
theorem fmtLoop_some (v : Variant) (e : Env) (tail : List Char) :
    ∀ (a : List Char) (s : List Char), nul ∉ a →
      (v.fixTrailing = true ∨ endsUnpaired a = false) →
      fmtLoop v e (a ++ nul :: tail) (some s) = .ok (some (s ++ expected e a)) := by
  intro a
  induction a using tokens.induct with
  | case1 => intro s _ _; simp [fmtLoop_cons, expected_nil]
  | case2 =>
    -- a = ['%']
    intro s _ hv
    rcases hv with hv | hv
    · simp [fmtLoop_cons, nul_ne_pct.symm, nul_ne_h, nul_ne_u, nul_ne_n, nul_ne_pct, hv, expected,
        tokens_cons, tokens_nil, render, catChar]
    · simp [endsUnpaired, tokens_cons, tokens_nil] at hv
  | case3 d rest ih =>
    intro s hn hv
    have hd : d ≠ nul := by
      intro h; apply hn; simp [h]
    have hrest : nul ∉ rest := by
      intro h; apply hn; simp [h]
    have hv' : v.fixTrailing = true ∨ endsUnpaired rest = false := by
      rcases hv with hv | hv
      · exact Or.inl hv
      · rw [endsUnpaired_esc] at hv; exact Or.inr hv
    have hp : ('%' : Char) ≠ nul := by decide
    simp only [List.cons_append, fmtLoop_cons, hp, if_false, if_true]
    rw [expected_esc]
    by_cases h1 : d = 'h'
    · subst h1; simp [ih _ hrest hv', escTok, render, List.append_assoc]
    by_cases h2 : d = 'u'
    · subst h2; simp [ih _ hrest hv', escTok, render, List.append_assoc]
    by_cases h3 : d = 'n'
    · subst h3; simp [ih _ hrest hv', escTok, render, rankStr, List.append_assoc]
    by_cases h4 : d = '%'
    · subst h4; simp [ih _ hrest hv', escTok, render, hp, List.append_assoc]
    simp [h1, h2, h3, h4, hd, hp, ih _ hrest hv', escTok, render, List.append_assoc]
  | case4 c rest hc ih =>
    intro s hn hv
    have hcn : c ≠ nul := by
      intro h; apply hn; simp [h]
    have hrest : nul ∉ rest := by
      intro h; apply hn; simp [h]
    have hv' : v.fixTrailing = true ∨ endsUnpaired rest = false := by
      rcases hv with hv | hv
      · exact Or.inl hv
      · rw [endsUnpaired_cons_lit c rest hc] at hv; exact Or.inr hv
    simp only [List.cons_append, fmtLoop_cons, hcn, hc, if_false]
    rw [catChar_some s c hcn, ih _ hrest hv', expected_cons_lit e c rest hc]
    simp [List.append_assoc]

/-- a non-empty NUL-free argument makes `str` non-NULL in the first iteration: from then on
    `fmtLoop_some` applies, so starting from NULL gives the same text -/
theorem fmtLoop_none (v : Variant) (e : Env) (tail : List Char) (a : List Char) (hne : a ≠ [])
    (hn : nul ∉ a) (hv : v.fixTrailing = true ∨ endsUnpaired a = false) :
    fmtLoop v e (a ++ nul :: tail) none = .ok (some (expected e a)) := by
  have key : ∀ (a : List Char), a ≠ [] → nul ∉ a →
      (v.fixTrailing = true ∨ endsUnpaired a = false) →
      fmtLoop v e (a ++ nul :: tail) none = fmtLoop v e (a ++ nul :: tail) (some []) := by
    intro a hne hn hv
    match a, hne with
    | c :: rest, _ =>
      have hcn : c ≠ nul := by
        intro h; apply hn; simp [h]
      by_cases hc : c = '%'
      · subst hc
        match rest with
        | [] =>
          simp [fmtLoop_cons, hcn, nul_ne_h, nul_ne_u, nul_ne_n, nul_ne_pct, catChar, catStr]
        | d :: rest' =>
          simp [fmtLoop_cons, hcn, catChar, catStr]
      · simp [fmtLoop_cons, hcn, hc, catChar]
  rw [key a hne hn hv, fmtLoop_some v e tail a [] hn hv]
  simp

/-- tokenisation is a homomorphism for `++` as long as the left part does not end in a lone '%' -/
theorem tokens_append (a b : List Char) (h : endsUnpaired a = false) :
    tokens (a ++ b) = tokens a ++ tokens b := by
  induction a using tokens.induct with
  | case1 => simp [tokens_nil]
  | case2 => simp [endsUnpaired, tokens_cons, tokens_nil] at h
  | case3 d rest ih =>
    rw [endsUnpaired_esc] at h
    simp [tokens_cons, ih h]
  | case4 c rest hc ih =>
    rw [endsUnpaired_cons_lit c rest hc] at h
    simp [tokens_cons, hc, ih h]

theorem expected_append (e : Env) (a b : List Char) (h : endsUnpaired a = false) :
    expected e (a ++ b) = expected e a ++ expected e b := by
  simp [expected, tokens_append a b h]

theorem tokens_no_pct (a : List Char) (h : '%' ∉ a) : tokens a = a.map Tok.lit := by
  induction a with
  | nil => simp [tokens_nil]
  | cons c rest ih =>
    have hc : c ≠ '%' := by intro hc; apply h; simp [hc]
    have hr : '%' ∉ rest := by intro hr; apply h; simp [hr]
    simp [tokens_cons, hc, ih hr]

theorem endsUnpaired_no_pct (a : List Char) (h : '%' ∉ a) : endsUnpaired a = false := by
  simp [endsUnpaired, tokens_no_pct a h]

/-! rsh request -/

theorem splitNul_append (f rest : List Char) (h : nul ∉ f) :
    splitNul (f ++ nul :: rest) = some (f, rest) := by
  induction f with
  | nil => simp [splitNul]
  | cons c f ih =>
    have hc : c ≠ nul := by intro hc; apply h; simp [hc]
    have hf : nul ∉ f := by intro hf; apply h; simp [hf]
    simp [splitNul, hc, ih hf]

end PdshVerif.Exec
