/-
  Model of src/modules/xrcmd.c  xrcmd(): the connection set-up of the rsh transport (property C09) --
  the privileged-port loop, the stderr back-connection and the write(2) calls that make up the request.

  The world is a parameter (`World`): what privsep_rresvport() binds when started at a port, the results
  of the successive connect() calls, whether sleep() runs to its end, what xpoll()/accept() report about
  the peer's back-connection and what the peer answers.  The function returns the sequence of calls
  xrcmd makes on its sockets (`Ev`), sockets named by the local port rresvport() bound them to.

      for (timo = 1, lport = IPPORT_RESERVED - 1;;) {
          s = privsep_rresvport(&lport);            -- .bind p        (failure: return -1)
          rv = connect(s, ...);                     -- .connect p r
          if (rv >= 0) break;
          close(s);                                 -- .close p
          EADDRINUSE:   lport--; continue;
          ECONNREFUSED && timo <= 16: sleep(timo) (interrupted: return -1); timo *= 2; continue;
          otherwise:    return -1;
      }
      lport--;
      if (fd2p == 0) { write(s, "", 1); lport = 0; }
      else { s2 = privsep_rresvport(&lport); listen(s2, 1); write(s, num(lport)); xpoll; accept; close(s2);
             source port of the back-connection must be in [IPPORT_RESERVED/2, IPPORT_RESERVED) }
      write(s, locuser); write(s, remuser); write(s, cmd);  read(s, &c, 1); c must be 0

  Not modelled: write(2) failing or being short, signals (pthread_sigmask), the text of the diagnostics.
-/
import PdshVerif.Exec.EndToEnd
import PdshVerif.Gen.Modopt

namespace PdshVerif.Exec.Xrcmd
open PdshVerif.Exec

def IPPORT_RESERVED : Nat := Gen.MO_IPPORT_RESERVED

/-- errno classes of a failed connect(2) that xrcmd distinguishes -/
inductive Conn where
  | ok | addrInUse | refused | other
  deriving Repr, DecidableEq, Inhabited

structure World where
  resv   : Nat → Option Nat        -- privsep_rresvport(&lport): the port bound when started at lport
  conns  : List Conn               -- results of the successive connect() calls
  sleeps : Bool                    -- sleep() runs to its end (false: interrupted by the connect time-out)
  pollOk : Bool                    -- xpoll: exactly the listening socket became readable
  acc    : Option Nat              -- accept(): source port of the back-connection (`none`: accept fails)
  reply  : Option (List Char)      -- what read(s, &c, 1) sees: `none` error, `some []` end of file

inductive Ev where
  | bind (p : Nat)
  | connect (p : Nat) (r : Conn)
  | close (p : Nat)
  | sleep (secs : Nat)
  | listen (p : Nat)
  | write (bs : List Char)
  | accept (src : Nat)
  | closeErr                       -- close(*fd2p)
  deriving Repr, DecidableEq, Inhabited

def Ev.isWrite : Ev → Bool
  | .write _ => true
  | _ => false

structure Res where
  ok  : Bool                       -- a socket is returned (else -1)
  evs : List Ev
  deriving Repr, DecidableEq, Inhabited

/-- the `for (;;)` loop: the port of the connected socket, or `none` (return -1), and the calls made -/
def connectLoop (w : World) : List Conn → Nat → Nat → List Ev → Option Nat × List Ev
  | [], _, _, evs => (none, evs)
  | c :: rest, lport, timo, evs =>
    match w.resv lport with
    | none => (none, evs)
    | some p =>
      let evs := evs ++ [.bind p, .connect p c]
      match c with
      | .ok => (some p, evs)
      | .addrInUse => connectLoop w rest (p - 1) timo (evs ++ [.close p])
      | .refused =>
        if timo ≤ 16 then
          if w.sleeps then connectLoop w rest p (timo * 2) (evs ++ [.close p, .sleep timo])
          else (none, evs ++ [.close p, .sleep timo])
        else (none, evs ++ [.close p])
      | .other => (none, evs ++ [.close p])

/-- the three strings and the peer's verdict -/
def finish (w : World) (p : Nat) (errCh : Bool) (luser ruser cmd : List Char) (evs : List Ev) : Res :=
  let evs := evs ++ [.write (luser ++ [nul]), .write (ruser ++ [nul]), .write (cmd ++ [nul])]
  let bad : Res := ⟨false, evs ++ (if errCh then [.closeErr] else []) ++ [.close p]⟩
  match w.reply with
  | some (c :: _) => if c = nul then ⟨true, evs⟩ else bad
  | _ => bad

def xrcmd (w : World) (errCh : Bool) (luser ruser cmd : List Char) : Res :=
  match connectLoop w w.conns (IPPORT_RESERVED - 1) 1 [] with
  | (none, evs) => ⟨false, evs⟩
  | (some p, evs) =>
    if !errCh then finish w p false luser ruser cmd (evs ++ [.write [nul]])
    else
      match w.resv (p - 1) with
      | none => ⟨false, evs ++ [.close p]⟩
      | some p2 =>
        let evs := evs ++ [.bind p2, .listen p2, .write (Nat.toDigits 10 p2 ++ [nul])]
        if !w.pollOk then ⟨false, evs ++ [.close p2, .close p]⟩
        else
          match w.acc with
          | none => ⟨false, evs ++ [.close p2, .close p]⟩
          | some src =>
            let evs := evs ++ [.accept src, .close p2]
            if src ≥ IPPORT_RESERVED ∨ src < IPPORT_RESERVED / 2 then ⟨false, evs ++ [.closeErr, .close p]⟩
            else finish w p true luser ruser cmd evs

/-- the bytes of the write(2) calls, in order -/
def writesOf (evs : List Ev) : List (List Char) :=
  evs.filterMap fun e => match e with
    | .write bs => some bs
    | _ => none

/-- consecutive writes merged (what a peer can observe; also what the harness reports) -/
def mergeWrites (evs : List Ev) : List Ev :=
  evs.foldr (fun e acc => match e, acc with
    | .write a, .write b :: rest => .write (a ++ b) :: rest
    | e, acc => e :: acc) []

end PdshVerif.Exec.Xrcmd
