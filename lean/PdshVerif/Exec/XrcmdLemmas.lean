/-
  Lemmas about Exec/Xrcmd.lean (the privileged-port loop of xrcmd); the property theorems are in
  Props/C09.lean.
-/
import PdshVerif.Exec.Xrcmd

namespace PdshVerif.Exec.Xrcmd
open PdshVerif.Exec

/-- the accumulator of the loop is only ever appended to -/
theorem connectLoop_acc (w : World) (cs : List Conn) (lp timo : Nat) (evs : List Ev) :
    connectLoop w cs lp timo evs =
      ((connectLoop w cs lp timo []).1, evs ++ (connectLoop w cs lp timo []).2) := by
  induction cs generalizing lp timo evs with
  | nil => simp [connectLoop]
  | cons c rest ih =>
    simp only [connectLoop]
    cases hr : w.resv lp with
    | none => simp
    | some p =>
      cases c with
      | ok => simp
      | addrInUse =>
        simp only []
        rw [ih (p - 1) timo (evs ++ [Ev.bind p, Ev.connect p Conn.addrInUse] ++ [Ev.close p]),
            ih (p - 1) timo ([] ++ [Ev.bind p, Ev.connect p Conn.addrInUse] ++ [Ev.close p])]
        simp [List.append_assoc]
      | refused =>
        simp only []
        by_cases ht : timo ≤ 16
        · by_cases hs : w.sleeps = true
          · simp only [ht, hs, if_true]
            rw [ih p (timo * 2) (evs ++ [Ev.bind p, Ev.connect p Conn.refused] ++ [Ev.close p, Ev.sleep timo]),
                ih p (timo * 2) ([] ++ [Ev.bind p, Ev.connect p Conn.refused] ++ [Ev.close p, Ev.sleep timo])]
            simp [List.append_assoc]
          · simp [ht, hs]
        · simp [ht]
      | other => simp

/-- nothing is written inside the loop: before a connect() has succeeded the peer sees no byte -/
theorem connectLoop_no_write (w : World) (cs : List Conn) (lp timo : Nat) :
    ∀ e ∈ (connectLoop w cs lp timo []).2, e.isWrite = false := by
  induction cs generalizing lp timo with
  | nil => simp [connectLoop]
  | cons c rest ih =>
    simp only [connectLoop]
    cases hr : w.resv lp with
    | none => simp
    | some p =>
      cases c with
      | ok => simp [Ev.isWrite]
      | addrInUse =>
        simp only []
        rw [connectLoop_acc]
        intro e he
        simp only [List.nil_append, List.mem_append, List.mem_cons, List.mem_nil_iff, or_false] at he
        rcases he with (he | he) | he
        · rcases he with he | he <;> subst he <;> rfl
        · subst he; rfl
        · exact ih (p - 1) timo e he
      | refused =>
        simp only []
        by_cases ht : timo ≤ 16
        · by_cases hs : w.sleeps = true
          · simp only [ht, hs, if_true]
            rw [connectLoop_acc]
            intro e he
            simp only [List.nil_append, List.mem_append, List.mem_cons, List.mem_nil_iff, or_false] at he
            rcases he with (he | he) | he
            · rcases he with he | he <;> subst he <;> rfl
            · rcases he with he | he <;> subst he <;> rfl
            · exact ih p (timo * 2) e he
          · simp only [ht, hs, if_true, Bool.false_eq_true, if_false]
            intro e he
            simp only [List.nil_append, List.mem_append, List.mem_cons, List.mem_nil_iff, or_false] at he
            rcases he with (he | he) | (he | he) <;> subst he <;> rfl
        · simp only [ht, if_false]
          intro e he
          simp only [List.nil_append, List.mem_append, List.mem_cons, List.mem_nil_iff, or_false] at he
          rcases he with (he | he) | he <;> subst he <;> rfl
      | other =>
        intro e he
        simp only [List.nil_append, List.mem_append, List.mem_cons, List.mem_nil_iff, or_false] at he
        rcases he with (he | he) | he <;> subst he <;> rfl

/-- the socket the loop ends with was bound by rresvport and its connect() succeeded: these are the last
    two calls of the loop -/
theorem connectLoop_some (w : World) (cs : List Conn) (lp timo : Nat) (p : Nat)
    (h : (connectLoop w cs lp timo []).1 = some p) :
    ∃ pre start, w.resv start = some p ∧
      (connectLoop w cs lp timo []).2 = pre ++ [Ev.bind p, Ev.connect p Conn.ok] := by
  induction cs generalizing lp timo with
  | nil => simp [connectLoop] at h
  | cons c rest ih =>
    simp only [connectLoop] at h ⊢
    cases hr : w.resv lp with
    | none => simp [hr] at h
    | some q =>
      simp only [hr] at h ⊢
      cases c with
      | ok =>
        simp only [Option.some.injEq] at h
        subst h
        exact ⟨[], lp, hr, by simp⟩
      | addrInUse =>
        simp only [] at h ⊢
        rw [connectLoop_acc] at h ⊢
        obtain ⟨pre, start, hs, he⟩ := ih (q - 1) timo h
        refine ⟨[] ++ [Ev.bind q, Ev.connect q Conn.addrInUse] ++ [Ev.close q] ++ pre, start, hs, ?_⟩
        simp only [he, List.append_assoc]
      | refused =>
        simp only [] at h ⊢
        by_cases ht : timo ≤ 16
        · by_cases hsl : w.sleeps = true
          · simp only [ht, hsl, if_true] at h ⊢
            rw [connectLoop_acc] at h ⊢
            obtain ⟨pre, start, hs, he⟩ := ih q (timo * 2) h
            refine ⟨[] ++ [Ev.bind q, Ev.connect q Conn.refused] ++ [Ev.close q, Ev.sleep timo] ++ pre, start, hs, ?_⟩
            simp only [he, List.append_assoc]
          · simp [ht, hsl] at h
        · simp [ht] at h
      | other => simp at h

theorem writesOf_append (a b : List Ev) : writesOf (a ++ b) = writesOf a ++ writesOf b := by
  simp [writesOf, List.filterMap_append]

theorem writesOf_no_write (l : List Ev) (h : ∀ e ∈ l, e.isWrite = false) : writesOf l = [] := by
  induction l with
  | nil => rfl
  | cons e rest ih =>
    have he := h e (by simp)
    have hr := ih (fun x hx => h x (by simp [hx]))
    cases e <;> simp_all [writesOf, Ev.isWrite]

end PdshVerif.Exec.Xrcmd
