import PdshVerif.Pcp.Bounds

/-! # `_allocbuf`: where `bp->cnt` comes from  (C12, memory-safety clause)

`reader_in_bounds` (Props/C12) proves that no index leaves `bp->buf[bp->cnt]` UNDER THE HYPOTHESIS `CntOk`: `bp->cnt`
is a positive multiple of BUFSIZ.  The write loop of `_sink` adds up to BUFSIZ bytes per round and flushes only when
`count == bp->cnt`; with a `cnt` that is not a multiple of BUFSIZ that equality is never met and the loop runs off the
end of the buffer.  The hypothesis is discharged here from the code that computes `cnt`:

    size = roundup(stb.st_blksize, blksize);      /* ((x + (y-1)) / y) * y */
    if (size == 0) size = blksize;

for EVERY `st_blksize` the file system may report (0, 512, 4096, 9216 -- ZFS --, 65536, 1 MiB, ...).  The check runs
the real receiver with a scripted `st_blksize` (harness `blk=N`) and takes the model's `cnt` from `allocSize`
(`pdshmodel pcp cnt N`).  `max_is_not_enough`: the plausible simplification `max(st_blksize, BUFSIZ)` does NOT give
`CntOk` (witness 9216). -/
namespace PdshVerif.Pcp

/-- `_allocbuf`'s size computation (`blk` = `st_blksize`, `bsz` = the caller's block size, BUFSIZ) -/
def allocSize (blk bsz : Nat) : Nat :=
  let size := ((blk + (bsz - 1)) / bsz) * bsz
  if size = 0 then bsz else size

theorem allocSize_pos (blk bsz : Nat) (h : 0 < bsz) : 0 < allocSize blk bsz := by
  unfold allocSize
  simp only
  split
  · exact h
  · omega

theorem allocSize_mult (blk bsz : Nat) : allocSize blk bsz % bsz = 0 := by
  unfold allocSize
  simp only
  split
  · exact Nat.mod_self bsz
  · exact Nat.mul_mod_left _ _

/-- the buffer holds at least one block of the file system -/
theorem allocSize_ge (blk bsz : Nat) (h : 0 < bsz) : blk ≤ allocSize blk bsz := by
  unfold allocSize
  simp only
  have h1 : blk ≤ ((blk + (bsz - 1)) / bsz) * bsz := by
    have hd := Nat.div_add_mod (blk + (bsz - 1)) bsz
    have hm := Nat.mod_lt (blk + (bsz - 1)) h
    have : bsz * ((blk + (bsz - 1)) / bsz) = ((blk + (bsz - 1)) / bsz) * bsz := Nat.mul_comm _ _
    omega
  split
  · omega
  · exact h1

/-- **`CntOk` holds for the receiver as written**, whatever block size the file system reports -/
theorem allocbuf_cntOk (o : Opts) (blk : Nat) (h : o.cnt = allocSize blk BUFSZ) : CntOk o :=
  ⟨by rw [h]; exact allocSize_pos blk BUFSZ (by decide), by rw [h]; exact allocSize_mult blk BUFSZ⟩

/-- `max(st_blksize, BUFSIZ)` is not a multiple of BUFSIZ for a file system with 9216-byte blocks -/
theorem max_is_not_enough : ¬ (max 9216 BUFSZ % BUFSZ = 0) := by decide

example : allocSize 0 BUFSZ = 8192 ∧ allocSize 512 BUFSZ = 8192 ∧ allocSize 8192 BUFSZ = 8192 ∧
    allocSize 9216 BUFSZ = 16384 ∧ allocSize 65536 BUFSZ = 65536 := by decide

end PdshVerif.Pcp
