import PdshVerif.Pcp.Sink

/-! Two relational facts about the receiver automaton:
* replies are only ever appended (`st.out` is a suffix of every later `out`), so an error record,
  once sent, is part of the final reply stream;
* the receiver without name validation and a receiver with a name rule (slash-or-dotdot, or scp) run in
  lock step until the latter rejects a name (`badName`): the repair changes nothing else. -/
namespace PdshVerif.Pcp

variable {o : Opts} {st : St}

/-! ## replies only grow -/

theorem out_doUtimes (np : Str) (a m : Time) : st.out <:+ (doUtimes o st np a m).1.out := by
  unfold doUtimes
  split
  · exact List.suffix_refl _
  · exact List.suffix_cons _ _

theorem out_doUtimes_of {l : List Reply} {st' : St} (np : Str) (a m : Time) (h : l <:+ st'.out) :
    l <:+ (doUtimes o st' np a m).1.out := h.trans (out_doUtimes _ _ _)

theorem out_leave : st.out <:+ (leave o st).out := by
  unfold leave
  split
  · exact List.suffix_refl _
  · exact List.suffix_refl _
  · split
    · apply out_doUtimes_of; exact List.suffix_refl _
    · exact List.suffix_refl _

theorem out_leave_of {l : List Reply} {st' : St} (h : l <:+ st'.out) : l <:+ (leave o st').out :=
  h.trans out_leave

theorem out_screwup_of {l : List Reply} {st' : St} (w : Why) (h : l <:+ st'.out) :
    l <:+ (screwup o st' w).out := by
  unfold screwup
  apply out_leave_of
  exact h.trans (List.suffix_cons _ _)

theorem mem_out_screwup (w : Why) : Reply.err (.screwup w) ∈ (screwup o st w).out :=
  (out_leave (st := st.reply (.err (.screwup w)))).subset (by simp [St.reply])

theorem out_enter_of {l : List Reply} {st' : St} (targ : Str) (h : l <:+ st'.out) :
    l <:+ (enter o st' targ).out := by
  unfold enter
  split
  · apply out_leave_of; exact h.trans (List.suffix_cons _ _)
  · exact h.trans (List.suffix_cons _ _)

theorem out_afterData_of {l : List Reply} {st' : St} (p : Path) (np : Str) (size : Int) (count : Nat)
    (pr wr : Str) (h : l <:+ st'.out) : l <:+ (afterData o st' p np size count pr wr).out := by
  unfold afterData
  simp only
  repeat' split
  all_goals first | exact h | exact h.trans (List.suffix_cons _ _)

theorem out_handleFile_of {l : List Reply} {st' : St} (np : Str) (mode : Nat) (size : Int)
    (h : l <:+ st'.out) : l <:+ (handleFile o st' np mode size).out := by
  unfold handleFile
  simp only
  split
  · exact h.trans (List.suffix_cons _ _)
  · split
    · apply out_afterData_of; exact h.trans (List.suffix_cons _ _)
    · exact h.trans (List.suffix_cons _ _)

theorem out_handleDir_of {l : List Reply} {st' : St} (np : Str) (mode : Nat) (h : l <:+ st'.out) :
    l <:+ (handleDir o st' np mode).out := by
  unfold handleDir
  split
  · exact h.trans (List.suffix_cons _ _)
  · apply out_enter_of
    split
    · split
      · exact h
      · exact h
    · exact h
  · split
    · exact h.trans (List.suffix_cons _ _)
    · apply out_enter_of; exact h

theorem out_handleRecord_of {l : List Reply} {st' : St} (line : Str) (ch : UInt8) (h : l <:+ st'.out) :
    l <:+ (handleRecord o st' line ch).out := by
  unfold handleRecord
  split
  · exact h
  · split
    · exact h
    · exact out_leave_of h
    · apply out_leave_of; exact h.trans (List.suffix_cons _ _)
    · exact out_screwup_of _ h
    · apply out_screwup_of; exact h
    · exact h.trans (List.suffix_cons _ _)
    · split
      · exact out_screwup_of _ h
      · simp only
        split
        · apply out_handleDir_of; exact h
        · apply out_handleFile_of; exact h

theorem out_afterResponse_of {l : List Reply} {st' : St} (np : Str) (d : Wrerr) (h : l <:+ st'.out) :
    l <:+ (afterResponse o st' np d).out := by
  unfold afterResponse
  split
  · exact h
  · split
    · simp only
      split
      · refine List.IsSuffix.trans ?_ (List.suffix_cons _ _)
        apply out_doUtimes_of; exact h
      · apply out_doUtimes_of; exact h
    · split
      · exact h.trans (List.suffix_cons _ _)
      · exact h.trans (List.suffix_cons _ _)
      · exact h

theorem out_dataEOF_of {l : List Reply} {st' : St} (p : Path) (wr : Str) (h : l <:+ st'.out) :
    l <:+ (dataEOF o st' p wr).out := by
  unfold dataEOF
  apply out_leave_of
  exact h.trans (List.suffix_cons _ _)

theorem out_step (b : UInt8) : st.out <:+ (step o st b).out := by
  unfold step
  split
  · exact List.suffix_refl _
  · split
    · exact out_screwup_of _ (List.suffix_refl _)
    · exact List.suffix_refl _
  · simp only
    split
    · exact List.suffix_refl _
    · apply out_handleRecord_of; exact List.suffix_refl _
  · simp only
    split
    · exact List.suffix_refl _
    · split
      · exact List.suffix_refl _
      · apply out_afterData_of; exact List.suffix_refl _
  · split
    · exact out_afterResponse_of _ _ (List.suffix_refl _)
    · apply out_leave_of; exact List.suffix_cons _ _

theorem out_foldl (s : Str) : st.out <:+ (s.foldl (step o) st).out := by
  induction s generalizing st with
  | nil => exact List.suffix_refl _
  | cons b bs ih => exact List.IsSuffix.trans (out_step b) ih

theorem out_unwind (n : Nat) : st.out <:+ (unwind o n st).out := by
  induction n generalizing st with
  | zero => exact List.suffix_refl _
  | succ n ih =>
    unfold unwind
    split
    · exact List.suffix_refl _
    · exact List.IsSuffix.trans out_leave ih

theorem out_finish : st.out <:+ (finish o st).out := by
  unfold finish
  refine List.IsSuffix.trans ?_ (out_unwind _)
  split
  · exact List.suffix_refl _
  · exact out_leave
  · exact out_screwup_of _ (List.suffix_refl _)
  · exact out_dataEOF_of _ _ (List.suffix_refl _)
  · apply out_leave_of; exact List.suffix_cons _ _

/-- a reply that has been sent stays in the reply stream -/
theorem out_final (s : Str) : st.out <:+ (finish o (s.foldl (step o) st)).out :=
  List.IsSuffix.trans (out_foldl s) out_finish

/-! ## the two receiver variants -/

/-- the same receiver without the name validation -/
def Opts.unchanged (o : Opts) : Opts := { o with rule := .none }

def badNameReply : Reply := .err (.screwup .badName)

theorem handleRecord_variant (line : Str) (ch : UInt8) :
    handleRecord o.unchanged st line ch = handleRecord o st line ch ∨
      badNameReply ∈ (handleRecord o st line ch).out := by
  unfold handleRecord
  split
  · exact Or.inl rfl
  · split
    · exact Or.inl rfl
    · exact Or.inl rfl
    · exact Or.inl rfl
    · exact Or.inl rfl
    · exact Or.inl rfl
    · exact Or.inl rfl
    · rename_i isDir mode size name hcl
      by_cases hn : nameOk o.rule name = true
      · left
        have h1 : nameOk o.unchanged.rule name = true := by simp [Opts.unchanged, nameOk]
        simp only [hn, h1, Bool.not_true, Bool.false_eq_true, ↓reduceIte]
        rfl
      · right
        simp only [hn, Bool.not_false, ↓reduceIte]
        exact mem_out_screwup _

theorem step_variant (b : UInt8) :
    step o.unchanged st b = step o st b ∨ badNameReply ∈ (step o st b).out := by
  unfold step
  split
  · exact Or.inl rfl
  · exact Or.inl rfl
  · simp only
    split
    · exact Or.inl rfl
    · exact handleRecord_variant _ _
  · exact Or.inl rfl
  · exact Or.inl rfl

theorem foldl_variant (s : Str) :
    s.foldl (step o.unchanged) st = s.foldl (step o) st ∨ badNameReply ∈ (s.foldl (step o) st).out := by
  induction s generalizing st with
  | nil => exact Or.inl rfl
  | cons b bs ih =>
    simp only [List.foldl_cons]
    rcases step_variant (o := o) (st := st) b with h | h
    · rw [h]; exact ih
    · exact Or.inr ((out_foldl bs).subset h)

theorem unwind_variant (n : Nat) : unwind o.unchanged n st = unwind o n st := by
  induction n generalizing st with
  | zero => rfl
  | succ n ih =>
    unfold unwind
    split
    · rfl
    · exact ih

theorem finish_variant : finish o.unchanged st = finish o st := by
  unfold finish
  simp only
  rw [unwind_variant]
  rfl

theorem run_variant (fs : FS) (s : Str) :
    run o.unchanged fs s = run o fs s ∨ badNameReply ∈ (run o fs s).out := by
  unfold run
  have he : enter o.unchanged (St.init fs) o.unchanged.dest = enter o (St.init fs) o.dest := rfl
  rw [he]
  rcases foldl_variant (o := o) (st := enter o (St.init fs) o.dest) s with h | h
  · left; rw [h, finish_variant]
  · right; exact out_finish.subset h

end PdshVerif.Pcp
