import PdshVerif.Gen.Pcp

/-! # File-system model used by the pcp (pdcp/rpdcp) receiver model  (properties C11, C12)

A finite-map file system as seen by a process running as root, without symbolic links
(domain hypothesis of C12): a partial function from *canonical* paths (lists of plain components,
relative to the root the process sees -- the chroot jail of the harness) to nodes.  The system
calls `_sink` issues (`stat`, `mkdir`, `open(O_WRONLY|O_CREAT)`, `chmod`, `utimes`) take a path
*string* exactly as the C code builds it and resolve it the way the kernel does: split at `/`,
skip empty components and `.`, go up on `..`, and require every directory that is walked through
to exist.  The result of a successful resolution is the lexical normal form `lexNorm` -- this is
where "no symbolic links" is used.

Kernel behaviour that is modelled (and exercised against the real kernel by the correspondence):
`mkdir` keeps only the permission and sticky bits of its mode argument and inherits set-group-ID
from the parent; `open(O_CREAT)` keeps all twelve mode bits (root); both apply the umask and
refresh the parent's modification time; a path with a trailing slash must name a directory;
`NAME_MAX`/`PATH_MAX`; `utimes` rejects microseconds outside [0, 10^6) (up to the C library's wrap-around, `wrapOk`).  Permission checks are not
modelled (root).  A modification time is `none` when it was last set by the kernel clock ("now")
and `some t` when it is a known value (initial snapshot, or set by `utimes`).
-/
namespace PdshVerif.Pcp
open PdshVerif.Gen

/-- a C string / byte string -/
abbrev Str := List UInt8
/-- a canonical path: plain components (non-empty, no `/`, not `.`/`..`) from the root -/
abbrev Path := List Str

def cSlash : UInt8 := 47
def cDot : UInt8 := 46
def sDot : Str := [46]
def sDotDot : Str := [46, 46]

structure Time where
  sec : Int
  usec : Int
deriving DecidableEq, Repr, Inhabited

inductive Node where
  | file (mode : Nat) (mtime : Option Time) (data : Str)
  | dir (mode : Nat) (mtime : Option Time)
deriving DecidableEq, Repr

def Node.isDir : Node → Bool
  | .dir .. => true
  | .file .. => false

def Node.mode : Node → Nat
  | .dir m _ => m
  | .file m _ _ => m

def Node.mtime : Node → Option Time
  | .dir _ t => t
  | .file _ t _ => t

def Node.setMode (m : Nat) : Node → Node
  | .dir _ t => .dir m t
  | .file _ t d => .file m t d

def Node.setMtime (t : Option Time) : Node → Node
  | .dir m _ => .dir m t
  | .file m _ d => .file m t d

abbrev FS := Path → Option Node

def FS.set (fs : FS) (p : Path) (n : Node) : FS := fun q => if q = p then some n else fs q

def FS.isDir (fs : FS) (p : Path) : Bool :=
  match fs p with
  | some n => n.isDir
  | none => false

/-- the kernel refreshes a directory's modification time when an entry is created in it.
(Written with the lookup outermost so that one lookup in the result costs one lookup in `fs`.) -/
def FS.bumpDir (fs : FS) (p : Path) : FS := fun q =>
  if q = p then
    match fs p with
    | some (.dir m _) => some (.dir m none)
    | x => x
  else fs q

/-! ## path strings -/

/-- split at every `/`: `"a//b/"` ↦ `["a", "", "b", ""]`; never empty -/
def consHead (c : UInt8) : List Str → List Str
  | [] => [[c]]
  | h :: t => (c :: h) :: t

def splitSlash : Str → List Str
  | [] => [[]]
  | c :: cs => if c = cSlash then [] :: splitSlash cs else consHead c (splitSlash cs)

/-- the components the kernel walks: empty ones (`//`, leading and trailing `/`) are skipped -/
def comps (s : Str) : List Str := (splitSlash s).filter (· ≠ [])

def isAbs (s : Str) : Bool := s.head? = some cSlash
def trailingSlash (s : Str) : Bool := s.getLast? = some cSlash

def lexStep (cur : Path) (c : Str) : Path :=
  if c = sDot then cur else if c = sDotDot then cur.dropLast else cur ++ [c]

def lexWalk (cur : Path) (cs : List Str) : Path := cs.foldl lexStep cur

/-- lexical normal form of a path string relative to `cwd` (independent of the file system) -/
def lexNorm (cwd : Path) (s : Str) : Path := lexWalk (if isAbs s then [] else cwd) (comps s)

/-- every directory walked through exists (ENOENT/ENOTDIR otherwise) and no component is longer
than NAME_MAX (ENAMETOOLONG) -/
def walkOk (fs : FS) : Path → List Str → Bool
  | _, [] => true
  | cur, c :: cs => fs.isDir cur && decide (c.length ≤ PCP_NAME_MAX) && walkOk fs (lexStep cur c) cs

/-- kernel path resolution up to (not including) the existence of the final object -/
def resolve (fs : FS) (cwd : Path) (s : Str) : Option Path :=
  if s = [] then none
  else if PCP_PATH_MAX ≤ s.length then none
  else if walkOk fs (if isAbs s then [] else cwd) (comps s) then some (lexNorm cwd s) else none

/-! ## system calls -/

/-- `stat(2)`: canonical path and node -/
def stat (fs : FS) (cwd : Path) (s : Str) : Option (Path × Node) :=
  match resolve fs cwd s with
  | none => none
  | some p =>
    match fs p with
    | none => none
    | some n => if trailingSlash s && !n.isDir then none else some (p, n)

def statIsDir (fs : FS) (cwd : Path) (s : Str) : Bool :=
  match stat fs cwd s with
  | some (_, n) => n.isDir
  | none => false

/-- `m & ~umask` on the twelve mode bits -/
def maskOff (m um : Nat) : Nat := (m % 4096) &&& (4095 ^^^ (um % 4096))

/-- mode of a directory created by `mkdir(path, mode)` under `umask` in a parent of mode `pm` -/
def mkdirMode (mode um pm : Nat) : Nat := (maskOff mode um &&& 0o1777) ||| (pm &&& 0o2000)

def parentMode (fs : FS) (p : Path) : Nat :=
  match fs p.dropLast with
  | some n => n.mode
  | none => 0

/-- `mkdir(2)`: new file system and the canonical path created -/
def mkdir (fs : FS) (cwd : Path) (s : Str) (mode um : Nat) : Option (FS × Path) :=
  match resolve fs cwd s with
  | none => none
  | some p =>
    match fs p with
    | some _ => none                       -- EEXIST (also `.`, `..`, `/`)
    | none =>
      if p = [] then none
      else some (((fs.bumpDir p.dropLast).set p (.dir (mkdirMode mode um (parentMode fs p)) none)), p)

/-- `open(path, O_WRONLY|O_CREAT, mode)`: new file system, canonical path, whether it was created -/
def openCreat (fs : FS) (cwd : Path) (s : Str) (mode um : Nat) : Option (FS × Path × Bool) :=
  match resolve fs cwd s with
  | none => none
  | some p =>
    match fs p with
    | some (.dir ..) => none               -- EISDIR
    | some (.file ..) => if trailingSlash s then none else some (fs, p, false)   -- ENOTDIR
    | none =>
      if trailingSlash s || p = [] then none      -- EISDIR
      else some (((fs.bumpDir p.dropLast).set p (.file (maskOff mode um) none [])), p, true)

/-- `chmod(2)` -/
def chmod (fs : FS) (cwd : Path) (s : Str) (mode : Nat) : Option (FS × Path) :=
  match stat fs cwd s with
  | none => none
  | some (p, n) => some (fs.set p (n.setMode (mode % 4096)), p)

/-- `fchmod(2)` on the file opened at canonical path `p` -/
def fchmodAt (fs : FS) (p : Path) (mode : Nat) : FS := fun q =>
  if q = p then
    match fs p with
    | some n => some (n.setMode (mode % 4096))
    | none => none
  else fs q

def usecOk (t : Time) : Bool := decide (0 ≤ t.usec) && decide (t.usec < 1000000)

/-- What the C library makes of microseconds outside [0, 10^6).  glibc >= 2.34 implements `utimes(3)` on top of
`utimensat(2)`: it converts each `timeval` to a `timespec` first -- `tv_nsec = tv_usec * 1000` in 64-bit two's
complement arithmetic, without a range check -- and the kernel then checks `0 <= tv_nsec < 10^9`.  So
`tv_usec = 2^61` (times 1000 = 125 * 2^64) is accepted as 0 nanoseconds.  Older C libraries hand the `timeval`s
to the kernel, which checks the microseconds themselves.  Which one is present is probed on every run
(`PCP_UTIMES_WRAPS`, harness/consts/pcp.c calls `utimes` with `tv_usec = LONG_MIN`). -/
def wrapNsec (usec : Int) : Int := (usec * 1000 + 2 ^ 63) % 2 ^ 64 - 2 ^ 63

def wrapOk (t : Time) : Bool :=
  PCP_UTIMES_WRAPS == 1 && decide (0 ≤ wrapNsec t.usec) && decide (wrapNsec t.usec < 1000000000)

/-- the time that is stored when `wrapOk` lets an out-of-range `tv_usec` through -/
def wrapTime (t : Time) : Time := ⟨t.sec, wrapNsec t.usec / 1000⟩

/-- `utimes` once the times are accepted -/
def utimesAt (fs : FS) (cwd : Path) (s : Str) (mt : Time) : Option (FS × Path) :=
  match stat fs cwd s with
  | none => none
  | some (p, n) => some (fs.set p (n.setMtime (some mt)), p)

/-- `utimes(path, {atime, mtime})` -/
def utimes (fs : FS) (cwd : Path) (s : Str) (atm mt : Time) : Option (FS × Path) :=
  if !(usecOk atm && usecOk mt) then
    -- EINVAL, unless the C library's multiplication wraps the value into the valid range
    if (usecOk atm || wrapOk atm) && (usecOk mt || wrapOk mt) then
      utimesAt fs cwd s (if usecOk mt then mt else wrapTime mt)
    else none
  else match stat fs cwd s with
    | none => none
    | some (p, n) => some (fs.set p (n.setMtime (some mt)), p)

/-- contents of the regular file at `p` (empty when absent) -/
def fileData (fs : FS) (p : Path) : Str :=
  match fs p with
  | some (.file _ _ d) => d
  | _ => []

/-- sequential `write`s of `w` from offset 0 into a file holding `old` (no O_TRUNC) -/
def overwrite (old w : Str) : Str := w ++ old.drop w.length

/-- `ftruncate` to `n` bytes (zero fill when growing) -/
def resize (d : Str) (n : Nat) : Str := d.take n ++ List.replicate (n - d.length) 0

/-- store new contents in the file at `p`; the kernel clock sets the modification time -/
def setData (fs : FS) (p : Path) (d : Str) : FS := fun q =>
  if q = p then
    match fs p with
    | some (.file m _ _) => some (.file m none d)
    | x => x
  else fs q

end PdshVerif.Pcp
