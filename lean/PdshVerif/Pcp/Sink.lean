import PdshVerif.Pcp.FS

/-! # Model of the pcp receiver: `_sink` of src/pdsh/pcp_server.c  (properties C11, C12)

The receiver is a state machine over the input bytes with an explicit stack of directory levels
(one `Frame` per active C invocation of `_sink`; the C code recurses on a `D` record and returns on
`E`, on end of input, on a `\02` record and on every protocol error).  `step` consumes exactly one
byte -- the C code reads control records with `read(fd, &ch, 1)` -- so `run` is a `List.foldl` over
the stream followed by `finish` (what happens when `read` returns 0), and termination on every
stream is Lean's structural termination check.

Mirrored faithfully, including what is questionable:
* the record reader into `buf[BUFSIZ]` (first byte separately, then until `\n` or `BUFSIZ-1` bytes;
  indices are explicit, an out-of-range index sets `ub`);
* records are C strings: parsing sees the bytes before the first NUL only;
* `T` sets `setimes` *before* the numbers are parsed; times/sizes are accumulated in `long`/`off_t`
  with wrap-around (the C code has signed overflow; the harness is built with -fwrapv);
* mode = exactly four octal digits; size; the name is everything after the second blank;
* NO validation of the received name in the code as found (`nameOk .none = fun _ => true`):
  it is joined to the current target with a `/` when the target is a directory, and *replaces*
  nothing otherwise (`np = targ`);  `nameOk .slashDotdot` (names with `/`, the name `..`) is the
  repair, `nameOk .scp` the stricter OpenSSH scp rule; the check probes which one the code has;
* `D`: `mkdir` or (existing directory, -p) `chmod`; then a new level; after the level returns the
  pending `T` times are applied to the directory (also without -p: only the sender looks at -p);
* `C`: `open(O_WRONLY|O_CREAT)` without `O_TRUNC`, `fchmod` when the file existed and -p, ack, data
  in `BUFSIZ` blocks collected in a buffer of `cnt` bytes and flushed when `count == cnt`, final
  partial flush, `ftruncate(size)`, one response byte, `utimes` when a `T` record is pending;
  a failed `open`/`mkdir` is answered with an error record and the *following bytes are parsed
  as records* (the honest sender skips the data after an error reply);
* `E` / `\02` / end of input / any error that ends a level pops ONE level; the level below
  continues reading records;
* with -p the umask is 0, otherwise the process umask applies;
* with -y (`target_is_dir`) every level start re-checks that the top-level destination is a
  directory (`_verifydir`) and returns without an acknowledgement otherwise.
-/
namespace PdshVerif.Pcp
open PdshVerif.Gen

def BUFSZ : Nat := PCP_BUFSIZ

def cNl : UInt8 := 10
def cSp : UInt8 := 32
def cC : UInt8 := 67
def cD : UInt8 := 68
def cE : UInt8 := 69
def cT : UInt8 := 84

def isDigit (c : UInt8) : Bool := decide (48 ≤ c.toNat) && decide (c.toNat ≤ 57)
def isOct (c : UInt8) : Bool := decide (48 ≤ c.toNat) && decide (c.toNat ≤ 55)

/-- two's complement wrap-around of a signed `bits`-bit C integer -/
def wrapI (bits : Nat) (x : Int) : Int :=
  (x + (2 : Int) ^ (bits - 1)) % (2 : Int) ^ bits - (2 : Int) ^ (bits - 1)

/-- `#define getnum(t) (t) = 0; while (isdigit(*cp)) (t) = (t) * 10 + (*cp++ - '0');` -/
def getnumAux (bits : Nat) (acc : Int) : Str → Int × Str
  | [] => (acc, [])
  | c :: cs =>
    if isDigit c then getnumAux bits (wrapI bits (acc * 10 + ((c.toNat : Int) - 48))) cs
    else (acc, c :: cs)

def getnum (bits : Nat) (s : Str) : Int × Str := getnumAux bits 0 s

/-- `if (*cp++ != c) SCREWUP(..)`; the end of the C string (NUL) never matches -/
def expect (c : UInt8) : Str → Option Str
  | [] => none
  | d :: r => if d = c then some r else none

/-- the `why` strings of `SCREWUP` -/
inductive Why where
  | newline | lost | mtimeSec | mtimeUsec | atimeSec | atimeUsec | expected | badMode | modeDelim
  | sizeDelim
  | badName     -- only the repaired receiver: received name rejected
deriving DecidableEq, Repr

/-- classes of error records (`\01 message \n`) the receiver sends -/
inductive Err where
  | notdir              -- `_verifydir`: "%s not a directory"
  | screwup (w : Why)   -- "protocol screwup: %s"
  | path                -- `bad:` "%s: %m" (mkdir/open failed, or not a directory)
  | trunc               -- "can't truncate %s: %m"
  | times               -- "can't set times on %s: %m"
  | respLost            -- `_response`: "lost connection"
  | respBad             -- `_response`: "invalid response received"
  | read                -- data loop: "%m"
deriving DecidableEq, Repr

inductive Reply where
  | ack
  | err (e : Err)
deriving DecidableEq, Repr

/-- `T<mtime.sec> <mtime.usec> <atime.sec> <atime.usec>`; input: the C string after the `T` -/
def parseTimes (s : Str) : Except Why (Time × Time) :=
  let r1 := getnum PCP_LONG_BITS s
  match expect cSp r1.2 with
  | none => .error .mtimeSec
  | some s =>
    let r2 := getnum PCP_LONG_BITS s
    match expect cSp r2.2 with
    | none => .error .mtimeUsec
    | some s =>
      let r3 := getnum PCP_LONG_BITS s
      match expect cSp r3.2 with
      | none => .error .atimeSec
      | some s =>
        let r4 := getnum PCP_LONG_BITS s
        match r4.2 with
        | [] => .ok (⟨r1.1, r2.1⟩, ⟨r3.1, r4.1⟩)
        | _ :: _ => .error .atimeUsec

/-- `for (++cp; cp < buf + 5; cp++) { octal digit; mode = (mode << 3) | digit }` -/
def parseMode : Nat → Nat → Str → Option (Nat × Str)
  | 0, m, s => some (m, s)
  | _ + 1, _, [] => none
  | k + 1, m, c :: s => if isOct c then parseMode k (m * 8 + (c.toNat - 48)) s else none

/-- `C<mode> <size> <name>` / `D<mode> <size> <name>`; input: the C string after the letter -/
def parseCtl (s : Str) : Except Why (Nat × Int × Str) :=
  match parseMode 4 0 s with
  | none => .error .badMode
  | some (mode, s) =>
    match expect cSp s with
    | none => .error .modeDelim
    | some s =>
      let r := getnum PCP_OFF_T_BITS s
      match expect cSp r.2 with
      | none => .error .sizeDelim
      | some s => .ok (mode, r.1, s)

/-- the OpenSSH scp rule for a received name -/
def scpNameOk (n : Str) : Bool :=
  !n.isEmpty && !n.contains cSlash && !(n == sDot) && !(n == sDotDot)

/-- the narrow rule, all that confinement needs: `strchr(cp, '/') != NULL || strcmp(cp, "..") == 0`
is rejected (the empty name and `.` denote the target directory itself) -/
def narrowNameOk (n : Str) : Bool := !n.contains cSlash && !(n == sDotDot)

/-- which validation of received names the receiver performs (probed on the real code) -/
inductive NameRule where
  | none          -- the code as found: no validation (finding D13)
  | slashDotdot   -- names containing `/` and the name `..` are rejected
  | scp           -- the OpenSSH scp rule: additionally the empty name and `.`
deriving DecidableEq, Repr

/-- ***THE NAME VALIDATION OF THE RECEIVER.*** -/
def nameOk (rule : NameRule) (n : Str) : Bool :=
  match rule with
  | .none => true
  | .slashDotdot => narrowNameOk n
  | .scp => scpNameOk n

structure Opts where
  preserve : Bool        -- -p
  targetIsDir : Bool     -- -y
  umask : Nat            -- process umask at start
  cnt : Nat              -- `bp->cnt` = roundup(st_blksize, BUFSIZ) (BUFSIZ when that is 0)
  rule : NameRule        -- model variant, see `nameOk`
  dirChmod : Bool        -- model variant: with -p a directory is chmod'ed after mkdir (repair of F11-DIRMODE-SETID)
  fsize : Option Nat     -- fault injection: RLIMIT_FSIZE of the receiver (SIGXFSZ ignored), `none` = no limit
  cwd : Path             -- canonical working directory of the receiver
  dest : Str             -- the destination string it was started with (`outfile`)

/-- `mask = umask(0); if (!preserve) umask(mask);` -/
def Opts.eumask (o : Opts) : Nat := if o.preserve then 0 else o.umask

/-- one active invocation of `_sink` -/
structure Frame where
  targ : Str
  targisdir : Bool
  setimes : Bool
  mt : Time
  atm : Time
deriving Inhabited

/-- `enum { YES, NO, DISPLAYED } wrerr` -/
inductive Wrerr where
  | no | yes | displayed
deriving DecidableEq, Repr

inductive Phase where
  | start                                  -- at `cp = buf; read(infd, cp, 1)`
  | line (cp : Nat) (bufRev : Str)          -- inside the `do { read ch; *cp++ = ch } while` loop
  | data (p : Path) (np : Str) (size : Int) (left amt count fill : Nat) (pendRev writtenRev : Str)
  | resp (np : Str) (wr : Wrerr)           -- in `_response` after the data of a file
  | done                                   -- the top-level `_sink` returned

structure St where
  fs : FS
  out : List Reply       -- newest first
  touched : List Path    -- newest first
  stack : List Frame     -- head = current level
  phase : Phase
  ub : Bool              -- an index left its buffer

def St.reply (st : St) (r : Reply) : St := { st with out := r :: st.out }
def St.touch (st : St) (p : Path) : St := { st with touched := p :: st.touched }
def St.flag (st : St) (bad : Bool) : St := { st with ub := st.ub || bad }

/-- `if (utimes(np, tv) < 0) _error(..)`; returns whether it succeeded -/
def doUtimes (o : Opts) (st : St) (np : Str) (atm mt : Time) : St × Bool :=
  match utimes st.fs o.cwd np atm mt with
  | some (fs', p) => ({ st with fs := fs', touched := p :: st.touched }, true)
  | none => (st.reply (.err .times), false)

/-- the current `_sink` invocation returns (`end_server`); its caller, if any, applies the pending
times to the directory and continues its record loop -/
def leave (o : Opts) (st : St) : St :=
  match st.stack with
  | [] => { st with phase := .done }
  | [_] => { st with stack := [], phase := .done }
  | f :: par :: rest =>
    if par.setimes then
      (doUtimes o { st with stack := { par with setimes := false } :: rest, phase := .start }
        f.targ par.atm par.mt).1
    else { st with stack := par :: rest, phase := .start }

/-- start of `_sink(svr, targ, bufp)` -/
def enter (o : Opts) (st : St) (targ : Str) : St :=
  if o.targetIsDir && !statIsDir st.fs o.cwd o.dest then
    leave o { st.reply (.err .notdir) with
              stack := { targ, targisdir := false, setimes := false, mt := default, atm := default }
                        :: st.stack }
  else
    { st.reply .ack with
      stack := { targ, targisdir := statIsDir st.fs o.cwd targ, setimes := false,
                 mt := default, atm := default } :: st.stack
      phase := .start }

/-- `SCREWUP(why)` -/
def screwup (o : Opts) (st : St) (w : Why) : St := leave o (st.reply (.err (.screwup w)))

/-- `snprintf(namebuf, cursize, "%s%s%s", targ, *targ ? "/" : "", cp)` -/
def joinName (targ name : Str) : Str := targ ++ (if targ.isEmpty then [] else [cSlash]) ++ name

/-- what reaches the file of `w`, the bytes handed to `write` in sequence from offset 0: everything, or
with a file size limit the first `L` bytes (the write that crosses the limit is short, later ones fail
with EFBIG and, `wrerr` being set, are not even attempted) -/
def Opts.writable (o : Opts) (w : Str) : Str :=
  match o.fsize with
  | none => w
  | some l => w.take l

/-- some `write` returned less than asked for -/
def Opts.writeFails (o : Opts) (w : Str) : Bool :=
  match o.fsize with
  | none => false
  | some l => decide (l < w.length)

/-- `ftruncate(ofd, size)` fails with EFBIG when it would grow the file beyond the limit -/
def Opts.truncFails (o : Opts) (cur : Nat) (size : Nat) : Bool :=
  match o.fsize with
  | none => false
  | some l => decide (cur < size) && decide (l < size)

/-- everything the data loop handed to `write`, in order (including the final partial buffer) -/
def collected (count : Nat) (pendRev writtenRev : Str) : Str :=
  (if count ≠ 0 then pendRev ++ writtenRev else writtenRev).reverse

/-- end of the data loop: last partial write, `ftruncate(ofd, size)`, `close` -/
def afterData (o : Opts) (st : St) (p : Path) (np : Str) (size : Int) (count : Nat) (pendRev writtenRev : Str) :
    St :=
  let wall := collected count pendRev writtenRev
  let w := o.writable wall
  let fs1 := if w.isEmpty then st.fs else setData st.fs p (overwrite (fileData st.fs p) w)
  if size < 0 then                                                              -- EINVAL
    { st with fs := fs1, out := .err .trunc :: st.out, phase := .resp np .displayed }
  else if o.truncFails (fileData fs1 p).length size.toNat then                  -- EFBIG
    { st with fs := fs1, out := .err .trunc :: st.out, phase := .resp np .displayed }
  else
    { st with fs := setData fs1 p (resize (fileData fs1 p) size.toNat),
              phase := .resp np (if o.writeFails wall then .yes else .no) }

/-- a `C` record: open the file and start the data loop -/
def handleFile (o : Opts) (st : St) (np : Str) (mode : Nat) (size : Int) : St :=
  let existed := (stat st.fs o.cwd np).isSome
  match openCreat st.fs o.cwd np mode o.eumask with
  | none => { st.reply (.err .path) with phase := .start }
  | some (fs', p, _) =>
    let fs' := if existed && o.preserve then fchmodAt fs' p mode else fs'
    let st := ({ st with fs := fs' }.touch p).reply .ack
    if size ≤ 0 then afterData o st p np size 0 [] []
    else
      let amt := min BUFSZ size.toNat
      { st with phase := .data p np size size.toNat amt amt 0 [] [] }

/-- a `D` record -/
def handleDir (o : Opts) (st : St) (np : Str) (mode : Nat) : St :=
  match stat st.fs o.cwd np with
  | some (_, .file ..) => { st.reply (.err .path) with phase := .start }        -- ENOTDIR
  | some (_, .dir ..) =>
    let st := if o.preserve then
        match chmod st.fs o.cwd np mode with
        | some (fs', p) => { st with fs := fs' }.touch p
        | none => st
      else st
    enter o st np
  | none =>
    match mkdir st.fs o.cwd np mode o.eumask with
    | none => { st.reply (.err .path) with phase := .start }
    | some (fs', p) =>
      -- the repaired receiver: `if (svr->preserve) (void)chmod(np, mode);` after a successful mkdir
      let fs'' := if o.preserve && o.dirChmod then fchmodAt fs' p mode else fs'
      enter o ({ st with fs := fs'' }.touch p) np

/-- what the record loop makes of one complete record -/
inductive Rec where
  | msg                           -- `\01...`: an error message of the peer, skipped
  | stop                          -- `\02...`: the peer gave up
  | exit                          -- `E...`: leave the directory
  | times (mt atm : Time)         -- a `T` record
  | timesBad (w : Why)            -- a `T` record that does not parse (`setimes` is already counted)
  | ctl (isDir : Bool) (mode : Nat) (size : Int) (name : Str)
  | bad (w : Why)
deriving DecidableEq

/-- a `T` record (input: the C string after the `T`) -/
def classifyT (body : Str) : Rec :=
  match parseTimes body with
  | .error w => .timesBad w
  | .ok (mt, atm) => .times mt atm

/-- a `C`/`D` record (input: the letter and the C string after it) -/
def classifyCtl (c : UInt8) (body : Str) : Rec :=
  match parseCtl body with
  | .error w => .bad w
  | .ok (mode, size, name) => .ctl (c == cD) mode size name

/-- parse the record in `buf` (`line`: its bytes including the last one read, `ch`) -/
def classify (line : Str) (ch : UInt8) : Rec :=
  let b0 := line.headD 0
  if b0 = 1 then .msg
  else if b0 = 2 then .stop
  else if b0 = cE then .exit
  else
    let line := if ch = cNl then line.dropLast else line        -- `if (ch == '\n') *--cp = 0;`
    match line.takeWhile (· ≠ 0) with                            -- a C string ends at the first NUL
    | [] => .bad .expected
    | c :: body =>
      if c = cT then classifyT body
      else if c = cC || c = cD then classifyCtl c body
      else .bad .expected

/-- a complete record is in `buf` (`line`: its bytes, `ch`: the last byte read) -/
def handleRecord (o : Opts) (st : St) (line : Str) (ch : UInt8) : St :=
  match st.stack with
  | [] => { st with phase := .done }
  | f :: rest =>
    match classify line ch with
    | .msg => { st with phase := .start }
    | .stop => leave o st
    | .exit => leave o (st.reply .ack)
    | .bad w => screwup o st w
    | .timesBad w => screwup o { st with stack := { f with setimes := true } :: rest } w
    | .times mt atm =>
      { st with out := .ack :: st.out, stack := { f with setimes := true, mt := mt, atm := atm } :: rest,
                phase := .start }
    | .ctl isDir mode size name =>
      if !nameOk o.rule name then screwup o st .badName
      else
        let np := if f.targisdir then joinName f.targ name else f.targ
        -- namebuf has `need = strlen(targ) + strlen(cp) + 250` bytes
        let st := st.flag (f.targisdir && decide (f.targ.length + name.length + 250 < np.length + 1))
        if isDir then handleDir o st np mode else handleFile o st np mode size

/-- `_response` returned 0 after a file: pending times, then `switch (wrerr)` -/
def afterResponse (o : Opts) (st : St) (np : Str) (wr : Wrerr) : St :=
  match st.stack with
  | [] => { st with phase := .done }
  | f :: rest =>
    if f.setimes && wr == .no then
      let r := doUtimes o { st with stack := { f with setimes := false } :: rest } np f.atm f.mt
      if r.2 then { r.1.reply .ack with phase := .start } else { r.1 with phase := .start }
    else
      match wr with
      | .no => { st.reply .ack with phase := .start }
      | .yes => { st.reply (.err .path) with phase := .start }        -- `_error(svr, "%s: %m\n", np)`
      | .displayed => { st with phase := .start }

/-- `read` failed inside the data loop: `_error("%m"); goto end_server` (what was flushed stays) -/
def dataEOF (o : Opts) (st : St) (p : Path) (writtenRev : Str) : St :=
  let w := o.writable writtenRev.reverse
  let fs1 := if w.isEmpty then st.fs else setData st.fs p (overwrite (fileData st.fs p) w)
  leave o { st with fs := fs1, out := .err .read :: st.out }

/-- one input byte -/
def step (o : Opts) (st : St) (b : UInt8) : St :=
  match st.phase with
  | .done => st
  | .start =>
    if b = cNl then screwup o st .newline
    else { st.flag (decide (BUFSZ ≤ 0)) with phase := .line 1 [b] }
  | .line cp bufRev =>
    let st := st.flag (decide (BUFSZ ≤ cp))                  -- `*cp++ = ch`
    if cp + 1 < BUFSZ - 1 && b ≠ cNl then { st with phase := .line (cp + 1) (b :: bufRev) }
    else handleRecord o { st.flag (decide (BUFSZ ≤ cp + 1)) with phase := .start }   -- `*cp = 0`
           (b :: bufRev).reverse b
  | .data p np size left amt count fill pendRev writtenRev =>
    let st := st.flag (decide (o.cnt ≤ fill))               -- `read(infd, cp, amt)` into `bp->buf`
    let pendRev := b :: pendRev
    if 1 < amt then { st with phase := .data p np size (left - 1) (amt - 1) count (fill + 1) pendRev writtenRev }
    else
      -- the block is complete: `if (count == bp->cnt) { write; count = 0; cp = bp->buf; }`
      let flush := count == o.cnt
      let count' := if flush then 0 else count
      let fill' := if flush then 0 else fill + 1
      let pend' := if flush then [] else pendRev
      let written' := if flush then pendRev ++ writtenRev else writtenRev
      if 1 < left then
        let a := min BUFSZ (left - 1)
        { st with phase := .data p np size (left - 1) a (count' + a) fill' pend' written' }
      else afterData o st p np size count' pend' written'
  | .resp np wr =>
    if b = 0 then afterResponse o st np wr
    else leave o (st.reply (.err .respBad))

/-- every remaining level sees end of input at its `read` and returns -/
def unwind (o : Opts) : Nat → St → St
  | 0, st => st
  | n + 1, st =>
    match st.phase with
    | .done => st
    | _ => unwind o n (leave o st)

/-- end of input -/
def finish (o : Opts) (st : St) : St :=
  let st' := match st.phase with
    | .done => st
    | .start => leave o st
    | .line _ _ => screwup o st .lost
    | .data p _ _ _ _ _ _ _ writtenRev => dataEOF o st p writtenRev
    | .resp _ _ => leave o (st.reply (.err .respLost))
  unwind o st'.stack.length st'

def St.init (fs : FS) : St := { fs, out := [], touched := [], stack := [], phase := .done, ub := false }

/-- `pcp_server()` on a complete input stream -/
def run (o : Opts) (fs : FS) (stream : Str) : St :=
  finish o (stream.foldl (step o) (enter o (St.init fs) o.dest))

/-- the receiver as a function: final file system, replies in order, paths handed to a
successful modifying system call in order -/
def sink (o : Opts) (fs : FS) (stream : Str) : FS × List Reply × List Path :=
  let st := run o fs stream
  (st.fs, st.out.reverse, st.touched.reverse)

end PdshVerif.Pcp
