import PdshVerif.Pcp.TreeTrip

/-! Lookup lemmas about `recvTree`/`recvKids` (C11): the node at the root of a received tree is not
disturbed by its siblings; the parent directory keeps its mode. -/
namespace PdshVerif.Pcp
open PdshVerif.Gen

theorem maskOff_zero (m : Nat) : maskOff (m &&& RCP_MODEMASK) 0 = m % 4096 := by
  have h1 : m &&& RCP_MODEMASK = m % 4096 := by
    rw [MODEMASK_eq]
    exact Nat.and_two_pow_sub_one_eq_mod m 12
  rw [h1]
  simp only [maskOff, Nat.zero_mod, Nat.xor_zero, Nat.mod_mod]
  exact Nat.and_two_pow_sub_one_eq_mod (m % 4096) 12 ▸ (by simp)

/-- the node at the root of any sibling tree is not disturbed by the trees that follow it -/
theorem recvKids_lookup (o : Opts) (ss : Bool) (fs : FS) (q : Path) (kids : List (Str × Tree)) (n : Str) (k : Tree)
    (hm : (n, k) ∈ kids) (hd : kids.Pairwise (fun a b => a.1 ≠ b.1)) :
    ∃ fs0, recvKids o ss fs q kids (q ++ [n]) = recvTree o ss fs0 q n k (q ++ [n]) := by
  induction kids generalizing fs with
  | nil => cases hm
  | cons nk r ih =>
    obtain ⟨n0, k0⟩ := nk
    simp only [recvKids]
    rcases List.mem_cons.1 hm with e | hm'
    · cases e
      refine ⟨fs, ?_⟩
      apply recvKids_other
      · intro e; have := congrArg List.length e; simp at this
      · intro n' k' hm2 hpre
        have hne : n ≠ n' := (List.pairwise_cons.1 hd).1 (n', k') hm2
        have e2 : q ++ [n'] = q ++ [n] := hpre.eq_of_length (by simp)
        have := List.append_cancel_left e2
        simp at this
        exact hne this.symm
    · exact ih _ hm' (List.pairwise_cons.1 hd).2

mutual
theorem recvTree_parent (o : Opts) (ss : Bool) (fs : FS) (q : Path) (n : Str) (t : Tree) (pm : Nat) (tm : Option Time)
    (h : fs q = some (.dir pm tm)) : ∃ tm', recvTree o ss fs q n t q = some (.dir pm tm') := by
  have hne : q ≠ q ++ [n] := by intro e; have := congrArg List.length e; simp at this
  have hb : fs.bumpDir q q = some (.dir pm none) := bumpDir_self_dir h
  cases t with
  | file m t a d =>
    exact ⟨none, by simp only [recvTree]; rw [set_other _ _ _ _ hne, hb]⟩
  | dir m t a kids =>
    have hk : recvKids o ss ((fs.bumpDir q).set (q ++ [n]) (recvDirNode o fs q n m)) (q ++ [n]) kids q =
        some (.dir pm none) := by
      rw [recvKids_other o ss _ (q ++ [n]) kids q hne (fun n' _ _ hp => by
        have := hp.length_le; simp at this; omega)]
      rw [set_other _ _ _ _ hne, hb]
    refine ⟨none, ?_⟩
    simp only [recvTree]
    generalize recvKids o ss ((fs.bumpDir q).set (q ++ [n]) (recvDirNode o fs q n m)) (q ++ [n]) kids = g at hk ⊢
    split
    · unfold setMtimeAt
      cases hg : g (q ++ [n]) with
      | none => exact hk
      | some nd => simp only []; rw [set_other _ _ _ _ hne, hk]
    · exact hk
theorem recvKids_parent (o : Opts) (ss : Bool) (fs : FS) (q : Path) (kids : List (Str × Tree)) (pm : Nat)
    (tm : Option Time) (h : fs q = some (.dir pm tm)) : ∃ tm', recvKids o ss fs q kids q = some (.dir pm tm') := by
  cases kids with
  | nil => exact ⟨tm, h⟩
  | cons nk r =>
    obtain ⟨n, k⟩ := nk
    obtain ⟨tm1, h1⟩ := recvTree_parent o ss fs q n k pm tm h
    simp only [recvKids]
    exact recvKids_parent o ss _ q r pm tm1 h1
end


/-- a one-byte name that is none of NUL, newline, `/`, `.` is a good name -/
theorem goodName_single (c : UInt8) (h1 : c ≠ 0) (h2 : c ≠ cNl) (h3 : c ≠ cSlash) (h4 : c ≠ cDot) : GoodName [c] := by
  refine ⟨⟨by simp, by simpa using h3.symm, ?_, by simp [sDotDot]⟩, ⟨by simpa using h1.symm, by simpa using h2.symm⟩,
    by simp [NAME_MAX_eq]⟩
  simpa [sDot, cDot] using h4


end PdshVerif.Pcp
