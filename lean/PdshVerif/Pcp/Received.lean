import PdshVerif.Pcp.TreeTrip

/-! Lookup lemmas about `recvTree`/`recvKids` (C11): the node at the root of a received tree is not
disturbed by its siblings; the parent directory keeps its mode. -/
namespace PdshVerif.Pcp
open PdshVerif.Gen

theorem maskOff_zero (m : Nat) : maskOff (m &&& RCP_MODEMASK) 0 = m % 4096 := by
  have h1 : m &&& RCP_MODEMASK = m % 4096 := by
    rw [MODEMASK_eq]
    exact Nat.and_two_pow_sub_one_eq_mod m 12
  rw [h1]
  simp only [maskOff, Nat.zero_mod, Nat.xor_zero, Nat.mod_mod]
  exact Nat.and_two_pow_sub_one_eq_mod (m % 4096) 12 ▸ (by simp)

/-- the node at the root of any sibling tree is not disturbed by the trees that follow it -/
theorem recvKids_lookup (o : Opts) (ss : Bool) (fs : FS) (q : Path) (kids : List (Str × Tree)) (n : Str) (k : Tree)
    (hm : (n, k) ∈ kids) (hd : kids.Pairwise (fun a b => a.1 ≠ b.1)) :
    ∃ fs0, recvKids o ss fs q kids (q ++ [n]) = recvTree o ss fs0 q n k (q ++ [n]) := by
  induction kids generalizing fs with
  | nil => cases hm
  | cons nk r ih =>
    obtain ⟨n0, k0⟩ := nk
    simp only [recvKids]
    rcases List.mem_cons.1 hm with e | hm'
    · cases e
      refine ⟨fs, ?_⟩
      apply recvKids_other
      · intro e; have := congrArg List.length e; simp at this
      · intro n' k' hm2 hpre
        have hne : n ≠ n' := (List.pairwise_cons.1 hd).1 (n', k') hm2
        have e2 : q ++ [n'] = q ++ [n] := hpre.eq_of_length (by simp)
        have := List.append_cancel_left e2
        simp at this
        exact hne this.symm
    · exact ih _ hm' (List.pairwise_cons.1 hd).2

mutual
theorem recvTree_parent (o : Opts) (ss : Bool) (fs : FS) (q : Path) (n : Str) (t : Tree) (pm : Nat) (tm : Option Time)
    (h : fs q = some (.dir pm tm)) : ∃ tm', recvTree o ss fs q n t q = some (.dir pm tm') := by
  have hne : q ≠ q ++ [n] := by intro e; have := congrArg List.length e; simp at this
  have hb : fs.bumpDir q q = some (.dir pm none) := bumpDir_self_dir h
  cases t with
  | file m t a d =>
    exact ⟨none, by simp only [recvTree]; rw [set_other _ _ _ _ hne, hb]⟩
  | dir m t a kids =>
    have hk : recvKids o ss ((fs.bumpDir q).set (q ++ [n]) (recvDirNode o fs q n m)) (q ++ [n]) kids q =
        some (.dir pm none) := by
      rw [recvKids_other o ss _ (q ++ [n]) kids q hne (fun n' _ _ hp => by
        have := hp.length_le; simp at this; omega)]
      rw [set_other _ _ _ _ hne, hb]
    refine ⟨none, ?_⟩
    simp only [recvTree]
    generalize recvKids o ss ((fs.bumpDir q).set (q ++ [n]) (recvDirNode o fs q n m)) (q ++ [n]) kids = g at hk ⊢
    split
    · unfold setMtimeAt
      cases hg : g (q ++ [n]) with
      | none => exact hk
      | some nd => simp only []; rw [set_other _ _ _ _ hne, hk]
    · exact hk
theorem recvKids_parent (o : Opts) (ss : Bool) (fs : FS) (q : Path) (kids : List (Str × Tree)) (pm : Nat)
    (tm : Option Time) (h : fs q = some (.dir pm tm)) : ∃ tm', recvKids o ss fs q kids q = some (.dir pm tm') := by
  cases kids with
  | nil => exact ⟨tm, h⟩
  | cons nk r =>
    obtain ⟨n, k⟩ := nk
    obtain ⟨tm1, h1⟩ := recvTree_parent o ss fs q n k pm tm h
    simp only [recvKids]
    exact recvKids_parent o ss _ q r pm tm1 h1
end


/-- a one-byte name that is none of NUL, newline, `/`, `.` is a good name -/
theorem goodName_single (c : UInt8) (h1 : c ≠ 0) (h2 : c ≠ cNl) (h3 : c ≠ cSlash) (h4 : c ≠ cDot) : GoodName [c] := by
  refine ⟨⟨by simp, by simpa using h3.symm, ?_, by simp [sDotDot]⟩, ⟨by simpa using h1.symm, by simpa using h2.symm⟩,
    by simp [NAME_MAX_eq]⟩
  simpa [sDot, cDot] using h4


mutual
theorem faults_none (o : Opts) (h : o.fsize = none) (t : Tree) : faults o t = 0 := by
  cases t with
  | file m t a d => simp [faults, Opts.fitsB, h]
  | dir m t a kids => simp only [faults]; exact faultsKids_none o h kids
theorem faultsKids_none (o : Opts) (h : o.fsize = none) (kids : List (Str × Tree)) : faultsKids o kids = 0 := by
  cases kids with
  | nil => rfl
  | cons nk r =>
    obtain ⟨n, k⟩ := nk
    simp only [faultsKids]
    rw [faults_none o h k, faultsKids_none o h r]
end

end PdshVerif.Pcp

namespace PdshVerif.Pcp
open PdshVerif.Gen

/-! ## nothing but the trees is installed -/

mutual
/-- the tree has a node at the relative path `rel` below its root -/
def Tree.has : Tree → List Str → Bool
  | .file _ _ _ _, rel => rel.isEmpty
  | .dir _ _ _ kids, rel =>
    match rel with
    | [] => true
    | c :: r => kidsHave kids c r
/-- one of the named trees has a node at `c :: rel` -/
def kidsHave : List (Str × Tree) → Str → List Str → Bool
  | [], _, _ => false
  | (n, k) :: r, c, rel => (n == c && k.has rel) || kidsHave r c rel
end

theorem setMtimeAt_none (g : FS) (p : Path) (t : Time) (x : Path) : setMtimeAt g p t x = none ↔ g x = none := by
  unfold setMtimeAt
  cases hg : g p with
  | none => rfl
  | some nd =>
    simp only []
    by_cases e : x = p
    · subst e; simp [FS.set, hg]
    · rw [set_other _ _ _ _ e]

theorem snoc_append_ne {q : Path} {n c : Str} {r : List Str} : q ++ [n] ++ c :: r ≠ q ++ [n] := by
  intro e
  have := congrArg List.length e
  simp at this

theorem snoc_append_ne' {q : Path} {n : Str} {rel : List Str} : q ++ [n] ++ rel ≠ q := by
  intro e
  have := congrArg List.length e
  simp at this

theorem ne_prefix_snoc' {q x : Path} {n n' : Str} (hne : n' ≠ n) (hx : (q ++ [n']) <+: x) : ¬ (q ++ [n]) <+: x := by
  intro hx2
  have e := List.prefix_of_prefix_length_le hx hx2 (by simp)
  have e2 : q ++ [n'] = q ++ [n] := e.eq_of_length (by simp)
  have := List.append_cancel_left e2
  simp at this
  exact hne this

mutual
theorem recvTree_only (o : Opts) (ss : Bool) (fs : FS) (q : Path) (n : Str) (t : Tree) (budget : Nat)
    (hfresh : FreshBelow fs (q ++ [n])) (hgood : GoodTree budget n t) (rel : List Str)
    (hx : recvTree o ss fs q n t (q ++ [n] ++ rel) ≠ none) : t.has rel = true := by
  cases t with
  | file m t a d =>
    cases rel with
    | nil => rfl
    | cons c r =>
      exfalso
      apply hx
      simp only [recvTree]
      rw [set_other _ _ _ _ snoc_append_ne, bumpDir_other _ _ _ snoc_append_ne']
      exact hfresh _ (List.prefix_append _ _)
  | dir m t a kids =>
    cases rel with
    | nil => rfl
    | cons c r =>
      simp only [Tree.has]
      simp only [GoodTree] at hgood
      have e : q ++ [n] ++ [c] ++ r = q ++ [n] ++ c :: r := by simp
      have hg : recvKids o ss ((fs.bumpDir q).set (q ++ [n]) (recvDirNode o fs q n m)) (q ++ [n]) kids
          (q ++ [n] ++ [c] ++ r) ≠ none := by
        simp only [recvTree] at hx
        rw [e]
        split at hx
        · intro e'; exact hx ((setMtimeAt_none _ _ _ _).2 e')
        · exact hx
      have hkfresh : ∀ n' k', (n', k') ∈ kids →
          FreshBelow ((fs.bumpDir q).set (q ++ [n]) (recvDirNode o fs q n m)) (q ++ [n] ++ [n']) := by
        intro n' k' _ x hx'
        have hx1 : (q ++ [n]) <+: x := (List.prefix_append _ _).trans hx'
        rw [set_other _ _ _ _ (prefix_snoc_ne hx'), bumpDir_other _ _ _ (prefix_snoc_ne hx1)]
        exact hfresh x hx1
      rcases recvKids_only o ss _ (q ++ [n]) kids _ hkfresh hgood.2.2.2.2 c r hg with h1 | h1
      · exfalso
        apply h1
        rw [e, set_other _ _ _ _ snoc_append_ne, bumpDir_other _ _ _ snoc_append_ne']
        exact hfresh _ (List.prefix_append _ _)
      · exact h1
theorem recvKids_only (o : Opts) (ss : Bool) (fs : FS) (q : Path) (kids : List (Str × Tree)) (budget : Nat)
    (hfresh : ∀ n k, (n, k) ∈ kids → FreshBelow fs (q ++ [n])) (hgood : GoodKids budget kids) (c : Str)
    (rel : List Str) (hx : recvKids o ss fs q kids (q ++ [c] ++ rel) ≠ none) :
    fs (q ++ [c] ++ rel) ≠ none ∨ kidsHave kids c rel = true := by
  cases kids with
  | nil => exact Or.inl hx
  | cons nk r =>
    obtain ⟨n, k⟩ := nk
    simp only [recvKids] at hx
    simp only [GoodKids] at hgood
    obtain ⟨hgk, hdist, hgr⟩ := hgood
    have hfresh1 : ∀ n' k', (n', k') ∈ r → FreshBelow (recvTree o ss fs q n k) (q ++ [n']) := by
      intro n' k' hm x hx'
      rw [recvTree_other o ss fs q n k x (prefix_snoc_ne hx') (ne_prefix_snoc' (hdist (n', k') hm) hx')]
      exact hfresh n' k' (List.mem_cons_of_mem _ hm) x hx'
    rcases recvKids_only o ss _ q r budget hfresh1 hgr c rel hx with h1 | h1
    · by_cases e : n = c
      · subst e
        right
        have := recvTree_only o ss fs q n k budget (hfresh n k List.mem_cons_self) hgk rel h1
        simp [kidsHave, this]
      · left
        rw [recvTree_other o ss fs q n k _ snoc_append_ne'
          (ne_prefix_snoc' (Ne.symm e) (List.prefix_append _ _))] at h1
        exact h1
    · right
      simp [kidsHave, h1]
end

end PdshVerif.Pcp
