import PdshVerif.Pcp.Received

/-! `error_isolated` for files that cannot be OPENED (C11): a file whose name is taken by a directory
on the target is answered with one error record after its `C` record; the sender then skips the
file's data, so exactly that file's records are consumed and nothing is written; the entries before
and after it arrive as if it had not been there. -/
namespace PdshVerif.Pcp
open PdshVerif.Gen

variable {o : Opts}

/-- **A `C` record for a name that is a directory on the target**: `open` fails (EISDIR), one error
record, nothing else changes; the level continues at the next record. -/
theorem feed_C_blocked {st : St} {f : Frame} {rest : List Frame} {q : Path}
    (hph : st.phase = .start) (hs : st.stack = f :: rest) (htd : f.targisdir = true)
    (hr : resolve st.fs o.cwd f.targ = some q) (hd : st.fs.isDir q = true)
    {n : Str} (hn : GoodName n) {dm : Nat} {dt : Option Time} (hblk : st.fs (q ++ [n]) = some (.dir dm dt))
    (hlen : f.targ.length + n.length + 1 < PCP_PATH_MAX) (m size : Nat) (hsz : size < 2 ^ 63) :
    (cRecord m size n).foldl (step o) st = { st with out := .err .path :: st.out, phase := .start } := by
  obtain ⟨hnl, _, hlen2⟩ := ctlBody_props (m &&& RCP_MODEMASK) size hn hsz
  rw [cRecord_eq, foldl_line st hph cC _ (by decide) hnl hlen2,
    handleRecord_ctl hs (classify_ctl cC (Or.inl rfl) _ _ hn (and_mask_lt m) hsz)
      (nameOk_plain _ hn.plain) htd]
  have hbeq : (cC == cD) = false := by decide
  simp only [hbeq, Bool.false_eq_true, ↓reduceIte]
  have hrj := resolve_join hr hd hn.plain hn.short hlen
  unfold handleFile
  have ho : openCreat st.fs o.cwd (joinName f.targ n) (m &&& RCP_MODEMASK) o.eumask = none := by
    unfold openCreat
    rw [hrj]
    simp [hblk]
  simp only [ho, St.reply]

/-- one entry of a directory level: a tree that arrives, or a regular file whose name is taken by a
directory on the target -/
inductive Item where
  | good (n : Str) (t : Tree)
  | blocked (n : Str) (m t a : Nat) (d : Str)

def Item.name : Item → Str
  | .good n _ => n
  | .blocked n _ _ _ _ => n

/-- the entries that arrive -/
def goods : List Item → List (Str × Tree)
  | [] => []
  | .good n t :: r => (n, t) :: goods r
  | .blocked .. :: r => goods r

def blockedCount : List Item → Nat
  | [] => 0
  | .good .. :: r => blockedCount r
  | .blocked .. :: r => blockedCount r + 1

/-- the bytes of the interactive sender: after the error reply to a `C` record it sends neither the
file's data nor the NUL (`pcp_sendfile`: `goto fail`) -/
def itemsBytes (p ss : Bool) : List Item → Str
  | [] => []
  | .good n t :: r => treeBytes p ss n t ++ itemsBytes p ss r
  | .blocked n m t a d :: r => ((if p then timesRecord ss t a else []) ++ cRecord m d.length n) ++ itemsBytes p ss r

/-- the domain: good trees whose names are free on the target, blocked files whose name is a directory
there, all names pairwise distinct -/
def ItemsOk (budget : Nat) (fs : FS) (q : Path) : List Item → Prop
  | [] => True
  | .good n t :: r =>
    GoodTree budget n t ∧ FreshBelow fs (q ++ [n]) ∧ (∀ it ∈ r, it.name ≠ n) ∧ ItemsOk budget fs q r
  | .blocked n _ t a d :: r =>
    GoodName n ∧ n.length + 1 ≤ budget ∧ t < 2 ^ 63 ∧ a < 2 ^ 63 ∧ d.length < 2 ^ 63 ∧
      (∃ dm dt, fs (q ++ [n]) = some (.dir dm dt)) ∧ (∀ it ∈ r, it.name ≠ n) ∧ ItemsOk budget fs q r

/-- replies: acknowledgements, `kt` "can't truncate" and `kp` "cannot open" error records -/
def RsI (rs : List Reply) (kt kp : Nat) : Prop :=
  (∀ r ∈ rs, r = Reply.ack ∨ r = Reply.err .trunc ∨ r = Reply.err .path) ∧
    rs.count (Reply.err .trunc) = kt ∧ rs.count (Reply.err .path) = kp

theorem RsI.of_Rs {rs : List Reply} {k : Nat} (h : Rs rs k) : RsI rs k 0 := by
  refine ⟨fun r hr => (h.1 r hr).elim Or.inl (fun e => Or.inr (Or.inl e)), h.2, ?_⟩
  apply List.count_eq_zero.2
  intro hm
  rcases h.1 _ hm with e | e <;> cases e

theorem RsI.append {a b : List Reply} {k1 k2 p1 p2 : Nat} (h1 : RsI a k1 p1) (h2 : RsI b k2 p2) :
    RsI (a ++ b) (k1 + k2) (p1 + p2) := by
  refine ⟨?_, ?_, ?_⟩
  · intro r hr
    simp only [List.mem_append] at hr
    rcases hr with hr | hr
    · exact h1.1 r hr
    · exact h2.1 r hr
  · rw [List.count_append, h1.2.1, h2.2.1]
  · rw [List.count_append, h1.2.2, h2.2.2]

theorem ne_prefix_snoc {q x : Path} {n n' : Str} (hne : n' ≠ n) (hx : (q ++ [n']) <+: x) : ¬ (q ++ [n]) <+: x := by
  intro hx2
  have e := List.prefix_of_prefix_length_le hx hx2 (by simp)
  have e2 : q ++ [n'] = q ++ [n] := e.eq_of_length (by simp)
  have := List.append_cancel_left e2
  simp at this
  exact hne this

/-- installing a good tree under another name keeps the rest of the list in its domain -/
theorem itemsOk_after_good (ss : Bool) (budget : Nat) (fs : FS) (q : Path) (n : Str) (t : Tree) (r : List Item)
    (hdist : ∀ it ∈ r, it.name ≠ n) (h : ItemsOk budget fs q r) : ItemsOk budget (recvTree o ss fs q n t) q r := by
  induction r with
  | nil => trivial
  | cons it r ih =>
    have hne : it.name ≠ n := hdist it List.mem_cons_self
    have hd' : ∀ it ∈ r, it.name ≠ n := fun x hx => hdist x (List.mem_cons_of_mem _ hx)
    cases it with
    | good n' t' =>
      simp only [ItemsOk] at h ⊢
      obtain ⟨h1, h2, h3, h4⟩ := h
      refine ⟨h1, ?_, h3, ih hd' h4⟩
      intro x hx
      rw [recvTree_other o ss fs q n t x (prefix_snoc_ne hx) (ne_prefix_snoc hne hx)]
      exact h2 x hx
    | blocked n' m' t' a' d' =>
      simp only [ItemsOk] at h ⊢
      obtain ⟨h1, h2, h3, h4, h5, ⟨dm, dt, h6⟩, h7, h8⟩ := h
      refine ⟨h1, h2, h3, h4, h5, ⟨dm, dt, ?_⟩, h7, ih hd' h8⟩
      rw [recvTree_other o ss fs q n t (q ++ [n']) (prefix_snoc_ne (List.prefix_refl _))
        (ne_prefix_snoc hne (List.prefix_refl _))]
      exact h6

/-- what feeding a list of items achieves -/
structure FedI (o : Opts) (st st' : St) (f : Frame) (rest : List Frame) (q : Path) (fs' : FS) (kt kp : Nat) : Prop where
  frame : ∃ f', AtDir o st' f' rest q ∧ Pend o f' ∧ f'.targ = f.targ
  fs : st'.fs = fs'
  out : ∃ rs, st'.out = rs ++ st.out ∧ RsI rs kt kp

/-- **`error_isolated` for files that cannot be opened.** -/
theorem feed_items (hc : CntOk o) (ss : Bool) (items : List Item) (budget : Nat) (st : St) (f : Frame)
    (rest : List Frame) (q : Path) (h : AtDir o st f rest q) (hns : Pend o f)
    (hb : f.targ.length + budget < PCP_PATH_MAX) (hok : ItemsOk budget st.fs q items) :
    FedI o st ((itemsBytes o.preserve ss items).foldl (step o) st) f rest q
      (recvKids o ss st.fs q (goods items)) (faultsKids o (goods items)) (blockedCount items) := by
  induction items generalizing st f with
  | nil =>
    exact ⟨⟨f, h, hns, rfl⟩, rfl, [], rfl, ⟨by simp, rfl, rfl⟩⟩
  | cons it r ih =>
    cases it with
    | good n t =>
      simp only [ItemsOk] at hok
      obtain ⟨hg, hfr, hdist, hokr⟩ := hok
      simp only [itemsBytes, List.foldl_append, goods, recvKids, faultsKids, blockedCount]
      have h1 := feed_tree hc ss t n budget st f rest q h hns hb hg hfr
      generalize (treeBytes o.preserve ss n t).foldl (step o) st = st1 at h1
      obtain ⟨⟨f1, hat1, hf1s, hf1t⟩, hfs1, _, rs1, hrs1, hrs1a⟩ := h1
      have h2 := ih st1 f1 hat1 hf1s (by rw [hf1t]; exact hb)
        (by rw [hfs1]; exact itemsOk_after_good ss budget st.fs q n t r hdist hokr)
      generalize (itemsBytes o.preserve ss r).foldl (step o) st1 = st2 at h2
      obtain ⟨⟨f2, hat2, hf2s, hf2t⟩, hfs2, rs2, hrs2, hrs2a⟩ := h2
      refine ⟨⟨f2, hat2, hf2s, hf2t.trans hf1t⟩, by rw [hfs2, hfs1], rs2 ++ rs1, ?_, ?_⟩
      · rw [hrs2, hrs1, List.append_assoc]
      · have := hrs2a.append (RsI.of_Rs hrs1a)
        simpa [Nat.add_comm] using this
    | blocked n m t a d =>
      simp only [ItemsOk] at hok
      obtain ⟨hn, hnb, ht, ha, hd, ⟨dm, dt, hblk⟩, hdist, hokr⟩ := hok
      simp only [itemsBytes, List.foldl_append, goods, blockedCount]
      -- the optional `T` record
      obtain ⟨st1, f1, hst1, hat1, hf1p, hf1t, hst1fs, rs1, hrs1, hrs1a⟩ :
          ∃ st1 f1, (if o.preserve then timesRecord ss t a else []).foldl (step o) st = st1 ∧
            AtDir o st1 f1 rest q ∧ Pend o f1 ∧ f1.targ = f.targ ∧ st1.fs = st.fs ∧
            ∃ rs, st1.out = rs ++ st.out ∧ RsI rs 0 0 := by
        by_cases hp : o.preserve = true
        · simp only [hp, ↓reduceIte, timesRecord]
          rw [feed_T h.phase h.stack (t / USEC) (sentUsec ss t) (a / USEC) (sentUsec ss a)
            (sent_lt ss ht).1 (sent_lt ss ht).2 (sent_lt ss ha).1 (sent_lt ss ha).2]
          exact ⟨_, _, rfl, ⟨rfl, rfl, h.isdir, h.res, h.dir, h.ver, ⟨usecOk_sent _ _, usecOk_sent _ _⟩⟩,
            fun _ => hp, rfl, rfl, [.ack], rfl, ⟨by simp, rfl, rfl⟩⟩
        · have hp' : o.preserve = false := by simpa using hp
          simp only [hp', Bool.false_eq_true, ↓reduceIte, List.foldl_nil]
          exact ⟨_, f, rfl, h, hns, rfl, rfl, [], rfl, ⟨by simp, rfl, rfl⟩⟩
      rw [hst1]
      have hC := feed_C_blocked (o := o) hat1.phase hat1.stack hat1.isdir hat1.res hat1.dir hn
        (by rw [hst1fs]; exact hblk) (by rw [hf1t]; omega) m d.length hd
      rw [hC]
      have h2 := ih { st1 with out := .err .path :: st1.out, phase := .start } f1
        ⟨rfl, hat1.stack, hat1.isdir, hat1.res, hat1.dir, hat1.ver, hat1.us⟩ hf1p (by rw [hf1t]; exact hb)
        (by show ItemsOk budget st1.fs q r; rw [hst1fs]; exact hokr)
      generalize (itemsBytes o.preserve ss r).foldl (step o) _ = st2 at h2
      obtain ⟨⟨f2, hat2, hf2s, hf2t⟩, hfs2, rs2, hrs2, hrs2a⟩ := h2
      refine ⟨⟨f2, hat2, hf2s, hf2t.trans hf1t⟩, by rw [hfs2]; show recvKids o ss st1.fs q _ = _; rw [hst1fs],
        rs2 ++ (.err .path :: rs1), ?_, ?_⟩
      · rw [hrs2]
        show rs2 ++ (Reply.err Err.path :: st1.out) = _
        rw [hrs1]
        simp
      · have hone : RsI (Reply.err Err.path :: rs1) 0 1 := by
          refine ⟨?_, ?_, ?_⟩
          · intro r hr
            simp only [List.mem_cons] at hr
            rcases hr with rfl | hr
            · exact Or.inr (Or.inr rfl)
            · exact hrs1a.1 r hr
          · rw [List.count_cons]; simp [hrs1a.2.1]
          · rw [List.count_cons]; simp [hrs1a.2.2]
        have := hrs2a.append hone
        simpa using this

end PdshVerif.Pcp
