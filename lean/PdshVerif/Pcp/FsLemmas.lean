import PdshVerif.Pcp.PathLemmas

/-! File-system facts used by the round-trip proof (C11): resolving `targ/name` below a resolved
directory, the system calls on a fresh name, and monotonicity of resolution when entries are only
added or keep their kind. -/
namespace PdshVerif.Pcp
open PdshVerif.Gen

theorem walkOk_append (fs : FS) (cur : Path) (cs ds : List Str) :
    walkOk fs cur (cs ++ ds) = (walkOk fs cur cs && walkOk fs (lexWalk cur cs) ds) := by
  induction cs generalizing cur with
  | nil => simp [walkOk, lexWalk]
  | cons c cs ih =>
    simp only [List.cons_append, walkOk, ih, lexWalk, List.foldl_cons, Bool.and_assoc]

/-- directories stay directories -/
def DirMono (fs fs' : FS) : Prop := ∀ x, fs.isDir x = true → fs'.isDir x = true

theorem DirMono.refl (fs : FS) : DirMono fs fs := fun _ h => h

theorem DirMono.trans {a b c : FS} (h1 : DirMono a b) (h2 : DirMono b c) : DirMono a c :=
  fun x h => h2 x (h1 x h)

theorem walkOk_mono {fs fs' : FS} (h : DirMono fs fs') (cur : Path) (cs : List Str)
    (hw : walkOk fs cur cs = true) : walkOk fs' cur cs = true := by
  induction cs generalizing cur with
  | nil => rfl
  | cons c cs ih =>
    simp only [walkOk, Bool.and_eq_true, decide_eq_true_eq] at hw ⊢
    exact ⟨⟨h cur hw.1.1, hw.1.2⟩, ih _ hw.2⟩

theorem resolve_walkOk {fs : FS} {cwd : Path} {s : Str} {q : Path} (h : resolve fs cwd s = some q) :
    s ≠ [] ∧ s.length < PCP_PATH_MAX ∧ walkOk fs (if isAbs s then [] else cwd) (comps s) = true := by
  unfold resolve at h
  split at h; · simp at h
  rename_i h1
  split at h; · simp at h
  rename_i h2
  by_cases hw : walkOk fs (if isAbs s = true then [] else cwd) (comps s) = true
  · exact ⟨h1, by omega, hw⟩
  · rw [if_neg hw] at h; simp at h

theorem resolve_of {fs : FS} {cwd : Path} {s : Str} (h1 : s ≠ []) (h2 : s.length < PCP_PATH_MAX)
    (hw : walkOk fs (if isAbs s then [] else cwd) (comps s) = true) :
    resolve fs cwd s = some (lexNorm cwd s) := by
  unfold resolve
  rw [if_neg h1, if_neg (by omega), if_pos hw]

theorem resolve_mono {fs fs' : FS} (h : DirMono fs fs') {cwd : Path} {s : Str} {q : Path}
    (hr : resolve fs cwd s = some q) : resolve fs' cwd s = some q := by
  obtain ⟨h1, h2, hw⟩ := resolve_walkOk hr
  rw [resolve_of h1 h2 (walkOk_mono h _ _ hw), resolve_eq hr]

theorem joinName_cons_length (targ n : Str) (h : targ ≠ []) :
    (joinName targ n).length = targ.length + n.length + 1 := by
  cases targ with
  | nil => exact absurd rfl h
  | cons c cs => simp [joinName]; omega

/-- `targ/name` resolves to one more component below the directory `targ` resolves to -/
theorem resolve_join {fs : FS} {cwd : Path} {targ n : Str} {q : Path} (hr : resolve fs cwd targ = some q)
    (hd : fs.isDir q = true) (hn : PlainName n) (hl : n.length ≤ PCP_NAME_MAX)
    (hp : targ.length + n.length + 1 < PCP_PATH_MAX) : resolve fs cwd (joinName targ n) = some (q ++ [n]) := by
  obtain ⟨h1, h2, hw⟩ := resolve_walkOk hr
  have hq : q = lexNorm cwd targ := resolve_eq hr
  cases targ with
  | nil => exact absurd rfl h1
  | cons c cs =>
    have hj : joinName (c :: cs) n = (c :: cs) ++ cSlash :: n := by simp [joinName]
    have ha : isAbs ((c :: cs) ++ cSlash :: n) = isAbs (c :: cs) := by simp [isAbs]
    have hres := resolve_of (fs := fs) (cwd := cwd) (s := joinName (c :: cs) n) (by simp [joinName])
      (by rw [joinName_cons_length _ _ (by simp)]; exact hp)
      (by
        rw [hj, ha, comps_append, comps_plain hn, walkOk_append, hw]
        simp only [Bool.true_and, walkOk, Bool.and_true, Bool.and_eq_true, decide_eq_true_eq]
        refine ⟨?_, hl⟩
        have : lexWalk (if isAbs (c :: cs) = true then [] else cwd) (comps (c :: cs)) = q := by
          rw [hq]; rfl
        rw [this]; exact hd)
    rw [hres, lexNorm_joinName _ _ hn, hq]

theorem trailingSlash_join (targ : Str) {n : Str} (hn : PlainName n) : trailingSlash (joinName targ n) = false := by
  have hne := hn.ne
  obtain ⟨a, ha⟩ : ∃ a, n.getLast? = some a := by
    cases h : n.getLast? with
    | none => exact absurd (List.getLast?_eq_none_iff.1 h) hne
    | some a => exact ⟨a, rfl⟩
  have hne' : a ≠ cSlash := fun e => hn.noslash (e ▸ List.mem_of_getLast? ha)
  unfold trailingSlash joinName
  simp [List.getLast?_append, ha, hne']

/-! ## system calls on a fresh name -/

theorem stat_fresh {fs : FS} {cwd : Path} {s : Str} {p : Path} (hr : resolve fs cwd s = some p)
    (hf : fs p = none) : stat fs cwd s = none := by
  unfold stat; rw [hr]; simp [hf]

theorem stat_some {fs : FS} {cwd : Path} {s : Str} {p : Path} {nd : Node} (hr : resolve fs cwd s = some p)
    (hf : fs p = some nd) (ht : trailingSlash s = false) : stat fs cwd s = some (p, nd) := by
  unfold stat; rw [hr]; simp [hf, ht]

theorem openCreat_fresh {fs : FS} {cwd : Path} {s : Str} {q : Path} {n : Str} (mode um : Nat)
    (hr : resolve fs cwd s = some (q ++ [n])) (hf : fs (q ++ [n]) = none) (ht : trailingSlash s = false) :
    openCreat fs cwd s mode um =
      some ((fs.bumpDir q).set (q ++ [n]) (.file (maskOff mode um) none []), q ++ [n], true) := by
  unfold openCreat
  rw [hr]
  simp [hf, ht]

theorem mkdir_fresh {fs : FS} {cwd : Path} {s : Str} {q : Path} {n : Str} (mode um : Nat)
    (hr : resolve fs cwd s = some (q ++ [n])) (hf : fs (q ++ [n]) = none) :
    mkdir fs cwd s mode um =
      some ((fs.bumpDir q).set (q ++ [n]) (.dir (mkdirMode mode um (parentMode fs (q ++ [n]))) none), q ++ [n]) := by
  unfold mkdir
  rw [hr]
  simp [hf]

/-! ## monotonicity of the updates -/

theorem isDir_set (fs : FS) (p : Path) (nd : Node) (x : Path) :
    (fs.set p nd).isDir x = if x = p then nd.isDir else fs.isDir x := by
  by_cases e : x = p <;> simp [FS.isDir, FS.set, e]

theorem dirMono_set_fresh {fs : FS} {p : Path} (nd : Node) (hf : fs p = none) : DirMono fs (fs.set p nd) := by
  intro x hx
  rw [isDir_set]
  split
  · rename_i e; subst e; simp [FS.isDir, hf] at hx
  · exact hx

theorem dirMono_set_same {fs : FS} {p : Path} {old : Node} (nd : Node) (hf : fs p = some old)
    (hk : nd.isDir = old.isDir) : DirMono fs (fs.set p nd) := by
  intro x hx
  rw [isDir_set]
  split
  · rename_i e; subst e; simp [FS.isDir, hf] at hx; rw [hk]; exact hx
  · exact hx

theorem bumpDir_other (fs : FS) (p x : Path) (h : x ≠ p) : fs.bumpDir p x = fs x := by
  simp [FS.bumpDir, h]

theorem bumpDir_self_dir {fs : FS} {p : Path} {m : Nat} {t : Option Time} (h : fs p = some (.dir m t)) :
    fs.bumpDir p p = some (.dir m none) := by
  simp [FS.bumpDir, h]

theorem dirMono_bumpDir (fs : FS) (p : Path) : DirMono fs (fs.bumpDir p) := by
  intro x hx
  by_cases e : x = p
  · subst e
    unfold FS.isDir at hx ⊢
    cases hf : fs x with
    | none => simp [hf] at hx
    | some nd =>
      cases nd with
      | file m t d => simp [hf, Node.isDir] at hx
      | dir m t => simp [FS.bumpDir, hf, Node.isDir]
  · unfold FS.isDir at hx ⊢
    rw [bumpDir_other _ _ _ e]; exact hx

theorem bumpDir_none (fs : FS) (p x : Path) (h : fs x = none) : fs.bumpDir p x = none := by
  by_cases e : x = p
  · subst e
    simp [FS.bumpDir, h]
  · rw [bumpDir_other _ _ _ e, h]

theorem set_self (fs : FS) (p : Path) (nd : Node) : fs.set p nd p = some nd := by simp [FS.set]

theorem set_other (fs : FS) (p x : Path) (nd : Node) (h : x ≠ p) : fs.set p nd x = fs x := by
  simp [FS.set, h]

theorem set_set (fs : FS) (p : Path) (a b : Node) : (fs.set p a).set p b = fs.set p b := by
  funext x
  simp only [FS.set]
  split <;> rfl

theorem setData_of_file {fs : FS} {p : Path} {m : Nat} {t : Option Time} {d0 : Str}
    (h : fs p = some (.file m t d0)) (d : Str) : setData fs p d = fs.set p (.file m none d) := by
  funext x
  by_cases e : x = p <;> simp [setData, FS.set, h, e]

theorem resize_exact (d : Str) : resize d d.length = d := by
  simp [resize]

theorem overwrite_nil (w : Str) : overwrite [] w = w := by simp [overwrite]

end PdshVerif.Pcp
