import PdshVerif.Pcp.RoundTrip

/-! Round trip of whole trees (C11): the byte stream the sender produces for a source tree, fed to
the receiver at a record boundary inside a directory in which the tree's name is not yet present,
installs `recvTree` -- by mutual structural induction over trees and child lists. -/
namespace PdshVerif.Pcp
open PdshVerif.Gen

/-! ## the stream of a tree and what the receiver makes of it -/

/-- the microseconds the sender puts into a `T` record: those of the time stamp, or 0 (code as found) -/
def sentUsec (ss : Bool) (t : Nat) : Nat := if ss then t % USEC else 0

/-- the `T` record for a node with modification/access time `t`/`a` (microseconds); `ss` = the sender
variant that transmits the sub-second part -/
def timesRecord (ss : Bool) (t a : Nat) : Str := tRecord (t / USEC) (sentUsec ss t) (a / USEC) (sentUsec ss a)

/-- the time stamp the receiver gets to see -/
abbrev sentTime (ss : Bool) (t : Nat) : Time := ⟨((t / USEC : Nat) : Int), ((sentUsec ss t : Nat) : Int)⟩

mutual
/-- the bytes `pcp_client` sends for one tree under the name `n` when every reply is positive -/
def treeBytes (p ss : Bool) (n : Str) : Tree → Str
  | .file m t a d => (if p then timesRecord ss t a else []) ++ (cRecord m d.length n ++ d ++ [0])
  | .dir m t a kids =>
    (if p then timesRecord ss t a else []) ++ (dRecord m n ++ (kidsBytes p ss kids ++ exitFlag))
def kidsBytes (p ss : Bool) : List (Str × Tree) → Str
  | [] => []
  | (n, k) :: r => treeBytes p ss n k ++ kidsBytes p ss r
end

/-- `utimes` on an existing node -/
def setMtimeAt (fs : FS) (p : Path) (t : Time) : FS :=
  match fs p with
  | some nd => fs.set p (nd.setMtime (some t))
  | none => fs

/-- the node a regular file of the source arrives as: the file itself, or -- when it is larger than the
receiver's file size limit -- the bytes that fitted, with the clock's time -/
def recvFileNode (o : Opts) (m : Nat) (tm : Option Time) (d : Str) : Node :=
  if o.fitsB d.length then recvFile o m tm d
  else .file (maskOff (m &&& RCP_MODEMASK) o.eumask) none (o.writable d)

mutual
/-- the number of files in a tree that exceed the receiver's file size limit -/
def faults (o : Opts) : Tree → Nat
  | .file _ _ _ d => if o.fitsB d.length then 0 else 1
  | .dir _ _ _ kids => faultsKids o kids
def faultsKids (o : Opts) : List (Str × Tree) → Nat
  | [] => 0
  | (_, k) :: r => faults o k + faultsKids o r
end

mutual
/-- the file system after the receiver has taken in one tree under the name `n` in directory `q` -/
def recvTree (o : Opts) (ss : Bool) (fs : FS) (q : Path) (n : Str) : Tree → FS
  | .file m t _ d =>
    (fs.bumpDir q).set (q ++ [n]) (recvFileNode o m (if o.preserve then some (sentTime ss t) else none) d)
  | .dir m t _ kids =>
    if o.preserve then
      setMtimeAt (recvKids o ss ((fs.bumpDir q).set (q ++ [n]) (recvDirNode o fs q n m)) (q ++ [n]) kids)
        (q ++ [n]) (sentTime ss t)
    else recvKids o ss ((fs.bumpDir q).set (q ++ [n]) (recvDirNode o fs q n m)) (q ++ [n]) kids
def recvKids (o : Opts) (ss : Bool) (fs : FS) (q : Path) : List (Str × Tree) → FS
  | [] => fs
  | (n, k) :: r => recvKids o ss (recvTree o ss fs q n k) q r
end

mutual
/-- the domain of C11 for one tree: good names, pairwise distinct among siblings, path lengths within
`budget` bytes below the current target, sizes and times that fit `long` -/
def GoodTree (budget : Nat) (n : Str) : Tree → Prop
  | .file _ t a d => GoodName n ∧ n.length + 1 ≤ budget ∧ t < 2 ^ 63 ∧ a < 2 ^ 63 ∧ d.length < 2 ^ 63
  | .dir _ t a kids =>
    GoodName n ∧ n.length + 1 ≤ budget ∧ t < 2 ^ 63 ∧ a < 2 ^ 63 ∧ GoodKids (budget - (n.length + 1)) kids
def GoodKids (budget : Nat) : List (Str × Tree) → Prop
  | [] => True
  | (n, k) :: r => GoodTree budget n k ∧ (∀ x ∈ r, x.1 ≠ n) ∧ GoodKids budget r
end

/-- nothing exists at or below `p` -/
def FreshBelow (fs : FS) (p : Path) : Prop := ∀ x, p <+: x → fs x = none

/-! ## `recvTree` only changes the parent directory and what is below the new name -/

theorem prefix_snoc_ne {q x : Path} {n : Str} (h : (q ++ [n]) <+: x) : x ≠ q := by
  intro e
  subst e
  have := h.length_le
  simp at this
  omega

mutual
theorem recvTree_other (o : Opts) (ss : Bool) (fs : FS) (q : Path) (n : Str) (t : Tree) (x : Path) (hq : x ≠ q)
    (hx : ¬ (q ++ [n]) <+: x) : recvTree o ss fs q n t x = fs x := by
  have hne : x ≠ q ++ [n] := fun e => hx (e ▸ List.prefix_refl _)
  cases t with
  | file m t a d =>
    simp only [recvTree]
    rw [set_other _ _ _ _ hne, bumpDir_other _ _ _ hq]
  | dir m t a kids =>
    have hk : recvKids o ss ((fs.bumpDir q).set (q ++ [n]) (recvDirNode o fs q n m)) (q ++ [n]) kids x = fs x := by
      rw [recvKids_other o ss _ (q ++ [n]) kids x hne (fun n' _ _ hp => hx ((List.prefix_append _ _).trans hp))]
      rw [set_other _ _ _ _ hne, bumpDir_other _ _ _ hq]
    simp only [recvTree]
    generalize recvKids o ss ((fs.bumpDir q).set (q ++ [n]) (recvDirNode o fs q n m)) (q ++ [n]) kids = g at hk ⊢
    split
    · unfold setMtimeAt
      cases hm : g (q ++ [n]) with
      | none => exact hk
      | some nd => simp only []; rw [set_other _ _ _ _ hne, hk]
    · exact hk
theorem recvKids_other (o : Opts) (ss : Bool) (fs : FS) (q : Path) (kids : List (Str × Tree)) (x : Path) (hq : x ≠ q)
    (hx : ∀ n k, (n, k) ∈ kids → ¬ (q ++ [n]) <+: x) : recvKids o ss fs q kids x = fs x := by
  cases kids with
  | nil => rfl
  | cons nk r =>
    obtain ⟨n, k⟩ := nk
    simp only [recvKids]
    rw [recvKids_other o ss _ q r x hq (fun n' k' hm => hx n' k' (List.mem_cons_of_mem _ hm)),
      recvTree_other o ss fs q n k x hq (hx n k List.mem_cons_self)]
end

/-! ## the invariant at a record boundary inside a directory -/

structure AtDir (o : Opts) (st : St) (f : Frame) (rest : List Frame) (q : Path) : Prop where
  phase : st.phase = .start
  stack : st.stack = f :: rest
  isdir : f.targisdir = true
  res : resolve st.fs o.cwd f.targ = some q
  dir : st.fs.isDir q = true
  ver : VerifyOk o st.fs
  us : usecOk f.atm = true ∧ usecOk f.mt = true

/-- a `T` record can only be pending in a level when the copy is made with -p (then every entry
brings its own `T` record, which replaces it) -/
def Pend (o : Opts) (f : Frame) : Prop := f.setimes = true → o.preserve = true

/-- replies that are acknowledgements except for exactly `k` "can't truncate" error records -/
def Rs (rs : List Reply) (k : Nat) : Prop :=
  (∀ r ∈ rs, r = Reply.ack ∨ r = Reply.err .trunc) ∧ rs.count (Reply.err .trunc) = k

theorem Rs.nil : Rs [] 0 := ⟨by simp, rfl⟩

theorem Rs.ack {rs : List Reply} {k : Nat} (h : Rs rs k) : Rs (.ack :: rs) k := by
  refine ⟨?_, ?_⟩
  · intro r hr
    simp only [List.mem_cons] at hr
    rcases hr with rfl | hr
    · exact Or.inl rfl
    · exact h.1 r hr
  · rw [List.count_cons]
    simp [h.2]

theorem Rs.trunc {rs : List Reply} {k : Nat} (h : Rs rs k) : Rs (.err .trunc :: rs) (k + 1) := by
  refine ⟨?_, ?_⟩
  · intro r hr
    simp only [List.mem_cons] at hr
    rcases hr with rfl | hr
    · exact Or.inr rfl
    · exact h.1 r hr
  · rw [List.count_cons]
    simp [h.2]

theorem Rs.append {a b : List Reply} {k1 k2 : Nat} (h1 : Rs a k1) (h2 : Rs b k2) : Rs (a ++ b) (k1 + k2) := by
  refine ⟨?_, ?_⟩
  · intro r hr
    simp only [List.mem_append] at hr
    rcases hr with hr | hr
    · exact h1.1 r hr
    · exact h2.1 r hr
  · rw [List.count_append, h1.2, h2.2]

theorem Rs.all_ack {rs : List Reply} (h : Rs rs 0) : ∀ r ∈ rs, r = Reply.ack := by
  intro r hr
  rcases h.1 r hr with e | e
  · exact e
  · exfalso
    have : 0 < rs.count (Reply.err .trunc) := List.count_pos_iff.2 (e ▸ hr)
    rw [h.2] at this
    omega

/-- what feeding a tree (or a list of trees) achieves -/
structure Fed (o : Opts) (st st' : St) (f : Frame) (rest : List Frame) (q : Path) (fs' : FS) (k : Nat) : Prop where
  frame : ∃ f', AtDir o st' f' rest q ∧ Pend o f' ∧ f'.targ = f.targ
  fs : st'.fs = fs'
  mono : DirMono st.fs st'.fs
  out : ∃ rs, st'.out = rs ++ st.out ∧ Rs rs k

theorem usecOk_zero (s : Int) : usecOk ⟨s, 0⟩ = true := by simp [usecOk]

theorem sentUsec_lt (ss : Bool) (t : Nat) : sentUsec ss t < 1000000 := by
  unfold sentUsec USEC; split <;> omega

theorem usecOk_sent (ss : Bool) (t : Nat) : usecOk (sentTime ss t) = true := by
  have h := sentUsec_lt ss t
  simp [usecOk]
  omega

theorem sent_lt (ss : Bool) {t : Nat} (h : t < 2 ^ 63) : t / USEC < 2 ^ 63 ∧ sentUsec ss t < 2 ^ 63 := by
  have h1 := sentUsec_lt ss t
  have h2 : t / USEC ≤ t := Nat.div_le_self _ _
  omega

theorem isDir_node {fs : FS} {p : Path} (h : fs.isDir p = true) : ∃ m t, fs p = some (.dir m t) := by
  unfold FS.isDir at h
  cases hf : fs p with
  | none => simp [hf] at h
  | some nd =>
    cases nd with
    | file m t d => simp [hf, Node.isDir] at h
    | dir m t => exact ⟨m, t, rfl⟩

variable {o : Opts}

/-- **One file of a tree**, with or without -p, fitting the receiver's file size limit or not. -/
theorem feed_file (hc : CntOk o) (ss : Bool) (m t a : Nat) (d : Str) (n : Str) (budget : Nat) (st : St) (f : Frame)
    (rest : List Frame) (q : Path) (h : AtDir o st f rest q) (hns : Pend o f)
    (hb : f.targ.length + budget < PCP_PATH_MAX) (hg : GoodTree budget n (.file m t a d))
    (hfresh : FreshBelow st.fs (q ++ [n])) :
    Fed o st ((treeBytes o.preserve ss n (.file m t a d)).foldl (step o) st) f rest q
      (recvTree o ss st.fs q n (.file m t a d)) (faults o (.file m t a d)) := by
  simp only [GoodTree] at hg
  obtain ⟨hn, hnb, ht, ha, hd⟩ := hg
  have hfr : st.fs (q ++ [n]) = none := hfresh _ (List.prefix_refl _)
  simp only [treeBytes, recvTree, faults, recvFileNode]
  have hmono : ∀ nd : Node, DirMono st.fs ((st.fs.bumpDir q).set (q ++ [n]) nd) := fun nd =>
    (dirMono_bumpDir _ _).trans (dirMono_set_fresh _ (bumpDir_none _ _ _ hfr))
  by_cases hp : o.preserve = true
  · -- `T` record, then the file
    simp only [hp, ↓reduceIte, timesRecord]
    rw [List.foldl_append, feed_T h.phase h.stack (t / USEC) (sentUsec ss t) (a / USEC) (sentUsec ss a)
      (sent_lt ss ht).1 (sent_lt ss ht).2 (sent_lt ss ha).1 (sent_lt ss ha).2]
    by_cases hfit : o.fitsB d.length = true
    · have hC := feed_C hc
        (st := { st with out := .ack :: st.out,
                         stack := { f with setimes := true, mt := sentTime ss t, atm := sentTime ss a } :: rest, phase := .start })
        (f := { f with setimes := true, mt := sentTime ss t, atm := sentTime ss a }) (rest := rest) (q := q) rfl rfl h.isdir
        h.res h.dir hn hfr (by simp only; omega) m d hd hfit ⟨usecOk_sent _ _, usecOk_sent _ _⟩
      rw [hC]
      simp only [hfit, ↓reduceIte]
      refine ⟨⟨_, ⟨rfl, rfl, h.isdir, resolve_mono (hmono _) h.res, hmono _ _ h.dir, verifyOk_mono (hmono _) h.ver,
        ⟨usecOk_sent _ _, usecOk_sent _ _⟩⟩, (fun e => by cases e), rfl⟩, rfl, hmono _, ⟨[.ack, .ack, .ack], rfl,
        Rs.nil.ack.ack.ack⟩⟩
    · have hfit' : o.fitsB d.length = false := by simpa using hfit
      have hC := feed_C_toobig hc
        (st := { st with out := .ack :: st.out,
                         stack := { f with setimes := true, mt := sentTime ss t, atm := sentTime ss a } :: rest, phase := .start })
        (f := { f with setimes := true, mt := sentTime ss t, atm := sentTime ss a }) (rest := rest) (q := q) rfl rfl h.isdir
        h.res h.dir hn hfr (by simp only; omega) m d hd hfit' ⟨usecOk_sent _ _, usecOk_sent _ _⟩
      rw [hC]
      simp only [hfit', Bool.false_eq_true, ↓reduceIte]
      refine ⟨⟨_, ⟨rfl, rfl, h.isdir, resolve_mono (hmono _) h.res, hmono _ _ h.dir, verifyOk_mono (hmono _) h.ver,
        ⟨usecOk_sent _ _, usecOk_sent _ _⟩⟩, fun _ => hp, rfl⟩, rfl, hmono _, ⟨[.err .trunc, .ack, .ack], rfl,
        Rs.nil.ack.ack.trunc⟩⟩
  · have hp' : o.preserve = false := by simpa using hp
    have hns' : f.setimes = false := by
      cases hfs : f.setimes with
      | false => rfl
      | true => rw [hns hfs] at hp'; cases hp'
    simp only [hp', Bool.false_eq_true, ↓reduceIte, List.nil_append]
    by_cases hfit : o.fitsB d.length = true
    · rw [feed_C hc h.phase h.stack h.isdir h.res h.dir hn hfr (by omega) m d hd hfit h.us]
      simp only [hns', Bool.false_eq_true, ↓reduceIte, hfit]
      refine ⟨⟨_, ⟨rfl, rfl, h.isdir, resolve_mono (hmono _) h.res, hmono _ _ h.dir, verifyOk_mono (hmono _) h.ver,
        h.us⟩, (fun e => by cases e), rfl⟩, rfl, hmono _, ⟨[.ack, .ack], rfl, Rs.nil.ack.ack⟩⟩
    · have hfit' : o.fitsB d.length = false := by simpa using hfit
      rw [feed_C_toobig hc h.phase h.stack h.isdir h.res h.dir hn hfr (by omega) m d hd hfit' h.us]
      simp only [hfit', Bool.false_eq_true, ↓reduceIte]
      refine ⟨⟨f, ⟨rfl, h.stack, h.isdir, resolve_mono (hmono _) h.res, hmono _ _ h.dir, verifyOk_mono (hmono _) h.ver,
        h.us⟩, hns, rfl⟩, rfl, hmono _, ⟨[.err .trunc, .ack], rfl, Rs.nil.ack.trunc⟩⟩

mutual
/-- **Round trip of one tree.** -/
theorem feed_tree (hc : CntOk o) (ss : Bool) (t : Tree) (n : Str) (budget : Nat) (st : St) (f : Frame) (rest : List Frame)
    (q : Path) (h : AtDir o st f rest q) (hns : Pend o f) (hb : f.targ.length + budget < PCP_PATH_MAX)
    (hg : GoodTree budget n t) (hfresh : FreshBelow st.fs (q ++ [n])) :
    Fed o st ((treeBytes o.preserve ss n t).foldl (step o) st) f rest q (recvTree o ss st.fs q n t) (faults o t) := by
  cases t with
  | file m t a d => exact feed_file hc ss m t a d n budget st f rest q h hns hb hg hfresh
  | dir m t a kids =>
    simp only [GoodTree] at hg
    obtain ⟨hn, hnb, ht, ha, hk⟩ := hg
    have hfr : st.fs (q ++ [n]) = none := hfresh _ (List.prefix_refl _)
    have htne : f.targ ≠ [] := (resolve_walkOk h.res).1
    -- the state and the parent frame after the optional `T` record
    obtain ⟨st1, f1, hst1, hf1t, hf1d, hf1u, hf1s, hst1fs, hst1ph, hst1st, hst1out⟩ :
        ∃ st1 f1, (if o.preserve then timesRecord ss t a else []).foldl (step o) st = st1 ∧ f1.targ = f.targ ∧
          f1.targisdir = true ∧ (usecOk f1.atm = true ∧ usecOk f1.mt = true) ∧
          (f1.setimes = o.preserve ∧ (o.preserve = true → f1.mt = sentTime ss t)) ∧ st1.fs = st.fs ∧
          st1.phase = .start ∧ st1.stack = f1 :: rest ∧
          ∃ acks, st1.out = acks ++ st.out ∧ Rs acks 0 := by
      by_cases hp : o.preserve = true
      · simp only [hp, ↓reduceIte, timesRecord]
        rw [feed_T h.phase h.stack (t / USEC) (sentUsec ss t) (a / USEC) (sentUsec ss a) (sent_lt ss ht).1 (sent_lt ss ht).2 (sent_lt ss ha).1 (sent_lt ss ha).2]
        exact ⟨_, { f with setimes := true, mt := sentTime ss t, atm := sentTime ss a }, rfl, rfl, h.isdir,
          ⟨usecOk_sent _ _, usecOk_sent _ _⟩, ⟨rfl, fun _ => rfl⟩, rfl, rfl, rfl, [.ack], rfl, Rs.nil.ack⟩
      · have hp' : o.preserve = false := by simpa using hp
        simp only [hp', Bool.false_eq_true, ↓reduceIte, List.foldl_nil]
        have hns' : f.setimes = false := by
          cases hfs : f.setimes with
          | false => rfl
          | true => rw [hns hfs] at hp'; cases hp'
        exact ⟨_, f, rfl, rfl, h.isdir, h.us, ⟨hns', fun e => by cases e⟩, rfl, h.phase, h.stack, [], rfl, Rs.nil⟩
    obtain ⟨acks1, hacks1, hacks1a⟩ := hst1out
    -- the `D` record
    have hD := feed_D (o := o) (st := st1) (f := f1) (rest := rest) (q := q) hst1ph hst1st hf1d
      (by rw [hst1fs, hf1t]; exact h.res) (by rw [hst1fs]; exact h.dir) (by rw [hst1fs]; exact h.ver) hn
      (by rw [hst1fs]; exact hfr) (by rw [hf1t]; omega) m
    generalize hst2 : (dRecord m n).foldl (step o) st1 = st2 at hD
    have hfs2 : st2.fs = (st.fs.bumpDir q).set (q ++ [n]) (recvDirNode o st.fs q n m) := by
      rw [hD, hst1fs]
    have hmono2 : DirMono st.fs st2.fs := by
      rw [hfs2]
      exact (dirMono_bumpDir _ _).trans (dirMono_set_fresh _ (bumpDir_none _ _ _ hfr))
    have hrj := resolve_join h.res h.dir hn.plain hn.short (by omega)
    let chf : Frame := { targ := joinName f.targ n, targisdir := true, setimes := false, mt := default, atm := default }
    have hat2 : AtDir o st2 chf (f1 :: rest) (q ++ [n]) := by
      refine ⟨by rw [hD], by rw [hD, hf1t], rfl, resolve_mono hmono2 hrj, ?_, verifyOk_mono hmono2 h.ver,
        ⟨usecOk_zero _, usecOk_zero _⟩⟩
      rw [hfs2]
      simp [FS.isDir, set_self, recvDirNode, Node.isDir]
    -- the children
    have hkfresh : ∀ n' k', (n', k') ∈ kids → FreshBelow st2.fs (q ++ [n] ++ [n']) := by
      intro n' k' _ x hx
      have hx1 : (q ++ [n]) <+: x := (List.prefix_append _ _).trans hx
      rw [hfs2, set_other _ _ _ _ (prefix_snoc_ne hx), bumpDir_other _ _ _ (prefix_snoc_ne hx1)]
      exact hfresh x hx1
    have hK := feed_kids hc ss kids (budget - (n.length + 1)) st2 chf (f1 :: rest) (q ++ [n]) hat2
      (fun e => by cases e)
      (by
        show (joinName f.targ n).length + _ < _
        rw [joinName_cons_length _ _ htne]; omega) hk hkfresh
    generalize hst3 : (kidsBytes o.preserve ss kids).foldl (step o) st2 = st3 at hK
    obtain ⟨⟨f3, hat3, hf3s, hf3t⟩, hfs3, hmono3, acks3, hacks3, hacks3a⟩ := hK
    -- the `E` record
    obtain ⟨mode3, tm3, hnode3⟩ := isDir_node hat3.dir
    have hE := feed_E (o := o) (st := st3) (ch := f3) (f := f1) (rest := rest) (q' := q ++ [n]) hat3.phase
      hat3.stack hat3.res hnode3 (by rw [hf3t]; exact trailingSlash_join _ hn.plain) hf1u
    -- assemble
    have hbytes : (treeBytes o.preserve ss n (.dir m t a kids)).foldl (step o) st = exitFlag.foldl (step o) st3 := by
      simp only [treeBytes, List.foldl_append]
      rw [hst1, hst2, hst3]
    rw [hbytes, hE]
    have hmonoE : DirMono st3.fs (if f1.setimes = true then st3.fs.set (q ++ [n]) (.dir mode3 (some f1.mt)) else st3.fs) := by
      split
      · exact dirMono_set_same _ hnode3 rfl
      · exact DirMono.refl _
    have hmonoAll := (hmono2.trans hmono3).trans hmonoE
    refine ⟨⟨_, ⟨rfl, rfl, hf1d, ?_, hmonoAll _ h.dir, verifyOk_mono hmonoAll h.ver, hf1u⟩, (fun e => by cases e), hf1t⟩,
      ?_, hmonoAll, ?_⟩
    · show resolve _ o.cwd f1.targ = some q
      rw [hf1t]; exact resolve_mono hmonoAll h.res
    · -- the file system is `recvTree`
      show (if f1.setimes = true then st3.fs.set (q ++ [n]) (.dir mode3 (some f1.mt)) else st3.fs) = _
      simp only [recvTree]
      rw [hfs3, hfs2] at *
      by_cases hp : o.preserve = true
      · have hs1 : f1.setimes = true := by rw [hf1s.1]; exact hp
        simp only [hs1, hp, ↓reduceIte, hf1s.2 hp]
        unfold setMtimeAt
        rw [hnode3]
        rfl
      · have hp' : o.preserve = false := by simpa using hp
        have hs1 : f1.setimes = false := by rw [hf1s.1]; exact hp'
        simp only [hs1, hp', Bool.false_eq_true, ↓reduceIte]
    · refine ⟨.ack :: (acks3 ++ (.ack :: acks1)), ?_, ?_⟩
      · show Reply.ack :: st3.out = _
        rw [hacks3, hD]
        simp only [hacks1, List.cons_append, List.append_assoc]
      · have := (hacks3a.append hacks1a.ack).ack
        simpa [faults] using this
/-- **Round trip of a list of sibling trees.** -/
theorem feed_kids (hc : CntOk o) (ss : Bool) (kids : List (Str × Tree)) (budget : Nat) (st : St) (f : Frame)
    (rest : List Frame) (q : Path) (h : AtDir o st f rest q) (hns : Pend o f)
    (hb : f.targ.length + budget < PCP_PATH_MAX) (hg : GoodKids budget kids)
    (hfresh : ∀ n k, (n, k) ∈ kids → FreshBelow st.fs (q ++ [n])) :
    Fed o st ((kidsBytes o.preserve ss kids).foldl (step o) st) f rest q (recvKids o ss st.fs q kids)
      (faultsKids o kids) := by
  cases kids with
  | nil =>
    simp only [kidsBytes, List.foldl_nil, recvKids]
    exact ⟨⟨f, h, hns, rfl⟩, rfl, DirMono.refl _, [], rfl, Rs.nil⟩
  | cons nk r =>
    obtain ⟨n, k⟩ := nk
    simp only [GoodKids] at hg
    obtain ⟨hgk, hdist, hgr⟩ := hg
    simp only [kidsBytes, List.foldl_append, recvKids]
    have h1 := feed_tree hc ss k n budget st f rest q h hns hb hgk (hfresh n k List.mem_cons_self)
    generalize (treeBytes o.preserve ss n k).foldl (step o) st = st1 at h1
    obtain ⟨⟨f1, hat1, hf1s, hf1t⟩, hfs1, hmono1, acks1, hacks1, hacks1a⟩ := h1
    have hfresh1 : ∀ n' k', (n', k') ∈ r → FreshBelow st1.fs (q ++ [n']) := by
      intro n' k' hm x hx
      rw [hfs1, recvTree_other o ss st.fs q n k x (prefix_snoc_ne hx)]
      · exact hfresh n' k' (List.mem_cons_of_mem _ hm) x hx
      · intro hx2
        -- two prefixes of `x` of the same length are equal
        have hne : n' ≠ n := hdist (n', k') hm
        have e := List.prefix_of_prefix_length_le hx hx2 (by simp)
        have e2 : q ++ [n'] = q ++ [n] := e.eq_of_length (by simp)
        have := List.append_cancel_left e2
        simp at this
        exact hne this
    have h2 := feed_kids hc ss r budget st1 f1 rest q hat1 hf1s (by rw [hf1t]; exact hb) hgr hfresh1
    generalize (kidsBytes o.preserve ss r).foldl (step o) st1 = st2 at h2
    obtain ⟨⟨f2, hat2, hf2s, hf2t⟩, hfs2, hmono2, acks2, hacks2, hacks2a⟩ := h2
    refine ⟨⟨f2, hat2, hf2s, hf2t.trans hf1t⟩, by rw [hfs2, hfs1], hmono1.trans hmono2, acks2 ++ acks1, ?_, ?_⟩
    · rw [hacks2, hacks1, List.append_assoc]
    · have := hacks2a.append hacks1a
      simpa [faultsKids, Nat.add_comm] using this
end

end PdshVerif.Pcp

namespace PdshVerif.Pcp
open PdshVerif.Gen

/-! ## the sender's walk produces `treeBytes` -/

/-- the name `pcp_sendfile` puts into the record for a list entry -/
def sentName (so : SOpts) (path : Str) (user : Bool) : Str :=
  xbasename (if so.reverse && user then path ++ cDot :: so.host else path)

theorem xbasename_join (path n : Str) (hn : cSlash ∉ n) : xbasename (path ++ cSlash :: n) = n := by
  unfold xbasename
  rw [splitSlash_append, splitSlash_noslash n hn]
  simp

theorem sentinel_noslash : cSlash ∉ sentinelName := by decide

theorem join_ne_sentinel (path n : Str) : path ++ cSlash :: n ≠ sentinelName := by
  intro e
  apply sentinel_noslash
  rw [← e]
  simp

mutual
/-- names below the top level contain no `/` (they are `d_name`s) -/
def KidNamesOk : Tree → Prop
  | .file .. => True
  | .dir _ _ _ kids => KidListOk kids
def KidListOk : List (Str × Tree) → Prop
  | [] => True
  | (n, k) :: r => cSlash ∉ n ∧ KidNamesOk k ∧ KidListOk r
end

mutual
theorem send_tree (so : SOpts) (path : Str) (user : Bool) (t : Tree)
    (hp : path ≠ sentinelName ∨ (so.sentinelFix = true ∧ user = true)) (hk : KidNamesOk t) :
    (expandTree path user t).flatMap (sendEntry so) = treeBytes so.preserve so.subsec (sentName so path user) t := by
  have hcond : (decide (path = sentinelName) && !(so.sentinelFix && user)) = false := by
    rcases hp with h | ⟨h1, h2⟩
    · simp [h]
    · simp [h1, h2]
  cases t with
  | file m t a d =>
    simp only [expandTree, List.flatMap_cons, List.flatMap_nil, List.append_nil, sendEntry, hcond, ↓reduceIte,
      treeBytes, sentName, Bool.false_eq_true, timesRecord, sentUsec]
  | dir m t a kids =>
    simp only [KidNamesOk] at hk
    simp only [expandTree, List.flatMap_cons, List.flatMap_append, List.flatMap_nil, List.append_nil, sendEntry,
      hcond, ↓reduceIte, treeBytes, sentName, Bool.false_eq_true, timesRecord, sentUsec]
    rw [send_kids so path kids hk]
    simp only [List.append_assoc]
theorem send_kids (so : SOpts) (path : Str) (kids : List (Str × Tree)) (hk : KidListOk kids) :
    (expandKids path kids).flatMap (sendEntry so) = kidsBytes so.preserve so.subsec kids := by
  cases kids with
  | nil => rfl
  | cons nk r =>
    obtain ⟨n, k⟩ := nk
    simp only [KidListOk] at hk
    obtain ⟨hn, hkk, hkr⟩ := hk
    simp only [expandKids, List.flatMap_append, kidsBytes]
    rw [send_tree so (path ++ cSlash :: n) false k (Or.inl (join_ne_sentinel _ _)) hkk, send_kids so path r hkr]
    simp only [sentName, Bool.and_false, Bool.false_eq_true, ↓reduceIte, xbasename_join path n hn]
end

/-- the sources under the names they are sent with -/
def namedSrcs (so : SOpts) : List (Str × Tree) → List (Str × Tree)
  | [] => []
  | (path, t) :: r => (sentName so path true, t) :: namedSrcs so r

/-- what the user may name: not the sentinel (unless the sender is repaired), trees whose entry names
have no `/` -/
def SrcsOk (so : SOpts) : List (Str × Tree) → Prop
  | [] => True
  | (path, t) :: r => (path ≠ sentinelName ∨ so.sentinelFix = true) ∧ KidNamesOk t ∧ SrcsOk so r

theorem send_eq (so : SOpts) (srcs : List (Str × Tree)) (h : SrcsOk so srcs) :
    send so srcs = kidsBytes so.preserve so.subsec (namedSrcs so srcs) := by
  unfold send
  induction srcs with
  | nil => rfl
  | cons pt r ih =>
    obtain ⟨path, t⟩ := pt
    simp only [SrcsOk] at h
    simp only [expandAll, List.flatMap_append, namedSrcs, kidsBytes]
    rw [send_tree so path true t (h.1.imp id (fun e => ⟨e, rfl⟩)) h.2.1, ih h.2.2]

end PdshVerif.Pcp
