import PdshVerif.Pcp.Sink

/-! # The client's reply reader: `pcp_response` / `fd_read_line` (pcp_client.c, common/fd.c)

`Session.lean` lets the client read the receiver's replies as a LIST of records (`Sess.read`).  On the wire the
replies are bytes: a positive reply is one NUL, an error record is `\01` + text + newline (pcp_server.c `_error`).
`pcp_response` reads one byte and, for an error, one LINE into `char errstr[BUFSIZ]` with
`fd_read_line (infd, &errstr[i], BUFSIZ - i)`, which stores at most `maxlen - 1` bytes.  The list abstraction is
sound exactly as long as every error line fits that buffer: then reading reply after reply from the byte stream
yields the records in order (`readAll_wire`).  A line that does not fit is cut and its TAIL stays in the stream
(`response_wire_long`), where the next call takes it for the reply to the next record -- client and receiver are out
of step from there on (seeded change C11-13: the buffer shrunk to 2048 bytes, the receiver's text carries the whole
target path).
-/
namespace PdshVerif.Pcp

/-- `fd_read_line (fd, buf, maxlen)` with `n = maxlen - 1`: at most `n` bytes, a newline is stored and ends the
line; returns the bytes stored and the unread rest of the stream -/
def readLine : Nat → Str → Str × Str
  | 0, s => ([], s)
  | _ + 1, [] => ([], [])
  | n + 1, c :: s =>
    if c = 10 then ([c], s)
    else ((c :: (readLine n s).1), (readLine n s).2)

/-- what `pcp_response` makes of one reply -/
inductive Resp where
  | ok                    -- `\0`
  | fatal (text : Str)    -- `\01` + line: result -1
  | error (text : Str)    -- any other byte + line (the byte is kept as the first of the text): result 0
deriving DecidableEq, Repr

/-- `pcp_response` with `char errstr[bufsz]`; `none` = nothing to read (the peer is gone, result -1) -/
def response (bufsz : Nat) : Str → Option (Resp × Str)
  | [] => none
  | c :: s =>
    if c = 0 then some (.ok, s)
    else if c = 1 then some (.fatal (readLine (bufsz - 1) s).1, (readLine (bufsz - 1) s).2)
    else some (.error (c :: (readLine (bufsz - 1 - 1) s).1), (readLine (bufsz - 1 - 1) s).2)

/-- `k` calls of `pcp_response` in a row -/
def readAll (bufsz : Nat) : Nat → Str → List Resp
  | 0, _ => []
  | k + 1, s =>
    match response bufsz s with
    | none => []
    | some (r, s') => r :: readAll bufsz k s'

/-- exactly `k` calls whatever they return, as the harness op `resp` makes them: what each call returned (`true` = 0,
`false` = -1: fatal record or nothing to read) and the bytes left unread -/
def callN (bufsz : Nat) : Nat → Str → List Bool × Str
  | 0, s => ([], s)
  | k + 1, s =>
    match response bufsz s with
    | none => (false :: (callN bufsz k s).1, (callN bufsz k s).2)
    | some (.fatal _, s') => (false :: (callN bufsz k s').1, (callN bufsz k s').2)
    | some (_, s') => (true :: (callN bufsz k s').1, (callN bufsz k s').2)

/-- the receiver's side of the wire: `none` = positive reply, `some msg` = `_error` with the text `msg` (the format
strings of pcp_server.c all end in one newline, which is not part of `msg`) -/
def wireReply : Option Str → Str
  | none => [0]
  | some msg => 1 :: (msg ++ [10])

def wire : List (Option Str) → Str
  | [] => []
  | r :: rs => wireReply r ++ wire rs

/-- what the client should see -/
def decode : Option Str → Resp
  | none => .ok
  | some msg => .fatal (msg ++ [10])

/-- the text has no newline of its own and fits the client's buffer with the newline and the terminating NUL -/
def Fits (bufsz : Nat) : Option Str → Prop
  | none => True
  | some msg => (∀ c ∈ msg, c ≠ 10) ∧ msg.length + 2 ≤ bufsz

/-- a line that fits is read whole, and nothing after it is touched -/
theorem readLine_fits (msg : Str) : ∀ (n : Nat) (rest : Str), (∀ c ∈ msg, c ≠ 10) → msg.length + 1 ≤ n →
    readLine n (msg ++ 10 :: rest) = (msg ++ [10], rest) := by
  induction msg with
  | nil =>
    intro n rest _ hn
    match n, hn with
    | n + 1, _ => simp [readLine]
  | cons c msg ih =>
    intro n rest hc hn
    match n, hn with
    | n + 1, hn =>
      have hc10 : c ≠ 10 := hc c (by simp)
      have ih' := ih n rest (fun x hx => hc x (by simp [hx])) (by simp at hn; omega)
      simp [readLine, hc10, ih']

/-- a line that does NOT fit is cut after `n` bytes: its tail and the newline stay unread -/
theorem readLine_long (msg : Str) : ∀ (n : Nat) (rest : Str), (∀ c ∈ msg, c ≠ 10) → n ≤ msg.length →
    readLine n (msg ++ 10 :: rest) = (msg.take n, msg.drop n ++ 10 :: rest) := by
  induction msg with
  | nil =>
    intro n rest _ hn
    have : n = 0 := by simpa using hn
    subst this
    simp [readLine]
  | cons c msg ih =>
    intro n rest hc hn
    match n with
    | 0 => simp [readLine]
    | n + 1 =>
      have hc10 : c ≠ 10 := hc c (by simp)
      have ih' := ih n rest (fun x hx => hc x (by simp [hx])) (by simp at hn; omega)
      simp [readLine, hc10, ih']

/-- ONE reply that fits is decoded as sent, and the stream is left at the start of the next reply -/
theorem response_wire (bufsz : Nat) (r : Option Str) (rest : Str) (h : Fits bufsz r) :
    response bufsz (wireReply r ++ rest) = some (decode r, rest) := by
  cases r with
  | none => simp [wireReply, response, decode]
  | some msg =>
    obtain ⟨h10, hlen⟩ := h
    have hl := readLine_fits msg (bufsz - 1) rest h10 (by omega)
    simp [wireReply, response, decode, hl]

/-- the list abstraction of `Session.lean` is sound: as long as every error text fits the buffer, reading reply after
reply from the BYTES the receiver wrote yields exactly the records it sent, in order -/
theorem readAll_wire (bufsz : Nat) (rs : List (Option Str)) (h : ∀ r ∈ rs, Fits bufsz r) :
    readAll bufsz rs.length (wire rs) = rs.map decode := by
  induction rs with
  | nil => simp [readAll]
  | cons r rs ih =>
    have h1 := response_wire bufsz r (wire rs) (h r (by simp))
    have h2 := ih (fun x hx => h x (by simp [hx]))
    simp [readAll, wire, h1, h2]

/-- an error text too long for the buffer: the client sees the head, the TAIL stays in the stream (and is what the
next `pcp_response` reads as the reply to the next record) -/
theorem response_wire_long (bufsz : Nat) (msg rest : Str) (h10 : ∀ c ∈ msg, c ≠ 10) (hlen : bufsz - 1 ≤ msg.length) :
    response bufsz (wireReply (some msg) ++ rest) =
      some (.fatal (msg.take (bufsz - 1)), msg.drop (bufsz - 1) ++ 10 :: rest) := by
  have hl := readLine_long msg (bufsz - 1) rest h10 hlen
  simp [wireReply, response, hl]

/-- non-vacuity: two error records and a positive reply through a buffer that holds them ... -/
example : readAll 8 3 (wire [some [65, 66], none, some [67]]) = [.fatal [65, 66, 10], .ok, .fatal [67, 10]] := by decide

/-- ... and through one that is too small for the first: FOUR replies' worth of calls see a cut record, its tail as an
"error" of its own, and everything after it one call late -/
example : readAll 4 3 (wire [some [65, 66, 67, 68], none, some [67]]) = [.fatal [65, 66, 67], .error [68, 10], .ok] := by
  decide

end PdshVerif.Pcp
