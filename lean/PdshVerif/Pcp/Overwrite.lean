import PdshVerif.Pcp.RoundTrip

/-! # A regular file that already exists on the target is REPLACED, not patched  (C11: "identical ... byte contents")

`feed_C` (Pcp/RoundTrip.lean) is about a name that is not yet present.  Here the name is taken by a regular file
with arbitrary old contents -- shorter, longer by one byte, longer by blocks: `open(O_WRONLY|O_CREAT)` without
`O_TRUNC` keeps them, the data loop overwrites from offset 0, and it is the final `ftruncate(ofd, size)` that cuts
the old tail off (pcp_server.c; the seeded changes C11-1, C11-7, C11-10 all break exactly that step, for a new
size of 0, of a block multiple, or for an old file barely longer than the new one).  Result: the file holds
exactly the bytes sent, whatever it held before; its mode is the old one, or with -p the one sent (`fchmod` on an
existing file); a pending `T` record sets its time; the parent directory is not touched. -/
namespace PdshVerif.Pcp
open PdshVerif.Gen

variable {o : Opts}

theorem resize_overwrite (old w : Str) : resize (overwrite old w) w.length = w := by
  simp [resize, overwrite]

/-- end of the data of a file that EXISTED (any old contents) and fits the file size limit: it holds exactly `w` -/
theorem afterData_over {st : St} {p : Path} {np : Str} {mode : Nat} {tm : Option Time} {old : Str} {count : Nat}
    {pr wr w : Str} (hfit : o.fitsB w.length = true) (hf : st.fs p = some (.file mode tm old))
    (hw : (if count ≠ 0 then pr ++ wr else wr) = w.reverse) :
    afterData o st p np (w.length : Int) count pr wr =
      { st with fs := st.fs.set p (.file mode none w), phase := .resp np .no } := by
  obtain ⟨f1, f2, f3⟩ := fits_facts hfit
  unfold afterData
  have hlt : ¬ ((w.length : Int) < 0) := by omega
  simp only [collected, hw, List.reverse_reverse, hlt, ↓reduceIte, Int.toNat_natCast, f1, f2, f3,
    Bool.false_eq_true]
  congr 1
  by_cases he : w = []
  · subst he
    simp only [List.isEmpty_nil, ↓reduceIte, List.length_nil]
    have h1 : fileData st.fs p = old := by simp [fileData, hf]
    rw [h1, setData_of_file hf]
    simp [resize]
  · have hne : w.isEmpty = false := by simpa using he
    simp only [hne, Bool.false_eq_true, ↓reduceIte]
    have h1 : fileData st.fs p = old := by simp [fileData, hf]
    have h2 : setData st.fs p (overwrite old w) = st.fs.set p (.file mode none (overwrite old w)) :=
      setData_of_file hf _
    rw [h1, h2]
    have h3 : fileData (st.fs.set p (.file mode none (overwrite old w))) p = overwrite old w := by
      simp [fileData, set_self]
    rw [h3, resize_overwrite, setData_of_file (set_self _ _ _), set_set]

theorem openCreat_exists {fs : FS} {cwd : Path} {s : Str} {p : Path} {om : Nat} {ot : Option Time} {od : Str}
    (mode um : Nat) (hr : resolve fs cwd s = some p) (hf : fs p = some (.file om ot od))
    (ht : trailingSlash s = false) : openCreat fs cwd s mode um = some (fs, p, false) := by
  unfold openCreat
  rw [hr]
  simp [hf, ht]

/-- the mode of an existing file after `open`: kept, or with -p the one sent (`fchmod`) -/
def overMode (o : Opts) (om mode : Nat) : Nat := if o.preserve then mode % 4096 else om

theorem handleFile_over {st : St} {np : Str} {p : Path} {om : Nat} {ot : Option Time} {od : Str} (mode : Nat)
    (size : Int) (hr : resolve st.fs o.cwd np = some p) (hf : st.fs p = some (.file om ot od))
    (ht : trailingSlash np = false) :
    handleFile o st np mode size =
      if size ≤ 0 then
        afterData o { st with fs := st.fs.set p (.file (overMode o om mode) ot od),
                              touched := p :: st.touched, out := .ack :: st.out }
          p np size 0 [] []
      else
        { st with fs := st.fs.set p (.file (overMode o om mode) ot od),
                  touched := p :: st.touched, out := .ack :: st.out,
                  phase := .data p np size size.toNat (min BUFSZ size.toNat) (min BUFSZ size.toNat) 0 [] [] } := by
  unfold handleFile
  have hfs : (if ((stat st.fs o.cwd np).isSome && o.preserve) = true then fchmodAt st.fs p mode else st.fs) =
      st.fs.set p (.file (overMode o om mode) ot od) := by
    rw [stat_some hr hf ht]
    cases hp : o.preserve with
    | true =>
      simp only [Option.isSome_some, Bool.and_self, ↓reduceIte, overMode, hp]
      funext x
      by_cases e : x = p
      · subst e; simp [fchmodAt, hf, FS.set, Node.setMode]
      · simp [fchmodAt, FS.set, e]
    | false =>
      simp only [Bool.and_false, Bool.false_eq_true, ↓reduceIte, overMode, hp]
      exact (set_same _ _ _ hf).symm
  simp only [openCreat_exists mode o.eumask hr hf ht]
  rw [hfs]
  rfl

/-- **An existing regular file is replaced.**  At a record boundary inside a directory, the name `n` being taken
by a regular file with ANY old contents `od`: the bytes `C<mode> <size> <name>\n <data> \0` leave exactly `d` in
it, are acknowledged twice, touch only `q/name`; the parent directory is not modified. -/
theorem feed_C_over (hc : CntOk o) {st : St} {f : Frame} {rest : List Frame} {q : Path}
    (hph : st.phase = .start) (hs : st.stack = f :: rest) (htd : f.targisdir = true)
    (hr : resolve st.fs o.cwd f.targ = some q) (hd : st.fs.isDir q = true)
    {n : Str} (hn : GoodName n) {om : Nat} {ot : Option Time} {od : Str}
    (hold : st.fs (q ++ [n]) = some (.file om ot od))
    (hlen : f.targ.length + n.length + 1 < PCP_PATH_MAX)
    (m : Nat) (d : Str) (hsz : d.length < 2 ^ 63) (hfit : o.fitsB d.length = true)
    (hus : usecOk f.atm = true ∧ usecOk f.mt = true) :
    (cRecord m d.length n ++ d ++ [0]).foldl (step o) st =
      { st with
        fs := st.fs.set (q ++ [n]) (.file (overMode o om (m &&& RCP_MODEMASK))
                (if f.setimes then some f.mt else none) d)
        out := .ack :: .ack :: st.out
        touched := (if f.setimes then [q ++ [n]] else []) ++ (q ++ [n]) :: st.touched
        stack := { f with setimes := false } :: rest
        phase := .start } := by
  have hB := BUFSZ_eq
  obtain ⟨hnl, _, hlen2⟩ := ctlBody_props (m &&& RCP_MODEMASK) d.length hn hsz
  rw [List.foldl_append, List.foldl_append, cRecord_eq,
    foldl_line st hph cC _ (by decide) hnl hlen2,
    handleRecord_ctl hs (classify_ctl cC (Or.inl rfl) _ _ hn (and_mask_lt m) hsz)
      (nameOk_plain _ hn.plain) htd]
  have hbeq : (cC == cD) = false := by decide
  simp only [hbeq, Bool.false_eq_true, ↓reduceIte]
  have hrj := resolve_join hr hd hn.plain hn.short hlen
  rw [handleFile_over _ _ hrj hold (trailingSlash_join _ hn.plain)]
  generalize hfs2 : st.fs.set (q ++ [n]) (Node.file (overMode o om (m &&& RCP_MODEMASK)) ot od) = fs2
  have hfs2p : fs2 (q ++ [n]) = some (.file (overMode o om (m &&& RCP_MODEMASK)) ot od) := by
    rw [← hfs2]; exact set_self _ _ _
  have hdata : d.foldl (step o)
      (if (d.length : Int) ≤ 0 then
        afterData o { st with fs := fs2, touched := (q ++ [n]) :: st.touched, out := .ack :: st.out }
          (q ++ [n]) (joinName f.targ n) d.length 0 [] []
      else
        { st with fs := fs2, touched := (q ++ [n]) :: st.touched, out := .ack :: st.out,
                  phase := .data (q ++ [n]) (joinName f.targ n) d.length (d.length : Int).toNat
                    (min BUFSZ (d.length : Int).toNat) (min BUFSZ (d.length : Int).toNat) 0 [] [] }) =
      { st with fs := fs2.set (q ++ [n]) (.file (overMode o om (m &&& RCP_MODEMASK)) none d),
                touched := (q ++ [n]) :: st.touched, out := .ack :: st.out,
                phase := .resp (joinName f.targ n) .no } := by
    by_cases hd0 : d = []
    · subst hd0
      simp only [List.length_nil, Int.natCast_zero, Int.le_refl, ↓reduceIte, List.foldl_nil]
      exact afterData_over (w := []) hfit hfs2p (by simp)
    · have hpos : 0 < d.length := List.length_pos_iff.2 hd0
      have hnle : ¬ ((d.length : Int) ≤ 0) := by omega
      simp only [hnle, ↓reduceIte, Int.toNat_natCast]
      obtain ⟨c', pr', wr', he, hw⟩ := foldl_data hc d
        { st with fs := fs2, touched := (q ++ [n]) :: st.touched, out := .ack :: st.out,
                  phase := .data (q ++ [n]) (joinName f.targ n) d.length d.length
                    (min BUFSZ d.length) (min BUFSZ d.length) 0 [] [] }
        (q ++ [n]) (joinName f.targ n) d.length d.length
        (min BUFSZ d.length) (min BUFSZ d.length) 0 [] [] rfl (by
          have h1 := hc.pos
          have h2 := hc.mult
          simp only [phaseOk, BUFSZ_eq] at *
          exact ⟨by omega, by omega, by omega, by omega, fun hlt => by omega⟩) rfl rfl
      rw [he]
      exact afterData_over hfit hfs2p (by simpa using hw)
  rw [hdata]
  simp only [List.foldl_cons, List.foldl_nil]
  unfold step
  simp only [↓reduceIte]
  unfold afterResponse
  simp only [hs]
  have hset : fs2.set (q ++ [n]) (.file (overMode o om (m &&& RCP_MODEMASK)) none d) =
      st.fs.set (q ++ [n]) (.file (overMode o om (m &&& RCP_MODEMASK)) none d) := by
    rw [← hfs2, set_set]
  by_cases hset' : f.setimes = true
  · simp only [hset', beq_self_eq_true, Bool.and_self, ↓reduceIte]
    have hmono : DirMono st.fs (fs2.set (q ++ [n]) (.file (overMode o om (m &&& RCP_MODEMASK)) none d)) := by
      rw [hset]
      intro x hx
      by_cases e : x = q ++ [n]
      · subst e
        simp [FS.isDir, hold, Node.isDir] at hx
      · simp only [FS.isDir, set_other _ _ _ _ e] at hx ⊢
        exact hx
    have hstat : stat (fs2.set (q ++ [n]) (.file (overMode o om (m &&& RCP_MODEMASK)) none d)) o.cwd
        (joinName f.targ n) = some (q ++ [n], .file (overMode o om (m &&& RCP_MODEMASK)) none d) :=
      stat_some (resolve_mono hmono hrj) (set_self _ _ _) (trailingSlash_join _ hn.plain)
    have hut : utimes (fs2.set (q ++ [n]) (.file (overMode o om (m &&& RCP_MODEMASK)) none d)) o.cwd
        (joinName f.targ n) f.atm f.mt =
        some (st.fs.set (q ++ [n]) (.file (overMode o om (m &&& RCP_MODEMASK)) (some f.mt) d), q ++ [n]) := by
      unfold utimes
      simp only [hus.1, hus.2, Bool.and_self, Bool.not_true, Bool.false_eq_true, ↓reduceIte, hstat,
        Node.setMtime]
      rw [hset, set_set]
    simp only [doUtimes, hut, ↓reduceIte, St.reply, List.cons_append, List.nil_append]
  · have hf' : f.setimes = false := by simpa using hset'
    have hfe : ({ f with setimes := false } : Frame) = f := by cases f; simp_all
    simp only [hf', Bool.false_and, Bool.false_eq_true, ↓reduceIte, St.reply, hset, List.nil_append]
    rw [hfe]

end PdshVerif.Pcp
