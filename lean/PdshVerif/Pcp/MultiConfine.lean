import PdshVerif.Pcp.Multi
import PdshVerif.Pcp.Confine

/-! # Confinement for several receivers in one process  (C12, entry point `dsh.c _pcp_server`: the rpdcp threads)

The confinement invariant `Good` (Pcp/Confine.lean) speaks about a receiver's own state only -- the paths it has
touched, the targets of its directory levels, the file in transfer -- not about the file system.  So in the
product automaton `Multi` (K receivers, one shared file system, any interleaving of their inputs) the events of the
other receivers cannot disturb it: every receiver stays `Good` with respect to ITS destination. -/
namespace PdshVerif.Pcp

/-- `Good` does not look at the file system -/
theorem good_ofLoc {o : Opts} {fs fs' : FS} {l : Local} (h : Good o (St.ofLoc fs l)) : Good o (St.ofLoc fs' l) :=
  ⟨h.touched, h.stack, h.phase⟩

/-- every receiver of the process is `Good` for its own options -/
def MGood (os : List Opts) (m : Multi) : Prop :=
  ∀ (i : Nat) (o : Opts) (l : Local), os[i]? = some o → m.conns[i]? = some l → Good o (St.ofLoc m.fs l)

theorem mgood_stepAt (os : List Opts) (hr : ∀ o ∈ os, o.rule ≠ .none) (m : Multi) (h : MGood os m) (e : Event) :
    MGood os (m.stepAt os e) := by
  unfold MGood at h ⊢
  unfold Multi.stepAt
  split
  · rename_i o l ho hl
    have hi : e.1 < m.conns.length := by
      rcases Nat.lt_or_ge e.1 m.conns.length with h' | h'
      · exact h'
      · rw [List.getElem?_eq_none h'] at hl; cases hl
    have hro : o.rule ≠ .none := hr o (List.mem_of_getElem? ho)
    have hg : Good o (St.ofLoc m.fs l) := h e.1 o l ho hl
    intro i o' l' ho' hl'
    simp only [List.getElem?_set] at hl'
    by_cases hie : e.1 = i
    · subst hie
      rw [ho] at ho'
      cases ho'
      simp only [if_true, hi] at hl'
      cases hl'
      cases hb : e.2 with
      | some b =>
        simp only
        have := good_step hro hg b
        exact this
      | none =>
        simp only
        exact good_finish hg
    · simp only [if_neg hie] at hl'
      exact good_ofLoc (h i o' l' ho' hl')
  · exact h

theorem mgood_run (os : List Opts) (hr : ∀ o ∈ os, o.rule ≠ .none) (sched : List Event) (m : Multi)
    (h : MGood os m) : MGood os (m.run os sched) := by
  induction sched generalizing m with
  | nil => exact h
  | cons e es ih =>
    simp only [Multi.run, List.foldl_cons]
    exact ih (m.stepAt os e) (mgood_stepAt os hr m h e)

theorem mgood_init (os : List Opts) (fs : FS) : MGood os (Multi.init os fs) := by
  unfold MGood
  intro i o l ho hl
  simp only [Multi.init, List.getElem?_map, ho, Option.map_some, Option.some.injEq] at hl
  subst hl
  have hg : Good o (enter o (St.init fs) o.dest) := good_enter (good_init o fs) (under_dest o)
  exact ⟨hg.touched, hg.stack, hg.phase⟩

end PdshVerif.Pcp
