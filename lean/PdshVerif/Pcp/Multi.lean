import PdshVerif.Pcp.Sink

/-! # Several receivers in one process (rpdcp: one `pcp_server()` thread per target)

The receivers of an `rpdcp` run are threads of one process working on ONE file system.  Everything else
of a receiver -- its reply stream, its stack of directory levels, its parser state -- belongs to its
connection (`struct pcp_server` and the locals of `_sink`; nothing in pcp_server.c may be shared between
calls).  The product automaton below makes that explicit: the state is the shared file system plus one
`Local` per connection, an event is "byte `b` arrives on connection `i`" or "connection `i` is closed",
and an event of connection `i` runs the single-receiver `step`/`finish` on (shared fs, local `i`).
-/
namespace PdshVerif.Pcp

/-- what belongs to one connection -/
structure Local where
  out : List Reply
  touched : List Path
  stack : List Frame
  phase : Phase
  ub : Bool

def St.loc (st : St) : Local :=
  { out := st.out, touched := st.touched, stack := st.stack, phase := st.phase, ub := st.ub }

def St.ofLoc (fs : FS) (l : Local) : St :=
  { fs := fs, out := l.out, touched := l.touched, stack := l.stack, phase := l.phase, ub := l.ub }

theorem St.ofLoc_loc (st : St) : St.ofLoc st.fs st.loc = st := rfl

structure Multi where
  fs : FS
  conns : List Local

/-- an event on connection `i`: `some b` = a byte arrives, `none` = the peer closes -/
abbrev Event := Nat × Option UInt8

def Multi.stepAt (os : List Opts) (m : Multi) (e : Event) : Multi :=
  match os[e.1]?, m.conns[e.1]? with
  | some o, some l =>
    let st' := match e.2 with
      | some b => step o (St.ofLoc m.fs l) b
      | none => finish o (St.ofLoc m.fs l)
    { fs := st'.fs, conns := m.conns.set e.1 st'.loc }
  | _, _ => m

/-- every receiver has answered the greeting (`enter` does not modify the file system) -/
def Multi.init (os : List Opts) (fs : FS) : Multi :=
  { fs := fs, conns := os.map fun o => (enter o (St.init fs) o.dest).loc }

def Multi.run (os : List Opts) (m : Multi) (sched : List Event) : Multi :=
  sched.foldl (Multi.stepAt os) m

/-- the events of one stream on connection `i`, then its end -/
def soloSched (i : Nat) (stream : Str) : List Event :=
  stream.map (fun b => (i, some b)) ++ [(i, none)]

theorem stepAt_other (os : List Opts) (m : Multi) (e : Event) (j : Nat) (h : j ≠ e.1) :
    (m.stepAt os e).conns[j]? = m.conns[j]? := by
  unfold Multi.stepAt
  split
  · simp only [List.getElem?_set]
    rw [if_neg (fun e' => h e'.symm)]
  · rfl

theorem run_other (os : List Opts) (j : Nat) (sched : List Event) (h : ∀ e ∈ sched, e.1 ≠ j) (m : Multi) :
    (m.run os sched).conns[j]? = m.conns[j]? := by
  induction sched generalizing m with
  | nil => rfl
  | cons e es ih =>
    have := ih (fun e' he' => h e' (List.mem_cons_of_mem _ he')) (m.stepAt os e)
    simp only [Multi.run, List.foldl_cons] at this ⊢
    rw [this]
    exact stepAt_other os m e j (fun e' => h e (List.mem_cons_self ..) e'.symm)

theorem run_bytes (os : List Opts) (i : Nat) (o : Opts) (ho : os[i]? = some o) (stream : Str) (m : Multi)
    (l : Local) (hl : m.conns[i]? = some l) :
    (m.run os (stream.map fun b => (i, some b))).fs = (stream.foldl (step o) (St.ofLoc m.fs l)).fs ∧
    (m.run os (stream.map fun b => (i, some b))).conns[i]? =
      some (stream.foldl (step o) (St.ofLoc m.fs l)).loc := by
  induction stream generalizing m l with
  | nil => exact ⟨rfl, hl⟩
  | cons b bs ih =>
    have hi : i < m.conns.length := by
      rcases Nat.lt_or_ge i m.conns.length with h | h
      · exact h
      · rw [List.getElem?_eq_none h] at hl; cases hl
    have hs : m.stepAt os (i, some b) =
        { fs := (step o (St.ofLoc m.fs l) b).fs, conns := m.conns.set i (step o (St.ofLoc m.fs l) b).loc } := by
      simp only [Multi.stepAt, ho, hl]
    have := ih (m.stepAt os (i, some b)) (step o (St.ofLoc m.fs l) b).loc (by
      rw [hs]; simp only [List.getElem?_set, hi, if_true])
    simp only [Multi.run, List.map_cons, List.foldl_cons] at this ⊢
    rw [hs] at this ⊢
    exact this

end PdshVerif.Pcp
