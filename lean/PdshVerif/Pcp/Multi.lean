import PdshVerif.Pcp.Sink

/-! # Several receivers in one process (rpdcp: one `pcp_server()` thread per target)

The receivers of an `rpdcp` run are threads of one process working on ONE file system.  Everything else
of a receiver -- its reply stream, its stack of directory levels, its parser state -- belongs to its
connection (`struct pcp_server` and the locals of `_sink`; nothing in pcp_server.c may be shared between
calls).  The product automaton below makes that explicit: the state is the shared file system plus one
`Local` per connection, an event is "byte `b` arrives on connection `i`" or "connection `i` is closed",
and an event of connection `i` runs the single-receiver `step`/`finish` on (shared fs, local `i`).
-/
namespace PdshVerif.Pcp

/-- what belongs to one connection -/
structure Local where
  out : List Reply
  touched : List Path
  stack : List Frame
  phase : Phase
  ub : Bool

def St.loc (st : St) : Local :=
  { out := st.out, touched := st.touched, stack := st.stack, phase := st.phase, ub := st.ub }

def St.ofLoc (fs : FS) (l : Local) : St :=
  { fs := fs, out := l.out, touched := l.touched, stack := l.stack, phase := l.phase, ub := l.ub }

theorem St.ofLoc_loc (st : St) : St.ofLoc st.fs st.loc = st := rfl

structure Multi where
  fs : FS
  conns : List Local
  /-- pcp_server.c `_error()`: `static FILE *fp` -- the one cell all receivers of the process share: the
  connection whose reply stream was opened last -/
  fp : Nat := 0

/-- replies added by a step, oldest first (`out` is kept newest first) -/
def newReplies (before after : List Reply) : List Reply :=
  (after.take (after.length - before.length)).reverse

def isErr : Reply → Bool
  | .err _ => true
  | .ack => false

/-- an event on connection `i`: `some b` = a byte arrives, `none` = the peer closes -/
abbrev Event := Nat × Option UInt8

def Multi.stepAt (os : List Opts) (m : Multi) (e : Event) : Multi :=
  match os[e.1]?, m.conns[e.1]? with
  | some o, some l =>
    let st' := match e.2 with
      | some b => step o (St.ofLoc m.fs l) b
      | none => finish o (St.ofLoc m.fs l)
    { fs := st'.fs, conns := m.conns.set e.1 st'.loc,
      fp := if (newReplies l.out st'.out).any isErr then e.1 else m.fp }
  | _, _ => m

/-- every receiver has answered the greeting (`enter` does not modify the file system) -/
def Multi.init (os : List Opts) (fs : FS) : Multi :=
  { fs := fs, conns := os.map fun o => (enter o (St.init fs) o.dest).loc }

def Multi.run (os : List Opts) (m : Multi) (sched : List Event) : Multi :=
  sched.foldl (Multi.stepAt os) m

/-- the events of one stream on connection `i`, then its end -/
def soloSched (i : Nat) (stream : Str) : List Event :=
  stream.map (fun b => (i, some b)) ++ [(i, none)]

theorem stepAt_other (os : List Opts) (m : Multi) (e : Event) (j : Nat) (h : j ≠ e.1) :
    (m.stepAt os e).conns[j]? = m.conns[j]? := by
  unfold Multi.stepAt
  split
  · simp only [List.getElem?_set]
    rw [if_neg (fun e' => h e'.symm)]
  · rfl

theorem run_other (os : List Opts) (j : Nat) (sched : List Event) (h : ∀ e ∈ sched, e.1 ≠ j) (m : Multi) :
    (m.run os sched).conns[j]? = m.conns[j]? := by
  induction sched generalizing m with
  | nil => rfl
  | cons e es ih =>
    have := ih (fun e' he' => h e' (List.mem_cons_of_mem _ he')) (m.stepAt os e)
    simp only [Multi.run, List.foldl_cons] at this ⊢
    rw [this]
    exact stepAt_other os m e j (fun e' => h e (List.mem_cons_self ..) e'.symm)

theorem run_bytes (os : List Opts) (i : Nat) (o : Opts) (ho : os[i]? = some o) (stream : Str) (m : Multi)
    (l : Local) (hl : m.conns[i]? = some l) :
    (m.run os (stream.map fun b => (i, some b))).fs = (stream.foldl (step o) (St.ofLoc m.fs l)).fs ∧
    (m.run os (stream.map fun b => (i, some b))).conns[i]? =
      some (stream.foldl (step o) (St.ofLoc m.fs l)).loc := by
  induction stream generalizing m l with
  | nil => exact ⟨rfl, hl⟩
  | cons b bs ih =>
    have hi : i < m.conns.length := by
      rcases Nat.lt_or_ge i m.conns.length with h | h
      · exact h
      · rw [List.getElem?_eq_none h] at hl; cases hl
    have hs : m.stepAt os (i, some b) =
        { fs := (step o (St.ofLoc m.fs l) b).fs, conns := m.conns.set i (step o (St.ofLoc m.fs l) b).loc,
          fp := if (newReplies l.out (step o (St.ofLoc m.fs l) b).out).any isErr then i else m.fp } := by
      simp only [Multi.stepAt, ho, hl]
    have := ih (m.stepAt os (i, some b)) (step o (St.ofLoc m.fs l) b).loc (by
      rw [hs]; simp only [List.getElem?_set, hi, if_true])
    simp only [Multi.run, List.map_cons, List.foldl_cons] at this ⊢
    rw [hs] at this ⊢
    exact this

/-! ## Two `_error()` calls at the same time

`stepAt` is atomic: a receiver that reports an error opens its reply stream (`fp = fdopen(outfd)`), formats
and writes the record without any other receiver running in between -- the schedules in which no two
`_error()` calls overlap.  `overlapAt` is the other kind of schedule: receiver `a` has opened its stream
for the first error of this step and is then overtaken by the events `inner` of other receivers before it
writes.  With the shared cell (`sharedFp`, the unchanged code) the record goes to whatever stream the cell
refers to by then; with an automatic variable (the repair) to `a`'s own.  Simplification: the effects of
`a`'s step on the file system are applied before `inner` (the paths that reach `_error` have none after
it); later errors of the same step are separate, non-overlapped `_error()` calls. -/

/-- deliver a reply to connection `i` -/
def deliver (conns : List Local) (i : Nat) (r : Reply) : List Local :=
  match conns[i]? with
  | some l => conns.set i { l with out := r :: l.out }
  | none => conns

def Multi.overlapAt (sharedFp : Bool) (os : List Opts) (m : Multi) (ea : Event) (inner : List Event) : Multi :=
  match os[ea.1]?, m.conns[ea.1]? with
  | some o, some l =>
    let st' := match ea.2 with
      | some b => step o (St.ofLoc m.fs l) b
      | none => finish o (St.ofLoc m.fs l)
    let new := newReplies l.out st'.out
    match new.span (fun r => !isErr r) with
    | (_, []) => (m.stepAt os ea).run os inner          -- no error in this step: nothing to overlap
    | (pre, r :: post) =>
      -- `a` has written `pre`, has executed `fp = fdopen(a.outfd)` and is overtaken
      let parkedLoc : Local := { st'.loc with out := pre.reverse ++ l.out }
      let m1 : Multi := { fs := st'.fs, conns := m.conns.set ea.1 parkedLoc, fp := ea.1 }
      let m2 := m1.run os inner
      -- `a` continues: the record goes through `fp`
      let c3 := deliver m2.conns (if sharedFp then m2.fp else ea.1) r
      { m2 with conns := post.foldl (fun cs r' => deliver cs ea.1 r') c3,
                fp := if post.any isErr then ea.1 else m2.fp }
  | _, _ => m.run os inner

theorem deliver_other (conns : List Local) (i j : Nat) (r : Reply) (h : j ≠ i) :
    (deliver conns i r)[j]? = conns[j]? := by
  unfold deliver
  split
  · simp only [List.getElem?_set]
    rw [if_neg (fun e => h e.symm)]
  · rfl

theorem deliver_foldl_other (i j : Nat) (h : j ≠ i) (rs : List Reply) (conns : List Local) :
    (rs.foldl (fun cs r' => deliver cs i r') conns)[j]? = conns[j]? := by
  induction rs generalizing conns with
  | nil => rfl
  | cons r rs ih => rw [List.foldl_cons, ih, deliver_other _ _ _ _ h]

/-- with the repaired `_error()` an overlapped step of `a` and the events of the receivers overtaking it
leave every other connection untouched -/
theorem overlapAt_other (os : List Opts) (m : Multi) (ea : Event) (inner : List Event) (j : Nat)
    (ha : j ≠ ea.1) (hin : ∀ e ∈ inner, e.1 ≠ j) :
    (m.overlapAt false os ea inner).conns[j]? = m.conns[j]? := by
  unfold Multi.overlapAt
  split
  · rename_i o l ho hl
    dsimp only
    split
    · rw [run_other os j inner hin, stepAt_other os m ea j ha]
    · simp only [Bool.false_eq_true, if_false]
      rw [deliver_foldl_other _ _ ha, deliver_other _ _ _ _ ha, run_other os j inner hin]
      simp only [List.getElem?_set]
      rw [if_neg (fun e => ha e.symm)]
  · exact run_other os j inner hin m

end PdshVerif.Pcp
