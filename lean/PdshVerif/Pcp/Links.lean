import PdshVerif.Pcp.Confine

/-! # Symbolic links that already exist inside the destination  (C12: "never follows a received name out of it")

The file-system model (Pcp/FS.lean) has no symbolic links.  The receiver uses `stat`, `open(O_CREAT)`,
`chmod`, `utimes` -- all of which FOLLOW a symbolic link in any component, the last one included -- and
`mkdir`, which follows links in every component but the last.  A link-free model can therefore describe a
file system WITH links by translation, as long as the receiver only ever walks downwards (which is what the
name rule of the repaired receiver guarantees: no `/`, not `..`):

* `graft fs ln tgt` is the link-free VIEW of a file system in which the path `ln` is a symbolic link to the
  file or directory at `tgt`: whatever is at `tgt ++ rest` is also seen at `ln ++ rest`.  (A dangling link is a
  `tgt` where nothing is: `open(O_CREAT)` through it creates `tgt`.)
* the receiver model runs on the view; `physical ln tgt p` says where an apparent path `p` really is, and
  `physLook` reads the real file system after the run: what was written through the link is found at the link.

The translation itself -- that the kernel with the link behaves like the model on the view -- is tested by
the correspondence (checks/c12.py feeds the REAL receiver jails that contain such links and compares replies and
the whole file system with `pdshmodel pcp sinkl`); the only system call that distinguishes the two is
`mkdir` on the link itself (EEXIST for a dangling link), which the generator of those cases avoids.

Proved here and in Props/C12.lean (`escapes_only_through_links`): the receiver with a name rule leaves its
destination ONLY through links that were already there, and then lands beneath the link's target.  That it does
follow them (`symlink_escape_witness`) is finding F12-SYMLINK-FOLLOW; the repaired receiver (`lstat`,
`O_NOFOLLOW`) treats a link as something in the way, which the link-free model expresses by a blocking node.
-/
namespace PdshVerif.Pcp

/-- the link-free view of `fs` with a symbolic link at `ln` pointing to `tgt` -/
def graft (fs : FS) (ln tgt : Path) : FS := fun q =>
  if ln.isPrefixOf q then fs (tgt ++ q.drop ln.length) else fs q

/-- where the apparent path `q` really is -/
def physical (ln tgt : Path) (q : Path) : Path :=
  if ln.isPrefixOf q then tgt ++ q.drop ln.length else q

/-- several links (none inside another's target or below another link) -/
def graftAll (fs : FS) (links : List (Path × Path)) : FS :=
  links.foldl (fun f l => graft f l.1 l.2) fs

def physicalAll (links : List (Path × Path)) (q : Path) : Path :=
  match links.find? (fun l => l.1.isPrefixOf q) with
  | some l => l.2 ++ q.drop l.1.length
  | none => q

/-- the node at the PHYSICAL path `q` when the apparent file system is `fs'`: paths beneath a link's target
were reached, if at all, through the link -/
def physLook (fs' : FS) (links : List (Path × Path)) (q : Path) : Option Node :=
  match links.find? (fun l => l.2.isPrefixOf q) with
  | some l => fs' (l.1 ++ q.drop l.2.length)
  | none => fs' q

theorem graft_nil (fs : FS) : graftAll fs [] = fs := rfl

theorem physical_not_under {ln tgt q : Path} (h : ln.isPrefixOf q = false) : physical ln tgt q = q := by
  simp [physical, h]

theorem physical_under {ln tgt q : Path} (h : ln.isPrefixOf q = true) : tgt <+: physical ln tgt q := by
  simp only [physical, h, ↓reduceIte]
  exact List.prefix_append _ _

/-- an apparent path beneath `dest` is physically beneath `dest` or beneath the link's target -/
theorem physical_beneath {dest ln tgt p : Path} (h : dest <+: p) :
    dest <+: physical ln tgt p ∨ tgt <+: physical ln tgt p := by
  cases hl : ln.isPrefixOf p with
  | true => exact Or.inr (physical_under hl)
  | false => rw [physical_not_under hl]; exact Or.inl h

/-- with several links: beneath `dest` or beneath the target of one of them -/
theorem physicalAll_beneath {dest p : Path} (links : List (Path × Path)) (h : dest <+: p) :
    dest <+: physicalAll links p ∨ ∃ l ∈ links, l.2 <+: physicalAll links p := by
  unfold physicalAll
  cases hf : links.find? (fun l => l.1.isPrefixOf p) with
  | none => exact Or.inl h
  | some l =>
    right
    exact ⟨l, List.mem_of_find?_eq_some hf, List.prefix_append _ _⟩

/-- a link that is not beneath the destination is never seen: the view and the file system agree beneath the
destination -/
theorem graft_outside {fs : FS} {ln tgt dest q : Path} (hq : dest <+: q) (hl : ¬ dest <+: ln)
    (hd : ¬ ln <+: dest) : graft fs ln tgt q = fs q := by
  unfold graft
  cases h : ln.isPrefixOf q with
  | false => simp
  | true =>
    exfalso
    have h1 : ln <+: q := List.isPrefixOf_iff_prefix.1 h
    rcases List.prefix_or_prefix_of_prefix hq h1 with h2 | h2
    · exact hl h2
    · exact hd h2

end PdshVerif.Pcp
