import PdshVerif.Pcp.PacedTree
import PdshVerif.Pcp.Isolated

/-! # A directory the target refuses (repaired client, `COpts.skipRefused`)

A regular file of the directory's name is in the way on the target: the `D` record is answered by one
error record and the receiver stays where it is.  The repaired client then skips the list elements of that
directory up to and including its leave-directory sentinel, so the dialogue is back in step, at the same
level, with nothing of the subtree sent. -/
namespace PdshVerif.Pcp
open PdshVerif.Gen

variable {o : Opts}

/-- **A `D` record for a name that is a regular file on the target**: one error record, nothing else
changes; the level continues at the next record. -/
theorem feed_D_blocked {st : St} {f : Frame} {rest : List Frame} {q : Path}
    (hph : st.phase = .start) (hs : st.stack = f :: rest) (htd : f.targisdir = true)
    (hr : resolve st.fs o.cwd f.targ = some q) (hd : st.fs.isDir q = true)
    {n : Str} (hn : GoodName n) {fm : Nat} {ft : Option Time} {fd : Str}
    (hblk : st.fs (q ++ [n]) = some (.file fm ft fd))
    (hlen : f.targ.length + n.length + 1 < PCP_PATH_MAX) (m : Nat) :
    (dRecord m n).foldl (step o) st = { st with out := .err .path :: st.out, phase := .start } := by
  obtain ⟨hnl, _, hlen2⟩ := ctlBody_props (m &&& RCP_MODEMASK) 0 hn (by decide)
  rw [dRecord_eq, foldl_line st hph cD _ (by decide) hnl hlen2,
    handleRecord_ctl hs (classify_ctl cD (Or.inr rfl) _ _ hn (and_mask_lt m) (by decide))
      (nameOk_plain _ hn.plain) htd]
  have hbeq : (cD == cD) = true := by decide
  simp only [hbeq, ↓reduceIte]
  have hrj := resolve_join hr hd hn.plain hn.short hlen
  unfold handleDir
  simp only [stat_some hrj hblk (trailingSlash_join _ hn.plain), St.reply]

/-! ## the client -/

theorem read_err {s : Sess} {old : List Reply} {e : Err} (hc : s.consumed = old.length)
    (ho : s.st.out = .err e :: old) :
    s.read = (false, { s with consumed := s.consumed + 1, failed := true }) := by
  unfold Sess.read
  have : s.st.out.reverse[s.consumed]? = some (.err e) := by
    rw [ho, hc]
    simp
  rw [this]

/-- a stage answered by one error record: the read is negative, the client is still in step -/
theorem stage_refused {r : Bool × Sess} (h1 : r.1 = true) (h : InSync r.2) (bs : Str) (e : Err)
    (hout : (bs.foldl (step o) r.2.st).out = .err e :: r.2.st.out) :
    (sendStage o r bs).1 = false ∧ (sendStage o r bs).2.st = bs.foldl (step o) r.2.st ∧
    InSync (sendStage o r bs).2 ∧ (sendStage o r bs).2.failed = true := by
  obtain ⟨b, s⟩ := r
  simp only at h1 h hout ⊢
  subst h1
  have hr : sendStage o (true, s) bs = (false, { s.feed o bs with consumed := s.consumed + 1, failed := true }) := by
    unfold sendStage
    simp only [if_true]
    exact read_err (s := s.feed o bs) (old := s.st.out) h.cons hout
  rw [hr]
  refine ⟨rfl, rfl, ⟨h.dead, h.skip, ?_⟩, rfl⟩
  show s.consumed + 1 = (bs.foldl (step o) s.st).out.length
  rw [hout, h.cons]
  rfl

mutual
/-- in skipping mode the list elements of a tree leave the client as it is (every sub-directory is
counted and its sentinel counted off) -/
theorem skip_tree (so : SOpts) (co : COpts) (path : Str) (user : Bool) (t : Tree) (s : Sess)
    (hd : s.dead = false) (hk : 0 < s.skip) :
    (expandTree path user t).foldl (clientStep so co o) s = s := by
  have hnd : ¬ s.dead = true := by rw [hd]; simp
  cases t with
  | file m t a d =>
    simp only [expandTree, List.foldl_cons, List.foldl_nil, clientStep, if_neg hnd, if_pos hk]
    simp
  | dir m t a kids =>
    simp only [expandTree, List.foldl_cons, List.foldl_append, List.foldl_nil]
    have h1 : clientStep so co o s (.ent path user true m t a []) = { s with skip := s.skip + 1 } := by
      simp only [clientStep, if_neg hnd, if_pos hk, if_true]
    rw [h1, skip_kids so co path kids { s with skip := s.skip + 1 } hd (Nat.succ_pos _)]
    have h2 : ¬ ({ s with skip := s.skip + 1 } : Sess).dead = true := hnd
    simp only [clientStep, if_neg h2, Nat.succ_pos, if_true, Nat.add_sub_cancel]
theorem skip_kids (so : SOpts) (co : COpts) (path : Str) (kids : List (Str × Tree)) (s : Sess)
    (hd : s.dead = false) (hk : 0 < s.skip) :
    (expandKids path kids).foldl (clientStep so co o) s = s := by
  cases kids with
  | nil => rfl
  | cons nk r =>
    obtain ⟨n, k⟩ := nk
    simp only [expandKids, List.foldl_append]
    rw [skip_tree so co (path ++ cSlash :: n) false k s hd hk, skip_kids so co path r s hd hk]
end

/-- the list elements of a directory whose `D` record is refused, worked through by the repaired client:
the optional `T` record and the `D` record are sent, nothing else; the client is in step again -/
theorem refused_entries (so : SOpts) (co : COpts) (hco : co.skipRefused = true) {s : Sess} (h : InSync s)
    (path : Str) (user : Bool) (m t a : Nat) (kids : List (Str × Tree))
    (hns : ¬ (path = sentinelName && !(so.sentinelFix && user)) = true)
    (hT : Paced o s.st (if so.preserve then
      [tRecord (t / USEC) (if so.subsec then t % USEC else 0) (a / USEC) (if so.subsec then a % USEC else 0)] else []))
    (e : Err)
    (hD : ((dRecord m (xbasename (if so.reverse && user then path ++ cDot :: so.host else path))).foldl (step o)
            ((if so.preserve then
              [tRecord (t / USEC) (if so.subsec then t % USEC else 0) (a / USEC) (if so.subsec then a % USEC else 0)]
              else []).flatten.foldl (step o) s.st)).out =
          .err e :: ((if so.preserve then
              [tRecord (t / USEC) (if so.subsec then t % USEC else 0) (a / USEC) (if so.subsec then a % USEC else 0)]
              else []).flatten.foldl (step o) s.st).out) :
    InSync ((expandTree path user (.dir m t a kids)).foldl (clientStep so co o) s) ∧
    ((expandTree path user (.dir m t a kids)).foldl (clientStep so co o) s).failed = true ∧
    ((expandTree path user (.dir m t a kids)).foldl (clientStep so co o) s).st =
      (dRecord m (xbasename (if so.reverse && user then path ++ cDot :: so.host else path))).foldl (step o)
        ((if so.preserve then
          [tRecord (t / USEC) (if so.subsec then t % USEC else 0) (a / USEC) (if so.subsec then a % USEC else 0)]
          else []).flatten.foldl (step o) s.st) := by
  have hnd : ¬ s.dead = true := by rw [h.dead]; simp
  have hnk : ¬ 0 < s.skip := by rw [h.skip]; simp
  -- `pcp_sendfile` on the directory entry
  have key : (sendfileOne so o s path user true m t a []).1 = false ∧
      InSync (sendfileOne so o s path user true m t a []).2 ∧
      (sendfileOne so o s path user true m t a []).2.failed = true ∧
      (sendfileOne so o s path user true m t a []).2.st =
        (dRecord m (xbasename (if so.reverse && user then path ++ cDot :: so.host else path))).foldl (step o)
          ((if so.preserve then
            [tRecord (t / USEC) (if so.subsec then t % USEC else 0) (a / USEC) (if so.subsec then a % USEC else 0)]
            else []).flatten.foldl (step o) s.st) := by
    unfold sendfileOne
    dsimp only
    simp only [if_true]
    have h1 : ∃ r1 : Bool × Sess, (if so.preserve then
          sendStage o (true, s) (tRecord (t / USEC) (if so.subsec then t % USEC else 0) (a / USEC)
            (if so.subsec then a % USEC else 0)) else (true, s)) = r1 ∧ r1.1 = true ∧ InSync r1.2 ∧
        r1.2.st = (if so.preserve then
          [tRecord (t / USEC) (if so.subsec then t % USEC else 0) (a / USEC) (if so.subsec then a % USEC else 0)]
          else []).flatten.foldl (step o) s.st := by
      cases hpr : so.preserve with
      | false =>
        simp only [Bool.false_eq_true, if_false]
        exact ⟨_, rfl, rfl, h, rfl⟩
      | true =>
        simp only [hpr, if_true] at hT ⊢
        obtain ⟨g1, g2, g3, _⟩ := stage_paced (o := o) h _ hT.1
        exact ⟨_, rfl, g1, g3, by simpa using g2⟩
    obtain ⟨r1, hr1, hr1a, hr1b, hr1c⟩ := h1
    rw [hr1]
    rw [← hr1c] at hD
    obtain ⟨g1, g2, g3, g4⟩ := stage_refused (o := o) hr1a hr1b _ e hD
    exact ⟨g1, g3, g4, by rw [g2, hr1c]⟩
  obtain ⟨k1, k2, k3, k4⟩ := key
  simp only [expandTree, List.foldl_cons, List.foldl_append, List.foldl_nil]
  have hstep : clientStep so co o s (.ent path user true m t a []) =
      { (sendfileOne so o s path user true m t a []).2 with skip := 1 } := by
    simp only [clientStep, if_neg hnd, if_neg hnk, if_neg hns, k1, hco, Bool.not_false, Bool.and_self, if_true]
  have hsk := skip_kids (o := o) so co path kids
    { (sendfileOne so o s path user true m t a []).2 with skip := 1 } k2.dead (by show 0 < 1; decide)
  rw [hstep, hsk]
  have hd2 : ¬ ({ (sendfileOne so o s path user true m t a []).2 with skip := 1 } : Sess).dead = true := by
    show ¬ (sendfileOne so o s path user true m t a []).2.dead = true
    rw [k2.dead]; simp
  simp only [clientStep, if_neg hd2, Nat.lt_irrefl, Nat.zero_lt_one, if_true, Nat.sub_self]
  exact ⟨⟨k2.dead, rfl, k2.cons⟩, k3, k4⟩

/-! ## the receiver -/

/-- the optional `T` record at a record boundary inside a directory -/
theorem after_optional_T {st : St} {f : Frame} {rest : List Frame} {q : Path} (h : AtDir o st f rest q)
    (hns : Pend o f) (ss : Bool) (t a : Nat) (ht : t < 2 ^ 63) (ha : a < 2 ^ 63) :
    ∃ f', AtDir o ((if o.preserve then [timesRecord ss t a] else []).flatten.foldl (step o) st) f' rest q ∧
      Pend o f' ∧ f'.targ = f.targ ∧
      ((if o.preserve then [timesRecord ss t a] else []).flatten.foldl (step o) st).fs = st.fs ∧
      Paced o st (if o.preserve then [timesRecord ss t a] else []) ∧
      ((if o.preserve then [timesRecord ss t a] else []).flatten.foldl (step o) st).out =
        (if o.preserve then [Reply.ack] else []) ++ st.out := by
  by_cases hp : o.preserve = true
  · simp only [hp, ↓reduceIte, timesRecord, List.flatten_cons, List.flatten_nil, List.append_nil]
    have hT := feed_T (o := o) h.phase h.stack (t / USEC) (sentUsec ss t) (a / USEC) (sentUsec ss a)
      (sent_lt ss ht).1 (sent_lt ss ht).2 (sent_lt ss ha).1 (sent_lt ss ha).2
    rw [hT]
    refine ⟨{ f with setimes := true, mt := sentTime ss t, atm := sentTime ss a },
      ⟨rfl, rfl, h.isdir, h.res, h.dir, h.ver, ⟨usecOk_sent _ _, usecOk_sent _ _⟩⟩, fun _ => hp, rfl, rfl, ?_, rfl⟩
    simp only [Paced]
    rw [hT]
    exact ⟨rfl, trivial⟩
  · have hp' : o.preserve = false := by simpa using hp
    simp only [hp', Bool.false_eq_true, ↓reduceIte, List.flatten_nil, List.foldl_nil, List.nil_append]
    exact ⟨f, h, hns, rfl, by simp [Paced]⟩

end PdshVerif.Pcp
