import PdshVerif.Pcp.Refused

/-! # The dialogue over a list of sources some of which the target cannot take  (C11, last clause)

"A file that cannot be ... written is reported for that host without corrupting any other file", for the
INTERACTIVE client (Pcp/Session.lean: it reads every reply and reacts) in its repaired form (`skipRefused`), and for
any mixture, in any order, of

* sources that arrive (`SItem.good`: any tree in the domain of the round trip),
* regular files whose name is taken by a DIRECTORY on the target (`SItem.blockedFile`: `open` fails, one error
  record after the `C` record, the client sends neither data nor NUL), and
* directories whose name is taken by a REGULAR FILE on the target (`SItem.refusedDir`: `mkdir` is not even
  tried, one error record after the `D` record, the client skips the directory's list elements and its
  leave-directory sentinel).

`session_items` is the induction over the list: client and receiver stay in step (`InSync`), the receiver stays at
the level it was (`AtDir`), the file system ends as `recvKids` of the good sources alone, and the replies are
acknowledgements plus exactly one "cannot open" error record per source that could not be written.
Props/C11.lean `error_isolated_session` wraps it with the greeting and the end of the connection. -/
namespace PdshVerif.Pcp
open PdshVerif.Gen

variable {o : Opts}

/-- one source the user names, by what the target makes of it -/
inductive SItem where
  | good (path : Str) (t : Tree)
  | blockedFile (path : Str) (m t a : Nat) (d : Str)
  | refusedDir (path : Str) (m t a : Nat) (kids : List (Str × Tree))

def SItem.path : SItem → Str
  | .good p _ => p
  | .blockedFile p .. => p
  | .refusedDir p .. => p

/-- the source as the client sees it -/
def SItem.src : SItem → Str × Tree
  | .good p t => (p, t)
  | .blockedFile p m t a d => (p, .file m t a d)
  | .refusedDir p m t a kids => (p, .dir m t a kids)

/-- the sources that arrive, under the names they are sent with -/
def sGoods (so : SOpts) : List SItem → List (Str × Tree)
  | [] => []
  | .good p t :: r => (sentName so p true, t) :: sGoods so r
  | _ :: r => sGoods so r

/-- the sources that cannot be written -/
def sBad : List SItem → Nat
  | [] => 0
  | .good .. :: r => sBad r
  | _ :: r => sBad r + 1

/-- the domain -/
def SItemsOk (so : SOpts) (budget : Nat) (fs : FS) (q : Path) : List SItem → Prop
  | [] => True
  | .good p t :: r =>
    (p ≠ sentinelName ∨ so.sentinelFix = true) ∧ KidNamesOk t ∧ GoodTree budget (sentName so p true) t ∧
      FreshBelow fs (q ++ [sentName so p true]) ∧
      (∀ it ∈ r, sentName so it.path true ≠ sentName so p true) ∧ SItemsOk so budget fs q r
  | .blockedFile p _ t a d :: r =>
    (p ≠ sentinelName ∨ so.sentinelFix = true) ∧ GoodName (sentName so p true) ∧
      (sentName so p true).length + 1 ≤ budget ∧ t < 2 ^ 63 ∧ a < 2 ^ 63 ∧ d.length < 2 ^ 63 ∧
      (∃ dm dt, fs (q ++ [sentName so p true]) = some (.dir dm dt)) ∧ SItemsOk so budget fs q r
  | .refusedDir p _ t a _ :: r =>
    (p ≠ sentinelName ∨ so.sentinelFix = true) ∧ GoodName (sentName so p true) ∧
      (sentName so p true).length + 1 ≤ budget ∧ t < 2 ^ 63 ∧ a < 2 ^ 63 ∧
      (∃ fm ft fd, fs (q ++ [sentName so p true]) = some (.file fm ft fd)) ∧ SItemsOk so budget fs q r

/-- installing a good tree under another name keeps the rest of the list in its domain -/
theorem sitemsOk_after_good (so : SOpts) (ss : Bool) (budget : Nat) (fs : FS) (q : Path) (n : Str) (t : Tree)
    (r : List SItem) (hdist : ∀ it ∈ r, sentName so it.path true ≠ n) (h : SItemsOk so budget fs q r) :
    SItemsOk so budget (recvTree o ss fs q n t) q r := by
  induction r with
  | nil => trivial
  | cons it r ih =>
    have hne : sentName so it.path true ≠ n := hdist it List.mem_cons_self
    have hd' : ∀ it ∈ r, sentName so it.path true ≠ n := fun x hx => hdist x (List.mem_cons_of_mem _ hx)
    cases it with
    | good p' t' =>
      replace hne : sentName so p' true ≠ n := hne
      simp only [SItemsOk] at h ⊢
      obtain ⟨h0, hk, h1, h2, h3, h4⟩ := h
      refine ⟨h0, hk, h1, ?_, h3, ih hd' h4⟩
      intro x hx
      rw [recvTree_other o ss fs q n t x (prefix_snoc_ne hx) (ne_prefix_snoc hne hx)]
      exact h2 x hx
    | blockedFile p' m' t' a' d' =>
      replace hne : sentName so p' true ≠ n := hne
      simp only [SItemsOk] at h ⊢
      obtain ⟨h0, h1, h2, h3, h4, h5, ⟨dm, dt, h6⟩, h8⟩ := h
      refine ⟨h0, h1, h2, h3, h4, h5, ⟨dm, dt, ?_⟩, ih hd' h8⟩
      rw [recvTree_other o ss fs q n t _ (prefix_snoc_ne (List.prefix_refl _))
        (ne_prefix_snoc hne (List.prefix_refl _))]
      exact h6
    | refusedDir p' m' t' a' k' =>
      replace hne : sentName so p' true ≠ n := hne
      simp only [SItemsOk] at h ⊢
      obtain ⟨h0, h1, h2, h3, h4, ⟨fm, ft, fd, h6⟩, h8⟩ := h
      refine ⟨h0, h1, h2, h3, h4, ⟨fm, ft, fd, ?_⟩, ih hd' h8⟩
      rw [recvTree_other o ss fs q n t _ (prefix_snoc_ne (List.prefix_refl _))
        (ne_prefix_snoc hne (List.prefix_refl _))]
      exact h6

/-- `goto fail`: after a failed stage nothing more is sent for this entry -/
theorem sendStage_false {r : Bool × Sess} (h : r.1 = false) (bs : Str) : sendStage o r bs = r := by
  unfold sendStage
  simp [h]

/-- the list element of a regular file whose `C` record is refused, worked through by the client: the optional
`T` record and the `C` record are sent, neither data nor NUL; the client is in step again -/
theorem blocked_file_entry (so : SOpts) (co : COpts) {s : Sess} (h : InSync s)
    (path : Str) (user : Bool) (m t a : Nat) (d : Str)
    (hns : ¬ (path = sentinelName && !(so.sentinelFix && user)) = true)
    (hT : Paced o s.st (if so.preserve then
      [tRecord (t / USEC) (if so.subsec then t % USEC else 0) (a / USEC) (if so.subsec then a % USEC else 0)] else []))
    (e : Err)
    (hC : ((cRecord m d.length (xbasename (if so.reverse && user then path ++ cDot :: so.host else path))).foldl (step o)
            ((if so.preserve then
              [tRecord (t / USEC) (if so.subsec then t % USEC else 0) (a / USEC) (if so.subsec then a % USEC else 0)]
              else []).flatten.foldl (step o) s.st)).out =
          .err e :: ((if so.preserve then
              [tRecord (t / USEC) (if so.subsec then t % USEC else 0) (a / USEC) (if so.subsec then a % USEC else 0)]
              else []).flatten.foldl (step o) s.st).out) :
    InSync (clientStep so co o s (.ent path user false m t a d)) ∧
    (clientStep so co o s (.ent path user false m t a d)).st =
      (cRecord m d.length (xbasename (if so.reverse && user then path ++ cDot :: so.host else path))).foldl (step o)
        ((if so.preserve then
          [tRecord (t / USEC) (if so.subsec then t % USEC else 0) (a / USEC) (if so.subsec then a % USEC else 0)]
          else []).flatten.foldl (step o) s.st) := by
  have hnd : ¬ s.dead = true := by rw [h.dead]; simp
  have hnk : ¬ 0 < s.skip := by rw [h.skip]; simp
  have key : InSync (sendfileOne so o s path user false m t a d).2 ∧
      (sendfileOne so o s path user false m t a d).2.st =
        (cRecord m d.length (xbasename (if so.reverse && user then path ++ cDot :: so.host else path))).foldl (step o)
          ((if so.preserve then
            [tRecord (t / USEC) (if so.subsec then t % USEC else 0) (a / USEC) (if so.subsec then a % USEC else 0)]
            else []).flatten.foldl (step o) s.st) := by
    unfold sendfileOne
    dsimp only
    have h1 : ∃ r1 : Bool × Sess, (if so.preserve then
          sendStage o (true, s) (tRecord (t / USEC) (if so.subsec then t % USEC else 0) (a / USEC)
            (if so.subsec then a % USEC else 0)) else (true, s)) = r1 ∧ r1.1 = true ∧ InSync r1.2 ∧
        r1.2.st = (if so.preserve then
          [tRecord (t / USEC) (if so.subsec then t % USEC else 0) (a / USEC) (if so.subsec then a % USEC else 0)]
          else []).flatten.foldl (step o) s.st := by
      cases hpr : so.preserve with
      | false =>
        simp only [Bool.false_eq_true, if_false]
        exact ⟨_, rfl, rfl, h, rfl⟩
      | true =>
        simp only [hpr, if_true] at hT ⊢
        obtain ⟨g1, g2, g3, _⟩ := stage_paced (o := o) h _ hT.1
        exact ⟨_, rfl, g1, g3, by simpa using g2⟩
    obtain ⟨r1, hr1, hr1a, hr1b, hr1c⟩ := h1
    rw [hr1]
    rw [← hr1c] at hC
    obtain ⟨g1, g2, g3, _⟩ := stage_refused (o := o) hr1a hr1b _ e hC
    -- the data stage is not reached: `goto fail`
    have hskip : sendStage o (sendStage o r1 (cRecord m d.length
        (xbasename (if so.reverse && user then path ++ cDot :: so.host else path)))) (d ++ [0]) =
        sendStage o r1 (cRecord m d.length (xbasename (if so.reverse && user then path ++ cDot :: so.host else path))) := by
      exact sendStage_false g1 _
    rw [hskip]
    simp only [Bool.false_eq_true, ↓reduceIte]
    exact ⟨g3, by rw [g2, hr1c]⟩
  have hstep : clientStep so co o s (.ent path user false m t a d) = (sendfileOne so o s path user false m t a d).2 := by
    simp only [clientStep, if_neg hnd, if_neg hnk, if_neg hns, Bool.false_and, Bool.and_false, Bool.false_eq_true,
      if_false]
  rw [hstep]
  exact key

theorem rsI_one_refusal (b : Bool) : RsI (Reply.err .path :: (if b then [Reply.ack] else [])) 0 1 := by
  cases b <;> exact ⟨by decide, by decide, by decide⟩

/-- **The dialogue over a list of sources**, some of which the target cannot take (repaired client). -/
theorem session_items (hc : CntOk o) (hnf : o.fsize = none) (so : SOpts) (co : COpts) (hco : co.skipRefused = true)
    (hp : so.preserve = o.preserve) (budget : Nat) (rest : List Frame) (q : Path) (items : List SItem) :
    ∀ (s : Sess) (f : Frame), InSync s → AtDir o s.st f rest q → Pend o f →
      f.targ.length + budget < PCP_PATH_MAX → SItemsOk so budget s.st.fs q items →
      InSync ((expandAll (items.map SItem.src)).foldl (clientStep so co o) s) ∧
      (∃ f', AtDir o ((expandAll (items.map SItem.src)).foldl (clientStep so co o) s).st f' rest q ∧ Pend o f' ∧
        f'.targ = f.targ) ∧
      ((expandAll (items.map SItem.src)).foldl (clientStep so co o) s).st.fs =
        recvKids o so.subsec s.st.fs q (sGoods so items) ∧
      ∃ rs, ((expandAll (items.map SItem.src)).foldl (clientStep so co o) s).st.out = rs ++ s.st.out ∧
        RsI rs 0 (sBad items) := by
  induction items with
  | nil =>
    intro s f hi hat hpe _ _
    exact ⟨hi, ⟨f, hat, hpe, rfl⟩, rfl, [], rfl, ⟨by simp, rfl, rfl⟩⟩
  | cons it r ih =>
    intro s f hi hat hpe hb hok
    cases it with
    | good p t =>
      simp only [SItemsOk] at hok
      obtain ⟨hsent, hk, hgood, hfresh, hdist, hokr⟩ := hok
      simp only [List.map_cons, SItem.src, expandAll, List.foldl_append]
      -- the tree: every chunk is acknowledged, the client stays in step
      have hpaced := paced_tree hc hnf so.subsec t (sentName so p true) budget s.st f rest q hat hpe hb hgood hfresh
      have hch := chunks_tree so p true t (hsent.imp id (fun e => ⟨e, rfl⟩)) hk
      rw [← hp, ← hch] at hpaced
      obtain ⟨i1, _, i3⟩ := foldl_paced so co (expandTree p true t) hi hpaced
      rw [hch, treeChunks_flatten, hp] at i3
      have hfed := feed_tree hc so.subsec t (sentName so p true) budget s.st f rest q hat hpe hb hgood hfresh
      rw [← i3] at hfed
      generalize (expandTree p true t).foldl (clientStep so co o) s = s1 at i1 hfed ⊢
      obtain ⟨⟨f1, hat1, hpe1, hf1t⟩, hfs1, _, rs1, hout1, hrs1⟩ := hfed
      rw [faults_none o hnf] at hrs1
      have hokr1 : SItemsOk so budget s1.st.fs q r := by
        rw [hfs1]
        exact sitemsOk_after_good so so.subsec budget s.st.fs q _ t r hdist hokr
      obtain ⟨j1, ⟨f2, hat2, hpe2, hf2t⟩, j3, rs2, hout2, hrs2⟩ :=
        ih s1 f1 i1 hat1 hpe1 (by rw [hf1t]; exact hb) hokr1
      refine ⟨j1, ⟨f2, hat2, hpe2, by rw [hf2t, hf1t]⟩, ?_, rs2 ++ rs1, ?_, ?_⟩
      · rw [j3, hfs1]
        rfl
      · rw [hout2, hout1, List.append_assoc]
      · have := RsI.append hrs2 (RsI.of_Rs hrs1)
        simpa [sBad] using this
    | blockedFile p m t a d =>
      simp only [SItemsOk] at hok
      obtain ⟨hsent, hname, hnb, ht, ha, hd, ⟨dm, dt, hblk⟩, hokr⟩ := hok
      simp only [List.map_cons, SItem.src, expandAll, expandTree, List.foldl_append, List.foldl_cons, List.foldl_nil]
      obtain ⟨f1, hat1, hpe1, hf1t, hfs1, hpT, hout1⟩ := after_optional_T (o := o) hat hpe so.subsec t a ht ha
      generalize hst1 : (if o.preserve then [timesRecord so.subsec t a] else []).flatten.foldl (step o) s.st = st1
        at hat1 hfs1 hout1
      have hC := feed_C_blocked (o := o) hat1.phase hat1.stack hat1.isdir hat1.res hat1.dir hname
        (by rw [hfs1]; exact hblk) (by rw [hf1t]; omega) m d.length hd
      have hcond : ¬ (p = sentinelName && !(so.sentinelFix && true)) = true := by
        rcases hsent with h | h
        · simp [h]
        · simp [h]
      have hTeq : (if so.preserve then
          [tRecord (t / USEC) (if so.subsec then t % USEC else 0) (a / USEC) (if so.subsec then a % USEC else 0)] else []) =
          (if o.preserve then [timesRecord so.subsec t a] else []) := by
        rw [hp]; rfl
      obtain ⟨e1, e3⟩ := blocked_file_entry (o := o) so co hi p true m t a d hcond
        (by rw [hTeq]; exact hpT) .path (by
          rw [hTeq]
          show ((cRecord m d.length (sentName so p true)).foldl (step o) _).out = _
          rw [hst1, hC])
      rw [hTeq] at e3
      have e3' : (clientStep so co o s (.ent p true false m t a d)).st =
          { st1 with out := .err .path :: st1.out, phase := .start } := by
        rw [e3]
        show (cRecord m d.length (sentName so p true)).foldl (step o) _ = _
        rw [hst1, hC]
      generalize clientStep so co o s (.ent p true false m t a d) = s1 at e1 e3'
      have hat2 : AtDir o s1.st f1 rest q := by
        rw [e3']
        exact ⟨rfl, hat1.stack, hat1.isdir, hat1.res, hat1.dir, hat1.ver, hat1.us⟩
      have hfs2 : s1.st.fs = s.st.fs := by rw [e3']; exact hfs1
      obtain ⟨j1, ⟨f2, hat2', hpe2, hf2t⟩, j3, rs2, hout2, hrs2⟩ :=
        ih s1 f1 e1 hat2 hpe1 (by rw [hf1t]; exact hb) (by rw [hfs2]; exact hokr)
      refine ⟨j1, ⟨f2, hat2', hpe2, by rw [hf2t, hf1t]⟩, by rw [j3, hfs2]; rfl,
        rs2 ++ (Reply.err .path :: (if o.preserve then [Reply.ack] else [])), ?_, ?_⟩
      · rw [hout2, e3']
        show rs2 ++ (Reply.err .path :: st1.out) = _
        rw [hout1]
        simp
      · have := RsI.append hrs2 (rsI_one_refusal o.preserve)
        simpa [sBad] using this
    | refusedDir p m t a kids =>
      simp only [SItemsOk] at hok
      obtain ⟨hsent, hname, hnb, ht, ha, ⟨fm, ft, fd, hblk⟩, hokr⟩ := hok
      simp only [List.map_cons, SItem.src, expandAll, List.foldl_append]
      obtain ⟨f1, hat1, hpe1, hf1t, hfs1, hpT, hout1⟩ := after_optional_T (o := o) hat hpe so.subsec t a ht ha
      generalize hst1 : (if o.preserve then [timesRecord so.subsec t a] else []).flatten.foldl (step o) s.st = st1
        at hat1 hfs1 hout1
      have hD := feed_D_blocked (o := o) hat1.phase hat1.stack hat1.isdir hat1.res hat1.dir hname
        (by rw [hfs1]; exact hblk) (by rw [hf1t]; omega) m
      have hcond : ¬ (p = sentinelName && !(so.sentinelFix && true)) = true := by
        rcases hsent with h | h
        · simp [h]
        · simp [h]
      have hTeq : (if so.preserve then
          [tRecord (t / USEC) (if so.subsec then t % USEC else 0) (a / USEC) (if so.subsec then a % USEC else 0)] else []) =
          (if o.preserve then [timesRecord so.subsec t a] else []) := by
        rw [hp]; rfl
      obtain ⟨e1, _, e3⟩ := refused_entries (o := o) so co hco hi p true m t a kids hcond
        (by rw [hTeq]; exact hpT) .path (by
          rw [hTeq]
          show ((dRecord m (sentName so p true)).foldl (step o) _).out = _
          rw [hst1, hD])
      rw [hTeq] at e3
      have e3' : ((expandTree p true (Tree.dir m t a kids)).foldl (clientStep so co o) s).st =
          { st1 with out := .err .path :: st1.out, phase := .start } := by
        rw [e3]
        show (dRecord m (sentName so p true)).foldl (step o) _ = _
        rw [hst1, hD]
      generalize (expandTree p true (Tree.dir m t a kids)).foldl (clientStep so co o) s = s1 at e1 e3'
      have hat2 : AtDir o s1.st f1 rest q := by
        rw [e3']
        exact ⟨rfl, hat1.stack, hat1.isdir, hat1.res, hat1.dir, hat1.ver, hat1.us⟩
      have hfs2 : s1.st.fs = s.st.fs := by rw [e3']; exact hfs1
      obtain ⟨j1, ⟨f2, hat2', hpe2, hf2t⟩, j3, rs2, hout2, hrs2⟩ :=
        ih s1 f1 e1 hat2 hpe1 (by rw [hf1t]; exact hb) (by rw [hfs2]; exact hokr)
      refine ⟨j1, ⟨f2, hat2', hpe2, by rw [hf2t, hf1t]⟩, by rw [j3, hfs2]; rfl,
        rs2 ++ (Reply.err .path :: (if o.preserve then [Reply.ack] else [])), ?_, ?_⟩
      · rw [hout2, e3']
        show rs2 ++ (Reply.err .path :: st1.out) = _
        rw [hout1]
        simp
      · have := RsI.append hrs2 (rsI_one_refusal o.preserve)
        simpa [sBad] using this

end PdshVerif.Pcp
