import PdshVerif.Pcp.Overwrite
import PdshVerif.Pcp.TreeTrip
import PdshVerif.Pcp.Received

/-! # Copying onto a destination that already holds (an older version of) the tree  (C11: "DEST existing")

`feed_tree`/`copy_roundtrip` are about names that are not yet present.  The everyday case is the other one: the
tree was copied before and is copied again.  `mergeTree` says what the receiver makes of a source tree when nodes
OF THE SAME KIND may already be there (`Compat`: a regular file where the source has a regular file, a directory
where it has a directory, nothing, or any mixture down the tree):

* an existing regular file is replaced (`feed_C_over`: exactly the bytes sent, old mode or with -p the mode sent,
  pending time applied; the parent directory is not re-timed);
* an existing directory is entered (`feed_D_over`; with -p it is chmod'ed first), its entries are merged one by
  one, and with -p its modification time is set after the last of them;
* what is not there is created as in `recvTree`; what is there and not named by the source stays.

`feed_tree_merge`: the receiver fed with the sender's stream ends with `mergeTree`, every record acknowledged. -/
namespace PdshVerif.Pcp
open PdshVerif.Gen

mutual
/-- the file system after the receiver has taken in one tree under the name `n` in directory `q`, nodes of the
same kind possibly being there already -/
def mergeTree (o : Opts) (ss : Bool) (fs : FS) (q : Path) (n : Str) : Tree → FS
  | .file m t _ d =>
    match fs (q ++ [n]) with
    | some (.file om _ _) =>
      fs.set (q ++ [n]) (.file (overMode o om (m &&& RCP_MODEMASK)) (if o.preserve then some (sentTime ss t) else none) d)
    | _ => (fs.bumpDir q).set (q ++ [n]) (recvFileNode o m (if o.preserve then some (sentTime ss t) else none) d)
  | .dir m t _ kids =>
    match fs (q ++ [n]) with
    | some (.dir _ dt) =>
      if o.preserve then
        setMtimeAt (mergeKids o ss (fs.set (q ++ [n]) (.dir ((m &&& RCP_MODEMASK) % 4096) dt)) (q ++ [n]) kids)
          (q ++ [n]) (sentTime ss t)
      else mergeKids o ss fs (q ++ [n]) kids
    | _ =>
      if o.preserve then
        setMtimeAt (mergeKids o ss ((fs.bumpDir q).set (q ++ [n]) (recvDirNode o fs q n m)) (q ++ [n]) kids)
          (q ++ [n]) (sentTime ss t)
      else mergeKids o ss ((fs.bumpDir q).set (q ++ [n]) (recvDirNode o fs q n m)) (q ++ [n]) kids
def mergeKids (o : Opts) (ss : Bool) (fs : FS) (q : Path) : List (Str × Tree) → FS
  | [] => fs
  | (n, k) :: r => mergeKids o ss (mergeTree o ss fs q n k) q r
end

mutual
/-- what is at (and below) `q/n` is nothing, or of the same kind as the source tree, recursively -/
def Compat (fs : FS) (q : Path) (n : Str) : Tree → Prop
  | .file _ _ _ _ => FreshBelow fs (q ++ [n]) ∨ ∃ om ot od, fs (q ++ [n]) = some (.file om ot od)
  | .dir _ _ _ kids =>
    FreshBelow fs (q ++ [n]) ∨ ∃ dm dt, fs (q ++ [n]) = some (.dir dm dt) ∧ CompatKids fs (q ++ [n]) kids
def CompatKids (fs : FS) (q : Path) : List (Str × Tree) → Prop
  | [] => True
  | (n, k) :: r => Compat fs q n k ∧ CompatKids fs q r
end

/-! ## only what lies below the name changes (and the parent's time) -/

theorem setMtimeAt_ne (g : FS) (p : Path) (t : Time) (x : Path) (h : x ≠ p) : setMtimeAt g p t x = g x := by
  unfold setMtimeAt
  cases hg : g p with
  | none => rfl
  | some nd => simp only []; rw [set_other _ _ _ _ h]

mutual
theorem mergeTree_other (o : Opts) (ss : Bool) (fs : FS) (q : Path) (n : Str) (t : Tree) (x : Path) (hq : x ≠ q)
    (hx : ¬ (q ++ [n]) <+: x) : mergeTree o ss fs q n t x = fs x := by
  have hne : x ≠ q ++ [n] := fun e => hx (e ▸ List.prefix_refl _)
  cases t with
  | file m t a d =>
    simp only [mergeTree]
    cases hfs : fs (q ++ [n]) with
    | none => dsimp only; rw [set_other _ _ _ _ hne, bumpDir_other _ _ _ hq]
    | some nd =>
      cases nd with
      | file om ot od => dsimp only; exact set_other _ _ _ _ hne
      | dir dm dt => dsimp only; rw [set_other _ _ _ _ hne, bumpDir_other _ _ _ hq]
  | dir m t a kids =>
    have hkx : ∀ n' k', (n', k') ∈ kids → ¬ (q ++ [n] ++ [n']) <+: x :=
      fun n' _ _ hp => hx ((List.prefix_append _ _).trans hp)
    have hfresh : ∀ g : FS, (if o.preserve then
          setMtimeAt (mergeKids o ss ((g.bumpDir q).set (q ++ [n]) (recvDirNode o g q n m)) (q ++ [n]) kids)
            (q ++ [n]) (sentTime ss t)
        else mergeKids o ss ((g.bumpDir q).set (q ++ [n]) (recvDirNode o g q n m)) (q ++ [n]) kids) x = g x := by
      intro g
      split
      · rw [setMtimeAt_ne _ _ _ _ hne, mergeKids_other o ss _ (q ++ [n]) kids x hne hkx, set_other _ _ _ _ hne,
          bumpDir_other _ _ _ hq]
      · rw [mergeKids_other o ss _ (q ++ [n]) kids x hne hkx, set_other _ _ _ _ hne, bumpDir_other _ _ _ hq]
    simp only [mergeTree]
    cases hfs : fs (q ++ [n]) with
    | none => dsimp only; exact hfresh fs
    | some nd =>
      cases nd with
      | file om ot od => dsimp only; exact hfresh fs
      | dir dm dt =>
        dsimp only
        split
        · rw [setMtimeAt_ne _ _ _ _ hne, mergeKids_other o ss _ (q ++ [n]) kids x hne hkx, set_other _ _ _ _ hne]
        · exact mergeKids_other o ss _ (q ++ [n]) kids x hne hkx
theorem mergeKids_other (o : Opts) (ss : Bool) (fs : FS) (q : Path) (kids : List (Str × Tree)) (x : Path) (hq : x ≠ q)
    (hx : ∀ n k, (n, k) ∈ kids → ¬ (q ++ [n]) <+: x) : mergeKids o ss fs q kids x = fs x := by
  cases kids with
  | nil => rfl
  | cons nk r =>
    obtain ⟨n, k⟩ := nk
    simp only [mergeKids]
    rw [mergeKids_other o ss _ q r x hq (fun n' k' hm => hx n' k' (List.mem_cons_of_mem _ hm)),
      mergeTree_other o ss fs q n k x hq (hx n k List.mem_cons_self)]
end

/-! ## on fresh names merging is `recvTree` -/

mutual
theorem mergeTree_fresh (o : Opts) (ss : Bool) (t : Tree) (budget : Nat) (fs : FS) (q : Path) (n : Str)
    (hg : GoodTree budget n t) (hfresh : FreshBelow fs (q ++ [n])) :
    mergeTree o ss fs q n t = recvTree o ss fs q n t := by
  have hfr : fs (q ++ [n]) = none := hfresh _ (List.prefix_refl _)
  cases t with
  | file m t a d => simp only [mergeTree, recvTree, hfr]
  | dir m t a kids =>
    simp only [GoodTree] at hg
    have hkfresh : ∀ n' k', (n', k') ∈ kids →
        FreshBelow ((fs.bumpDir q).set (q ++ [n]) (recvDirNode o fs q n m)) (q ++ [n] ++ [n']) := by
      intro n' k' _ x hx'
      have hx1 : (q ++ [n]) <+: x := (List.prefix_append _ _).trans hx'
      rw [set_other _ _ _ _ (prefix_snoc_ne hx'), bumpDir_other _ _ _ (prefix_snoc_ne hx1)]
      exact hfresh x hx1
    have hk := mergeKids_fresh o ss kids (budget - (n.length + 1)) _ (q ++ [n]) hg.2.2.2.2 hkfresh
    simp only [mergeTree, recvTree, hfr, hk]
theorem mergeKids_fresh (o : Opts) (ss : Bool) (kids : List (Str × Tree)) (budget : Nat) (fs : FS) (q : Path)
    (hg : GoodKids budget kids) (hfresh : ∀ n k, (n, k) ∈ kids → FreshBelow fs (q ++ [n])) :
    mergeKids o ss fs q kids = recvKids o ss fs q kids := by
  cases kids with
  | nil => rfl
  | cons nk r =>
    obtain ⟨n, k⟩ := nk
    simp only [GoodKids] at hg
    obtain ⟨hgk, hdist, hgr⟩ := hg
    simp only [mergeKids, recvKids]
    rw [mergeTree_fresh o ss k budget fs q n hgk (hfresh n k List.mem_cons_self)]
    apply mergeKids_fresh o ss r budget _ q hgr
    intro n' k' hm x hx'
    rw [recvTree_other o ss fs q n k x (prefix_snoc_ne hx')]
    · exact hfresh n' k' (List.mem_cons_of_mem _ hm) x hx'
    · intro hx2
      have hne : n' ≠ n := hdist (n', k') hm
      have e := List.prefix_of_prefix_length_le hx' hx2 (by simp)
      have e2 : q ++ [n'] = q ++ [n] := e.eq_of_length (by simp)
      have := List.append_cancel_left e2
      simp at this
      exact hne this
end

/-! ## `Compat` only looks below the name -/

mutual
theorem compat_mono {fs fs' : FS} {q : Path} {n : Str} (t : Tree) (h : ∀ x, (q ++ [n]) <+: x → fs' x = fs x)
    (hc : Compat fs q n t) : Compat fs' q n t := by
  cases t with
  | file m t a d =>
    simp only [Compat] at hc ⊢
    rcases hc with hf | ⟨om, ot, od, he⟩
    · exact Or.inl (fun x hx => by rw [h x hx]; exact hf x hx)
    · exact Or.inr ⟨om, ot, od, by rw [h _ (List.prefix_refl _)]; exact he⟩
  | dir m t a kids =>
    simp only [Compat] at hc ⊢
    rcases hc with hf | ⟨dm, dt, he, hk⟩
    · exact Or.inl (fun x hx => by rw [h x hx]; exact hf x hx)
    · exact Or.inr ⟨dm, dt, by rw [h _ (List.prefix_refl _)]; exact he,
        compatKids_mono kids (fun x hx _ => h x hx) hk⟩
theorem compatKids_mono {fs fs' : FS} {q : Path} (kids : List (Str × Tree))
    (h : ∀ x, q <+: x → x ≠ q → fs' x = fs x) (hc : CompatKids fs q kids) : CompatKids fs' q kids := by
  cases kids with
  | nil => trivial
  | cons nk r =>
    obtain ⟨n, k⟩ := nk
    simp only [CompatKids] at hc ⊢
    exact ⟨compat_mono k (fun x hx => h x ((List.prefix_append _ _).trans hx) (prefix_snoc_ne hx)) hc.1,
      compatKids_mono r h hc.2⟩
end

/-! ## a `D` record for a directory that is already there -/

variable {o : Opts}

theorem feed_D_over {st : St} {f : Frame} {rest : List Frame} {q : Path}
    (hph : st.phase = .start) (hs : st.stack = f :: rest) (htd : f.targisdir = true)
    (hr : resolve st.fs o.cwd f.targ = some q) (hd : st.fs.isDir q = true) (hv : VerifyOk o st.fs)
    {n : Str} (hn : GoodName n) {dm : Nat} {dt : Option Time} (hold : st.fs (q ++ [n]) = some (.dir dm dt))
    (hlen : f.targ.length + n.length + 1 < PCP_PATH_MAX) (m : Nat) :
    (dRecord m n).foldl (step o) st =
      { st with
        fs := if o.preserve then st.fs.set (q ++ [n]) (.dir ((m &&& RCP_MODEMASK) % 4096) dt) else st.fs
        out := .ack :: st.out
        touched := if o.preserve then (q ++ [n]) :: st.touched else st.touched
        stack := { targ := joinName f.targ n, targisdir := true, setimes := false, mt := default, atm := default }
                  :: f :: rest
        phase := .start } := by
  obtain ⟨hnl, _, hlen2⟩ := ctlBody_props (m &&& RCP_MODEMASK) 0 hn (by decide)
  rw [dRecord_eq, foldl_line st hph cD _ (by decide) hnl hlen2,
    handleRecord_ctl hs (classify_ctl cD (Or.inr rfl) _ _ hn (and_mask_lt m) (by decide))
      (nameOk_plain _ hn.plain) htd]
  have hbeq : (cD == cD) = true := by decide
  simp only [hbeq, ↓reduceIte]
  have hrj := resolve_join hr hd hn.plain hn.short hlen
  have hts := trailingSlash_join f.targ hn.plain
  unfold handleDir
  simp only [stat_some hrj hold hts]
  cases hp : o.preserve with
  | false =>
    simp only [Bool.false_eq_true, ↓reduceIte]
    rw [enter_ok (p := q ++ [n]) hv hrj (by simp [FS.isDir, hold, Node.isDir])]
    simp only [hs]
  | true =>
    simp only [↓reduceIte]
    have hch : chmod st.fs o.cwd (joinName f.targ n) (m &&& RCP_MODEMASK) =
        some (st.fs.set (q ++ [n]) (.dir ((m &&& RCP_MODEMASK) % 4096) dt), q ++ [n]) := by
      unfold chmod
      rw [stat_some hrj hold hts]
      rfl
    simp only [hch]
    have hmono : DirMono st.fs (st.fs.set (q ++ [n]) (.dir ((m &&& RCP_MODEMASK) % 4096) dt)) :=
      dirMono_set_same _ hold rfl
    rw [enter_ok (p := q ++ [n])]
    · simp only [St.touch, hs]
    · exact verifyOk_mono hmono hv
    · exact resolve_mono hmono hrj
    · simp only [St.touch, FS.isDir, set_self, Node.isDir]

theorem compatKids_of_below {fs fs' : FS} {q : Path} (kids : List (Str × Tree))
    (h : ∀ n k, (n, k) ∈ kids → ∀ x, (q ++ [n]) <+: x → fs' x = fs x) (hc : CompatKids fs q kids) :
    CompatKids fs' q kids := by
  induction kids with
  | nil => trivial
  | cons nk r ih =>
    obtain ⟨n, k⟩ := nk
    simp only [CompatKids] at hc ⊢
    exact ⟨compat_mono k (h n k List.mem_cons_self) hc.1,
      ih (fun n' k' hm => h n' k' (List.mem_cons_of_mem _ hm)) hc.2⟩

/-! ## the round trip onto existing nodes -/

mutual
/-- **Round trip of one tree onto whatever of it is already there.** -/
theorem feed_tree_merge (hc : CntOk o) (hnf : o.fsize = none) (ss : Bool) (t : Tree) (n : Str) (budget : Nat)
    (st : St) (f : Frame) (rest : List Frame) (q : Path) (h : AtDir o st f rest q) (hns : Pend o f)
    (hb : f.targ.length + budget < PCP_PATH_MAX) (hg : GoodTree budget n t) (hcp : Compat st.fs q n t) :
    Fed o st ((treeBytes o.preserve ss n t).foldl (step o) st) f rest q (mergeTree o ss st.fs q n t) 0 := by
  by_cases hfresh : FreshBelow st.fs (q ++ [n])
  · -- nothing there: `feed_tree`
    rw [mergeTree_fresh o ss t budget st.fs q n hg hfresh]
    have := feed_tree hc ss t n budget st f rest q h hns hb hg hfresh
    rwa [faults_none o hnf] at this
  cases t with
  | file m tt a d =>
    simp only [Compat] at hcp
    rcases hcp with hf | ⟨om, ot, od, hold⟩
    · exact absurd hf hfresh
    simp only [GoodTree] at hg
    obtain ⟨hn, hnb, ht, ha, hd⟩ := hg
    have hfit : o.fitsB d.length = true := by simp [Opts.fitsB, hnf]
    have hmono : ∀ (mo : Nat) (tm : Option Time) (dd : Str), DirMono st.fs (st.fs.set (q ++ [n]) (.file mo tm dd)) :=
      fun mo tm dd => dirMono_set_same _ hold rfl
    simp only [treeBytes, mergeTree, hold]
    by_cases hp : o.preserve = true
    · simp only [hp, ↓reduceIte, timesRecord]
      rw [List.foldl_append, feed_T h.phase h.stack (tt / USEC) (sentUsec ss tt) (a / USEC) (sentUsec ss a)
        (sent_lt ss ht).1 (sent_lt ss ht).2 (sent_lt ss ha).1 (sent_lt ss ha).2]
      have hC := feed_C_over hc
        (st := { st with out := .ack :: st.out,
                         stack := { f with setimes := true, mt := sentTime ss tt, atm := sentTime ss a } :: rest, phase := .start })
        (f := { f with setimes := true, mt := sentTime ss tt, atm := sentTime ss a }) (rest := rest) (q := q) rfl rfl h.isdir
        h.res h.dir hn hold (by simp only; omega) m d hd hfit ⟨usecOk_sent _ _, usecOk_sent _ _⟩
      rw [hC]
      simp only [↓reduceIte]
      refine ⟨⟨_, ⟨rfl, rfl, h.isdir, resolve_mono (hmono _ _ _) h.res, hmono _ _ _ _ h.dir,
        verifyOk_mono (hmono _ _ _) h.ver, ⟨usecOk_sent _ _, usecOk_sent _ _⟩⟩, (fun e => by cases e), rfl⟩, rfl,
        hmono _ _ _, ⟨[.ack, .ack, .ack], rfl, Rs.nil.ack.ack.ack⟩⟩
    · have hp' : o.preserve = false := by simpa using hp
      have hns' : f.setimes = false := by
        cases hfs : f.setimes with
        | false => rfl
        | true => rw [hns hfs] at hp'; cases hp'
      simp only [hp', Bool.false_eq_true, ↓reduceIte, List.nil_append]
      rw [feed_C_over hc h.phase h.stack h.isdir h.res h.dir hn hold (by omega) m d hd hfit h.us]
      simp only [hns', Bool.false_eq_true, ↓reduceIte]
      refine ⟨⟨_, ⟨rfl, rfl, h.isdir, resolve_mono (hmono _ _ _) h.res, hmono _ _ _ _ h.dir,
        verifyOk_mono (hmono _ _ _) h.ver, h.us⟩, (fun e => by cases e), rfl⟩, rfl, hmono _ _ _,
        ⟨[.ack, .ack], rfl, Rs.nil.ack.ack⟩⟩
  | dir m tt a kids =>
    simp only [Compat] at hcp
    rcases hcp with hf | ⟨dm, dt, hold, hck⟩
    · exact absurd hf hfresh
    simp only [GoodTree] at hg
    obtain ⟨hn, hnb, ht, ha, hk⟩ := hg
    have htne : f.targ ≠ [] := (resolve_walkOk h.res).1
    -- the state and the parent frame after the optional `T` record
    obtain ⟨st1, f1, hst1, hf1t, hf1d, hf1u, hf1s, hst1fs, hst1ph, hst1st, hst1out⟩ :
        ∃ st1 f1, (if o.preserve then timesRecord ss tt a else []).foldl (step o) st = st1 ∧ f1.targ = f.targ ∧
          f1.targisdir = true ∧ (usecOk f1.atm = true ∧ usecOk f1.mt = true) ∧
          (f1.setimes = o.preserve ∧ (o.preserve = true → f1.mt = sentTime ss tt)) ∧ st1.fs = st.fs ∧
          st1.phase = .start ∧ st1.stack = f1 :: rest ∧
          ∃ acks, st1.out = acks ++ st.out ∧ Rs acks 0 := by
      by_cases hp : o.preserve = true
      · simp only [hp, ↓reduceIte, timesRecord]
        rw [feed_T h.phase h.stack (tt / USEC) (sentUsec ss tt) (a / USEC) (sentUsec ss a) (sent_lt ss ht).1
          (sent_lt ss ht).2 (sent_lt ss ha).1 (sent_lt ss ha).2]
        exact ⟨_, { f with setimes := true, mt := sentTime ss tt, atm := sentTime ss a }, rfl, rfl, h.isdir,
          ⟨usecOk_sent _ _, usecOk_sent _ _⟩, ⟨rfl, fun _ => rfl⟩, rfl, rfl, rfl, [.ack], rfl, Rs.nil.ack⟩
      · have hp' : o.preserve = false := by simpa using hp
        simp only [hp', Bool.false_eq_true, ↓reduceIte, List.foldl_nil]
        have hns' : f.setimes = false := by
          cases hfs : f.setimes with
          | false => rfl
          | true => rw [hns hfs] at hp'; cases hp'
        exact ⟨_, f, rfl, rfl, h.isdir, h.us, ⟨hns', fun e => by cases e⟩, rfl, h.phase, h.stack, [], rfl, Rs.nil⟩
    obtain ⟨acks1, hacks1, hacks1a⟩ := hst1out
    -- the `D` record: the directory is there
    have hD := feed_D_over (o := o) (st := st1) (f := f1) (rest := rest) (q := q) hst1ph hst1st hf1d
      (by rw [hst1fs, hf1t]; exact h.res) (by rw [hst1fs]; exact h.dir) (by rw [hst1fs]; exact h.ver) hn
      (by rw [hst1fs]; exact hold) (by rw [hf1t]; omega) m
    generalize hst2 : (dRecord m n).foldl (step o) st1 = st2 at hD
    have hfs2 : st2.fs =
        (if o.preserve then st.fs.set (q ++ [n]) (.dir ((m &&& RCP_MODEMASK) % 4096) dt) else st.fs) := by
      rw [hD, hst1fs]
    have hmono2 : DirMono st.fs st2.fs := by
      rw [hfs2]
      split
      · exact dirMono_set_same _ hold rfl
      · exact DirMono.refl _
    have hrj := resolve_join h.res h.dir hn.plain hn.short (by omega)
    let chf : Frame := { targ := joinName f.targ n, targisdir := true, setimes := false, mt := default, atm := default }
    have hat2 : AtDir o st2 chf (f1 :: rest) (q ++ [n]) := by
      refine ⟨by rw [hD], by rw [hD, hf1t], rfl, resolve_mono hmono2 hrj, ?_, verifyOk_mono hmono2 h.ver,
        ⟨usecOk_zero _, usecOk_zero _⟩⟩
      exact hmono2 _ (by simp [FS.isDir, hold, Node.isDir])
    -- the children are compatible with what the `D` record left
    have hck2 : CompatKids st2.fs (q ++ [n]) kids := by
      apply compatKids_mono kids _ hck
      intro x _ hne
      rw [hfs2]
      split
      · exact set_other _ _ _ _ hne
      · rfl
    have hK := feed_kids_merge hc hnf ss kids (budget - (n.length + 1)) st2 chf (f1 :: rest) (q ++ [n]) hat2
      (fun e => by cases e)
      (by
        show (joinName f.targ n).length + _ < _
        rw [joinName_cons_length _ _ htne]; omega) hk hck2
    generalize hst3 : (kidsBytes o.preserve ss kids).foldl (step o) st2 = st3 at hK
    obtain ⟨⟨f3, hat3, hf3s, hf3t⟩, hfs3, hmono3, acks3, hacks3, hacks3a⟩ := hK
    -- the `E` record
    obtain ⟨mode3, tm3, hnode3⟩ := isDir_node hat3.dir
    have hE := feed_E (o := o) (st := st3) (ch := f3) (f := f1) (rest := rest) (q' := q ++ [n]) hat3.phase
      hat3.stack hat3.res hnode3 (by rw [hf3t]; exact trailingSlash_join _ hn.plain) hf1u
    have hbytes : (treeBytes o.preserve ss n (.dir m tt a kids)).foldl (step o) st = exitFlag.foldl (step o) st3 := by
      simp only [treeBytes, List.foldl_append]
      rw [hst1, hst2, hst3]
    rw [hbytes, hE]
    have hmonoE : DirMono st3.fs (if f1.setimes = true then st3.fs.set (q ++ [n]) (.dir mode3 (some f1.mt)) else st3.fs) := by
      split
      · exact dirMono_set_same _ hnode3 rfl
      · exact DirMono.refl _
    have hmonoAll := (hmono2.trans hmono3).trans hmonoE
    refine ⟨⟨_, ⟨rfl, rfl, hf1d, ?_, hmonoAll _ h.dir, verifyOk_mono hmonoAll h.ver, hf1u⟩, (fun e => by cases e), hf1t⟩,
      ?_, hmonoAll, ?_⟩
    · show resolve _ o.cwd f1.targ = some q
      rw [hf1t]; exact resolve_mono hmonoAll h.res
    · -- the file system is `mergeTree`
      show (if f1.setimes = true then st3.fs.set (q ++ [n]) (.dir mode3 (some f1.mt)) else st3.fs) = _
      simp only [mergeTree, hold]
      rw [hfs3, hfs2] at *
      by_cases hp : o.preserve = true
      · have hs1 : f1.setimes = true := by rw [hf1s.1]; exact hp
        simp only [hp, ↓reduceIte] at hnode3 ⊢
        simp only [hs1, ↓reduceIte, hf1s.2 hp]
        unfold setMtimeAt
        rw [hnode3]
        rfl
      · have hp' : o.preserve = false := by simpa using hp
        have hs1 : f1.setimes = false := by rw [hf1s.1]; exact hp'
        simp only [hs1, hp', Bool.false_eq_true, ↓reduceIte]
    · refine ⟨.ack :: (acks3 ++ (.ack :: acks1)), ?_, ?_⟩
      · show Reply.ack :: st3.out = _
        rw [hacks3, hD]
        simp only [hacks1, List.cons_append, List.append_assoc]
      · have := (hacks3a.append hacks1a.ack).ack
        simpa using this
/-- **Round trip of a list of sibling trees onto whatever is already there.** -/
theorem feed_kids_merge (hc : CntOk o) (hnf : o.fsize = none) (ss : Bool) (kids : List (Str × Tree)) (budget : Nat)
    (st : St) (f : Frame) (rest : List Frame) (q : Path) (h : AtDir o st f rest q) (hns : Pend o f)
    (hb : f.targ.length + budget < PCP_PATH_MAX) (hg : GoodKids budget kids) (hcp : CompatKids st.fs q kids) :
    Fed o st ((kidsBytes o.preserve ss kids).foldl (step o) st) f rest q (mergeKids o ss st.fs q kids) 0 := by
  cases kids with
  | nil =>
    simp only [kidsBytes, List.foldl_nil, mergeKids]
    exact ⟨⟨f, h, hns, rfl⟩, rfl, DirMono.refl _, [], rfl, Rs.nil⟩
  | cons nk r =>
    obtain ⟨n, k⟩ := nk
    simp only [GoodKids] at hg
    obtain ⟨hgk, hdist, hgr⟩ := hg
    simp only [CompatKids] at hcp
    simp only [kidsBytes, List.foldl_append, mergeKids]
    have h1 := feed_tree_merge hc hnf ss k n budget st f rest q h hns hb hgk hcp.1
    generalize (treeBytes o.preserve ss n k).foldl (step o) st = st1 at h1
    obtain ⟨⟨f1, hat1, hf1s, hf1t⟩, hfs1, hmono1, acks1, hacks1, hacks1a⟩ := h1
    have hcp1 : CompatKids st1.fs q r := by
      rw [hfs1]
      exact compatKids_of_below r (fun n' k' hm x hx =>
        mergeTree_other o ss st.fs q n k x (prefix_snoc_ne hx) (ne_prefix_snoc' (hdist (n', k') hm) hx)) hcp.2
    have h2 := feed_kids_merge hc hnf ss r budget st1 f1 rest q hat1 hf1s (by rw [hf1t]; exact hb) hgr hcp1
    generalize (kidsBytes o.preserve ss r).foldl (step o) st1 = st2 at h2
    obtain ⟨⟨f2, hat2, hf2s, hf2t⟩, hfs2, hmono2, acks2, hacks2, hacks2a⟩ := h2
    refine ⟨⟨f2, hat2, hf2s, hf2t.trans hf1t⟩, by rw [hfs2, hfs1], hmono1.trans hmono2, acks2 ++ acks1, ?_, ?_⟩
    · rw [hacks2, hacks1, List.append_assoc]
    · have := hacks2a.append hacks1a
      simpa using this
end

/-! ## reading the result -/

/-- the node at the root of any sibling tree is not disturbed by the trees that follow it -/
theorem mergeKids_lookup (o : Opts) (ss : Bool) (fs : FS) (q : Path) (kids : List (Str × Tree)) (n : Str) (k : Tree)
    (hm : (n, k) ∈ kids) (hd : kids.Pairwise (fun a b => a.1 ≠ b.1)) :
    ∃ fs0, mergeKids o ss fs q kids (q ++ [n]) = mergeTree o ss fs0 q n k (q ++ [n]) := by
  induction kids generalizing fs with
  | nil => cases hm
  | cons nk r ih =>
    obtain ⟨n0, k0⟩ := nk
    simp only [mergeKids]
    rcases List.mem_cons.1 hm with e | hm'
    · cases e
      refine ⟨fs, ?_⟩
      apply mergeKids_other
      · intro e; have := congrArg List.length e; simp at this
      · intro n' k' hm2 hpre
        have hne : n ≠ n' := (List.pairwise_cons.1 hd).1 (n', k') hm2
        have e2 : q ++ [n'] = q ++ [n] := hpre.eq_of_length (by simp)
        have := List.append_cancel_left e2
        simp at this
        exact hne this.symm
    · exact ih _ hm' (List.pairwise_cons.1 hd).2

/-- whatever was at its place -- nothing, or a regular file with any contents --, a regular file of the source
holds exactly the source's bytes afterwards -/
theorem merged_file_data (o : Opts) (hnf : o.fsize = none) (ss : Bool) (fs : FS) (q : Path) (kids : List (Str × Tree))
    (n : Str) (m t a : Nat) (d : Str) (hm : (n, Tree.file m t a d) ∈ kids)
    (hd : kids.Pairwise (fun a b => a.1 ≠ b.1)) :
    ∃ mo tm, mergeKids o ss fs q kids (q ++ [n]) = some (.file mo tm d) := by
  obtain ⟨fs0, h⟩ := mergeKids_lookup o ss fs q kids n _ hm hd
  rw [h]
  have hfit : o.fitsB d.length = true := by simp [Opts.fitsB, hnf]
  simp only [mergeTree]
  cases hfs : fs0 (q ++ [n]) with
  | none =>
    dsimp only
    rw [set_self]
    simp only [recvFileNode, hfit, ↓reduceIte, recvFile]
    exact ⟨_, _, rfl⟩
  | some nd =>
    cases nd with
    | file om ot od =>
      dsimp only
      rw [set_self]
      exact ⟨_, _, rfl⟩
    | dir dm dt =>
      dsimp only
      rw [set_self]
      simp only [recvFileNode, hfit, ↓reduceIte, recvFile]
      exact ⟨_, _, rfl⟩

end PdshVerif.Pcp
