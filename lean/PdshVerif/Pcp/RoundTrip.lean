import PdshVerif.Pcp.Feed
import PdshVerif.Pcp.Wire
import PdshVerif.Pcp.FsLemmas

/-! Round trip of one file through the byte automaton (C11): the records and data the sender
prints for a regular file, fed to the receiver at a record boundary inside a directory, install
exactly that file -- for every size, including 0 and sizes beyond several transfer blocks. -/
namespace PdshVerif.Pcp
open PdshVerif.Gen

/-- names in the domain of C11: one plain path component (not empty, no `/`, not `.`/`..`) that can
travel in a record (no NUL, no newline) and fits NAME_MAX -/
structure GoodName (n : Str) : Prop where
  plain : PlainName n
  wire : WireName n
  short : n.length ≤ PCP_NAME_MAX

theorem nameOk_plain (rule : NameRule) {n : Str} (h : PlainName n) : nameOk rule n = true := by
  cases rule with
  | none => rfl
  | slashDotdot =>
    simp only [nameOk, narrowNameOk, Bool.and_eq_true, Bool.not_eq_true', List.contains_eq_mem,
      decide_eq_false_iff_not, beq_eq_false_iff_ne]
    exact ⟨h.noslash, h.nodotdot⟩
  | scp =>
    simp only [nameOk, scpNameOk, Bool.and_eq_true, Bool.not_eq_true', List.isEmpty_eq_false_iff,
      List.contains_eq_mem, decide_eq_false_iff_not, beq_eq_false_iff_ne]
    exact ⟨⟨⟨h.ne, h.noslash⟩, h.nodot⟩, h.nodotdot⟩

/-! ## digit strings are short -/

theorem decAux_length_le (f n : Nat) (acc : Str) (k : Nat) (hk : 1 ≤ k) (hn : n < 10 ^ k) :
    (decAux f n acc).length ≤ acc.length + k := by
  induction f generalizing n acc k with
  | zero => simp [decAux]
  | succ f ih =>
    unfold decAux
    split
    · simp only [List.length_cons]; omega
    · rename_i h10
      have hk2 : 2 ≤ k := by
        rcases Nat.lt_or_ge k 2 with h | h
        · have : k = 1 := by omega
          subst this
          simp at hn
          omega
        · exact h
      have hdiv : n / 10 < 10 ^ (k - 1) := by
        apply Nat.div_lt_of_lt_mul
        have : 10 ^ k = 10 * 10 ^ (k - 1) := by
          rw [← Nat.pow_succ']
          congr 1
          omega
        omega
      have := ih (n / 10) (digitByte (n % 10) :: acc) (k - 1) (by omega) hdiv
      simp only [List.length_cons] at this
      omega

theorem dec_length_le (n : Nat) (hn : n < 2 ^ 63) : (dec n).length ≤ 19 := by
  have := decAux_length_le (n + 1) n [] 19 (by omega) (by
    have : (2 : Nat) ^ 63 < 10 ^ 19 := by decide
    omega)
  simpa [dec] using this

/-! ## single equations of `handleRecord` / `handleFile` -/

variable {o : Opts}

theorem handleRecord_times {st : St} {f : Frame} {rest : List Frame} (hs : st.stack = f :: rest)
    {line : Str} {ch : UInt8} {mt atm : Time} (hc : classify line ch = .times mt atm) :
    handleRecord o st line ch =
      { st with out := .ack :: st.out, stack := { f with setimes := true, mt := mt, atm := atm } :: rest,
                phase := .start } := by
  unfold handleRecord
  simp only [hs, hc]

theorem handleRecord_ctl {st : St} {f : Frame} {rest : List Frame} (hs : st.stack = f :: rest)
    {line : Str} {ch : UInt8} {isDir : Bool} {mode : Nat} {size : Int} {name : Str}
    (hc : classify line ch = .ctl isDir mode size name) (hn : nameOk o.rule name = true)
    (htd : f.targisdir = true) :
    handleRecord o st line ch =
      if isDir then handleDir o st (joinName f.targ name) mode
      else handleFile o st (joinName f.targ name) mode size := by
  unfold handleRecord
  simp only [hs, hc, hn, Bool.not_true, Bool.false_eq_true, ↓reduceIte, htd]
  have hfl : decide (f.targ.length + name.length + 250 < (joinName f.targ name).length + 1) = false := by
    have := joinName_length f.targ name
    simp only [decide_eq_false_iff_not]
    omega
  simp only [hfl, Bool.and_false, St.flag_false]

theorem handleRecord_exit {st : St} {f : Frame} {rest : List Frame} (hs : st.stack = f :: rest)
    {line : Str} {ch : UInt8} (hc : classify line ch = .exit) :
    handleRecord o st line ch = leave o (st.reply .ack) := by
  unfold handleRecord
  simp only [hs, hc]

theorem handleFile_fresh {st : St} {np : Str} {q : Path} {n : Str} (mode : Nat) (size : Int)
    (hr : resolve st.fs o.cwd np = some (q ++ [n])) (hf : st.fs (q ++ [n]) = none)
    (ht : trailingSlash np = false) :
    handleFile o st np mode size =
      if size ≤ 0 then
        afterData o { st with fs := (st.fs.bumpDir q).set (q ++ [n]) (.file (maskOff mode o.eumask) none []),
                              touched := (q ++ [n]) :: st.touched, out := .ack :: st.out }
          (q ++ [n]) np size 0 [] []
      else
        { st with fs := (st.fs.bumpDir q).set (q ++ [n]) (.file (maskOff mode o.eumask) none []),
                  touched := (q ++ [n]) :: st.touched, out := .ack :: st.out,
                  phase := .data (q ++ [n]) np size size.toNat (min BUFSZ size.toNat) (min BUFSZ size.toNat) 0 [] [] } := by
  unfold handleFile
  simp only [stat_fresh hr hf, openCreat_fresh mode o.eumask hr hf ht, Option.isSome_none, Bool.false_and,
    Bool.false_eq_true, ↓reduceIte]
  rfl

/-- a file of `n` bytes fits the receiver's file size limit (always, when there is none) -/
def Opts.fitsB (o : Opts) (n : Nat) : Bool :=
  match o.fsize with
  | none => true
  | some l => decide (n ≤ l)

theorem fits_facts {w : Str} (h : o.fitsB w.length = true) :
    o.writable w = w ∧ o.writeFails w = false ∧ ∀ cur, o.truncFails cur w.length = false := by
  unfold Opts.fitsB at h
  unfold Opts.writable Opts.writeFails Opts.truncFails
  cases hl : o.fsize with
  | none => simp
  | some l =>
    simp only [hl, decide_eq_true_eq] at h
    refine ⟨List.take_of_length_le h, by simp; omega, fun cur => by simp; omega⟩

theorem toobig_facts {w : Str} (h : o.fitsB w.length = false) :
    ∃ l, o.fsize = some l ∧ l < w.length ∧ o.writable w = w.take l ∧
      o.truncFails (w.take l).length w.length = true := by
  unfold Opts.fitsB at h
  cases hl : o.fsize with
  | none => simp [hl] at h
  | some l =>
    simp only [hl, decide_eq_false_iff_not] at h
    refine ⟨l, rfl, by omega, by simp [Opts.writable, hl], ?_⟩
    simp [Opts.truncFails, hl, List.length_take]
    omega

theorem set_same (fs : FS) (p : Path) (nd : Node) (h : fs p = some nd) : fs.set p nd = fs := by
  funext x
  by_cases e : x = p
  · simp [FS.set, e, h]
  · simp [FS.set, e]

/-- end of the data of a file that was just created (`old` contents empty) and fits the file size
limit: it holds exactly `w` -/
theorem afterData_created {st : St} {p : Path} {np : Str} {mode : Nat} {tm : Option Time} {count : Nat}
    {pr wr w : Str} (hfit : o.fitsB w.length = true) (hf : st.fs p = some (.file mode tm []))
    (hw : (if count ≠ 0 then pr ++ wr else wr) = w.reverse) :
    afterData o st p np (w.length : Int) count pr wr =
      { st with fs := st.fs.set p (.file mode none w), phase := .resp np .no } := by
  obtain ⟨f1, f2, f3⟩ := fits_facts hfit
  unfold afterData
  have hlt : ¬ ((w.length : Int) < 0) := by omega
  simp only [collected, hw, List.reverse_reverse, hlt, ↓reduceIte, Int.toNat_natCast, f1, f2, f3,
    Bool.false_eq_true]
  congr 1
  by_cases he : w = []
  · subst he
    simp only [List.isEmpty_nil, ↓reduceIte, List.length_nil]
    have h1 : fileData st.fs p = [] := by simp [fileData, hf]
    rw [h1, setData_of_file hf]
    simp [resize]
  · have hne : w.isEmpty = false := by simpa using he
    simp only [hne, Bool.false_eq_true, ↓reduceIte]
    have h1 : fileData st.fs p = [] := by simp [fileData, hf]
    have h2 : setData st.fs p (overwrite [] w) = st.fs.set p (.file mode none w) := by
      rw [setData_of_file hf, overwrite_nil]
    rw [h1, h2]
    have h3 : fileData (st.fs.set p (.file mode none w)) p = w := by simp [fileData, set_self]
    rw [h3, resize_exact, setData_of_file (set_self _ _ _), set_set]

/-- the same for a file larger than the limit: the write that crosses the limit is short, the later
ones fail, `ftruncate` fails: the file keeps the first `limit` bytes and ONE error record is sent -/
theorem afterData_toobig {st : St} {p : Path} {np : Str} {mode : Nat} {count : Nat}
    {pr wr w : Str} (hfit : o.fitsB w.length = false) (hf : st.fs p = some (.file mode none []))
    (hw : (if count ≠ 0 then pr ++ wr else wr) = w.reverse) :
    afterData o st p np (w.length : Int) count pr wr =
      { st with fs := st.fs.set p (.file mode none (o.writable w)), out := .err .trunc :: st.out,
                phase := .resp np .displayed } := by
  obtain ⟨l, hl, hlt', hwr, htf⟩ := toobig_facts hfit
  unfold afterData
  have hlt : ¬ ((w.length : Int) < 0) := by omega
  simp only [collected, hw, List.reverse_reverse, hlt, ↓reduceIte, Int.toNat_natCast, hwr]
  have h1 : fileData st.fs p = [] := by simp [fileData, hf]
  have hfs1 : (if (w.take l).isEmpty then st.fs else setData st.fs p (overwrite (fileData st.fs p) (w.take l))) =
      st.fs.set p (.file mode none (w.take l)) := by
    by_cases he : w.take l = []
    · simp only [he, List.isEmpty_nil, ↓reduceIte]
      exact (set_same _ _ _ hf).symm
    · have hne : (w.take l).isEmpty = false := by simpa using he
      simp only [hne, Bool.false_eq_true, ↓reduceIte]
      rw [h1, setData_of_file hf, overwrite_nil]
  rw [hfs1]
  have h3 : fileData (st.fs.set p (.file mode none (w.take l))) p = w.take l := by simp [fileData, set_self]
  rw [h3, htf]
  simp only [↓reduceIte]

end PdshVerif.Pcp

namespace PdshVerif.Pcp
open PdshVerif.Gen
variable {o : Opts}

theorem NAME_MAX_eq : PCP_NAME_MAX = 255 := rfl
theorem PATH_MAX_eq : PCP_PATH_MAX = 4096 := rfl
theorem MODEMASK_eq : RCP_MODEMASK = 4095 := rfl

theorem and_mask_lt (m : Nat) : m &&& RCP_MODEMASK < 4096 := by
  have : m &&& RCP_MODEMASK ≤ RCP_MODEMASK := Nat.and_le_right
  rw [MODEMASK_eq] at this ⊢
  omega

/-- the body of a `C`/`D` record -/
def ctlBody (mm size : Nat) (n : Str) : Str := oct4 mm ++ cSp :: (dec size ++ cSp :: n)

theorem cRecord_eq (m size : Nat) (n : Str) :
    cRecord m size n = cC :: ctlBody (m &&& RCP_MODEMASK) size n ++ [cNl] := by
  simp [cRecord, ctlBody]

theorem dRecord_eq (m : Nat) (n : Str) :
    dRecord m n = cD :: ctlBody (m &&& RCP_MODEMASK) 0 n ++ [cNl] := by
  simp [dRecord, ctlBody, dec_zero]

theorem ctlBody_props (mm size : Nat) {n : Str} (hn : GoodName n) (hs : size < 2 ^ 63) :
    cNl ∉ ctlBody mm size n ∧ (∀ x ∈ ctlBody mm size n, x ≠ 0) ∧ (ctlBody mm size n).length + 2 < BUFSZ - 1 := by
  have hB := BUFSZ_eq
  have hN := NAME_MAX_eq
  have hl := dec_length_le size hs
  have hshort := hn.short
  refine ⟨?_, ?_, ?_⟩
  · intro hmem
    simp only [ctlBody, List.mem_append, List.mem_cons] at hmem
    rcases hmem with h | h | h | h | h
    · exact oct4_mem mm (· ≠ cNl) (fun d hd => digitByte_ne_nl hd) _ h rfl
    · revert h; decide
    · exact dec_mem size (· ≠ cNl) (fun d hd => digitByte_ne_nl hd) _ h rfl
    · revert h; decide
    · exact hn.wire.nonl h
  · intro x hmem
    simp only [ctlBody, List.mem_append, List.mem_cons] at hmem
    rcases hmem with h | h | h | h | h
    · exact oct4_mem mm (· ≠ 0) (fun d hd => digitByte_ne_zero hd) _ h
    · subst h; decide
    · exact dec_mem size (· ≠ 0) (fun d hd => digitByte_ne_zero hd) _ h
    · subst h; decide
    · intro e; subst e; exact hn.wire.nonul h
  · simp only [ctlBody, List.length_append, List.length_cons, oct4, List.length_nil]
    omega

/-- a printed `C`/`D` record is parsed back -/
theorem classify_ctl (c : UInt8) (hc : c = cC ∨ c = cD) (mm size : Nat) {n : Str} (hn : GoodName n)
    (hmm : mm < 4096) (hs : size < 2 ^ 63) :
    classify (c :: ctlBody mm size n ++ [cNl]) cNl = .ctl (c == cD) mm (size : Int) n := by
  obtain ⟨_, hz, _⟩ := ctlBody_props mm size hn hs
  have hc1 : c ≠ 1 := by rcases hc with rfl | rfl <;> decide
  have hc2 : c ≠ 2 := by rcases hc with rfl | rfl <;> decide
  have hcE : c ≠ cE := by rcases hc with rfl | rfl <;> decide
  have hcT : c ≠ cT := by rcases hc with rfl | rfl <;> decide
  have hc0 : c ≠ 0 := by rcases hc with rfl | rfl <;> decide
  rw [classify_line c _ hc1 hc2 hcE (by
    intro x hx
    simp only [List.mem_cons] at hx
    rcases hx with rfl | hx
    · exact hc0
    · exact hz x hx)]
  have hcd : (c = cC || c = cD) = true := by rcases hc with rfl | rfl <;> decide
  simp only [hcT, ↓reduceIte, hcd]
  unfold classifyCtl
  unfold ctlBody
  rw [parseCtl_print mm size n hmm hs]

end PdshVerif.Pcp

namespace PdshVerif.Pcp
open PdshVerif.Gen
variable {o : Opts}

/-- the node a regular file of the source arrives as; `tm` = the pending `T` record, if any -/
def recvFile (o : Opts) (m : Nat) (tm : Option Time) (d : Str) : Node :=
  .file (maskOff (m &&& RCP_MODEMASK) o.eumask) tm d

/-- **One file, any size.**  At a record boundary inside a directory (`targ` resolves to the existing
directory `q`), with `name` not yet present, the bytes `C<mode> <size> <name>\n <data> \0` install
exactly that file, are acknowledged twice and touch only `q/name`; a pending `T` record becomes the
file's modification time. -/
theorem feed_C (hc : CntOk o) {st : St} {f : Frame} {rest : List Frame} {q : Path}
    (hph : st.phase = .start) (hs : st.stack = f :: rest) (htd : f.targisdir = true)
    (hr : resolve st.fs o.cwd f.targ = some q) (hd : st.fs.isDir q = true)
    {n : Str} (hn : GoodName n) (hfresh : st.fs (q ++ [n]) = none)
    (hlen : f.targ.length + n.length + 1 < PCP_PATH_MAX)
    (m : Nat) (d : Str) (hsz : d.length < 2 ^ 63) (hfit : o.fitsB d.length = true)
    (hus : usecOk f.atm = true ∧ usecOk f.mt = true) :
    (cRecord m d.length n ++ d ++ [0]).foldl (step o) st =
      { st with
        fs := (st.fs.bumpDir q).set (q ++ [n]) (recvFile o m (if f.setimes then some f.mt else none) d)
        out := .ack :: .ack :: st.out
        touched := (if f.setimes then [q ++ [n]] else []) ++ (q ++ [n]) :: st.touched
        stack := { f with setimes := false } :: rest
        phase := .start } := by
  have hB := BUFSZ_eq
  obtain ⟨hnl, _, hlen2⟩ := ctlBody_props (m &&& RCP_MODEMASK) d.length hn hsz
  -- the control record
  rw [List.foldl_append, List.foldl_append, cRecord_eq,
    foldl_line st hph cC _ (by decide) hnl hlen2,
    handleRecord_ctl hs (classify_ctl cC (Or.inl rfl) _ _ hn (and_mask_lt m) hsz)
      (nameOk_plain _ hn.plain) htd]
  have hbeq : (cC == cD) = false := by decide
  simp only [hbeq, Bool.false_eq_true, ↓reduceIte]
  have hrj := resolve_join hr hd hn.plain hn.short hlen
  rw [handleFile_fresh _ _ hrj hfresh (trailingSlash_join _ hn.plain)]
  -- abbreviations
  generalize hfs2 : (st.fs.bumpDir q).set (q ++ [n]) (Node.file (maskOff (m &&& RCP_MODEMASK) o.eumask) none []) = fs2
  have hfs2p : fs2 (q ++ [n]) = some (.file (maskOff (m &&& RCP_MODEMASK) o.eumask) none []) := by
    rw [← hfs2]; exact set_self _ _ _
  -- the state after the data
  have hdata : d.foldl (step o)
      (if (d.length : Int) ≤ 0 then
        afterData o { st with fs := fs2, touched := (q ++ [n]) :: st.touched, out := .ack :: st.out }
          (q ++ [n]) (joinName f.targ n) d.length 0 [] []
      else
        { st with fs := fs2, touched := (q ++ [n]) :: st.touched, out := .ack :: st.out,
                  phase := .data (q ++ [n]) (joinName f.targ n) d.length (d.length : Int).toNat
                    (min BUFSZ (d.length : Int).toNat) (min BUFSZ (d.length : Int).toNat) 0 [] [] }) =
      { st with fs := fs2.set (q ++ [n]) (.file (maskOff (m &&& RCP_MODEMASK) o.eumask) none d),
                touched := (q ++ [n]) :: st.touched, out := .ack :: st.out,
                phase := .resp (joinName f.targ n) .no } := by
    by_cases hd0 : d = []
    · subst hd0
      simp only [List.length_nil, Int.natCast_zero, Int.le_refl, ↓reduceIte, List.foldl_nil]
      exact afterData_created (w := []) hfit hfs2p (by simp)
    · have hpos : 0 < d.length := List.length_pos_iff.2 hd0
      have hnle : ¬ ((d.length : Int) ≤ 0) := by omega
      simp only [hnle, ↓reduceIte, Int.toNat_natCast]
      obtain ⟨c', pr', wr', he, hw⟩ := foldl_data hc d
        { st with fs := fs2, touched := (q ++ [n]) :: st.touched, out := .ack :: st.out,
                  phase := .data (q ++ [n]) (joinName f.targ n) d.length d.length
                    (min BUFSZ d.length) (min BUFSZ d.length) 0 [] [] }
        (q ++ [n]) (joinName f.targ n) d.length d.length
        (min BUFSZ d.length) (min BUFSZ d.length) 0 [] [] rfl (by
          have h1 := hc.pos
          have h2 := hc.mult
          simp only [phaseOk, BUFSZ_eq] at *
          exact ⟨by omega, by omega, by omega, by omega, fun hlt => by omega⟩) rfl rfl
      rw [he]
      exact afterData_created hfit hfs2p (by simpa using hw)
  rw [hdata]
  -- the response byte
  simp only [List.foldl_cons, List.foldl_nil]
  unfold step
  simp only [↓reduceIte]
  unfold afterResponse
  simp only [hs]
  have hset : fs2.set (q ++ [n]) (.file (maskOff (m &&& RCP_MODEMASK) o.eumask) none d) =
      (st.fs.bumpDir q).set (q ++ [n]) (.file (maskOff (m &&& RCP_MODEMASK) o.eumask) none d) := by
    rw [← hfs2, set_set]
  by_cases hset' : f.setimes = true
  · -- a `T` record is pending: utimes
    simp only [hset', beq_self_eq_true, Bool.and_self, ↓reduceIte]
    have hmono : DirMono st.fs (fs2.set (q ++ [n]) (.file (maskOff (m &&& RCP_MODEMASK) o.eumask) none d)) := by
      rw [hset]
      exact (dirMono_bumpDir _ _).trans (dirMono_set_fresh _ (bumpDir_none _ _ _ hfresh))
    have hstat : stat (fs2.set (q ++ [n]) (.file (maskOff (m &&& RCP_MODEMASK) o.eumask) none d)) o.cwd
        (joinName f.targ n) = some (q ++ [n], .file (maskOff (m &&& RCP_MODEMASK) o.eumask) none d) :=
      stat_some (resolve_mono hmono hrj) (set_self _ _ _) (trailingSlash_join _ hn.plain)
    have hut : utimes (fs2.set (q ++ [n]) (.file (maskOff (m &&& RCP_MODEMASK) o.eumask) none d)) o.cwd
        (joinName f.targ n) f.atm f.mt =
        some ((st.fs.bumpDir q).set (q ++ [n]) (.file (maskOff (m &&& RCP_MODEMASK) o.eumask) (some f.mt) d),
          q ++ [n]) := by
      unfold utimes
      simp only [hus.1, hus.2, Bool.and_self, Bool.not_true, Bool.false_eq_true, ↓reduceIte, hstat,
        Node.setMtime]
      rw [hset, set_set]
    simp only [doUtimes, hut, ↓reduceIte, St.reply, recvFile, List.cons_append, List.nil_append]
  · have hf' : f.setimes = false := by simpa using hset'
    have hfe : ({ f with setimes := false } : Frame) = f := by cases f; simp_all
    simp only [hf', Bool.false_and, Bool.false_eq_true, ↓reduceIte, St.reply, recvFile, hset, List.nil_append]
    rw [hfe]

/-- the control record of such a file alone draws exactly one acknowledgement (the sender waits for it
before it sends the data) -/
theorem feed_C_head {st : St} {f : Frame} {rest : List Frame} {q : Path}
    (hph : st.phase = .start) (hs : st.stack = f :: rest) (htd : f.targisdir = true)
    (hr : resolve st.fs o.cwd f.targ = some q) (hd : st.fs.isDir q = true)
    {n : Str} (hn : GoodName n) (hfresh : st.fs (q ++ [n]) = none)
    (hlen : f.targ.length + n.length + 1 < PCP_PATH_MAX)
    (m : Nat) (d : Str) (hsz : d.length < 2 ^ 63) (hfit : o.fitsB d.length = true) :
    ((cRecord m d.length n).foldl (step o) st).out = .ack :: st.out := by
  obtain ⟨hnl, _, hlen2⟩ := ctlBody_props (m &&& RCP_MODEMASK) d.length hn hsz
  rw [cRecord_eq, foldl_line st hph cC _ (by decide) hnl hlen2,
    handleRecord_ctl hs (classify_ctl cC (Or.inl rfl) _ _ hn (and_mask_lt m) hsz)
      (nameOk_plain _ hn.plain) htd]
  have hbeq : (cC == cD) = false := by decide
  simp only [hbeq, Bool.false_eq_true, ↓reduceIte]
  have hrj := resolve_join hr hd hn.plain hn.short hlen
  rw [handleFile_fresh _ _ hrj hfresh (trailingSlash_join _ hn.plain)]
  by_cases hd0 : d = []
  · subst hd0
    simp only [List.length_nil, Int.natCast_zero, Int.le_refl, ↓reduceIte]
    have := afterData_created (o := o)
      (st := { st with fs := (st.fs.bumpDir q).set (q ++ [n]) (.file (maskOff (m &&& RCP_MODEMASK) o.eumask) none []),
                       touched := (q ++ [n]) :: st.touched, out := .ack :: st.out })
      (p := q ++ [n]) (np := joinName f.targ n) (count := 0) (pr := []) (wr := []) (w := []) hfit
      (set_self _ _ _) (by simp)
    simp only [List.length_nil, Int.natCast_zero] at this
    rw [this]
  · have hpos : 0 < d.length := List.length_pos_iff.2 hd0
    have hnle : ¬ ((d.length : Int) ≤ 0) := by omega
    simp only [hnle, ↓reduceIte]

/-- **One file that is larger than the receiver's file size limit** (write fault in the middle of its
data): all of its bytes and the response byte are consumed, the record is acknowledged, ONE error
record is sent, the file holds the bytes that fitted, the pending times are not applied, and the
level continues at the next record. -/
theorem feed_C_toobig (hc : CntOk o) {st : St} {f : Frame} {rest : List Frame} {q : Path}
    (hph : st.phase = .start) (hs : st.stack = f :: rest) (htd : f.targisdir = true)
    (hr : resolve st.fs o.cwd f.targ = some q) (hd : st.fs.isDir q = true)
    {n : Str} (hn : GoodName n) (hfresh : st.fs (q ++ [n]) = none)
    (hlen : f.targ.length + n.length + 1 < PCP_PATH_MAX)
    (m : Nat) (d : Str) (hsz : d.length < 2 ^ 63) (hfit : o.fitsB d.length = false)
    (hus : usecOk f.atm = true ∧ usecOk f.mt = true) :
    (cRecord m d.length n ++ d ++ [0]).foldl (step o) st =
      { st with
        fs := (st.fs.bumpDir q).set (q ++ [n]) (.file (maskOff (m &&& RCP_MODEMASK) o.eumask) none (o.writable d))
        out := .err .trunc :: .ack :: st.out
        touched := (q ++ [n]) :: st.touched
        phase := .start } := by
  have hB := BUFSZ_eq
  obtain ⟨hnl, _, hlen2⟩ := ctlBody_props (m &&& RCP_MODEMASK) d.length hn hsz
  -- the control record
  rw [List.foldl_append, List.foldl_append, cRecord_eq,
    foldl_line st hph cC _ (by decide) hnl hlen2,
    handleRecord_ctl hs (classify_ctl cC (Or.inl rfl) _ _ hn (and_mask_lt m) hsz)
      (nameOk_plain _ hn.plain) htd]
  have hbeq : (cC == cD) = false := by decide
  simp only [hbeq, Bool.false_eq_true, ↓reduceIte]
  have hrj := resolve_join hr hd hn.plain hn.short hlen
  rw [handleFile_fresh _ _ hrj hfresh (trailingSlash_join _ hn.plain)]
  -- abbreviations
  generalize hfs2 : (st.fs.bumpDir q).set (q ++ [n]) (Node.file (maskOff (m &&& RCP_MODEMASK) o.eumask) none []) = fs2
  have hfs2p : fs2 (q ++ [n]) = some (.file (maskOff (m &&& RCP_MODEMASK) o.eumask) none []) := by
    rw [← hfs2]; exact set_self _ _ _
  -- the state after the data
  have hdata : d.foldl (step o)
      (if (d.length : Int) ≤ 0 then
        afterData o { st with fs := fs2, touched := (q ++ [n]) :: st.touched, out := .ack :: st.out }
          (q ++ [n]) (joinName f.targ n) d.length 0 [] []
      else
        { st with fs := fs2, touched := (q ++ [n]) :: st.touched, out := .ack :: st.out,
                  phase := .data (q ++ [n]) (joinName f.targ n) d.length (d.length : Int).toNat
                    (min BUFSZ (d.length : Int).toNat) (min BUFSZ (d.length : Int).toNat) 0 [] [] }) =
      { st with fs := fs2.set (q ++ [n]) (.file (maskOff (m &&& RCP_MODEMASK) o.eumask) none (o.writable d)),
                touched := (q ++ [n]) :: st.touched, out := .err .trunc :: .ack :: st.out,
                phase := .resp (joinName f.targ n) .displayed } := by
    by_cases hd0 : d = []
    · subst hd0
      exfalso
      unfold Opts.fitsB at hfit
      cases hl : o.fsize <;> simp [hl] at hfit
    · have hpos : 0 < d.length := List.length_pos_iff.2 hd0
      have hnle : ¬ ((d.length : Int) ≤ 0) := by omega
      simp only [hnle, ↓reduceIte, Int.toNat_natCast]
      obtain ⟨c', pr', wr', he, hw⟩ := foldl_data hc d
        { st with fs := fs2, touched := (q ++ [n]) :: st.touched, out := .ack :: st.out,
                  phase := .data (q ++ [n]) (joinName f.targ n) d.length d.length
                    (min BUFSZ d.length) (min BUFSZ d.length) 0 [] [] }
        (q ++ [n]) (joinName f.targ n) d.length d.length
        (min BUFSZ d.length) (min BUFSZ d.length) 0 [] [] rfl (by
          have h1 := hc.pos
          have h2 := hc.mult
          simp only [phaseOk, BUFSZ_eq] at *
          exact ⟨by omega, by omega, by omega, by omega, fun hlt => by omega⟩) rfl rfl
      rw [he]
      exact afterData_toobig hfit hfs2p (by simpa using hw)
  rw [hdata]
  -- the response byte
  simp only [List.foldl_cons, List.foldl_nil]
  unfold step
  simp only [↓reduceIte]
  unfold afterResponse
  simp only [hs]
  have hset : fs2.set (q ++ [n]) (.file (maskOff (m &&& RCP_MODEMASK) o.eumask) none (o.writable d)) =
      (st.fs.bumpDir q).set (q ++ [n]) (.file (maskOff (m &&& RCP_MODEMASK) o.eumask) none (o.writable d)) := by
    rw [← hfs2, set_set]
  have hb : (Wrerr.displayed == Wrerr.no) = false := by decide
  simp only [hb, Bool.and_false, Bool.false_eq_true, ↓reduceIte, hset]

end PdshVerif.Pcp

namespace PdshVerif.Pcp
open PdshVerif.Gen
variable {o : Opts}

/-! ## `T`, `D` and `E` records -/

def tBody (t u a v : Nat) : Str := dec t ++ cSp :: (dec u ++ cSp :: (dec a ++ cSp :: (dec v ++ [])))

theorem tRecord_eq (t u a v : Nat) : tRecord t u a v = cT :: tBody t u a v ++ [cNl] := by
  simp [tRecord, tBody]

theorem tBody_props (t u a v : Nat) (ht : t < 2 ^ 63) (hu : u < 2 ^ 63) (ha : a < 2 ^ 63) (hv : v < 2 ^ 63) :
    cNl ∉ tBody t u a v ∧ (∀ x ∈ tBody t u a v, x ≠ 0) ∧ (tBody t u a v).length + 2 < BUFSZ - 1 := by
  have hB := BUFSZ_eq
  have h1 := dec_length_le t ht
  have h2 := dec_length_le a ha
  have h3 := dec_length_le u hu
  have h4 := dec_length_le v hv
  have hnl : ∀ k, ∀ x ∈ dec k, x ≠ cNl := fun k => dec_mem k (· ≠ cNl) (fun d hd => digitByte_ne_nl hd)
  have hz : ∀ k, ∀ x ∈ dec k, x ≠ 0 := fun k => dec_mem k (· ≠ 0) (fun d hd => digitByte_ne_zero hd)
  refine ⟨?_, ?_, ?_⟩
  · intro hmem
    simp only [tBody, List.mem_append, List.mem_cons, List.not_mem_nil, or_false] at hmem
    rcases hmem with h | h | h | h | h | h | h
    · exact hnl _ _ h rfl
    · revert h; decide
    · exact hnl _ _ h rfl
    · revert h; decide
    · exact hnl _ _ h rfl
    · revert h; decide
    · exact hnl _ _ h rfl
  · intro x hmem
    simp only [tBody, List.mem_append, List.mem_cons, List.not_mem_nil, or_false] at hmem
    rcases hmem with h | h | h | h | h | h | h
    · exact hz _ _ h
    · subst h; decide
    · exact hz _ _ h
    · subst h; decide
    · exact hz _ _ h
    · subst h; decide
    · exact hz _ _ h
  · simp only [tBody, List.length_append, List.length_cons, List.length_nil]
    omega

/-- a `T` record is acknowledged and remembered in the current level -/
theorem feed_T {st : St} {f : Frame} {rest : List Frame} (hph : st.phase = .start) (hs : st.stack = f :: rest)
    (t u a v : Nat) (ht : t < 2 ^ 63) (hu : u < 2 ^ 63) (ha : a < 2 ^ 63) (hv : v < 2 ^ 63) :
    (tRecord t u a v).foldl (step o) st =
      { st with out := .ack :: st.out,
                stack := { f with setimes := true, mt := ⟨t, u⟩, atm := ⟨a, v⟩ } :: rest, phase := .start } := by
  obtain ⟨hnl, hz, hlen⟩ := tBody_props t u a v ht hu ha hv
  rw [tRecord_eq, foldl_line st hph cT _ (by decide) hnl hlen]
  apply handleRecord_times hs
  rw [classify_line cT _ (by decide) (by decide) (by decide) (by
    intro x hx
    simp only [List.mem_cons] at hx
    rcases hx with rfl | hx
    · decide
    · exact hz x hx)]
  simp only [↓reduceIte]
  unfold classifyT tBody
  rw [parseTimes_print t u a v ht hu ha hv]

theorem statIsDir_of {fs : FS} {cwd : Path} {s : Str} {p : Path} (hr : resolve fs cwd s = some p)
    (hd : fs.isDir p = true) : statIsDir fs cwd s = true := by
  unfold statIsDir stat
  rw [hr]
  unfold FS.isDir at hd
  cases hf : fs p with
  | none => simp [hf] at hd
  | some nd =>
    simp only [hf] at hd ⊢
    simp [hd]

/-- the `_verifydir` check of every level start passes -/
def VerifyOk (o : Opts) (fs : FS) : Prop :=
  o.targetIsDir = true → ∃ p, resolve fs o.cwd o.dest = some p ∧ fs.isDir p = true

theorem verifyOk_mono {fs fs' : FS} (h : DirMono fs fs') (hv : VerifyOk o fs) : VerifyOk o fs' := by
  intro ht
  obtain ⟨p, hr, hd⟩ := hv ht
  exact ⟨p, resolve_mono h hr, h p hd⟩

theorem enter_ok {st : St} {targ : Str} {p : Path} (hv : VerifyOk o st.fs)
    (hr : resolve st.fs o.cwd targ = some p) (hd : st.fs.isDir p = true) :
    enter o st targ =
      { st with out := .ack :: st.out,
                stack := { targ := targ, targisdir := true, setimes := false, mt := default, atm := default }
                          :: st.stack,
                phase := .start } := by
  unfold enter
  have hver : (o.targetIsDir && !statIsDir st.fs o.cwd o.dest) = false := by
    cases ht : o.targetIsDir with
    | false => rfl
    | true =>
      obtain ⟨p', hr', hd'⟩ := hv ht
      simp [statIsDir_of hr' hd']
  simp only [hver, Bool.false_eq_true, ↓reduceIte, St.reply, statIsDir_of hr hd]

/-- the mode a directory of the source gets when it is created: what `mkdir` makes of it, or -- in the
repaired receiver with -p -- the received mode itself (`chmod` after `mkdir`) -/
def recvDirMode (o : Opts) (fs : FS) (q : Path) (n : Str) (m : Nat) : Nat :=
  if o.preserve && o.dirChmod then (m &&& RCP_MODEMASK) % 4096
  else mkdirMode (m &&& RCP_MODEMASK) o.eumask (parentMode fs (q ++ [n]))

/-- the node a directory of the source arrives as when it is created -/
def recvDirNode (o : Opts) (fs : FS) (q : Path) (n : Str) (m : Nat) : Node :=
  .dir (recvDirMode o fs q n m) none

theorem fchmodAt_set_dir (fs : FS) (p : Path) (mm mode : Nat) (t : Option Time) :
    fchmodAt (fs.set p (.dir mm t)) p mode = fs.set p (.dir (mode % 4096) t) := by
  funext x
  by_cases e : x = p <;> simp [fchmodAt, FS.set, e, Node.setMode]

/-- **A `D` record for a new name** creates the directory and opens a level inside it. -/
theorem feed_D {st : St} {f : Frame} {rest : List Frame} {q : Path}
    (hph : st.phase = .start) (hs : st.stack = f :: rest) (htd : f.targisdir = true)
    (hr : resolve st.fs o.cwd f.targ = some q) (hd : st.fs.isDir q = true) (hv : VerifyOk o st.fs)
    {n : Str} (hn : GoodName n) (hfresh : st.fs (q ++ [n]) = none)
    (hlen : f.targ.length + n.length + 1 < PCP_PATH_MAX) (m : Nat) :
    (dRecord m n).foldl (step o) st =
      { st with
        fs := (st.fs.bumpDir q).set (q ++ [n]) (recvDirNode o st.fs q n m)
        out := .ack :: st.out
        touched := (q ++ [n]) :: st.touched
        stack := { targ := joinName f.targ n, targisdir := true, setimes := false, mt := default, atm := default }
                  :: f :: rest
        phase := .start } := by
  obtain ⟨hnl, _, hlen2⟩ := ctlBody_props (m &&& RCP_MODEMASK) 0 hn (by decide)
  rw [dRecord_eq, foldl_line st hph cD _ (by decide) hnl hlen2,
    handleRecord_ctl hs (classify_ctl cD (Or.inr rfl) _ _ hn (and_mask_lt m) (by decide))
      (nameOk_plain _ hn.plain) htd]
  have hbeq : (cD == cD) = true := by decide
  simp only [hbeq, ↓reduceIte]
  have hrj := resolve_join hr hd hn.plain hn.short hlen
  unfold handleDir
  simp only [stat_fresh hrj hfresh, mkdir_fresh _ _ hrj hfresh]
  have hnode : (if (o.preserve && o.dirChmod) = true then
        fchmodAt ((st.fs.bumpDir q).set (q ++ [n])
          (.dir (mkdirMode (m &&& RCP_MODEMASK) o.eumask (parentMode st.fs (q ++ [n]))) none)) (q ++ [n])
          (m &&& RCP_MODEMASK)
      else (st.fs.bumpDir q).set (q ++ [n])
          (.dir (mkdirMode (m &&& RCP_MODEMASK) o.eumask (parentMode st.fs (q ++ [n]))) none)) =
      (st.fs.bumpDir q).set (q ++ [n]) (recvDirNode o st.fs q n m) := by
    unfold recvDirNode recvDirMode
    split
    · rw [fchmodAt_set_dir]
    · rfl
  rw [hnode]
  have hmono : DirMono st.fs ((st.fs.bumpDir q).set (q ++ [n]) (recvDirNode o st.fs q n m)) :=
    (dirMono_bumpDir _ _).trans (dirMono_set_fresh _ (bumpDir_none _ _ _ hfresh))
  rw [enter_ok (p := q ++ [n])]
  · simp only [St.touch, hs]
  · exact verifyOk_mono hmono hv
  · exact resolve_mono hmono hrj
  · simp only [St.touch, FS.isDir, set_self, recvDirNode, Node.isDir]

theorem exitFlag_eq : exitFlag = cE :: [] ++ [cNl] := by decide

/-- **`E`** is acknowledged, closes the level and applies the pending times to the directory. -/
theorem feed_E {st : St} {ch f : Frame} {rest : List Frame} {q' : Path} {mode : Nat} {tm : Option Time}
    (hph : st.phase = .start) (hs : st.stack = ch :: f :: rest)
    (hr : resolve st.fs o.cwd ch.targ = some q') (hnode : st.fs q' = some (.dir mode tm))
    (hts : trailingSlash ch.targ = false) (hus : usecOk f.atm = true ∧ usecOk f.mt = true) :
    exitFlag.foldl (step o) st =
      { st with
        fs := if f.setimes then st.fs.set q' (.dir mode (some f.mt)) else st.fs
        out := .ack :: st.out
        touched := (if f.setimes then [q'] else []) ++ st.touched
        stack := { f with setimes := false } :: rest
        phase := .start } := by
  have hB := BUFSZ_eq
  rw [exitFlag_eq, foldl_line st hph cE [] (by decide) (by simp) (by simp; omega),
    handleRecord_exit hs (by decide)]
  unfold leave
  simp only [St.reply, hs]
  by_cases hset : f.setimes = true
  · have hut : utimes st.fs o.cwd ch.targ f.atm f.mt = some (st.fs.set q' (.dir mode (some f.mt)), q') := by
      unfold utimes
      simp only [hus.1, hus.2, Bool.and_self, Bool.not_true, Bool.false_eq_true, ↓reduceIte,
        stat_some hr hnode hts, Node.setMtime]
    simp only [hset, ↓reduceIte, doUtimes, hut, List.cons_append, List.nil_append]
  · have hf' : f.setimes = false := by simpa using hset
    have hfe : ({ f with setimes := false } : Frame) = f := by cases f; simp_all
    simp only [hf', Bool.false_eq_true, ↓reduceIte, List.nil_append, hfe]

end PdshVerif.Pcp
