import PdshVerif.Pcp.Session

/-! # The interactive sender: what it has sent

* the receiver's state in a session is `step` folded over exactly the bytes the client sent
  (`session_sync`): the joint run is a run of the receiver automaton on the client's byte stream;
* a session in which no reply read by the client was negative sends exactly `send so srcs`, the stream of
  Send.lean (`session_clean`): the all-positive sender model IS the interactive one on such runs.
-/
namespace PdshVerif.Pcp
open PdshVerif.Gen

variable {o : Opts}

theorem Sess.read_spec (s : Sess) :
    s.read.2.st = s.st ∧ s.read.2.sent = s.sent ∧ s.read.2.skip = s.skip ∧ s.read.2.dead = s.dead ∧
    s.read.2.failed = (s.failed || !s.read.1) := by
  unfold Sess.read
  split <;> simp

/-- send `bs`, read one reply -/
theorem fr_spec (s : Sess) (bs : Str) :
    ((s.feed o bs).read).2.st = bs.foldl (step o) s.st ∧ ((s.feed o bs).read).2.sent = s.sent ++ bs ∧
    ((s.feed o bs).read).2.skip = s.skip ∧ ((s.feed o bs).read).2.dead = s.dead ∧
    ((s.feed o bs).read).2.failed = (s.failed || !((s.feed o bs).read).1) := by
  obtain ⟨h1, h2, h3, h4, h5⟩ := (s.feed o bs).read_spec
  exact ⟨h1, h2, h3, h4, h5⟩

/-- the receiver is in step with the bytes sent -/
def Sync (o : Opts) (st0 : St) (s : Sess) : Prop := s.st = s.sent.foldl (step o) st0

theorem fr_sync {st0 : St} {s : Sess} (h : Sync o st0 s) (bs : Str) : Sync o st0 ((s.feed o bs).read).2 := by
  obtain ⟨h1, h2, _⟩ := fr_spec (o := o) s bs
  unfold Sync at h ⊢
  rw [h1, h2, List.foldl_append, h]

theorem sendStage_sync {st0 : St} {r : Bool × Sess} (h : Sync o st0 r.2) (bs : Str) :
    Sync o st0 (sendStage o r bs).2 := by
  unfold sendStage
  split
  · exact fr_sync h _
  · exact h

theorem sendfileOne_sync (so : SOpts) {st0 : St} {s : Sess} (h : Sync o st0 s) (path : Str) (user isDir : Bool)
    (m t a : Nat) (d : Str) : Sync o st0 (sendfileOne so o s path user isDir m t a d).2 := by
  unfold sendfileOne
  dsimp only
  have h1 : Sync o st0 (if so.preserve then
      sendStage o (true, s) (tRecord (t / USEC) (if so.subsec then t % USEC else 0) (a / USEC)
        (if so.subsec then a % USEC else 0)) else (true, s)).2 := by
    cases so.preserve
    · exact h
    · exact sendStage_sync (r := (true, s)) h _
  cases isDir
  · exact sendStage_sync (sendStage_sync h1 _) _
  · exact sendStage_sync h1 _

theorem clientStep_sync (so : SOpts) (co : COpts) {st0 : St} {s : Sess} (h : Sync o st0 s) (e : Entry) :
    Sync o st0 (clientStep so co o s e) := by
  have hx : ∀ s' : Sess, Sync o st0 s' → ∀ k b, Sync o st0 { s' with skip := k, dead := b } := fun _ h' _ _ => h'
  have hs : ∀ s' : Sess, Sync o st0 s' → ∀ k, Sync o st0 { s' with skip := k } := fun _ h' _ => h'
  have hd : ∀ s' : Sess, Sync o st0 s' → ∀ b, Sync o st0 { s' with dead := b } := fun _ h' _ => h'
  cases e with
  | exitSubdir =>
    simp only [clientStep]
    split
    · exact h
    · split
      · exact hs _ h _
      · split
        · exact fr_sync h _
        · exact hd _ (fr_sync h _) _
  | ent path user isDir m t a d =>
    simp only [clientStep]
    split
    · exact h
    · split
      · split
        · exact hs _ h _
        · exact h
      · split
        · split
          · exact fr_sync h _
          · exact hd _ (fr_sync h _) _
        · split
          · exact hs _ (sendfileOne_sync so h ..) _
          · exact sendfileOne_sync so h ..

theorem foldl_sync (so : SOpts) (co : COpts) {st0 : St} (es : List Entry) {s : Sess} (h : Sync o st0 s) :
    Sync o st0 (es.foldl (clientStep so co o) s) := by
  induction es generalizing s with
  | nil => exact h
  | cons e es ih => exact ih (clientStep_sync so co h e)

/-- the receiver's state in a session is `step` folded over exactly the bytes the client has sent -/
theorem session_sync (so : SOpts) (co : COpts) (o : Opts) (fs : FS) (es : List Entry) :
    (session so co o fs es).st = (session so co o fs es).sent.foldl (step o) (enter o (St.init fs) o.dest) := by
  have h0 : Sync o (enter o (St.init fs) o.dest)
      { st := enter o (St.init fs) o.dest, sent := [], consumed := 0, failed := false, skip := 0, dead := false } := rfl
  have hr : Sync o (enter o (St.init fs) o.dest)
      (Sess.read { st := enter o (St.init fs) o.dest, sent := [], consumed := 0, failed := false, skip := 0,
                   dead := false }).2 := by
    obtain ⟨h1, h2, _⟩ := Sess.read_spec
      { st := enter o (St.init fs) o.dest, sent := [], consumed := 0, failed := false, skip := 0, dead := false }
    unfold Sync
    rw [h1, h2]
    rfl
  unfold session
  dsimp only
  split
  · exact hr
  · exact foldl_sync so co es hr

/-! ## a session without a negative reply -/

/-- the client is in its normal mode unless a reply has failed -/
def Calm (s : Sess) : Prop := s.failed = false → s.dead = false ∧ s.skip = 0

/-- what a prefix of `pcp_sendfile`'s steps has achieved: `bytes` are what it sends when nothing fails -/
def Stage (s : Sess) (r : Bool × Sess) (bytes : Str) : Prop :=
  r.2.skip = s.skip ∧ r.2.dead = s.dead ∧ (s.failed = true → r.2.failed = true) ∧
  (r.1 = false → r.2.failed = true) ∧ (r.2.failed = false → r.2.sent = s.sent ++ bytes)

theorem stage_start (s : Sess) : Stage s (true, s) [] :=
  ⟨rfl, rfl, id, (fun h => by cases h), (fun _ => by simp)⟩

theorem stage_next {s : Sess} {r : Bool × Sess} {bytes : Str} (h : Stage s r bytes) (bs : Str) :
    Stage s (sendStage o r bs) (bytes ++ bs) := by
  obtain ⟨h1, h2, h3, h4, h5⟩ := h
  unfold sendStage
  cases hr : r.1 with
  | false =>
    simp only [Bool.false_eq_true, if_false]
    exact ⟨h1, h2, h3, h4, (fun hf => by rw [h4 hr] at hf; cases hf)⟩
  | true =>
    simp only [if_true]
    obtain ⟨_, f2, f3, f4, f5⟩ := fr_spec (o := o) r.2 bs
    refine ⟨by rw [f3, h1], by rw [f4, h2], (fun hf => by rw [f5, h3 hf]; rfl), (fun hx => by rw [f5, hx]; simp),
      fun hf => ?_⟩
    rw [f5] at hf
    have hf' : r.2.failed = false := by
      cases hq : r.2.failed
      · rfl
      · rw [hq] at hf; simp at hf
    rw [f2, h5 hf', List.append_assoc]

theorem sendfileOne_clean (so : SOpts) (s : Sess) (path : Str) (user isDir : Bool) (m t a : Nat) (d : Str)
    (hns : ¬(path = sentinelName && !(so.sentinelFix && user)) = true) :
    Stage s (sendfileOne so o s path user isDir m t a d) (sendEntry so (.ent path user isDir m t a d)) := by
  have hse : sendEntry so (.ent path user isDir m t a d) =
      (if so.preserve then
          tRecord (t / USEC) (if so.subsec then t % USEC else 0) (a / USEC) (if so.subsec then a % USEC else 0)
        else []) ++
        (if isDir then dRecord m (xbasename (if so.reverse && user then path ++ cDot :: so.host else path))
         else cRecord m d.length (xbasename (if so.reverse && user then path ++ cDot :: so.host else path)) ++ d ++ [0]) := by
    simp only [sendEntry]
    rw [if_neg hns]
  rw [hse]
  unfold sendfileOne
  dsimp only
  have h1 : Stage s (if so.preserve then
      sendStage o (true, s) (tRecord (t / USEC) (if so.subsec then t % USEC else 0) (a / USEC)
        (if so.subsec then a % USEC else 0)) else (true, s))
      (if so.preserve then
          tRecord (t / USEC) (if so.subsec then t % USEC else 0) (a / USEC) (if so.subsec then a % USEC else 0)
        else []) := by
    cases so.preserve
    · exact stage_start s
    · have := stage_next (o := o) (stage_start s) (tRecord (t / USEC) (if so.subsec then t % USEC else 0) (a / USEC)
        (if so.subsec then a % USEC else 0))
      simpa using this
  cases isDir
  · have := stage_next (o := o) (stage_next (o := o) h1 (cRecord m d.length
      (xbasename (if so.reverse && user then path ++ cDot :: so.host else path)))) (d ++ [0])
    simpa [List.append_assoc] using this
  · exact stage_next h1 _

theorem clientStep_failed (so : SOpts) (co : COpts) (s : Sess) (e : Entry) (hf : s.failed = true) :
    (clientStep so co o s e).failed = true := by
  have hfr : ∀ bs, ((s.feed o bs).read).2.failed = true := fun bs => by
    obtain ⟨_, _, _, _, f5⟩ := fr_spec (o := o) s bs
    rw [f5, hf]; rfl
  cases e with
  | exitSubdir =>
    simp only [clientStep]
    repeat' split
    all_goals first | exact hf | exact hfr _
  | ent path user isDir m t a d =>
    simp only [clientStep]
    split
    · exact hf
    · split
      · split <;> exact hf
      · split
        · split
          · exact hfr _
          · exact hfr _
        · rename_i hns
          have := (sendfileOne_clean (o := o) so s path user isDir m t a d hns).2.2.1 hf
          split <;> exact this

theorem clientStep_clean (so : SOpts) (co : COpts) (s : Sess) (e : Entry) (hc : Calm s) :
    Calm (clientStep so co o s e) ∧
    ((clientStep so co o s e).failed = false → (clientStep so co o s e).sent = s.sent ++ sendEntry so e) := by
  -- the common shape: a state whose `failed` is that of `s` while `s` is not in its normal mode
  have vac : ∀ s' : Sess, s'.failed = s.failed → (s.dead = true ∨ 0 < s.skip) →
      Calm s' ∧ (s'.failed = false → s'.sent = s.sent ++ sendEntry so e) := by
    intro s' hf hbad
    have : s'.failed = false → False := fun h => by
      obtain ⟨hd, hk⟩ := hc (by rw [← hf]; exact h)
      rcases hbad with hb | hb
      · rw [hd] at hb; cases hb
      · omega
    exact ⟨fun h => (this h).elim, fun h => (this h).elim⟩
  have sentinel : ∀ (hsk : ¬ 0 < s.skip) (hd : ¬ s.dead = true),
      Calm (if ((s.feed o exitFlag).read).1 = true then ((s.feed o exitFlag).read).2
            else { ((s.feed o exitFlag).read).2 with dead := true }) ∧
      ((if ((s.feed o exitFlag).read).1 = true then ((s.feed o exitFlag).read).2
            else { ((s.feed o exitFlag).read).2 with dead := true }).failed = false →
       (if ((s.feed o exitFlag).read).1 = true then ((s.feed o exitFlag).read).2
            else { ((s.feed o exitFlag).read).2 with dead := true }).sent = s.sent ++ exitFlag) := by
    intro hsk hd
    obtain ⟨_, f2, f3, f4, f5⟩ := fr_spec (o := o) s exitFlag
    cases hr : ((s.feed o exitFlag).read).1 with
    | true =>
      simp only [if_true]
      rw [hr] at f5
      refine ⟨fun h => ?_, fun _ => f2⟩
      rw [f3, f4]
      exact hc (by rw [f5] at h; simpa using h)
    | false =>
      simp only [Bool.false_eq_true, if_false]
      rw [hr] at f5
      have : ((s.feed o exitFlag).read).2.failed = true := by rw [f5]; simp
      refine ⟨fun h => ?_, fun h => ?_⟩
      · have h' : ((s.feed o exitFlag).read).2.failed = false := h
        rw [this] at h'; cases h'
      · have h' : ((s.feed o exitFlag).read).2.failed = false := h
        rw [this] at h'; cases h'
  cases e with
  | exitSubdir =>
    simp only [clientStep]
    split
    · rename_i hd
      exact vac s rfl (Or.inl hd)
    · split
      · rename_i hd hk
        exact vac _ rfl (Or.inr hk)
      · rename_i hd hk
        exact sentinel hk hd
  | ent path user isDir m t a d =>
    simp only [clientStep]
    split
    · rename_i hd
      exact vac s rfl (Or.inl hd)
    · split
      · rename_i hd hk
        split
        · exact vac _ rfl (Or.inr hk)
        · exact vac s rfl (Or.inr hk)
      · rename_i hd hk
        split
        · rename_i hs
          have he : sendEntry so (.ent path user isDir m t a d) = exitFlag := by
            simp only [sendEntry]; rw [if_pos hs]
          rw [he]
          exact sentinel hk hd
        · rename_i hns
          obtain ⟨g1, g2, g3, g4, g5⟩ := sendfileOne_clean (o := o) so s path user isDir m t a d hns
          split
          · rename_i hfail
            have hr1 : (sendfileOne so o s path user isDir m t a d).1 = false := by
              cases hq : (sendfileOne so o s path user isDir m t a d).1
              · rfl
              · rw [hq] at hfail; simp at hfail
            have := g4 hr1
            refine ⟨fun h => ?_, fun h => ?_⟩
            · have h' : (sendfileOne so o s path user isDir m t a d).2.failed = false := h
              rw [this] at h'; cases h'
            · have h' : (sendfileOne so o s path user isDir m t a d).2.failed = false := h
              rw [this] at h'; cases h'
          · refine ⟨fun h => ?_, g5⟩
            have hsf : s.failed = false := by
              cases hq : s.failed
              · rfl
              · rw [g3 hq] at h; cases h
            rw [g1, g2]
            exact hc hsf

theorem foldl_clean (so : SOpts) (co : COpts) (es : List Entry) (s : Sess) (hc : Calm s)
    (hf : (es.foldl (clientStep so co o) s).failed = false) :
    (es.foldl (clientStep so co o) s).sent = s.sent ++ es.flatMap (sendEntry so) := by
  induction es generalizing s with
  | nil => simp
  | cons e es ih =>
    have hmono : ∀ (l : List Entry) (x : Sess), x.failed = true → (l.foldl (clientStep so co o) x).failed = true := by
      intro l
      induction l with
      | nil => exact fun _ h => h
      | cons y l ihl => exact fun x h => ihl _ (clientStep_failed so co x y h)
    obtain ⟨c1, c2⟩ := clientStep_clean (o := o) so co s e hc
    have h1 : (clientStep so co o s e).failed = false := by
      cases hq : (clientStep so co o s e).failed
      · rfl
      · have := hmono es _ hq
        rw [List.foldl_cons] at hf
        rw [this] at hf; cases hf
    rw [List.foldl_cons] at hf ⊢
    rw [ih _ c1 hf, c2 h1, List.flatMap_cons, List.append_assoc]

/-- A session in which no reply read by the client was negative has sent exactly the stream of the
all-positive sender model, entry by entry: `send` is what the interactive client does on such runs. -/
theorem session_clean (so : SOpts) (co : COpts) (o : Opts) (fs : FS) (srcs : List (Str × Tree))
    (hf : (session so co o fs (expandAll srcs)).failed = false) :
    (session so co o fs (expandAll srcs)).sent = send so srcs := by
  unfold session at hf ⊢
  dsimp only at hf ⊢
  obtain ⟨_, r2, r3, r4, r5⟩ := Sess.read_spec
    { st := enter o (St.init fs) o.dest, sent := [], consumed := 0, failed := false, skip := 0, dead := false }
  split at hf
  · rename_i hg
    rw [r5] at hf
    simp only [Bool.false_or] at hf
    rw [hf] at hg
    cases hg
  · rename_i hg
    rw [if_neg hg]
    have hc : Calm (Sess.read { st := enter o (St.init fs) o.dest, sent := [], consumed := 0, failed := false,
                                skip := 0, dead := false }).2 := fun _ => ⟨r4, r3⟩
    rw [foldl_clean so co _ _ hc hf, r2]
    rfl

end PdshVerif.Pcp
