import PdshVerif.Pcp.MeetsSpec
import PdshVerif.Pcp.Merge

/-! # What a copy leaves behind can be copied onto  (C11: copying the same sources again)

After `copy_roundtrip` the destination holds `recvKids …`; that file system is `Compat`ible with the very trees
that were copied -- a regular file where the source has one, a directory where it has one, recursively -- so a
second copy of the same sources falls under `copy_onto_existing`.  Same induction as `check_tree`/`check_kids`. -/
namespace PdshVerif.Pcp
open PdshVerif.Gen

mutual
theorem compat_recvTree (o : Opts) (ss : Bool) (t : Tree) (budget : Nat) (fs : FS) (q : Path) (n : Str)
    (hgood : GoodTree budget n t) (hfresh : FreshBelow fs (q ++ [n])) (g : FS)
    (hg : ∀ x, (q ++ [n]) <+: x → g x = recvTree o ss fs q n t x) : Compat g q n t := by
  cases t with
  | file m tt a d =>
    simp only [Compat]
    right
    have hroot := hg _ (List.prefix_refl _)
    simp only [recvTree, set_self, recvFileNode, recvFile] at hroot
    split at hroot
    · exact ⟨_, _, _, hroot⟩
    · exact ⟨_, _, _, hroot⟩
  | dir m tt a kids =>
    simp only [GoodTree] at hgood
    obtain ⟨hn, hnb, ht, ha, hk⟩ := hgood
    obtain ⟨tm, hroot0, _⟩ := recvTree_dir_root o ss fs q n m tt a kids
    have hroot : g (q ++ [n]) = some (.dir (recvDirMode o fs q n m) tm) := by
      rw [hg _ (List.prefix_refl _), hroot0]
    have hkfresh : ∀ n' k', (n', k') ∈ kids →
        FreshBelow ((fs.bumpDir q).set (q ++ [n]) (recvDirNode o fs q n m)) (q ++ [n] ++ [n']) := by
      intro n' k' _ x hx'
      have hx1 : (q ++ [n]) <+: x := (List.prefix_append _ _).trans hx'
      rw [set_other _ _ _ _ (prefix_snoc_ne hx'), bumpDir_other _ _ _ (prefix_snoc_ne hx1)]
      exact hfresh x hx1
    have hgk : ∀ n' k', (n', k') ∈ kids → ∀ x, (q ++ [n] ++ [n']) <+: x →
        g x = recvKids o ss ((fs.bumpDir q).set (q ++ [n]) (recvDirNode o fs q n m)) (q ++ [n]) kids x := by
      intro n' k' _ x hx
      have hx1 : (q ++ [n]) <+: x := (List.prefix_append _ _).trans hx
      rw [hg x hx1]
      simp only [recvTree]
      split
      · exact setMtimeAt_other _ _ _ _ (prefix_snoc_ne hx)
      · rfl
    simp only [Compat]
    exact Or.inr ⟨_, _, hroot, compat_recvKids o ss kids (budget - (n.length + 1)) _ (q ++ [n]) hk hkfresh g hgk⟩
theorem compat_recvKids (o : Opts) (ss : Bool) (kids : List (Str × Tree)) (budget : Nat) (fs : FS) (q : Path)
    (hgood : GoodKids budget kids) (hfresh : ∀ n k, (n, k) ∈ kids → FreshBelow fs (q ++ [n])) (g : FS)
    (hg : ∀ n k, (n, k) ∈ kids → ∀ x, (q ++ [n]) <+: x → g x = recvKids o ss fs q kids x) :
    CompatKids g q kids := by
  cases kids with
  | nil => trivial
  | cons nk r =>
    obtain ⟨n, k⟩ := nk
    simp only [GoodKids] at hgood
    obtain ⟨hgk, hdist, hgr⟩ := hgood
    simp only [CompatKids]
    refine ⟨compat_recvTree o ss k budget fs q n hgk (hfresh n k List.mem_cons_self) g (fun x hx => ?_),
      compat_recvKids o ss r budget (recvTree o ss fs q n k) q hgr ?_ g (fun n' k' hm x hx => ?_)⟩
    · rw [hg n k List.mem_cons_self x hx]
      simp only [recvKids]
      exact recvKids_other o ss _ q r x (prefix_snoc_ne hx)
        (fun n' k' hm => ne_prefix_snoc' (Ne.symm (hdist (n', k') hm)) hx)
    · intro n' k' hm x hx'
      rw [recvTree_other o ss fs q n k x (prefix_snoc_ne hx') (ne_prefix_snoc' (hdist (n', k') hm) hx')]
      exact hfresh n' k' (List.mem_cons_of_mem _ hm) x hx'
    · rw [hg n' k' (List.mem_cons_of_mem _ hm) x hx]
      simp only [recvKids]
end

/-- what a copy onto fresh names leaves behind is compatible with the trees that were copied -/
theorem compat_after_copy (o : Opts) (ss : Bool) (kids : List (Str × Tree)) (budget : Nat) (fs : FS) (q : Path)
    (hgood : GoodKids budget kids) (hfresh : ∀ n k, (n, k) ∈ kids → FreshBelow fs (q ++ [n])) :
    CompatKids (recvKids o ss fs q kids) q kids :=
  compat_recvKids o ss kids budget fs q hgood hfresh _ (fun _ _ _ _ _ => rfl)

end PdshVerif.Pcp
