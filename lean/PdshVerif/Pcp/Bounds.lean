import PdshVerif.Pcp.Sink

/-! Buffer-index and termination invariant of the receiver automaton (C12 `reader_in_bounds`,
`sink_done`): in every reachable state
* no index has left its buffer (`ub = false`),
* inside the record loop the write index `cp` satisfies `1 ≤ cp < BUFSIZ - 1` (so the byte is
  stored below `buf[BUFSIZ-1]` and the terminating NUL at most at `buf[BUFSIZ-1]`),
* inside the data loop `fill + amt = count ≤ bp->cnt` (the block being read fits the buffer),
* the automaton is finished exactly when no level is active.
-/
namespace PdshVerif.Pcp
open PdshVerif.Gen

/-- hypotheses on `bp->cnt`: `roundup(st_blksize, BUFSIZ)`, or `BUFSIZ` when that is 0 -/
structure CntOk (o : Opts) : Prop where
  pos : 0 < o.cnt
  mult : o.cnt % BUFSZ = 0

def phaseOk (o : Opts) : Phase → Prop
  | .line cp _ => 1 ≤ cp ∧ cp < BUFSZ - 1
  | .data _ _ _ left amt count fill _ _ =>
    fill + amt = count ∧ count ≤ o.cnt ∧ 1 ≤ amt ∧ amt ≤ left ∧ (amt < left → count % BUFSZ = 0)
  | _ => True

structure Inv (o : Opts) (st : St) : Prop where
  ub : st.ub = false
  phase : phaseOk o st.phase
  coh : st.phase = .done ↔ st.stack = []

variable {o : Opts} {st : St}

theorem BUFSZ_eq : BUFSZ = 8192 := rfl

theorem inv_mk_start (hub : st.ub = false) (hs : st.stack ≠ []) : Inv o { st with phase := .start } :=
  ⟨hub, trivial, by simp [hs]⟩

theorem doUtimes_ub (np : Str) (a m : Time) : (doUtimes o st np a m).1.ub = st.ub := by
  unfold doUtimes; split <;> rfl

theorem doUtimes_stack' (np : Str) (a m : Time) : (doUtimes o st np a m).1.stack = st.stack := by
  unfold doUtimes; split <;> rfl

theorem doUtimes_phase' (np : Str) (a m : Time) : (doUtimes o st np a m).1.phase = st.phase := by
  unfold doUtimes; split <;> rfl

theorem inv_leave (hub : st.ub = false) : Inv o (leave o st) := by
  unfold leave
  split
  · rename_i hs; exact ⟨hub, trivial, by simp [hs]⟩
  · exact ⟨hub, trivial, by simp⟩
  · split
    · refine ⟨by rw [doUtimes_ub]; exact hub, by rw [doUtimes_phase']; trivial, ?_⟩
      rw [doUtimes_phase', doUtimes_stack']; simp
    · exact ⟨hub, trivial, by simp⟩

theorem inv_screwup (hub : st.ub = false) (w : Why) : Inv o (screwup o st w) :=
  inv_leave (st := st.reply _) hub

theorem inv_enter (hub : st.ub = false) (targ : Str) : Inv o (enter o st targ) := by
  unfold enter
  split
  · exact inv_leave hub
  · exact ⟨hub, trivial, by simp⟩

theorem inv_afterData (hub : st.ub = false) (hs : st.stack ≠ []) (p : Path) (np : Str) (size : Int)
    (count : Nat) (pr wr : Str) : Inv o (afterData o st p np size count pr wr) := by
  unfold afterData
  simp only
  repeat' split
  all_goals exact ⟨hub, trivial, by simp [hs]⟩

theorem inv_handleFile (hc : CntOk o) (hub : st.ub = false) (hs : st.stack ≠ []) (np : Str) (mode : Nat)
    (size : Int) : Inv o (handleFile o st np mode size) := by
  unfold handleFile
  simp only
  split
  · exact ⟨hub, trivial, by simp [St.reply, hs]⟩
  · split
    · apply inv_afterData
      · exact hub
      · simpa [St.reply, St.touch] using hs
    · rename_i hsz
      refine ⟨hub, ?_, by simp [St.reply, St.touch, hs]⟩
      have h1 := hc.pos
      have h2 := hc.mult
      have h3 : 1 ≤ size.toNat := by omega
      simp only [phaseOk, BUFSZ_eq] at *
      refine ⟨by omega, ?_, by omega, by omega, ?_⟩
      · omega
      · intro hlt
        have : min 8192 size.toNat = 8192 := by omega
        omega

theorem inv_handleDir (hub : st.ub = false) (hs : st.stack ≠ []) (np : Str) (mode : Nat) :
    Inv o (handleDir o st np mode) := by
  unfold handleDir
  split
  · exact ⟨hub, trivial, by simp [St.reply, hs]⟩
  · apply inv_enter
    split
    · split <;> exact hub
    · exact hub
  · split
    · exact ⟨hub, trivial, by simp [St.reply, hs]⟩
    · apply inv_enter
      exact hub

theorem joinName_length (targ name : Str) : (joinName targ name).length ≤ targ.length + name.length + 1 := by
  unfold joinName
  split <;> simp <;> omega

theorem inv_handleRecord (hc : CntOk o) (hub : st.ub = false) (line : Str) (ch : UInt8) :
    Inv o (handleRecord o st line ch) := by
  unfold handleRecord
  split
  · rename_i hs; exact ⟨hub, trivial, by simp [hs]⟩
  · rename_i f rest hs
    have hne : st.stack ≠ [] := by simp [hs]
    split
    · exact ⟨hub, trivial, by simp [hs]⟩
    · exact inv_leave hub
    · exact inv_leave (st := st.reply _) hub
    · exact inv_screwup hub _
    · apply inv_screwup
      exact hub
    · exact ⟨hub, trivial, by simp⟩
    · rename_i isDir mode size name hcl
      split
      · exact inv_screwup hub _
      · have hfl : (st.flag (f.targisdir && decide (f.targ.length + name.length + 250 <
            (if f.targisdir = true then joinName f.targ name else f.targ).length + 1))).ub = false := by
          simp only [St.flag, hub, Bool.false_or, Bool.and_eq_false_imp, decide_eq_false_iff_not]
          intro ht
          have := joinName_length f.targ name
          simp only [ht, ↓reduceIte]
          omega
        simp only
        split
        · exact inv_handleDir hfl (by simp [St.flag, hs]) _ _
        · exact inv_handleFile hc hfl (by simp [St.flag, hs]) _ _ _

theorem inv_afterResponse (hub : st.ub = false) (np : Str) (d : Wrerr) : Inv o (afterResponse o st np d) := by
  unfold afterResponse
  split
  · rename_i hs; exact ⟨hub, trivial, by simp [hs]⟩
  · rename_i f rest hs
    split
    · simp only
      split
      · refine ⟨by simp [St.reply, doUtimes_ub, hub], trivial, by simp [St.reply, doUtimes_stack']⟩
      · refine ⟨by simp [doUtimes_ub, hub], trivial, by simp [doUtimes_stack']⟩
    · split
      · exact ⟨hub, trivial, by simp [St.reply, hs]⟩
      · exact ⟨hub, trivial, by simp [St.reply, hs]⟩
      · exact ⟨hub, trivial, by simp [hs]⟩

theorem inv_dataEOF (hub : st.ub = false) (p : Path) (wr : Str) : Inv o (dataEOF o st p wr) := by
  unfold dataEOF
  exact inv_leave hub

theorem inv_step (hc : CntOk o) (h : Inv o st) (b : UInt8) : Inv o (step o st b) := by
  unfold step
  split
  · exact h
  · rename_i hph
    have hs : st.stack ≠ [] := fun e => by
      have := h.coh.2 e; rw [hph] at this; cases this
    split
    · exact inv_screwup h.ub _
    · have hB := BUFSZ_eq
      refine ⟨?_, ?_, by simp [St.flag, hs]⟩
      · simp only [St.flag, h.ub, Bool.false_or, decide_eq_false_iff_not]
        omega
      · simp only [phaseOk]
        omega
  · rename_i cp buf hph
    have hs : st.stack ≠ [] := fun e => by
      have := h.coh.2 e; rw [hph] at this; cases this
    have hp := h.phase
    rw [hph] at hp
    simp only [phaseOk] at hp
    have hB := BUFSZ_eq
    simp only
    split
    · rename_i hcont
      simp only [Bool.and_eq_true, decide_eq_true_eq] at hcont
      refine ⟨?_, ?_, by simp [St.flag, hs]⟩
      · simp only [St.flag, h.ub, Bool.false_or, decide_eq_false_iff_not]
        omega
      · simp only [phaseOk]
        omega
    · apply inv_handleRecord hc
      simp only [St.flag, h.ub, Bool.false_or, Bool.or_eq_false_iff, decide_eq_false_iff_not]
      omega
  · rename_i p np size left amt count fill pr wr hph
    have hs : st.stack ≠ [] := fun e => by
      have := h.coh.2 e; rw [hph] at this; cases this
    have hp := h.phase
    rw [hph] at hp
    simp only [phaseOk, BUFSZ_eq] at hp
    obtain ⟨h1, h2, h3, h4, h5⟩ := hp
    have hub : (st.flag (decide (o.cnt ≤ fill))).ub = false := by
      simp only [St.flag, h.ub, Bool.false_or, decide_eq_false_iff_not]; omega
    have hcp := hc.pos
    have hcm := hc.mult
    simp only [BUFSZ_eq] at hcm
    simp only
    split
    · refine ⟨hub, ?_, by simp [St.flag, hs]⟩
      simp only [phaseOk, BUFSZ_eq]
      refine ⟨by omega, h2, by omega, by omega, ?_⟩
      intro hlt; exact h5 (by omega)
    · rename_i hamt
      have ha : amt = 1 := by omega
      split
      · rename_i hleft
        refine ⟨hub, ?_, by simp [St.flag, hs]⟩
        have hc0 : count % 8192 = 0 := h5 (by omega)
        simp only [phaseOk, BUFSZ_eq]
        by_cases hfl : (count == o.cnt) = true
        · have : count = o.cnt := by simpa using hfl
          simp only [hfl, ↓reduceIte]
          exact ⟨trivial, by omega, by omega, by omega, fun hlt => by omega⟩
        · have hne : count ≠ o.cnt := by simpa using hfl
          simp only [hfl]
          refine ⟨by simp; omega, ?_, by omega, by omega, ?_⟩
          · simp only [Bool.false_eq_true, ↓reduceIte]; omega
          · intro hlt
            have : min 8192 (left - 1) = 8192 := by omega
            simp only [Bool.false_eq_true, ↓reduceIte]
            omega
      · exact inv_afterData hub (by simp [St.flag, hs]) _ _ _ _ _ _
  · split
    · exact inv_afterResponse h.ub _ _
    · exact inv_leave (st := st.reply _) h.ub

theorem inv_foldl (hc : CntOk o) (s : Str) (h : Inv o st) : Inv o (s.foldl (step o) st) := by
  induction s generalizing st with
  | nil => exact h
  | cons b bs ih => exact ih (inv_step hc h b)

theorem leave_ub : (leave o st).ub = st.ub := by
  unfold leave
  split
  · rfl
  · rfl
  · split
    · rw [doUtimes_ub]
    · rfl

theorem leave_stack_length : (leave o st).stack.length = st.stack.length - 1 := by
  unfold leave
  split
  · rename_i hs; simp [hs]
  · rename_i hs; simp [hs]
  · rename_i hs
    split
    · rw [doUtimes_stack']; simp [hs]
    · simp [hs]

/-- after end of input every level returns -/
theorem unwind_done (n : Nat) (h : Inv o st) (hn : st.stack.length ≤ n) :
    Inv o (unwind o n st) ∧ (unwind o n st).phase = .done := by
  induction n generalizing st with
  | zero =>
    have : st.stack = [] := by simpa using hn
    exact ⟨h, h.coh.2 this⟩
  | succ n ih =>
    unfold unwind
    split
    · rename_i hd; exact ⟨h, hd⟩
    · exact ih (inv_leave h.ub) (by rw [leave_stack_length]; omega)

theorem inv_finish (h : Inv o st) : Inv o (finish o st) ∧ (finish o st).phase = .done := by
  unfold finish
  apply unwind_done
  · split
    · exact h
    · exact inv_leave h.ub
    · exact inv_screwup h.ub _
    · exact inv_dataEOF h.ub _ _
    · exact inv_leave (st := st.reply _) h.ub
  · exact Nat.le_refl _

theorem inv_init (fs : FS) : (St.init fs).ub = false := rfl

theorem inv_run (o : Opts) (hc : CntOk o) (fs : FS) (s : Str) :
    Inv o (run o fs s) ∧ (run o fs s).phase = .done :=
  inv_finish (inv_foldl hc s (inv_enter (inv_init fs) _))

end PdshVerif.Pcp
