import PdshVerif.Pcp.FsLemmas

/-! The frame invariant of the receiver automaton (C12): the file system differs from the initial one
only at paths handed to a successful modifying system call (`touched`) and at the parent directory
of a path that was *created* (the kernel refreshes that directory's modification time); nothing
that existed disappears.  Holds for every receiver variant, every stream, every option setting. -/
namespace PdshVerif.Pcp

/-- `q` may differ from the initial file system `fs0` after the calls on the paths `t` -/
def Chg (fs0 : FS) (t : List Path) (q : Path) : Prop :=
  q ∈ t ∨ ∃ p ∈ t, fs0 p = none ∧ p.dropLast = q

theorem Chg.mono {fs0 : FS} {t t' : List Path} {q : Path} (h : Chg fs0 t q) (ht : ∀ p ∈ t, p ∈ t') :
    Chg fs0 t' q := by
  rcases h with h | ⟨p, hp, h1, h2⟩
  · exact Or.inl (ht q h)
  · exact Or.inr ⟨p, ht p hp, h1, h2⟩

/-- the file a phase still writes to through its descriptor -/
def phaseFile : Phase → Option Path
  | .data p _ _ _ _ _ _ _ _ => some p
  | _ => none

/-- equal, or the same directory with another modification time -/
def SoftEq (a b : Option Node) : Prop := a = b ∨ ∃ m t t', a = some (.dir m t) ∧ b = some (.dir m t')

theorem SoftEq.refl (a : Option Node) : SoftEq a a := Or.inl rfl

theorem SoftEq.of_eq {a b : Option Node} (h : a = b) : SoftEq a b := Or.inl h

theorem SoftEq.trans {a b c : Option Node} (h1 : SoftEq a b) (h2 : SoftEq b c) : SoftEq a c := by
  rcases h1 with rfl | ⟨m, t, t', rfl, rfl⟩
  · exact h2
  · rcases h2 with rfl | ⟨m', u, u', e, rfl⟩
    · exact Or.inr ⟨m, t, t', rfl, rfl⟩
    · cases e
      exact Or.inr ⟨m, t, u', rfl, rfl⟩

structure Framed (fs0 : FS) (st : St) : Prop where
  frame : ∀ q, ¬ Chg fs0 st.touched q → st.fs q = fs0 q
  soft : ∀ q, q ∉ st.touched → SoftEq (fs0 q) (st.fs q)
  keeps : ∀ q, (fs0 q).isSome = true → (st.fs q).isSome = true
  file : ∀ p, phaseFile st.phase = some p → p ∈ st.touched

variable {fs0 : FS} {o : Opts} {st : St}

/-- the general step: more paths touched, changes only where `Chg` allows, nothing disappears -/
theorem framed_step {st' : St} (h : Framed fs0 st) (ht : ∀ p ∈ st.touched, p ∈ st'.touched)
    (hfs : ∀ q, ¬ Chg fs0 st'.touched q → st'.fs q = st.fs q)
    (hsoft : ∀ q, q ∉ st'.touched → SoftEq (st.fs q) (st'.fs q))
    (hk : ∀ q, (st.fs q).isSome = true → (st'.fs q).isSome = true)
    (hf : ∀ p, phaseFile st'.phase = some p → p ∈ st'.touched) : Framed fs0 st' := by
  refine ⟨?_, ?_, fun q hq => hk q (h.keeps q hq), hf⟩
  · intro q hq
    rw [hfs q hq]
    exact h.frame q (fun hc => hq (hc.mono ht))
  · intro q hq
    exact (h.soft q (fun hm => hq (ht q hm))).trans (hsoft q hq)

/-- only replies / stack / phase / flags change -/
theorem framed_same {st' : St} (h : Framed fs0 st) (hfs : st'.fs = st.fs) (ht : st'.touched = st.touched)
    (hf : ∀ p, phaseFile st'.phase = some p → p ∈ st'.touched) : Framed fs0 st' :=
  framed_step h (by rw [ht]; exact fun _ hp => hp) (by intro q _; rw [hfs]) (by intro q _; rw [hfs]; exact SoftEq.refl _)
    (by intro q hq; rw [hfs]; exact hq) hf

/-- the object at an already touched path `p` is rewritten -/
theorem framed_write {st' : St} (h : Framed fs0 st) {p : Path} (hp : p ∈ st.touched)
    (ht : st'.touched = st.touched) (hfs : ∀ q, q ≠ p → st'.fs q = st.fs q)
    (hk : (st.fs p).isSome = true → (st'.fs p).isSome = true)
    (hf : ∀ p, phaseFile st'.phase = some p → p ∈ st'.touched) : Framed fs0 st' := by
  apply framed_step h (by rw [ht]; exact fun _ hp => hp) ?_ ?_ ?_ hf
  · intro q hq
    apply hfs
    intro e
    exact hq (Or.inl (by rw [ht, e]; exact hp))
  · intro q hq
    apply SoftEq.of_eq
    symm
    apply hfs
    intro e
    exact hq (by rw [ht, e]; exact hp)
  · intro q hq
    by_cases e : q = p
    · rw [e] at hq ⊢; exact hk hq
    · rw [hfs q e]; exact hq

/-- a call on the existing object `p`: `p` becomes touched and may change -/
theorem framed_touch {st' : St} (h : Framed fs0 st) {p : Path} (ht : st'.touched = p :: st.touched)
    (hfs : ∀ q, q ≠ p → st'.fs q = st.fs q) (hk : (st.fs p).isSome = true → (st'.fs p).isSome = true)
    (hf : ∀ p, phaseFile st'.phase = some p → p ∈ st'.touched) : Framed fs0 st' := by
  apply framed_step h (by rw [ht]; exact fun _ hp => List.mem_cons_of_mem _ hp) ?_ ?_ ?_ hf
  · intro q hq
    apply hfs
    intro e
    exact hq (Or.inl (by rw [ht, e]; exact List.mem_cons_self))
  · intro q hq
    apply SoftEq.of_eq
    symm
    apply hfs
    intro e
    exact hq (by rw [ht, e]; exact List.mem_cons_self)
  · intro q hq
    by_cases e : q = p
    · rw [e] at hq ⊢; exact hk hq
    · rw [hfs q e]; exact hq

/-- `p` is created: it and its parent directory may change -/
theorem framed_create {st' : St} (h : Framed fs0 st) {p : Path} (hnone : st.fs p = none)
    (ht : st'.touched = p :: st.touched)
    (hfs : ∀ q, q ≠ p → q ≠ p.dropLast → st'.fs q = st.fs q)
    (hpar : SoftEq (st.fs p.dropLast) (st'.fs p.dropLast))
    (hk : ∀ q, (st.fs q).isSome = true → (st'.fs q).isSome = true)
    (hf : ∀ p, phaseFile st'.phase = some p → p ∈ st'.touched) : Framed fs0 st' := by
  have h0 : fs0 p = none := by
    cases hh : fs0 p with
    | none => rfl
    | some n =>
      have := h.keeps p (by simp [hh])
      simp [hnone] at this
  apply framed_step h (by rw [ht]; exact fun _ hp => List.mem_cons_of_mem _ hp) ?_ ?_ hk hf
  · intro q hq
    apply hfs
    · intro e
      exact hq (Or.inl (by rw [ht, e]; exact List.mem_cons_self))
    · intro e
      exact hq (Or.inr ⟨p, by rw [ht]; exact List.mem_cons_self, h0, e.symm⟩)
  · intro q hq
    have hne : q ≠ p := fun e => hq (by rw [ht, e]; exact List.mem_cons_self)
    by_cases e : q = p.dropLast
    · rw [e]; exact hpar
    · exact SoftEq.of_eq (hfs q hne e).symm

/-! ## the system calls -/

theorem bumpDir_isSome (fs : FS) (p q : Path) (h : (fs q).isSome = true) : (fs.bumpDir p q).isSome = true := by
  by_cases e : q = p
  · subst e
    unfold FS.bumpDir
    cases hf : fs q with
    | none => simp [hf] at h
    | some nd => cases nd <;> simp
  · rw [bumpDir_other _ _ _ e]; exact h

theorem set_isSome (fs : FS) (p q : Path) (nd : Node) (h : (fs q).isSome = true) : (fs.set p nd q).isSome = true := by
  by_cases e : q = p
  · simp [FS.set, e]
  · rw [set_other _ _ _ _ e]; exact h

theorem dropLast_ne {p : Path} (h : p ≠ []) : p.dropLast ≠ p := by
  intro e
  have := congrArg List.length e
  simp at this
  have : 0 < p.length := List.length_pos_iff.2 h
  omega

theorem bumpDir_soft (fs : FS) (p : Path) : SoftEq (fs p) (fs.bumpDir p p) := by
  unfold FS.bumpDir
  cases hf : fs p with
  | none => simp [SoftEq]
  | some nd =>
    cases nd with
    | file m t d => simp [SoftEq]
    | dir m t => exact Or.inr ⟨m, t, none, rfl, by simp⟩

theorem mkdir_frame {fs fs' : FS} {cwd : Path} {s : Str} {mode um : Nat} {p : Path}
    (h : mkdir fs cwd s mode um = some (fs', p)) :
    fs p = none ∧ (∀ q, q ≠ p → q ≠ p.dropLast → fs' q = fs q) ∧
      (∀ q, (fs q).isSome = true → (fs' q).isSome = true) ∧ SoftEq (fs p.dropLast) (fs' p.dropLast) ∧
      p ≠ [] := by
  unfold mkdir at h
  split at h; · simp at h
  rename_i p' hr
  split at h; · simp at h
  rename_i hn
  split at h; · simp at h
  simp only [Option.some.injEq, Prod.mk.injEq] at h
  obtain ⟨rfl, rfl⟩ := h
  rename_i hne
  refine ⟨hn, ?_, ?_, ?_, hne⟩
  · intro q h1 h2
    rw [set_other _ _ _ _ h1, bumpDir_other _ _ _ h2]
  · intro q hq
    exact set_isSome _ _ _ _ (bumpDir_isSome _ _ _ hq)
  · rw [set_other _ _ _ _ (dropLast_ne hne)]
    exact bumpDir_soft _ _

theorem openCreat_frame {fs fs' : FS} {cwd : Path} {s : Str} {mode um : Nat} {p : Path} {c : Bool}
    (h : openCreat fs cwd s mode um = some (fs', p, c)) :
    (c = false ∧ fs' = fs ∧ (fs p).isSome = true) ∨
    (c = true ∧ fs p = none ∧ (∀ q, q ≠ p → q ≠ p.dropLast → fs' q = fs q) ∧
      (∀ q, (fs q).isSome = true → (fs' q).isSome = true) ∧ SoftEq (fs p.dropLast) (fs' p.dropLast) ∧
      p ≠ []) := by
  unfold openCreat at h
  split at h; · simp at h
  rename_i p' hr
  split at h
  · simp at h
  · rename_i hfile
    split at h; · simp at h
    simp only [Option.some.injEq, Prod.mk.injEq] at h
    obtain ⟨rfl, rfl, rfl⟩ := h
    exact Or.inl ⟨rfl, rfl, by simp [hfile]⟩
  · rename_i hn
    split at h; · simp at h
    simp only [Option.some.injEq, Prod.mk.injEq] at h
    obtain ⟨rfl, rfl, rfl⟩ := h
    rename_i hcond
    have hne : p' ≠ [] := by
      intro e; apply hcond; simp [e]
    refine Or.inr ⟨rfl, hn, ?_, ?_, ?_, hne⟩
    · intro q h1 h2
      rw [set_other _ _ _ _ h1, bumpDir_other _ _ _ h2]
    · intro q hq
      exact set_isSome _ _ _ _ (bumpDir_isSome _ _ _ hq)
    · rw [set_other _ _ _ _ (dropLast_ne hne)]
      exact bumpDir_soft _ _

theorem chmod_frame {fs fs' : FS} {cwd : Path} {s : Str} {mode : Nat} {p : Path}
    (h : chmod fs cwd s mode = some (fs', p)) :
    (∀ q, q ≠ p → fs' q = fs q) ∧ (fs' p).isSome = true := by
  unfold chmod at h
  split at h; · simp at h
  simp only [Option.some.injEq, Prod.mk.injEq] at h
  obtain ⟨rfl, rfl⟩ := h
  exact ⟨fun q hq => set_other _ _ _ _ hq, by simp [FS.set]⟩

theorem utimes_frame {fs fs' : FS} {cwd : Path} {s : Str} {a m : Time} {p : Path}
    (h : utimes fs cwd s a m = some (fs', p)) :
    (∀ q, q ≠ p → fs' q = fs q) ∧ (fs' p).isSome = true := by
  unfold utimes at h
  split at h
  · split at h
    · unfold utimesAt at h
      split at h; · simp at h
      simp only [Option.some.injEq, Prod.mk.injEq] at h
      obtain ⟨rfl, rfl⟩ := h
      exact ⟨fun q hq => set_other _ _ _ _ hq, by simp [FS.set]⟩
    · simp at h
  split at h; · simp at h
  simp only [Option.some.injEq, Prod.mk.injEq] at h
  obtain ⟨rfl, rfl⟩ := h
  exact ⟨fun q hq => set_other _ _ _ _ hq, by simp [FS.set]⟩

theorem fchmodAt_other (fs : FS) (p q : Path) (mode : Nat) (h : q ≠ p) : fchmodAt fs p mode q = fs q := by
  simp [fchmodAt, h]

theorem fchmodAt_isSome (fs : FS) (p : Path) (mode : Nat) (h : (fs p).isSome = true) :
    (fchmodAt fs p mode p).isSome = true := by
  cases hf : fs p with
  | none => simp [hf] at h
  | some nd => simp [fchmodAt, hf]

theorem setData_other (fs : FS) (p q : Path) (d : Str) (h : q ≠ p) : setData fs p d q = fs q := by
  simp [setData, h]

theorem setData_isSome (fs : FS) (p : Path) (d : Str) (h : (fs p).isSome = true) :
    (setData fs p d p).isSome = true := by
  cases hf : fs p with
  | none => simp [hf] at h
  | some nd => cases nd <;> simp [setData, hf]

end PdshVerif.Pcp

namespace PdshVerif.Pcp
variable {fs0 : FS} {o : Opts} {st : St}

/-! ## the automaton -/

theorem framed_reply (h : Framed fs0 st) (r : Reply) : Framed fs0 (st.reply r) :=
  framed_same h rfl rfl h.file

theorem framed_flag (h : Framed fs0 st) (b : Bool) : Framed fs0 (st.flag b) :=
  framed_same h rfl rfl h.file

/-- any change of replies, stack, flags and a phase that holds no open file -/
theorem framed_calm {st' : St} (h : Framed fs0 st) (hfs : st'.fs = st.fs) (ht : st'.touched = st.touched)
    (hph : phaseFile st'.phase = none) : Framed fs0 st' :=
  framed_same h hfs ht (by intro p e; rw [hph] at e; cases e)

theorem framed_doUtimes (h : Framed fs0 st) (np : Str) (a m : Time) : Framed fs0 (doUtimes o st np a m).1 := by
  unfold doUtimes
  split
  · rename_i fs' p hu
    obtain ⟨h1, h2⟩ := utimes_frame hu
    exact framed_touch h (p := p) rfl h1 (fun _ => h2) (fun q hq => List.mem_cons_of_mem _ (h.file q hq))
  · exact framed_reply h _

theorem doUtimes_phase'' (np : Str) (a m : Time) : (doUtimes o st np a m).1.phase = st.phase := by
  unfold doUtimes; split <;> rfl

theorem framed_leave (h : Framed fs0 st) : Framed fs0 (leave o st) ∧ phaseFile (leave o st).phase = none := by
  unfold leave
  split
  · exact ⟨framed_calm h rfl rfl rfl, rfl⟩
  · exact ⟨framed_calm h rfl rfl rfl, rfl⟩
  · split
    · refine ⟨?_, ?_⟩
      · apply framed_doUtimes
        exact framed_calm h rfl rfl rfl
      · rw [doUtimes_phase'']; rfl
    · exact ⟨framed_calm h rfl rfl rfl, rfl⟩

theorem framed_screwup (h : Framed fs0 st) (w : Why) :
    Framed fs0 (screwup o st w) ∧ phaseFile (screwup o st w).phase = none :=
  framed_leave (framed_reply h _)

theorem framed_enter (h : Framed fs0 st) (targ : Str) :
    Framed fs0 (enter o st targ) ∧ phaseFile (enter o st targ).phase = none := by
  unfold enter
  split
  · exact framed_leave (framed_same h rfl rfl h.file)
  · exact ⟨framed_calm h rfl rfl rfl, rfl⟩

theorem framed_afterData (h : Framed fs0 st) {p : Path} (hp : p ∈ st.touched) (np : Str) (size : Int)
    (count : Nat) (pr wr : Str) :
    Framed fs0 (afterData o st p np size count pr wr) ∧
      phaseFile (afterData o st p np size count pr wr).phase = none := by
  unfold afterData
  simp only
  generalize hfs1 : (if (o.writable (collected count pr wr)).isEmpty then st.fs
    else setData st.fs p (overwrite (fileData st.fs p) (o.writable (collected count pr wr)))) = fs1
  have h1 : ∀ q, q ≠ p → fs1 q = st.fs q := by
    intro q hq
    rw [← hfs1]
    split
    · rfl
    · exact setData_other _ _ _ _ hq
  have h1k : (st.fs p).isSome = true → (fs1 p).isSome = true := by
    intro hs
    rw [← hfs1]
    split
    · exact hs
    · exact setData_isSome _ _ _ hs
  by_cases c1 : size < 0
  · rw [if_pos c1]
    refine ⟨?_, rfl⟩
    apply framed_write h hp
    · rfl
    · exact h1
    · exact h1k
    · intro q e; cases e
  · rw [if_neg c1]
    by_cases c2 : o.truncFails (fileData fs1 p).length size.toNat = true
    · rw [if_pos c2]
      refine ⟨?_, rfl⟩
      apply framed_write h hp
      · rfl
      · exact h1
      · exact h1k
      · intro q e; cases e
    · rw [if_neg c2]
      refine ⟨?_, rfl⟩
      apply framed_write h hp
      · rfl
      · intro q hq
        show setData fs1 p _ q = st.fs q
        rw [setData_other _ _ _ _ hq]; exact h1 q hq
      · intro hs
        exact setData_isSome _ _ _ (h1k hs)
      · intro q e; cases e

theorem framed_handleFile (h : Framed fs0 st) (np : Str) (mode : Nat) (size : Int) :
    Framed fs0 (handleFile o st np mode size) := by
  unfold handleFile
  simp only
  split
  · exact framed_calm h rfl rfl rfl
  · rename_i fs' p c ho
    -- the state after open (+ fchmod) with `p` touched and acknowledged
    have hst : ∀ b : Bool, Framed fs0
        ((St.touch { st with fs := if b then fchmodAt fs' p mode else fs' } p).reply .ack) := by
      intro b
      have hfo : ∀ q, q ≠ p → (if b then fchmodAt fs' p mode else fs') q = fs' q := by
        intro q hq; split
        · exact fchmodAt_other _ _ _ _ hq
        · rfl
      have hfk : (fs' p).isSome = true → ((if b then fchmodAt fs' p mode else fs') p).isSome = true := by
        intro hs; split
        · exact fchmodAt_isSome _ _ _ hs
        · exact hs
      rcases openCreat_frame ho with ⟨_, he, hs⟩ | ⟨_, hn, hfr, hk, hpar, hne⟩
      · subst he
        exact framed_touch h (p := p) rfl (fun q hq => hfo q hq) (fun hs' => hfk hs')
          (fun q hq => List.mem_cons_of_mem _ (h.file q hq))
      · apply framed_create h hn (p := p) rfl
        · intro q h1 h2
          show (if b then fchmodAt fs' p mode else fs') q = st.fs q
          rw [hfo q h1]; exact hfr q h1 h2
        · show SoftEq (st.fs p.dropLast) ((if b then fchmodAt fs' p mode else fs') p.dropLast)
          rw [hfo _ (dropLast_ne hne)]; exact hpar
        · intro q hq
          show ((if b then fchmodAt fs' p mode else fs') q).isSome = true
          by_cases e : q = p
          · rw [e]; apply hfk
            have : (fs' p).isSome = true := by
              have := hk p
              cases hfp : fs' p with
              | none =>
                -- the created object exists
                exfalso
                unfold openCreat at ho
                split at ho; · simp at ho
                split at ho
                · simp at ho
                · split at ho <;> simp at ho
                  rw [hn] at *
                  simp_all
                · split at ho; · simp at ho
                  simp only [Option.some.injEq, Prod.mk.injEq] at ho
                  obtain ⟨rfl, rfl, _⟩ := ho
                  simp [FS.set] at hfp
              | some nd => rfl
            exact this
          · rw [hfo q e]; exact hk q hq
        · exact fun q hq => List.mem_cons_of_mem _ (h.file q hq)
    split
    · exact (framed_afterData (hst _) (by simp [St.touch, St.reply]) _ _ _ _ _).1
    · exact framed_same (hst _) rfl rfl (by
        intro q e
        simp only [phaseFile, Option.some.injEq] at e
        subst e
        simp [St.touch, St.reply])

theorem framed_handleDir (h : Framed fs0 st) (np : Str) (mode : Nat) : Framed fs0 (handleDir o st np mode) := by
  unfold handleDir
  split
  · exact framed_calm h rfl rfl rfl
  · apply (framed_enter _ _).1
    split
    · split
      · rename_i fs' p hc
        obtain ⟨h1, h2⟩ := chmod_frame hc
        exact framed_touch h (p := p) rfl h1 (fun _ => h2) (fun q hq => List.mem_cons_of_mem _ (h.file q hq))
      · exact h
    · exact h
  · split
    · exact framed_calm h rfl rfl rfl
    · rename_i fs' p hm
      obtain ⟨hn, hfr, hk, hpar, hne⟩ := mkdir_frame hm
      apply (framed_enter _ _).1
      apply framed_create h hn (p := p) rfl
      · intro q h1 h2
        show (if (o.preserve && o.dirChmod) = true then fchmodAt fs' p mode else fs') q = st.fs q
        split
        · rw [fchmodAt_other _ _ _ _ h1]; exact hfr q h1 h2
        · exact hfr q h1 h2
      · show SoftEq (st.fs p.dropLast) ((if (o.preserve && o.dirChmod) = true then fchmodAt fs' p mode else fs') p.dropLast)
        split
        · rw [fchmodAt_other _ _ _ _ (dropLast_ne hne)]; exact hpar
        · exact hpar
      · intro q hq
        show ((if (o.preserve && o.dirChmod) = true then fchmodAt fs' p mode else fs') q).isSome = true
        split
        · by_cases e : q = p
          · rw [e] at hq; rw [hn] at hq; simp at hq
          · rw [fchmodAt_other _ _ _ _ e]; exact hk q hq
        · exact hk q hq
      · exact fun q hq => List.mem_cons_of_mem _ (h.file q hq)

theorem framed_handleRecord (h : Framed fs0 st) (hph : phaseFile st.phase = none) (line : Str) (ch : UInt8) :
    Framed fs0 (handleRecord o st line ch) := by
  have hcalm : ∀ st' : St, st'.fs = st.fs → st'.touched = st.touched → st'.phase = st.phase → Framed fs0 st' :=
    fun st' h1 h2 h3 => framed_calm h h1 h2 (by rw [h3]; exact hph)
  unfold handleRecord
  split
  · exact framed_calm h rfl rfl rfl
  · split
    · exact framed_calm h rfl rfl rfl
    · exact (framed_leave h).1
    · exact (framed_leave (framed_reply h _)).1
    · exact (framed_screwup h _).1
    · apply (framed_screwup _ _).1
      exact hcalm _ rfl rfl rfl
    · exact framed_calm h rfl rfl rfl
    · split
      · exact (framed_screwup h _).1
      · simp only
        split
        · exact framed_handleDir (framed_flag h _) _ _
        · exact framed_handleFile (framed_flag h _) _ _ _

theorem framed_afterResponse (h : Framed fs0 st) (np : Str) (d : Wrerr) : Framed fs0 (afterResponse o st np d) := by
  unfold afterResponse
  split
  · exact framed_calm h rfl rfl rfl
  · split
    · rename_i f rest hs hcond
      have hg : Framed fs0 (doUtimes o { st with stack := { f with setimes := false } :: rest } np f.atm f.mt).1 := by
        apply framed_doUtimes
        exact framed_same h rfl rfl h.file
      simp only
      split
      · exact framed_calm hg rfl rfl rfl
      · exact framed_calm hg rfl rfl rfl
    · split
      · exact framed_calm h rfl rfl rfl
      · exact framed_calm h rfl rfl rfl
      · exact framed_calm h rfl rfl rfl

theorem framed_dataEOF (h : Framed fs0 st) {p : Path} (hp : p ∈ st.touched) (wr : Str) :
    Framed fs0 (dataEOF o st p wr) := by
  unfold dataEOF
  simp only
  apply (framed_leave _).1
  apply framed_write h hp
  · rfl
  · intro q hq
    show (if (o.writable wr.reverse).isEmpty then st.fs else _) q = st.fs q
    split
    · rfl
    · exact setData_other _ _ _ _ hq
  · intro hs
    show ((if (o.writable wr.reverse).isEmpty then st.fs else _) p).isSome = true
    split
    · exact hs
    · exact setData_isSome _ _ _ hs
  · exact h.file

theorem framed_step' (h : Framed fs0 st) (b : UInt8) : Framed fs0 (step o st b) := by
  unfold step
  split
  · exact h
  · split
    · exact (framed_screwup h _).1
    · exact framed_calm h rfl rfl rfl
  · simp only
    split
    · exact framed_calm h rfl rfl rfl
    · apply framed_handleRecord
      · exact framed_calm h rfl rfl rfl
      · rfl
  · rename_i p np size left amt count fill pr wr hph
    have hp : p ∈ st.touched := h.file p (by rw [hph]; rfl)
    simp only
    split
    · exact framed_same h rfl rfl (by intro q e; simp only [phaseFile, Option.some.injEq] at e; subst e; exact hp)
    · split
      · exact framed_same h rfl rfl (by intro q e; simp only [phaseFile, Option.some.injEq] at e; subst e; exact hp)
      · exact (framed_afterData (framed_flag h _) hp _ _ _ _ _).1
  · split
    · exact framed_afterResponse h _ _
    · exact (framed_leave (framed_reply h _)).1

theorem framed_foldl (s : Str) (h : Framed fs0 st) : Framed fs0 (s.foldl (step o) st) := by
  induction s generalizing st with
  | nil => exact h
  | cons b bs ih => exact ih (framed_step' h b)

theorem framed_unwind (n : Nat) (h : Framed fs0 st) : Framed fs0 (unwind o n st) := by
  induction n generalizing st with
  | zero => exact h
  | succ n ih =>
    unfold unwind
    split
    · exact h
    · exact ih (framed_leave h).1

theorem framed_finish (h : Framed fs0 st) : Framed fs0 (finish o st) := by
  unfold finish
  apply framed_unwind
  split
  · exact h
  · exact (framed_leave h).1
  · exact (framed_screwup h _).1
  · rename_i p _ _ _ _ _ _ _ wr hph
    exact framed_dataEOF h (h.file p (by rw [hph]; rfl)) _
  · exact (framed_leave (framed_reply h _)).1

theorem framed_init (fs : FS) : Framed fs (St.init fs) :=
  ⟨fun _ _ => rfl, fun _ _ => SoftEq.refl _, fun _ h => h, by intro p e; cases e⟩

theorem framed_run (o : Opts) (fs : FS) (s : Str) : Framed fs (run o fs s) :=
  framed_finish (framed_foldl s (framed_enter (framed_init fs) _).1)

theorem prefix_or_dropLast {D p : Path} (h : D <+: p) : p = D ∨ D <+: p.dropLast := by
  obtain ⟨r, rfl⟩ := h
  rcases List.eq_nil_or_concat r with rfl | ⟨r', x, rfl⟩
  · left; simp
  · right
    have e : D ++ r'.concat x = (D ++ r') ++ [x] := by simp
    rw [e, List.dropLast_concat]
    exact List.prefix_append _ _


end PdshVerif.Pcp
