import PdshVerif.Pcp.Mixed
import PdshVerif.Pcp.Merge

/-! # Entries that cannot be written BELOW the top level of a destination that already exists  (C11, last clause)

"A file that cannot be ... written is reported for that host without corrupting any other file", for a copy ONTO
an existing destination tree in which, at ANY depth, the kind of an entry disagrees with the source's:

* `DTree.good t`        -- a source tree that arrives (nothing is at its name yet),
* `DTree.over`          -- a regular file of the source whose name is taken by a REGULAR FILE: it is replaced (exactly
                           the bytes sent, whatever it held; with -p mode and time of the source),
* `DTree.blockedFile`   -- a regular file of the source whose name is taken by a DIRECTORY on the target
                           (`open(O_WRONLY|O_CREAT)` fails: one error record after the `C` record, the client sends
                           neither data nor NUL; the directory and everything in it stay),
* `DTree.refusedDir`    -- a directory of the source whose name is taken by a REGULAR FILE on the target (`stat`
                           succeeds, not a directory: one error record after the `D` record, no `mkdir`; the repaired
                           client skips the directory's list elements and its leave-directory sentinel; the file stays),
* `DTree.into m t a kids` -- a directory of the source that EXISTS on the target: it is entered (with -p re-moded, and
                           re-timed after its entries) and each of its entries is again one of these four.

`DTree.src` is the source tree the client sees, `dFs` the file system the receiver must end with (what cannot be
written leaves NO trace: `dFs` of a blocked entry is the identity), `dBad` the number of entries that cannot be
written, counted where the disagreement is (what lies below a refused directory is not sent and not counted).
`session_dtree` / `session_dkids` (mutual induction over the nesting): the interactive client (Pcp/Session.lean,
repaired form) and the receiver stay in step, the receiver returns to the level it was at, the file system is `dFs`,
and the replies are acknowledgements plus EXACTLY `dBad` "cannot open" error records.
`dFs_other`: a tree changes nothing outside its own name except the parent directory's time. -/
namespace PdshVerif.Pcp
open PdshVerif.Gen

/-- a source tree, by what the target makes of each of its nodes -/
inductive DTree where
  | good (t : Tree)
  | over (m t a : Nat) (d : Str)
  | blockedFile (m t a : Nat) (d : Str)
  | refusedDir (m t a : Nat) (kids : List (Str × Tree))
  | into (m t a : Nat) (kids : List (Str × DTree))

mutual
/-- the source as the client sees it -/
def DTree.src : DTree → Tree
  | .good t => t
  | .over m t a d => .file m t a d
  | .blockedFile m t a d => .file m t a d
  | .refusedDir m t a kids => .dir m t a kids
  | .into m t a kids => .dir m t a (dsrcs kids)
def dsrcs : List (Str × DTree) → List (Str × Tree)
  | [] => []
  | (n, k) :: r => (n, k.src) :: dsrcs r
end

mutual
/-- the file system the receiver ends with -/
def dFs (o : Opts) (ss : Bool) (fs : FS) (q : Path) (n : Str) : DTree → FS
  | .good t => recvTree o ss fs q n t
  | .over m t _ d =>
    match fs (q ++ [n]) with
    | some (.file om _ _) =>
      fs.set (q ++ [n]) (.file (overMode o om (m &&& RCP_MODEMASK)) (if o.preserve then some (sentTime ss t) else none) d)
    | _ => fs
  | .blockedFile .. => fs
  | .refusedDir .. => fs
  | .into m t _ kids =>
    match fs (q ++ [n]) with
    | some (.dir _ dt) =>
      if o.preserve then
        setMtimeAt (dKidsFs o ss (fs.set (q ++ [n]) (.dir ((m &&& RCP_MODEMASK) % 4096) dt)) (q ++ [n]) kids)
          (q ++ [n]) (sentTime ss t)
      else dKidsFs o ss fs (q ++ [n]) kids
    | _ => fs
def dKidsFs (o : Opts) (ss : Bool) (fs : FS) (q : Path) : List (Str × DTree) → FS
  | [] => fs
  | (n, k) :: r => dKidsFs o ss (dFs o ss fs q n k) q r
end

mutual
/-- the entries that cannot be written -/
def dBad : DTree → Nat
  | .good _ => 0
  | .over .. => 0
  | .blockedFile .. => 1
  | .refusedDir .. => 1
  | .into _ _ _ kids => dKidsBad kids
def dKidsBad : List (Str × DTree) → Nat
  | [] => 0
  | (_, k) :: r => dKidsBad r + dBad k
end

mutual
/-- the domain -/
def DOk (budget : Nat) (fs : FS) (q : Path) (n : Str) : DTree → Prop
  | .good t => GoodTree budget n t ∧ KidNamesOk t ∧ FreshBelow fs (q ++ [n])
  | .over _ t a d =>
    GoodName n ∧ n.length + 1 ≤ budget ∧ t < 2 ^ 63 ∧ a < 2 ^ 63 ∧ d.length < 2 ^ 63 ∧
      ∃ om ot od, fs (q ++ [n]) = some (.file om ot od)
  | .blockedFile _ t a d =>
    GoodName n ∧ n.length + 1 ≤ budget ∧ t < 2 ^ 63 ∧ a < 2 ^ 63 ∧ d.length < 2 ^ 63 ∧
      ∃ dm dt, fs (q ++ [n]) = some (.dir dm dt)
  | .refusedDir _ t a _ =>
    GoodName n ∧ n.length + 1 ≤ budget ∧ t < 2 ^ 63 ∧ a < 2 ^ 63 ∧
      ∃ fm ft fd, fs (q ++ [n]) = some (.file fm ft fd)
  | .into _ t a kids =>
    GoodName n ∧ n.length + 1 ≤ budget ∧ t < 2 ^ 63 ∧ a < 2 ^ 63 ∧ (∃ dm dt, fs (q ++ [n]) = some (.dir dm dt)) ∧
      DKidsOk (budget - (n.length + 1)) fs (q ++ [n]) kids
def DKidsOk (budget : Nat) (fs : FS) (q : Path) : List (Str × DTree) → Prop
  | [] => True
  | (n, k) :: r => cSlash ∉ n ∧ DOk budget fs q n k ∧ (∀ x ∈ r, x.1 ≠ n) ∧ DKidsOk budget fs q r
end

/-! ## a tree changes nothing outside its own name, except the parent directory's time -/

mutual
theorem dFs_other (o : Opts) (ss : Bool) (fs : FS) (q : Path) (n : Str) (dt : DTree) (x : Path) (hq : x ≠ q)
    (hx : ¬ (q ++ [n]) <+: x) : dFs o ss fs q n dt x = fs x := by
  cases dt with
  | good t => exact recvTree_other o ss fs q n t x hq hx
  | over m t a d =>
    have hne : x ≠ q ++ [n] := fun e => hx (e ▸ List.prefix_refl _)
    unfold dFs
    cases hf : fs (q ++ [n]) with
    | none => rfl
    | some nd =>
      cases nd with
      | dir dm dt => rfl
      | file fm ft fd => exact set_other _ _ _ _ hne
  | blockedFile m t a d => rfl
  | refusedDir m t a kids => rfl
  | into m t a kids =>
    have hne : x ≠ q ++ [n] := fun e => hx (e ▸ List.prefix_refl _)
    unfold dFs
    cases hf : fs (q ++ [n]) with
    | none => rfl
    | some nd =>
      cases nd with
      | file fm ft fd => rfl
      | dir dm dt =>
        simp only []
        split
        · rw [setMtimeAt_ne _ _ _ _ hne, dKidsFs_other o ss _ (q ++ [n]) kids x hne hx, set_other _ _ _ _ hne]
        · exact dKidsFs_other o ss _ (q ++ [n]) kids x hne hx
theorem dKidsFs_other (o : Opts) (ss : Bool) (fs : FS) (q : Path) (kids : List (Str × DTree)) (x : Path) (hq : x ≠ q)
    (hx : ¬ q <+: x) : dKidsFs o ss fs q kids x = fs x := by
  cases kids with
  | nil => rfl
  | cons nk r =>
    obtain ⟨n, k⟩ := nk
    simp only [dKidsFs]
    rw [dKidsFs_other o ss _ q r x hq hx]
    exact dFs_other o ss fs q n k x hq (fun h => hx ((List.prefix_append q [n]).trans h))
end

/-! ## the domain looks at the file system below the name only -/

mutual
theorem dOk_congr {fs fs' : FS} {budget : Nat} {q : Path} {n : Str} (dt : DTree)
    (h : ∀ x, (q ++ [n]) <+: x → fs' x = fs x) (hok : DOk budget fs q n dt) : DOk budget fs' q n dt := by
  cases dt with
  | good t =>
    simp only [DOk] at hok ⊢
    exact ⟨hok.1, hok.2.1, fun x hx => by rw [h x hx]; exact hok.2.2 x hx⟩
  | over m t a d =>
    simp only [DOk] at hok ⊢
    obtain ⟨h1, h2, h3, h4, h5, om, ot, od, h6⟩ := hok
    exact ⟨h1, h2, h3, h4, h5, om, ot, od, by rw [h _ (List.prefix_refl _)]; exact h6⟩
  | blockedFile m t a d =>
    simp only [DOk] at hok ⊢
    obtain ⟨h1, h2, h3, h4, h5, dm, dt, h6⟩ := hok
    exact ⟨h1, h2, h3, h4, h5, dm, dt, by rw [h _ (List.prefix_refl _)]; exact h6⟩
  | refusedDir m t a kids =>
    simp only [DOk] at hok ⊢
    obtain ⟨h1, h2, h3, h4, fm, ft, fd, h6⟩ := hok
    exact ⟨h1, h2, h3, h4, fm, ft, fd, by rw [h _ (List.prefix_refl _)]; exact h6⟩
  | into m t a kids =>
    simp only [DOk] at hok ⊢
    obtain ⟨h1, h2, h3, h4, ⟨dm, dt, h6⟩, h7⟩ := hok
    refine ⟨h1, h2, h3, h4, ⟨dm, dt, by rw [h _ (List.prefix_refl _)]; exact h6⟩, ?_⟩
    exact dKidsOk_congr kids (fun n' _ _ x hx => h x ((List.prefix_append (q ++ [n]) [n']).trans hx)) h7
theorem dKidsOk_congr {fs fs' : FS} {budget : Nat} {q : Path} (kids : List (Str × DTree))
    (h : ∀ n k, (n, k) ∈ kids → ∀ x, (q ++ [n]) <+: x → fs' x = fs x) (hok : DKidsOk budget fs q kids) :
    DKidsOk budget fs' q kids := by
  cases kids with
  | nil => trivial
  | cons nk r =>
    obtain ⟨n, k⟩ := nk
    simp only [DKidsOk] at hok ⊢
    exact ⟨hok.1, dOk_congr k (h n k List.mem_cons_self) hok.2.1, hok.2.2.1,
      dKidsOk_congr r (fun n' k' hm => h n' k' (List.mem_cons_of_mem _ hm)) hok.2.2.2⟩
end

/-! ## classifying a source tree against a file system  (executed by the check: `pdshmodel pcp deep`) -/

mutual
/-- what the target makes of each node of the source tree `t` sent under the name `n` into the directory `q`:
TOTAL -- every pair of a source tree and a file system is classified, and `dOk_classify` shows that the classification
is in the domain of `session_dtree` whenever the source is in the domain of C11 -/
def classifyD (fs : FS) (q : Path) (n : Str) : Tree → DTree
  | .file m t a d =>
    match fs (q ++ [n]) with
    | some (.dir _ _) => .blockedFile m t a d
    | some (.file _ _ _) => .over m t a d
    | none => .good (.file m t a d)
  | .dir m t a kids =>
    match fs (q ++ [n]) with
    | some (.file _ _ _) => .refusedDir m t a kids
    | some (.dir _ _) => .into m t a (classifyKids fs (q ++ [n]) kids)
    | none => .good (.dir m t a kids)
def classifyKids (fs : FS) (q : Path) : List (Str × Tree) → List (Str × DTree)
  | [] => []
  | (n, k) :: r => (n, classifyD fs q n k) :: classifyKids fs q r
end

mutual
/-- the classification is a classification OF THE SOURCE: the client sees the tree it was given -/
theorem classifyD_src (fs : FS) (q : Path) (n : Str) (t : Tree) : (classifyD fs q n t).src = t := by
  cases t with
  | file m t a d =>
    unfold classifyD
    split <;> rfl
  | dir m t a kids =>
    unfold classifyD
    split
    · rfl
    · simp only [DTree.src, classifyKids_src fs (q ++ [n]) kids]
    · rfl
theorem classifyKids_src (fs : FS) (q : Path) (kids : List (Str × Tree)) : dsrcs (classifyKids fs q kids) = kids := by
  cases kids with
  | nil => rfl
  | cons nk r =>
    obtain ⟨n, k⟩ := nk
    simp only [classifyKids, dsrcs, classifyD_src fs q n k, classifyKids_src fs q r]
end

/-! ## the classification is in the domain -/

/-- what exists lies in directories that exist (every real file system; the jails of the check): below a path that
does not exist nothing exists -/
def FsClosed (fs : FS) : Prop := ∀ p x, fs p = none → p <+: x → fs x = none

theorem classifyKids_names (fs : FS) (q : Path) (kids : List (Str × Tree)) (x : Str × DTree)
    (hx : x ∈ classifyKids fs q kids) : ∃ k, (x.1, k) ∈ kids := by
  induction kids with
  | nil => simp [classifyKids] at hx
  | cons nk r ih =>
    obtain ⟨n, k⟩ := nk
    simp only [classifyKids, List.mem_cons] at hx
    rcases hx with rfl | hx
    · exact ⟨k, List.mem_cons_self⟩
    · obtain ⟨k', hk'⟩ := ih hx
      exact ⟨k', List.mem_cons_of_mem _ hk'⟩

mutual
/-- **Every source tree in the domain of C11 is, against EVERY file system, in the domain of `session_dtree`.** -/
theorem dOk_classify {fs : FS} (hcl : FsClosed fs) (budget : Nat) (q : Path) (n : Str) (t : Tree)
    (hg : GoodTree budget n t) (hk : KidNamesOk t) : DOk budget fs q n (classifyD fs q n t) := by
  cases t with
  | file m t a d =>
    have hg' := hg
    simp only [GoodTree] at hg
    obtain ⟨h1, h2, h3, h4, h5⟩ := hg
    unfold classifyD
    cases hf : fs (q ++ [n]) with
    | none =>
      simp only [DOk]
      exact ⟨hg', hk, fun x hx => hcl _ x hf hx⟩
    | some nd =>
      cases nd with
      | dir dm dt => simp only [DOk]; exact ⟨h1, h2, h3, h4, h5, dm, dt, hf⟩
      | file fm ft fd => simp only [DOk]; exact ⟨h1, h2, h3, h4, h5, fm, ft, fd, hf⟩
  | dir m t a kids =>
    have hg' := hg
    simp only [GoodTree] at hg
    obtain ⟨h1, h2, h3, h4, h5⟩ := hg
    simp only [KidNamesOk] at hk
    unfold classifyD
    cases hf : fs (q ++ [n]) with
    | none =>
      simp only [DOk]
      exact ⟨hg', by simp only [KidNamesOk]; exact hk, fun x hx => hcl _ x hf hx⟩
    | some nd =>
      cases nd with
      | file fm ft fd => simp only [DOk]; exact ⟨h1, h2, h3, h4, fm, ft, fd, hf⟩
      | dir dm dt =>
        simp only [DOk]
        exact ⟨h1, h2, h3, h4, ⟨dm, dt, hf⟩, dKidsOk_classify hcl _ (q ++ [n]) kids h5 hk⟩
theorem dKidsOk_classify {fs : FS} (hcl : FsClosed fs) (budget : Nat) (q : Path) (kids : List (Str × Tree))
    (hg : GoodKids budget kids) (hk : KidListOk kids) : DKidsOk budget fs q (classifyKids fs q kids) := by
  cases kids with
  | nil => trivial
  | cons nk r =>
    obtain ⟨n, k⟩ := nk
    simp only [GoodKids] at hg
    simp only [KidListOk] at hk
    simp only [classifyKids, DKidsOk]
    refine ⟨hk.1, dOk_classify hcl budget q n k hg.1 hk.2.1, ?_, dKidsOk_classify hcl budget q r hg.2.2 hk.2.2⟩
    intro x hx
    obtain ⟨k', hk'⟩ := classifyKids_names fs q r x hx
    exact hg.2.1 (x.1, k') hk'
end

end PdshVerif.Pcp
