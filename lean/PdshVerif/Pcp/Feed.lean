import PdshVerif.Pcp.Bounds

/-! Feeding whole protocol units to the byte automaton: a record line reaches `handleRecord` with
exactly that line in the buffer; the bytes of a file reach `afterData` with exactly those bytes
collected (`blocks_concat`: the block-wise transfer with `count == cnt` flushes loses, duplicates and
reorders nothing). -/
namespace PdshVerif.Pcp
open PdshVerif.Gen

variable {o : Opts}

theorem St.flag_false (st : St) : st.flag false = st := by
  cases st; simp [St.flag]

theorem St.phase_eta (st : St) (ph : Phase) (h : st.phase = ph) : { st with phase := ph } = st := by
  cases st; simp_all

/-- inside the record loop: the rest of a line (no newline in `body`, room in the buffer) -/
theorem foldl_line_aux (body : Str) (hnl : cNl ∉ body) :
    ∀ (st : St) (cp : Nat) (bufRev : Str), st.phase = .line cp bufRev → cp + body.length + 1 < BUFSZ - 1 →
      (body ++ [cNl]).foldl (step o) st =
        handleRecord o { st with phase := .start } (bufRev.reverse ++ body ++ [cNl]) cNl := by
  induction body with
  | nil =>
    intro st cp bufRev hph hlen
    have hB := BUFSZ_eq
    simp only [List.nil_append, List.foldl_cons, List.foldl_nil, List.append_nil]
    unfold step
    simp only [hph]
    have h1 : decide (BUFSZ ≤ cp) = false := by simp; omega
    have h2 : decide (BUFSZ ≤ cp + 1) = false := by simp; omega
    simp only [h1, h2, St.flag_false, ne_eq, not_true_eq_false, decide_false, Bool.and_false,
      Bool.false_eq_true, ↓reduceIte, List.reverse_cons]
  | cons c cs ih =>
    intro st cp bufRev hph hlen
    have hB := BUFSZ_eq
    have hc : c ≠ cNl := fun e => hnl (e ▸ List.mem_cons_self)
    have hcs : cNl ∉ cs := fun m => hnl (List.mem_cons_of_mem _ m)
    simp only [List.length_cons] at hlen
    simp only [List.cons_append, List.foldl_cons]
    have hstep : step o st c = { st with phase := .line (cp + 1) (c :: bufRev) } := by
      unfold step
      simp only [hph]
      have h1 : decide (BUFSZ ≤ cp) = false := by simp; omega
      have h3 : decide (cp + 1 < BUFSZ - 1) = true := by simp; omega
      simp only [h1, St.flag_false, h3, ne_eq, hc, not_false_eq_true, decide_true, Bool.and_self, ↓reduceIte]
    rw [hstep, ih hcs _ (cp + 1) (c :: bufRev) rfl (by omega)]
    simp

/-- at a record boundary a complete line `c :: body ++ "\n"` is handed to `handleRecord` -/
theorem foldl_line (st : St) (hph : st.phase = .start) (c : UInt8) (body : Str) (hc : c ≠ cNl)
    (hnl : cNl ∉ body) (hlen : body.length + 2 < BUFSZ - 1) :
    (c :: body ++ [cNl]).foldl (step o) st = handleRecord o st (c :: body ++ [cNl]) cNl := by
  have hB := BUFSZ_eq
  simp only [List.cons_append, List.foldl_cons]
  have hstep : step o st c = { st with phase := .line 1 [c] } := by
    unfold step
    simp only [hph, hc, ↓reduceIte]
    have h1 : decide (BUFSZ ≤ 0) = false := by simp; omega
    simp only [h1, St.flag_false]
  rw [hstep, foldl_line_aux body hnl _ 1 [c] rfl (by omega)]
  simp only [List.reverse_cons, List.reverse_nil, List.nil_append, List.cons_append]
  congr 1
  exact St.phase_eta st _ hph

/-! ## the data loop -/

/-- the same state in another phase -/
abbrev withPhase (st : St) (ph : Phase) : St := { st with phase := ph }

/-- `blocks_concat`: feeding exactly the `left` outstanding bytes ends the data loop with all bytes,
in order, either written or in the buffer for the final write -/
theorem foldl_data (hc : CntOk o) (d : Str) :
    ∀ (st : St) (p : Path) (np : Str) (size : Int) (left amt count fill : Nat) (pr wr : Str),
      st.phase = .data p np size left amt count fill pr wr →
      phaseOk o (.data p np size left amt count fill pr wr) → pr.length = fill → d.length = left →
      ∃ count' pr' wr', d.foldl (step o) st = afterData o st p np size count' pr' wr' ∧
        (if count' ≠ 0 then pr' ++ wr' else wr') = d.reverse ++ (pr ++ wr) := by
  induction d with
  | nil =>
    intro st p np size left amt count fill pr wr hph hok hpr hlen
    simp only [phaseOk] at hok
    simp only [List.length_nil] at hlen
    omega
  | cons b bs ih =>
    intro st p np size left amt count fill pr wr hph hok hpr hlen
    have hB := BUFSZ_eq
    have hcp := hc.pos
    have hcm := hc.mult
    simp only [phaseOk] at hok
    obtain ⟨h1, h2, h3, h4, h5⟩ := hok
    simp only [BUFSZ_eq] at hcm h5
    simp only [List.length_cons] at hlen
    simp only [List.foldl_cons]
    have hfl : decide (o.cnt ≤ fill) = false := by simp; omega
    by_cases hamt : 1 < amt
    · -- more bytes of this block to come
      have hstep : step o st b =
          withPhase st (.data p np size (left - 1) (amt - 1) count (fill + 1) (b :: pr) wr) := by
        unfold step
        simp only [hph, hfl, St.flag_false, hamt, ↓reduceIte]
      have hok' : phaseOk o (.data p np size (left - 1) (amt - 1) count (fill + 1) (b :: pr) wr) := by
        simp only [phaseOk, BUFSZ_eq]
        exact ⟨by omega, h2, by omega, by omega, fun hlt => h5 (by omega)⟩
      obtain ⟨c', pr', wr', he, hw⟩ := ih (step o st b) p np size (left - 1) (amt - 1) count (fill + 1)
        (b :: pr) wr (by rw [hstep]) hok' (by simp [hpr]) (by omega)
      refine ⟨c', pr', wr', ?_, ?_⟩
      · rw [he, hstep]; rfl
      · rw [hw]; simp
    · have ha : amt = 1 := by omega
      by_cases hleft : 1 < left
      · -- block complete, another block follows
        have hc0 : count % 8192 = 0 := h5 (by omega)
        by_cases hflush : count = o.cnt
        · have hstep : step o st b =
              withPhase st (.data p np size (left - 1) (min BUFSZ (left - 1)) (0 + min BUFSZ (left - 1)) 0 []
                (b :: pr ++ wr)) := by
            unfold step
            simp only [hph, hfl, St.flag_false, hamt, ↓reduceIte, hleft, hflush, beq_self_eq_true]
          have hok' : phaseOk o (.data p np size (left - 1) (min BUFSZ (left - 1)) (0 + min BUFSZ (left - 1))
              0 [] (b :: pr ++ wr)) := by
            simp only [phaseOk, BUFSZ_eq]
            exact ⟨by first | trivial | omega, by omega, by omega, by omega, fun hlt => by omega⟩
          obtain ⟨c', pr', wr', he, hw⟩ := ih (step o st b) p np size (left - 1) _ _ 0 [] (b :: pr ++ wr)
            (by rw [hstep]) hok' rfl (by omega)
          refine ⟨c', pr', wr', ?_, ?_⟩
          · rw [he, hstep]; rfl
          · rw [hw]; simp
        · have hbeq : (count == o.cnt) = false := by simpa using hflush
          have hstep : step o st b =
              withPhase st (.data p np size (left - 1) (min BUFSZ (left - 1)) (count + min BUFSZ (left - 1))
                (fill + 1) (b :: pr) wr) := by
            unfold step
            simp only [hph, hfl, St.flag_false, hamt, ↓reduceIte, hleft, hbeq, Bool.false_eq_true]
          have hok' : phaseOk o (.data p np size (left - 1) (min BUFSZ (left - 1))
              (count + min BUFSZ (left - 1)) (fill + 1) (b :: pr) wr) := by
            simp only [phaseOk, BUFSZ_eq]
            exact ⟨by first | trivial | omega, by omega, by omega, by omega, fun hlt => by omega⟩
          obtain ⟨c', pr', wr', he, hw⟩ := ih (step o st b) p np size (left - 1) _ _ (fill + 1) (b :: pr) wr
            (by rw [hstep]) hok' (by simp [hpr]) (by omega)
          refine ⟨c', pr', wr', ?_, ?_⟩
          · rw [he, hstep]; rfl
          · rw [hw]; simp
      · -- the last byte
        have hl1 : left = 1 := by omega
        have hbs : bs = [] := List.eq_nil_of_length_eq_zero (by omega)
        subst hbs
        simp only [List.foldl_nil]
        by_cases hflush : count = o.cnt
        · refine ⟨0, [], b :: pr ++ wr, ?_, by simp⟩
          unfold step
          simp only [hph, hfl, St.flag_false, hamt, ↓reduceIte, hleft, hflush, beq_self_eq_true]
        · have hbeq : (count == o.cnt) = false := by simpa using hflush
          refine ⟨count, b :: pr, wr, ?_, ?_⟩
          · unfold step
            simp only [hph, hfl, St.flag_false, hamt, ↓reduceIte, hleft, hbeq, Bool.false_eq_true]
          · have : count ≠ 0 := by omega
            simp [this]

end PdshVerif.Pcp
