import PdshVerif.Pcp.PathLemmas

/-! The confinement invariant of the receiver automaton (C12): every path handed to a modifying
system call, the target string of every active level and the file in transfer all lie beneath the
canonical destination.  Preserved by every byte for the receiver that validates names. -/
namespace PdshVerif.Pcp

/-- canonical path of the destination the receiver was started with -/
def destPath (o : Opts) : Path := lexNorm o.cwd o.dest

/-- the path string `s` denotes something beneath (or equal to) the destination -/
def Under (o : Opts) (s : Str) : Prop := destPath o <+: lexNorm o.cwd s

/-- the path string a phase will still use in a system call -/
def phaseNp : Phase → Option Str
  | .data _ np _ _ _ _ _ _ _ => some np
  | .resp np _ => some np
  | _ => none

structure Good (o : Opts) (st : St) : Prop where
  touched : ∀ p ∈ st.touched, destPath o <+: p
  stack : ∀ f ∈ st.stack, Under o f.targ
  phase : ∀ np, phaseNp st.phase = some np → Under o np

variable {o : Opts} {st : St}

theorem under_dest (o : Opts) : Under o o.dest := List.prefix_refl _

theorem under_join {targ n : Str} (h : Under o targ) (hn : SafeName n) : Under o (joinName targ n) := by
  unfold Under at *
  rcases lexNorm_joinName_safe o.cwd targ hn with e | e
  · rw [e]; exact List.IsPrefix.trans h (List.prefix_append _ _)
  · rw [e]; exact h

/-- every rule but `none` yields names that cannot leave the target -/
theorem nameOk_safe {rule : NameRule} (hr : rule ≠ .none) {n : Str} (h : nameOk rule n = true) : SafeName n := by
  cases rule with
  | none => exact absurd rfl hr
  | slashDotdot => exact narrowNameOk_safe h
  | scp => exact (scpNameOk_plain h).safe

theorem good_reply (h : Good o st) (r : Reply) : Good o (st.reply r) := ⟨h.touched, h.stack, h.phase⟩

theorem good_flag (h : Good o st) (b : Bool) : Good o (st.flag b) := ⟨h.touched, h.stack, h.phase⟩

theorem good_phase (h : Good o st) (ph : Phase) (hp : ∀ np, phaseNp ph = some np → Under o np) :
    Good o { st with phase := ph } := ⟨h.touched, h.stack, hp⟩

theorem good_start (h : Good o st) : Good o { st with phase := .start } :=
  good_phase h _ (by simp [phaseNp])

theorem good_touch (h : Good o st) {p : Path} (hp : destPath o <+: p) : Good o (st.touch p) :=
  ⟨by intro q hq; simp only [St.touch, List.mem_cons] at hq; rcases hq with rfl | hq
      · exact hp
      · exact h.touched q hq, h.stack, h.phase⟩

theorem good_fs (h : Good o st) (fs' : FS) : Good o { st with fs := fs' } := ⟨h.touched, h.stack, h.phase⟩

theorem good_doUtimes (h : Good o st) {np : Str} (hnp : Under o np) (a m : Time) :
    Good o (doUtimes o st np a m).1 := by
  unfold doUtimes
  split
  · rename_i fs' p hu
    have hp : p = lexNorm o.cwd np := utimes_eq hu
    refine ⟨?_, h.stack, h.phase⟩
    intro q hq
    simp only [List.mem_cons] at hq
    rcases hq with rfl | hq
    · rw [hp]; exact hnp
    · exact h.touched q hq
  · exact good_reply h _

theorem doUtimes_stack (np : Str) (a m : Time) : (doUtimes o st np a m).1.stack = st.stack := by
  unfold doUtimes; split <;> rfl

theorem doUtimes_phase (np : Str) (a m : Time) : (doUtimes o st np a m).1.phase = st.phase := by
  unfold doUtimes; split <;> rfl

theorem good_leave (h : Good o st) : Good o (leave o st) := by
  unfold leave
  split
  · exact ⟨h.touched, h.stack, by simp [phaseNp]⟩
  · exact ⟨h.touched, by simp, by simp [phaseNp]⟩
  · rename_i f par rest hs
    have hf : Under o f.targ := h.stack f (by simp [hs])
    have hpar : Under o par.targ := h.stack par (by simp [hs])
    have hrest : ∀ g ∈ rest, Under o g.targ := fun g hg => h.stack g (by simp [hs, hg])
    split
    · apply good_doUtimes _ hf
      refine ⟨h.touched, ?_, by simp [phaseNp]⟩
      intro g hg
      simp only [List.mem_cons] at hg
      rcases hg with rfl | hg
      · exact hpar
      · exact hrest g hg
    · refine ⟨h.touched, ?_, by simp [phaseNp]⟩
      intro g hg
      simp only [List.mem_cons] at hg
      rcases hg with rfl | hg
      · exact hpar
      · exact hrest g hg

theorem good_screwup (h : Good o st) (w : Why) : Good o (screwup o st w) :=
  good_leave (good_reply h _)

theorem good_enter (h : Good o st) {targ : Str} (ht : Under o targ) : Good o (enter o st targ) := by
  unfold enter
  split
  · apply good_leave
    refine ⟨h.touched, ?_, h.phase⟩
    intro g hg
    simp only [List.mem_cons] at hg
    rcases hg with rfl | hg
    · exact ht
    · exact h.stack g hg
  · refine ⟨h.touched, ?_, by simp [phaseNp]⟩
    intro g hg
    simp only [List.mem_cons] at hg
    rcases hg with rfl | hg
    · exact ht
    · exact h.stack g hg

theorem good_afterData (h : Good o st) (p : Path) {np : Str} (hnp : Under o np) (size : Int) (count : Nat)
    (pr wr : Str) : Good o (afterData o st p np size count pr wr) := by
  unfold afterData
  have hp : ∀ d, ∀ np', phaseNp (Phase.resp np d) = some np' → Under o np' := by
    intro d np' e; simp [phaseNp] at e; exact e ▸ hnp
  simp only
  repeat' split
  all_goals exact ⟨h.touched, h.stack, hp _⟩

theorem good_handleFile (h : Good o st) {np : Str} (hnp : Under o np) (mode : Nat) (size : Int) :
    Good o (handleFile o st np mode size) := by
  unfold handleFile
  simp only
  split
  · exact good_start (good_reply h _)
  · rename_i fs' p c ho
    have hp : destPath o <+: p := by rw [openCreat_eq ho]; exact hnp
    have hg : ∀ fs'' : FS, Good o ((St.touch { st with fs := fs'' } p).reply .ack) :=
      fun fs'' => good_reply (good_touch (good_fs h fs'') hp) _
    split
    · exact good_afterData (hg _) p hnp size 0 [] []
    · exact good_phase (hg _) _ (by intro np' e; simp [phaseNp] at e; exact e ▸ hnp)

theorem good_handleDir (h : Good o st) {np : Str} (hnp : Under o np) (mode : Nat) :
    Good o (handleDir o st np mode) := by
  unfold handleDir
  split
  · exact good_start (good_reply h _)
  · apply good_enter _ hnp
    split
    · split
      · rename_i fs' p hc
        exact good_touch (good_fs h _) (by rw [chmod_eq hc]; exact hnp)
      · exact h
    · exact h
  · split
    · exact good_start (good_reply h _)
    · rename_i fs' p hm
      exact good_enter (good_touch (good_fs h _) (by rw [mkdir_eq hm]; exact hnp)) hnp

end PdshVerif.Pcp

namespace PdshVerif.Pcp
variable {o : Opts} {st : St}

theorem good_setTop (h : Good o st) {f : Frame} {rest : List Frame} (hs : st.stack = f :: rest) (g : Frame)
    (hg : g.targ = f.targ) : Good o { st with stack := g :: rest } := by
  refine ⟨h.touched, ?_, h.phase⟩
  intro x hx
  simp only [List.mem_cons] at hx
  rcases hx with rfl | hx
  · unfold Under; rw [hg]; exact h.stack f (by simp [hs])
  · exact h.stack x (by simp [hs, hx])

theorem good_handleRecord (hrep : o.rule ≠ .none) (h : Good o st) (line : Str) (ch : UInt8) :
    Good o (handleRecord o st line ch) := by
  unfold handleRecord
  split
  · exact ⟨h.touched, h.stack, by simp [phaseNp]⟩
  · rename_i f rest hs
    have hf : Under o f.targ := h.stack f (by simp [hs])
    split
    · exact good_start h
    · exact good_leave h
    · exact good_leave (good_reply h _)
    · exact good_screwup h _
    · exact good_screwup (good_setTop h hs { f with setimes := true } rfl) _
    · refine ⟨h.touched, ?_, by simp [phaseNp]⟩
      intro x hx
      simp only [List.mem_cons] at hx
      rcases hx with rfl | hx
      · exact hf
      · exact h.stack x (by simp [hs, hx])
    · rename_i isDir mode size name hcl
      split
      · exact good_screwup h _
      · rename_i hn
        have hnp : Under o (if f.targisdir then joinName f.targ name else f.targ) := by
          split
          · apply under_join hf
            apply nameOk_safe hrep
            simpa using hn
          · exact hf
        simp only
        split
        · exact good_handleDir (good_flag h _) hnp _
        · exact good_handleFile (good_flag h _) hnp _ _

end PdshVerif.Pcp

namespace PdshVerif.Pcp
variable {o : Opts} {st : St}

theorem good_afterResponse (h : Good o st) {np : Str} (hnp : Under o np) (d : Wrerr) :
    Good o (afterResponse o st np d) := by
  unfold afterResponse
  split
  · exact ⟨h.touched, h.stack, by simp [phaseNp]⟩
  · rename_i f rest hs
    split
    · have hg := good_doUtimes (good_setTop h hs { f with setimes := false } rfl) hnp f.atm f.mt
      simp only
      split
      · exact good_start (good_reply hg _)
      · exact good_start hg
    · split
      · exact good_start (good_reply h _)
      · exact good_start (good_reply h _)
      · exact good_start h

theorem good_dataEOF (h : Good o st) (p : Path) (wr : Str) : Good o (dataEOF o st p wr) := by
  unfold dataEOF
  exact good_leave ⟨h.touched, h.stack, h.phase⟩

theorem good_step (hrep : o.rule ≠ .none) (h : Good o st) (b : UInt8) : Good o (step o st b) := by
  unfold step
  split
  · exact h
  · split
    · exact good_screwup h _
    · exact good_phase (good_flag h _) _ (by simp [phaseNp])
  · simp only
    split
    · exact good_phase (good_flag h _) _ (by simp [phaseNp])
    · exact good_handleRecord hrep (good_start (good_flag (good_flag h _) _)) _ _
  · rename_i p np size left amt count fill pr wr hph
    have hnp : Under o np := h.phase np (by simp [hph, phaseNp])
    simp only
    split
    · exact good_phase (good_flag h _) _ (by intro np' e; simp [phaseNp] at e; exact e ▸ hnp)
    · split
      · exact good_phase (good_flag h _) _ (by intro np' e; simp [phaseNp] at e; exact e ▸ hnp)
      · exact good_afterData (good_flag h _) p hnp _ _ _ _
  · rename_i np d hph
    have hnp : Under o np := h.phase np (by simp [hph, phaseNp])
    split
    · exact good_afterResponse h hnp d
    · exact good_leave (good_reply h _)

theorem good_unwind (n : Nat) (h : Good o st) : Good o (unwind o n st) := by
  induction n generalizing st with
  | zero => exact h
  | succ n ih =>
    unfold unwind
    split
    · exact h
    · exact ih (good_leave h)

theorem good_finish (h : Good o st) : Good o (finish o st) := by
  unfold finish
  apply good_unwind
  split
  · exact h
  · exact good_leave h
  · exact good_screwup h _
  · exact good_dataEOF h _ _
  · exact good_leave (good_reply h _)

theorem good_foldl (hrep : o.rule ≠ .none) (s : Str) (h : Good o st) : Good o (s.foldl (step o) st) := by
  induction s generalizing st with
  | nil => exact h
  | cons b bs ih => exact ih (good_step hrep h b)

theorem good_init (o : Opts) (fs : FS) : Good o (St.init fs) :=
  ⟨by simp [St.init], by simp [St.init], by simp [St.init, phaseNp]⟩

theorem good_run (o : Opts) (hrep : o.rule ≠ .none) (fs : FS) (s : Str) : Good o (run o fs s) :=
  good_finish (good_foldl hrep s (good_enter (good_init o fs) (under_dest o)))

end PdshVerif.Pcp
