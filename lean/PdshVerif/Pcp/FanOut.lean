import PdshVerif.Dsh.FanStep
import PdshVerif.Pcp.Sink

/-! # A forward copy to N targets: the fan-out LTS of `dsh()` composed with one sender session per target

`pdcp` runs `dsh()`: one thread per target (Dsh/Fan.lean, the LTS of Props/C03), and between the end of
`rcmd_connect` and the begin of `rcmd_destroy` that thread runs `_pcp_client` (dsh.c:384) against the `pdcp -z`
receiver the connection started ON THAT TARGET.  The product below adds to the fan-out LTS, per target `i`,

* the receiver automaton of that target (`St`, Pcp/Sink.lean) on ITS OWN file system -- the targets are different
  hosts, so there is no shared cell on the receiving side at all, and
* the number of bytes of its client thread's stream (`Target.stream`) the receiver has been fed.

Labels: every label of the fan-out LTS, and `byte i` = the client thread of target `i` writes its next byte and the
receiver of target `i` consumes it -- enabled only while worker `i` is `connected`.  The worker may begin to tear its
connection down only when its client has written the whole stream (`pcp_client` has returned); tearing down closes
the connection and the receiver sees end of input (`finish`).

What the client threads of one `pdcp` process share (Pcp/ClientStatics.lean, compared with the translation unit
on every run): NO object of static storage in pcp_client.c; the pre-expanded file list `pcp_infiles`, built by
`pcp_expand_dirs` BEFORE the first thread is created and only read afterwards, by each thread through an iterator of
its own; `stderr` through `err()`.  So a session's bytes depend on the list and on the replies of its own receiver
only: `Target.stream` is a function of the target alone, which is what makes the product below the right one.

`pinv_exec`: in every execution of the product -- any schedule of the dispatcher, the workers, the byte transfers
of different targets interleaved in any way, any number of spurious wake-ups -- the receiver of target `i` is
* in its start state as long as worker `i` has not connected,
* at `stream.take k` while it is connected, and
* `run o fs stream` -- exactly the single-target receiver run all theorems of Props/C11 are about -- afterwards.
Props/C11 `forward_every_target` / `forward_copy_all_targets` combine it with C03 (`exit_after_all`,
`each_op_once`) and with `copy_roundtrip` / `copy_meets_spec`. -/
namespace PdshVerif.Pcp.FanOut
open PdshVerif.Dsh PdshVerif.Pcp

/-- one target: the options its receiver runs with (one command line for all; working directory and umask are the
host's), its file system, and the bytes its client thread writes during the session -/
structure Target where
  o : Opts
  fs : FS
  stream : Str

structure PSt where
  fan : Fan.St
  /-- per target: the receiver, and how many bytes of the stream it has consumed -/
  rcv : List (St × Nat)

inductive PLabel
  | fan (l : Fan.Label)
  | byte (i : Nat)
deriving DecidableEq

/-- the receiver `rcmd_connect` starts on the target: `pdcp -z DEST` has verified its destination and sent the greeting -/
def start (t : Target) : St := enter t.o (St.init t.fs) t.o.dest

/-- `rcmd_destroy` on target `i`: allowed when the client has written its whole stream; the receiver sees EOF -/
def closeAt (ts : List Target) (rcv : List (St × Nat)) (i : Nat) : Option (List (St × Nat)) :=
  match rcv[i]?, ts[i]? with
  | some (st, k), some t => if k = t.stream.length then some (rcv.set i (finish t.o st, k)) else none
  | _, _ => none

def isDestroyBegin : Fan.Label → Option Nat
  | .w i .destroyBegin => some i
  | _ => none

def pstep (ts : List Target) (s : PSt) : PLabel → Option PSt
  | .byte i =>
    match s.fan.ws[i]?, s.rcv[i]?, ts[i]? with
    | some .connected, some (st, k), some t =>
      match t.stream[k]? with
      | some b => some { s with rcv := s.rcv.set i (step t.o st b, k + 1) }
      | none => none
    | _, _, _ => none
  | .fan l =>
    (Fan.step s.fan l).bind fun f' =>
      match isDestroyBegin l with
      | some i => (closeAt ts s.rcv i).map fun r => { fan := f', rcv := r }
      | none => some { s with fan := f' }

def pinit (v : Fan.Variant) (f : Nat) (ts : List Target) : PSt :=
  { fan := Fan.init v f ts.length, rcv := ts.map fun t => (start t, 0) }

inductive PExec (ts : List Target) (s0 : PSt) : List PLabel → PSt → Prop
  | nil : PExec ts s0 [] s0
  | snoc {ls s l s'} : PExec ts s0 ls s → pstep ts s l = some s' → PExec ts s0 (ls ++ [l]) s'

/-- the acceptor's view: fold `pstep` over a label list -/
def prun (ts : List Target) (s : PSt) : List PLabel → Option PSt
  | [] => some s
  | l :: ls => (pstep ts s l).bind (prun ts · ls)

theorem pexec_append {ts : List Target} {s0 s s' : PSt} {a b : List PLabel} (h1 : PExec ts s0 a s)
    (h2 : PExec ts s b s') : PExec ts s0 (a ++ b) s' := by
  induction h2 with
  | nil => simpa using h1
  | snoc _ hs ih => rw [← List.append_assoc]; exact .snoc ih hs

theorem pexec_of_prun {ts : List Target} (ls : List PLabel) : ∀ {s s' : PSt}, prun ts s ls = some s' → PExec ts s ls s' := by
  induction ls with
  | nil => intro s s' h; cases h; exact .nil
  | cons l ls ih =>
    intro s s' h
    simp only [prun] at h
    cases hl : pstep ts s l with
    | none => rw [hl] at h; cases h
    | some s1 =>
      rw [hl] at h
      have h1 : PExec ts s [l] s1 := by simpa using PExec.snoc (.nil) hl
      exact pexec_append h1 (ih h)

/-- the labels of the fan-out LTS in a product execution -/
def proj : List PLabel → List Fan.Label
  | [] => []
  | .fan l :: r => l :: proj r
  | .byte _ :: r => proj r

theorem proj_append (a b : List PLabel) : proj (a ++ b) = proj a ++ proj b := by
  induction a with
  | nil => rfl
  | cons x a ih => cases x <;> simp [proj, ih]

/-- the fan-out component of a product execution IS an execution of the fan-out LTS (the product only restricts it) -/
theorem proj_exec {ts : List Target} {s0 s : PSt} {ls : List PLabel} (he : PExec ts s0 ls s) :
    Fan.Exec s0.fan (proj ls) s.fan := by
  induction he with
  | nil => exact .nil
  | @snoc ls s l s' _ hs ih =>
    rw [proj_append]
    cases l with
    | byte i =>
      have : s'.fan = s.fan := by
        simp only [pstep] at hs
        split at hs
        · split at hs
          · cases hs; rfl
          · cases hs
        · cases hs
      simp only [proj, List.append_nil, this]
      exact ih
    | fan l =>
      simp only [pstep] at hs
      cases hf : Fan.step s.fan l with
      | none => rw [hf] at hs; cases hs
      | some f' =>
        rw [hf] at hs
        simp only [Option.bind_some] at hs
        have : s'.fan = f' := by
          split at hs
          · cases hc : closeAt ts s.rcv _ with
            | none => rw [hc] at hs; cases hs
            | some r => rw [hc] at hs; cases hs; rfl
          · cases hs; rfl
        rw [this]
        exact Fan.Exec.snoc ih hf

/-- what the receiver of a target is, by what its worker does next -/
def Good (t : Target) (w : Fan.W) (r : St × Nat) : Prop :=
  match w with
  | .idle | .started | .connecting => r = (start t, 0)
  | .connected => r.2 ≤ t.stream.length ∧ r.1 = (t.stream.take r.2).foldl (step t.o) (start t)
  | .tearing | .torn | .locked | .signaled | .done => r = (run t.o t.fs t.stream, t.stream.length)

/-- the worker has begun to tear its connection down: its client has returned -/
def sessionOver : Fan.W → Bool
  | .tearing | .torn | .locked | .signaled | .done => true
  | _ => false

theorem good_over {t : Target} {w : Fan.W} {r : St × Nat} (hw : sessionOver w = true) (h : Good t w r) :
    r = (run t.o t.fs t.stream, t.stream.length) := by
  cases w <;> first | exact h | cases hw

structure PInv (ts : List Target) (s : PSt) : Prop where
  len : s.rcv.length = ts.length
  good : ∀ (i : Nat) (t : Target) (w : Fan.W) (r : St × Nat), ts[i]? = some t → s.fan.ws[i]? = some w → s.rcv[i]? = some r → Good t w r

theorem pinv_init (v : Fan.Variant) (f : Nat) (ts : List Target) : PInv ts (pinit v f ts) := by
  refine ⟨by simp [pinit], ?_⟩
  intro i t w r ht hw hr
  simp only [pinit, Fan.init, List.getElem?_replicate] at hw
  split at hw
  · cases hw
    simp only [pinit, List.getElem?_map, ht, Option.map_some] at hr
    cases hr
    rfl
  · cases hw

theorem ws_of_step_d {s s' : Fan.St} {a : Fan.DAct} (h : Fan.step s (.d a) = some s') (hinv : Fan.Inv s) (i : Nat) (w : Fan.W)
    (hw : s'.ws[i]? = some w) : s.ws[i]? = some w ∨ (s.ws[i]? = some .idle ∧ w = .started) := by
  cases a with
  | create j =>
    simp only [Fan.step] at h
    split at h
    · rename_i hd
      split at h
      · rename_i hj
        cases h
        simp only [List.getElem?_set] at hw
        by_cases hi : s.i = i
        · subst hi
          simp only [if_true, hj.2] at hw
          cases hw
          right
          refine ⟨?_, rfl⟩
          have hidle : Fan.pc s s.i = .idle := (hinv.front s.i).2 (by simp [Fan.frontier, hd])
          unfold Fan.pc at hidle
          rw [List.getD_eq_getElem?_getD] at hidle
          rw [List.getElem?_eq_getElem hj.2] at hidle ⊢
          simpa using hidle
        · simp only [if_neg hi] at hw
          exact .inl hw
      · cases h
    · cases h
  | lock =>
    left
    simp only [Fan.step] at h
    split at h
    · cases h; simpa [Fan.roomTest, apply_ite Fan.St.ws] using hw
    · cases h; simpa [Fan.drainTest, apply_ite Fan.St.ws] using hw
    · cases h
  | wait =>
    left
    simp only [Fan.step] at h
    split at h <;> first | (cases h; exact hw) | cases h
  | wake sp =>
    left
    simp only [Fan.step] at h
    split at h
    · split at h <;> first | (cases h; exact hw) | cases h
    · split at h <;> first | (cases h; exact hw) | cases h
    · cases h
  | relock =>
    left
    simp only [Fan.step] at h
    split at h
    · split at h
      · cases h; exact hw
      · cases h; simpa [Fan.roomTest, apply_ite Fan.St.ws] using hw
    · cases h; simpa [Fan.drainTest, apply_ite Fan.St.ws] using hw
    · cases h
  | unlock =>
    left
    simp only [Fan.step] at h
    split at h <;> first | (cases h; exact hw) | cases h
  | ret =>
    left
    simp only [Fan.step] at h
    split at h <;> first | (cases h; exact hw) | cases h

theorem ws_wEffect (i : Nat) (s : Fan.St) (a : Fan.WAct) : (Fan.wEffect i s a).ws = s.ws := by
  cases a <;> rfl

theorem ws_of_step_w {s s' : Fan.St} {i : Nat} {a : Fan.WAct} (h : Fan.step s (.w i a) = some s') :
    s.ws[i]? = some a.pre ∧ s'.ws = s.ws.set i a.post := by
  simp only [Fan.step] at h
  split at h
  · rename_i hc
    cases h
    exact ⟨hc.1, by rw [ws_wEffect]⟩
  · cases h

theorem good_idle_started {t : Target} {r : St × Nat} (h : Good t .idle r) : Good t .started r := h

/-- a worker operation other than `destroyBegin` leaves the receiver's description valid -/
theorem good_post {t : Target} {a : Fan.WAct} {r : St × Nat} (ha : a ≠ .destroyBegin) (h : Good t a.pre r) :
    Good t a.post r := by
  cases a with
  | connectBegin => exact h
  | connectEnd =>
    simp only [Fan.WAct.pre, Good] at h
    subst h
    simp [Fan.WAct.post, Good]
  | destroyBegin => exact absurd rfl ha
  | destroyEnd => exact h
  | lock => exact h
  | signal => exact h
  | unlock => exact h

theorem pinv_step {ts : List Target} {s s' : PSt} {l : PLabel} (hfi : Fan.Inv s.fan) (h : PInv ts s)
    (hs : pstep ts s l = some s') : PInv ts s' := by
  cases l with
  | byte i =>
    simp only [pstep] at hs
    split at hs
    · rename_i st k t hw hr ht
      split at hs
      · rename_i b hb
        cases hs
        refine ⟨by simp [h.len], ?_⟩
        intro j t' w r ht' hw' hr'
        simp only [List.getElem?_set] at hr'
        by_cases hij : i = j
        · subst hij
          have hlt : i < s.rcv.length := by
            rcases Nat.lt_or_ge i s.rcv.length with h' | h'
            · exact h'
            · rw [List.getElem?_eq_none h'] at hr; cases hr
          simp only [if_true, hlt] at hr'
          cases hr'
          rw [ht] at ht'
          cases ht'
          rw [hw] at hw'
          cases hw'
          have hg := h.good i t .connected (st, k) ht hw hr
          simp only [Good] at hg ⊢
          have hk : k < t.stream.length := by
            rcases Nat.lt_or_ge k t.stream.length with h' | h'
            · exact h'
            · rw [List.getElem?_eq_none h'] at hb; cases hb
          refine ⟨hk, ?_⟩
          have hbe : t.stream[k] = b := by
            rw [List.getElem?_eq_getElem hk] at hb
            exact Option.some.inj hb
          rw [← List.take_append_getElem hk, List.foldl_append, ← hg.2, hbe]
          rfl
        · simp only [if_neg hij] at hr'
          exact h.good j t' w r ht' hw' hr'
      · cases hs
    · cases hs
  | fan l =>
    simp only [pstep] at hs
    cases hf : Fan.step s.fan l with
    | none => rw [hf] at hs; cases hs
    | some f' =>
      rw [hf] at hs
      simp only [Option.bind_some] at hs
      cases l with
      | d a =>
        simp only [isDestroyBegin] at hs
        cases hs
        refine ⟨h.len, ?_⟩
        intro j t w r ht hw hr
        rcases ws_of_step_d hf hfi j w hw with h1 | ⟨h1, h2⟩
        · exact h.good j t w r ht h1 hr
        · subst h2
          exact good_idle_started (h.good j t .idle r ht h1 hr)
      | w i a =>
        obtain ⟨hpre, hws⟩ := ws_of_step_w hf
        by_cases hda : a = .destroyBegin
        · subst hda
          simp only [isDestroyBegin] at hs
          cases hc : closeAt ts s.rcv i with
          | none => rw [hc] at hs; cases hs
          | some rc =>
            rw [hc] at hs
            cases hs
            unfold closeAt at hc
            split at hc
            · rename_i st k t hr ht
              split at hc
              · rename_i hk
                cases hc
                refine ⟨by simp [h.len], ?_⟩
                intro j t' w r ht' hw hr'
                simp only [hws, List.getElem?_set] at hw hr'
                by_cases hij : i = j
                · subst hij
                  have hlt : i < s.rcv.length := by
                    rcases Nat.lt_or_ge i s.rcv.length with h' | h'
                    · exact h'
                    · rw [List.getElem?_eq_none h'] at hr; cases hr
                  have hlw : i < s.fan.ws.length := Fan.lt_of_getElem? hpre
                  simp only [if_true, hlt, hlw] at hw hr'
                  cases hw
                  cases hr'
                  rw [ht] at ht'
                  cases ht'
                  have hg := h.good i t .connected (st, k) ht hpre hr
                  simp only [Good] at hg
                  simp only [Fan.WAct.post, Good]
                  have hst : st = t.stream.foldl (step t.o) (start t) := by
                    rw [hg.2, hk, List.take_length]
                  rw [hst, hk]
                  rfl
                · simp only [if_neg hij] at hw hr'
                  exact h.good j t' w r ht' hw hr'
              · cases hc
            · cases hc
        · have hnd : isDestroyBegin (.w i a) = none := by
            cases a <;> first | rfl | exact absurd rfl hda
          rw [hnd] at hs
          cases hs
          refine ⟨h.len, ?_⟩
          intro j t w r ht hw hr
          simp only [hws, List.getElem?_set] at hw
          by_cases hij : i = j
          · subst hij
            have hlw : i < s.fan.ws.length := Fan.lt_of_getElem? hpre
            simp only [if_true, hlw] at hw
            cases hw
            exact good_post hda (h.good i t a.pre r ht hpre hr)
          · simp only [if_neg hij] at hw
            exact h.good j t w r ht hw hr

theorem pinv_exec {v : Fan.Variant} {f : Nat} {ts : List Target} {ls : List PLabel} {s : PSt}
    (he : PExec ts (pinit v f ts) ls s) : PInv ts s := by
  induction he with
  | nil => exact pinv_init v f ts
  | @snoc ls s l s' he' hs ih =>
    have hfan : Fan.Inv s.fan := Fan.inv_exec (Fan.inv_init v f ts.length) (proj_exec he')
    exact pinv_step hfan ih hs

/-- every byte a receiver has consumed was written by one `byte` transfer of ITS client thread -/
theorem fed_count {v : Fan.Variant} {f : Nat} {ts : List Target} {ls : List PLabel} {s : PSt}
    (he : PExec ts (pinit v f ts) ls s) (i : Nat) (r : St × Nat) (hr : s.rcv[i]? = some r) :
    r.2 = ls.count (.byte i) := by
  induction he generalizing r with
  | nil =>
    simp only [pinit, List.getElem?_map] at hr
    cases ht : ts[i]? with
    | none => rw [ht] at hr; cases hr
    | some t => rw [ht] at hr; cases hr; rfl
  | @snoc ls s l s' he' hs ih =>
    rw [List.count_append]
    cases l with
    | byte j =>
      simp only [pstep] at hs
      split at hs
      · rename_i st k t hw hrj ht
        split at hs
        · cases hs
          simp only [List.getElem?_set] at hr
          by_cases hij : j = i
          · subst hij
            have hlt : j < s.rcv.length := by
              rcases Nat.lt_or_ge j s.rcv.length with h' | h'
              · exact h'
              · rw [List.getElem?_eq_none h'] at hrj; cases hrj
            simp only [if_true, hlt] at hr
            cases hr
            have := ih (st, k) hrj
            simp only at this ⊢
            rw [this]
            simp
          · simp only [if_neg hij] at hr
            rw [ih r hr]
            have : (PLabel.byte j == PLabel.byte i) = false := by
              simp only [beq_eq_false_iff_ne, ne_eq, PLabel.byte.injEq]
              exact hij
            simp [List.count_cons, this]
        · cases hs
      · cases hs
    | fan l =>
      have hz : [PLabel.fan l].count (.byte i) = 0 := by simp
      rw [hz, Nat.add_zero]
      simp only [pstep] at hs
      cases hf : Fan.step s.fan l with
      | none => rw [hf] at hs; cases hs
      | some f' =>
        rw [hf] at hs
        simp only [Option.bind_some] at hs
        split at hs
        · rename_i j _
          cases hc : closeAt ts s.rcv j with
          | none => rw [hc] at hs; cases hs
          | some rc =>
            rw [hc] at hs
            cases hs
            unfold closeAt at hc
            split at hc
            · rename_i st k t hrj ht
              split at hc
              · cases hc
                simp only [List.getElem?_set] at hr
                by_cases hij : j = i
                · subst hij
                  have hlt : j < s.rcv.length := by
                    rcases Nat.lt_or_ge j s.rcv.length with h' | h'
                    · exact h'
                    · rw [List.getElem?_eq_none h'] at hrj; cases hrj
                  simp only [if_true, hlt] at hr
                  cases hr
                  exact ih (st, k) hrj
                · simp only [if_neg hij] at hr
                  exact ih r hr
              · cases hc
            · cases hc
        · cases hs
          exact ih r hr

end PdshVerif.Pcp.FanOut
