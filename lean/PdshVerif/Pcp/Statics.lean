import PdshVerif.Pcp.Multi

/-! # What the receivers of one process share  (rpdcp: K `pcp_server()` threads; Props/C11 `receivers_independent`)

The product automaton `Multi` (Pcp/Multi.lean) says that K receivers in one process share the file system and
-- in the code as found -- ONE more cell, the `static FILE *fp` of `_error()`.  That claim is about the C
translation unit, so it is tied to it: on every run the check compiles `pcp_server.c` of the tree under test,
lists the object file's symbols (`nm`) and compares

* the objects of static storage duration it DEFINES (data, bss, common; function-local statics included) with
  `serverStatics` below -- a new one is state that outlives a call and is shared by all receiver threads: the
  comparison fails loudly until the model accounts for it (as a never-written constant, or as a new shared cell
  of `Multi` with its own race analysis);
* the functions it CALLS with `processWideCalls` -- the calls that read or write process-wide state.  `umask` is
  the only one pcp_server.c uses (modelled: harness op `multi`, race `uA:B`, finding F11-UMASK-RACE; in the
  repaired tree only `umask(0)` under -p, which every receiver of a -p run wants); a call of any other function of
  that list (`chdir`, `setenv`, `strtok`, `signal`, ...) fails the comparison.

Everything else a receiver touches is per call (`struct pcp_server`, the automatic variables of `_sink`, its
three heap blocks -- Props/C12 header), per thread (`errno`), or read-only after start-up (`err.c`: `prog`, `host`,
`keep_host_domain`, set by `err_init` before any thread exists).  The working directory is process wide and is READ by
every relative path; no receiver changes it (`chdir`/`fchdir` are in `processWideCalls`).
-/
namespace PdshVerif.Pcp

inductive StaticUse where
  /-- initialised, never written: `copyright[]`, `rcsid[]` -/
  | neverWritten
  /-- a cell of `Multi` shared by all receivers -/
  | sharedCell
deriving DecidableEq, Repr

/-- the objects of static storage duration pcp_server.c defines, as the model accounts for them; `errfpShared` =
the code as found (`static FILE *fp` in `_error()`, `Multi.fp`), probed by the overlapping-`_error()` schedule -/
def serverStatics (errfpShared : Bool) : List (String × StaticUse) :=
  [("copyright", .neverWritten), ("rcsid", .neverWritten)] ++
  (if errfpShared then [("fp", .sharedCell)] else [])

/-- libc calls that read or write process-wide state and that the model does NOT cover -/
def processWideCalls : List String :=
  ["chdir", "fchdir", "chroot", "setenv", "putenv", "unsetenv", "clearenv", "setlocale", "signal", "sigaction",
   "sigprocmask", "strtok", "strerror", "localtime", "gmtime", "ctime", "asctime", "getpwnam", "getpwuid", "getgrnam",
   "getgrgid", "readdir", "rand", "srand", "random", "srandom", "tmpnam", "tempnam", "mktemp", "ttyname", "setrlimit",
   "alarm", "setitimer", "dup2", "exit", "_exit", "abort", "setuid", "setgid", "seteuid", "setegid", "getenv", "getopt",
   "basename", "dirname", "setvbuf", "freopen"]

/-- process-wide calls the model DOES cover -/
def modelledProcessWideCalls : List String := ["umask"]

/-- with the repaired `_error()` no static object of pcp_server.c is ever written -/
theorem repaired_statics_never_written :
    ∀ s ∈ serverStatics false, s.2 = StaticUse.neverWritten := by decide

/-- the one shared cell of the code as found is the one `Multi` carries -/
theorem found_statics_shared :
    (serverStatics true).filter (fun s => s.2 = StaticUse.sharedCell) = [("fp", StaticUse.sharedCell)] := by decide

end PdshVerif.Pcp
