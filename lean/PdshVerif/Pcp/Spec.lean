import PdshVerif.Pcp.Send

/-! # What C11 and C12 demand, stated on observable file systems (independent of the receiver model)

* **C12 (confinement).**  Every path that was created or modified lies beneath the destination:
  the canonical destination path is a component-wise prefix of it.  Because paths are canonical
  (no `.`/`..`/empty components) a prefix test is a real containment test.
* **C11 (fidelity).**  After the copy the destination holds, at the place given for each source,
  a node of the same kind with the same bytes, for directories exactly the same set of entry
  names, recursively; with -p also the same twelve permission bits and the same modification time
  (at the microsecond resolution of the `T` record).
  `check` returns the list of discrepancies so that the oracle can name them.

Both are decided on a snapshot of the *real* file system by the compiled driver (spec oracle) and
are the conclusions of the theorems in Props/C11.lean, Props/C12.lean about the model.
-/
namespace PdshVerif.Pcp.Spec
open PdshVerif.Pcp

/-! ## C12 -/

def Confined (dest : Path) (paths : List Path) : Prop := ∀ p ∈ paths, dest <+: p

def escapes (dest : Path) (paths : List Path) : List Path := paths.filter (fun p => !dest.isPrefixOf p)

/-! ## C11 -/

inductive Bad where
  | missing | kind | data | mode | mtime | names
deriving DecidableEq, Repr

/-- names of the entries directly below `q` among the listed paths -/
def entryNames (listing : List Path) (q : Path) : List Str :=
  listing.filterMap fun p => if p.dropLast = q ∧ p ≠ [] then p.getLast? else none

def sameNames (a b : List Str) : Bool := a.all (b.contains ·) && b.all (a.contains ·)

mutual
/-- discrepancies between the node at `q` and the source tree; `listing` enumerates the paths that
exist (used for "no other entries"); `preserve` = the copy was made with -p -/
def check (preserve : Bool) (fs : FS) (listing : List Path) (q : Path) : Tree → List (Path × Bad)
  | .file m t _ d =>
    match fs q with
    | none => [(q, .missing)]
    | some (.dir ..) => [(q, .kind)]
    | some (.file m' t' d') =>
      (if d' = d then [] else [(q, .data)]) ++
      (if preserve && m' ≠ m % 4096 then [(q, .mode)] else []) ++
      (if preserve && t' ≠ some ⟨((t / USEC : Nat) : Int), ((t % USEC : Nat) : Int)⟩ then [(q, .mtime)] else [])
  | .dir m t _ kids =>
    match fs q with
    | none => [(q, .missing)]
    | some (.file ..) => [(q, .kind)]
    | some (.dir m' t') =>
      (if preserve && m' ≠ m % 4096 then [(q, .mode)] else []) ++
      (if preserve && t' ≠ some ⟨((t / USEC : Nat) : Int), ((t % USEC : Nat) : Int)⟩ then [(q, .mtime)] else []) ++
      (if sameNames (entryNames listing q) (kidNames kids) then [] else [(q, .names)]) ++
      checkKids preserve fs listing q kids
def checkKids (preserve : Bool) (fs : FS) (listing : List Path) (q : Path) :
    List (Str × Tree) → List (Path × Bad)
  | [] => []
  | (n, k) :: r => check preserve fs listing (q ++ [n]) k ++ checkKids preserve fs listing q r
def kidNames : List (Str × Tree) → List Str
  | [] => []
  | (n, _) :: r => n :: kidNames r
end

/-- the destination faithfully holds `t` at `q` -/
def Installed (preserve : Bool) (fs : FS) (listing : List Path) (q : Path) (t : Tree) : Prop :=
  check preserve fs listing q t = []

end PdshVerif.Pcp.Spec
