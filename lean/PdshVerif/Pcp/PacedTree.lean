import PdshVerif.Pcp.Paced

/-! # The chunks of a tree are answered one acknowledgement each

The tree induction of `feed_tree`/`feed_kids` once more, this time for the DIALOGUE: without a file size
limit every record of a tree (and the data of every file) draws exactly one acknowledgement.  The states
between the subtrees are taken from `feed_tree`/`feed_kids`. -/
namespace PdshVerif.Pcp
open PdshVerif.Gen

variable {o : Opts}

/-- the control record of a file, then its data: one acknowledgement each -/
theorem paced_C (hc : CntOk o) {st : St} {f : Frame} {rest : List Frame} {q : Path}
    (hph : st.phase = .start) (hs : st.stack = f :: rest) (htd : f.targisdir = true)
    (hr : resolve st.fs o.cwd f.targ = some q) (hd : st.fs.isDir q = true)
    {n : Str} (hn : GoodName n) (hfresh : st.fs (q ++ [n]) = none)
    (hlen : f.targ.length + n.length + 1 < PCP_PATH_MAX)
    (m : Nat) (d : Str) (hsz : d.length < 2 ^ 63) (hfit : o.fitsB d.length = true)
    (hus : usecOk f.atm = true ∧ usecOk f.mt = true) :
    Paced o st [cRecord m d.length n, d ++ [0]] := by
  have h1 := feed_C_head (o := o) hph hs htd hr hd hn hfresh hlen m d hsz hfit
  have h2 := feed_C hc hph hs htd hr hd hn hfresh hlen m d hsz hfit hus
  refine ⟨h1, ?_, trivial⟩
  have e : (d ++ [0]).foldl (step o) ((cRecord m d.length n).foldl (step o) st) =
      (cRecord m d.length n ++ d ++ [0]).foldl (step o) st := by
    simp only [List.foldl_append]
  rw [e, h2, h1]

mutual
theorem paced_tree (hc : CntOk o) (hnf : o.fsize = none) (ss : Bool) (t : Tree) (n : Str) (budget : Nat) (st : St)
    (f : Frame) (rest : List Frame) (q : Path) (h : AtDir o st f rest q) (hns : Pend o f)
    (hb : f.targ.length + budget < PCP_PATH_MAX) (hg : GoodTree budget n t)
    (hfresh : FreshBelow st.fs (q ++ [n])) :
    Paced o st (treeChunks o.preserve ss n t) := by
  cases t with
  | file m t a d =>
    simp only [GoodTree] at hg
    obtain ⟨hn, hnb, ht, ha, hd⟩ := hg
    have hfr : st.fs (q ++ [n]) = none := hfresh _ (List.prefix_refl _)
    have hfit : o.fitsB d.length = true := by simp [Opts.fitsB, hnf]
    simp only [treeChunks]
    by_cases hp : o.preserve = true
    · simp only [hp, ↓reduceIte, timesRecord]
      have hT := feed_T (o := o) h.phase h.stack (t / USEC) (sentUsec ss t) (a / USEC) (sentUsec ss a)
        (sent_lt ss ht).1 (sent_lt ss ht).2 (sent_lt ss ha).1 (sent_lt ss ha).2
      rw [paced_append]
      refine ⟨⟨by rw [hT], trivial⟩, ?_⟩
      simp only [List.flatten_cons, List.flatten_nil, List.append_nil]
      rw [hT]
      exact paced_C hc
        (st := { st with out := .ack :: st.out,
                         stack := { f with setimes := true, mt := sentTime ss t, atm := sentTime ss a } :: rest, phase := .start })
        (f := { f with setimes := true, mt := sentTime ss t, atm := sentTime ss a }) (rest := rest) (q := q) rfl rfl h.isdir
        h.res h.dir hn hfr (by simp only; omega) m d hd hfit ⟨usecOk_sent _ _, usecOk_sent _ _⟩
    · have hp' : o.preserve = false := by simpa using hp
      simp only [hp', Bool.false_eq_true, ↓reduceIte, List.nil_append]
      exact paced_C hc h.phase h.stack h.isdir h.res h.dir hn hfr (by omega) m d hd hfit h.us
  | dir m t a kids =>
    simp only [GoodTree] at hg
    obtain ⟨hn, hnb, ht, ha, hk⟩ := hg
    have hfr : st.fs (q ++ [n]) = none := hfresh _ (List.prefix_refl _)
    have htne : f.targ ≠ [] := (resolve_walkOk h.res).1
    -- the state and the parent frame after the optional `T` record
    obtain ⟨st1, f1, hst1, hf1t, hf1d, hf1u, hst1fs, hst1ph, hst1st, hpT⟩ :
        ∃ st1 f1, (if o.preserve then [timesRecord ss t a] else []).flatten.foldl (step o) st = st1 ∧ f1.targ = f.targ ∧
          f1.targisdir = true ∧ (usecOk f1.atm = true ∧ usecOk f1.mt = true) ∧ st1.fs = st.fs ∧
          st1.phase = .start ∧ st1.stack = f1 :: rest ∧
          Paced o st (if o.preserve then [timesRecord ss t a] else []) := by
      by_cases hp : o.preserve = true
      · simp only [hp, ↓reduceIte, timesRecord, List.flatten_cons, List.flatten_nil, List.append_nil]
        have hT := feed_T (o := o) h.phase h.stack (t / USEC) (sentUsec ss t) (a / USEC) (sentUsec ss a)
          (sent_lt ss ht).1 (sent_lt ss ht).2 (sent_lt ss ha).1 (sent_lt ss ha).2
        rw [hT]
        exact ⟨_, { f with setimes := true, mt := sentTime ss t, atm := sentTime ss a }, rfl, rfl, h.isdir,
          ⟨usecOk_sent _ _, usecOk_sent _ _⟩, rfl, rfl, rfl, by simp only [Paced]; rw [hT]; exact ⟨rfl, trivial⟩⟩
      · have hp' : o.preserve = false := by simpa using hp
        simp only [hp', Bool.false_eq_true, ↓reduceIte, List.flatten_nil, List.foldl_nil]
        exact ⟨_, f, rfl, rfl, h.isdir, h.us, rfl, h.phase, h.stack, trivial⟩
    -- the `D` record
    have hD := feed_D (o := o) (st := st1) (f := f1) (rest := rest) (q := q) hst1ph hst1st hf1d
      (by rw [hst1fs, hf1t]; exact h.res) (by rw [hst1fs]; exact h.dir) (by rw [hst1fs]; exact h.ver) hn
      (by rw [hst1fs]; exact hfr) (by rw [hf1t]; omega) m
    have hpD : ((dRecord m n).foldl (step o) st1).out = .ack :: st1.out := by rw [hD]
    generalize hst2 : (dRecord m n).foldl (step o) st1 = st2 at hD hpD
    have hfs2 : st2.fs = (st.fs.bumpDir q).set (q ++ [n]) (recvDirNode o st.fs q n m) := by
      rw [hD, hst1fs]
    have hmono2 : DirMono st.fs st2.fs := by
      rw [hfs2]
      exact (dirMono_bumpDir _ _).trans (dirMono_set_fresh _ (bumpDir_none _ _ _ hfr))
    have hrj := resolve_join h.res h.dir hn.plain hn.short (by omega)
    let chf : Frame := { targ := joinName f.targ n, targisdir := true, setimes := false, mt := default, atm := default }
    have hat2 : AtDir o st2 chf (f1 :: rest) (q ++ [n]) := by
      refine ⟨by rw [hD], by rw [hD, hf1t], rfl, resolve_mono hmono2 hrj, ?_, verifyOk_mono hmono2 h.ver,
        ⟨usecOk_zero _, usecOk_zero _⟩⟩
      rw [hfs2]
      simp [FS.isDir, set_self, recvDirNode, Node.isDir]
    -- the children
    have hkfresh : ∀ n' k', (n', k') ∈ kids → FreshBelow st2.fs (q ++ [n] ++ [n']) := by
      intro n' k' _ x hx
      have hx1 : (q ++ [n]) <+: x := (List.prefix_append _ _).trans hx
      rw [hfs2, set_other _ _ _ _ (prefix_snoc_ne hx), bumpDir_other _ _ _ (prefix_snoc_ne hx1)]
      exact hfresh x hx1
    have hblen : chf.targ.length + (budget - (n.length + 1)) < PCP_PATH_MAX := by
      show (joinName f.targ n).length + _ < _
      rw [joinName_cons_length _ _ htne]; omega
    have hK := feed_kids hc ss kids (budget - (n.length + 1)) st2 chf (f1 :: rest) (q ++ [n]) hat2
      (fun e => by cases e) hblen hk hkfresh
    have hpK := paced_kids hc hnf ss kids (budget - (n.length + 1)) st2 chf (f1 :: rest) (q ++ [n]) hat2
      (fun e => by cases e) hblen hk hkfresh
    generalize hst3 : (kidsBytes o.preserve ss kids).foldl (step o) st2 = st3 at hK
    obtain ⟨⟨f3, hat3, hf3s, hf3t⟩, hfs3, hmono3, _⟩ := hK
    -- the `E` record
    obtain ⟨mode3, tm3, hnode3⟩ := isDir_node hat3.dir
    have hE := feed_E (o := o) (st := st3) (ch := f3) (f := f1) (rest := rest) (q' := q ++ [n]) hat3.phase
      hat3.stack hat3.res hnode3 (by rw [hf3t]; exact trailingSlash_join _ hn.plain) hf1u
    -- assemble
    simp only [treeChunks]
    rw [paced_append]
    refine ⟨hpT, ?_⟩
    rw [hst1, paced_append]
    refine ⟨⟨by rw [hst2]; exact hpD, trivial⟩, ?_⟩
    simp only [List.flatten_cons, List.flatten_nil, List.append_nil]
    rw [hst2, paced_append]
    refine ⟨hpK, ?_⟩
    rw [kidsChunks_flatten, hst3]
    exact ⟨by rw [hE], trivial⟩
theorem paced_kids (hc : CntOk o) (hnf : o.fsize = none) (ss : Bool) (kids : List (Str × Tree)) (budget : Nat) (st : St)
    (f : Frame) (rest : List Frame) (q : Path) (h : AtDir o st f rest q) (hns : Pend o f)
    (hb : f.targ.length + budget < PCP_PATH_MAX) (hg : GoodKids budget kids)
    (hfresh : ∀ n k, (n, k) ∈ kids → FreshBelow st.fs (q ++ [n])) :
    Paced o st (kidsChunks o.preserve ss kids) := by
  cases kids with
  | nil => simp only [kidsChunks, Paced]
  | cons nk r =>
    obtain ⟨n, k⟩ := nk
    simp only [GoodKids] at hg
    obtain ⟨hgk, hdist, hgr⟩ := hg
    simp only [kidsChunks]
    rw [paced_append, treeChunks_flatten]
    refine ⟨paced_tree hc hnf ss k n budget st f rest q h hns hb hgk (hfresh n k List.mem_cons_self), ?_⟩
    have h1 := feed_tree hc ss k n budget st f rest q h hns hb hgk (hfresh n k List.mem_cons_self)
    generalize (treeBytes o.preserve ss n k).foldl (step o) st = st1 at h1
    obtain ⟨⟨f1, hat1, hf1s, hf1t⟩, hfs1, hmono1, _⟩ := h1
    have hfresh1 : ∀ n' k', (n', k') ∈ r → FreshBelow st1.fs (q ++ [n']) := by
      intro n' k' hm x hx
      rw [hfs1, recvTree_other o ss st.fs q n k x (prefix_snoc_ne hx)]
      · exact hfresh n' k' (List.mem_cons_of_mem _ hm) x hx
      · intro hx2
        have hne : n' ≠ n := hdist (n', k') hm
        have e := List.prefix_of_prefix_length_le hx hx2 (by simp)
        have e2 : q ++ [n'] = q ++ [n] := e.eq_of_length (by simp)
        have := List.append_cancel_left e2
        simp at this
        exact hne this
    exact paced_kids hc hnf ss r budget st1 f1 rest q hat1 hf1s (by rw [hf1t]; exact hb) hgr hfresh1
end

end PdshVerif.Pcp
