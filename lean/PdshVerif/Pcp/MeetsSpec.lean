import PdshVerif.Pcp.Received
import PdshVerif.Pcp.Commute
import PdshVerif.Pcp.Spec

/-! # The result of a copy meets the specification  (C11: model refines spec)

`Spec.check` (Pcp/Spec.lean) is what the check's oracle decides on a snapshot of the REAL destination: same
kind, same bytes, for directories exactly the same entry names, recursively; with -p the same twelve mode bits
and the same modification time to the microsecond.  Here: the file system `recvKids …` -- which
`copy_roundtrip` proves the receiver ends with -- passes that very function without a single discrepancy, for
the repaired sender/receiver pair (`Faithful`: no write faults; under -p microseconds are sent and a new
directory is chmod'ed after mkdir).  By mutual structural induction over trees and child lists; the observed
file system `g` and the `listing` of existing paths need to agree with the result only BELOW the names that were
installed (which is all the oracle looks at). -/
namespace PdshVerif.Pcp
open PdshVerif.Gen

/-- the pair as repaired (findings F11-MTIME-SUBSEC, F11-DIRMODE-SETID fixed), no write faults -/
structure Faithful (o : Opts) (ss : Bool) : Prop where
  nofault : o.fsize = none
  dch : o.preserve = true → o.dirChmod = true
  sub : o.preserve = true → ss = true

/-! ## the listing -/

theorem mem_entryNames (listing : List Path) (q : Path) (c : Str) :
    c ∈ Spec.entryNames listing q ↔ q ++ [c] ∈ listing := by
  unfold Spec.entryNames
  simp only [List.mem_filterMap]
  constructor
  · rintro ⟨p, hp, h⟩
    split at h
    · rename_i hc
      obtain ⟨ys, hys⟩ := List.getLast?_eq_some_iff.1 h
      have hq : ys = q := by rw [← hc.1, hys, List.dropLast_concat]
      rw [← hq, ← hys]
      exact hp
    · cases h
  · intro h
    exact ⟨q ++ [c], h, by simp⟩

theorem sameNames_iff (a b : List Str) : Spec.sameNames a b = true ↔ (∀ c ∈ a, c ∈ b) ∧ (∀ c ∈ b, c ∈ a) := by
  simp [Spec.sameNames, List.all_eq_true]

theorem mem_kidNames (kids : List (Str × Tree)) (c : Str) : c ∈ Spec.kidNames kids ↔ ∃ k, (c, k) ∈ kids := by
  induction kids with
  | nil => simp [Spec.kidNames]
  | cons nk r ih =>
    obtain ⟨n, k⟩ := nk
    simp only [Spec.kidNames, List.mem_cons, ih, Prod.mk.injEq]
    constructor
    · rintro (rfl | ⟨k', h⟩)
      · exact ⟨k, Or.inl ⟨rfl, rfl⟩⟩
      · exact ⟨k', Or.inr h⟩
    · rintro ⟨k', (⟨rfl, _⟩ | h)⟩
      · exact Or.inl rfl
      · exact Or.inr ⟨k', h⟩

theorem kidsHave_mem (kids : List (Str × Tree)) (c : Str) (rel : List Str) (h : kidsHave kids c rel = true) :
    ∃ k, (c, k) ∈ kids := by
  induction kids with
  | nil => simp [kidsHave] at h
  | cons nk r ih =>
    obtain ⟨n, k⟩ := nk
    simp only [kidsHave, Bool.or_eq_true, Bool.and_eq_true, beq_iff_eq] at h
    rcases h with ⟨rfl, _⟩ | h
    · exact ⟨k, List.mem_cons_self⟩
    · obtain ⟨k', hk'⟩ := ih h
      exact ⟨k', List.mem_cons_of_mem _ hk'⟩

/-! ## the node at the root of a received tree -/

theorem setMtimeAt_other (g : FS) (p : Path) (t : Time) (x : Path) (h : x ≠ p) : setMtimeAt g p t x = g x := by
  unfold setMtimeAt
  cases hg : g p with
  | none => rfl
  | some nd => simp only []; rw [set_other _ _ _ _ h]

/-- a directory arrives with the mode `recvDirMode` and, with -p, the time that was sent -/
theorem recvTree_dir_root (o : Opts) (ss : Bool) (fs : FS) (q : Path) (n : Str) (m t a : Nat)
    (kids : List (Str × Tree)) :
    ∃ tm, recvTree o ss fs q n (.dir m t a kids) (q ++ [n]) = some (.dir (recvDirMode o fs q n m) tm) ∧
      (o.preserve = true → tm = some (sentTime ss t)) := by
  have h1 : ((fs.bumpDir q).set (q ++ [n]) (recvDirNode o fs q n m)) (q ++ [n]) =
      some (.dir (recvDirMode o fs q n m) none) := by
    rw [set_self]; rfl
  obtain ⟨tm', h2⟩ := recvKids_parent o ss _ (q ++ [n]) kids _ _ h1
  simp only [recvTree]
  by_cases hp : o.preserve = true
  · refine ⟨some (sentTime ss t), ?_, fun _ => rfl⟩
    simp only [hp, ↓reduceIte]
    unfold setMtimeAt
    rw [h2]
    simp [set_self, Node.setMtime]
  · have hp' : o.preserve = false := by simpa using hp
    exact ⟨tm', by simp only [hp', Bool.false_eq_true, ↓reduceIte]; exact h2, fun h => by rw [hp'] at h; cases h⟩

theorem recvTree_root_some (o : Opts) (ss : Bool) (fs : FS) (q : Path) (n : Str) (t : Tree) :
    recvTree o ss fs q n t (q ++ [n]) ≠ none := by
  cases t with
  | file m t a d => simp [recvTree, set_self]
  | dir m t a kids =>
    obtain ⟨tm, h, _⟩ := recvTree_dir_root o ss fs q n m t a kids
    rw [h]; simp

/-! ## the induction -/

theorem and_mask_mod (m : Nat) : (m &&& RCP_MODEMASK) % 4096 = m % 4096 := by
  rw [MODEMASK_eq, show (4095 : Nat) = 2 ^ 12 - 1 from rfl, Nat.and_two_pow_sub_one_eq_mod, Nat.mod_mod]

mutual
/-- below the name it was installed under, a received tree passes `Spec.check` -/
theorem check_tree (o : Opts) (ss : Bool) (hf : Faithful o ss) (t : Tree) (budget : Nat) (fs : FS) (q : Path) (n : Str)
    (hgood : GoodTree budget n t) (hfresh : FreshBelow fs (q ++ [n])) (g : FS) (listing : List Path)
    (hg : ∀ x, (q ++ [n]) <+: x → g x = recvTree o ss fs q n t x)
    (hl : ∀ x, (q ++ [n]) <+: x → (x ∈ listing ↔ g x ≠ none)) :
    Spec.check o.preserve g listing (q ++ [n]) t = [] := by
  cases t with
  | file m tt a d =>
    have hroot : g (q ++ [n]) = some (.file (maskOff (m &&& RCP_MODEMASK) o.eumask)
        (if o.preserve then some (sentTime ss tt) else none) d) := by
      rw [hg _ (List.prefix_refl _)]
      simp [recvTree, set_self, recvFileNode, recvFile, Opts.fitsB, hf.nofault]
    simp only [Spec.check, hroot]
    by_cases hp : o.preserve = true
    · have hss := hf.sub hp
      subst hss
      simp [hp, Opts.eumask, maskOff_zero, sentUsec]
    · have hp' : o.preserve = false := by simpa using hp
      simp [hp']
  | dir m tt a kids =>
    have hgood' := hgood
    simp only [GoodTree] at hgood
    obtain ⟨hn, hnb, ht, ha, hk⟩ := hgood
    obtain ⟨tm, hroot0, htm⟩ := recvTree_dir_root o ss fs q n m tt a kids
    have hroot : g (q ++ [n]) = some (.dir (recvDirMode o fs q n m) tm) := by
      rw [hg _ (List.prefix_refl _), hroot0]
    have hkfresh : ∀ n' k', (n', k') ∈ kids →
        FreshBelow ((fs.bumpDir q).set (q ++ [n]) (recvDirNode o fs q n m)) (q ++ [n] ++ [n']) := by
      intro n' k' _ x hx'
      have hx1 : (q ++ [n]) <+: x := (List.prefix_append _ _).trans hx'
      rw [set_other _ _ _ _ (prefix_snoc_ne hx'), bumpDir_other _ _ _ (prefix_snoc_ne hx1)]
      exact hfresh x hx1
    have hgk : ∀ n' k', (n', k') ∈ kids → ∀ x, (q ++ [n] ++ [n']) <+: x →
        g x = recvKids o ss ((fs.bumpDir q).set (q ++ [n]) (recvDirNode o fs q n m)) (q ++ [n]) kids x := by
      intro n' k' _ x hx
      have hx1 : (q ++ [n]) <+: x := (List.prefix_append _ _).trans hx
      rw [hg x hx1]
      simp only [recvTree]
      split
      · exact setMtimeAt_other _ _ _ _ (prefix_snoc_ne hx)
      · rfl
    have hlk : ∀ n' k', (n', k') ∈ kids → ∀ x, (q ++ [n] ++ [n']) <+: x → (x ∈ listing ↔ g x ≠ none) :=
      fun n' k' _ x hx => hl x ((List.prefix_append _ _).trans hx)
    have hrec := check_kids o ss hf kids (budget - (n.length + 1)) _ (q ++ [n]) hk hkfresh g listing hgk hlk
    have hnames : Spec.sameNames (Spec.entryNames listing (q ++ [n])) (Spec.kidNames kids) = true := by
      rw [sameNames_iff]
      constructor
      · intro c hc
        rw [mem_entryNames] at hc
        have h1 : g (q ++ [n] ++ [c]) ≠ none := (hl _ (List.prefix_append _ _)).1 hc
        rw [hg _ (List.prefix_append _ _)] at h1
        have := recvTree_only o ss fs q n (.dir m tt a kids) budget hfresh hgood' [c] h1
        simp only [Tree.has] at this
        rw [mem_kidNames]
        exact kidsHave_mem kids c [] this
      · intro c hc
        rw [mem_kidNames] at hc
        obtain ⟨k, hk'⟩ := hc
        rw [mem_entryNames, hl _ (List.prefix_append _ _), hgk c k hk' _ (List.prefix_refl _)]
        obtain ⟨fs0, h0⟩ := recvKids_lookup o ss _ (q ++ [n]) kids c k hk' ((goodKids_iff _ _).1 hk).2
        rw [h0]
        exact recvTree_root_some o ss fs0 (q ++ [n]) c k
    simp only [Spec.check, hroot, hnames, hrec]
    by_cases hp : o.preserve = true
    · have hss := hf.sub hp
      subst hss
      have hd := hf.dch hp
      simp [hp, htm hp, recvDirMode, hd, and_mask_mod, sentUsec]
    · have hp' : o.preserve = false := by simpa using hp
      simp [hp']
/-- ... and so does every one of a list of siblings -/
theorem check_kids (o : Opts) (ss : Bool) (hf : Faithful o ss) (kids : List (Str × Tree)) (budget : Nat) (fs : FS)
    (q : Path) (hgood : GoodKids budget kids) (hfresh : ∀ n k, (n, k) ∈ kids → FreshBelow fs (q ++ [n]))
    (g : FS) (listing : List Path)
    (hg : ∀ n k, (n, k) ∈ kids → ∀ x, (q ++ [n]) <+: x → g x = recvKids o ss fs q kids x)
    (hl : ∀ n k, (n, k) ∈ kids → ∀ x, (q ++ [n]) <+: x → (x ∈ listing ↔ g x ≠ none)) :
    Spec.checkKids o.preserve g listing q kids = [] := by
  cases kids with
  | nil => simp [Spec.checkKids]
  | cons nk r =>
    obtain ⟨n, k⟩ := nk
    simp only [GoodKids] at hgood
    obtain ⟨hgk, hdist, hgr⟩ := hgood
    have h1 := check_tree o ss hf k budget fs q n hgk (hfresh n k List.mem_cons_self) g listing
      (fun x hx => by
        rw [hg n k List.mem_cons_self x hx]
        simp only [recvKids]
        exact recvKids_other o ss _ q r x (prefix_snoc_ne hx)
          (fun n' k' hm => ne_prefix_snoc' (Ne.symm (hdist (n', k') hm)) hx))
      (hl n k List.mem_cons_self)
    have hfresh1 : ∀ n' k', (n', k') ∈ r → FreshBelow (recvTree o ss fs q n k) (q ++ [n']) := by
      intro n' k' hm x hx'
      rw [recvTree_other o ss fs q n k x (prefix_snoc_ne hx') (ne_prefix_snoc' (hdist (n', k') hm) hx')]
      exact hfresh n' k' (List.mem_cons_of_mem _ hm) x hx'
    have h2 := check_kids o ss hf r budget (recvTree o ss fs q n k) q hgr hfresh1 g listing
      (fun n' k' hm x hx => by
        rw [hg n' k' (List.mem_cons_of_mem _ hm) x hx]
        simp only [recvKids])
      (fun n' k' hm => hl n' k' (List.mem_cons_of_mem _ hm))
    simp only [Spec.checkKids, h1, h2, List.append_nil]
end

end PdshVerif.Pcp
