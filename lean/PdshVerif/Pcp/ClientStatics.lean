import PdshVerif.Pcp.Statics

/-! # What the client threads of one `pdcp` process share  (forward copy to N targets; Pcp/FanOut.lean)

`dsh()` runs one thread per target; in a forward copy each of them calls `_pcp_client` (dsh.c:384), which fills an
AUTOMATIC `struct pcp_client` (the connection's two descriptors, the host name, the flags, and the pointer to the
pre-expanded file list) and runs `pcp_client()` on it.  The product automaton of Pcp/FanOut.lean gives every target
a session that depends on nothing but that target -- a claim about the translation unit pcp_client.c, tied to it the
way Pcp/Statics.lean ties the receiver side: on every run the check compiles `pcp_client.c` of the tree under test,
lists the object file's symbols (`nm`) and compares

* the objects of static storage duration it DEFINES with `clientStatics` below: NONE.  A new one (a cached
  descriptor, a `static char buf[]`, a counter) would be state shared by all client threads: the comparison fails
  loudly until the model accounts for it;
* the functions it CALLS with `clientProcessWideCalls`: the calls that read or write process-wide state.
  `readdir`/`opendir`/`closedir`/`access` are used by `_rexpand_dir` only, i.e. by `pcp_expand_dirs`, which dsh()
  calls ONCE, before it creates the first thread (dsh.c:1086 < :1143); any other function of the list fails the
  comparison.

What the threads do share, and how:
* `pcp->infiles` -- the list `pcp_expand_dirs` built.  After its construction nobody appends to or deletes from it;
  each thread walks it through an iterator of its own (`list_iterator_create` / `list_next` / `list_iterator_destroy`,
  which link the iterator into the list under the list's mutex -- list.c is compiled WITH_PTHREADS).  The elements
  (`struct pcp_filename`: name, `file_specified_by_user`) are only read.
* the source files themselves: every thread `stat`s, `open`s (O_RDONLY) and `read`s them through descriptors of its
  own (assumption of C11: sources do not change while they are copied).
* `stderr` through `err()` (one `vfprintf` per message: C06).
* `errno` is per thread.
So the bytes a client thread writes are a function of the list, the sources and the replies of ITS receiver:
`FanOut.Target.stream`.
-/
namespace PdshVerif.Pcp

/-- how the client threads use what they share -/
inductive ClientShare where
  /-- built before the first thread exists, only read afterwards; every thread has its own iterator -/
  | readOnlyAfterStart
  /-- serialised by the callee (stdio lock) -/
  | lockedByCallee
deriving DecidableEq, Repr

/-- the objects of static storage duration pcp_client.c defines: none -/
def clientStatics : List String := []

/-- what client threads reach through pointers handed to them -/
def clientShared : List (String × ClientShare) :=
  [("pcp_infiles", .readOnlyAfterStart), ("stderr", .lockedByCallee)]

/-- libc calls touching process-wide state that pcp_client.c may use -- all of them inside `pcp_expand_dirs`,
which runs once before any thread exists -/
def clientExpandOnlyCalls : List String := ["readdir", "opendir", "closedir", "access"]

/-- process-wide calls a client thread must not make -/
def clientProcessWideCalls : List String := processWideCalls.filter (fun c => !clientExpandOnlyCalls.contains c)

theorem client_no_static_state : clientStatics = [] := rfl

theorem client_shared_never_written :
    ∀ s ∈ clientShared, s.2 = .readOnlyAfterStart ∨ s.2 = .lockedByCallee := by decide

/-- the list the check uses is the receiver side's list minus the directory-reading calls of the expansion -/
theorem clientProcessWideCalls_sub : ∀ c ∈ clientProcessWideCalls, c ∈ processWideCalls ∧ c ≠ "readdir" := by decide

end PdshVerif.Pcp
