import PdshVerif.Pcp.TreeTrip
import PdshVerif.Pcp.Received
import PdshVerif.Pcp.SessionLemmas

/-! # The dialogue: one reply per record

The sender does not send its stream in one go: after every record (and after the data of a file) it reads
ONE reply and goes on only if it is positive.  `Paced o st chunks`: fed the chunks one after the other
from `st`, the receiver answers every chunk with exactly one acknowledgement.  Then

* a client in step with the receiver (`InSync`: it has read every reply so far, all positive) that works
  through entries whose chunks are `Paced` stays in step and draws no negative reply (`foldl_paced`,
  `session_paced`);
* the chunks of a tree under the hypotheses of the round trip are `Paced` (`paced_tree`/`paced_kids`, the
  tree induction with one reply per record; the states between the records come from `feed_tree`).
-/
namespace PdshVerif.Pcp
open PdshVerif.Gen

variable {o : Opts}

def Paced (o : Opts) : St → List Str → Prop
  | _, [] => True
  | st, c :: cs => (c.foldl (step o) st).out = .ack :: st.out ∧ Paced o (c.foldl (step o) st) cs

theorem paced_append (a b : List Str) (st : St) :
    Paced o st (a ++ b) ↔ Paced o st a ∧ Paced o (a.flatten.foldl (step o) st) b := by
  induction a generalizing st with
  | nil => simp [Paced]
  | cons c cs ih =>
    simp only [List.cons_append, Paced, List.flatten_cons, List.foldl_append, ih]
    exact ⟨fun ⟨x, y, z⟩ => ⟨⟨x, y⟩, z⟩, fun ⟨⟨x, y⟩, z⟩ => ⟨x, y, z⟩⟩

/-! ## the client side -/

/-- the pieces `pcp_sendfile` sends for one list element, each followed by the read of one reply -/
def entryChunks (so : SOpts) : Entry → List Str
  | .exitSubdir => [exitFlag]
  | .ent path user isDir m t a d =>
    if path = sentinelName && !(so.sentinelFix && user) then [exitFlag]
    else
      (if so.preserve then
          [tRecord (t / USEC) (if so.subsec then t % USEC else 0) (a / USEC) (if so.subsec then a % USEC else 0)]
        else []) ++
        (if isDir then [dRecord m (xbasename (if so.reverse && user then path ++ cDot :: so.host else path))]
         else [cRecord m d.length (xbasename (if so.reverse && user then path ++ cDot :: so.host else path)),
               d ++ [0]])

/-- the client has read every reply the receiver has sent and is in its normal mode -/
structure InSync (s : Sess) : Prop where
  dead : s.dead = false
  skip : s.skip = 0
  cons : s.consumed = s.st.out.length

theorem read_ack {s : Sess} {old : List Reply} (hc : s.consumed = old.length) (ho : s.st.out = .ack :: old) :
    s.read = (true, { s with consumed := s.consumed + 1 }) := by
  unfold Sess.read
  have : s.st.out.reverse[s.consumed]? = some .ack := by
    rw [ho, hc]
    simp
  rw [this]

theorem stage_paced {s : Sess} (h : InSync s) (bs : Str)
    (hout : (bs.foldl (step o) s.st).out = .ack :: s.st.out) :
    (sendStage o (true, s) bs).1 = true ∧ (sendStage o (true, s) bs).2.st = bs.foldl (step o) s.st ∧
    InSync (sendStage o (true, s) bs).2 ∧ (sendStage o (true, s) bs).2.failed = s.failed := by
  have hr : sendStage o (true, s) bs = (true, { s.feed o bs with consumed := s.consumed + 1 }) := by
    unfold sendStage
    simp only [if_true]
    exact read_ack (s := s.feed o bs) (old := s.st.out) h.cons hout
  rw [hr]
  refine ⟨rfl, rfl, ⟨h.dead, h.skip, ?_⟩, rfl⟩
  show s.consumed + 1 = (bs.foldl (step o) s.st).out.length
  rw [hout, h.cons]
  rfl

/-- a stage applied to the result of an earlier successful stage -/
theorem stage_paced' {r : Bool × Sess} (h1 : r.1 = true) (h : InSync r.2) (bs : Str)
    (hout : (bs.foldl (step o) r.2.st).out = .ack :: r.2.st.out) :
    (sendStage o r bs).1 = true ∧ (sendStage o r bs).2.st = bs.foldl (step o) r.2.st ∧
    InSync (sendStage o r bs).2 ∧ (sendStage o r bs).2.failed = r.2.failed := by
  obtain ⟨b, s⟩ := r
  simp only at h1 h hout ⊢
  subst h1
  exact stage_paced h bs hout

theorem clientStep_paced (so : SOpts) (co : COpts) {s : Sess} (h : InSync s) (e : Entry)
    (hp : Paced o s.st (entryChunks so e)) :
    InSync (clientStep so co o s e) ∧
    (clientStep so co o s e).st = (entryChunks so e).flatten.foldl (step o) s.st ∧
    (clientStep so co o s e).failed = s.failed := by
  have hnd : ¬ s.dead = true := by rw [h.dead]; simp
  have hnk : ¬ 0 < s.skip := by rw [h.skip]; simp
  have sentinel : Paced o s.st [exitFlag] →
      InSync (if ((s.feed o exitFlag).read).1 = true then ((s.feed o exitFlag).read).2
              else { ((s.feed o exitFlag).read).2 with dead := true }) ∧
      (if ((s.feed o exitFlag).read).1 = true then ((s.feed o exitFlag).read).2
              else { ((s.feed o exitFlag).read).2 with dead := true }).st = [exitFlag].flatten.foldl (step o) s.st ∧
      (if ((s.feed o exitFlag).read).1 = true then ((s.feed o exitFlag).read).2
              else { ((s.feed o exitFlag).read).2 with dead := true }).failed = s.failed := by
    intro hp'
    obtain ⟨g1, g2, g3, g4⟩ := stage_paced (o := o) h exitFlag hp'.1
    have he : sendStage o (true, s) exitFlag = (s.feed o exitFlag).read := by simp [sendStage]
    rw [he] at g1 g2 g3 g4
    rw [if_pos g1]
    exact ⟨g3, by simpa using g2, g4⟩
  cases e with
  | exitSubdir =>
    simp only [clientStep, if_neg hnd, if_neg hnk]
    exact sentinel hp
  | ent path user isDir m t a d =>
    simp only [clientStep, if_neg hnd, if_neg hnk]
    by_cases hs : (path = sentinelName && !(so.sentinelFix && user)) = true
    · rw [if_pos hs]
      have he : entryChunks so (.ent path user isDir m t a d) = [exitFlag] := by
        simp only [entryChunks]; rw [if_pos hs]
      rw [he] at hp ⊢
      exact sentinel hp
    · rw [if_neg hs]
      have he : entryChunks so (.ent path user isDir m t a d) =
          (if so.preserve then
              [tRecord (t / USEC) (if so.subsec then t % USEC else 0) (a / USEC) (if so.subsec then a % USEC else 0)]
            else []) ++
            (if isDir then [dRecord m (xbasename (if so.reverse && user then path ++ cDot :: so.host else path))]
             else [cRecord m d.length (xbasename (if so.reverse && user then path ++ cDot :: so.host else path)),
                   d ++ [0]]) := by
        simp only [entryChunks]; rw [if_neg hs]
      rw [he] at hp ⊢
      -- `pcp_sendfile` stage by stage
      have key : (sendfileOne so o s path user isDir m t a d).1 = true ∧
          (sendfileOne so o s path user isDir m t a d).2.failed = s.failed ∧
          InSync (sendfileOne so o s path user isDir m t a d).2 ∧
          (sendfileOne so o s path user isDir m t a d).2.st =
            ((if so.preserve then
              [tRecord (t / USEC) (if so.subsec then t % USEC else 0) (a / USEC) (if so.subsec then a % USEC else 0)]
            else []) ++
            (if isDir then [dRecord m (xbasename (if so.reverse && user then path ++ cDot :: so.host else path))]
             else [cRecord m d.length (xbasename (if so.reverse && user then path ++ cDot :: so.host else path)),
                   d ++ [0]])).flatten.foldl (step o) s.st := by
        unfold sendfileOne
        dsimp only
        -- the optional `T` record
        have h1 : ∃ r1 : Bool × Sess, (if so.preserve then
              sendStage o (true, s) (tRecord (t / USEC) (if so.subsec then t % USEC else 0) (a / USEC)
                (if so.subsec then a % USEC else 0)) else (true, s)) = r1 ∧ r1.1 = true ∧ r1.2.failed = s.failed ∧ InSync r1.2 ∧
            r1.2.st = (if so.preserve then
              [tRecord (t / USEC) (if so.subsec then t % USEC else 0) (a / USEC) (if so.subsec then a % USEC else 0)]
              else []).flatten.foldl (step o) s.st ∧
            Paced o r1.2.st (if isDir then [dRecord m (xbasename (if so.reverse && user then path ++ cDot :: so.host else path))]
             else [cRecord m d.length (xbasename (if so.reverse && user then path ++ cDot :: so.host else path)),
                   d ++ [0]]) := by
          rw [paced_append] at hp
          cases hpr : so.preserve with
          | false =>
            simp only [hpr, Bool.false_eq_true, if_false] at hp ⊢
            exact ⟨_, rfl, rfl, rfl, h, rfl, by simpa using hp.2⟩
          | true =>
            simp only [hpr, if_true] at hp ⊢
            obtain ⟨g1, g2, g3, g4⟩ := stage_paced (o := o) h _ hp.1.1
            refine ⟨_, rfl, g1, g4, g3, by simpa using g2, ?_⟩
            rw [g2]
            simpa using hp.2
        obtain ⟨r1, hr1, hr1a, hr1f, hr1b, hr1c, hr1d⟩ := h1
        rw [hr1, List.flatten_append, List.foldl_append, ← hr1c]
        cases isDir with
        | true =>
          simp only [if_true] at hr1d ⊢
          obtain ⟨g1, g2, g3, g4⟩ := stage_paced' (o := o) hr1a hr1b _ hr1d.1
          exact ⟨g1, by rw [g4, hr1f], g3, by simpa using g2⟩
        | false =>
          simp only [Bool.false_eq_true, if_false] at hr1d ⊢
          obtain ⟨g1, g2, g3, g4⟩ := stage_paced' (o := o) hr1a hr1b _ hr1d.1
          have hd2 := hr1d.2.1
          rw [← g2] at hd2
          obtain ⟨k1, k2, k3, k4⟩ := stage_paced' (o := o) g1 g3 _ hd2
          refine ⟨k1, by rw [k4, g4, hr1f], k3, ?_⟩
          rw [k2, g2]
          simp
      obtain ⟨k1, kf, k2, k3⟩ := key
      have hcond : ¬ (!(sendfileOne so o s path user isDir m t a d).1 && isDir && co.skipRefused) = true := by
        rw [k1]; simp
      rw [if_neg hcond]
      exact ⟨k2, k3, kf⟩

theorem foldl_paced (so : SOpts) (co : COpts) (es : List Entry) {s : Sess} (h : InSync s)
    (hp : Paced o s.st (es.flatMap (entryChunks so))) :
    InSync (es.foldl (clientStep so co o) s) ∧ (es.foldl (clientStep so co o) s).failed = s.failed ∧
    (es.foldl (clientStep so co o) s).st = (es.flatMap (entryChunks so)).flatten.foldl (step o) s.st := by
  induction es generalizing s with
  | nil => exact ⟨h, rfl, rfl⟩
  | cons e es ih =>
    rw [List.flatMap_cons, paced_append] at hp
    obtain ⟨c1, c2, c3⟩ := clientStep_paced (o := o) so co h e hp.1
    rw [List.foldl_cons]
    obtain ⟨i1, i2, i3⟩ := ih c1 (by rw [c2]; exact hp.2)
    refine ⟨i1, by rw [i2, c3], ?_⟩
    rw [i3, c2, List.flatMap_cons, List.flatten_append, List.foldl_append]

/-- the greeting is positive and the chunks of the whole list are paced: the session draws no negative
reply -/
theorem session_paced (so : SOpts) (co : COpts) (o : Opts) (fs : FS) (es : List Entry)
    (h0 : (enter o (St.init fs) o.dest).out = [.ack])
    (hp : Paced o (enter o (St.init fs) o.dest) (es.flatMap (entryChunks so))) :
    (session so co o fs es).failed = false := by
  unfold session
  dsimp only
  have hr := read_ack (s := { st := enter o (St.init fs) o.dest, sent := [], consumed := 0, failed := false,
                              skip := 0, dead := false }) (old := []) rfl h0
  rw [hr]
  simp only [Bool.not_true, Bool.false_eq_true, if_false]
  have hi : InSync ({ st := enter o (St.init fs) o.dest, sent := [], consumed := 0 + 1, failed := false,
                      skip := 0, dead := false } : Sess) := ⟨rfl, rfl, by simp [h0]⟩
  rw [(foldl_paced so co es hi hp).2.1]

/-! ## the chunks of a tree -/

mutual
def treeChunks (p ss : Bool) (n : Str) : Tree → List Str
  | .file m t a d => (if p then [timesRecord ss t a] else []) ++ [cRecord m d.length n, d ++ [0]]
  | .dir m t a kids =>
    (if p then [timesRecord ss t a] else []) ++ ([dRecord m n] ++ (kidsChunks p ss kids ++ [exitFlag]))
def kidsChunks (p ss : Bool) : List (Str × Tree) → List Str
  | [] => []
  | (n, k) :: r => treeChunks p ss n k ++ kidsChunks p ss r
end

mutual
theorem treeChunks_flatten (p ss : Bool) (n : Str) (t : Tree) : (treeChunks p ss n t).flatten = treeBytes p ss n t := by
  cases t with
  | file m t a d => cases p <;> simp [treeChunks, treeBytes]
  | dir m t a kids =>
    have := kidsChunks_flatten p ss kids
    cases p <;> simp [treeChunks, treeBytes, this]
theorem kidsChunks_flatten (p ss : Bool) (kids : List (Str × Tree)) :
    (kidsChunks p ss kids).flatten = kidsBytes p ss kids := by
  cases kids with
  | nil => rfl
  | cons nk r =>
    obtain ⟨n, k⟩ := nk
    simp only [kidsChunks, kidsBytes, List.flatten_append]
    rw [treeChunks_flatten p ss n k, kidsChunks_flatten p ss r]
end

mutual
theorem chunks_tree (so : SOpts) (path : Str) (user : Bool) (t : Tree)
    (hp : path ≠ sentinelName ∨ (so.sentinelFix = true ∧ user = true)) (hk : KidNamesOk t) :
    (expandTree path user t).flatMap (entryChunks so) = treeChunks so.preserve so.subsec (sentName so path user) t := by
  have hcond : (decide (path = sentinelName) && !(so.sentinelFix && user)) = false := by
    rcases hp with h | ⟨h1, h2⟩
    · simp [h]
    · simp [h1, h2]
  cases t with
  | file m t a d =>
    simp only [expandTree, List.flatMap_cons, List.flatMap_nil, List.append_nil, entryChunks, hcond, ↓reduceIte,
      treeChunks, sentName, Bool.false_eq_true, timesRecord, sentUsec]
  | dir m t a kids =>
    simp only [KidNamesOk] at hk
    simp only [expandTree, List.flatMap_cons, List.flatMap_append, List.flatMap_nil, List.append_nil, entryChunks,
      hcond, ↓reduceIte, treeChunks, sentName, Bool.false_eq_true, timesRecord, sentUsec]
    rw [chunks_kids so path kids hk]
    simp only [List.append_assoc]
theorem chunks_kids (so : SOpts) (path : Str) (kids : List (Str × Tree)) (hk : KidListOk kids) :
    (expandKids path kids).flatMap (entryChunks so) = kidsChunks so.preserve so.subsec kids := by
  cases kids with
  | nil => rfl
  | cons nk r =>
    obtain ⟨n, k⟩ := nk
    simp only [KidListOk] at hk
    obtain ⟨hn, hkk, hkr⟩ := hk
    simp only [expandKids, List.flatMap_append, kidsChunks]
    rw [chunks_tree so (path ++ cSlash :: n) false k (Or.inl (join_ne_sentinel _ _)) hkk, chunks_kids so path r hkr]
    simp only [sentName, Bool.and_false, Bool.false_eq_true, ↓reduceIte, xbasename_join path n hn]
end

theorem chunks_eq (so : SOpts) (srcs : List (Str × Tree)) (h : SrcsOk so srcs) :
    (expandAll srcs).flatMap (entryChunks so) = kidsChunks so.preserve so.subsec (namedSrcs so srcs) := by
  induction srcs with
  | nil => rfl
  | cons pt r ih =>
    obtain ⟨path, t⟩ := pt
    simp only [SrcsOk] at h
    simp only [expandAll, List.flatMap_append, namedSrcs, kidsChunks]
    rw [chunks_tree so path true t (h.1.imp id (fun e => ⟨e, rfl⟩)) h.2.1, ih h.2.2]

end PdshVerif.Pcp
