import PdshVerif.Pcp.Sink

/-! Lemmas about path strings and the system calls of `Pcp/FS.lean`: a successful call acts on the
lexical normal form of its argument; joining a validated name appends one component. -/
namespace PdshVerif.Pcp

theorem splitSlash_ne_nil (s : Str) : splitSlash s ≠ [] := by
  cases s with
  | nil => simp [splitSlash]
  | cons c cs =>
    unfold splitSlash
    split
    · simp
    · cases splitSlash cs <;> simp [consHead]

theorem splitSlash_append (s n : Str) :
    splitSlash (s ++ cSlash :: n) = splitSlash s ++ splitSlash n := by
  induction s with
  | nil => simp [splitSlash]
  | cons c cs ih =>
    by_cases hc : c = cSlash
    · simp [splitSlash, hc, ih]
    · simp only [List.cons_append, splitSlash, hc, ↓reduceIte, ih]
      cases hs : splitSlash cs with
      | nil => exact absurd hs (splitSlash_ne_nil cs)
      | cons h t => simp [consHead]

theorem splitSlash_noslash (n : Str) (h : cSlash ∉ n) : splitSlash n = [n] := by
  induction n with
  | nil => rfl
  | cons c cs ih =>
    have hc : c ≠ cSlash := fun e => h (e ▸ List.mem_cons_self)
    have hcs : cSlash ∉ cs := fun m => h (List.mem_cons_of_mem _ m)
    simp [splitSlash, hc, ih hcs, consHead]

theorem comps_append (s n : Str) : comps (s ++ cSlash :: n) = comps s ++ comps n := by
  simp [comps, splitSlash_append]

/-- what the scp rule gives -/
structure PlainName (n : Str) : Prop where
  ne : n ≠ []
  noslash : cSlash ∉ n
  nodot : n ≠ sDot
  nodotdot : n ≠ sDotDot

theorem scpNameOk_plain {n : Str} (h : scpNameOk n = true) : PlainName n := by
  simp only [scpNameOk, Bool.and_eq_true, Bool.not_eq_true', List.isEmpty_eq_false_iff,
    List.contains_eq_mem, decide_eq_false_iff_not, beq_eq_false_iff_ne] at h
  exact ⟨h.1.1.1, h.1.1.2, h.1.2, h.2⟩

theorem comps_plain {n : Str} (h : PlainName n) : comps n = [n] := by
  simp [comps, splitSlash_noslash n h.noslash, h.ne]

theorem isAbs_plain {n : Str} (h : PlainName n) : isAbs n = false := by
  cases n with
  | nil => rfl
  | cons c cs =>
    have : c ≠ cSlash := fun e => h.noslash (e ▸ List.mem_cons_self)
    simp [isAbs, this]

theorem lexStep_plain (cur : Path) {n : Str} (h : PlainName n) : lexStep cur n = cur ++ [n] := by
  simp [lexStep, h.nodot, h.nodotdot]

theorem lexWalk_append (cur : Path) (cs ds : List Str) :
    lexWalk cur (cs ++ ds) = lexWalk (lexWalk cur cs) ds := by
  simp [lexWalk, List.foldl_append]

/-- joining a validated name to the current target appends exactly one component -/
theorem lexNorm_joinName (cwd : Path) (targ : Str) {n : Str} (h : PlainName n) :
    lexNorm cwd (joinName targ n) = lexNorm cwd targ ++ [n] := by
  cases targ with
  | nil =>
    have hj : joinName [] n = n := by simp [joinName]
    rw [hj]
    simp only [lexNorm, isAbs_plain h, comps_plain h]
    simp [lexWalk, lexStep_plain _ h, comps, splitSlash, isAbs]
  | cons c cs =>
    have hj : joinName (c :: cs) n = (c :: cs) ++ cSlash :: n := by simp [joinName]
    have ha : isAbs ((c :: cs) ++ cSlash :: n) = isAbs (c :: cs) := by simp [isAbs]
    rw [hj, lexNorm, ha, comps_append, comps_plain h, lexWalk_append]
    simp [lexNorm, lexWalk, lexStep_plain _ h]

end PdshVerif.Pcp

namespace PdshVerif.Pcp

/-- what the narrow rule (`/` and `..` rejected) gives -/
structure SafeName (n : Str) : Prop where
  noslash : cSlash ∉ n
  nodotdot : n ≠ sDotDot

theorem narrowNameOk_safe {n : Str} (h : narrowNameOk n = true) : SafeName n := by
  simp only [narrowNameOk, Bool.and_eq_true, Bool.not_eq_true', List.contains_eq_mem,
    decide_eq_false_iff_not, beq_eq_false_iff_ne] at h
  exact ⟨h.1, h.2⟩

theorem PlainName.safe {n : Str} (h : PlainName n) : SafeName n := ⟨h.noslash, h.nodotdot⟩

/-- joining a name without `/` that is not `..` appends one component or (empty name, `.`) none -/
theorem lexNorm_joinName_safe (cwd : Path) (targ : Str) {n : Str} (h : SafeName n) :
    lexNorm cwd (joinName targ n) = lexNorm cwd targ ++ [n] ∨
    lexNorm cwd (joinName targ n) = lexNorm cwd targ := by
  by_cases he : n = []
  · right
    subst he
    cases targ with
    | nil => rfl
    | cons c cs =>
      have hj : joinName (c :: cs) [] = (c :: cs) ++ cSlash :: [] := by simp [joinName]
      have ha : isAbs ((c :: cs) ++ cSlash :: []) = isAbs (c :: cs) := by simp [isAbs]
      have hc : comps ([] : Str) = [] := by simp [comps, splitSlash]
      rw [hj, lexNorm, ha, comps_append, hc, List.append_nil]
      rfl
  · by_cases hd : n = sDot
    · right
      subst hd
      have hc : comps sDot = [sDot] := by decide
      cases targ with
      | nil =>
        have hj : joinName [] sDot = sDot := by simp [joinName]
        have hab : isAbs sDot = false := by decide
        have hn : lexNorm cwd ([] : Str) = cwd := by simp [lexNorm, isAbs, comps, splitSlash, lexWalk]
        rw [hj, hn]
        simp only [lexNorm, hab, hc]
        simp [lexWalk, lexStep]
      | cons c cs =>
        have hj : joinName (c :: cs) sDot = (c :: cs) ++ cSlash :: sDot := by simp [joinName]
        have ha : isAbs ((c :: cs) ++ cSlash :: sDot) = isAbs (c :: cs) := by simp [isAbs]
        rw [hj, lexNorm, ha, comps_append, hc, lexWalk_append]
        simp [lexNorm, lexWalk, lexStep]
    · left
      exact lexNorm_joinName cwd targ ⟨he, h.noslash, hd, h.nodotdot⟩

end PdshVerif.Pcp

namespace PdshVerif.Pcp

/-! ## successful system calls act on the lexical normal form -/

theorem resolve_eq {fs : FS} {cwd : Path} {s : Str} {p : Path} (h : resolve fs cwd s = some p) :
    p = lexNorm cwd s := by
  unfold resolve at h
  split at h; · simp at h
  split at h; · simp at h
  by_cases hw : walkOk fs (if isAbs s = true then [] else cwd) (comps s) = true
  · rw [if_pos hw] at h
    exact (Option.some.inj h).symm
  · rw [if_neg hw] at h
    simp at h

theorem stat_eq {fs : FS} {cwd : Path} {s : Str} {p : Path} {n : Node}
    (h : stat fs cwd s = some (p, n)) : p = lexNorm cwd s ∧ fs p = some n := by
  unfold stat at h
  split at h; · simp at h
  rename_i q hq
  split at h; · simp at h
  rename_i m hm
  split at h <;> simp at h
  obtain ⟨rfl, rfl⟩ := h
  exact ⟨resolve_eq hq, hm⟩

theorem mkdir_eq {fs fs' : FS} {cwd : Path} {s : Str} {mode um : Nat} {p : Path}
    (h : mkdir fs cwd s mode um = some (fs', p)) : p = lexNorm cwd s := by
  unfold mkdir at h
  split at h; · simp at h
  rename_i q hq
  split at h; · simp at h
  split at h <;> simp at h
  exact h.2 ▸ resolve_eq hq

theorem openCreat_eq {fs fs' : FS} {cwd : Path} {s : Str} {mode um : Nat} {p : Path} {c : Bool}
    (h : openCreat fs cwd s mode um = some (fs', p, c)) : p = lexNorm cwd s := by
  unfold openCreat at h
  split at h; · simp at h
  rename_i q hq
  split at h
  · simp at h
  · split at h <;> simp at h
    exact h.2.1 ▸ resolve_eq hq
  · split at h <;> simp at h
    exact h.2.1 ▸ resolve_eq hq

theorem chmod_eq {fs fs' : FS} {cwd : Path} {s : Str} {mode : Nat} {p : Path}
    (h : chmod fs cwd s mode = some (fs', p)) : p = lexNorm cwd s := by
  unfold chmod at h
  split at h; · simp at h
  rename_i q n hq
  simp at h
  exact h.2 ▸ (stat_eq hq).1

theorem utimes_eq {fs fs' : FS} {cwd : Path} {s : Str} {a m : Time} {p : Path}
    (h : utimes fs cwd s a m = some (fs', p)) : p = lexNorm cwd s := by
  unfold utimes at h
  split at h
  · split at h
    · unfold utimesAt at h
      split at h; · simp at h
      rename_i q n hq
      simp at h
      exact h.2 ▸ (stat_eq hq).1
    · simp at h
  split at h; · simp at h
  rename_i q n hq
  simp at h
  exact h.2 ▸ (stat_eq hq).1

end PdshVerif.Pcp
