import PdshVerif.Pcp.Deep

/-! # The dialogue over a tree whose entries disagree in kind with what the target already holds, at any depth

`session_dtree` / `session_dkids`: see Pcp/Deep.lean.  The cases `good`, `blockedFile`, `refusedDir` are those of
`session_items` (Pcp/Mixed.lean) for an entry at ANY level (`user` = `file_specified_by_user` arbitrary); the case
`into` enters a directory that exists (`feed_D_over`), recurs over its entries one level deeper, and leaves it
(`feed_E`: with -p the directory is re-timed after its entries). -/
namespace PdshVerif.Pcp
open PdshVerif.Gen

variable {o : Opts}

/-- what working through the list elements of one tree (or of the entries of one directory) achieves -/
structure DDone (o : Opts) (s s' : Sess) (f : Frame) (rest : List Frame) (q : Path) (fs' : FS) (bad : Nat) : Prop where
  sync : InSync s'
  frame : ∃ f', AtDir o s'.st f' rest q ∧ Pend o f' ∧ f'.targ = f.targ
  fs : s'.st.fs = fs'
  mono : DirMono s.st.fs s'.st.fs
  out : ∃ rs, s'.st.out = rs ++ s.st.out ∧ RsI rs 0 bad

/-- `after_optional_T` with what the frame remembers of the `T` record -/
theorem after_optional_T' {st : St} {f : Frame} {rest : List Frame} {q : Path} (h : AtDir o st f rest q)
    (hns : Pend o f) (ss : Bool) (t a : Nat) (ht : t < 2 ^ 63) (ha : a < 2 ^ 63) :
    ∃ f', AtDir o ((if o.preserve then [timesRecord ss t a] else []).flatten.foldl (step o) st) f' rest q ∧
      Pend o f' ∧ f'.targ = f.targ ∧
      ((if o.preserve then [timesRecord ss t a] else []).flatten.foldl (step o) st).fs = st.fs ∧
      Paced o st (if o.preserve then [timesRecord ss t a] else []) ∧
      ((if o.preserve then [timesRecord ss t a] else []).flatten.foldl (step o) st).out =
        (if o.preserve then [Reply.ack] else []) ++ st.out ∧
      f'.setimes = o.preserve ∧ (o.preserve = true → f'.mt = sentTime ss t) := by
  by_cases hp : o.preserve = true
  · simp only [hp, ↓reduceIte, timesRecord, List.flatten_cons, List.flatten_nil, List.append_nil]
    have hT := feed_T (o := o) h.phase h.stack (t / USEC) (sentUsec ss t) (a / USEC) (sentUsec ss a)
      (sent_lt ss ht).1 (sent_lt ss ht).2 (sent_lt ss ha).1 (sent_lt ss ha).2
    rw [hT]
    refine ⟨{ f with setimes := true, mt := sentTime ss t, atm := sentTime ss a },
      ⟨rfl, rfl, h.isdir, h.res, h.dir, h.ver, ⟨usecOk_sent _ _, usecOk_sent _ _⟩⟩, fun _ => hp, rfl, rfl, ?_, rfl, rfl,
      fun _ => rfl⟩
    simp only [Paced]
    rw [hT]
    exact ⟨rfl, trivial⟩
  · have hp' : o.preserve = false := by simpa using hp
    have hns' : f.setimes = false := by
      cases hfs : f.setimes with
      | false => rfl
      | true => rw [hns hfs] at hp'; cases hp'
    simp only [hp', Bool.false_eq_true, ↓reduceIte, List.flatten_nil, List.foldl_nil, List.nil_append]
    exact ⟨f, h, hns, rfl, by simp [Paced, hns']⟩

/-- the control record of a file whose name is taken by a regular file is acknowledged -/
theorem feed_C_head_over {st : St} {f : Frame} {rest : List Frame} {q : Path}
    (hph : st.phase = .start) (hs : st.stack = f :: rest) (htd : f.targisdir = true)
    (hr : resolve st.fs o.cwd f.targ = some q) (hd : st.fs.isDir q = true)
    {n : Str} (hn : GoodName n) {om : Nat} {ot : Option Time} {od : Str}
    (hold : st.fs (q ++ [n]) = some (.file om ot od))
    (hlen : f.targ.length + n.length + 1 < PCP_PATH_MAX)
    (m : Nat) (d : Str) (hsz : d.length < 2 ^ 63) (hfit : o.fitsB d.length = true) :
    ((cRecord m d.length n).foldl (step o) st).out = .ack :: st.out := by
  obtain ⟨hnl, _, hlen2⟩ := ctlBody_props (m &&& RCP_MODEMASK) d.length hn hsz
  rw [cRecord_eq, foldl_line st hph cC _ (by decide) hnl hlen2,
    handleRecord_ctl hs (classify_ctl cC (Or.inl rfl) _ _ hn (and_mask_lt m) hsz)
      (nameOk_plain _ hn.plain) htd]
  have hbeq : (cC == cD) = false := by decide
  simp only [hbeq, Bool.false_eq_true, ↓reduceIte]
  have hrj := resolve_join hr hd hn.plain hn.short hlen
  rw [handleFile_over _ _ hrj hold (trailingSlash_join _ hn.plain)]
  by_cases hd0 : d = []
  · subst hd0
    simp only [List.length_nil, Int.natCast_zero, Int.le_refl, ↓reduceIte]
    have := afterData_over (o := o)
      (st := { st with fs := st.fs.set (q ++ [n]) (.file (overMode o om (m &&& RCP_MODEMASK)) ot od),
                       touched := (q ++ [n]) :: st.touched, out := .ack :: st.out })
      (p := q ++ [n]) (np := joinName f.targ n) (count := 0) (pr := []) (wr := []) (w := []) hfit
      (set_self _ _ _) (by simp)
    simp only [List.length_nil, Int.natCast_zero] at this
    rw [this]
  · have hpos : 0 < d.length := List.length_pos_iff.2 hd0
    have hnle : ¬ ((d.length : Int) ≤ 0) := by omega
    simp only [hnle, ↓reduceIte]

theorem sentinel_cond (so : SOpts) (path : Str) (user : Bool)
    (hsent : path ≠ sentinelName ∨ (so.sentinelFix = true ∧ user = true)) :
    ¬ (path = sentinelName && !(so.sentinelFix && user)) = true := by
  rcases hsent with h | ⟨h1, h2⟩
  · simp [h]
  · simp [h1, h2]

theorem tchunks_eq (so : SOpts) (hp : so.preserve = o.preserve) (t a : Nat) :
    (if so.preserve then
      [tRecord (t / USEC) (if so.subsec then t % USEC else 0) (a / USEC) (if so.subsec then a % USEC else 0)] else []) =
    (if o.preserve then [timesRecord so.subsec t a] else []) := by
  rw [hp]; rfl

mutual
/-- **The dialogue over one tree onto an existing destination with entries of the wrong kind at any depth.** -/
theorem session_dtree (hc : CntOk o) (hnf : o.fsize = none) (so : SOpts) (co : COpts) (hco : co.skipRefused = true)
    (hp : so.preserve = o.preserve) (dt : DTree) (budget : Nat) (rest : List Frame) (q : Path)
    (path : Str) (user : Bool) (n : Str) (hname : sentName so path user = n)
    (hsent : path ≠ sentinelName ∨ (so.sentinelFix = true ∧ user = true))
    (s : Sess) (f : Frame) (hi : InSync s) (hat : AtDir o s.st f rest q) (hpe : Pend o f)
    (hb : f.targ.length + budget < PCP_PATH_MAX) (hok : DOk budget s.st.fs q n dt) :
    DDone o s ((expandTree path user dt.src).foldl (clientStep so co o) s) f rest q
      (dFs o so.subsec s.st.fs q n dt) (dBad dt) := by
  have hcond := sentinel_cond so path user hsent
  cases dt with
  | good t =>
    simp only [DOk] at hok
    obtain ⟨hgood, hk, hfresh⟩ := hok
    simp only [DTree.src, dFs, dBad]
    have hpaced := paced_tree hc hnf so.subsec t n budget s.st f rest q hat hpe hb hgood hfresh
    have hch := chunks_tree so path user t hsent hk
    rw [hname] at hch
    rw [← hp, ← hch] at hpaced
    obtain ⟨i1, _, i3⟩ := foldl_paced so co (expandTree path user t) hi hpaced
    rw [hch, treeChunks_flatten, hp] at i3
    have hfed := feed_tree hc so.subsec t n budget s.st f rest q hat hpe hb hgood hfresh
    rw [← i3] at hfed
    generalize (expandTree path user t).foldl (clientStep so co o) s = s1 at i1 hfed ⊢
    obtain ⟨⟨f1, hat1, hpe1, hf1t⟩, hfs1, hmono1, rs1, hout1, hrs1⟩ := hfed
    rw [faults_none o hnf] at hrs1
    exact ⟨i1, ⟨f1, hat1, hpe1, hf1t⟩, hfs1, hmono1, rs1, hout1, RsI.of_Rs hrs1⟩
  | over m t a d =>
    simp only [DOk] at hok
    obtain ⟨hnm, hnb, ht, ha, hd, om, ot, od, hold⟩ := hok
    simp only [DTree.src, dBad, expandTree, List.foldl_cons, List.foldl_nil]
    have hfit : o.fitsB d.length = true := by simp [Opts.fitsB, hnf]
    obtain ⟨f1, hat1, hpe1, hf1t, hfs1, hpT, hout1, hf1s, hf1m⟩ :=
      after_optional_T' (o := o) hat hpe so.subsec t a ht ha
    generalize hst1 : (if o.preserve then [timesRecord so.subsec t a] else []).flatten.foldl (step o) s.st = st1
      at hat1 hfs1 hout1
    have hold1 : st1.fs (q ++ [n]) = some (.file om ot od) := by rw [hfs1]; exact hold
    have hlen1 : f1.targ.length + n.length + 1 < PCP_PATH_MAX := by rw [hf1t]; omega
    have h1 := feed_C_head_over (o := o) hat1.phase hat1.stack hat1.isdir hat1.res hat1.dir hnm hold1 hlen1 m d hd hfit
    have h2 := feed_C_over hc hat1.phase hat1.stack hat1.isdir hat1.res hat1.dir hnm hold1 hlen1 m d hd hfit hat1.us
    have hTeq := tchunks_eq (o := o) so hp t a
    have hch0 : entryChunks so (.ent path user false m t a d) =
        (if o.preserve then [timesRecord so.subsec t a] else []) ++ [cRecord m d.length n, d ++ [0]] := by
      simp only [entryChunks, if_neg hcond, Bool.false_eq_true, if_false, hTeq]
      rw [← hname]
      rfl
    have e : (d ++ [0]).foldl (step o) ((cRecord m d.length n).foldl (step o) st1) =
        (cRecord m d.length n ++ d ++ [0]).foldl (step o) st1 := by
      simp only [List.foldl_append]
    have hp0 : Paced o s.st (entryChunks so (.ent path user false m t a d)) := by
      rw [hch0, paced_append]
      refine ⟨hpT, ?_⟩
      rw [hst1]
      refine ⟨h1, ?_, trivial⟩
      rw [e, h2, h1]
    obtain ⟨c1, c2, _⟩ := clientStep_paced (o := o) so co hi _ hp0
    rw [hch0, List.flatten_append, List.foldl_append, hst1] at c2
    simp only [List.flatten_cons, List.flatten_nil, List.append_nil, List.foldl_append] at c2
    have h2' := h2
    simp only [List.foldl_append] at h2'
    rw [h2'] at c2
    generalize clientStep so co o s (.ent path user false m t a d) = s1 at c1 c2 ⊢
    have hmono : DirMono s.st.fs (st1.fs.set (q ++ [n]) (.file (overMode o om (m &&& RCP_MODEMASK))
        (if f1.setimes then some f1.mt else none) d)) := by
      rw [hfs1]
      exact dirMono_set_same _ hold rfl
    refine ⟨c1, ⟨{ f1 with setimes := false }, ?_, (fun e => by cases e), hf1t⟩, ?_, ?_,
      .ack :: .ack :: (if o.preserve then [Reply.ack] else []), ?_, ?_⟩
    · rw [c2]
      refine ⟨rfl, rfl, hat1.isdir, ?_, hmono _ hat.dir, verifyOk_mono hmono hat.ver, hat1.us⟩
      show resolve _ o.cwd f1.targ = some q
      rw [hf1t]
      exact resolve_mono hmono hat.res
    · rw [c2]
      show st1.fs.set (q ++ [n]) _ = _
      simp only [dFs, hold]
      rw [hfs1]
      by_cases hpp : o.preserve = true
      · have hs1 : f1.setimes = true := by rw [hf1s]; exact hpp
        simp only [hs1, hpp, ↓reduceIte, hf1m hpp]
      · have hpp' : o.preserve = false := by simpa using hpp
        have hs1 : f1.setimes = false := by rw [hf1s]; exact hpp'
        simp only [hs1, hpp', Bool.false_eq_true, ↓reduceIte]
    · rw [c2]
      exact hmono
    · rw [c2]
      show Reply.ack :: Reply.ack :: st1.out = _
      rw [hout1]
      simp
    · cases o.preserve <;> exact ⟨by decide, by decide, by decide⟩
  | blockedFile m t a d =>
    simp only [DOk] at hok
    obtain ⟨hnm, hnb, ht, ha, hd, dm, ddt, hblk⟩ := hok
    simp only [DTree.src, dFs, dBad, expandTree, List.foldl_cons, List.foldl_nil]
    obtain ⟨f1, hat1, hpe1, hf1t, hfs1, hpT, hout1⟩ := after_optional_T (o := o) hat hpe so.subsec t a ht ha
    generalize hst1 : (if o.preserve then [timesRecord so.subsec t a] else []).flatten.foldl (step o) s.st = st1
      at hat1 hfs1 hout1
    have hC := feed_C_blocked (o := o) hat1.phase hat1.stack hat1.isdir hat1.res hat1.dir hnm
      (by rw [hfs1]; exact hblk) (by rw [hf1t]; omega) m d.length hd
    have hTeq := tchunks_eq (o := o) so hp t a
    obtain ⟨e1, e3⟩ := blocked_file_entry (o := o) so co hi path user m t a d hcond
      (by rw [hTeq]; exact hpT) .path (by
        rw [hTeq]
        show ((cRecord m d.length (sentName so path user)).foldl (step o) _).out = _
        rw [hname, hst1, hC])
    rw [hTeq] at e3
    have e3' : (clientStep so co o s (.ent path user false m t a d)).st =
        { st1 with out := .err .path :: st1.out, phase := .start } := by
      rw [e3]
      show (cRecord m d.length (sentName so path user)).foldl (step o) _ = _
      rw [hname, hst1, hC]
    generalize clientStep so co o s (.ent path user false m t a d) = s1 at e1 e3'
    refine ⟨e1, ⟨f1, ?_, hpe1, hf1t⟩, by rw [e3']; exact hfs1, ?_,
      Reply.err .path :: (if o.preserve then [Reply.ack] else []), ?_, rsI_one_refusal o.preserve⟩
    · rw [e3']
      exact ⟨rfl, hat1.stack, hat1.isdir, hat1.res, hat1.dir, hat1.ver, hat1.us⟩
    · rw [e3']
      show DirMono s.st.fs st1.fs
      rw [hfs1]
      exact DirMono.refl _
    · rw [e3']
      show Reply.err .path :: st1.out = _
      rw [hout1]
      simp
  | refusedDir m t a kids =>
    simp only [DOk] at hok
    obtain ⟨hnm, hnb, ht, ha, fm, ft, fd, hblk⟩ := hok
    simp only [DTree.src, dFs, dBad]
    obtain ⟨f1, hat1, hpe1, hf1t, hfs1, hpT, hout1⟩ := after_optional_T (o := o) hat hpe so.subsec t a ht ha
    generalize hst1 : (if o.preserve then [timesRecord so.subsec t a] else []).flatten.foldl (step o) s.st = st1
      at hat1 hfs1 hout1
    have hD := feed_D_blocked (o := o) hat1.phase hat1.stack hat1.isdir hat1.res hat1.dir hnm
      (by rw [hfs1]; exact hblk) (by rw [hf1t]; omega) m
    have hTeq := tchunks_eq (o := o) so hp t a
    obtain ⟨e1, _, e3⟩ := refused_entries (o := o) so co hco hi path user m t a kids hcond
      (by rw [hTeq]; exact hpT) .path (by
        rw [hTeq]
        show ((dRecord m (sentName so path user)).foldl (step o) _).out = _
        rw [hname, hst1, hD])
    rw [hTeq] at e3
    have e3' : ((expandTree path user (Tree.dir m t a kids)).foldl (clientStep so co o) s).st =
        { st1 with out := .err .path :: st1.out, phase := .start } := by
      rw [e3]
      show (dRecord m (sentName so path user)).foldl (step o) _ = _
      rw [hname, hst1, hD]
    generalize (expandTree path user (Tree.dir m t a kids)).foldl (clientStep so co o) s = s1 at e1 e3'
    refine ⟨e1, ⟨f1, ?_, hpe1, hf1t⟩, by rw [e3']; exact hfs1, ?_,
      Reply.err .path :: (if o.preserve then [Reply.ack] else []), ?_, rsI_one_refusal o.preserve⟩
    · rw [e3']
      exact ⟨rfl, hat1.stack, hat1.isdir, hat1.res, hat1.dir, hat1.ver, hat1.us⟩
    · rw [e3']
      show DirMono s.st.fs st1.fs
      rw [hfs1]
      exact DirMono.refl _
    · rw [e3']
      show Reply.err .path :: st1.out = _
      rw [hout1]
      simp
  | into m t a kids =>
    simp only [DOk] at hok
    obtain ⟨hnm, hnb, ht, ha, ⟨dm, ddt, hold⟩, hkids⟩ := hok
    simp only [DTree.src, dBad, expandTree, List.foldl_cons, List.foldl_append, List.foldl_nil]
    have htne : f.targ ≠ [] := (resolve_walkOk hat.res).1
    -- the optional `T` record
    obtain ⟨f1, hat1, hpe1, hf1t, hfs1, hpT, hout1, hf1s, hf1m⟩ :=
      after_optional_T' (o := o) hat hpe so.subsec t a ht ha
    generalize hst1 : (if o.preserve then [timesRecord so.subsec t a] else []).flatten.foldl (step o) s.st = st1
      at hat1 hfs1 hout1
    -- the `D` record: the directory is there, it is entered
    have hD := feed_D_over (o := o) (st := st1) (f := f1) (rest := rest) (q := q) hat1.phase hat1.stack hat1.isdir
      hat1.res hat1.dir hat1.ver hnm (by rw [hfs1]; exact hold) (by rw [hf1t]; omega) m
    have hTeq := tchunks_eq (o := o) so hp t a
    -- the client: the directory's own list element
    have hch0 : entryChunks so (.ent path user true m t a []) =
        (if o.preserve then [timesRecord so.subsec t a] else []) ++ [dRecord m n] := by
      simp only [entryChunks, if_neg hcond, if_true, hTeq]
      rw [← hname]
      rfl
    have hp0 : Paced o s.st (entryChunks so (.ent path user true m t a [])) := by
      rw [hch0, paced_append]
      refine ⟨hpT, ?_⟩
      rw [hst1]
      simp only [Paced]
      rw [hD]
      exact ⟨rfl, trivial⟩
    obtain ⟨c1, c2, _⟩ := clientStep_paced (o := o) so co hi _ hp0
    rw [hch0, List.flatten_append, List.foldl_append, hst1] at c2
    simp only [List.flatten_cons, List.flatten_nil, List.append_nil] at c2
    generalize clientStep so co o s (.ent path user true m t a []) = s1 at c1 c2 ⊢
    generalize hst2 : (dRecord m n).foldl (step o) st1 = st2 at hD c2
    have hfs2 : st2.fs =
        (if o.preserve then s.st.fs.set (q ++ [n]) (.dir ((m &&& RCP_MODEMASK) % 4096) ddt) else s.st.fs) := by
      rw [hD, hfs1]
    have hmono2 : DirMono s.st.fs st2.fs := by
      rw [hfs2]
      split
      · exact dirMono_set_same _ hold rfl
      · exact DirMono.refl _
    have hrj := resolve_join hat.res hat.dir hnm.plain hnm.short (by omega)
    let chf : Frame := { targ := joinName f.targ n, targisdir := true, setimes := false, mt := default, atm := default }
    have hat2 : AtDir o s1.st chf (f1 :: rest) (q ++ [n]) := by
      rw [c2]
      refine ⟨by rw [hD], by rw [hD, hf1t], rfl, resolve_mono hmono2 hrj, ?_, verifyOk_mono hmono2 hat.ver,
        ⟨usecOk_zero _, usecOk_zero _⟩⟩
      exact hmono2 _ (by simp [FS.isDir, hold, Node.isDir])
    have hkids2 : DKidsOk (budget - (n.length + 1)) s1.st.fs (q ++ [n]) kids := by
      rw [c2]
      apply dKidsOk_congr kids _ hkids
      intro n' _ _ x hx
      rw [hfs2]
      split
      · exact set_other _ _ _ _ (prefix_snoc_ne hx)
      · rfl
    -- the entries, one level deeper
    have hK := session_dkids hc hnf so co hco hp kids (budget - (n.length + 1)) (f1 :: rest) (q ++ [n]) path s1 chf c1
      hat2 (fun e => by cases e)
      (by
        show (joinName f.targ n).length + _ < _
        rw [joinName_cons_length _ _ htne]; omega) hkids2
    generalize (expandKids path (dsrcs kids)).foldl (clientStep so co o) s1 = s3 at hK ⊢
    obtain ⟨i3, ⟨f3, hat3, _, hf3t⟩, hfs3, hmono3, rs3, hout3, hrs3⟩ := hK
    -- the leave-directory record
    obtain ⟨mode3, tm3, hnode3⟩ := isDir_node hat3.dir
    have hE := feed_E (o := o) (st := s3.st) (ch := f3) (f := f1) (rest := rest) (q' := q ++ [n]) hat3.phase
      hat3.stack hat3.res hnode3 (by rw [hf3t]; exact trailingSlash_join _ hnm.plain) hat1.us
    have hpE : Paced o s3.st (entryChunks so .exitSubdir) := by
      simp only [entryChunks, Paced]
      rw [hE]
      exact ⟨rfl, trivial⟩
    obtain ⟨d1, d2, _⟩ := clientStep_paced (o := o) so co i3 _ hpE
    simp only [entryChunks, List.flatten_cons, List.flatten_nil, List.append_nil] at d2
    rw [hE] at d2
    generalize clientStep so co o s3 .exitSubdir = s4 at d1 d2 ⊢
    have hmonoE : DirMono s3.st.fs
        (if f1.setimes = true then s3.st.fs.set (q ++ [n]) (.dir mode3 (some f1.mt)) else s3.st.fs) := by
      split
      · exact dirMono_set_same _ hnode3 rfl
      · exact DirMono.refl _
    have hm13 : DirMono s.st.fs s3.st.fs := by
      have : DirMono s1.st.fs s3.st.fs := hmono3
      rw [c2] at this
      exact hmono2.trans this
    have hmonoAll := hm13.trans hmonoE
    refine ⟨d1, ⟨{ f1 with setimes := false }, ?_, (fun e => by cases e), hf1t⟩, ?_, ?_, ?_⟩
    · rw [d2]
      refine ⟨rfl, rfl, hat1.isdir, ?_, hmonoAll _ hat.dir, verifyOk_mono hmonoAll hat.ver, hat1.us⟩
      show resolve _ o.cwd f1.targ = some q
      rw [hf1t]
      exact resolve_mono hmonoAll hat.res
    · -- the file system is `dFs`
      rw [d2]
      show (if f1.setimes = true then s3.st.fs.set (q ++ [n]) (.dir mode3 (some f1.mt)) else s3.st.fs) = _
      simp only [dFs, hold]
      rw [hfs3, c2, hfs2] at *
      by_cases hpp : o.preserve = true
      · have hs1 : f1.setimes = true := by rw [hf1s]; exact hpp
        simp only [hpp, ↓reduceIte] at hnode3 ⊢
        simp only [hs1, ↓reduceIte, hf1m hpp]
        unfold setMtimeAt
        rw [hnode3]
        rfl
      · have hpp' : o.preserve = false := by simpa using hpp
        have hs1 : f1.setimes = false := by rw [hf1s]; exact hpp'
        simp only [hs1, hpp', Bool.false_eq_true, ↓reduceIte]
    · rw [d2]
      exact hmonoAll
    · refine ⟨.ack :: (rs3 ++ (.ack :: (if o.preserve then [Reply.ack] else []))), ?_, ?_⟩
      · rw [d2]
        show Reply.ack :: s3.st.out = _
        rw [hout3, c2, hD, hout1]
        simp
      · have h1 : RsI (Reply.ack :: (if o.preserve then [Reply.ack] else [])) 0 0 := by
          cases o.preserve <;> exact ⟨by decide, by decide, by decide⟩
        have h2 : RsI [Reply.ack] 0 0 := ⟨by decide, by decide, by decide⟩
        have := RsI.append h2 (RsI.append hrs3 h1)
        simpa using this
/-- **The dialogue over the entries of one directory level.** -/
theorem session_dkids (hc : CntOk o) (hnf : o.fsize = none) (so : SOpts) (co : COpts) (hco : co.skipRefused = true)
    (hp : so.preserve = o.preserve) (kids : List (Str × DTree)) (budget : Nat) (rest : List Frame) (q : Path)
    (path : Str) (s : Sess) (f : Frame) (hi : InSync s) (hat : AtDir o s.st f rest q) (hpe : Pend o f)
    (hb : f.targ.length + budget < PCP_PATH_MAX) (hok : DKidsOk budget s.st.fs q kids) :
    DDone o s ((expandKids path (dsrcs kids)).foldl (clientStep so co o) s) f rest q
      (dKidsFs o so.subsec s.st.fs q kids) (dKidsBad kids) := by
  cases kids with
  | nil =>
    simp only [dsrcs, expandKids, List.foldl_nil, dKidsFs, dKidsBad]
    exact ⟨hi, ⟨f, hat, hpe, rfl⟩, rfl, DirMono.refl _, [], rfl, ⟨by simp, rfl, rfl⟩⟩
  | cons nk r =>
    obtain ⟨n, k⟩ := nk
    simp only [DKidsOk] at hok
    obtain ⟨hsl, hk, hdist, hr⟩ := hok
    simp only [dsrcs, expandKids, List.foldl_append, dKidsFs, dKidsBad]
    have hnm : sentName so (path ++ cSlash :: n) false = n := by
      simp [sentName, xbasename_join path n hsl]
    have h1 := session_dtree hc hnf so co hco hp k budget rest q (path ++ cSlash :: n) false n hnm
      (Or.inl (join_ne_sentinel _ _)) s f hi hat hpe hb hk
    generalize (expandTree (path ++ cSlash :: n) false k.src).foldl (clientStep so co o) s = s1 at h1
    obtain ⟨i1, ⟨f1, hat1, hpe1, hf1t⟩, hfs1, hmono1, rs1, hout1, hrs1⟩ := h1
    have hr1 : DKidsOk budget s1.st.fs q r := by
      rw [hfs1]
      exact dKidsOk_congr r (fun n' k' hm x hx =>
        dFs_other o so.subsec s.st.fs q n k x (prefix_snoc_ne hx) (ne_prefix_snoc (hdist (n', k') hm) hx)) hr
    have h2 := session_dkids hc hnf so co hco hp r budget rest q path s1 f1 i1 hat1 hpe1 (by rw [hf1t]; exact hb) hr1
    generalize (expandKids path (dsrcs r)).foldl (clientStep so co o) s1 = s2 at h2
    obtain ⟨i2, ⟨f2, hat2, hpe2, hf2t⟩, hfs2, hmono2, rs2, hout2, hrs2⟩ := h2
    refine ⟨i2, ⟨f2, hat2, hpe2, hf2t.trans hf1t⟩, by rw [hfs2, hfs1], hmono1.trans hmono2, rs2 ++ rs1, ?_, ?_⟩
    · rw [hout2, hout1, List.append_assoc]
    · have := RsI.append hrs2 hrs1
      simpa using this
end

/-! ## the sources the user names -/

/-- the sources as the client sees them -/
def dTopSrcs : List (Str × DTree) → List (Str × Tree)
  | [] => []
  | (p, k) :: r => (p, k.src) :: dTopSrcs r

/-- the file system the receiver ends with -/
def dTopFs (o : Opts) (so : SOpts) (fs : FS) (D : Path) : List (Str × DTree) → FS
  | [] => fs
  | (p, k) :: r => dTopFs o so (dFs o so.subsec fs D (sentName so p true) k) D r

def dTopBad : List (Str × DTree) → Nat
  | [] => 0
  | (_, k) :: r => dTopBad r + dBad k

def DTopOk (so : SOpts) (budget : Nat) (fs : FS) (D : Path) : List (Str × DTree) → Prop
  | [] => True
  | (p, k) :: r =>
    (p ≠ sentinelName ∨ so.sentinelFix = true) ∧ DOk budget fs D (sentName so p true) k ∧
      (∀ x ∈ r, sentName so x.1 true ≠ sentName so p true) ∧ DTopOk so budget fs D r

theorem dTopOk_congr (so : SOpts) {fs fs' : FS} {budget : Nat} {D : Path} (items : List (Str × DTree))
    (h : ∀ p k, (p, k) ∈ items → ∀ x, (D ++ [sentName so p true]) <+: x → fs' x = fs x)
    (hok : DTopOk so budget fs D items) : DTopOk so budget fs' D items := by
  induction items with
  | nil => trivial
  | cons pk r ih =>
    obtain ⟨p, k⟩ := pk
    simp only [DTopOk] at hok ⊢
    exact ⟨hok.1, dOk_congr k (h p k List.mem_cons_self) hok.2.1, hok.2.2.1,
      ih (fun p' k' hm => h p' k' (List.mem_cons_of_mem _ hm)) hok.2.2.2⟩

/-- **The dialogue over the list of sources**, each onto whatever the destination holds at its name. -/
theorem session_dsrcs (hc : CntOk o) (hnf : o.fsize = none) (so : SOpts) (co : COpts) (hco : co.skipRefused = true)
    (hp : so.preserve = o.preserve) (budget : Nat) (rest : List Frame) (q : Path) (items : List (Str × DTree)) :
    ∀ (s : Sess) (f : Frame), InSync s → AtDir o s.st f rest q → Pend o f →
      f.targ.length + budget < PCP_PATH_MAX → DTopOk so budget s.st.fs q items →
      DDone o s ((expandAll (dTopSrcs items)).foldl (clientStep so co o) s) f rest q
        (dTopFs o so s.st.fs q items) (dTopBad items) := by
  induction items with
  | nil =>
    intro s f hi hat hpe _ _
    exact ⟨hi, ⟨f, hat, hpe, rfl⟩, rfl, DirMono.refl _, [], rfl, ⟨by simp, rfl, rfl⟩⟩
  | cons pk r ih =>
    obtain ⟨p, k⟩ := pk
    intro s f hi hat hpe hb hok
    simp only [DTopOk] at hok
    obtain ⟨hsent, hk, hdist, hr⟩ := hok
    simp only [dTopSrcs, expandAll, List.foldl_append, dTopFs, dTopBad]
    have h1 := session_dtree hc hnf so co hco hp k budget rest q p true (sentName so p true) rfl
      (hsent.imp id (fun e => ⟨e, rfl⟩)) s f hi hat hpe hb hk
    generalize (expandTree p true k.src).foldl (clientStep so co o) s = s1 at h1
    obtain ⟨i1, ⟨f1, hat1, hpe1, hf1t⟩, hfs1, hmono1, rs1, hout1, hrs1⟩ := h1
    have hr1 : DTopOk so budget s1.st.fs q r := by
      rw [hfs1]
      exact dTopOk_congr so r (fun p' k' hm x hx =>
        dFs_other o so.subsec s.st.fs q _ k x (prefix_snoc_ne hx) (ne_prefix_snoc (hdist (p', k') hm) hx)) hr
    obtain ⟨i2, ⟨f2, hat2, hpe2, hf2t⟩, hfs2, hmono2, rs2, hout2, hrs2⟩ :=
      ih s1 f1 i1 hat1 hpe1 (by rw [hf1t]; exact hb) hr1
    refine ⟨i2, ⟨f2, hat2, hpe2, hf2t.trans hf1t⟩, by rw [hfs2, hfs1], hmono1.trans hmono2, rs2 ++ rs1, ?_, ?_⟩
    · rw [hout2, hout1, List.append_assoc]
    · have := RsI.append hrs2 hrs1
      simpa using this

/-- the sources the user names, classified against the file system of the target (`pdshmodel pcp deep`) -/
def classifyTop (so : SOpts) (fs : FS) (D : Path) : List (Str × Tree) → List (Str × DTree)
  | [] => []
  | (p, t) :: r => (p, classifyD fs D (sentName so p true) t) :: classifyTop so fs D r

theorem classifyTop_names (so : SOpts) (fs : FS) (D : Path) (srcs : List (Str × Tree)) (x : Str × DTree)
    (hx : x ∈ classifyTop so fs D srcs) : ∃ t, (sentName so x.1 true, t) ∈ namedSrcs so srcs := by
  induction srcs with
  | nil => simp [classifyTop] at hx
  | cons pt r ih =>
    obtain ⟨p, t⟩ := pt
    simp only [classifyTop, List.mem_cons] at hx
    rcases hx with rfl | hx
    · exact ⟨t, by simp [namedSrcs]⟩
    · obtain ⟨t', ht'⟩ := ih hx
      exact ⟨t', by simp only [namedSrcs]; exact List.mem_cons_of_mem _ ht'⟩

/-- **Whatever the target holds** (a file system without symbolic links in which what exists lies in directories that
exist), sources in the domain of `copy_roundtrip` are in the domain of `session_dsrcs` once classified against it -/
theorem dTopOk_classify (so : SOpts) {fs : FS} (hcl : FsClosed fs) (budget : Nat) (D : Path) (srcs : List (Str × Tree))
    (hsrc : SrcsOk so srcs) (hgood : GoodKids budget (namedSrcs so srcs)) :
    DTopOk so budget fs D (classifyTop so fs D srcs) := by
  induction srcs with
  | nil => trivial
  | cons pt r ih =>
    obtain ⟨p, t⟩ := pt
    simp only [SrcsOk] at hsrc
    simp only [namedSrcs, GoodKids] at hgood
    simp only [classifyTop, DTopOk]
    refine ⟨hsrc.1, dOk_classify hcl budget D _ t hgood.1 hsrc.2.1, ?_, ih hsrc.2.2 hgood.2.2⟩
    intro x hx
    obtain ⟨t', ht'⟩ := classifyTop_names so fs D r x hx
    exact hgood.2.1 _ ht'

theorem classifyTop_srcs (so : SOpts) (fs : FS) (D : Path) (srcs : List (Str × Tree)) :
    dTopSrcs (classifyTop so fs D srcs) = srcs := by
  induction srcs with
  | nil => rfl
  | cons pt r ih =>
    obtain ⟨p, t⟩ := pt
    simp only [classifyTop, dTopSrcs, classifyD_src, ih]

end PdshVerif.Pcp
