import PdshVerif.Pcp.Send

/-! The receiver's parser reads back what the sender prints: decimal numbers (`%ld`/`%lld` vs
`getnum`), the mode (`%04o` vs the four-octal-digit loop), whole `T`, `C`, `D`, `E` records. -/
namespace PdshVerif.Pcp
open PdshVerif.Gen

theorem digitByte_toNat {d : Nat} (h : d < 10) : (digitByte d).toNat = 48 + d := by
  simp only [digitByte, UInt8.toNat_ofNat']
  omega

theorem isDigit_digitByte {d : Nat} (h : d < 10) : isDigit (digitByte d) = true := by
  simp only [isDigit, digitByte_toNat h, Bool.and_eq_true, decide_eq_true_eq]
  omega

theorem isOct_digitByte {d : Nat} (h : d < 8) : isOct (digitByte d) = true := by
  simp only [isOct, digitByte_toNat (by omega : d < 10), Bool.and_eq_true, decide_eq_true_eq]
  omega

theorem digitByte_ne_zero {d : Nat} (h : d < 10) : digitByte d ≠ 0 := by
  intro e
  have := digitByte_toNat h
  rw [e] at this
  simp at this
  omega

theorem digitByte_ne_nl {d : Nat} (h : d < 10) : digitByte d ≠ cNl := by
  intro e
  have := digitByte_toNat h
  rw [e] at this
  simp [cNl] at this
  omega

theorem wrapI64 {x : Int} (h0 : 0 ≤ x) (h1 : x < 2 ^ 63) : wrapI 64 x = x := by
  have e1 : (2 : Int) ^ (64 - 1) = 9223372036854775808 := by decide
  have e2 : (2 : Int) ^ 64 = 18446744073709551616 := by decide
  have e3 : (2 : Int) ^ 63 = 9223372036854775808 := by decide
  simp only [wrapI, e1, e2]
  omega

theorem decAux_append (f n : Nat) (acc rest : Str) : decAux f n acc ++ rest = decAux f n (acc ++ rest) := by
  induction f generalizing n acc with
  | zero => rfl
  | succ f ih =>
    unfold decAux
    split
    · rfl
    · rw [ih]; rfl

theorem getnumAux_decAux (f n : Nat) (hf : n < f) (hn : n < 2 ^ 63) (acc : Str) :
    getnumAux 64 0 (decAux f n acc) = getnumAux 64 (n : Int) acc := by
  induction f generalizing n acc with
  | zero => omega
  | succ f ih =>
    unfold decAux
    split
    · rename_i h10
      simp only [getnumAux, isDigit_digitByte h10, ↓reduceIte, digitByte_toNat h10]
      congr 1
      rw [wrapI64 (by omega) (by omega)]
      omega
    · rename_i h10
      rw [ih (n / 10) (by omega) (by omega)]
      have hd : n % 10 < 10 := Nat.mod_lt _ (by omega)
      simp only [getnumAux, isDigit_digitByte hd, ↓reduceIte, digitByte_toNat hd]
      congr 1
      rw [wrapI64 (by omega) (by omega)]
      omega

/-- `getnum` reads back `%ld` -/
theorem getnum_dec (n : Nat) (hn : n < 2 ^ 63) (rest : Str)
    (hrest : ∀ c r, rest = c :: r → isDigit c = false) :
    getnum 64 (dec n ++ rest) = ((n : Int), rest) := by
  unfold getnum dec
  rw [decAux_append, getnumAux_decAux _ _ (by omega) hn]
  simp only [List.nil_append]
  cases rest with
  | nil => rfl
  | cons c r => simp [getnumAux, hrest c r rfl]

theorem decAux_mem (f n : Nat) (acc : Str) (P : UInt8 → Prop) (hd : ∀ d, d < 10 → P (digitByte d))
    (hacc : ∀ x ∈ acc, P x) : ∀ x ∈ decAux f n acc, P x := by
  induction f generalizing n acc with
  | zero => exact hacc
  | succ f ih =>
    unfold decAux
    split
    · rename_i h10
      intro x hx
      simp only [List.mem_cons] at hx
      rcases hx with rfl | hx
      · exact hd _ h10
      · exact hacc x hx
    · apply ih
      intro x hx
      simp only [List.mem_cons] at hx
      rcases hx with rfl | hx
      · exact hd _ (Nat.mod_lt _ (by omega))
      · exact hacc x hx

theorem dec_mem (n : Nat) (P : UInt8 → Prop) (hd : ∀ d, d < 10 → P (digitByte d)) : ∀ x ∈ dec n, P x :=
  decAux_mem _ _ _ P hd (by simp)

theorem decAux_length (f n : Nat) (acc : Str) : (decAux f n acc).length ≤ acc.length + f := by
  induction f generalizing n acc with
  | zero => simp [decAux]
  | succ f ih =>
    unfold decAux
    split
    · simp only [List.length_cons]; omega
    · have := ih (n / 10) (digitByte (n % 10) :: acc)
      simp at this
      omega

/-- `parseMode` reads back `%04o` -/
theorem parseMode_oct4 (m : Nat) (hm : m < 4096) (rest : Str) :
    parseMode 4 0 (oct4 m ++ rest) = some (m, rest) := by
  have h1 : m / 512 % 8 < 8 := Nat.mod_lt _ (by omega)
  have h2 : m / 64 % 8 < 8 := Nat.mod_lt _ (by omega)
  have h3 : m / 8 % 8 < 8 := Nat.mod_lt _ (by omega)
  have h4 : m % 8 < 8 := Nat.mod_lt _ (by omega)
  simp only [oct4, List.cons_append, List.nil_append, parseMode, isOct_digitByte h1, isOct_digitByte h2,
    isOct_digitByte h3, isOct_digitByte h4, ↓reduceIte, digitByte_toNat (by omega : m / 512 % 8 < 10),
    digitByte_toNat (by omega : m / 64 % 8 < 10), digitByte_toNat (by omega : m / 8 % 8 < 10),
    digitByte_toNat (by omega : m % 8 < 10)]
  congr 2
  omega

theorem oct4_mem (m : Nat) (P : UInt8 → Prop) (hd : ∀ d, d < 10 → P (digitByte d)) : ∀ x ∈ oct4 m, P x := by
  intro x hx
  simp only [oct4, List.mem_cons, List.not_mem_nil, or_false] at hx
  rcases hx with rfl | rfl | rfl | rfl <;> apply hd <;> omega

end PdshVerif.Pcp

namespace PdshVerif.Pcp
open PdshVerif.Gen

/-- names that can travel in a record: no NUL (C string) and no newline (record terminator) -/
structure WireName (n : Str) : Prop where
  nonul : (0 : UInt8) ∉ n
  nonl : cNl ∉ n

theorem takeWhile_all {l : Str} (h : ∀ x ∈ l, x ≠ 0) : l.takeWhile (· ≠ 0) = l := by
  induction l with
  | nil => rfl
  | cons a as ih =>
    have ha : a ≠ 0 := h a List.mem_cons_self
    simp only [List.takeWhile_cons, ne_eq, ha, not_false_eq_true, decide_true, ↓reduceIte]
    rw [ih (fun x hx => h x (List.mem_cons_of_mem _ hx))]

/-- a complete line without NUL bytes is parsed as the C string it is -/
theorem classify_line (c : UInt8) (body : Str) (h1 : c ≠ 1) (h2 : c ≠ 2) (hE : c ≠ cE)
    (hz : ∀ x ∈ c :: body, x ≠ 0) :
    classify (c :: body ++ [cNl]) cNl =
      if c = cT then classifyT body
      else if c = cC || c = cD then classifyCtl c body
      else .bad .expected := by
  unfold classify
  simp only [List.cons_append, List.headD_cons, h1, h2, hE, ↓reduceIte]
  have hd : (c :: (body ++ [cNl])).dropLast = c :: body := by
    rw [← List.cons_append, List.dropLast_concat]
  simp only [hd, takeWhile_all hz]

theorem parseCtl_print (m size : Nat) (n : Str) (hm : m < 4096) (hs : size < 2 ^ 63) :
    parseCtl (oct4 m ++ cSp :: (dec size ++ cSp :: n)) = .ok (m, (size : Int), n) := by
  unfold parseCtl
  rw [parseMode_oct4 m hm]
  simp only [expect, ↓reduceIte]
  have hg : getnum PCP_OFF_T_BITS (dec size ++ cSp :: n) = ((size : Int), cSp :: n) :=
    getnum_dec size hs _ (by intro c r e; cases e; decide)
  simp only [hg, ↓reduceIte]

theorem dec_zero : dec 0 = [48] := by decide

theorem parseTimes_print (mt mu atm au : Nat) (h1 : mt < 2 ^ 63) (h2 : mu < 2 ^ 63) (h3 : atm < 2 ^ 63)
    (h4 : au < 2 ^ 63) :
    parseTimes (dec mt ++ cSp :: (dec mu ++ cSp :: (dec atm ++ cSp :: (dec au ++ [])))) =
      .ok (⟨mt, mu⟩, ⟨atm, au⟩) := by
  have hsp : ∀ r : Str, ∀ c r', cSp :: r = c :: r' → isDigit c = false := by
    intro r c r' e; cases e; decide
  have g1 : getnum PCP_LONG_BITS (dec mt ++ cSp :: (dec mu ++ cSp :: (dec atm ++ cSp :: (dec au ++ [])))) = _ :=
    getnum_dec mt h1 (cSp :: (dec mu ++ cSp :: (dec atm ++ cSp :: (dec au ++ [])))) (hsp _)
  have g2 : getnum PCP_LONG_BITS (dec mu ++ cSp :: (dec atm ++ cSp :: (dec au ++ []))) = _ :=
    getnum_dec mu h2 (cSp :: (dec atm ++ cSp :: (dec au ++ []))) (hsp _)
  have g3 : getnum PCP_LONG_BITS (dec atm ++ cSp :: (dec au ++ [])) = _ :=
    getnum_dec atm h3 (cSp :: (dec au ++ [])) (hsp _)
  have g4 : getnum PCP_LONG_BITS (dec au ++ []) = _ := getnum_dec au h4 [] (by intro c r e; cases e)
  simp only [parseTimes, g1, g2, g3, g4, expect, ↓reduceIte]

end PdshVerif.Pcp
