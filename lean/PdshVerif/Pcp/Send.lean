import PdshVerif.Pcp.Sink

/-! # Model of the pcp sender: src/pdsh/pcp_client.c and the PCP branches of dsh.c  (property C11)

`pcp_expand_dirs` flattens the sources into one list shared by all worker threads: every source
the user named, followed -- for a directory -- by the pre-order walk of its entries in `readdir`
order and a *leave-directory sentinel* (`EXIT_SUBDIR_FILENAME`).  `pcp_client` then sends one entry
after the other with `pcp_sendfile`: optional `T` record (-p), `D`/`C` record carrying
`st_mode & RCP_MODEMASK`, the size and the **base name**, the file's bytes and a NUL; the sentinel
is sent as `E\n`.  In a reverse copy (`rpdcp`, the remote side runs `pdcp -Z files host`) entries
the user named get `.host` appended before the base name is taken.

The sender waits for a one-byte reply after every record; `send` is the byte stream it produces
when every reply is an acknowledgement (an error reply makes it skip the rest of that entry).
Mirrored oddity (code as found): an entry whose *path* equals the sentinel string is sent as `E\n`.
Not modelled: `snprintf` truncation of paths at MAXPATHNAMELEN and of records at BUFSIZ (the
domain of C11 has short names), source files changing while they are read.
-/
namespace PdshVerif.Pcp
open PdshVerif.Gen

/-- a source tree: permission bits, modification and access time in MICROSECONDS since the epoch
(`st_mtim`/`st_atim` at the resolution of the `T` record), contents; children in `readdir` order -/
inductive Tree where
  | file (mode mtime atime : Nat) (data : Str)
  | dir (mode mtime atime : Nat) (kids : List (Str × Tree))

/-- one `struct pcp_filename` of the flattened list together with what `stat`/`read` will find -/
inductive Entry where
  | ent (path : Str) (user : Bool) (isDir : Bool) (mode mtime atime : Nat) (data : Str)
  | exitSubdir

def sentinelName : Str := EXIT_SUBDIR_FILENAME_BYTES.map UInt8.ofNat
def exitFlag : Str := [UInt8.ofNat EXIT_SUBDIR_FLAG_0, UInt8.ofNat EXIT_SUBDIR_FLAG_1]

mutual
/-- `pcp_expand_dirs` / `_rexpand_dir` for one source -/
def expandTree (path : Str) (user : Bool) : Tree → List Entry
  | .file m t a d => [.ent path user false m t a d]
  | .dir m t a kids => .ent path user true m t a [] :: (expandKids path kids ++ [.exitSubdir])
/-- the `readdir` loop: `snprintf(file, .., "%s/%s", name, dp->d_name)` -/
def expandKids (path : Str) : List (Str × Tree) → List Entry
  | [] => []
  | (n, k) :: r => expandTree (path ++ cSlash :: n) false k ++ expandKids path r
end

/-- `xbasename`: what follows the last `/` -/
def xbasename (s : Str) : Str := (splitSlash s).getLastD []

def digitByte (d : Nat) : UInt8 := UInt8.ofNat (48 + d)

def decAux : Nat → Nat → Str → Str
  | 0, _, acc => acc
  | f + 1, n, acc =>
    if n < 10 then digitByte n :: acc else decAux f (n / 10) (digitByte (n % 10) :: acc)

/-- `%ld` / `%lld` of a non-negative number -/
def dec (n : Nat) : Str := decAux (n + 1) n []

/-- `%04o` of a value below 0o10000 -/
def oct4 (m : Nat) : Str :=
  [digitByte (m / 512 % 8), digitByte (m / 64 % 8), digitByte (m / 8 % 8), digitByte (m % 8)]

/-- `"T%ld %ld %ld %ld\n"`: seconds and microseconds of the modification and the access time -/
def tRecord (mt mu at' au : Nat) : Str :=
  cT :: dec mt ++ cSp :: dec mu ++ cSp :: dec at' ++ cSp :: dec au ++ [cNl]

/-- one second in the unit of `Tree` times -/
def USEC : Nat := 1000000

/-- `"D%04o %d %s\n", st_mode & RCP_MODEMASK, 0, xbasename(output_file)` -/
def dRecord (mode : Nat) (name : Str) : Str :=
  cD :: oct4 (mode &&& RCP_MODEMASK) ++ cSp :: 48 :: cSp :: name ++ [cNl]

/-- `"C%04o %lld %s\n", st_mode & RCP_MODEMASK, st_size, xbasename(output_file)` -/
def cRecord (mode size : Nat) (name : Str) : Str :=
  cC :: oct4 (mode &&& RCP_MODEMASK) ++ cSp :: dec size ++ cSp :: name ++ [cNl]

structure SOpts where
  preserve : Bool      -- -p
  reverse : Bool       -- `pcp->pcp_client`: remote side of rpdcp (`pdcp -Z`)
  host : Str           -- `pcp->host`
  subsec : Bool        -- model variant: the microsecond fields of `T` are sent (repair of F11-MTIME-SUBSEC);
                       -- the code as found sends `0L`
  sentinelFix : Bool   -- model variant: only entries the user did NOT name can be the sentinel
                       -- (repair of F11-SENTINEL-NAME)

/-- `_pcp_sendfile` + `pcp_sendfile` for one list entry, all replies positive -/
def sendEntry (so : SOpts) : Entry → Str
  | .exitSubdir => exitFlag
  | .ent path user isDir m t a d =>
    if path = sentinelName && !(so.sentinelFix && user) then exitFlag
    else
      let outf := if so.reverse && user then path ++ cDot :: so.host else path
      let name := xbasename outf
      (if so.preserve then
          tRecord (t / USEC) (if so.subsec then t % USEC else 0) (a / USEC) (if so.subsec then a % USEC else 0)
        else []) ++
        (if isDir then dRecord m name else cRecord m d.length name ++ d ++ [0])

/-- the flattened list for all sources -/
def expandAll : List (Str × Tree) → List Entry
  | [] => []
  | (path, t) :: r => expandTree path true t ++ expandAll r

/-- the complete byte stream of `pcp_client` -/
def send (so : SOpts) (srcs : List (Str × Tree)) : Str :=
  (expandAll srcs).flatMap (sendEntry so)

/-! ## command lines built by `dsh()` -/

def strBytes (s : String) : Str := s.toUTF8.toList

/-- forward copy: `<remote pdcp> [-r] [-p] [-y] -z DEST`; `-y` iff the flattened list has more than
one element -/
def pdcpCmd (prog : Str) (r p : Bool) (nentries : Nat) (dest : Str) : Str :=
  prog ++ (if r then strBytes " -r" else []) ++ (if p then strBytes " -p" else []) ++
    (if 1 < nentries then strBytes " -y" else []) ++ strBytes " -z " ++ dest

/-- reverse copy: `<remote pdcp> [-r] [-p] -Z  file...` and `_rcp_thread` appends ` host` -/
def rpdcpCmd (prog : Str) (r p : Bool) (files : List Str) (host : Str) : Str :=
  prog ++ (if r then strBytes " -r" else []) ++ (if p then strBytes " -p" else []) ++
    strBytes " -Z " ++ files.flatMap (fun f => cSp :: f) ++ cSp :: host

end PdshVerif.Pcp
