import PdshVerif.Pcp.Received

/-! Installing sibling trees under different names commutes (C11, reverse copy): what `recvTree`
does below its own name depends on the file system only below that name and on the parent's mode;
outside it only refreshes the parent's modification time.  Hence `recvKids` is invariant under
permutation of a list with pairwise distinct names. -/
namespace PdshVerif.Pcp
open PdshVerif.Gen

/-- a directory node with the clock's modification time -/
def bumpNode : Option Node → Option Node
  | some (.dir m _) => some (.dir m none)
  | x => x

theorem bumpDir_self (fs : FS) (p : Path) : fs.bumpDir p p = bumpNode (fs p) := by
  unfold FS.bumpDir
  simp only [↓reduceIte]
  cases fs p with
  | none => rfl
  | some nd => cases nd <;> rfl

theorem bumpDir_congr {fs1 fs2 : FS} {p : Path} (h : fs1 p = fs2 p) : fs1.bumpDir p p = fs2.bumpDir p p := by
  rw [bumpDir_self, bumpDir_self, h]

theorem bumpNode_idem (a : Option Node) : bumpNode (bumpNode a) = bumpNode a := by
  cases a with
  | none => rfl
  | some nd => cases nd <;> rfl

theorem parentMode_congr {fs1 fs2 : FS} {q : Path} {n : Str} (h : fs1 q = fs2 q) :
    parentMode fs1 (q ++ [n]) = parentMode fs2 (q ++ [n]) := by
  unfold parentMode
  rw [List.dropLast_concat, h]

theorem snoc_ne_self {q : Path} {n : Str} : q ≠ q ++ [n] := by
  intro e; have := congrArg List.length e; simp at this

mutual
/-- at the parent directory itself `recvTree` only refreshes the modification time -/
theorem recvTree_at_parent (o : Opts) (ss : Bool) (fs : FS) (q : Path) (n : Str) (t : Tree) :
    recvTree o ss fs q n t q = fs.bumpDir q q := by
  cases t with
  | file m t a d =>
    simp only [recvTree]
    rw [set_other _ _ _ _ snoc_ne_self]
  | dir m t a kids =>
    have hk : recvKids o ss ((fs.bumpDir q).set (q ++ [n]) (recvDirNode o fs q n m)) (q ++ [n]) kids q =
        fs.bumpDir q q := by
      rw [recvKids_other o ss _ (q ++ [n]) kids q snoc_ne_self (fun n' _ _ hp => by
        have := hp.length_le; simp at this; omega)]
      rw [set_other _ _ _ _ snoc_ne_self]
    simp only [recvTree]
    generalize recvKids o ss ((fs.bumpDir q).set (q ++ [n]) (recvDirNode o fs q n m)) (q ++ [n]) kids = g at hk ⊢
    split
    · unfold setMtimeAt
      cases hg : g (q ++ [n]) with
      | none => exact hk
      | some nd => simp only []; rw [set_other _ _ _ _ snoc_ne_self, hk]
    · exact hk
end

mutual
/-- **locality**: below its own name `recvTree` depends only on what is below that name and on the
parent's node -/
theorem recvTree_local (o : Opts) (ss : Bool) (fs1 fs2 : FS) (q : Path) (n : Str) (t : Tree)
    (hq : parentMode fs1 (q ++ [n]) = parentMode fs2 (q ++ [n]))
    (hb : ∀ x, (q ++ [n]) <+: x → fs1 x = fs2 x) (x : Path) (hx : (q ++ [n]) <+: x) :
    recvTree o ss fs1 q n t x = recvTree o ss fs2 q n t x := by
  have hxq : x ≠ q := prefix_snoc_ne hx
  cases t with
  | file m t a d =>
    simp only [recvTree]
    by_cases e : x = q ++ [n]
    · subst e; simp [FS.set]
    · rw [set_other _ _ _ _ e, set_other _ _ _ _ e, bumpDir_other _ _ _ hxq, bumpDir_other _ _ _ hxq]
      exact hb x hx
  | dir m t a kids =>
    have hnode : recvDirNode o fs1 q n m = recvDirNode o fs2 q n m := by
      unfold recvDirNode recvDirMode
      rw [hq]
    have hag : ∀ y, (q ++ [n]) <+: y →
        ((fs1.bumpDir q).set (q ++ [n]) (recvDirNode o fs1 q n m)) y =
        ((fs2.bumpDir q).set (q ++ [n]) (recvDirNode o fs2 q n m)) y := by
      intro y hy
      by_cases e : y = q ++ [n]
      · subst e; simp [FS.set, hnode]
      · rw [set_other _ _ _ _ e, set_other _ _ _ _ e, bumpDir_other _ _ _ (prefix_snoc_ne hy),
          bumpDir_other _ _ _ (prefix_snoc_ne hy)]
        exact hb y hy
    have hk := recvKids_agree o ss _ _ (q ++ [n]) kids hag
    simp only [recvTree]
    split
    · unfold setMtimeAt
      rw [hk (q ++ [n]) (List.prefix_refl _)]
      cases hg : recvKids o ss ((fs2.bumpDir q).set (q ++ [n]) (recvDirNode o fs2 q n m)) (q ++ [n]) kids (q ++ [n]) with
      | none => exact hk x hx
      | some nd =>
        simp only []
        by_cases e : x = q ++ [n]
        · subst e; simp [FS.set]
        · rw [set_other _ _ _ _ e, set_other _ _ _ _ e]; exact hk x hx
    · exact hk x hx
/-- two file systems that agree at and below `q` still do after the same sibling list is installed -/
theorem recvKids_agree (o : Opts) (ss : Bool) (fs1 fs2 : FS) (q : Path) (kids : List (Str × Tree))
    (h : ∀ x, q <+: x → fs1 x = fs2 x) (x : Path) (hx : q <+: x) :
    recvKids o ss fs1 q kids x = recvKids o ss fs2 q kids x := by
  cases kids with
  | nil => exact h x hx
  | cons nk r =>
    obtain ⟨n, k⟩ := nk
    simp only [recvKids]
    apply recvKids_agree o ss _ _ q r _ x hx
    intro y hy
    by_cases e : y = q
    · subst e
      rw [recvTree_at_parent, recvTree_at_parent]
      exact bumpDir_congr (h y (List.prefix_refl _))
    · by_cases hp : (q ++ [n]) <+: y
      · exact recvTree_local o ss fs1 fs2 q n k (parentMode_congr (h q (List.prefix_refl _)))
          (fun z hz => h z ((List.prefix_append _ _).trans hz)) y hp
      · rw [recvTree_other o ss fs1 q n k y e hp, recvTree_other o ss fs2 q n k y e hp]
        exact h y hy
end

theorem parentMode_recvTree (o : Opts) (ss : Bool) (fs : FS) (q : Path) (b a : Str) (tb : Tree) :
    parentMode (recvTree o ss fs q b tb) (q ++ [a]) = parentMode fs (q ++ [a]) := by
  unfold parentMode
  rw [List.dropLast_concat, recvTree_at_parent, bumpDir_self]
  cases fs q with
  | none => rfl
  | some nd => cases nd <;> rfl

/-- **two sibling trees under different names commute** -/
theorem recvTree_comm (o : Opts) (ss : Bool) (fs : FS) (q : Path) (a b : Str) (ta tb : Tree) (hab : a ≠ b) :
    recvTree o ss (recvTree o ss fs q a ta) q b tb = recvTree o ss (recvTree o ss fs q b tb) q a ta := by
  funext x
  by_cases e : x = q
  · subst e
    rw [recvTree_at_parent, recvTree_at_parent, bumpDir_self, bumpDir_self, recvTree_at_parent,
      recvTree_at_parent]
  · by_cases ha : (q ++ [a]) <+: x
    · have hnb : ¬ (q ++ [b]) <+: x := ne_prefix_snoc' hab ha
      rw [recvTree_other o ss _ q b tb x e hnb]
      symm
      apply recvTree_local o ss _ _ q a ta _ _ x ha
      · exact parentMode_recvTree o ss fs q b a tb
      · intro z hz
        exact recvTree_other o ss fs q b tb z (prefix_snoc_ne hz) (ne_prefix_snoc' hab hz)
    · by_cases hb : (q ++ [b]) <+: x
      · rw [recvTree_other o ss _ q a ta x e ha]
        apply recvTree_local o ss _ _ q b tb _ _ x hb
        · exact parentMode_recvTree o ss fs q a b ta
        · intro z hz
          exact recvTree_other o ss fs q a ta z (prefix_snoc_ne hz) (ne_prefix_snoc' (Ne.symm hab) hz)
      · rw [recvTree_other o ss _ q b tb x e hb, recvTree_other o ss fs q a ta x e ha,
          recvTree_other o ss _ q a ta x e ha, recvTree_other o ss fs q b tb x e hb]

end PdshVerif.Pcp

namespace PdshVerif.Pcp
open PdshVerif.Gen

/-! ## permutations of a sibling list -/

theorem recvKids_append (o : Opts) (ss : Bool) (fs : FS) (q : Path) (a b : List (Str × Tree)) :
    recvKids o ss fs q (a ++ b) = recvKids o ss (recvKids o ss fs q a) q b := by
  induction a generalizing fs with
  | nil => rfl
  | cons x r ih =>
    obtain ⟨n, k⟩ := x
    simp only [List.cons_append, recvKids]
    exact ih _

/-- **`recvKids` does not depend on the order** of a list with pairwise distinct names -/
theorem recvKids_perm (o : Opts) (ss : Bool) (q : Path) {l1 l2 : List (Str × Tree)} (hp : l1.Perm l2)
    (hd : l1.Pairwise (fun a b => a.1 ≠ b.1)) (fs : FS) : recvKids o ss fs q l1 = recvKids o ss fs q l2 := by
  induction hp generalizing fs with
  | nil => rfl
  | cons x _ ih =>
    obtain ⟨n, k⟩ := x
    simp only [recvKids]
    exact ih (List.pairwise_cons.1 hd).2 _
  | swap x y l =>
    obtain ⟨n, k⟩ := x
    obtain ⟨n', k'⟩ := y
    simp only [recvKids]
    have hne : n' ≠ n := (List.pairwise_cons.1 hd).1 (n, k) List.mem_cons_self
    rw [recvTree_comm o ss fs q n' n k' k hne]
  | trans h1 _ ih1 ih2 =>
    rw [ih1 hd fs]
    exact ih2 ((h1.pairwise_iff (fun h => Ne.symm h)).1 hd) fs

theorem goodKids_iff (budget : Nat) (l : List (Str × Tree)) :
    GoodKids budget l ↔ (∀ x ∈ l, GoodTree budget x.1 x.2) ∧ l.Pairwise (fun a b => a.1 ≠ b.1) := by
  induction l with
  | nil => simp [GoodKids]
  | cons x r ih =>
    obtain ⟨n, k⟩ := x
    simp only [GoodKids, ih, List.mem_cons, forall_eq_or_imp, List.pairwise_cons]
    constructor
    · rintro ⟨h1, h2, h3, h4⟩
      exact ⟨⟨h1, h3⟩, fun b hb => Ne.symm (h2 b hb), h4⟩
    · rintro ⟨⟨h1, h3⟩, h2, h4⟩
      exact ⟨h1, fun b hb => Ne.symm (h2 b hb), h3, h4⟩

theorem goodKids_perm {budget : Nat} {l1 l2 : List (Str × Tree)} (hp : l1.Perm l2) (h : GoodKids budget l1) :
    GoodKids budget l2 := by
  rw [goodKids_iff] at h ⊢
  exact ⟨fun x hx => h.1 x (hp.mem_iff.2 hx), (hp.pairwise_iff (fun h => Ne.symm h)).1 h.2⟩

theorem goodKids_append {budget : Nat} {a b : List (Str × Tree)} (h : GoodKids budget (a ++ b)) :
    GoodKids budget a ∧ GoodKids budget b ∧ ∀ x ∈ a, ∀ y ∈ b, y.1 ≠ x.1 := by
  rw [goodKids_iff] at h
  rw [goodKids_iff, goodKids_iff]
  obtain ⟨h1, h2⟩ := h
  rw [List.pairwise_append] at h2
  exact ⟨⟨fun x hx => h1 x (List.mem_append_left _ hx), h2.1⟩,
    ⟨fun x hx => h1 x (List.mem_append_right _ hx), h2.2.1⟩,
    fun x hx y hy => Ne.symm (h2.2.2 x hx y hy)⟩

end PdshVerif.Pcp

namespace PdshVerif.Pcp
open PdshVerif.Gen

/-! ## several targets of a reverse copy -/

/-- one target of a reverse copy: the options of the client running there (`pdcp -Z files host`:
`reverse = true`, its own host name) and its own source trees -/
structure Target where
  so : SOpts
  srcs : List (Str × Tree)

def Target.stream (t : Target) : Str := send t.so t.srcs
def Target.named (t : Target) : List (Str × Tree) := namedSrcs t.so t.srcs
def allNamed (ts : List Target) : List (Str × Tree) := ts.flatMap Target.named

/-- the local side of `rpdcp`: one receiver per target, all into the same directory.  The model
processes the streams one after the other (the real code runs one `_pcp_server` per thread; the
kernel serialises the operations on each path and the names `SRC.host` of different targets are
distinct, so the threads work on disjoint sub-trees of the destination). -/
def runMany (o : Opts) (fs : FS) (streams : List Str) : FS :=
  streams.foldl (fun fs s => (sink o fs s).1) fs

theorem allNamed_cons (t : Target) (r : List Target) : allNamed (t :: r) = t.named ++ allNamed r := by
  simp [allNamed]

end PdshVerif.Pcp
