import PdshVerif.Pcp.Send

/-! # The interactive sender: `pcp_client` / `_pcp_sendfile` / `pcp_sendfile` talking to the receiver

`Send.lean` gives the byte stream of the sender when every reply is positive.  Here the sender is
modelled WITH its reaction to replies, as a joint run with the receiver automaton: the client sends
one record, the receiver consumes exactly those bytes (`step`), the client reads ONE reply byte
(`pcp_response`: 0 = go on; `\01…` = fatal for this entry; nothing = the peer is gone) and decides.

Mirrored from pcp_client.c:
* `pcp_client`: the greeting reply first; then every element of the pre-flattened list in order;
* `pcp_sendfile`: [`T` record, reply] `D`/`C` record, reply, [data + NUL, reply]; any failed reply
  abandons THIS entry (`goto fail`) -- the following list elements are sent regardless, which for a
  refused directory means its entries and its leave-directory record (finding F11-DIRFAIL-SCATTER);
* the sentinel is sent as `E\n`; a failed reply to it ends the client (`errx`);
* `skipRefused` (model variant, probed): the repaired client skips the list elements of a directory
  the target refused, up to and including its sentinel.
Replies are read in order from the receiver's reply stream (`consumed` counts them): a record that
draws two replies desynchronises client and receiver exactly as in the real code.
-/
namespace PdshVerif.Pcp
open PdshVerif.Gen

structure Sess where
  st : St              -- the receiver
  sent : Str           -- everything the client has sent
  consumed : Nat       -- replies the client has read
  failed : Bool        -- some reply read was not a positive acknowledgement
  skip : Nat           -- repaired client: nesting depth inside a refused directory
  dead : Bool          -- the client has exited (`errx`)

/-- the client writes `bytes`; the receiver consumes them -/
def Sess.feed (o : Opts) (s : Sess) (bytes : Str) : Sess :=
  { s with st := bytes.foldl (step o) s.st, sent := s.sent ++ bytes }

/-- `pcp_response`: the next unread reply; `true` = positive -/
def Sess.read (s : Sess) : Bool × Sess :=
  match s.st.out.reverse[s.consumed]? with
  | some .ack => (true, { s with consumed := s.consumed + 1 })
  | some (.err _) => (false, { s with consumed := s.consumed + 1, failed := true })
  | none => (false, { s with failed := true })

/-- one step of `pcp_sendfile`: unless an earlier step has failed (`goto fail`), send `bs` and read a reply -/
def sendStage (o : Opts) (r : Bool × Sess) (bs : Str) : Bool × Sess :=
  if r.1 then (r.2.feed o bs).read else r

/-- `pcp_sendfile` for one list element that is not the sentinel; returns whether it succeeded -/
def sendfileOne (so : SOpts) (o : Opts) (s : Sess) (path : Str) (user isDir : Bool) (m t a : Nat) (d : Str) :
    Bool × Sess :=
  let outf := if so.reverse && user then path ++ cDot :: so.host else path
  let name := xbasename outf
  let r1 : Bool × Sess :=
    if so.preserve then
      sendStage o (true, s) (tRecord (t / USEC) (if so.subsec then t % USEC else 0) (a / USEC)
        (if so.subsec then a % USEC else 0))
    else (true, s)
  if isDir then sendStage o r1 (dRecord m name)
  else sendStage o (sendStage o r1 (cRecord m d.length name)) (d ++ [0])

structure COpts where
  skipRefused : Bool     -- model variant: the repaired client (repair of F11-DIRFAIL-SCATTER)

/-- one element of the list in `pcp_client`'s loop -/
def clientStep (so : SOpts) (co : COpts) (o : Opts) (s : Sess) : Entry → Sess
  | .exitSubdir =>
    if s.dead then s
    else if 0 < s.skip then { s with skip := s.skip - 1 }
    else
      let r := (s.feed o exitFlag).read
      if r.1 then r.2 else { r.2 with dead := true }
  | .ent path user isDir m t a d =>
    if s.dead then s
    else if 0 < s.skip then (if isDir then { s with skip := s.skip + 1 } else s)
    else if path = sentinelName && !(so.sentinelFix && user) then
      let r := (s.feed o exitFlag).read
      if r.1 then r.2 else { r.2 with dead := true }
    else
      let r := sendfileOne so o s path user isDir m t a d
      if !r.1 && isDir && co.skipRefused then { r.2 with skip := 1 } else r.2

/-- `pcp_client` against `pcp_server` started on `fs`: greeting, then the list -/
def session (so : SOpts) (co : COpts) (o : Opts) (fs : FS) (entries : List Entry) : Sess :=
  let s0 : Sess := { st := enter o (St.init fs) o.dest, sent := [], consumed := 0, failed := false, skip := 0,
                     dead := false }
  let g := s0.read
  if !g.1 then g.2 else entries.foldl (clientStep so co o) g.2

/-- the receiver after the client has closed the connection -/
def sessionEnd (so : SOpts) (co : COpts) (o : Opts) (fs : FS) (srcs : List (Str × Tree)) : St :=
  finish o (session so co o fs (expandAll srcs)).st

end PdshVerif.Pcp
