/-
  Switchable variant of the loader model for the proposed repair of F17-TIE (findings/C17.patch):

    _cmp_f          equal priority and equal name: order by type
                    (two registered modules never share type AND name, so the order becomes strict)
    _mod_register   an existing module of the same type and name is replaced also when the new one has
                    the SAME priority and a lexicographically smaller file name
                    (the survivor of a group of duplicates no longer depends on who came first)

  Everything else is shared with Mod/Load.lean.  The theorems of Props/C17.lean are about the code
  as it is (Mod/Load.lean); this file only provides the executable variant the correspondence
  check switches to when it finds the repaired behaviour.
-/
import PdshVerif.Mod.Load

namespace PdshVerif.Mod.Tie
open PdshVerif.Mod

/-- repaired _cmp_f: priority (higher first), then name, then type -/
def cmpF (x y : Mod) : Int :=
  if x.prio ≠ y.prio then y.prio - x.prio
  else if strcmp x.name y.name ≠ 0 then strcmp x.name y.name
  else strcmp x.type y.type

/-- the new module replaces the registered one -/
def beats : Beats := fun prio fname prev =>
  decide (prio > prev.prio) || (decide (prio = prev.prio) && decide (strcmp fname prev.file < 0))

/-- repaired _mod_register: `registerG` with the new rule -/
def register : Nat → List Mod → Str → Desc → List Mod × Bool := registerG beats

def loadFiles : Nat → Nat → Nat → List File → LoadSt := loadFilesG beats

def loadDir : Env → Dir → Result := loadDirG beats cmpF

def loadAll (e : Env) : Result := loadDir e (chooseDir e)

/-- with the personality tested first (the code since 59829e8 plus findings/C17.patch) -/
def loadAllPF (e : Env) : Result := loadAll (persFirstEnv e)

end PdshVerif.Mod.Tie
