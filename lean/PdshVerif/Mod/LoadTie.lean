/-
  Switchable variant of the loader model for the proposed repair of F17-TIE (findings/C17.patch):

    _cmp_f          equal priority and equal name: order by type
                    (two registered modules never share type AND name, so the order becomes strict)
    _mod_register   an existing module of the same type and name is replaced also when the new one has
                    the SAME priority and a lexicographically smaller file name
                    (the survivor of a group of duplicates no longer depends on who came first)

  Everything else is shared with Mod/Load.lean.  The theorems of Props/C17.lean are about the code
  as it is (Mod/Load.lean); this file only provides the executable variant the correspondence
  check switches to when it finds the repaired behaviour.
-/
import PdshVerif.Mod.Load

namespace PdshVerif.Mod.Tie
open PdshVerif.Mod

/-- repaired _cmp_f: priority (higher first), then name, then type -/
def cmpF (x y : Mod) : Int :=
  if x.prio ≠ y.prio then y.prio - x.prio
  else if strcmp x.name y.name ≠ 0 then strcmp x.name y.name
  else strcmp x.type y.type

/-- the new module replaces the registered one -/
def beats (prio : Int) (fname : Str) (prev : Mod) : Bool :=
  decide (prio > prev.prio) || (decide (prio = prev.prio) && decide (strcmp fname prev.file < 0))

/-- repaired _mod_register (personality handling as in Mod/Load.lean's `register`) -/
def register (pers : Nat) (mods : List Mod) (fname : Str) (d : Desc) : List Mod × Bool :=
  if mods.any (·.file == fname) then (mods, false)
  else
    match d.type, d.name with
    | some t, some n =>
      match mods.find? (sameKey t n) with
      | some prev =>
        if beats d.prio fname prev then
          let mods' := mods.filter (!sameKey t n ·)
          if d.pers &&& pers = 0 then (mods', false)
          else (⟨fname, t, n, d.prio, d, false⟩ :: mods', true)
        else (mods, false)
      | none =>
        if d.pers &&& pers = 0 then (mods, false)
        else (⟨fname, t, n, d.prio, d, false⟩ :: mods, true)
    | _, _ => (mods, false)

def loadObj (pers : Nat) (s : LoadSt) (fname : Str) (obj : Obj) : LoadSt :=
  match obj with
  | .mod d =>
    let r := register pers s.mods fname d
    ⟨r.1, s.opened ++ [fname], if r.2 then s.count + 1 else s.count⟩
  | _ => ⟨s.mods, s.opened ++ [fname], s.count⟩

def loadFile (uid owner pers : Nat) (s : LoadSt) (f : File) : LoadSt :=
  match f.st with
  | none => s
  | some st => if fileOk uid owner st then loadObj pers s f.fname f.obj else s

def loadFiles (uid owner pers : Nat) (files : List File) : LoadSt :=
  files.foldl (loadFile uid owner pers) ⟨[], [], 0⟩

def loadDir (e : Env) (d : Dir) : Result :=
  let base := baseOpts e.pers
  match e.owner with
  | none => ⟨true, [], [], base, [], []⟩
  | some owner =>
    if !pathOk e.uid owner d.path then ⟨true, [], [], base, [], []⟩
    else
      let ls := loadFiles e.uid owner e.pers d.files
      if ls.count = 0 then ⟨true, [], [], base, ls.opened, []⟩
      else
        let r := initPhase e.pers e.misc (listSort cmpF ls.mods)
        ⟨false, r.1, r.2.calls, r.2.opts, ls.opened, r.2.regs⟩

def loadAll (e : Env) : Result := loadDir e (chooseDir e)

end PdshVerif.Mod.Tie
