/-
  From the invariants to statements about the whole run `loadDirG`: which modules are listed
  (as a function of the SET of files), independence of the enumeration order.  Generic in the
  replacement rule `beats` and the comparison function `cmp`; instantiated for the code as it is
  (`beatsPrio`, `cmpF`) here and for the proposed repair of F17-TIE in Mod/TieLemmas.lean.
-/
import PdshVerif.Mod.RegLemmas
import PdshVerif.Mod.SortLemmas

namespace PdshVerif.Mod

theorem nodup_of_nodup_map {α β : Type} (f : α → β) {l : List α} (h : (l.map f).Nodup) : l.Nodup := by
  induction l with
  | nil => simp
  | cons a r ih =>
    simp only [List.map_cons, List.nodup_cons, List.mem_map, not_exists, not_and] at h
    simp only [List.nodup_cons]
    exact ⟨fun ha => h.1 a ha rfl, ih h.2⟩

theorem nodup_map_of_inj_on {α β : Type} (f : α → β) {l : List α} (hn : l.Nodup)
    (hinj : ∀ a ∈ l, ∀ b ∈ l, f a = f b → a = b) : (l.map f).Nodup := by
  induction l with
  | nil => simp
  | cons a r ih =>
    simp only [List.nodup_cons] at hn
    simp only [List.map_cons, List.nodup_cons, List.mem_map, not_exists, not_and]
    refine ⟨?_, ih hn.2 (fun x hx y hy => hinj x (by simp [hx]) y (by simp [hy]))⟩
    intro x hx hfx
    have := hinj x (by simp [hx]) a (by simp) hfx
    subst this
    exact hn.1 hx

/-- the hypotheses under which the outcome is a function of the set of files, for a replacement
    rule and a comparison function -/
structure DistinctG (beats : Beats) (cmp : Mod → Mod → Int) (uid owner pers : Nat) (files : List File) : Prop
    extends RegHyp uid owner pers files where
  /-- two different loadable modules with the same type and name: one of them beats the other -/
  total : ∀ f ∈ files, ∀ g ∈ files, ∀ c c', cand uid owner pers f = some c → cand uid owner pers g = some c' →
            c.key = c'.key → ¬ beats.rel c c' → ¬ beats.rel c' c → c = c'
  /-- two different loadable modules of different type or name never compare equal -/
  skey  : ∀ f ∈ files, ∀ g ∈ files, ∀ c c', cand uid owner pers f = some c → cand uid owner pers g = some c' →
            cmp c c' = 0 → c.key = c'.key ∨ c = c'

/-- the hypotheses for the code as it is -/
structure Distinct (uid owner pers : Nat) (files : List File) : Prop extends RegHyp uid owner pers files where
  /-- no two loadable modules with the same priority and name (whatever their types): excludes equal-priority
      duplicates and ties of `_cmp_f` (else: finding F17-TIE) -/
  ties : ∀ f ∈ files, ∀ g ∈ files, ∀ c c', cand uid owner pers f = some c → cand uid owner pers g = some c' →
           c.prio = c'.prio → c.name = c'.name → c = c'

theorem Distinct.toG {uid owner pers : Nat} {files : List File} (h : Distinct uid owner pers files) :
    DistinctG beatsPrio cmpF uid owner pers files := by
  refine ⟨h.toRegHyp, ?_, ?_⟩
  · intro f hf g hg c c' hc hc' hk h1 h2
    simp only [Beats.rel, beatsPrio, decide_eq_true_eq] at h1 h2
    have hn : c.name = c'.name := by
      have := congrArg Prod.snd hk
      simpa [Mod.key] using this
    exact h.ties f hf g hg c c' hc hc' (by omega) hn
  · intro f hf g hg c c' hc hc' h0
    have := cmpF_eq_zero c c' h0
    exact Or.inr (h.ties f hf g hg c c' hc hc' this.1 this.2)

theorem RegHyp.perm {uid owner pers : Nat} {fs₁ fs₂ : List File} (hp : fs₁.Perm fs₂)
    (h : RegHyp uid owner pers fs₁) : RegHyp uid owner pers fs₂ := by
  refine ⟨(hp.map _).nodup_iff.mp h.names, ?_⟩
  intro f hf k hk g hg c hc
  exact h.foreign f (hp.mem_iff.mpr hf) k hk g (hp.mem_iff.mpr hg) c hc

theorem DistinctG.perm {beats : Beats} {cmp : Mod → Mod → Int} {uid owner pers : Nat} {fs₁ fs₂ : List File}
    (hp : fs₁.Perm fs₂) (h : DistinctG beats cmp uid owner pers fs₁) :
    DistinctG beats cmp uid owner pers fs₂ := by
  refine ⟨h.toRegHyp.perm hp, ?_, ?_⟩
  · intro f hf g hg c c' hc hc'
    exact h.total f (hp.mem_iff.mpr hf) g (hp.mem_iff.mpr hg) c c' hc hc'
  · intro f hf g hg c c' hc hc'
    exact h.skey f (hp.mem_iff.mpr hf) g (hp.mem_iff.mpr hg) c c' hc hc'

/-- which modules are in the list after the directory was read: the loadable files that are not
    beaten by a loadable file with the same type and name -/
theorem mem_mods_iff {beats : Beats} (hord : BeatsOrd beats) {cmp : Mod → Mod → Int} {uid owner pers : Nat}
    {files : List File} (h : DistinctG beats cmp uid owner pers files) (m : Mod) :
    m ∈ (loadFilesG beats uid owner pers files).mods ↔
      (∃ f ∈ files, cand uid owner pers f = some m) ∧
      ∀ g ∈ files, ∀ c, cand uid owner pers g = some c → c.key = m.key → ¬ beats.rel c m := by
  have inv := regInv_final hord uid owner pers files h.toRegHyp
  constructor
  · intro hm
    refine ⟨inv.r1 m hm, ?_⟩
    intro g hg c hc hk
    obtain ⟨m', hm', hk', hle⟩ := inv.r2 g hg c hc
    have : m' = m := key_unique inv.r3 hm' hm (hk'.trans hk)
    subst this; exact hle
  · rintro ⟨⟨f, hf, hfc⟩, hmax⟩
    obtain ⟨m', hm', hk', hle⟩ := inv.r2 f hf m hfc
    obtain ⟨g, hg, hgc⟩ := inv.r1 m' hm'
    have hle' := hmax g hg m' hgc hk'
    have := h.total g hg f hf m' m hgc hfc hk' hle' hle
    subst this; exact hm'

theorem mods_nodup {beats : Beats} (hord : BeatsOrd beats) {uid owner pers : Nat} {files : List File}
    (h : RegHyp uid owner pers files) : (loadFilesG beats uid owner pers files).mods.Nodup :=
  nodup_of_nodup_map Mod.key (regInv_final hord uid owner pers files h).r3

theorem mods_files_nodup {beats : Beats} (hord : BeatsOrd beats) {uid owner pers : Nat} {files : List File}
    (h : RegHyp uid owner pers files) :
    ((loadFilesG beats uid owner pers files).mods.map (·.file)).Nodup := by
  have inv := regInv_final hord uid owner pers files h
  apply nodup_map_of_inj_on _ (mods_nodup hord h)
  intro a ha b hb hab
  obtain ⟨f, hf, hfc⟩ := inv.r1 a ha
  obtain ⟨g, hg, hgc⟩ := inv.r1 b hb
  have hfg : f.fname = g.fname := by
    rw [← (cand_file hfc).1, ← (cand_file hgc).1]; exact hab
  have : f = g := eq_of_nodup_map (·.fname) h.names f hf g hg hfg
  subst this
  rw [hfc] at hgc; simpa using hgc

theorem mods_inactive {beats : Beats} (hord : BeatsOrd beats) {uid owner pers : Nat} {files : List File}
    (h : RegHyp uid owner pers files) :
    ∀ m ∈ (loadFilesG beats uid owner pers files).mods, m.active = false := by
  intro m hm
  obtain ⟨f, _, hfc⟩ := (regInv_final hord uid owner pers files h).r1 m hm
  exact (cand_file hfc).2

/-- the sorted module list does not depend on the enumeration order -/
theorem sorted_perm_invariant {beats : Beats} (hord : BeatsOrd beats) {cmp : Mod → Mod → Int}
    (hcmp : TotalPre cmp) {uid owner pers : Nat} {fs₁ fs₂ : List File} (hp : fs₁.Perm fs₂)
    (h : DistinctG beats cmp uid owner pers fs₁) :
    listSort cmp (loadFilesG beats uid owner pers fs₁).mods =
      listSort cmp (loadFilesG beats uid owner pers fs₂).mods := by
  have h2 := h.perm hp
  have inv1 := regInv_final hord uid owner pers fs₁ h.toRegHyp
  apply listSort_unique hcmp _ _ (mods_nodup hord h.toRegHyp) (mods_nodup hord h2.toRegHyp)
  · intro m
    rw [mem_mods_iff hord h, mem_mods_iff hord h2]
    constructor
    · rintro ⟨⟨f, hf, hfc⟩, hmax⟩
      exact ⟨⟨f, hp.mem_iff.mp hf, hfc⟩, fun g hg => hmax g (hp.mem_iff.mpr hg)⟩
    · rintro ⟨⟨f, hf, hfc⟩, hmax⟩
      exact ⟨⟨f, hp.mem_iff.mpr hf, hfc⟩, fun g hg => hmax g (hp.mem_iff.mp hg)⟩
  · intro a ha b hb hab h0
    obtain ⟨f, hf, hfc⟩ := inv1.r1 a ha
    obtain ⟨g, hg, hgc⟩ := inv1.r1 b hb
    rcases h.skey f hf g hg a b hfc hgc h0 with hk | he
    · exact hab (key_unique inv1.r3 ha hb hk)
    · exact hab he

theorem count_perm_invariant {beats : Beats} (hord : BeatsOrd beats) {uid owner pers : Nat}
    {fs₁ fs₂ : List File} (hp : fs₁.Perm fs₂) (h : RegHyp uid owner pers fs₁) :
    ((loadFilesG beats uid owner pers fs₁).count = 0) ↔ ((loadFilesG beats uid owner pers fs₂).count = 0) := by
  rw [(regInv_final hord uid owner pers fs₁ h).r5, (regInv_final hord uid owner pers fs₂ (h.perm hp)).r5]
  constructor
  · intro hh f hf; exact hh f (hp.mem_iff.mpr hf)
  · intro hh f hf; exact hh f (hp.mem_iff.mp hf)

theorem opened_perm_invariant {beats : Beats} (hord : BeatsOrd beats) {uid owner pers : Nat}
    {fs₁ fs₂ : List File} (hp : fs₁.Perm fs₂) (h : RegHyp uid owner pers fs₁) :
    (loadFilesG beats uid owner pers fs₁).opened.Perm (loadFilesG beats uid owner pers fs₂).opened := by
  rw [(regInv_final hord uid owner pers fs₁ h).op, (regInv_final hord uid owner pers fs₂ (h.perm hp)).op]
  exact (hp.filter _).map _

/-! ### unfolding `loadDirG` -/

theorem loadDir_fatal_owner (beats : Beats) (cmp : Mod → Mod → Int) (e : Env) (d : Dir) (h : e.owner = none) :
    loadDirG beats cmp e d = ⟨true, [], [], baseOpts e.pers, [], []⟩ := by
  unfold loadDirG; simp [h]

theorem loadDir_fatal_path (beats : Beats) (cmp : Mod → Mod → Int) (e : Env) (d : Dir) (owner : Nat)
    (h : e.owner = some owner) (hp : pathOk e.uid owner d.path = false) :
    loadDirG beats cmp e d = ⟨true, [], [], baseOpts e.pers, [], []⟩ := by
  unfold loadDirG; simp [h, hp]

theorem loadDir_fatal_count (beats : Beats) (cmp : Mod → Mod → Int) (e : Env) (d : Dir) (owner : Nat)
    (h : e.owner = some owner) (hp : pathOk e.uid owner d.path = true)
    (hc : (loadFilesG beats e.uid owner e.pers d.files).count = 0) :
    loadDirG beats cmp e d =
      ⟨true, [], [], baseOpts e.pers, (loadFilesG beats e.uid owner e.pers d.files).opened, []⟩ := by
  unfold loadDirG; simp [h, hp, hc]

theorem loadDir_ok (beats : Beats) (cmp : Mod → Mod → Int) (e : Env) (d : Dir) (owner : Nat)
    (h : e.owner = some owner) (hp : pathOk e.uid owner d.path = true)
    (hc : (loadFilesG beats e.uid owner e.pers d.files).count ≠ 0) :
    loadDirG beats cmp e d =
      ⟨false, (initPhase e.pers e.misc (listSort cmp (loadFilesG beats e.uid owner e.pers d.files).mods)).1,
        (initPhase e.pers e.misc (listSort cmp (loadFilesG beats e.uid owner e.pers d.files).mods)).2.calls,
        (initPhase e.pers e.misc (listSort cmp (loadFilesG beats e.uid owner e.pers d.files).mods)).2.opts,
        (loadFilesG beats e.uid owner e.pers d.files).opened,
        (initPhase e.pers e.misc (listSort cmp (loadFilesG beats e.uid owner e.pers d.files).mods)).2.regs⟩ := by
  unfold loadDirG; simp [h, hp, hc]

/-- a run that is not fatal went through all stages -/
theorem loadDir_nonfatal (beats : Beats) (cmp : Mod → Mod → Int) (e : Env) (d : Dir)
    (hnf : (loadDirG beats cmp e d).fatal = false) :
    ∃ owner, e.owner = some owner ∧ pathOk e.uid owner d.path = true ∧
      (loadFilesG beats e.uid owner e.pers d.files).count ≠ 0 := by
  cases ho : e.owner with
  | none => rw [loadDir_fatal_owner beats cmp e d ho] at hnf; simp at hnf
  | some owner =>
    cases hp : pathOk e.uid owner d.path with
    | false => rw [loadDir_fatal_path beats cmp e d owner ho hp] at hnf; simp at hnf
    | true =>
      by_cases hc : (loadFilesG beats e.uid owner e.pers d.files).count = 0
      · rw [loadDir_fatal_count beats cmp e d owner ho hp hc] at hnf; simp at hnf
      · exact ⟨owner, rfl, hp, hc⟩

/-- the outcome is the same for every enumeration order (the dlopen log up to order) -/
theorem perm_invariantG {beats : Beats} (hord : BeatsOrd beats) {cmp : Mod → Mod → Int} (hcmp : TotalPre cmp)
    (e : Env) (p : List (Option FStat)) (fs₁ fs₂ : List File) (hp : fs₁.Perm fs₂)
    (hd : ∀ owner, e.owner = some owner → DistinctG beats cmp e.uid owner e.pers fs₁) :
    (loadDirG beats cmp e ⟨p, fs₁⟩).fatal = (loadDirG beats cmp e ⟨p, fs₂⟩).fatal ∧
    (loadDirG beats cmp e ⟨p, fs₁⟩).mods = (loadDirG beats cmp e ⟨p, fs₂⟩).mods ∧
    (loadDirG beats cmp e ⟨p, fs₁⟩).calls = (loadDirG beats cmp e ⟨p, fs₂⟩).calls ∧
    (loadDirG beats cmp e ⟨p, fs₁⟩).opts = (loadDirG beats cmp e ⟨p, fs₂⟩).opts ∧
    (loadDirG beats cmp e ⟨p, fs₁⟩).regs = (loadDirG beats cmp e ⟨p, fs₂⟩).regs ∧
    (loadDirG beats cmp e ⟨p, fs₁⟩).opened.Perm (loadDirG beats cmp e ⟨p, fs₂⟩).opened := by
  cases ho : e.owner with
  | none =>
    rw [loadDir_fatal_owner beats cmp e _ ho, loadDir_fatal_owner beats cmp e _ ho]; simp
  | some owner =>
    have hdist := hd owner ho
    cases hpo : pathOk e.uid owner p with
    | false =>
      rw [loadDir_fatal_path beats cmp e ⟨p, fs₁⟩ owner ho hpo,
        loadDir_fatal_path beats cmp e ⟨p, fs₂⟩ owner ho hpo]; simp
    | true =>
      have hcnt := count_perm_invariant hord hp hdist.toRegHyp
      have hop := opened_perm_invariant hord hp hdist.toRegHyp
      by_cases hc : (loadFilesG beats e.uid owner e.pers fs₁).count = 0
      · rw [loadDir_fatal_count beats cmp e ⟨p, fs₁⟩ owner ho hpo hc,
          loadDir_fatal_count beats cmp e ⟨p, fs₂⟩ owner ho hpo (hcnt.mp hc)]
        simp [hop]
      · have hc2 : (loadFilesG beats e.uid owner e.pers fs₂).count ≠ 0 := fun h => hc (hcnt.mpr h)
        rw [loadDir_ok beats cmp e ⟨p, fs₁⟩ owner ho hpo hc, loadDir_ok beats cmp e ⟨p, fs₂⟩ owner ho hpo hc2]
        simp only [sorted_perm_invariant hord hcmp hp hdist]
        simp [hop]

/-! ### personality first: the rewritten directory has no module of another personality -/

theorem st_persFirst (pers : Nat) (f : File) : (persFirstFile pers f).st = f.st := by
  unfold persFirstFile
  split <;> rfl

theorem obj_persFirst_mod (pers : Nat) (f : File) (d : Desc) (h : f.obj = .mod d) :
    (persFirstFile pers f).obj = .mod (persFirstDesc pers d) := by
  unfold persFirstFile
  rw [h]

theorem obj_persFirst_other (pers : Nat) (f : File) (h : ∀ d, f.obj ≠ .mod d) :
    (persFirstFile pers f).obj = f.obj := by
  unfold persFirstFile
  split
  · rename_i d hd; exact absurd hd (h d)
  · rfl

theorem secure_persFirst (uid owner pers : Nat) (f : File) :
    secure uid owner (persFirstFile pers f) = secure uid owner f := by
  unfold secure
  rw [st_persFirst]

theorem foreignKey_persFirst (uid owner pers : Nat) (f : File) :
    foreignKey uid owner pers (persFirstFile pers f) = none := by
  unfold foreignKey
  rw [secure_persFirst]
  split
  · cases hobj : f.obj with
    | noload => rw [obj_persFirst_other pers f (by intro d; rw [hobj]; simp), hobj]
    | noinfo => rw [obj_persFirst_other pers f (by intro d; rw [hobj]; simp), hobj]
    | mod d =>
      rw [obj_persFirst_mod pers f d hobj]
      simp only [persFirstDesc]
      by_cases hp : d.pers &&& pers = 0
      · simp [hp]
      · simp only [hp, if_false]
        cases d.type <;> cases d.name <;> simp [hp]
  · rfl

theorem fname_persFirst (pers : Nat) (f : File) : (persFirstFile pers f).fname = f.fname := by
  unfold persFirstFile
  split <;> rfl

/-- after the rewriting only distinct file names are needed for the registration invariant -/
theorem regHyp_persFirst (uid owner pers : Nat) (files : List File) (hn : (files.map (·.fname)).Nodup) :
    RegHyp uid owner pers (files.map (persFirstFile pers)) := by
  refine ⟨?_, ?_⟩
  · simpa [List.map_map, Function.comp_def, fname_persFirst] using hn
  · intro f hf k hk
    simp only [List.mem_map] at hf
    obtain ⟨f0, _, rfl⟩ := hf
    rw [foreignKey_persFirst] at hk
    cases hk

end PdshVerif.Mod
