/-
  From the invariants to statements about the whole run `loadDir`: which modules are listed
  (as a function of the SET of files), independence of the enumeration order.
-/
import PdshVerif.Mod.RegLemmas
import PdshVerif.Mod.SortLemmas

namespace PdshVerif.Mod

theorem nodup_of_nodup_map {α β : Type} (f : α → β) {l : List α} (h : (l.map f).Nodup) : l.Nodup := by
  induction l with
  | nil => simp
  | cons a r ih =>
    simp only [List.map_cons, List.nodup_cons, List.mem_map, not_exists, not_and] at h
    simp only [List.nodup_cons]
    exact ⟨fun ha => h.1 a ha rfl, ih h.2⟩

theorem nodup_map_of_inj_on {α β : Type} (f : α → β) {l : List α} (hn : l.Nodup)
    (hinj : ∀ a ∈ l, ∀ b ∈ l, f a = f b → a = b) : (l.map f).Nodup := by
  induction l with
  | nil => simp
  | cons a r ih =>
    simp only [List.nodup_cons] at hn
    simp only [List.map_cons, List.nodup_cons, List.mem_map, not_exists, not_and]
    refine ⟨?_, ih hn.2 (fun x hx y hy => hinj x (by simp [hx]) y (by simp [hy]))⟩
    intro x hx hfx
    have := hinj x (by simp [hx]) a (by simp) hfx
    subst this
    exact hn.1 hx

/-- the hypotheses under which the outcome is a function of the set of files -/
structure Distinct (uid owner pers : Nat) (files : List File) : Prop extends RegHyp uid owner pers files where
  /-- no two loadable modules with the same priority and name (whatever their types): excludes equal-priority
      duplicates and ties of `_cmp_f` (else: finding F17-TIE) -/
  ties : ∀ f ∈ files, ∀ g ∈ files, ∀ c c', cand uid owner pers f = some c → cand uid owner pers g = some c' →
           c.prio = c'.prio → c.name = c'.name → c = c'

theorem RegHyp.perm {uid owner pers : Nat} {fs₁ fs₂ : List File} (hp : fs₁.Perm fs₂)
    (h : RegHyp uid owner pers fs₁) : RegHyp uid owner pers fs₂ := by
  refine ⟨(hp.map _).nodup_iff.mp h.names, ?_⟩
  intro f hf k hk g hg c hc
  exact h.foreign f (hp.mem_iff.mpr hf) k hk g (hp.mem_iff.mpr hg) c hc

theorem Distinct.perm {uid owner pers : Nat} {fs₁ fs₂ : List File} (hp : fs₁.Perm fs₂)
    (h : Distinct uid owner pers fs₁) : Distinct uid owner pers fs₂ := by
  refine ⟨h.toRegHyp.perm hp, ?_⟩
  intro f hf g hg c c' hc hc'
  exact h.ties f (hp.mem_iff.mpr hf) g (hp.mem_iff.mpr hg) c c' hc hc'

/-- which modules are in the list after the directory was read: the loadable files that are not
    beaten by a loadable file with the same type and name -/
theorem mem_mods_iff {uid owner pers : Nat} {files : List File} (h : Distinct uid owner pers files)
    (m : Mod) :
    m ∈ (loadFiles uid owner pers files).mods ↔
      (∃ f ∈ files, cand uid owner pers f = some m) ∧
      ∀ g ∈ files, ∀ c, cand uid owner pers g = some c → c.key = m.key → c.prio ≤ m.prio := by
  have inv := regInv_final uid owner pers files h.toRegHyp
  constructor
  · intro hm
    refine ⟨inv.r1 m hm, ?_⟩
    intro g hg c hc hk
    obtain ⟨m', hm', hk', hle⟩ := inv.r2 g hg c hc
    have : m' = m := key_unique inv.r3 hm' hm (hk'.trans hk)
    subst this; exact hle
  · rintro ⟨⟨f, hf, hfc⟩, hmax⟩
    obtain ⟨m', hm', hk', hle⟩ := inv.r2 f hf m hfc
    obtain ⟨g, hg, hgc⟩ := inv.r1 m' hm'
    have hle' := hmax g hg m' hgc hk'
    have hp : m'.prio = m.prio := by omega
    have hn : m'.name = m.name := by
      have := congrArg Prod.snd hk'
      simpa [Mod.key] using this
    have := h.ties g hg f hf m' m hgc hfc hp hn
    subst this; exact hm'

theorem mods_nodup {uid owner pers : Nat} {files : List File} (h : RegHyp uid owner pers files) :
    (loadFiles uid owner pers files).mods.Nodup :=
  nodup_of_nodup_map Mod.key (regInv_final uid owner pers files h).r3

theorem mods_files_nodup {uid owner pers : Nat} {files : List File} (h : RegHyp uid owner pers files) :
    ((loadFiles uid owner pers files).mods.map (·.file)).Nodup := by
  have inv := regInv_final uid owner pers files h
  apply nodup_map_of_inj_on _ (mods_nodup h)
  intro a ha b hb hab
  obtain ⟨f, hf, hfc⟩ := inv.r1 a ha
  obtain ⟨g, hg, hgc⟩ := inv.r1 b hb
  have hfg : f.fname = g.fname := by
    rw [← (cand_file hfc).1, ← (cand_file hgc).1]; exact hab
  have : f = g := eq_of_nodup_map (·.fname) h.names f hf g hg hfg
  subst this
  rw [hfc] at hgc; simpa using hgc

theorem mods_inactive {uid owner pers : Nat} {files : List File} (h : RegHyp uid owner pers files) :
    ∀ m ∈ (loadFiles uid owner pers files).mods, m.active = false := by
  intro m hm
  obtain ⟨f, _, hfc⟩ := (regInv_final uid owner pers files h).r1 m hm
  exact (cand_file hfc).2

/-- the sorted module list does not depend on the enumeration order -/
theorem sorted_perm_invariant {uid owner pers : Nat} {fs₁ fs₂ : List File} (hp : fs₁.Perm fs₂)
    (h : Distinct uid owner pers fs₁) :
    listSort cmpF (loadFiles uid owner pers fs₁).mods = listSort cmpF (loadFiles uid owner pers fs₂).mods := by
  have h2 := h.perm hp
  have inv1 := regInv_final uid owner pers fs₁ h.toRegHyp
  apply listSort_unique cmpF_totalPre _ _ (mods_nodup h.toRegHyp) (mods_nodup h2.toRegHyp)
  · intro m
    rw [mem_mods_iff h, mem_mods_iff h2]
    constructor
    · rintro ⟨⟨f, hf, hfc⟩, hmax⟩
      exact ⟨⟨f, hp.mem_iff.mp hf, hfc⟩, fun g hg => hmax g (hp.mem_iff.mpr hg)⟩
    · rintro ⟨⟨f, hf, hfc⟩, hmax⟩
      exact ⟨⟨f, hp.mem_iff.mpr hf, hfc⟩, fun g hg => hmax g (hp.mem_iff.mp hg)⟩
  · intro a ha b hb hab h0
    obtain ⟨f, hf, hfc⟩ := inv1.r1 a ha
    obtain ⟨g, hg, hgc⟩ := inv1.r1 b hb
    have := cmpF_eq_zero a b h0
    exact hab (h.ties f hf g hg a b hfc hgc this.1 this.2)

theorem count_perm_invariant {uid owner pers : Nat} {fs₁ fs₂ : List File} (hp : fs₁.Perm fs₂)
    (h : RegHyp uid owner pers fs₁) :
    ((loadFiles uid owner pers fs₁).count = 0) ↔ ((loadFiles uid owner pers fs₂).count = 0) := by
  rw [(regInv_final uid owner pers fs₁ h).r5, (regInv_final uid owner pers fs₂ (h.perm hp)).r5]
  constructor
  · intro hh f hf; exact hh f (hp.mem_iff.mpr hf)
  · intro hh f hf; exact hh f (hp.mem_iff.mp hf)

theorem opened_perm_invariant {uid owner pers : Nat} {fs₁ fs₂ : List File} (hp : fs₁.Perm fs₂)
    (h : RegHyp uid owner pers fs₁) :
    (loadFiles uid owner pers fs₁).opened.Perm (loadFiles uid owner pers fs₂).opened := by
  rw [(regInv_final uid owner pers fs₁ h).op, (regInv_final uid owner pers fs₂ (h.perm hp)).op]
  exact (hp.filter _).map _

/-! ### unfolding `loadDir` -/

theorem loadDir_fatal_owner (e : Env) (d : Dir) (h : e.owner = none) :
    loadDir e d = ⟨true, [], [], baseOpts e.pers, [], []⟩ := by
  unfold loadDir; simp [h]

theorem loadDir_fatal_path (e : Env) (d : Dir) (owner : Nat) (h : e.owner = some owner)
    (hp : pathOk e.uid owner d.path = false) :
    loadDir e d = ⟨true, [], [], baseOpts e.pers, [], []⟩ := by
  unfold loadDir; simp [h, hp]

theorem loadDir_fatal_count (e : Env) (d : Dir) (owner : Nat) (h : e.owner = some owner)
    (hp : pathOk e.uid owner d.path = true) (hc : (loadFiles e.uid owner e.pers d.files).count = 0) :
    loadDir e d = ⟨true, [], [], baseOpts e.pers, (loadFiles e.uid owner e.pers d.files).opened, []⟩ := by
  unfold loadDir; simp [h, hp, hc]

theorem loadDir_ok (e : Env) (d : Dir) (owner : Nat) (h : e.owner = some owner)
    (hp : pathOk e.uid owner d.path = true) (hc : (loadFiles e.uid owner e.pers d.files).count ≠ 0) :
    loadDir e d =
      ⟨false, (initPhase e.pers e.misc (listSort cmpF (loadFiles e.uid owner e.pers d.files).mods)).1,
        (initPhase e.pers e.misc (listSort cmpF (loadFiles e.uid owner e.pers d.files).mods)).2.calls,
        (initPhase e.pers e.misc (listSort cmpF (loadFiles e.uid owner e.pers d.files).mods)).2.opts,
        (loadFiles e.uid owner e.pers d.files).opened,
        (initPhase e.pers e.misc (listSort cmpF (loadFiles e.uid owner e.pers d.files).mods)).2.regs⟩ := by
  unfold loadDir; simp [h, hp, hc]

/-- a run that is not fatal went through all stages -/
theorem loadDir_nonfatal (e : Env) (d : Dir) (hnf : (loadDir e d).fatal = false) :
    ∃ owner, e.owner = some owner ∧ pathOk e.uid owner d.path = true ∧
      (loadFiles e.uid owner e.pers d.files).count ≠ 0 := by
  cases ho : e.owner with
  | none => rw [loadDir_fatal_owner e d ho] at hnf; simp at hnf
  | some owner =>
    cases hp : pathOk e.uid owner d.path with
    | false => rw [loadDir_fatal_path e d owner ho hp] at hnf; simp at hnf
    | true =>
      by_cases hc : (loadFiles e.uid owner e.pers d.files).count = 0
      · rw [loadDir_fatal_count e d owner ho hp hc] at hnf; simp at hnf
      · exact ⟨owner, rfl, hp, hc⟩

end PdshVerif.Mod
