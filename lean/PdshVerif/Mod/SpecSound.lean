/-
  The model of the code as it is now (`Tie.loadAllPF`: personality first, ties broken) satisfies
  every clause of the specification (Mod/Spec.lean) at once.  Helper lemmas; the theorem itself is
  `spec_sound` in Props/C17.lean.

  Part 1: the notions of the specification (written from the property text) against those of the
  model (written from mod.c).
-/
import PdshVerif.Mod.TieLemmas
import PdshVerif.Mod.Spec

namespace PdshVerif.Mod
open PdshVerif.Mod.Spec

/-- what an observer sees of a model run, for the option characters `letters` -/
def obsOf (r : Result) (letters : List Char) : Obs :=
  ⟨r.fatal, r.mods.map (fun m => (m.file, m.active)), r.calls, r.opened,
   letters.map (fun c => (c, optUse r c))⟩

theorem dirFor_eq (e : Env) : dirFor e = chooseDir e := by
  unfold dirFor chooseDir
  cases e.envDir with
  | none => simp
  | some d => simp

theorem chooseDir_persFirst (e : Env) :
    chooseDir (persFirstEnv e) = persFirstDir e.pers (chooseDir e) := by
  unfold chooseDir persFirstEnv
  cases e.envDir with
  | none => simp
  | some d =>
    simp only [Option.map_some]
    split <;> rfl

theorem ancestorOk_some (e : Env) (owner : Nat) (st : FStat) :
    ancestorOk e owner (some st) = dirOk e.uid owner st := by
  simp only [ancestorOk, dirOk, trusted, ownerOk, worldWritable, sticky]
  cases isDir st.mode <;> cases (st.uid == 0 || st.uid == e.uid || st.uid == owner) <;>
    cases (st.mode &&& S_IWOTH != 0) <;> cases h : (st.mode &&& S_ISVTX == 0) <;>
    simp [bne, h]

theorem pathOk_eq_all (e : Env) (owner : Nat) (p : List (Option FStat)) :
    pathOk e.uid owner p = p.all (ancestorOk e owner) := by
  induction p with
  | nil => simp [pathOk]
  | cons x rest ih =>
    cases x with
    | none => simp [pathOk, ancestorOk]
    | some st => simp [pathOk, ancestorOk_some, ih]

theorem fileSecure_eq (e : Env) (owner : Nat) (f : File) :
    Spec.fileSecure e owner f = secure e.uid owner f := by
  unfold Spec.fileSecure secure
  cases f.st with
  | none => rfl
  | some st =>
    simp only [fileOk, trusted, ownerOk, worldWritable]
    cases isReg st.mode <;> cases (st.uid == 0 || st.uid == e.uid || st.uid == owner) <;>
      cases h : (st.mode &&& S_IWOTH == 0) <;> simp [bne, h]

/-- the module the model registers for a file is the specification's candidate for it -/
def modOf (fname : Str) (c : Cand) : Mod := ⟨fname, c.1, c.2.1, c.2.2.1, c.2.2.2, false⟩

theorem cand_eq_candidate (e : Env) (owner : Nat) (f : File) :
    cand e.uid owner e.pers (persFirstFile e.pers f) = (candidate e owner f).map (modOf f.fname) := by
  unfold cand candidate
  rw [secure_persFirst, fileSecure_eq, fname_persFirst]
  by_cases hs : secure e.uid owner f = true
  · simp only [hs, if_true]
    cases hobj : f.obj with
    | noload => rw [obj_persFirst_other e.pers f (by intro d; rw [hobj]; simp), hobj]; rfl
    | noinfo => rw [obj_persFirst_other e.pers f (by intro d; rw [hobj]; simp), hobj]; rfl
    | mod d =>
      rw [obj_persFirst_mod e.pers f d hobj]
      simp only [persFirstDesc]
      by_cases hp : d.pers &&& e.pers = 0
      · simp only [hp, if_true]
        cases d.type <;> cases d.name <;> simp
      · simp only [hp, if_false]
        cases d.type <;> cases d.name <;> simp [hp, modOf]
  · simp [hs]
/-! Part 2: the candidate table of the specification, looked up by file name -/

theorem candsOf_fst (e : Env) (owner : Nat) (files : List File) :
    ((files.filterMap fun f => (candidate e owner f).map fun c => (f.fname, c)).map (·.1)) =
      (files.filter fun f => (candidate e owner f).isSome).map (·.fname) := by
  induction files with
  | nil => rfl
  | cons f rest ih =>
    cases hc : candidate e owner f with
    | none => simp [List.filterMap_cons, hc, ih]
    | some c => simp [List.filterMap_cons, hc, ih]

theorem candsOf_nodup (e : Env) (owner : Nat) (d : Dir) (hn : (d.files.map (·.fname)).Nodup) :
    ((candsOf e owner d).map (·.1)).Nodup := by
  unfold candsOf
  rw [candsOf_fst]
  exact List.Nodup.sublist ((List.filter_sublist).map _) hn

theorem mem_candsOf (e : Env) (owner : Nat) (d : Dir) (n : Str) (c : Cand) :
    (n, c) ∈ candsOf e owner d ↔ ∃ f ∈ d.files, f.fname = n ∧ candidate e owner f = some c := by
  unfold candsOf
  simp only [List.mem_filterMap, Option.map_eq_some_iff, Prod.mk.injEq]
  constructor
  · rintro ⟨f, hf, c', hc', hn, hcc⟩
    exact ⟨f, hf, hn, by rw [hc', hcc]⟩
  · rintro ⟨f, hf, hn, hc⟩
    exact ⟨f, hf, c, hc, hn, rfl⟩

theorem candOf_of_mem {cands : List (Str × Cand)} (hn : (cands.map (·.1)).Nodup) {n : Str} {c : Cand}
    (h : (n, c) ∈ cands) : candOf cands n = some c := by
  unfold candOf
  induction cands with
  | nil => simp at h
  | cons x rest ih =>
    simp only [List.map_cons, List.nodup_cons, List.mem_map, not_exists, not_and] at hn
    simp only [List.mem_cons] at h
    rcases h with h | h
    · subst h; simp [List.find?_cons]
    · have hne : ¬ x.1 = n := fun e => hn.1 (n, c) h (by simp [e])
      have : (x.1 == n) = false := by simpa using hne
      simp only [List.find?_cons, this]
      exact ih hn.2 h

theorem candOf_some {cands : List (Str × Cand)} {n : Str} {c : Cand} (h : candOf cands n = some c) :
    (n, c) ∈ cands := by
  unfold candOf at h
  simp only [Option.map_eq_some_iff] at h
  obtain ⟨x, hx, hc⟩ := h
  have h1 := List.mem_of_find?_eq_some hx
  have h2 := List.find?_some hx
  simp only [beq_iff_eq] at h2
  cases x with
  | mk a b => simp only at h2 hc; subst h2; subst hc; exact h1

theorem candOf_file (e : Env) (owner : Nat) (d : Dir) (hn : (d.files.map (·.fname)).Nodup) (f : File)
    (hf : f ∈ d.files) : candOf (candsOf e owner d) f.fname = candidate e owner f := by
  cases hc : candidate e owner f with
  | some c => exact candOf_of_mem (candsOf_nodup e owner d hn) ((mem_candsOf e owner d _ c).mpr ⟨f, hf, rfl, hc⟩)
  | none =>
    cases h : candOf (candsOf e owner d) f.fname with
    | none => rfl
    | some c =>
      obtain ⟨g, hg, hgn, hgc⟩ := (mem_candsOf e owner d _ c).mp (candOf_some h)
      have : g = f := eq_of_nodup_map (·.fname) hn g hg f hf hgn
      subst this; rw [hc] at hgc; cases hgc

/-! Part 3: the security clauses -/

theorem find_by_fname {files : List File} (hn : (files.map (·.fname)).Nodup) {f : File} (hf : f ∈ files) :
    files.find? (·.fname == f.fname) = some f := by
  induction files with
  | nil => simp at hf
  | cons x rest ih =>
    simp only [List.map_cons, List.nodup_cons, List.mem_map, not_exists, not_and] at hn
    simp only [List.mem_cons] at hf
    rcases hf with hf | hf
    · subst hf; simp [List.find?_cons]
    · have hne : ¬ x.fname = f.fname := fun e => hn.1 f hf e.symm
      have : (x.fname == f.fname) = false := by simpa using hne
      simp only [List.find?_cons, this]
      exact ih hn.2 hf

/-- the dlopen log of the model: the secure files, under their names (the rewriting keeps both) -/
theorem opened_persFirst (uid owner pers : Nat) (files : List File) :
    ((files.map (persFirstFile pers)).filter (secure uid owner)).map (·.fname) =
      (files.filter (secure uid owner)).map (·.fname) := by
  induction files with
  | nil => rfl
  | cons f rest ih =>
    simp only [List.map_cons, List.filter_cons, secure_persFirst]
    split
    · simp [fname_persFirst, ih]
    · exact ih

theorem clause1_nil (e : Env) (owner : Nat) (d : Dir) (o : Obs)
    (hop : o.opened = (d.files.filter (secure e.uid owner)).map (·.fname)) : clause1 d o = [] := by
  unfold clause1
  simp only [List.map_eq_nil_iff, List.filter_eq_nil_iff, hop, List.mem_map, List.mem_filter]
  rintro n ⟨f, ⟨hf, _⟩, rfl⟩
  simp only [Bool.not_eq_true', Bool.not_eq_false, List.any_eq_true, beq_iff_eq]
  exact ⟨f, hf, rfl⟩

theorem clause3_nil (e : Env) (owner : Nat) (d : Dir) (o : Obs) (hn : (d.files.map (·.fname)).Nodup)
    (hop : o.opened = (d.files.filter (secure e.uid owner)).map (·.fname)) : clause3 e owner d o = [] := by
  unfold clause3
  simp only [List.map_eq_nil_iff, List.filter_eq_nil_iff, hop, List.mem_map, List.mem_filter]
  rintro n ⟨f, ⟨hf, hs⟩, rfl⟩
  rw [find_by_fname hn hf]
  simp [fileSecure_eq, hs]

theorem clause3b_nil (e : Env) (owner : Nat) (d : Dir) (o : Obs)
    (hop : o.opened = (d.files.filter (secure e.uid owner)).map (·.fname)) : clause3b e owner d o = [] := by
  unfold clause3b
  simp only [List.map_eq_nil_iff, List.filter_eq_nil_iff, List.mem_filter, hop]
  rintro f ⟨hf, hs⟩
  rw [fileSecure_eq] at hs
  simp only [Bool.not_eq_true', Bool.not_eq_false, List.contains_eq_mem, List.mem_map, List.mem_filter,
    decide_eq_true_eq]
  exact ⟨f, ⟨hf, hs⟩, rfl⟩
/-! Part 4: what is known about the module list of a run that goes through -/

def Mod.cOf (m : Mod) : Cand := (m.type, m.name, m.prio, m.d)

theorem static_key (m : Mod) : m.static.key = m.key := rfl

theorem map_static_of_inactive {l : List Mod} (h : ∀ m ∈ l, m.active = false) : l.map Mod.static = l := by
  induction l with
  | nil => rfl
  | cons m r ih =>
    have hm := h m (by simp)
    have : m.static = m := by cases m; simp only [Mod.static] at *; simp [hm]
    simp [this, ih (fun x hx => h x (by simp [hx]))]

/-- the facts about the listed modules `ms` the clauses need -/
structure Listed (e : Env) (owner : Nat) (d : Dir) (ms : List Mod) : Prop where
  hn     : (d.files.map (·.fname)).Nodup
  src    : ∀ m ∈ ms, ∃ f ∈ d.files, ∃ c, candidate e owner f = some c ∧ m.static = modOf f.fname c
  cover  : ∀ f ∈ d.files, ∀ c, candidate e owner f = some c →
             ∃ m ∈ ms, m.key = (modOf f.fname c).key ∧ ¬ Beats.rel Tie.beats (modOf f.fname c) m.static
  keys   : (ms.map Mod.key).Nodup
  sorted : (ms.map Mod.static).Pairwise (fun a b => Tie.cmpF a b ≤ 0)

theorem Listed.candOf {e : Env} {owner : Nat} {d : Dir} {ms : List Mod} (h : Listed e owner d ms)
    {m : Mod} (hm : m ∈ ms) : candOf (candsOf e owner d) m.file = some m.cOf := by
  obtain ⟨f, hf, c, hc, hs⟩ := h.src m hm
  have hfile : m.file = f.fname := by
    have := congrArg Mod.file hs; simpa [Mod.static, modOf] using this
  rw [hfile, candOf_file e owner d h.hn f hf, hc]
  have h1 := congrArg Mod.type hs
  have h2 := congrArg Mod.name hs
  have h3 := congrArg Mod.prio hs
  have h4 := congrArg Mod.d hs
  simp only [Mod.static, modOf] at h1 h2 h3 h4
  cases c with
  | mk t r => cases r with
    | mk n r2 => cases r2 with
      | mk p dd => simp only at h1 h2 h3 h4; simp [Mod.cOf, h1, h2, h3, h4]

theorem Listed.eq_of_key {e : Env} {owner : Nat} {d : Dir} {ms : List Mod} (h : Listed e owner d ms)
    {a b : Mod} (ha : a ∈ ms) (hb : b ∈ ms) (hk : a.key = b.key) : a = b :=
  key_unique h.keys ha hb hk

theorem Listed.eq_of_file {e : Env} {owner : Nat} {d : Dir} {ms : List Mod} (h : Listed e owner d ms)
    {a b : Mod} (ha : a ∈ ms) (hb : b ∈ ms) (hf : a.file = b.file) : a = b := by
  have h1 := h.candOf ha
  have h2 := h.candOf hb
  rw [hf, h2] at h1
  have : b.cOf = a.cOf := Option.some.inj h1
  apply h.eq_of_key ha hb
  have e1 := congrArg (fun c : Cand => c.1) this
  have e2 := congrArg (fun c : Cand => c.2.1) this
  simp only [Mod.cOf] at e1 e2
  simp [Mod.key, e1, e2]

theorem Listed.files_nodup {e : Env} {owner : Nat} {d : Dir} {ms : List Mod} (h : Listed e owner d ms) :
    (ms.map (·.file)).Nodup :=
  nodup_map_of_inj_on _ (nodup_of_nodup_map Mod.key h.keys) (fun _ ha _ hb => h.eq_of_file ha hb)

theorem mem_listed {ms : List Mod} {n : Str} (h : n ∈ ms.map (·.file)) : ∃ m ∈ ms, m.file = n := by
  simpa [List.mem_map] using h

/-- the candidate entry of a listed file is that of its module -/
theorem Listed.cand_of_listed {e : Env} {owner : Nat} {d : Dir} {ms : List Mod} (h : Listed e owner d ms)
    {m : Mod} (hm : m ∈ ms) {c : Cand} (hc : (m.file, c) ∈ candsOf e owner d) : c = m.cOf := by
  have h1 := candOf_of_mem (candsOf_nodup e owner d h.hn) hc
  rw [h.candOf hm] at h1
  exact (Option.some.inj h1).symm

theorem clause4_nil {e : Env} {owner : Nat} {d : Dir} {ms : List Mod} (h : Listed e owner d ms) :
    clause4 (candsOf e owner d) (ms.map (·.file)) = [] := by
  unfold clause4
  simp only [List.map_eq_nil_iff, List.filter_eq_nil_iff]
  intro n hn
  obtain ⟨m, hm, rfl⟩ := mem_listed hn
  simp [h.candOf hm]

theorem filter_length_le_one {α : Type} (p : α → Bool) (a : α) :
    ∀ (l : List α), l.Nodup → (∀ x ∈ l, p x = true → x = a) → (l.filter p).length ≤ 1 := by
  intro l
  induction l with
  | nil => intro _ _; simp
  | cons x r ih =>
    intro hnd hall
    simp only [List.nodup_cons] at hnd
    have hr := ih hnd.2 (fun y hy => hall y (by simp [hy]))
    by_cases hp : p x = true
    · have hx : x = a := hall x (by simp) hp
      have : r.filter p = [] := by
        simp only [List.filter_eq_nil_iff]
        intro y hy hpy
        have := hall y (by simp [hy]) hpy
        rw [this, ← hx] at hy
        exact hnd.1 hy
      simp [List.filter_cons, hp, this]
    · simp only [List.filter_cons, hp]
      simpa using hr

theorem clause4b_nil {e : Env} {owner : Nat} {d : Dir} {ms : List Mod} (h : Listed e owner d ms) :
    clause4b (candsOf e owner d) (ms.map (·.file)) = [] := by
  unfold clause4b
  simp only [List.map_eq_nil_iff, List.filter_eq_nil_iff]
  intro n hn
  obtain ⟨m, hm, rfl⟩ := mem_listed hn
  rw [h.candOf hm]
  simp only [decide_eq_true_eq, Nat.not_lt]
  apply filter_length_le_one _ m.file _ h.files_nodup
  intro g hg hp
  obtain ⟨m', hm', rfl⟩ := mem_listed hg
  rw [h.candOf hm'] at hp
  simp only [Mod.cOf, Bool.and_eq_true, beq_iff_eq] at hp
  have : m' = m := h.eq_of_key hm' hm (by simp [Mod.key, hp.1, hp.2])
  rw [this]

theorem clause5_nil {e : Env} {owner : Nat} {d : Dir} {ms : List Mod} (h : Listed e owner d ms) :
    clause5 (candsOf e owner d) (ms.map (·.file)) = [] := by
  unfold clause5
  simp only [List.map_eq_nil_iff, List.filter_eq_nil_iff]
  rintro ⟨n, c⟩ hx hcond
  simp only [Bool.and_eq_true, List.contains_eq_mem, decide_eq_true_eq, Bool.not_eq_true',
    List.isEmpty_eq_false_iff_exists_mem] at hcond
  obtain ⟨hlisted, ⟨n', c'⟩, hy⟩ := hcond
  obtain ⟨m, hm, hmf⟩ := mem_listed hlisted
  subst hmf
  have hc : c = m.cOf := h.cand_of_listed hm hx
  subst hc
  simp only [better, List.mem_filter, Bool.and_eq_true, beq_iff_eq, decide_eq_true_eq] at hy
  obtain ⟨hy1, ⟨ht, hnm⟩, hpr⟩ := hy
  obtain ⟨g, hg, _, hgc⟩ := (mem_candsOf e owner d n' c').mp hy1
  obtain ⟨m', hm', hk, hnb⟩ := h.cover g hg c' hgc
  have : m' = m := h.eq_of_key hm' hm (by
    rw [hk]; simp only [Mod.cOf] at ht hnm; simp [Mod.key, modOf, ht, hnm])
  subst this
  apply hnb
  rw [Tie.rel_iff]
  left
  simp only [Mod.cOf] at hpr
  simpa [modOf, Mod.static] using hpr

theorem clause5b_nil {e : Env} {owner : Nat} {d : Dir} {ms : List Mod} (h : Listed e owner d ms) :
    clause5b (candsOf e owner d) (ms.map (·.file)) = [] := by
  unfold clause5b
  simp only [List.map_eq_nil_iff, List.filter_eq_nil_iff]
  rintro ⟨n, c⟩ hx hcond
  simp only [Bool.and_eq_true, Bool.not_eq_true', List.contains_eq_mem, decide_eq_false_iff_not,
    List.isEmpty_iff, List.any_eq_false, decide_eq_true_eq] at hcond
  obtain ⟨⟨hnl, hbetter⟩, hpeers⟩ := hcond
  obtain ⟨g, hg, hgn, hgc⟩ := (mem_candsOf e owner d n c).mp hx
  obtain ⟨m, hm, hk, hnb⟩ := h.cover g hg c hgc
  have hmc : (m.file, m.cOf) ∈ candsOf e owner d := candOf_some (h.candOf hm)
  have hml : m.file ∈ ms.map (·.file) := by simp only [List.mem_map]; exact ⟨m, hm, rfl⟩
  have hne : m.file ≠ n := fun e => hnl (e ▸ hml)
  have hkt : m.type = c.1 ∧ m.name = c.2.1 := by
    have e1 := congrArg Prod.fst hk
    have e2 := congrArg Prod.snd hk
    simpa [Mod.key, modOf] using And.intro e1 e2
  -- priorities: m does not lose to c, and nothing better than c exists
  have hle : c.2.2.1 ≤ m.prio := by
    rw [Tie.rel_iff] at hnb
    have : ¬ (modOf g.fname c).prio > m.static.prio := fun x => hnb (Or.inl x)
    simp only [modOf, Mod.static] at this
    omega
  have hge : ¬ m.prio > c.2.2.1 := by
    intro hgt
    have : (m.file, m.cOf) ∈ better (candsOf e owner d) c := by
      simp only [better, List.mem_filter, Bool.and_eq_true, beq_iff_eq, decide_eq_true_eq]
      exact ⟨hmc, ⟨hkt.1, hkt.2⟩, hgt⟩
    rw [hbetter] at this
    simp at this
  have hpeer : (m.file, m.cOf) ∈ peers (candsOf e owner d) n c := by
    simp only [peers, List.mem_filter, Bool.and_eq_true, bne_iff_ne, ne_eq, beq_iff_eq]
    refine ⟨hmc, ⟨⟨hne, hkt.1⟩, hkt.2⟩, ?_⟩
    simp only [Mod.cOf]; omega
  exact hpeers (m.file, m.cOf) hpeer hml

theorem ordOk_nil {e : Env} {owner : Nat} {d : Dir} :
    ∀ {ms : List Mod}, (∀ m ∈ ms, candOf (candsOf e owner d) m.file = some m.cOf) →
      (ms.map Mod.static).Pairwise (fun a b => Tie.cmpF a b ≤ 0) →
      ordOk (candOf (candsOf e owner d)) (ms.map (·.file)) = [] := by
  intro ms
  induction ms with
  | nil => intro _ _; simp [ordOk]
  | cons a rest ih =>
    intro hc hs
    cases rest with
    | nil => simp [ordOk]
    | cons b r =>
      simp only [List.map_cons, ordOk]
      rw [hc a (by simp), hc b (by simp)]
      simp only [List.map_cons, List.pairwise_cons] at hs
      have hab := hs.1 b.static (by simp)
      rw [Tie.cmpF_le_iff] at hab
      have hnb : before b.cOf a.cOf = false := by
        cases hb : before b.cOf a.cOf with
        | false => rfl
        | true =>
          exfalso
          simp [before, Mod.cOf] at hb
          unfold Tie.le3 at hab
          simp only [Mod.static] at hab
          have hsw := strcmp_swap a.name b.name
          rcases hb with hb | ⟨hb1, hb2⟩
          · rcases hab with h1 | ⟨h1, _⟩ <;> omega
          · have hb2' := of_decide_eq_true hb2
            rcases hab with h1 | ⟨_, h2 | ⟨h2, _⟩⟩ <;> omega
      simp only [hnb, Bool.false_eq_true, if_false, List.nil_append]
      have := ih (fun m hm => hc m (by simp [hm])) (by simpa using hs.2)
      simpa using this

end PdshVerif.Mod
