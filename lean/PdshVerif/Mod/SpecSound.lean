/-
  The model of the code as it is now (`Tie.loadAllPF`: personality first, ties broken) satisfies
  every clause of the specification (Mod/Spec.lean) at once.  Helper lemmas; the theorem itself is
  `spec_sound` in Props/C17.lean.

  Part 1: the notions of the specification (written from the property text) against those of the
  model (written from mod.c).
-/
import PdshVerif.Mod.TieLemmas
import PdshVerif.Mod.Spec

namespace PdshVerif.Mod
open PdshVerif.Mod.Spec

/-- what an observer sees of a model run, for the option characters `letters` -/
def obsOf (r : Result) (letters : List Char) : Obs :=
  ⟨r.fatal, r.mods.map (fun m => (m.file, m.active)), r.calls, r.opened,
   letters.map (fun c => (c, optUse r c))⟩

theorem dirFor_eq (e : Env) : dirFor e = chooseDir e := by
  unfold dirFor chooseDir
  cases e.envDir with
  | none => simp
  | some d => simp

theorem chooseDir_persFirst (e : Env) :
    chooseDir (persFirstEnv e) = persFirstDir e.pers (chooseDir e) := by
  unfold chooseDir persFirstEnv
  cases e.envDir with
  | none => simp
  | some d =>
    simp only [Option.map_some]
    split <;> rfl

theorem ancestorOk_some (e : Env) (owner : Nat) (st : FStat) :
    ancestorOk e owner (some st) = dirOk e.uid owner st := by
  simp only [ancestorOk, dirOk, trusted, ownerOk, worldWritable, sticky]
  cases isDir st.mode <;> cases (st.uid == 0 || st.uid == e.uid || st.uid == owner) <;>
    cases (st.mode &&& S_IWOTH != 0) <;> cases h : (st.mode &&& S_ISVTX == 0) <;>
    simp [bne, h]

theorem pathOk_eq_all (e : Env) (owner : Nat) (p : List (Option FStat)) :
    pathOk e.uid owner p = p.all (ancestorOk e owner) := by
  induction p with
  | nil => simp [pathOk]
  | cons x rest ih =>
    cases x with
    | none => simp [pathOk, ancestorOk]
    | some st => simp [pathOk, ancestorOk_some, ih]

theorem fileSecure_eq (e : Env) (owner : Nat) (f : File) :
    Spec.fileSecure e owner f = secure e.uid owner f := by
  unfold Spec.fileSecure secure
  cases f.st with
  | none => rfl
  | some st =>
    simp only [fileOk, trusted, ownerOk, worldWritable]
    cases isReg st.mode <;> cases (st.uid == 0 || st.uid == e.uid || st.uid == owner) <;>
      cases h : (st.mode &&& S_IWOTH == 0) <;> simp [bne, h]

/-- the module the model registers for a file is the specification's candidate for it -/
def modOf (fname : Str) (c : Cand) : Mod := ⟨fname, c.1, c.2.1, c.2.2.1, c.2.2.2, false⟩

theorem cand_eq_candidate (e : Env) (owner : Nat) (f : File) :
    cand e.uid owner e.pers (persFirstFile e.pers f) = (candidate e owner f).map (modOf f.fname) := by
  unfold cand candidate
  rw [secure_persFirst, fileSecure_eq, fname_persFirst]
  by_cases hs : secure e.uid owner f = true
  · simp only [hs, if_true]
    cases hobj : f.obj with
    | noload => rw [obj_persFirst_other e.pers f (by intro d; rw [hobj]; simp), hobj]; rfl
    | noinfo => rw [obj_persFirst_other e.pers f (by intro d; rw [hobj]; simp), hobj]; rfl
    | mod d =>
      rw [obj_persFirst_mod e.pers f d hobj]
      simp only [persFirstDesc]
      by_cases hp : d.pers &&& e.pers = 0
      · simp only [hp, if_true]
        cases d.type <;> cases d.name <;> simp
      · simp only [hp, if_false]
        cases d.type <;> cases d.name <;> simp [hp, modOf]
  · simp [hs]
/-! Part 2: the candidate table of the specification, looked up by file name -/

theorem candsOf_fst (e : Env) (owner : Nat) (files : List File) :
    ((files.filterMap fun f => (candidate e owner f).map fun c => (f.fname, c)).map (·.1)) =
      (files.filter fun f => (candidate e owner f).isSome).map (·.fname) := by
  induction files with
  | nil => rfl
  | cons f rest ih =>
    cases hc : candidate e owner f with
    | none => simp [List.filterMap_cons, hc, ih]
    | some c => simp [List.filterMap_cons, hc, ih]

theorem candsOf_nodup (e : Env) (owner : Nat) (d : Dir) (hn : (d.files.map (·.fname)).Nodup) :
    ((candsOf e owner d).map (·.1)).Nodup := by
  unfold candsOf
  rw [candsOf_fst]
  exact List.Nodup.sublist ((List.filter_sublist).map _) hn

theorem mem_candsOf (e : Env) (owner : Nat) (d : Dir) (n : Str) (c : Cand) :
    (n, c) ∈ candsOf e owner d ↔ ∃ f ∈ d.files, f.fname = n ∧ candidate e owner f = some c := by
  unfold candsOf
  simp only [List.mem_filterMap, Option.map_eq_some_iff, Prod.mk.injEq]
  constructor
  · rintro ⟨f, hf, c', hc', hn, hcc⟩
    exact ⟨f, hf, hn, by rw [hc', hcc]⟩
  · rintro ⟨f, hf, hn, hc⟩
    exact ⟨f, hf, c, hc, hn, rfl⟩

theorem candOf_of_mem {cands : List (Str × Cand)} (hn : (cands.map (·.1)).Nodup) {n : Str} {c : Cand}
    (h : (n, c) ∈ cands) : candOf cands n = some c := by
  unfold candOf
  induction cands with
  | nil => simp at h
  | cons x rest ih =>
    simp only [List.map_cons, List.nodup_cons, List.mem_map, not_exists, not_and] at hn
    simp only [List.mem_cons] at h
    rcases h with h | h
    · subst h; simp [List.find?_cons]
    · have hne : ¬ x.1 = n := fun e => hn.1 (n, c) h (by simp [e])
      have : (x.1 == n) = false := by simpa using hne
      simp only [List.find?_cons, this]
      exact ih hn.2 h

theorem candOf_some {cands : List (Str × Cand)} {n : Str} {c : Cand} (h : candOf cands n = some c) :
    (n, c) ∈ cands := by
  unfold candOf at h
  simp only [Option.map_eq_some_iff] at h
  obtain ⟨x, hx, hc⟩ := h
  have h1 := List.mem_of_find?_eq_some hx
  have h2 := List.find?_some hx
  simp only [beq_iff_eq] at h2
  cases x with
  | mk a b => simp only at h2 hc; subst h2; subst hc; exact h1

theorem candOf_file (e : Env) (owner : Nat) (d : Dir) (hn : (d.files.map (·.fname)).Nodup) (f : File)
    (hf : f ∈ d.files) : candOf (candsOf e owner d) f.fname = candidate e owner f := by
  cases hc : candidate e owner f with
  | some c => exact candOf_of_mem (candsOf_nodup e owner d hn) ((mem_candsOf e owner d _ c).mpr ⟨f, hf, rfl, hc⟩)
  | none =>
    cases h : candOf (candsOf e owner d) f.fname with
    | none => rfl
    | some c =>
      obtain ⟨g, hg, hgn, hgc⟩ := (mem_candsOf e owner d _ c).mp (candOf_some h)
      have : g = f := eq_of_nodup_map (·.fname) hn g hg f hf hgn
      subst this; rw [hc] at hgc; cases hgc

/-! Part 3: the security clauses -/

theorem find_by_fname {files : List File} (hn : (files.map (·.fname)).Nodup) {f : File} (hf : f ∈ files) :
    files.find? (·.fname == f.fname) = some f := by
  induction files with
  | nil => simp at hf
  | cons x rest ih =>
    simp only [List.map_cons, List.nodup_cons, List.mem_map, not_exists, not_and] at hn
    simp only [List.mem_cons] at hf
    rcases hf with hf | hf
    · subst hf; simp [List.find?_cons]
    · have hne : ¬ x.fname = f.fname := fun e => hn.1 f hf e.symm
      have : (x.fname == f.fname) = false := by simpa using hne
      simp only [List.find?_cons, this]
      exact ih hn.2 hf

/-- the dlopen log of the model: the secure files, under their names (the rewriting keeps both) -/
theorem opened_persFirst (uid owner pers : Nat) (files : List File) :
    ((files.map (persFirstFile pers)).filter (secure uid owner)).map (·.fname) =
      (files.filter (secure uid owner)).map (·.fname) := by
  induction files with
  | nil => rfl
  | cons f rest ih =>
    simp only [List.map_cons, List.filter_cons, secure_persFirst]
    split
    · simp [fname_persFirst, ih]
    · exact ih

theorem clause1_nil (e : Env) (owner : Nat) (d : Dir) (o : Obs)
    (hop : o.opened = (d.files.filter (secure e.uid owner)).map (·.fname)) : clause1 d o = [] := by
  unfold clause1
  simp only [List.map_eq_nil_iff, List.filter_eq_nil_iff, hop, List.mem_map, List.mem_filter]
  rintro n ⟨f, ⟨hf, _⟩, rfl⟩
  simp only [Bool.not_eq_true', Bool.not_eq_false, List.any_eq_true, beq_iff_eq]
  exact ⟨f, hf, rfl⟩

theorem clause3_nil (e : Env) (owner : Nat) (d : Dir) (o : Obs) (hn : (d.files.map (·.fname)).Nodup)
    (hop : o.opened = (d.files.filter (secure e.uid owner)).map (·.fname)) : clause3 e owner d o = [] := by
  unfold clause3
  simp only [List.map_eq_nil_iff, List.filter_eq_nil_iff, hop, List.mem_map, List.mem_filter]
  rintro n ⟨f, ⟨hf, hs⟩, rfl⟩
  rw [find_by_fname hn hf]
  simp [fileSecure_eq, hs]

theorem clause3b_nil (e : Env) (owner : Nat) (d : Dir) (o : Obs)
    (hop : o.opened = (d.files.filter (secure e.uid owner)).map (·.fname)) : clause3b e owner d o = [] := by
  unfold clause3b
  simp only [List.map_eq_nil_iff, List.filter_eq_nil_iff, List.mem_filter, hop]
  rintro f ⟨hf, hs⟩
  rw [fileSecure_eq] at hs
  simp only [Bool.not_eq_true', Bool.not_eq_false, List.contains_eq_mem, List.mem_map, List.mem_filter,
    decide_eq_true_eq]
  exact ⟨f, ⟨hf, hs⟩, rfl⟩
/-! Part 4: what is known about the module list of a run that goes through -/

def Mod.cOf (m : Mod) : Cand := (m.type, m.name, m.prio, m.d)

theorem static_key (m : Mod) : m.static.key = m.key := rfl

theorem map_static_of_inactive {l : List Mod} (h : ∀ m ∈ l, m.active = false) : l.map Mod.static = l := by
  induction l with
  | nil => rfl
  | cons m r ih =>
    have hm := h m (by simp)
    have : m.static = m := by cases m; simp only [Mod.static] at *; simp [hm]
    simp [this, ih (fun x hx => h x (by simp [hx]))]

/-- the facts about the listed modules `ms` the clauses need -/
structure Listed (e : Env) (owner : Nat) (d : Dir) (ms : List Mod) : Prop where
  hn     : (d.files.map (·.fname)).Nodup
  src    : ∀ m ∈ ms, ∃ f ∈ d.files, ∃ c, candidate e owner f = some c ∧ m.static = modOf f.fname c
  cover  : ∀ f ∈ d.files, ∀ c, candidate e owner f = some c →
             ∃ m ∈ ms, m.key = (modOf f.fname c).key ∧ ¬ Beats.rel Tie.beats (modOf f.fname c) m.static
  keys   : (ms.map Mod.key).Nodup
  sorted : (ms.map Mod.static).Pairwise (fun a b => Tie.cmpF a b ≤ 0)

theorem Listed.candOf {e : Env} {owner : Nat} {d : Dir} {ms : List Mod} (h : Listed e owner d ms)
    {m : Mod} (hm : m ∈ ms) : candOf (candsOf e owner d) m.file = some m.cOf := by
  obtain ⟨f, hf, c, hc, hs⟩ := h.src m hm
  have hfile : m.file = f.fname := by
    have := congrArg Mod.file hs; simpa [Mod.static, modOf] using this
  rw [hfile, candOf_file e owner d h.hn f hf, hc]
  have h1 := congrArg Mod.type hs
  have h2 := congrArg Mod.name hs
  have h3 := congrArg Mod.prio hs
  have h4 := congrArg Mod.d hs
  simp only [Mod.static, modOf] at h1 h2 h3 h4
  cases c with
  | mk t r => cases r with
    | mk n r2 => cases r2 with
      | mk p dd => simp only at h1 h2 h3 h4; simp [Mod.cOf, h1, h2, h3, h4]

theorem Listed.eq_of_key {e : Env} {owner : Nat} {d : Dir} {ms : List Mod} (h : Listed e owner d ms)
    {a b : Mod} (ha : a ∈ ms) (hb : b ∈ ms) (hk : a.key = b.key) : a = b :=
  key_unique h.keys ha hb hk

theorem Listed.eq_of_file {e : Env} {owner : Nat} {d : Dir} {ms : List Mod} (h : Listed e owner d ms)
    {a b : Mod} (ha : a ∈ ms) (hb : b ∈ ms) (hf : a.file = b.file) : a = b := by
  have h1 := h.candOf ha
  have h2 := h.candOf hb
  rw [hf, h2] at h1
  have : b.cOf = a.cOf := Option.some.inj h1
  apply h.eq_of_key ha hb
  have e1 := congrArg (fun c : Cand => c.1) this
  have e2 := congrArg (fun c : Cand => c.2.1) this
  simp only [Mod.cOf] at e1 e2
  simp [Mod.key, e1, e2]

theorem Listed.files_nodup {e : Env} {owner : Nat} {d : Dir} {ms : List Mod} (h : Listed e owner d ms) :
    (ms.map (·.file)).Nodup :=
  nodup_map_of_inj_on _ (nodup_of_nodup_map Mod.key h.keys) (fun _ ha _ hb => h.eq_of_file ha hb)

theorem mem_listed {ms : List Mod} {n : Str} (h : n ∈ ms.map (·.file)) : ∃ m ∈ ms, m.file = n := by
  simpa [List.mem_map] using h

/-- the candidate entry of a listed file is that of its module -/
theorem Listed.cand_of_listed {e : Env} {owner : Nat} {d : Dir} {ms : List Mod} (h : Listed e owner d ms)
    {m : Mod} (hm : m ∈ ms) {c : Cand} (hc : (m.file, c) ∈ candsOf e owner d) : c = m.cOf := by
  have h1 := candOf_of_mem (candsOf_nodup e owner d h.hn) hc
  rw [h.candOf hm] at h1
  exact (Option.some.inj h1).symm

theorem clause4_nil {e : Env} {owner : Nat} {d : Dir} {ms : List Mod} (h : Listed e owner d ms) :
    clause4 (candsOf e owner d) (ms.map (·.file)) = [] := by
  unfold clause4
  simp only [List.map_eq_nil_iff, List.filter_eq_nil_iff]
  intro n hn
  obtain ⟨m, hm, rfl⟩ := mem_listed hn
  simp [h.candOf hm]

theorem filter_length_le_one {α : Type} (p : α → Bool) (a : α) :
    ∀ (l : List α), l.Nodup → (∀ x ∈ l, p x = true → x = a) → (l.filter p).length ≤ 1 := by
  intro l
  induction l with
  | nil => intro _ _; simp
  | cons x r ih =>
    intro hnd hall
    simp only [List.nodup_cons] at hnd
    have hr := ih hnd.2 (fun y hy => hall y (by simp [hy]))
    by_cases hp : p x = true
    · have hx : x = a := hall x (by simp) hp
      have : r.filter p = [] := by
        simp only [List.filter_eq_nil_iff]
        intro y hy hpy
        have := hall y (by simp [hy]) hpy
        rw [this, ← hx] at hy
        exact hnd.1 hy
      simp [List.filter_cons, hp, this]
    · simp only [List.filter_cons, hp]
      simpa using hr

theorem clause4b_nil {e : Env} {owner : Nat} {d : Dir} {ms : List Mod} (h : Listed e owner d ms) :
    clause4b (candsOf e owner d) (ms.map (·.file)) = [] := by
  unfold clause4b
  simp only [List.map_eq_nil_iff, List.filter_eq_nil_iff]
  intro n hn
  obtain ⟨m, hm, rfl⟩ := mem_listed hn
  rw [h.candOf hm]
  simp only [decide_eq_true_eq, Nat.not_lt]
  apply filter_length_le_one _ m.file _ h.files_nodup
  intro g hg hp
  obtain ⟨m', hm', rfl⟩ := mem_listed hg
  rw [h.candOf hm'] at hp
  simp only [Mod.cOf, Bool.and_eq_true, beq_iff_eq] at hp
  have : m' = m := h.eq_of_key hm' hm (by simp [Mod.key, hp.1, hp.2])
  rw [this]

theorem clause5_nil {e : Env} {owner : Nat} {d : Dir} {ms : List Mod} (h : Listed e owner d ms) :
    clause5 (candsOf e owner d) (ms.map (·.file)) = [] := by
  unfold clause5
  simp only [List.map_eq_nil_iff, List.filter_eq_nil_iff]
  rintro ⟨n, c⟩ hx hcond
  simp only [Bool.and_eq_true, List.contains_eq_mem, decide_eq_true_eq, Bool.not_eq_true',
    List.isEmpty_eq_false_iff_exists_mem] at hcond
  obtain ⟨hlisted, ⟨n', c'⟩, hy⟩ := hcond
  obtain ⟨m, hm, hmf⟩ := mem_listed hlisted
  subst hmf
  have hc : c = m.cOf := h.cand_of_listed hm hx
  subst hc
  simp only [better, List.mem_filter, Bool.and_eq_true, beq_iff_eq, decide_eq_true_eq] at hy
  obtain ⟨hy1, ⟨ht, hnm⟩, hpr⟩ := hy
  obtain ⟨g, hg, _, hgc⟩ := (mem_candsOf e owner d n' c').mp hy1
  obtain ⟨m', hm', hk, hnb⟩ := h.cover g hg c' hgc
  have : m' = m := h.eq_of_key hm' hm (by
    rw [hk]; simp only [Mod.cOf] at ht hnm; simp [Mod.key, modOf, ht, hnm])
  subst this
  apply hnb
  rw [Tie.rel_iff]
  left
  simp only [Mod.cOf] at hpr
  simpa [modOf, Mod.static] using hpr

theorem clause5b_nil {e : Env} {owner : Nat} {d : Dir} {ms : List Mod} (h : Listed e owner d ms) :
    clause5b (candsOf e owner d) (ms.map (·.file)) = [] := by
  unfold clause5b
  simp only [List.map_eq_nil_iff, List.filter_eq_nil_iff]
  rintro ⟨n, c⟩ hx hcond
  simp only [Bool.and_eq_true, Bool.not_eq_true', List.contains_eq_mem, decide_eq_false_iff_not,
    List.isEmpty_iff, List.any_eq_false, decide_eq_true_eq] at hcond
  obtain ⟨⟨hnl, hbetter⟩, hpeers⟩ := hcond
  obtain ⟨g, hg, hgn, hgc⟩ := (mem_candsOf e owner d n c).mp hx
  obtain ⟨m, hm, hk, hnb⟩ := h.cover g hg c hgc
  have hmc : (m.file, m.cOf) ∈ candsOf e owner d := candOf_some (h.candOf hm)
  have hml : m.file ∈ ms.map (·.file) := by simp only [List.mem_map]; exact ⟨m, hm, rfl⟩
  have hne : m.file ≠ n := fun e => hnl (e ▸ hml)
  have hkt : m.type = c.1 ∧ m.name = c.2.1 := by
    have e1 := congrArg Prod.fst hk
    have e2 := congrArg Prod.snd hk
    simpa [Mod.key, modOf] using And.intro e1 e2
  -- priorities: m does not lose to c, and nothing better than c exists
  have hle : c.2.2.1 ≤ m.prio := by
    rw [Tie.rel_iff] at hnb
    have : ¬ (modOf g.fname c).prio > m.static.prio := fun x => hnb (Or.inl x)
    simp only [modOf, Mod.static] at this
    omega
  have hge : ¬ m.prio > c.2.2.1 := by
    intro hgt
    have : (m.file, m.cOf) ∈ better (candsOf e owner d) c := by
      simp only [better, List.mem_filter, Bool.and_eq_true, beq_iff_eq, decide_eq_true_eq]
      exact ⟨hmc, ⟨hkt.1, hkt.2⟩, hgt⟩
    rw [hbetter] at this
    simp at this
  have hpeer : (m.file, m.cOf) ∈ peers (candsOf e owner d) n c := by
    simp only [peers, List.mem_filter, Bool.and_eq_true, bne_iff_ne, ne_eq, beq_iff_eq]
    refine ⟨hmc, ⟨⟨hne, hkt.1⟩, hkt.2⟩, ?_⟩
    simp only [Mod.cOf]; omega
  exact hpeers (m.file, m.cOf) hpeer hml

theorem ordOk_nil {e : Env} {owner : Nat} {d : Dir} :
    ∀ {ms : List Mod}, (∀ m ∈ ms, candOf (candsOf e owner d) m.file = some m.cOf) →
      (ms.map Mod.static).Pairwise (fun a b => Tie.cmpF a b ≤ 0) →
      ordOk (candOf (candsOf e owner d)) (ms.map (·.file)) = [] := by
  intro ms
  induction ms with
  | nil => intro _ _; simp [ordOk]
  | cons a rest ih =>
    intro hc hs
    cases rest with
    | nil => simp [ordOk]
    | cons b r =>
      simp only [List.map_cons, ordOk]
      rw [hc a (by simp), hc b (by simp)]
      simp only [List.map_cons, List.pairwise_cons] at hs
      have hab := hs.1 b.static (by simp)
      rw [Tie.cmpF_le_iff] at hab
      have hnb : before b.cOf a.cOf = false := by
        cases hb : before b.cOf a.cOf with
        | false => rfl
        | true =>
          exfalso
          simp [before, Mod.cOf] at hb
          unfold Tie.le3 at hab
          simp only [Mod.static] at hab
          have hsw := strcmp_swap a.name b.name
          rcases hb with hb | ⟨hb1, hb2⟩
          · rcases hab with h1 | ⟨h1, _⟩ <;> omega
          · have hb2' := of_decide_eq_true hb2
            rcases hab with h1 | ⟨_, h2 | ⟨h2, _⟩⟩ <;> omega
      simp only [hnb, Bool.false_eq_true, if_false, List.nil_append]
      have := ih (fun m hm => hc m (by simp [hm])) (by simpa using hs.2)
      simpa using this
/-! Part 5: the two initialisation passes as ONE fold over "forced modules, then the list" -/

/-- the effect of _mod_initialize on the registration state (it does not depend on the flag) -/
def stepS (pers : Nat) (s : InitSt) (m : Mod) : InitSt := (initOne pers m s).2

def foldS (pers : Nat) (seq : List Mod) (s : InitSt) : InitSt := seq.foldl (stepS pers) s

theorem stepS_eq (pers : Nat) (s : InitSt) (m : Mod) :
    stepS pers s m =
      match optRegister pers s.opts m.d.opts with
      | none => s
      | some added =>
        ⟨s.opts ++ added, if m.d.init.isSome then s.calls ++ [m.file] else s.calls,
         s.regs ++ [(m.file, added)]⟩ := by
  unfold stepS initOne
  cases optRegister pers s.opts m.d.opts with
  | none => rfl
  | some added =>
    simp only
    cases m.d.init with
    | none => rfl
    | some ok => cases ok <;> rfl

theorem stepS_static (pers : Nat) (s : InitSt) {m m' : Mod} (h : m.static = m'.static) :
    stepS pers s m = stepS pers s m' := by
  have hd : m.d = m'.d := by have := congrArg Mod.d h; simpa [Mod.static] using this
  have hf : m.file = m'.file := by have := congrArg Mod.file h; simpa [Mod.static] using this
  rw [stepS_eq, stepS_eq, hd, hf]

theorem foldS_static (pers : Nat) : ∀ (l l' : List Mod) (s : InitSt), l.map Mod.static = l'.map Mod.static →
    foldS pers l s = foldS pers l' s := by
  intro l
  induction l with
  | nil => intro l' s h; cases l' with
    | nil => rfl
    | cons _ _ => simp at h
  | cons m r ih =>
    intro l' s h
    cases l' with
    | nil => simp at h
    | cons m' r' =>
      simp only [List.map_cons, List.cons.injEq] at h
      simp only [foldS, List.foldl_cons]
      rw [stepS_static pers s h.1]
      exact ih r' _ h.2

theorem initAll_state (pers : Nat) (l : List Mod) (s : InitSt) : (initAll pers l s).2 = foldS pers l s := by
  induction l generalizing s with
  | nil => rfl
  | cons m r ih => simp only [initAll, foldS, List.foldl_cons]; exact ih _

theorem initFirst_state (pers : Nat) (p : Mod → Bool) (l : List Mod) (s : InitSt) :
    (initFirst pers p l s).2 = match l.find? p with
      | some m => stepS pers s m
      | none => s := by
  induction l with
  | nil => rfl
  | cons x r ih =>
    simp only [initFirst, List.find?_cons]
    by_cases hp : p x = true
    · simp [hp, stepS]
    · have hp' : p x = false := by simpa using hp
      simp only [hp', Bool.false_eq_true, if_false]
      exact ih

theorem find?_static (p : Mod → Bool) (hp : ∀ m, p m = p m.static) :
    ∀ (l l' : List Mod), l'.map Mod.static = l.map Mod.static →
      (l'.find? p).map Mod.static = (l.find? p).map Mod.static := by
  intro l
  induction l with
  | nil => intro l' h; cases l' with
    | nil => rfl
    | cons _ _ => simp at h
  | cons m r ih =>
    intro l' h
    cases l' with
    | nil => simp at h
    | cons m' r' =>
      simp only [List.map_cons, List.cons.injEq] at h
      simp only [List.find?_cons]
      have : p m' = p m := by rw [hp m', hp m, h.1]
      rw [this]
      cases p m with
      | true => simp [h.1]
      | false => exact ih r' h.2

theorem isMisc_static (nm : Str) (m : Mod) : isMisc nm m = isMisc nm m.static := rfl

/-- the forced modules: for every name the first `misc` module of that name in the list -/
def forcedMods (l : List Mod) (names : List Str) : List Mod := names.filterMap fun nm => l.find? (isMisc nm)

theorem initByNames_state (pers : Nat) (l0 : List Mod) :
    ∀ (names : List Str) (l' : List Mod) (s : InitSt), l'.map Mod.static = l0.map Mod.static →
      (initByNames pers names l' s).2 = foldS pers (forcedMods l0 names) s := by
  intro names
  induction names with
  | nil => intro l' s _; rfl
  | cons nm rest ih =>
    intro l' s h
    simp only [initByNames]
    rw [ih _ _ (by rw [initFirst_static]; exact h), initFirst_state]
    have hf := find?_static (isMisc nm) (isMisc_static nm) l0 l' h
    simp only [forcedMods, List.filterMap_cons]
    cases h0 : l0.find? (isMisc nm) with
    | none =>
      rw [h0] at hf
      cases h1 : l'.find? (isMisc nm) with
      | none => rfl
      | some x => rw [h1] at hf; simp at hf
    | some m0 =>
      rw [h0] at hf
      cases h1 : l'.find? (isMisc nm) with
      | none => rw [h1] at hf; simp at hf
      | some x =>
        rw [h1] at hf
        simp only [Option.map_some, Option.some.injEq] at hf
        simp only [foldS, List.foldl_cons]
        rw [stepS_static pers s hf]

/-- the final registration state of both passes -/
theorem initPhase_state (pers : Nat) (misc : Option Str) (l0 : List Mod) :
    (initPhase pers misc l0).2 =
      foldS pers (forcedMods l0 (miscNames misc) ++ l0) ⟨baseOpts pers, [], []⟩ := by
  unfold initPhase
  rw [initAll_state, initByNames_state pers l0 _ l0 _ rfl]
  rw [foldS_static pers _ l0 _ (initByNames_static pers _ l0 _)]
  simp [foldS, List.foldl_append]
/-! Part 6: the fold of the model simulates the greedy activation of the specification -/

def Mod.pi (m : Mod) : Str × Desc := (m.file, m.d)

theorem clash_iff (e : Env) (o : Str) (d : Desc) (rows : List OptRow) (h : d.opts = some rows) :
    rowsClash e.pers o rows = (applicable e d).any (o.contains ·) := by
  unfold rowsClash applicable
  rw [h]
  simp only [Option.getD_some, List.any_map, List.any_filter]
  rfl

theorem mem_rowChars_imp (pers : Nat) (rows : List OptRow) (c : Char) (h : c ∈ rowChars pers rows) :
    c ∈ (rows.filter (·.pers &&& pers ≠ 0)).map (·.c) ∨ c = ':' := by
  unfold rowChars at h
  simp only [List.mem_flatMap] at h
  obtain ⟨r, hr, hc⟩ := h
  by_cases hp : r.pers &&& pers ≠ 0
  · rw [if_pos hp] at hc
    by_cases ha : r.hasArg = true
    · simp only [ha, if_true, List.mem_cons, List.mem_nil_iff, or_false] at hc
      rcases hc with hc | hc
      · left; simp only [List.mem_map, List.mem_filter]; exact ⟨r, ⟨hr, by simpa using hp⟩, hc.symm⟩
      · right; exact hc
    · simp only [ha, Bool.false_eq_true, if_false, List.mem_singleton] at hc
      left; simp only [List.mem_map, List.mem_filter]; exact ⟨r, ⟨hr, by simpa using hp⟩, hc.symm⟩
  · rw [if_neg hp] at hc; simp at hc

theorem mem_rowChars_of (pers : Nat) (rows : List OptRow) (c : Char)
    (h : c ∈ (rows.filter (·.pers &&& pers ≠ 0)).map (·.c)) : c ∈ rowChars pers rows := by
  simp only [List.mem_map, List.mem_filter] at h
  obtain ⟨r, ⟨hr, hp⟩, hc⟩ := h
  have hp' : r.pers &&& pers ≠ 0 := by simpa using hp
  unfold rowChars
  simp only [List.mem_flatMap]
  refine ⟨r, hr, ?_⟩
  rw [if_pos hp']
  split <;> simp [hc]

theorem applicable_eq (e : Env) (d : Desc) :
    applicable e d = ((d.opts.getD []).filter (·.pers &&& e.pers ≠ 0)).map (·.c) := rfl

/-- state of the model's fold vs. state of the specification's greedy pass -/
structure Sim (e : Env) (U : List Mod) (s : InitSt) (taken : List Char) (acc : List Str) : Prop where
  opts  : ∀ c, c ∈ s.opts ↔ c ∈ taken
  colon : ':' ∈ taken
  regs  : ∀ f, f ∈ s.regs.map (·.1) ↔ f ∈ acc
  appl  : ∀ a ∈ U, a.file ∈ acc → ∀ c ∈ applicable e a.d, c ∈ taken
  calls : ∀ f ∈ s.calls, f ∈ acc
  ran   : ∀ a ∈ U, a.file ∈ acc → a.d.init.isSome = true → a.file ∈ s.calls
  univ  : ∀ f ∈ acc, ∃ a ∈ U, a.file = f

theorem any_contains_iff (l : List Char) (t : List Char) :
    l.any (t.contains ·) = true ↔ ∃ c ∈ l, c ∈ t := by
  simp [List.any_eq_true]

theorem Sim.step {e : Env} {U : List Mod} (hU : ∀ a ∈ U, ∀ b ∈ U, a.file = b.file → a.d = b.d)
    {s : InitSt} {taken : List Char} {acc : List Str} (h : Sim e U s taken acc) (m : Mod) (hm : m ∈ U) :
    (m.file ∈ acc → Sim e U (stepS e.pers s m) taken acc) ∧
    (m.file ∉ acc → (applicable e m.d).any (taken.contains ·) = true → Sim e U (stepS e.pers s m) taken acc) ∧
    (m.file ∉ acc → (applicable e m.d).any (taken.contains ·) = false →
      Sim e U (stepS e.pers s m) (taken ++ applicable e m.d) (acc ++ [m.file])) := by
  -- the model's clash test is the specification's
  have hsame : (applicable e m.d).any (s.opts.contains ·) = (applicable e m.d).any (taken.contains ·) := by
    apply Bool.eq_iff_iff.mpr
    rw [any_contains_iff, any_contains_iff]
    constructor
    · rintro ⟨c, hc, ho⟩; exact ⟨c, hc, (h.opts c).mp ho⟩
    · rintro ⟨c, hc, ho⟩; exact ⟨c, hc, (h.opts c).mpr ho⟩
  by_cases hany : (applicable e m.d).any (taken.contains ·) = true
  · -- refused as a whole: nothing changes
    have hs : stepS e.pers s m = s := by
      rw [stepS_eq]
      cases hopts : m.d.opts with
      | none =>
        exfalso
        simp [applicable, hopts] at hany
      | some rows =>
        simp only [optRegister]
        rw [clash_iff e s.opts m.d rows hopts, hsame, hany]
        simp
    rw [hs]
    refine ⟨fun _ => h, fun _ _ => h, fun _ hf => ?_⟩
    rw [hany] at hf; cases hf
  · have hany' : (applicable e m.d).any (taken.contains ·) = false := by simpa using hany
    -- registered: everything applicable is appended
    have hreg : optRegister e.pers s.opts m.d.opts = some (rowChars e.pers (m.d.opts.getD [])) := by
      cases hopts : m.d.opts with
      | none => simp [optRegister, rowChars]
      | some rows =>
        simp only [optRegister]
        rw [clash_iff e s.opts m.d rows hopts, hsame, hany']
        simp
    have hs : stepS e.pers s m =
        ⟨s.opts ++ rowChars e.pers (m.d.opts.getD []),
         if m.d.init.isSome then s.calls ++ [m.file] else s.calls,
         s.regs ++ [(m.file, rowChars e.pers (m.d.opts.getD []))]⟩ := by
      rw [stepS_eq, hreg]
    have hA : ∀ c, c ∈ rowChars e.pers (m.d.opts.getD []) → c ∈ applicable e m.d ∨ c = ':' :=
      fun c hc => mem_rowChars_imp e.pers _ c hc
    have hB : ∀ c, c ∈ applicable e m.d → c ∈ rowChars e.pers (m.d.opts.getD []) :=
      fun c hc => mem_rowChars_of e.pers _ c hc
    have hnone : ∀ c ∈ applicable e m.d, c ∉ taken := by
      intro c hc ht
      have : (applicable e m.d).any (taken.contains ·) = true := (any_contains_iff _ _).mpr ⟨c, hc, ht⟩
      rw [hany'] at this; cases this
    have hcalls_sub : ∀ f ∈ (if m.d.init.isSome then s.calls ++ [m.file] else s.calls), f ∈ s.calls ∨ f = m.file := by
      intro f hf
      split at hf
      · simp only [List.mem_append, List.mem_singleton] at hf; exact hf
      · exact Or.inl hf
    have hcalls_sup : ∀ f ∈ s.calls, f ∈ (if m.d.init.isSome then s.calls ++ [m.file] else s.calls) := by
      intro f hf; split <;> simp [hf]
    refine ⟨fun hin => ?_, fun _ hf => ?_, fun hnin _ => ?_⟩
    · -- already active and (necessarily) without applicable options: a second, empty registration
      have hempty : ∀ c, c ∉ applicable e m.d := fun c hc => hnone c hc (h.appl m hm hin c hc)
      rw [hs]
      refine ⟨?_, h.colon, ?_, h.appl, ?_, ?_, h.univ⟩
      · intro c
        simp only [List.mem_append]
        constructor
        · rintro (hc | hc)
          · exact (h.opts c).mp hc
          · rcases hA c hc with h1 | h1
            · exact absurd h1 (hempty c)
            · rw [h1]; exact h.colon
        · intro hc; exact Or.inl ((h.opts c).mpr hc)
      · intro f
        simp only [List.map_append, List.map_cons, List.map_nil, List.mem_append, List.mem_singleton]
        constructor
        · rintro (hf | hf)
          · exact (h.regs f).mp hf
          · rw [hf]; exact hin
        · intro hf; exact Or.inl ((h.regs f).mpr hf)
      · intro f hf
        rcases hcalls_sub f hf with h1 | h1
        · exact h.calls f h1
        · rw [h1]; exact hin
      · intro a ha hacc hi
        exact hcalls_sup _ (h.ran a ha hacc hi)
    · rw [hany'] at hf; cases hf
    · rw [hs]
      refine ⟨?_, by simp [h.colon], ?_, ?_, ?_, ?_, ?_⟩
      · intro c
        simp only [List.mem_append]
        constructor
        · rintro (hc | hc)
          · exact Or.inl ((h.opts c).mp hc)
          · rcases hA c hc with h1 | h1
            · exact Or.inr h1
            · rw [h1]; exact Or.inl h.colon
        · rintro (hc | hc)
          · exact Or.inl ((h.opts c).mpr hc)
          · exact Or.inr (hB c hc)
      · intro f
        simp only [List.map_append, List.map_cons, List.map_nil, List.mem_append, List.mem_singleton]
        constructor
        · rintro (hf | hf)
          · exact Or.inl ((h.regs f).mp hf)
          · exact Or.inr hf
        · rintro (hf | hf)
          · exact Or.inl ((h.regs f).mpr hf)
          · exact Or.inr hf
      · intro a ha hacc c hc
        simp only [List.mem_append, List.mem_singleton] at hacc ⊢
        rcases hacc with hacc | hacc
        · exact Or.inl (h.appl a ha hacc c hc)
        · have : a.d = m.d := hU a ha m hm hacc
          rw [this] at hc
          exact Or.inr hc
      · intro f hf
        simp only [List.mem_append, List.mem_singleton]
        rcases hcalls_sub f hf with h1 | h1
        · exact Or.inl (h.calls f h1)
        · exact Or.inr h1
      · intro a ha hacc hi
        simp only [List.mem_append, List.mem_singleton] at hacc
        rcases hacc with hacc | hacc
        · exact hcalls_sup _ (h.ran a ha hacc hi)
        · have hd : a.d = m.d := hU a ha m hm hacc
          rw [hd] at hi
          rw [hacc]
          simp [hi]
      · intro f hf
        simp only [List.mem_append, List.mem_singleton] at hf
        rcases hf with hf | hf
        · exact h.univ f hf
        · exact ⟨m, hm, hf.symm⟩

/-- the whole pass -/
theorem Sim.fold {e : Env} {U : List Mod} (hU : ∀ a ∈ U, ∀ b ∈ U, a.file = b.file → a.d = b.d) :
    ∀ (seq : List Mod) (s : InitSt) (taken : List Char) (acc : List Str), (∀ m ∈ seq, m ∈ U) →
      Sim e U s taken acc →
      ∃ taken', Sim e U (foldS e.pers seq s) taken' (greedy e (seq.map Mod.pi) taken acc) := by
  intro seq
  induction seq with
  | nil => intro s taken acc _ h; exact ⟨taken, by simpa [foldS, greedy] using h⟩
  | cons m rest ih =>
    intro s taken acc hsub h
    have hm : m ∈ U := hsub m (by simp)
    have hrest : ∀ x ∈ rest, x ∈ U := fun x hx => hsub x (by simp [hx])
    obtain ⟨h1, h2, h3⟩ := h.step hU m hm
    simp only [List.map_cons, Mod.pi, greedy, foldS, List.foldl_cons]
    by_cases hin : m.file ∈ acc
    · have : acc.contains m.file = true := by simpa using hin
      simp only [this, if_true]
      exact ih _ _ _ hrest (h1 hin)
    · have : acc.contains m.file = false := by simpa using hin
      simp only [this, Bool.false_eq_true, if_false]
      by_cases hany : (applicable e m.d).any (taken.contains ·) = true
      · simp only [hany, if_true]
        exact ih _ _ _ hrest (h2 hin hany)
      · have hany' : (applicable e m.d).any (taken.contains ·) = false := by simpa using hany
        simp only [hany', Bool.false_eq_true, if_false]
        exact ih _ _ _ hrest (h3 hin hany')
/-! Part 7: the facts about a run of the current code that goes through -/

/-- everything the clauses need to know about the final state `(ms, s)` of a run over directory `d` -/
structure RunFacts (e : Env) (owner : Nat) (d : Dir) (ms : List Mod) (s : InitSt) : Prop where
  listed : Listed e owner d ms
  inv    : InitInv e.pers (baseOpts e.pers) ms s
  state  : s = foldS e.pers (forcedMods (ms.map Mod.static) (miscNames e.misc) ++ ms.map Mod.static)
             ⟨baseOpts e.pers, [], []⟩

theorem runFacts (e : Env) (owner : Nat) (d : Dir) (hn : (d.files.map (·.fname)).Nodup) :
    let ls := loadFilesG Tie.beats e.uid owner e.pers (d.files.map (persFirstFile e.pers))
    let r := initPhase e.pers e.misc (listSort Tie.cmpF ls.mods)
    RunFacts e owner d r.1 r.2 := by
  intro ls r
  have hyp := regHyp_persFirst e.uid owner e.pers d.files hn
  have inv := regInv_final Tie.beats_ord e.uid owner e.pers _ hyp
  have hperm := listSort_perm Tie.cmpF_totalPre ls.mods
  have hin0 : ∀ m ∈ ls.mods, m.active = false := mods_inactive Tie.beats_ord hyp
  have hin : ∀ m ∈ listSort Tie.cmpF ls.mods, m.active = false := fun m hm => hin0 m (hperm.mem_iff.mp hm)
  have hnd : ((listSort Tie.cmpF ls.mods).map (·.file)).Nodup :=
    (hperm.map _).nodup_iff.mpr (mods_files_nodup Tie.beats_ord hyp)
  have hst : r.1.map Mod.static = listSort Tie.cmpF ls.mods := by
    rw [initPhase_static, map_static_of_inactive hin]
  -- membership both ways between the final list and the registered modules
  have mem1 : ∀ m ∈ r.1, m.static ∈ ls.mods := by
    intro m hm
    have : m.static ∈ r.1.map Mod.static := List.mem_map.mpr ⟨m, hm, rfl⟩
    rw [hst] at this
    exact hperm.mem_iff.mp this
  have mem2 : ∀ m0 ∈ ls.mods, ∃ m ∈ r.1, m.static = m0 := by
    intro m0 hm0
    have : m0 ∈ r.1.map Mod.static := by rw [hst]; exact hperm.mem_iff.mpr hm0
    simpa [List.mem_map] using this
  refine ⟨⟨hn, ?_, ?_, ?_, ?_⟩, initPhase_inv e.pers e.misc _ hnd hin, ?_⟩
  · intro m hm
    obtain ⟨f', hf', hc⟩ := inv.r1 _ (mem1 m hm)
    simp only [List.mem_map] at hf'
    obtain ⟨f, hf, rfl⟩ := hf'
    rw [cand_eq_candidate] at hc
    cases hcc : candidate e owner f with
    | none => rw [hcc] at hc; cases hc
    | some c =>
      rw [hcc] at hc
      exact ⟨f, hf, c, hcc, (Option.some.inj hc).symm⟩
  · intro f hf c hc
    have hc' : cand e.uid owner e.pers (persFirstFile e.pers f) = some (modOf f.fname c) := by
      rw [cand_eq_candidate, hc]; rfl
    obtain ⟨m0, hm0, hk, hnb⟩ := inv.r2 _ (List.mem_map.mpr ⟨f, hf, rfl⟩) _ hc'
    obtain ⟨m, hm, hms⟩ := mem2 m0 hm0
    subst hms
    exact ⟨m, hm, hk, hnb⟩
  · have : r.1.map Mod.key = (r.1.map Mod.static).map Mod.key := by
      simp [List.map_map, Function.comp_def, static_key]
    rw [this, hst]
    exact (hperm.map _).nodup_iff.mpr inv.r3
  · rw [hst]; exact listSort_sorted Tie.cmpF_totalPre ls.mods
  · rw [hst]; exact initPhase_state e.pers e.misc _

/-! Part 8: clause 7 -/

theorem colon_base (pers : Nat) : ':' ∈ baseOpts pers := by
  unfold baseOpts
  simp only [List.mem_append]
  left
  decide

theorem find?_congr_mem {α : Type} (p q : α → Bool) : ∀ (l : List α), (∀ x ∈ l, p x = q x) →
    l.find? p = l.find? q := by
  intro l
  induction l with
  | nil => intro _; rfl
  | cons x r ih =>
    intro h
    simp only [List.find?_cons, h x (by simp)]
    cases q x with
    | true => rfl
    | false => exact ih (fun y hy => h y (by simp [hy]))

theorem filterMap_congr_mem {α β : Type} (f g : α → Option β) : ∀ (l : List α), (∀ x ∈ l, f x = g x) →
    l.filterMap f = l.filterMap g := by
  intro l
  induction l with
  | nil => intro _; rfl
  | cons x r ih =>
    intro h
    simp only [List.filterMap_cons, h x (by simp)]
    rw [ih (fun y hy => h y (by simp [hy]))]

theorem pi_static (m : Mod) : m.static.pi = (m.file, m.d) := rfl

/-- the activation sequence of the specification is the model's: forced modules, then the list -/
theorem seqOf_eq {e : Env} {owner : Nat} {d : Dir} {ms : List Mod} (h : Listed e owner d ms)
    (hmisc : ∀ s, e.misc = some s → splitNames s = splitComma s) :
    seqOf e (candsOf e owner d) (ms.map (·.file)) =
      (forcedMods (ms.map Mod.static) (miscNames e.misc) ++ ms.map Mod.static).map Mod.pi := by
  have hdesc : ∀ m ∈ ms, descOf (candsOf e owner d) m.file = some (m.file, m.d) := by
    intro m hm; simp [descOf, h.candOf hm, Mod.cOf]
  have hnames : specNames e.misc = miscNames e.misc := by
    unfold miscNames specNames
    cases hm : e.misc with
    | none => rfl
    | some s => simp only; exact (hmisc s hm).symm
  unfold seqOf
  rw [hnames, List.map_append]
  congr 1
  · -- forced part, name by name
    unfold forcedMods
    rw [List.map_filterMap]
    apply filterMap_congr_mem
    intro nm _
    rw [List.find?_map, List.find?_map]
    have hq : ∀ m ∈ ms, (isForced (candsOf e owner d) nm ∘ fun x => x.file) m = isMisc nm m := by
      intro m hm
      simp only [Function.comp, isForced, h.candOf hm, Mod.cOf, isMisc]
    rw [find?_congr_mem _ _ ms hq]
    have hcomp : (isMisc nm ∘ Mod.static) = isMisc nm := by funext m; rfl
    rw [hcomp]
    cases hf : ms.find? (isMisc nm) with
    | none => rfl
    | some m =>
      have hm := List.mem_of_find?_eq_some hf
      simp only [Option.map_some, Option.bind_some, hdesc m hm, pi_static]
  · -- the list itself
    rw [List.filterMap_map, List.map_map]
    have : ∀ (l : List Mod), (∀ m ∈ l, m ∈ ms) →
        l.filterMap (descOf (candsOf e owner d) ∘ fun x => x.file) = l.map (Mod.pi ∘ Mod.static) := by
      intro l
      induction l with
      | nil => intro _; rfl
      | cons m r ih =>
        intro hsub
        simp only [List.filterMap_cons, Function.comp, hdesc m (hsub m (by simp)), List.map_cons, pi_static]
        rw [← ih (fun x hx => hsub x (by simp [hx]))]
    exact this ms (fun m hm => hm)

theorem clause7_nil {e : Env} {owner : Nat} {d : Dir} {ms : List Mod} {s : InitSt}
    (hf : RunFacts e owner d ms s) (hmisc : ∀ x, e.misc = some x → splitNames x = splitComma x)
    (o : Obs) (hl : o.listed = ms.map (fun m => (m.file, m.active))) (hc : o.calls = s.calls) :
    clause7 e (candsOf e owner d) o = [] := by
  have h := hf.listed
  have hlf : o.listed.map (·.1) = ms.map (·.file) := by
    rw [hl]; simp [List.map_map, Function.comp_def]
  unfold clause7
  simp only [hlf]
  rw [seqOf_eq h hmisc]
  split
  · rfl
  · rename_i hnf
    -- no module of the list has a failing initialiser
    have hok : ∀ a ∈ ms.map Mod.static, a.d.init ≠ some false := by
      intro a ha hbad
      apply hnf
      simp only [List.any_eq_true]
      exact ⟨a.pi, List.mem_map.mpr ⟨a, List.mem_append.mpr (Or.inr ha), rfl⟩, by simp [Mod.pi, hbad]⟩
    have hU : ∀ a ∈ ms.map Mod.static, ∀ b ∈ ms.map Mod.static, a.file = b.file → a.d = b.d := by
      intro a ha b hb hab
      simp only [List.mem_map] at ha hb
      obtain ⟨a0, ha0, rfl⟩ := ha
      obtain ⟨b0, hb0, rfl⟩ := hb
      have : a0 = b0 := h.eq_of_file ha0 hb0 hab
      rw [this]
    have hsub : ∀ m ∈ forcedMods (ms.map Mod.static) (miscNames e.misc) ++ ms.map Mod.static,
        m ∈ ms.map Mod.static := by
      intro m hm
      simp only [List.mem_append] at hm
      rcases hm with hm | hm
      · simp only [forcedMods, List.mem_filterMap] at hm
        obtain ⟨nm, _, hfind⟩ := hm
        exact List.mem_of_find?_eq_some hfind
      · exact hm
    have h0 : Sim e (ms.map Mod.static) ⟨baseOpts e.pers, [], []⟩ (baseOpts e.pers) [] :=
      ⟨fun c => Iff.rfl, colon_base e.pers, by simp, by simp, by simp, by simp, by simp⟩
    obtain ⟨taken', hsim⟩ := Sim.fold hU _ _ _ _ hsub h0
    rw [← hf.state] at hsim
    generalize greedy e _ (baseOpts e.pers) [] = act at hsim
    -- active  <->  registered  <->  in `act`
    have hact : ∀ m ∈ ms, m.active = act.contains m.file := by
      intro m hm
      apply Bool.eq_iff_iff.mpr
      simp only [List.contains_eq_mem, decide_eq_true_eq]
      rw [← hsim.regs]
      constructor
      · intro ha
        obtain ⟨p, hp, hpf⟩ := hf.inv.act m hm ha
        exact List.mem_map.mpr ⟨p, hp, hpf⟩
      · intro hr
        obtain ⟨p, hp, hpf⟩ := List.mem_map.mp hr
        obtain ⟨m', hm', hm'f, _, hm'a⟩ := hf.inv.regs p hp
        have : m' = m := h.eq_of_file hm' hm (hm'f.trans hpf)
        subst this
        rcases hm'a with ha | hbad
        · exact ha
        · exact absurd hbad (hok m'.static (List.mem_map.mpr ⟨m', hm', rfl⟩))
    simp only [List.append_eq_nil_iff, List.map_eq_nil_iff, List.filter_eq_nil_iff]
    refine ⟨⟨?_, ?_⟩, ?_⟩
    · intro x hx
      rw [hl] at hx
      simp only [List.mem_map] at hx
      obtain ⟨m, hm, rfl⟩ := hx
      simp [hact m hm]
    · intro f hfc
      rw [hc] at hfc
      simp [hsim.calls f hfc]
    · intro f hfa
      obtain ⟨a, ha, haf⟩ := hsim.univ f hfa
      simp only [List.mem_map] at ha
      obtain ⟨m, hm, rfl⟩ := ha
      have hfile : m.file = f := haf
      rw [← hfile, h.candOf hm]
      simp only [Mod.cOf, Bool.and_eq_true, Bool.not_eq_true', not_and, Bool.not_eq_false]
      intro hi
      have hthis : m.file ∈ s.calls :=
        hsim.ran m.static (List.mem_map.mpr ⟨m, hm, rfl⟩) (by rw [← hfile] at hfa; exact hfa) hi
      rw [hc]
      simpa using hthis

/-! Part 9: clause 8 -/

theorem takesArg_of_mem : ∀ (opts : Str) (c : Char), c ∈ opts → ∃ a, takesArg opts c = some a := by
  intro opts
  induction opts with
  | nil => intro c h; simp at h
  | cons x rest ih =>
    intro c h
    simp only [takesArg]
    by_cases hx : x = c
    · simp [hx]
    · simp only [hx, if_false]
      simp only [List.mem_cons] at h
      rcases h with h | h
      · exact absurd h.symm hx
      · exact ih c h

theorem optUse_handled (r : Result) (c : Char) (f : Str) (a : Bool) (h : optUse r c = .handled f a) :
    ∃ m ∈ r.mods, m.file = f ∧ m.active = true ∧ ∃ row ∈ m.d.opts.getD [], row.c = c := by
  unfold optUse at h
  split at h
  · simp at h
  · split at h
    · rename_i m hf
      simp only [OptUse.handled.injEq] at h
      have hm := List.mem_of_find?_eq_some hf
      have hp := List.find?_some hf
      simp only [Bool.and_eq_true, List.any_eq_true, beq_iff_eq] at hp
      obtain ⟨row, hrow, hc⟩ := hp.2
      exact ⟨m, hm, h.1, hp.1, row, hrow, hc⟩
    · simp at h

theorem clause8_nil {e : Env} {owner : Nat} {d : Dir} {ms : List Mod} {s : InitSt}
    (hf : RunFacts e owner d ms s) (r : Result) (hrm : r.mods = ms) (hro : r.opts = s.opts)
    (o : Obs) (hl : o.listed = ms.map (fun m => (m.file, m.active)))
    (letters : List Char) (hu : o.uses = letters.map (fun c => (c, optUse r c))) :
    clause8 e (candsOf e owner d) o = [] := by
  have h := hf.listed
  have hactive : ∀ f, f ∈ activeFiles o ↔ ∃ m ∈ ms, m.file = f ∧ m.active = true := by
    intro f
    unfold activeFiles
    rw [hl]
    simp only [List.mem_map, List.mem_filter]
    constructor
    · rintro ⟨x, ⟨⟨m, hm, rfl⟩, ha⟩, rfl⟩; exact ⟨m, hm, rfl, ha⟩
    · rintro ⟨m, hm, rfl, ha⟩; exact ⟨(m.file, m.active), ⟨⟨m, hm, rfl⟩, ha⟩, rfl⟩
  unfold clause8
  simp only [hu, List.flatMap_eq_nil_iff, List.mem_map]
  rintro ⟨c, u⟩ ⟨c0, _, hcu⟩
  simp only [Prod.mk.injEq] at hcu
  obtain ⟨rfl, rfl⟩ := hcu
  -- no active module has the character as an applicable option unless the model hands it over
  have key : (activeFiles o).any (applOf e (candsOf e owner d) · c0) = true →
      ∃ f a, optUse r c0 = .handled f a := by
    intro hany
    simp only [List.any_eq_true] at hany
    obtain ⟨f, hfa, hfc⟩ := hany
    obtain ⟨m, hm, hmf, hma⟩ := (hactive f).mp hfa
    unfold applOf at hfc
    rw [← hmf, h.candOf hm] at hfc
    simp only [Mod.cOf, List.contains_eq_mem, decide_eq_true_eq] at hfc
    -- the character is in the option string
    obtain ⟨p, hp, hpf⟩ := hf.inv.act m hm hma
    obtain ⟨m', hm', hm'f, hpc, _⟩ := hf.inv.regs p hp
    have hmm : m' = m := h.eq_of_file hm' hm (hm'f.trans hpf)
    subst hmm
    have hin : c0 ∈ r.opts := by
      rw [hro, hf.inv.opts]
      simp only [List.mem_append, List.mem_flatMap]
      right
      exact ⟨p, hp, by rw [hpc]; exact mem_rowChars_of e.pers _ c0 hfc⟩
    obtain ⟨a, ha⟩ := takesArg_of_mem r.opts c0 hin
    -- and an active module has it in its table
    have hrow : ∃ row ∈ m'.d.opts.getD [], row.c = c0 := by
      rw [applicable_eq] at hfc
      simp only [List.mem_map, List.mem_filter] at hfc
      obtain ⟨row, ⟨hr, _⟩, hrc⟩ := hfc
      exact ⟨row, hr, hrc⟩
    have hfind : (r.mods.find? fun m => m.active && (m.d.opts.getD []).any (·.c == c0)).isSome = true := by
      rw [List.find?_isSome]
      refine ⟨m', by rw [hrm]; exact hm, ?_⟩
      simp only [hma, Bool.true_and, List.any_eq_true, beq_iff_eq]
      exact hrow
    unfold optUse
    rw [ha]
    simp only
    cases hfd : r.mods.find? fun m => m.active && (m.d.opts.getD []).any (·.c == c0) with
    | none => rw [hfd] at hfind; cases hfind
    | some x => exact ⟨x.file, a, rfl⟩
  cases hou : optUse r c0 with
  | handled f a =>
    obtain ⟨m, hm, hmf, hma, row, hrow, hrc⟩ := optUse_handled r c0 f a hou
    rw [hrm] at hm
    have h1 : (activeFiles o).contains f = true := by
      simp only [List.contains_eq_mem, decide_eq_true_eq]
      exact (hactive f).mpr ⟨m, hm, hmf, hma⟩
    have h2 : hasOpt (candsOf e owner d) f c0 = true := by
      unfold hasOpt
      rw [← hmf, h.candOf hm]
      simp only [Mod.cOf, List.any_eq_true, beq_iff_eq]
      exact ⟨row, hrow, hrc⟩
    simp only [h1, h2, Bool.and_self, if_true]
  | invalid =>
    cases hany : (activeFiles o).any (applOf e (candsOf e owner d) · c0) with
    | false => simp
    | true => obtain ⟨f, a, hh⟩ := key hany; rw [hou] at hh; cases hh
  | nohandler =>
    cases hany : (activeFiles o).any (applOf e (candsOf e owner d) · c0) with
    | false => simp
    | true => obtain ⟨f, a, hh⟩ := key hany; rw [hou] at hh; cases hh
/-! Part 10: all clauses at once -/

theorem candsOf_empty_iff (e : Env) (owner : Nat) (d : Dir) :
    candsOf e owner d = [] ↔ ∀ f ∈ d.files, candidate e owner f = none := by
  unfold candsOf
  simp only [List.filterMap_eq_nil_iff, Option.map_eq_none_iff]

theorem loadAllPF_eq (e : Env) :
    Tie.loadAllPF e = loadDirG Tie.beats Tie.cmpF (persFirstEnv e) (persFirstDir e.pers (chooseDir e)) := by
  unfold Tie.loadAllPF Tie.loadAll Tie.loadDir
  rw [chooseDir_persFirst]

/-- the model of the code as it is satisfies every clause of the specification, for every
    environment, directory (with distinct entry names), -M list (that the plain comma split reads
    like list_split does) and every set of option characters tried -/
theorem check_obsOf_nil (e : Env) (letters : List Char)
    (hn : ((chooseDir e).files.map (·.fname)).Nodup)
    (hmisc : ∀ s, e.misc = some s → splitNames s = splitComma s) :
    check e (obsOf (Tie.loadAllPF e) letters) = [] := by
  rw [loadAllPF_eq]
  have hown : (persFirstEnv e).owner = e.owner := rfl
  have huid : (persFirstEnv e).uid = e.uid := rfl
  have hpers : (persFirstEnv e).pers = e.pers := rfl
  have hmi : (persFirstEnv e).misc = e.misc := rfl
  have hpath : (persFirstDir e.pers (chooseDir e)).path = (chooseDir e).path := rfl
  have hfiles : (persFirstDir e.pers (chooseDir e)).files = (chooseDir e).files.map (persFirstFile e.pers) := rfl
  unfold check
  rw [dirFor_eq]
  cases ho : e.owner with
  | none =>
    rw [loadDir_fatal_owner _ _ _ _ (by rw [hown]; exact ho)]
    simp [obsOf]
  | some owner =>
    simp only
    rw [← pathOk_eq_all]
    cases hp : pathOk e.uid owner (chooseDir e).path with
    | false =>
      rw [loadDir_fatal_path _ _ _ _ owner (by rw [hown]; exact ho) (by rw [huid, hpath]; exact hp)]
      simp [obsOf, clause1]
    | true =>
      simp only [Bool.not_true, Bool.false_eq_true, if_false]
      have hyp := regHyp_persFirst e.uid owner e.pers (chooseDir e).files hn
      have inv := regInv_final Tie.beats_ord e.uid owner e.pers _ hyp
      have hop : (loadFilesG Tie.beats e.uid owner e.pers ((chooseDir e).files.map (persFirstFile e.pers))).opened =
          ((chooseDir e).files.filter (secure e.uid owner)).map (·.fname) := by
        rw [inv.op, opened_persFirst]
      by_cases hc : (loadFilesG Tie.beats e.uid owner e.pers
          ((chooseDir e).files.map (persFirstFile e.pers))).count = 0
      · -- nothing loadable
        have hempty : candsOf e owner (chooseDir e) = [] := by
          rw [candsOf_empty_iff]
          intro f hf
          have := (inv.r5.mp hc) (persFirstFile e.pers f) (List.mem_map.mpr ⟨f, hf, rfl⟩)
          rw [cand_eq_candidate] at this
          cases hcc : candidate e owner f with
          | none => rfl
          | some c => rw [hcc] at this; cases this
        rw [loadDir_fatal_count _ _ _ _ owner (by rw [hown]; exact ho) (by rw [huid, hpath]; exact hp)
          (by rw [huid, hpers, hfiles]; exact hc)]
        simp only [hempty, List.isEmpty_nil, if_true]
        have ho1 : (obsOf ⟨true, [], [], baseOpts (persFirstEnv e).pers,
            (loadFilesG Tie.beats (persFirstEnv e).uid owner (persFirstEnv e).pers
              (persFirstDir e.pers (chooseDir e)).files).opened, []⟩ letters).opened =
            ((chooseDir e).files.filter (secure e.uid owner)).map (·.fname) := hop
        rw [clause1_nil e owner _ _ ho1, clause3_nil e owner _ _ hn ho1, clause3b_nil e owner _ _ ho1]
        simp [obsOf]
      · have hne : (candsOf e owner (chooseDir e)).isEmpty = false := by
          cases hemp : (candsOf e owner (chooseDir e)).isEmpty with
          | false => rfl
          | true =>
            exfalso
            apply hc
            rw [inv.r5]
            intro f' hf'
            simp only [List.mem_map] at hf'
            obtain ⟨f, hf, rfl⟩ := hf'
            rw [cand_eq_candidate]
            have hall := (candsOf_empty_iff e owner (chooseDir e)).mp (List.isEmpty_iff.mp hemp)
            rw [hall f hf]; rfl
        rw [loadDir_ok _ _ _ _ owner (by rw [hown]; exact ho) (by rw [huid, hpath]; exact hp)
          (by rw [huid, hpers, hfiles]; exact hc)]
        simp only [hne, Bool.false_eq_true, if_false]
        have hrf := runFacts e owner (chooseDir e) hn
        simp only at hrf
        -- name the pieces of the final state
        generalize hr : initPhase e.pers e.misc (listSort Tie.cmpF (loadFilesG Tie.beats e.uid owner e.pers
          ((chooseDir e).files.map (persFirstFile e.pers))).mods) = r at hrf
        have hres : initPhase (persFirstEnv e).pers (persFirstEnv e).misc
            (listSort Tie.cmpF (loadFilesG Tie.beats (persFirstEnv e).uid owner (persFirstEnv e).pers
              (persFirstDir e.pers (chooseDir e)).files).mods) = r := hr
        rw [hres]
        have hop' : (loadFilesG Tie.beats (persFirstEnv e).uid owner (persFirstEnv e).pers
            (persFirstDir e.pers (chooseDir e)).files).opened =
            ((chooseDir e).files.filter (secure e.uid owner)).map (·.fname) := hop
        rw [hop']
        generalize hres2 : (⟨false, r.1, r.2.calls, r.2.opts,
          ((chooseDir e).files.filter (secure e.uid owner)).map (·.fname), r.2.regs⟩ : Result) = res
        have hl : (obsOf res letters).listed = r.1.map (fun m => (m.file, m.active)) := by
          rw [← hres2]; rfl
        have hlf : (obsOf res letters).listed.map (·.1) = r.1.map (·.file) := by
          rw [hl]; simp [List.map_map, Function.comp_def]
        have hfat : (obsOf res letters).fatal = false := by rw [← hres2]; rfl
        have hopn : (obsOf res letters).opened =
            ((chooseDir e).files.filter (secure e.uid owner)).map (·.fname) := by rw [← hres2]; rfl
        have hcl : (obsOf res letters).calls = r.2.calls := by rw [← hres2]; rfl
        simp only [hfat, Bool.false_eq_true, if_false, hlf]
        rw [clause1_nil e owner _ _ hopn, clause3_nil e owner _ _ hn hopn, clause3b_nil e owner _ _ hopn,
          clause4_nil hrf.listed, clause4b_nil hrf.listed, clause5_nil hrf.listed, clause5b_nil hrf.listed,
          ordOk_nil (fun m hm => hrf.listed.candOf hm) hrf.listed.sorted,
          clause7_nil hrf hmisc _ hl hcl,
          clause8_nil hrf res (by rw [← hres2]) (by rw [← hres2]) _ hl letters rfl]
        rfl

end PdshVerif.Mod
