/-
  Specification of module loading (property C17) as clauses that are DECIDED on an observed run:
  the case (directory contents, stat results, ids, -M list) plus what was observed of the
  implementation -- exit status, the module list `pdsh -L` prints (file, active flag), the
  initialisers that ran, the files handed to dlopen, and what happened to option characters.

  Written from the property text, not from mod.c: no list surgery, no sorting algorithm, no
  two-pass registration.  Where the text leaves a choice (order among modules with equal priority
  and name; which of two equal-priority duplicates survives; how often an initialiser runs; what a
  failing initialiser does to the options it registered) the implementation's own choice is taken
  from the observation and only checked for admissibility.
-/
import PdshVerif.Mod.Load

namespace PdshVerif.Mod.Spec
open PdshVerif.Mod

/-- what was observed of one run -/
structure Obs where
  fatal  : Bool                       -- exit status 1 without reaching option processing
  listed : List (Str × Bool)          -- (file, active) in `pdsh -L` order
  calls  : List Str                   -- files whose initialiser ran
  opened : List Str                   -- files given to dlopen
  uses   : List (Char × OptUse)       -- option characters tried on the command line
  deriving Repr, Inhabited

inductive Viol where
  | envDirUsed (file : Str)           -- root / set-uid run opened something outside the built-in dir
  | insecurePathLoaded                -- insecure ancestor, yet something was opened or the run went on
  | insecureFileOpened (file : Str)
  | notLoadable (file : Str)          -- listed although not a loadable module of this personality
  | dupListed (file : Str)            -- two listed modules with the same type and name
  | lowerDupListed (file : Str)       -- listed although a loadable duplicate has a higher priority
  | missing (file : Str)              -- loadable, no better duplicate, yet not listed
  | order (file : Str)                -- list not in priority-then-name order
  | active (file : Str) (expected : Bool)
  | initRan (file : Str)              -- initialiser of a module that must stay inactive ran
  | initNotRun (file : Str)
  | optAccepted (c : Char)            -- option of an inactive module accepted / wrong handler
  | optRefused (c : Char)             -- option of an active module not handled by it
  | secureNotOpened (file : Str)      -- a secure regular file was skipped although the path is fine
  deriving Repr, DecidableEq, Inhabited

/-- root and set-uid runs use the built-in directory whatever PDSH_MODULE_DIR says -/
def dirFor (e : Env) : Dir :=
  if e.uid = 0 ∨ e.uid ≠ e.euid then e.builtin else e.envDir.getD e.builtin

def trusted (e : Env) (owner uid : Nat) : Bool := uid == 0 || uid == e.uid || uid == owner

def worldWritable (mode : Nat) : Bool := mode &&& S_IWOTH != 0
def sticky (mode : Nat) : Bool := mode &&& S_ISVTX != 0

/-- an ancestor passes: a directory, trusted owner, not world-writable unless sticky -/
def ancestorOk (e : Env) (owner : Nat) : Option FStat → Bool
  | none => false
  | some st => isDir st.mode && trusted e owner st.uid && (!worldWritable st.mode || sticky st.mode)

/-- a file may be opened: a regular file, trusted owner, not world-writable -/
def fileSecure (e : Env) (owner : Nat) (f : File) : Bool :=
  match f.st with
  | none => false
  | some st => isReg st.mode && trusted e owner st.uid && !worldWritable st.mode

/-- a secure file that is a module of this personality, with its identity -/
def candidate (e : Env) (owner : Nat) (f : File) : Option (Str × Str × Int × Desc) :=
  if fileSecure e owner f then
    match f.obj with
    | .mod d =>
      match d.type, d.name with
      | some t, some n => if d.pers &&& e.pers ≠ 0 then some (t, n, d.prio, d) else none
      | _, _ => none
    | _ => none
  else none

def applicable (e : Env) (d : Desc) : List Char :=
  ((d.opts.getD []).filter (·.pers &&& e.pers ≠ 0)).map (·.c)

/-- strict "comes earlier in priority-then-name order" -/
def before (a b : Str × Str × Int × Desc) : Bool :=
  a.2.2.1 > b.2.2.1 || (a.2.2.1 == b.2.2.1 && strcmp a.2.1 b.2.1 < 0)

/-- plain split at commas, empty pieces dropped (the -M lists of the property's domain contain no
    brackets) -/
def splitComma (s : Str) : List Str :=
  (go s []).filter (· ≠ [])
where
  go : Str → Str → List Str
    | [], cur => [cur.reverse]
    | c :: rest, cur => if c = ',' then cur.reverse :: go rest [] else go rest (c :: cur)

/-- listed in priority-then-name order (equal keys: any order) -/
def ordOk (cand? : Str → Option (Str × Str × Int × Desc)) : List Str → List Viol
  | a :: b :: rest =>
    (match cand? a, cand? b with
     | some ca, some cb => if before cb ca then [Viol.order b] else []
     | _, _ => []) ++ ordOk cand? (b :: rest)
  | _ => []

/-- greedy activation over a sequence of modules: a module any of whose applicable options is taken
    stays inactive as a whole, otherwise all its applicable options become taken.  Returns the files
    activated (passed registration), in order. -/
def greedy (e : Env) : List (Str × Desc) → List Char → List Str → List Str
  | [], _, acc => acc
  | (f, d) :: rest, taken, acc =>
    if acc.contains f then greedy e rest taken acc
    else if (applicable e d).any (taken.contains ·) then greedy e rest taken acc
    else greedy e rest (taken ++ applicable e d) (acc ++ [f])

/-! the clauses, one definition each (`check` below only puts them together) -/

abbrev Cand := Str × Str × Int × Desc          -- (type, name, priority, descriptor)

/-- the loadable modules of a directory with their file names -/
def candsOf (e : Env) (owner : Nat) (dir : Dir) : List (Str × Cand) :=
  dir.files.filterMap fun f => (candidate e owner f).map fun c => (f.fname, c)

def candOf (cands : List (Str × Cand)) (f : Str) : Option Cand := (cands.find? (·.1 == f)).map (·.2)

/-- 1. nothing outside the chosen directory is opened -/
def clause1 (dir : Dir) (o : Obs) : List Viol :=
  (o.opened.filter fun f => !dir.files.any (·.fname == f)).map Viol.envDirUsed

/-- 3. no insecure file is ever opened -/
def clause3 (e : Env) (owner : Nat) (dir : Dir) (o : Obs) : List Viol :=
  (o.opened.filter fun f =>
    match dir.files.find? (·.fname == f) with
    | some fl => !fileSecure e owner fl
    | none => false).map Viol.insecureFileOpened

/-- 3b. every secure one is looked at -/
def clause3b (e : Env) (owner : Nat) (dir : Dir) (o : Obs) : List Viol :=
  ((dir.files.filter (fileSecure e owner ·)).filter
    (fun f => !o.opened.contains f.fname)).map (fun f => Viol.secureNotOpened f.fname)

/-- 4. only loadable modules are listed -/
def clause4 (cands : List (Str × Cand)) (listed : List Str) : List Viol :=
  (listed.filter fun f => (candOf cands f).isNone).map Viol.notLoadable

/-- 4b. no two listed modules with the same type and name -/
def clause4b (cands : List (Str × Cand)) (listed : List Str) : List Viol :=
  (listed.filter fun f =>
    match candOf cands f with
    | some c => (listed.filter fun g =>
        match candOf cands g with
        | some c' => c'.1 == c.1 && c'.2.1 == c.2.1
        | none => false).length > 1
    | none => false).map Viol.dupListed

def better (cands : List (Str × Cand)) (c : Cand) : List (Str × Cand) :=
  cands.filter fun x => x.2.1 == c.1 && x.2.2.1 == c.2.1 && x.2.2.2.1 > c.2.2.1

def peers (cands : List (Str × Cand)) (f : Str) (c : Cand) : List (Str × Cand) :=
  cands.filter fun x => x.1 != f && x.2.1 == c.1 && x.2.2.1 == c.2.1 && x.2.2.2.1 == c.2.2.1

/-- 5. duplicates: the lower priority never -/
def clause5 (cands : List (Str × Cand)) (listed : List Str) : List Viol :=
  (cands.filter fun x => listed.contains x.1 && !(better cands x.2).isEmpty).map
    (fun x => Viol.lowerDupListed x.1)

/-- 5b. ... the best one always (equal priorities: one of them) -/
def clause5b (cands : List (Str × Cand)) (listed : List Str) : List Viol :=
  (cands.filter fun x => !listed.contains x.1 && (better cands x.2).isEmpty &&
    !(peers cands x.1 x.2).any (fun y => listed.contains y.1)).map (fun x => Viol.missing x.1)

def descOf (cands : List (Str × Cand)) (f : Str) : Option (Str × Desc) :=
  (candOf cands f).map fun c => (f, c.2.2.2)

/-- the names given with -M / PDSH_MISC_MODULES -/
def specNames : Option Str → List Str
  | none => []
  | some s => splitComma s

/-- `f` is a listed `misc` module named `nm` -/
def isForced (cands : List (Str × Cand)) (nm : Str) (f : Str) : Bool :=
  match candOf cands f with
  | some c => c.1 == miscType && c.2.1 == nm
  | none => false

/-- the activation sequence: forced modules first (in -M order), then the list order -/
def seqOf (e : Env) (cands : List (Str × Cand)) (listed : List Str) : List (Str × Desc) :=
  ((specNames e.misc).filterMap fun nm => (listed.find? (isForced cands nm)).bind (descOf cands))
  ++ listed.filterMap (descOf cands)

/-- 7. activation -/
def clause7 (e : Env) (cands : List (Str × Cand)) (o : Obs) : List Viol :=
  let seq := seqOf e cands (o.listed.map (·.1))
  let act := greedy e seq (baseOpts e.pers) []
  if seq.any (fun x => x.2.init == some false) then []   -- text silent on failing initialisers
  else
    (o.listed.filter fun x => x.2 != act.contains x.1).map (fun x => Viol.active x.1 (act.contains x.1))
    ++ (o.calls.filter fun f => !act.contains f).map Viol.initRan
    ++ (act.filter fun f =>
          match candOf cands f with
          | some c => c.2.2.2.init.isSome && !o.calls.contains f
          | none => false).map Viol.initNotRun

/-- 8. option characters: handled only by an active module that has them; an applicable option of
    an active module must reach it (unless pdsh itself owns the character) -/
def hasOpt (cands : List (Str × Cand)) (f : Str) (c : Char) : Bool :=
  match candOf cands f with
  | some x => (x.2.2.2.opts.getD []).any (·.c == c)
  | none => false

def applOf (e : Env) (cands : List (Str × Cand)) (f : Str) (c : Char) : Bool :=
  match candOf cands f with
  | some x => (applicable e x.2.2.2).contains c
  | none => false

def activeFiles (o : Obs) : List Str := (o.listed.filter (·.2)).map (·.1)

def clause8 (e : Env) (cands : List (Str × Cand)) (o : Obs) : List Viol :=
  o.uses.flatMap fun (c, u) =>
    match u with
    | .handled f _ => if (activeFiles o).contains f && hasOpt cands f c then [] else [Viol.optAccepted c]
    | _ =>
      if (activeFiles o).any (applOf e cands · c) && !(baseOpts e.pers).contains c then [Viol.optRefused c]
      else []

def check (e : Env) (o : Obs) : List Viol :=
  let dir := dirFor e
  match e.owner with
  | none => if o.opened.isEmpty && o.fatal then [] else [.insecurePathLoaded]
  | some owner =>
    -- 2. insecure path: nothing is opened and the run fails
    if !dir.path.all (ancestorOk e owner) then
      clause1 dir o ++ (if o.opened.isEmpty && o.fatal && o.listed.isEmpty then [] else [.insecurePathLoaded])
    else
      let cands := candsOf e owner dir
      if cands.isEmpty then
        clause1 dir o ++ clause3 e owner dir o ++ clause3b e owner dir o ++
          (if o.fatal && o.listed.isEmpty then [] else [.notLoadable []])
      else if o.fatal then clause1 dir o ++ clause3 e owner dir o ++ clause3b e owner dir o ++ [.missing []]
      else
        let listed := o.listed.map (·.1)
        clause1 dir o ++ clause3 e owner dir o ++ clause3b e owner dir o ++ clause4 cands listed ++
          clause4b cands listed ++ clause5 cands listed ++ clause5b cands listed ++
          ordOk (candOf cands) listed ++ clause7 e cands o ++ clause8 e cands o

end PdshVerif.Mod.Spec
