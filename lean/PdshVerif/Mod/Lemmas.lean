/-
  Helper lemmas for C17 (module loading): what gets opened, the initialisation phase
  (all-or-nothing registration, forced modules first).
-/
import PdshVerif.Mod.Load

namespace PdshVerif.Mod

/-! ### what is handed to dlopen -/

theorem loadObj_opened (pers : Nat) (s : LoadSt) (fname : Str) (obj : Obj) :
    (loadObj pers s fname obj).opened = s.opened ++ [fname] := by
  unfold loadObj
  split <;> rfl

theorem loadFile_opened (uid owner pers : Nat) (s : LoadSt) (f : File) :
    (loadFile uid owner pers s f).opened = s.opened ∨
      ((loadFile uid owner pers s f).opened = s.opened ++ [f.fname] ∧
        ∃ st, f.st = some st ∧ fileOk uid owner st = true) := by
  unfold loadFile
  cases hst : f.st with
  | none => simp
  | some st =>
    by_cases hok : fileOk uid owner st = true
    · right; simp [hok, loadObj_opened]
    · left; simp [hok]

theorem foldl_opened (uid owner pers : Nat) (files : List File) (s : LoadSt) (name : Str)
    (h : name ∈ (files.foldl (loadFile uid owner pers) s).opened) :
    name ∈ s.opened ∨ ∃ f ∈ files, f.fname = name ∧ ∃ st, f.st = some st ∧ fileOk uid owner st = true := by
  induction files generalizing s with
  | nil => left; simpa using h
  | cons f rest ih =>
    simp only [List.foldl_cons] at h
    rcases ih _ h with h1 | ⟨g, hg, hn, hs⟩
    · rcases loadFile_opened uid owner pers s f with e | ⟨e, st, hst, hok⟩
      · rw [e] at h1; exact Or.inl h1
      · rw [e] at h1
        simp only [List.mem_append, List.mem_singleton] at h1
        rcases h1 with h1 | h1
        · exact Or.inl h1
        · exact Or.inr ⟨f, by simp, h1.symm, st, hst, hok⟩
    · exact Or.inr ⟨g, by simp [hg], hn, hs⟩

theorem pathOk_false (uid owner : Nat) (path : List (Option FStat)) (h : pathOk uid owner path = false) :
    ∃ x ∈ path, x = none ∨ ∃ st, x = some st ∧ dirOk uid owner st = false := by
  induction path with
  | nil => simp [pathOk] at h
  | cons x rest ih =>
    cases x with
    | none => exact ⟨none, by simp, Or.inl rfl⟩
    | some st =>
      simp only [pathOk, Bool.and_eq_false_iff] at h
      rcases h with h | h
      · exact ⟨some st, by simp, Or.inr ⟨st, rfl, h⟩⟩
      · obtain ⟨y, hy, hh⟩ := ih h
        exact ⟨y, by simp [hy], hh⟩

theorem pathOk_of_bad (uid owner : Nat) (path : List (Option FStat)) (x : Option FStat) (hx : x ∈ path)
    (hbad : x = none ∨ ∃ st, x = some st ∧ dirOk uid owner st = false) :
    pathOk uid owner path = false := by
  induction path with
  | nil => simp at hx
  | cons y rest ih =>
    simp only [List.mem_cons] at hx
    rcases hx with hx | hx
    · subst hx
      rcases hbad with h | ⟨st, h, hd⟩
      · subst h; simp [pathOk]
      · subst h; simp [pathOk, hd]
    · cases y with
      | none => simp [pathOk]
      | some st => simp [pathOk, ih hx]

theorem eq_of_nodup_map {α β : Type} (f : α → β) : ∀ {l : List α}, (l.map f).Nodup →
    ∀ x ∈ l, ∀ y ∈ l, f x = f y → x = y := by
  intro l
  induction l with
  | nil => intro _ x hx; simp at hx
  | cons a r ih =>
    intro hnd x hx y hy hxy
    simp only [List.map_cons, List.nodup_cons, List.mem_map, not_exists, not_and] at hnd
    simp only [List.mem_cons] at hx hy
    rcases hx with hx | hx <;> rcases hy with hy | hy
    · rw [hx, hy]
    · subst hx; exact absurd hxy.symm (hnd.1 y hy)
    · subst hy; exact absurd hxy (hnd.1 x hx)
    · exact ih hnd.2 x hx y hy hxy

/-! ### the initialisation phase -/

theorem optRegister_some {pers : Nat} {opts : Str} {t : Option (List OptRow)} {added : Str}
    (h : optRegister pers opts t = some added) : added = rowChars pers (t.getD []) := by
  unfold optRegister at h
  cases t with
  | none => simp at h; simp [h.symm, rowChars]
  | some rows =>
    simp only at h
    split at h
    · simp at h
    · simp at h; simp [h.symm]

/-- what _mod_initialize may do to one module and the registration state -/
structure StepOk (pers : Nat) (m m' : Mod) (s s' : InitSt) : Prop where
  file   : m'.file = m.file
  type   : m'.type = m.type
  name   : m'.name = m.name
  prio   : m'.prio = m.prio
  desc   : m'.d = m.d
  mono   : m.active = true → m'.active = true
  /-- either refused as a whole: nothing changes at all -/
  cases  : (s' = s ∧ m' = m ∧ ∃ rows, m.d.opts = some rows ∧ rowsClash pers s.opts rows = true) ∨
           /- or every applicable option is registered -/
           (∃ added, optRegister pers s.opts m.d.opts = some added ∧
              s'.opts = s.opts ++ added ∧ s'.regs = s.regs ++ [(m.file, added)] ∧
              (m'.active = true ∨ m.d.init = some false) ∧
              (s'.calls = s.calls ∨ s'.calls = s.calls ++ [m.file]) ∧
              (m.d.init = none → s'.calls = s.calls) ∧
              (m.d.init ≠ some false → m'.active = true))

theorem initOne_ok (pers : Nat) (m : Mod) (s : InitSt) :
    StepOk pers m (initOne pers m s).1 s (initOne pers m s).2 := by
  unfold initOne
  cases hreg : optRegister pers s.opts m.d.opts with
  | none =>
    simp only
    refine ⟨rfl, rfl, rfl, rfl, rfl, id, Or.inl ⟨rfl, rfl, ?_⟩⟩
    unfold optRegister at hreg
    cases hopts : m.d.opts with
    | none => simp [hopts] at hreg
    | some rows =>
      simp only [hopts] at hreg
      refine ⟨rows, rfl, ?_⟩
      by_cases hc : rowsClash pers s.opts rows = true
      · exact hc
      · simp [hc] at hreg
  | some added =>
    simp only
    cases hinit : m.d.init with
    | none =>
      simp only
      exact ⟨rfl, rfl, rfl, rfl, rfl, fun _ => rfl,
        Or.inr ⟨added, hreg, rfl, rfl, Or.inl rfl, Or.inl rfl, fun _ => rfl, fun _ => rfl⟩⟩
    | some ok =>
      cases ok with
      | true =>
        simp only [if_true]
        exact ⟨rfl, rfl, rfl, rfl, rfl, fun _ => rfl,
          Or.inr ⟨added, hreg, rfl, rfl, Or.inl rfl, Or.inr rfl,
            (fun h => by rw [hinit] at h; cases h), fun _ => rfl⟩⟩
      | false =>
        simp only [Bool.false_eq_true, if_false]
        exact ⟨rfl, rfl, rfl, rfl, rfl, id,
          Or.inr ⟨added, hreg, rfl, rfl, Or.inr hinit, Or.inr rfl,
            (fun h => by rw [hinit] at h; cases h), fun h => absurd hinit h⟩⟩

/-- invariant of the initialisation phase, relating the module list and the registration state -/
structure InitInv (pers : Nat) (base : Str) (l : List Mod) (s : InitSt) : Prop where
  /-- the option string is the base string followed by what the successful registrations appended -/
  opts  : s.opts = base ++ s.regs.flatMap (·.2)
  /-- whoever registered is active now or has a failing initialiser -/
  regs  : ∀ p ∈ s.regs, ∃ m ∈ l, m.file = p.1 ∧ p.2 = rowChars pers (m.d.opts.getD []) ∧
            (m.active = true ∨ m.d.init = some false)
  /-- an initialiser only ran after a successful registration -/
  calls : ∀ f ∈ s.calls, ∃ p ∈ s.regs, p.1 = f
  /-- every active module registered -/
  act   : ∀ m ∈ l, m.active = true → ∃ p ∈ s.regs, p.1 = m.file

/-- one _mod_initialize on a member of the list preserves the invariant (the list has distinct files) -/
theorem InitInv.step {pers : Nat} {base : Str} {pre post : List Mod} {m m' : Mod} {s s' : InitSt}
    (hinv : InitInv pers base (pre ++ m :: post) s) (hstep : StepOk pers m m' s s')
    (hnd : ((pre ++ m :: post).map (·.file)).Nodup) :
    InitInv pers base (pre ++ m' :: post) s' := by
  rcases hstep.cases with ⟨hs, hm, _⟩ | ⟨added, hadded, hopts, hregs, hact, hcalls, _, _⟩
  · subst hs; subst hm; exact hinv
  · -- members other than m are untouched
    have other : ∀ x, x ∈ pre ++ m :: post → x.file ≠ m.file → x ∈ pre ++ m' :: post := by
      intro x hx hne
      simp only [List.mem_append, List.mem_cons] at hx ⊢
      rcases hx with hx | hx | hx
      · exact Or.inl hx
      · subst hx; exact absurd rfl hne
      · exact Or.inr (Or.inr hx)
    refine ⟨?_, ?_, ?_, ?_⟩
    · rw [hopts, hregs, hinv.opts]; simp [List.flatMap_append]
    · intro p hp
      rw [hregs] at hp
      simp only [List.mem_append, List.mem_singleton] at hp
      rcases hp with hp | hp
      · obtain ⟨x, hx, hxf, hxc, hxa⟩ := hinv.regs p hp
        by_cases hne : x.file = m.file
        · -- distinct files: x is m itself
          have hxm : x = m := by
            exact eq_of_nodup_map (·.file) hnd x hx m (by simp) hne
          subst hxm
          refine ⟨m', by simp, hstep.file.trans hxf, by rw [hstep.desc]; exact hxc, ?_⟩
          rcases hxa with ha | hi
          · exact Or.inl (hstep.mono ha)
          · exact Or.inr (by rw [hstep.desc]; exact hi)
        · exact ⟨x, other x hx hne, hxf, hxc, hxa⟩
      · subst hp
        refine ⟨m', by simp, hstep.file, ?_, ?_⟩
        · rw [hstep.desc]; exact optRegister_some hadded
        · rcases hact with ha | hi
          · exact Or.inl ha
          · exact Or.inr (by rw [hstep.desc]; exact hi)
    · intro f hf
      rcases hcalls with hc | hc
      · rw [hc] at hf
        obtain ⟨p, hp, hpf⟩ := hinv.calls f hf
        exact ⟨p, by rw [hregs]; simp [hp], hpf⟩
      · rw [hc] at hf
        simp only [List.mem_append, List.mem_singleton] at hf
        rcases hf with hf | hf
        · obtain ⟨p, hp, hpf⟩ := hinv.calls f hf
          exact ⟨p, by rw [hregs]; simp [hp], hpf⟩
        · exact ⟨(m.file, added), by rw [hregs]; simp, hf.symm⟩
    · intro x hx hxa
      simp only [List.mem_append, List.mem_cons] at hx
      have old : ∀ y, y ∈ pre ++ m :: post → y.active = true → ∃ p ∈ s'.regs, p.1 = y.file := by
        intro y hy hya
        obtain ⟨p, hp, hpf⟩ := hinv.act y hy hya
        exact ⟨p, by rw [hregs]; simp [hp], hpf⟩
      rcases hx with hx | hx | hx
      · exact old x (by simp [hx]) hxa
      · subst hx
        exact ⟨(m.file, added), by rw [hregs]; simp, hstep.file.symm⟩
      · exact old x (by simp [hx]) hxa

/-! lifting to the list walks -/

/-- a module with its run-time flag cleared: what never changes during initialisation -/
def Mod.static (m : Mod) : Mod := { m with active := false }

theorem static_of_step {pers : Nat} {m m' : Mod} {s s' : InitSt} (h : StepOk pers m m' s s') :
    m'.static = m.static := by
  cases m; cases m'
  have h1 := h.file; have h2 := h.type; have h3 := h.name; have h4 := h.prio; have h5 := h.desc
  simp only at h1 h2 h3 h4 h5
  simp [Mod.static, h1, h2, h3, h4, h5]

theorem initFirst_static (pers : Nat) (p : Mod → Bool) (l : List Mod) (s : InitSt) :
    (initFirst pers p l s).1.map Mod.static = l.map Mod.static := by
  induction l with
  | nil => simp [initFirst]
  | cons m rest ih =>
    simp only [initFirst]
    split
    · simp [static_of_step (initOne_ok pers m s)]
    · simp [ih]

theorem initAll_static (pers : Nat) (l : List Mod) (s : InitSt) :
    (initAll pers l s).1.map Mod.static = l.map Mod.static := by
  induction l generalizing s with
  | nil => simp [initAll]
  | cons m rest ih => simp [initAll, static_of_step (initOne_ok pers m s), ih]

theorem initByNames_static (pers : Nat) (names : List Str) (l : List Mod) (s : InitSt) :
    (initByNames pers names l s).1.map Mod.static = l.map Mod.static := by
  induction names generalizing l s with
  | nil => simp [initByNames]
  | cons nm rest ih => simp [initByNames, ih, initFirst_static]

theorem files_of_static {l l' : List Mod} (h : l'.map Mod.static = l.map Mod.static) :
    l'.map (·.file) = l.map (·.file) := by
  have := congrArg (List.map (·.file)) h
  simpa [List.map_map, Function.comp_def, Mod.static] using this

theorem initFirst_inv (pers : Nat) (base : Str) (p : Mod → Bool) :
    ∀ (l pre : List Mod) (s : InitSt), InitInv pers base (pre ++ l) s →
      ((pre ++ l).map (·.file)).Nodup →
      InitInv pers base (pre ++ (initFirst pers p l s).1) (initFirst pers p l s).2 := by
  intro l
  induction l with
  | nil => intro pre s h _; simpa [initFirst] using h
  | cons m rest ih =>
    intro pre s h hnd
    simp only [initFirst]
    split
    · exact InitInv.step h (initOne_ok pers m s) hnd
    · have := ih (pre ++ [m]) s (by simpa using h) (by simpa using hnd)
      simpa using this

theorem initAll_inv (pers : Nat) (base : Str) :
    ∀ (l pre : List Mod) (s : InitSt), InitInv pers base (pre ++ l) s →
      ((pre ++ l).map (·.file)).Nodup →
      InitInv pers base (pre ++ (initAll pers l s).1) (initAll pers l s).2 := by
  intro l
  induction l with
  | nil => intro pre s h _; simpa [initAll] using h
  | cons m rest ih =>
    intro pre s h hnd
    simp only [initAll]
    have h1 := InitInv.step h (initOne_ok pers m s) hnd
    have hf : (initOne pers m s).1.file = m.file := (initOne_ok pers m s).file
    have hnd1 : ((pre ++ (initOne pers m s).1 :: rest).map (·.file)).Nodup := by
      simpa [hf] using hnd
    have := ih (pre ++ [(initOne pers m s).1]) (initOne pers m s).2 (by simpa using h1)
      (by simpa using hnd1)
    simpa using this

theorem initByNames_inv (pers : Nat) (base : Str) :
    ∀ (names : List Str) (l : List Mod) (s : InitSt), InitInv pers base l s →
      (l.map (·.file)).Nodup →
      InitInv pers base (initByNames pers names l s).1 (initByNames pers names l s).2 := by
  intro names
  induction names with
  | nil => intro l s h _; simpa [initByNames] using h
  | cons nm rest ih =>
    intro l s h hnd
    simp only [initByNames]
    have h1 := initFirst_inv pers base (isMisc nm) l [] s (by simpa using h) (by simpa using hnd)
    have hf := files_of_static (initFirst_static pers (isMisc nm) l s)
    exact ih _ _ (by simpa using h1) (by rw [hf]; exact hnd)

theorem initInv_start (pers : Nat) (l : List Mod) (h : ∀ m ∈ l, m.active = false) :
    InitInv pers (baseOpts pers) l ⟨baseOpts pers, [], []⟩ := by
  refine ⟨by simp, by simp, by simp, ?_⟩
  intro m hm ha
  rw [h m hm] at ha; cases ha

/-- the invariant holds after both passes -/
theorem initPhase_inv (pers : Nat) (misc : Option Str) (l : List Mod)
    (hnd : (l.map (·.file)).Nodup) (hin : ∀ m ∈ l, m.active = false) :
    InitInv pers (baseOpts pers) (initPhase pers misc l).1 (initPhase pers misc l).2 := by
  unfold initPhase
  have h1 := initByNames_inv pers (baseOpts pers) (miscNames misc) l _ (initInv_start pers l hin) hnd
  have hf := files_of_static (initByNames_static pers (miscNames misc) l ⟨baseOpts pers, [], []⟩)
  have hnd2 : ((initByNames pers (miscNames misc) l ⟨baseOpts pers, [], []⟩).1.map (·.file)).Nodup := by
    rw [hf]; exact hnd
  have := initAll_inv pers (baseOpts pers) _ [] _ (by simpa using h1) (by simpa using hnd2)
  simpa using this

theorem initPhase_static (pers : Nat) (misc : Option Str) (l : List Mod) :
    (initPhase pers misc l).1.map Mod.static = l.map Mod.static := by
  unfold initPhase
  simp only [initAll_static, initByNames_static]

/-! registrations only accumulate -/

theorem initOne_regs (pers : Nat) (m : Mod) (s : InitSt) :
    ∃ t, (initOne pers m s).2.regs = s.regs ++ t := by
  rcases (initOne_ok pers m s).cases with ⟨h, _, _⟩ | ⟨added, _, _, h, _⟩
  · exact ⟨[], by rw [h]; simp⟩
  · exact ⟨_, h⟩

theorem initFirst_regs (pers : Nat) (p : Mod → Bool) (l : List Mod) (s : InitSt) :
    ∃ t, (initFirst pers p l s).2.regs = s.regs ++ t := by
  induction l with
  | nil => exact ⟨[], by simp [initFirst]⟩
  | cons m rest ih =>
    simp only [initFirst]
    split
    · exact initOne_regs pers m s
    · exact ih

theorem initAll_regs (pers : Nat) (l : List Mod) (s : InitSt) :
    ∃ t, (initAll pers l s).2.regs = s.regs ++ t := by
  induction l generalizing s with
  | nil => exact ⟨[], by simp [initAll]⟩
  | cons m rest ih =>
    simp only [initAll]
    obtain ⟨t1, h1⟩ := initOne_regs pers m s
    obtain ⟨t2, h2⟩ := ih (initOne pers m s).2
    exact ⟨t1 ++ t2, by rw [h2, h1]; simp⟩

theorem initByNames_regs (pers : Nat) (names : List Str) (l : List Mod) (s : InitSt) :
    ∃ t, (initByNames pers names l s).2.regs = s.regs ++ t := by
  induction names generalizing l s with
  | nil => exact ⟨[], by simp [initByNames]⟩
  | cons nm rest ih =>
    simp only [initByNames]
    obtain ⟨t1, h1⟩ := initFirst_regs pers (isMisc nm) l s
    obtain ⟨t2, h2⟩ := ih (initFirst pers (isMisc nm) l s).1 (initFirst pers (isMisc nm) l s).2
    exact ⟨t1 ++ t2, by rw [h2, h1]; simp⟩

/-- list_find_first: the first module satisfying `p` is the one that gets initialised -/
theorem initFirst_found (pers : Nat) (p : Mod → Bool) (l : List Mod) (s : InitSt) (m : Mod)
    (h : l.find? p = some m) : (initFirst pers p l s).2 = (initOne pers m s).2 := by
  induction l with
  | nil => simp at h
  | cons x rest ih =>
    simp only [initFirst]
    by_cases hp : p x = true
    · simp [List.find?_cons, hp] at h
      subst h; simp [hp]
    · simp [List.find?_cons, hp] at h
      simp [hp, ih h]

end PdshVerif.Mod
