/-
  list_sort (src/common/list.c) as modelled by `listSort`: a stable insertion sort.
  For a comparison function that is a total preorder the result is a sorted permutation; with
  pairwise different keys it is THE sorted permutation, whatever the order of the input.
-/
import PdshVerif.Mod.Load

namespace PdshVerif.Mod

/-- what list_sort needs of its comparison function -/
structure TotalPre {α : Type} (cmp : α → α → Int) : Prop where
  anti  : ∀ a b, cmp a b ≥ 0 → cmp b a ≤ 0
  asym  : ∀ a b, cmp a b < 0 → cmp b a > 0
  trans : ∀ a b c, cmp a b ≤ 0 → cmp b c ≤ 0 → cmp a c ≤ 0

def SortedBy {α : Type} (cmp : α → α → Int) (l : List α) : Prop := l.Pairwise fun a b => cmp a b ≤ 0

theorem TotalPre.refl {α : Type} {cmp : α → α → Int} (h : TotalPre cmp) (a : α) : cmp a a ≤ 0 := by
  by_cases h0 : cmp a a ≥ 0
  · exact h.anti a a h0
  · omega

theorem insertBefore_perm {α : Type} (cmp : α → α → Int) (x : α) (l : List α) :
    (insertBefore cmp x l).Perm (x :: l) := by
  induction l with
  | nil => simp [insertBefore]
  | cons y ys ih =>
    simp only [insertBefore]
    split
    · exact (List.Perm.cons y ih).trans (List.Perm.swap x y ys)
    · exact List.Perm.refl _

theorem insertBefore_sorted {α : Type} {cmp : α → α → Int} (h : TotalPre cmp) (x : α) (l : List α)
    (hs : SortedBy cmp l) : SortedBy cmp (insertBefore cmp x l) := by
  induction l with
  | nil => simp [insertBefore, SortedBy]
  | cons y ys ih =>
    simp only [SortedBy, List.pairwise_cons] at hs
    simp only [insertBefore]
    split
    · rename_i hge
      simp only [SortedBy, List.pairwise_cons]
      refine ⟨?_, ih hs.2⟩
      intro z hz
      have := (insertBefore_perm cmp x ys).mem_iff.mp hz
      simp only [List.mem_cons] at this
      rcases this with hz | hz
      · subst hz; exact h.anti _ _ hge
      · exact hs.1 z hz
    · rename_i hlt
      have hxy : cmp x y ≤ 0 := by omega
      simp only [SortedBy, List.pairwise_cons]
      refine ⟨?_, hs.1, hs.2⟩
      intro z hz
      simp only [List.mem_cons] at hz
      rcases hz with hz | hz
      · subst hz; exact hxy
      · exact h.trans _ _ _ hxy (hs.1 z hz)

theorem le_getLast {α : Type} {cmp : α → α → Int} (h : TotalPre cmp) (l : List α) (prev : α)
    (hl : l.getLast? = some prev) (hs : SortedBy cmp l) : ∀ a ∈ l, cmp a prev ≤ 0 := by
  induction l with
  | nil => simp at hl
  | cons y ys ih =>
    intro a ha
    simp only [SortedBy, List.pairwise_cons] at hs
    cases ys with
    | nil =>
      simp at hl ha
      subst hl; subst ha; exact h.refl _
    | cons z zs =>
      have hl' : (z :: zs).getLast? = some prev := by
        simpa [List.getLast?_cons_cons] using hl
      have hprev : prev ∈ z :: zs := List.mem_of_getLast? hl'
      simp only [List.mem_cons] at ha
      rcases ha with ha | ha
      · subst ha; exact hs.1 prev hprev
      · exact ih hl' hs.2 a (by simpa using ha)

theorem sortStep_perm {α : Type} (cmp : α → α → Int) (pre : List α) (x : α) :
    (sortStep cmp pre x).Perm (pre ++ [x]) := by
  unfold sortStep
  split
  · rename_i hl
    have : pre = [] := by
      cases pre with
      | nil => rfl
      | cons a r => simp [List.getLast?_cons] at hl
    subst this; simp
  · split
    · exact (insertBefore_perm cmp x pre).trans (by simpa using (List.perm_append_comm (l₁ := [x]) (l₂ := pre)))
    · exact List.Perm.refl _

theorem sortStep_sorted {α : Type} {cmp : α → α → Int} (h : TotalPre cmp) (pre : List α) (x : α)
    (hs : SortedBy cmp pre) : SortedBy cmp (sortStep cmp pre x) := by
  unfold sortStep
  split
  · simp [SortedBy]
  · rename_i prev hl
    split
    · exact insertBefore_sorted h x pre hs
    · rename_i hge
      have hpx : cmp prev x ≤ 0 := h.anti _ _ (by omega)
      simp only [SortedBy, List.pairwise_append, List.pairwise_cons, List.mem_singleton]
      refine ⟨hs, by simp, ?_⟩
      intro a ha b hb
      subst hb
      exact h.trans _ _ _ (le_getLast h pre prev hl hs a ha) hpx

theorem foldl_sortStep {α : Type} {cmp : α → α → Int} (h : TotalPre cmp) (l acc : List α)
    (hs : SortedBy cmp acc) :
    SortedBy cmp (l.foldl (sortStep cmp) acc) ∧ (l.foldl (sortStep cmp) acc).Perm (acc ++ l) := by
  induction l generalizing acc with
  | nil => simp [hs]
  | cons x rest ih =>
    simp only [List.foldl_cons]
    have h1 := ih (sortStep cmp acc x) (sortStep_sorted h acc x hs)
    refine ⟨h1.1, h1.2.trans ?_⟩
    have := (sortStep_perm cmp acc x).append_right rest
    simpa using this

theorem listSort_sorted {α : Type} {cmp : α → α → Int} (h : TotalPre cmp) (l : List α) :
    SortedBy cmp (listSort cmp l) :=
  (foldl_sortStep h l [] (by simp [SortedBy])).1

theorem listSort_perm {α : Type} {cmp : α → α → Int} (h : TotalPre cmp) (l : List α) :
    (listSort cmp l).Perm l := by
  unfold listSort
  simpa using (foldl_sortStep h l [] (by simp [SortedBy])).2

/-- two strictly sorted lists with the same members are equal -/
theorem strict_sorted_unique {α : Type} {cmp : α → α → Int} (h : TotalPre cmp) :
    ∀ (l₁ l₂ : List α), l₁.Pairwise (fun a b => cmp a b < 0) → l₂.Pairwise (fun a b => cmp a b < 0) →
      (∀ a, a ∈ l₁ ↔ a ∈ l₂) → l₁ = l₂ := by
  intro l₁
  induction l₁ with
  | nil =>
    intro l₂ _ _ hm
    cases l₂ with
    | nil => rfl
    | cons b r => have := (hm b).mpr (by simp); simp at this
  | cons a r₁ ih =>
    intro l₂ h1 h2 hm
    cases l₂ with
    | nil => have := (hm a).mp (by simp); simp at this
    | cons b r₂ =>
      simp only [List.pairwise_cons] at h1 h2
      have irr : ∀ x, ¬ cmp x x < 0 := fun x hx => by have := h.asym x x hx; omega
      have hab : a = b := by
        have ha := (hm a).mp (by simp)
        have hb := (hm b).mpr (by simp)
        simp only [List.mem_cons] at ha hb
        rcases ha with ha | ha
        · exact ha
        · rcases hb with hb | hb
          · exact hb.symm
          · have c1 := h2.1 a ha
            have c2 := h1.1 b hb
            have := h.asym _ _ c1
            omega
      subst hab
      have hr : ∀ x, x ∈ r₁ ↔ x ∈ r₂ := by
        intro x
        constructor
        · intro hx
          have := (hm x).mp (by simp [hx])
          simp only [List.mem_cons] at this
          rcases this with e | e
          · subst e; exact absurd (h1.1 x hx) (irr x)
          · exact e
        · intro hx
          have := (hm x).mpr (by simp [hx])
          simp only [List.mem_cons] at this
          rcases this with e | e
          · subst e; exact absurd (h2.1 x hx) (irr x)
          · exact e
      rw [ih r₂ h1.2 h2.2 hr]

/-- sorting is independent of the input order when no two members compare equal -/
theorem listSort_unique {α : Type} {cmp : α → α → Int} (h : TotalPre cmp) (l₁ l₂ : List α)
    (hn1 : l₁.Nodup) (hn2 : l₂.Nodup) (hm : ∀ a, a ∈ l₁ ↔ a ∈ l₂)
    (hkey : ∀ a ∈ l₁, ∀ b ∈ l₁, a ≠ b → cmp a b ≠ 0) :
    listSort cmp l₁ = listSort cmp l₂ := by
  have strict : ∀ (l : List α), l.Nodup → (∀ a ∈ l, ∀ b ∈ l, a ≠ b → cmp a b ≠ 0) →
      (listSort cmp l).Pairwise (fun a b => cmp a b < 0) := by
    intro l hn hk
    have hs := listSort_sorted h l
    have hp := listSort_perm h l
    have hn' : (listSort cmp l).Nodup := hp.nodup_iff.mpr hn
    unfold SortedBy at hs
    have both := hs.and hn'
    refine both.imp_of_mem ?_
    intro a b ha hb hab
    have ha' := hp.mem_iff.mp ha
    have hb' := hp.mem_iff.mp hb
    have := hk a ha' b hb' hab.2
    omega
  have hk2 : ∀ a ∈ l₂, ∀ b ∈ l₂, a ≠ b → cmp a b ≠ 0 :=
    fun a ha b hb => hkey a ((hm a).mpr ha) b ((hm b).mpr hb)
  apply strict_sorted_unique h _ _ (strict l₁ hn1 hkey) (strict l₂ hn2 hk2)
  intro a
  rw [(listSort_perm h l₁).mem_iff, (listSort_perm h l₂).mem_iff]
  exact hm a

/-! ### strcmp and _cmp_f -/

theorem strcmp_vals (a b : Str) : strcmp a b = -1 ∨ strcmp a b = 0 ∨ strcmp a b = 1 := by
  induction a generalizing b with
  | nil => cases b <;> simp [strcmp]
  | cons x xs ih =>
    cases b with
    | nil => simp [strcmp]
    | cons y ys =>
      simp only [strcmp]
      split
      · simp
      · split
        · simp
        · exact ih ys

theorem strcmp_swap (a b : Str) : strcmp b a = - strcmp a b := by
  induction a generalizing b with
  | nil => cases b <;> simp [strcmp]
  | cons x xs ih =>
    cases b with
    | nil => simp [strcmp]
    | cons y ys =>
      simp only [strcmp]
      by_cases h1 : x.toNat < y.toNat
      · have : ¬ y.toNat < x.toNat := by omega
        simp [h1, this]
      · by_cases h2 : x.toNat > y.toNat
        · have : y.toNat < x.toNat := h2
          simp [h1, this]
        · have h3 : ¬ y.toNat < x.toNat := by omega
          have h4 : ¬ y.toNat > x.toNat := by omega
          simp [h1, h2, h3, h4, ih ys]

theorem strcmp_eq_zero (a b : Str) (h : strcmp a b = 0) : a = b := by
  induction a generalizing b with
  | nil => cases b <;> simp [strcmp] at h ⊢
  | cons x xs ih =>
    cases b with
    | nil => simp [strcmp] at h
    | cons y ys =>
      simp only [strcmp] at h
      split at h
      · simp at h
      · split at h
        · simp at h
        · rename_i h1 h2
          have : x.toNat = y.toNat := by omega
          have hxy : x = y := Char.toNat_inj.mp this
          rw [hxy, ih ys h]

theorem strcmp_trans (a b c : Str) (h1 : strcmp a b ≤ 0) (h2 : strcmp b c ≤ 0) : strcmp a c ≤ 0 := by
  induction a generalizing b c with
  | nil => cases c <;> simp [strcmp]
  | cons x xs ih =>
    cases b with
    | nil => simp [strcmp] at h1
    | cons y ys =>
      cases c with
      | nil => simp [strcmp] at h2
      | cons z zs =>
        simp only [strcmp] at h1 h2 ⊢
        by_cases a1 : x.toNat < y.toNat
        · by_cases b1 : y.toNat < z.toNat
          · have : x.toNat < z.toNat := by omega
            simp [this]
          · by_cases b2 : y.toNat > z.toNat
            · simp [b1, b2] at h2
            · have : x.toNat < z.toNat := by omega
              simp [this]
        · by_cases a2 : x.toNat > y.toNat
          · simp [a1, a2] at h1
          · simp only [a1, a2, if_false] at h1
            by_cases b1 : y.toNat < z.toNat
            · have : x.toNat < z.toNat := by omega
              simp [this]
            · by_cases b2 : y.toNat > z.toNat
              · simp [b1, b2] at h2
              · simp only [b1, b2, if_false] at h2
                have e1 : ¬ x.toNat < z.toNat := by omega
                have e2 : ¬ x.toNat > z.toNat := by omega
                simp only [e1, e2, if_false]
                exact ih ys zs h1 h2

theorem cmpF_totalPre : TotalPre cmpF := by
  refine ⟨?_, ?_, ?_⟩
  · intro a b h
    unfold cmpF at h ⊢
    by_cases e : a.prio = b.prio
    · rw [if_pos e] at h; rw [if_pos e.symm, strcmp_swap]; omega
    · rw [if_neg e] at h; rw [if_neg (fun x => e x.symm)]; omega
  · intro a b h
    unfold cmpF at h ⊢
    by_cases e : a.prio = b.prio
    · rw [if_pos e] at h; rw [if_pos e.symm, strcmp_swap]; omega
    · rw [if_neg e] at h; rw [if_neg (fun x => e x.symm)]; omega
  · intro a b c h1 h2
    unfold cmpF at h1 h2 ⊢
    by_cases e1 : a.prio = b.prio
    · by_cases e2 : b.prio = c.prio
      · rw [if_pos e1] at h1; rw [if_pos e2] at h2; rw [if_pos (e1.trans e2)]
        exact strcmp_trans _ _ _ h1 h2
      · rw [if_pos e1] at h1; rw [if_neg e2] at h2
        rw [if_neg (fun x => e2 (e1.symm.trans x))]
        omega
    · by_cases e2 : b.prio = c.prio
      · rw [if_neg e1] at h1; rw [if_pos e2] at h2
        rw [if_neg (fun x => e1 (x.trans e2.symm))]
        omega
      · rw [if_neg e1] at h1; rw [if_neg e2] at h2
        by_cases e3 : a.prio = c.prio
        · omega
        · rw [if_neg e3]; omega

theorem cmpF_eq_zero (a b : Mod) (h : cmpF a b = 0) : a.prio = b.prio ∧ a.name = b.name := by
  unfold cmpF at h
  by_cases e : a.prio = b.prio
  · rw [if_pos e] at h
    exact ⟨e, strcmp_eq_zero _ _ h⟩
  · rw [if_neg e] at h
    omega

end PdshVerif.Mod
